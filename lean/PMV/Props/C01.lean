import PMV.Model.MaskPath
import PMV.Lemmas.MaskBcast
/-
  C01 — masks propagate exactly through arithmetic: masked in, masked out, nothing more.
  Property theorems about the code-shaped definitions of PMV/Model/MaskPath.lean.  Core Lean only.

  `m.atB i` is the observation: the mask seen from result index `i`
  (`np.broadcast_to(mask, shape)[i]`).  Shapes are arbitrary lists (any rank, zero-length axes,
  the empty shape `()`); nothing below is bounded.
-/
namespace PMV.MaskPath
open PMV

/-- the projection of `i` onto shape `s` is a real index of `s` (true for every valid index of a
    shape that `s` broadcasts into) -/
abbrev VB (s : Shape) (i : Index) : Prop := Valid s (bidx s i)

theorem vb_of_valid {s t : Shape} (h : bcast s t = some t) {i : Index} (hv : Valid t i) : VB s i :=
  valid_bidx s t h i hv

theorem vb_self {s : Shape} {i : Index} (hv : Valid s i) : VB s i := valid_bidx_self s i hv

theorem anyTrue_false {a : Arr Bool} (h : anyTrue a = false) {i : Index} (hv : VB a.shape i) :
    a.get (bidx a.shape i) = false := by
  unfold anyTrue at h
  rw [List.any_eq_false] at h
  have := h _ (mem_indices _ _ hv)
  simpa using this

theorem bidx_nil (i : Index) : bidx [] i = [] := by
  unfold bidx; simp [bidxRev]

theorem anyTrue_shapeless {a : Arr Bool} (h : a.shape = []) (i : Index) :
    anyTrue a = a.get (bidx a.shape i) := by
  unfold anyTrue; rw [h, bidx_nil]; simp [indices]

/-- a mask that fits a shape is unchanged by projecting the index onto that shape first -/
theorem atB_proj {m : Mask} {s : Shape} (h : m.Fits s) (i : Index) : m.atB (bidx s i) = m.atB i := by
  cases m with
  | all b => rfl
  | arr a => simp only [Mask.Fits] at h; subst h; simp only [Mask.atB, bidx_idem]

/-! ### `Qube.or_`: the expanded result is the point-wise OR, for all four representation pairs
     and the `is` shortcut, whatever the (broadcast-compatible) shapes -/

theorem or_at (same : Bool) (m0 m1 m : Mask) (hs : same = true → m0 = m1)
    (h : or_ same m0 m1 = some m) (i : Index) : m.atB i = (m0.atB i || m1.atB i) := by
  cases m0 with
  | all b0 =>
    cases b0 <;> simp only [or_] at h <;> cases h <;> simp [Mask.atB]
  | arr a0 =>
    cases m1 with
    | all b1 => cases b1 <;> simp only [or_] at h <;> cases h <;> simp [Mask.atB]
    | arr a1 =>
      cases same with
      | true =>
        have e := hs rfl
        simp only [or_] at h
        cases h
        rw [← e]; simp
      | false =>
        simp only [or_, Arr.map2, Option.map_map] at h
        cases hb : bcast a0.shape a1.shape with
        | none => simp [hb] at h
        | some o =>
          simp only [hb, Option.map_some] at h
          cases h
          obtain ⟨e0, e1⟩ := bidx_bidx_of_bcast _ _ _ hb i
          simp only [Mask.atB, Function.comp, e0, e1]

/-- no ValueError for broadcast-compatible operands; the result fits one of the three shapes -/
theorem or_defined (same : Bool) (m0 m1 : Mask) (s0 s1 out : Shape)
    (h0 : m0.Fits s0) (h1 : m1.Fits s1) (hb : bcast s0 s1 = some out) :
    ∃ m, or_ same m0 m1 = some m ∧ (m.Fits s0 ∨ m.Fits s1 ∨ m.Fits out) := by
  cases m0 with
  | all b0 =>
    cases b0
    · exact ⟨m1, by simp [or_], Or.inr (Or.inl h1)⟩
    · exact ⟨.all true, by simp [or_], Or.inl trivial⟩
  | arr a0 =>
    cases m1 with
    | all b1 =>
      cases b1
      · exact ⟨.arr a0, by simp [or_], Or.inl h0⟩
      · exact ⟨.all true, by simp [or_], Or.inl trivial⟩
    | arr a1 =>
      simp only [Mask.Fits] at h0 h1
      cases same with
      | true => exact ⟨_, rfl, Or.inl h0⟩
      | false =>
        subst h0; subst h1
        simp [or_, Arr.map2, hb, Mask.Fits]

theorem and_at (same : Bool) (m0 m1 m : Mask) (hs : same = true → m0 = m1)
    (h : and_ same m0 m1 = some m) (i : Index) : m.atB i = (m0.atB i && m1.atB i) := by
  cases m0 with
  | all b0 =>
    cases b0 <;> simp only [and_] at h <;> cases h <;> simp [Mask.atB]
  | arr a0 =>
    cases m1 with
    | all b1 => cases b1 <;> simp only [and_] at h <;> cases h <;> simp [Mask.atB]
    | arr a1 =>
      cases same with
      | true =>
        have e := hs rfl
        simp only [and_] at h
        cases h
        rw [← e]; simp
      | false =>
        simp only [and_, Arr.map2, Option.map_map] at h
        cases hb : bcast a0.shape a1.shape with
        | none => simp [hb] at h
        | some o =>
          simp only [hb, Option.map_some] at h
          cases h
          obtain ⟨e0, e1⟩ := bidx_bidx_of_bcast _ _ _ hb i
          simp only [Mask.atB, Function.comp, e0, e1]

theorem orPipe_at (m0 m1 m : Mask) (h : orPipe m0 m1 = some m) (i : Index) :
    m.atB i = (m0.atB i || m1.atB i) := by
  cases m0 with
  | all b0 =>
    cases m1 with
    | all b1 => simp only [orPipe] at h; cases h; rfl
    | arr a1 => simp only [orPipe] at h; cases h; simp [Mask.atB, Arr.map]
  | arr a0 =>
    cases m1 with
    | all b1 => simp only [orPipe] at h; cases h; simp [Mask.atB, Arr.map]
    | arr a1 =>
      simp only [orPipe, Arr.map2, Option.map_map] at h
      cases hb : bcast a0.shape a1.shape with
      | none => simp [hb] at h
      | some o =>
        simp only [hb, Option.map_some] at h
        cases h
        obtain ⟨e0, e1⟩ := bidx_bidx_of_bcast _ _ _ hb i
        simp only [Mask.atB, Function.comp, e0, e1]

theorem orList3_at (m0 m1 m2 m : Mask) (h : orList [m0, m1, m2] = some m) (i : Index) :
    m.atB i = (m0.atB i || m1.atB i || m2.atB i) := by
  simp only [orList, Option.bind_eq_some_iff] at h
  obtain ⟨r, ⟨r', hr', hr⟩, hm⟩ := h
  cases hr'
  rw [or_at false _ _ _ (by simp) hm i, or_at false _ _ _ (by simp) hr i, Bool.or_assoc]

/-! ### `_suitable_mask`: constructor normalisation never changes the expanded mask -/

theorem suitableMask_at (check : Bool) (m m' : Mask) (shape : Shape)
    (h : suitableMask check m shape = some m') (i : Index) (hv : VB shape i) :
    m'.atB i = m.atB i := by
  cases m with
  | all b => simp only [suitableMask] at h; cases h; rfl
  | arr a =>
    simp only [suitableMask] at h
    split at h
    · rename_i hs
      split at h
      · rename_i hc
        cases h
        simp only [Bool.and_eq_true, Bool.not_eq_true'] at hc
        simp only [Mask.atB]
        rw [anyTrue_false hc.2 (by rw [hs]; exact hv)]
      · cases h; rfl
    · split at h
      · rename_i hb
        cases h
        simp only [Mask.atB, Arr.bto, bidx_bidx_into _ _ hb]
      · cases h

theorem suitableMask_fits (check : Bool) (m m' : Mask) (shape : Shape)
    (h : suitableMask check m shape = some m') : m'.Fits shape := by
  cases m with
  | all b => simp only [suitableMask] at h; cases h; trivial
  | arr a =>
    simp only [suitableMask] at h
    split at h
    · rename_i hs
      split at h
      · cases h; trivial
      · cases h; exact hs
    · split at h
      · cases h; rfl
      · cases h

/-- a mask that fits the shape, or a smaller shape that broadcasts into it, is accepted -/
theorem suitableMask_defined (check : Bool) (m : Mask) (s shape : Shape) (hf : m.Fits s)
    (hb : bcast s shape = some shape) : ∃ m', suitableMask check m shape = some m' := by
  cases m with
  | all b => exact ⟨_, rfl⟩
  | arr a =>
    simp only [Mask.Fits] at hf
    subst hf
    simp only [suitableMask]
    split
    · split <;> exact ⟨_, rfl⟩
    · simp [hb]

theorem ctor_at (m m' : Mask) (shape : Shape) (h : ctor m shape = some m') (i : Index)
    (hv : VB shape i) : m'.atB i = m.atB i := by
  simp only [ctor, or_, Bool.false_eq_true, if_false, Option.bind_some] at h
  exact suitableMask_at _ _ _ _ h i hv

theorem ctor_fits (m m' : Mask) (shape : Shape) (h : ctor m shape = some m') : m'.Fits shape := by
  simp only [ctor, or_, Bool.false_eq_true, if_false, Option.bind_some] at h
  exact suitableMask_fits _ _ _ _ h

/-! ### `mask_where` (nothing selected / shapeless / array branches) -/

theorem setitem_at (m : Mask) (shape : Shape) (s : Arr Bool) (hm : m.Fits shape) (hs : s.shape = shape)
    (i : Index) : ((setitemMask m shape s).atB i || (Mask.arr s).atB i) = (m.atB i || (Mask.arr s).atB i) := by
  cases m with
  | all b => cases b <;> simp [setitemMask, Mask.atB, hs]
  | arr a =>
    simp only [Mask.Fits] at hm
    simp only [setitemMask, Mask.atB, hs, hm]
    cases a.get (bidx shape i) <;> cases s.get (bidx shape i) <;> rfl

theorem remaskOr_at (m sel r : Mask) (shape : Shape) (h : remaskOr m shape sel = some r) (i : Index)
    (hv : VB shape i) : r.atB i = (m.atB i || sel.atB i) := by
  simp only [remaskOr, Option.bind_eq_some_iff] at h
  obtain ⟨s, hs, o, ho, hr⟩ := h
  rw [suitableMask_at _ _ _ _ hr i hv, or_at false _ _ _ (by simp) ho i, suitableMask_at _ _ _ _ hs i hv]

theorem remaskOr_fits (m sel r : Mask) (shape : Shape) (h : remaskOr m shape sel = some r) :
    r.Fits shape := by
  simp only [remaskOr, Option.bind_eq_some_iff] at h
  obtain ⟨s, _, o, _, hr⟩ := h
  exact suitableMask_fits _ _ _ _ hr

/-- `mask_where`: the new mask is the old one OR the selection, whichever branch is taken -/
theorem maskWhere_at (o : Opd) (sel m : Mask) (replace : Bool) (hf : o.mask.Fits o.shape)
    (h : maskWhere o sel replace = some m) (i : Index) (hv : VB o.shape i) :
    m.atB i = (o.mask.atB i || sel.atB i) ∧ m.Fits o.shape := by
  simp only [maskWhere, Option.bind_eq_some_iff] at h
  obtain ⟨sel', hsel, h⟩ := h
  have e := suitableMask_at _ _ _ _ hsel i hv
  have fit := suitableMask_fits _ _ _ _ hsel
  rw [← e]
  cases sel' with
  | all b =>
    cases b with
    | false =>
      simp only [Mask.any, Bool.not_false, if_true, Option.some.injEq] at h
      subst h
      exact ⟨by simp [Mask.atB], hf⟩
    | true =>
      simp only [Mask.any, Bool.not_true, Bool.false_eq_true, if_false] at h
      by_cases hshape : o.shape = []
      · rw [if_pos hshape] at h
        cases h
        exact ⟨by simp [Mask.atB], trivial⟩
      · rw [if_neg hshape] at h
        have h' : remaskOr o.mask o.shape (.all true) = some m := by
          cases replace <;> simpa using h
        exact ⟨remaskOr_at _ _ _ _ h' i hv, remaskOr_fits _ _ _ _ h'⟩
  | arr a =>
    simp only [Mask.Fits] at fit
    by_cases hany : anyTrue a = true
    · simp only [Mask.any, hany, Bool.not_true, Bool.false_eq_true, if_false] at h
      by_cases hshape : o.shape = []
      · rw [if_pos hshape] at h
        cases h
        refine ⟨?_, trivial⟩
        simp only [Mask.atB]
        rw [← anyTrue_shapeless (by rw [fit, hshape]) i, hany]; simp
      · rw [if_neg hshape] at h
        cases replace with
        | false =>
          simp only [Bool.not_false, if_true] at h
          exact ⟨remaskOr_at _ _ _ _ h i hv, remaskOr_fits _ _ _ _ h⟩
        | true =>
          simp only [Bool.not_true, Bool.false_eq_true, if_false] at h
          refine ⟨?_, remaskOr_fits _ _ _ _ h⟩
          rw [remaskOr_at _ _ _ _ h i hv]
          exact setitem_at _ _ _ hf fit i
    · simp only [Bool.not_eq_true] at hany
      simp only [Mask.any, hany, Bool.not_false, if_true, Option.some.injEq] at h
      subst h
      refine ⟨?_, hf⟩
      simp only [Mask.atB]
      rw [anyTrue_false hany (by rw [fit]; exact hv)]; simp

theorem selAny_false_at (o : Opd) (sel : Mask) (h : selAny o sel = false)
    (hd : (suitableMask false sel o.shape).isSome) (i : Index) (hv : VB o.shape i) :
    sel.atB i = false := by
  unfold selAny at h
  cases hs : suitableMask false sel o.shape with
  | none => simp [hs] at hd
  | some s =>
    rw [hs] at h
    rw [← suitableMask_at _ _ _ _ hs i hv]
    have fit := suitableMask_fits _ _ _ _ hs
    cases s with
    | all b => simpa [Mask.atB] using h
    | arr a =>
      simp only [Mask.Fits] at fit
      simp only at h
      simp only [Mask.atB]
      exact anyTrue_false h (by rw [fit]; exact hv)

/-- if `mask_where` selected nothing it returned the operand's own mask (so `is` may succeed) -/
theorem maskWhere_unchanged (o : Opd) (sel m : Mask) (replace : Bool)
    (h : maskWhere o sel replace = some m) (hs : selAny o sel = false) : m = o.mask := by
  simp only [maskWhere, Option.bind_eq_some_iff] at h
  obtain ⟨sel', hsel, h⟩ := h
  unfold selAny at hs
  rw [hsel] at hs
  cases sel' with
  | all b =>
    simp only at hs
    subst hs
    simp only [Mask.any, Bool.not_false, if_true, Option.some.injEq] at h
    exact h.symm
  | arr a =>
    simp only at hs
    simp only [Mask.any, hs, Bool.not_false, if_true, Option.some.injEq] at h
    exact h.symm

/-! ### the failure set selected by `np.any` shortcuts -/

theorem anyF_false_at (fail : Mask) (fs : Shape) (hf : fail.Fits fs)
    (h : fail.any = false) (i : Index) (hv : VB fs i) : fail.atB i = false := by
  cases fail with
  | all b => simpa [Mask.atB, Mask.any] using h
  | arr f =>
    simp only [Mask.Fits] at hf
    simp only [Mask.any] at h
    simp only [Mask.atB]
    exact anyTrue_false h (by rw [hf]; exact hv)

theorem any_true_shapeless (fail : Mask) (hf : fail.Fits []) (h : fail.any = true) (i : Index) :
    fail.atB i = true := by
  cases fail with
  | all b => simpa [Mask.atB, Mask.any] using h
  | arr f =>
    simp only [Mask.Fits] at hf
    simp only [Mask.any] at h
    simp only [Mask.atB]
    rw [← anyTrue_shapeless hf i, h]

/-! ### mask_exact, one theorem per mask path -/

section paths
variable (a b c : Opd) (fail : Mask) (s : Shape) (m : Mask)

theorem mask_exact_cloneSet (h : run .cloneSet [a] fail = some (s, m)) :
    s = a.shape ∧ ∀ i, m.atB i = a.mask.atB i := by
  simp only [run, Option.some.injEq, Prod.mk.injEq] at h
  obtain ⟨rfl, rfl⟩ := h
  exact ⟨rfl, fun _ => rfl⟩

theorem mask_exact_setTrue (h : run .setTrue [a] fail = some (s, m)) :
    s = a.shape ∧ m.Fits s ∧ ∀ i, m.atB i = true := by
  simp only [run, suitableMask, Option.map_some, Option.some.injEq, Prod.mk.injEq] at h
  obtain ⟨rfl, rfl⟩ := h
  exact ⟨rfl, trivial, fun _ => rfl⟩

theorem mask_exact_ctor1 (h : run .ctor1 [a] fail = some (s, m)) :
    s = a.shape ∧ m.Fits s ∧ ∀ i, Valid s i → m.atB i = a.mask.atB i := by
  simp only [run, Option.map_eq_some_iff, Prod.mk.injEq] at h
  obtain ⟨m', hm, rfl, rfl⟩ := h
  exact ⟨rfl, ctor_fits _ _ _ hm, fun i hv => ctor_at _ _ _ hm i (vb_self hv)⟩

theorem mask_exact_ctorOr (same : Bool) (hs : same = true → a.mask = b.mask)
    (h : run (.ctorOr same) [a, b] fail = some (s, m)) :
    bcast a.shape b.shape = some s ∧ m.Fits s ∧
    ∀ i, Valid s i → m.atB i = (a.mask.atB i || b.mask.atB i) := by
  simp only [run, Option.bind_eq_some_iff, Option.map_eq_some_iff, Prod.mk.injEq] at h
  obtain ⟨out, hb, m1, h1, m2, h2, rfl, rfl⟩ := h
  refine ⟨hb, ctor_fits _ _ _ h2, fun i hv => ?_⟩
  rw [ctor_at _ _ _ h2 i (vb_self hv), or_at same _ _ _ hs h1 i]

theorem mask_exact_ctorOr3 (h : run .ctorOr3 [a, b, c] fail = some (s, m)) :
    (∃ bc, bcast b.shape c.shape = some bc ∧ bcast a.shape bc = some s) ∧ m.Fits s ∧
    ∀ i, Valid s i → m.atB i = (a.mask.atB i || b.mask.atB i || c.mask.atB i) := by
  simp only [run, Option.bind_eq_some_iff, Option.map_eq_some_iff, Prod.mk.injEq] at h
  obtain ⟨bc, hbc, out, hb, m1, h1, m2, h2, rfl, rfl⟩ := h
  refine ⟨⟨bc, hbc, hb⟩, ctor_fits _ _ _ h2, fun i hv => ?_⟩
  rw [ctor_at _ _ _ h2 i (vb_self hv), orList3_at _ _ _ _ h1 i]

theorem mask_exact_divScalar (same : Bool) (hs : same = true → a.mask = b.mask)
    (hfb : b.mask.Fits b.shape)
    (h : run (.divScalar same) [a, b] fail = some (s, m)) :
    bcast a.shape b.shape = some s ∧ m.Fits s ∧
    ∀ i, Valid s i → m.atB i = (a.mask.atB i || b.mask.atB i || fail.atB i) := by
  simp only [run, Option.bind_eq_some_iff, Option.map_eq_some_iff, Prod.mk.injEq] at h
  obtain ⟨out, hb, bm, hbm, m1, h1, m2, h2, rfl, rfl⟩ := h
  refine ⟨hb, ctor_fits _ _ _ h2, fun i hv => ?_⟩
  have vbb : VB b.shape i := vb_of_valid (bcast_absorb _ _ _ hb).2 hv
  have hs' : (same && !selAny b fail) = true → a.mask = bm := by
    intro hh
    simp only [Bool.and_eq_true, Bool.not_eq_true'] at hh
    rw [maskWhere_unchanged _ _ _ _ hbm hh.2]; exact hs hh.1
  rw [ctor_at _ _ _ h2 i (vb_self hv), or_at _ _ _ _ hs' h1 i, (maskWhere_at _ _ _ _ hfb hbm i vbb).1,
    Bool.or_assoc]

theorem mask_exact_divPipe (hfb : b.mask.Fits b.shape)
    (h : run .divPipe [a, b] fail = some (s, m)) :
    bcast a.shape b.shape = some s ∧ m.Fits s ∧
    ∀ i, Valid s i → m.atB i = (a.mask.atB i || b.mask.atB i || fail.atB i) := by
  simp only [run, Option.bind_eq_some_iff, Option.map_eq_some_iff, Prod.mk.injEq] at h
  obtain ⟨out, hb, bm, hbm, m1, h1, m2, h2, rfl, rfl⟩ := h
  refine ⟨hb, ctor_fits _ _ _ h2, fun i hv => ?_⟩
  have vbb : VB b.shape i := vb_of_valid (bcast_absorb _ _ _ hb).2 hv
  rw [ctor_at _ _ _ h2 i (vb_self hv), orPipe_at _ _ _ h1 i, (maskWhere_at _ _ _ _ hfb hbm i vbb).1,
    Bool.or_assoc]

theorem mask_exact_guard (hfa : a.mask.Fits a.shape) (h : run .guard [a] fail = some (s, m)) :
    s = a.shape ∧ m.Fits s ∧ ∀ i, Valid s i → m.atB i = (a.mask.atB i || fail.atB i) := by
  simp only [run, Option.bind_eq_some_iff, Option.map_eq_some_iff, Prod.mk.injEq] at h
  obtain ⟨m1, h1, m2, h2, rfl, rfl⟩ := h
  refine ⟨rfl, ctor_fits _ _ _ h2, fun i hv => ?_⟩
  rw [ctor_at _ _ _ h2 i (vb_self hv), (maskWhere_at _ _ _ _ hfa h1 i (vb_self hv)).1]

theorem mask_exact_guardAsin (hff : fail.Fits a.shape) (h : run .guardAsin [a] fail = some (s, m)) :
    s = a.shape ∧ m.Fits s ∧ ∀ i, Valid s i → m.atB i = (a.mask.atB i || fail.atB i) := by
  simp only [run, Option.bind_eq_some_iff, Option.map_eq_some_iff, Prod.mk.injEq] at h
  obtain ⟨m1, h1, m2, h2, rfl, rfl⟩ := h
  refine ⟨rfl, ctor_fits _ _ _ h2, fun i hv => ?_⟩
  rw [ctor_at _ _ _ h2 i (vb_self hv)]
  by_cases hany : fail.any = true
  · simp only [hany, if_true] at h1
    cases fail with
    | all bb =>
      simp only [Mask.any] at hany
      subst hany
      simp only [Option.some.injEq] at h1; subst h1; simp [Mask.atB]
    | arr f =>
      simp only at h1
      exact or_at false _ _ _ (by simp) h1 i
  · simp only [hany, Bool.false_eq_true, if_false, Option.some.injEq] at h1
    subst h1
    simp only [Bool.not_eq_true] at hany
    rw [anyF_false_at fail a.shape hff hany i (vb_self hv)]; simp

theorem mask_exact_pow0D (same : Bool) (hs : same = true → a.mask = b.mask) (hff : fail.Fits [])
    (h : run (.pow0D same) [a, b] fail = some (s, m)) :
    a.shape = [] ∧ b.shape = [] ∧ s = [] ∧ m.Fits s ∧
    ∀ i, Valid s i → m.atB i = (a.mask.atB i || b.mask.atB i || fail.atB i) := by
  simp only [run] at h
  by_cases hsh : a.shape = [] ∧ b.shape = []
  · rw [if_pos hsh] at h
    by_cases hany : fail.any = true
    · simp only [hany, if_true, Option.some.injEq, Prod.mk.injEq] at h
      obtain ⟨rfl, rfl⟩ := h
      refine ⟨hsh.1, hsh.2, rfl, trivial, fun i _ => ?_⟩
      rw [any_true_shapeless fail hff hany i]; simp [Mask.atB]
    · simp only [hany, Bool.false_eq_true, if_false, Option.bind_eq_some_iff, Option.map_eq_some_iff,
        Prod.mk.injEq] at h
      obtain ⟨m1, h1, m2, h2, rfl, rfl⟩ := h
      refine ⟨hsh.1, hsh.2, rfl, ctor_fits _ _ _ h2, fun i hv => ?_⟩
      simp only [Bool.not_eq_true] at hany
      rw [ctor_at _ _ _ h2 i (vb_self hv), or_at same _ _ _ hs h1 i,
        anyF_false_at fail [] hff hany i (vb_self hv)]; simp
  · rw [if_neg hsh] at h; cases h

theorem mask_exact_powArr (same : Bool) (hs : same = true → a.mask = b.mask)
    (hff : ∀ o, bcast a.shape b.shape = some o → fail.Fits o)
    (h : run (.powArr same) [a, b] fail = some (s, m)) :
    bcast a.shape b.shape = some s ∧ m.Fits s ∧
    ∀ i, Valid s i → m.atB i = (a.mask.atB i || b.mask.atB i || fail.atB i) := by
  simp only [run, Option.bind_eq_some_iff, Option.map_eq_some_iff, Prod.mk.injEq] at h
  obtain ⟨out, hb, m1, h1, m2, h2, m3, h3, rfl, rfl⟩ := h
  refine ⟨hb, ctor_fits _ _ _ h3, fun i hv => ?_⟩
  rw [ctor_at _ _ _ h3 i (vb_self hv)]
  by_cases hany : fail.any = true
  · simp only [hany, if_true] at h2
    rw [or_at false _ _ _ (by simp) h2 i, or_at same _ _ _ hs h1 i]
  · simp only [hany, Bool.false_eq_true, if_false, Option.some.injEq] at h2
    subst h2
    simp only [Bool.not_eq_true] at hany
    rw [or_at same _ _ _ hs h1 i, anyF_false_at fail _ (hff _ hb) hany i (vb_self hv)]
    simp

theorem mask_exact_elementDiv (same : Bool) (hs : same = true → a.mask = b.mask)
    (hff : fail.Fits b.shape)
    (h : run (.elementDiv same) [a, b] fail = some (s, m)) :
    bcast a.shape b.shape = some s ∧ m.Fits s ∧
    ∀ i, Valid s i → m.atB i = (a.mask.atB i || b.mask.atB i || fail.atB i) := by
  simp only [run, Option.bind_eq_some_iff, Option.map_eq_some_iff, Prod.mk.injEq] at h
  obtain ⟨out, hb, dm, hdm, m1, h1, m2, h2, rfl, rfl⟩ := h
  refine ⟨hb, ctor_fits _ _ _ h2, fun i hv => ?_⟩
  have vbb : VB b.shape i := vb_of_valid (bcast_absorb _ _ _ hb).2 hv
  rw [ctor_at _ _ _ h2 i (vb_self hv)]
  by_cases hany : fail.any = true
  · simp only [hany, if_true, Bool.not_true, Bool.and_false] at hdm h1
    rw [or_at false _ _ _ (by simp) h1 i, or_at false _ _ _ (by simp) hdm i, Bool.or_assoc]
  · simp only [Bool.not_eq_true] at hany
    simp only [hany, Bool.false_eq_true, if_false, Option.some.injEq, Bool.not_false, Bool.and_true] at hdm h1
    subst hdm
    rw [or_at same _ _ _ hs h1 i, anyF_false_at fail _ hff hany i vbb]; simp

theorem mask_exact_matInverse (hff : fail.Fits a.shape) (h : run .matInverse [a] fail = some (s, m)) :
    s = a.shape ∧ m.Fits s ∧ ∀ i, Valid s i → m.atB i = (a.mask.atB i || fail.atB i) := by
  simp only [run, Option.bind_eq_some_iff, Option.map_eq_some_iff, Prod.mk.injEq] at h
  obtain ⟨m1, h1, m2, h2, rfl, rfl⟩ := h
  refine ⟨rfl, ctor_fits _ _ _ h2, fun i hv => ?_⟩
  rw [ctor_at _ _ _ h2 i (vb_self hv)]
  by_cases hany : fail.any = true
  · simp only [hany, if_true] at h1
    exact or_at false _ _ _ (by simp) h1 i
  · simp only [hany, Bool.false_eq_true, if_false, Option.some.injEq] at h1
    subst h1
    simp only [Bool.not_eq_true] at hany
    rw [anyF_false_at fail a.shape hff hany i (vb_self hv)]; simp

end paths

/-! ### mask_exact: every path at once -/

/-- For every mask path, every operand list whose masks fit their shapes (single bool, array,
    broadcast view — any representation), every failure set of the shape the code computes it
    on: if the path produces a result (it always does for broadcast-compatible operands) then
    the result shape is the broadcast of the operand shapes and the expanded result mask is the
    union of the operand masks broadcast onto the element and the failure set — nothing more. -/
theorem mask_exact (p : Path) (ops : List Opd) (fail : Mask) (s : Shape) (m : Mask)
    (hfit : ∀ o ∈ ops, o.mask.Fits o.shape) (hsame : p.SameOK ops) (hfail : p.FailFits ops fail)
    (h : run p ops fail = some (s, m)) :
    (∃ fs, p.shapes ops = some (fs, s)) ∧ m.Fits s ∧
    ∀ i, Valid s i → m.atB i = ((ops.any fun o => o.mask.atB i) || p.failAt fail i) := by
  cases p with
  | cloneSet =>
    match ops, h with
    | [a], h =>
      obtain ⟨rfl, e⟩ := mask_exact_cloneSet a fail s m h
      have hm : m = a.mask := by
        simp only [run, Option.some.injEq, Prod.mk.injEq] at h; exact h.2.symm
      exact ⟨⟨_, rfl⟩, hm ▸ hfit a (by simp), fun i _ => by simp [e, Path.failAt]⟩
  | setTrue =>
    match ops, h with
    | [a], h =>
      obtain ⟨rfl, f, e⟩ := mask_exact_setTrue a fail s m h
      exact ⟨⟨_, rfl⟩, f, fun i _ => by simp [e, Path.failAt]⟩
  | ctor1 =>
    match ops, h with
    | [a], h =>
      obtain ⟨rfl, f, e⟩ := mask_exact_ctor1 a fail s m h
      exact ⟨⟨_, rfl⟩, f, fun i hv => by simp [e i hv, Path.failAt]⟩
  | ctorOr same =>
    match ops, h with
    | [a, b], h =>
      have hs : same = true → a.mask = b.mask := by
        intro e; subst e; exact hsame
      obtain ⟨hb, f, e⟩ := mask_exact_ctorOr a b fail s m same hs h
      exact ⟨⟨s, by simp [Path.shapes, hb]⟩, f, fun i hv => by simp [e i hv, Path.failAt]⟩
  | ctorOr3 =>
    match ops, h with
    | [a, b, c], h =>
      obtain ⟨⟨bc, h1, h2⟩, f, e⟩ := mask_exact_ctorOr3 a b c fail s m h
      exact ⟨⟨s, by simp [Path.shapes, h1, h2]⟩, f,
        fun i hv => by simp [e i hv, Path.failAt, Bool.or_assoc]⟩
  | divScalar same =>
    match ops, h with
    | [a, b], h =>
      have hs : same = true → a.mask = b.mask := by
        intro e; subst e; exact hsame
      obtain ⟨hb, f, e⟩ := mask_exact_divScalar a b fail s m same hs (hfit b (by simp)) h
      exact ⟨⟨b.shape, by simp [Path.shapes, hb]⟩, f, fun i hv => by simp [e i hv, Path.failAt]⟩
  | divPipe =>
    match ops, h with
    | [a, b], h =>
      obtain ⟨hb, f, e⟩ := mask_exact_divPipe a b fail s m (hfit b (by simp)) h
      exact ⟨⟨b.shape, by simp [Path.shapes, hb]⟩, f, fun i hv => by simp [e i hv, Path.failAt]⟩
  | guard =>
    match ops, h with
    | [a], h =>
      obtain ⟨rfl, f, e⟩ := mask_exact_guard a fail s m (hfit a (by simp)) h
      exact ⟨⟨_, rfl⟩, f, fun i hv => by simp [e i hv, Path.failAt]⟩
  | guardAsin =>
    match ops, h with
    | [a], h =>
      have hff : fail.Fits a.shape := by simpa [Path.FailFits, Path.shapes] using hfail
      obtain ⟨rfl, f, e⟩ := mask_exact_guardAsin a fail s m hff h
      exact ⟨⟨_, rfl⟩, f, fun i hv => by simp [e i hv, Path.failAt]⟩
  | pow0D same =>
    match ops, h with
    | [a, b], h =>
      have hs : same = true → a.mask = b.mask := by
        intro e; subst e; exact hsame
      have hff : fail.Fits [] := by simpa [Path.FailFits, Path.shapes] using hfail
      obtain ⟨_, _, rfl, f, e⟩ := mask_exact_pow0D a b fail s m same hs hff h
      exact ⟨⟨_, rfl⟩, f, fun i hv => by simp [e i hv, Path.failAt]⟩
  | powArr same =>
    match ops, h with
    | [a, b], h =>
      have hs : same = true → a.mask = b.mask := by
        intro e; subst e; exact hsame
      have hff : ∀ o, bcast a.shape b.shape = some o → fail.Fits o := by
        intro o ho; simpa [Path.FailFits, Path.shapes, ho] using hfail
      obtain ⟨hb, f, e⟩ := mask_exact_powArr a b fail s m same hs hff h
      exact ⟨⟨s, by simp [Path.shapes, hb]⟩, f, fun i hv => by simp [e i hv, Path.failAt]⟩
  | elementDiv same =>
    match ops, h with
    | [a, b], h =>
      have hs : same = true → a.mask = b.mask := by
        intro e; subst e; exact hsame
      have hb' : ∃ o, bcast a.shape b.shape = some o := by
        simp only [run, Option.bind_eq_some_iff] at h
        obtain ⟨o, ho, _⟩ := h; exact ⟨o, ho⟩
      obtain ⟨o, ho⟩ := hb'
      have hff : fail.Fits b.shape := by simpa [Path.FailFits, Path.shapes, ho] using hfail
      obtain ⟨hb, f, e⟩ := mask_exact_elementDiv a b fail s m same hs hff h
      exact ⟨⟨b.shape, by simp [Path.shapes, hb]⟩, f, fun i hv => by simp [e i hv, Path.failAt]⟩
  | matInverse =>
    match ops, h with
    | [a], h =>
      have hff : fail.Fits a.shape := by simpa [Path.FailFits, Path.shapes] using hfail
      obtain ⟨rfl, f, e⟩ := mask_exact_matInverse a fail s m hff h
      exact ⟨⟨_, rfl⟩, f, fun i hv => by simp [e i hv, Path.failAt]⟩

/-- scalar `True` ≡ all-`True` array ≡ broadcast view: operands with equal EXPANDED masks give
    equal expanded result masks, whatever their representations (and whatever `is` shortcuts
    were or were not taken) -/
theorem mask_rep_independent (p : Path) (ops ops' : List Opd) (fail fail' : Mask)
    (s s' : Shape) (m m' : Mask)
    (hfit : ∀ o ∈ ops, o.mask.Fits o.shape) (hfit' : ∀ o ∈ ops', o.mask.Fits o.shape)
    (hsame : p.SameOK ops) (hfail : p.FailFits ops fail) (hfail' : p.FailFits ops' fail')
    (hsame' : p.SameOK ops')
    (heq : ∀ i, (ops.any fun o => o.mask.atB i) = (ops'.any fun o => o.mask.atB i))
    (hfe : ∀ i, p.failAt fail i = p.failAt fail' i) (hss : s = s')
    (h : run p ops fail = some (s, m)) (h' : run p ops' fail' = some (s', m')) :
    ∀ i, Valid s i → m.atB i = m'.atB i := by
  intro i hv
  rw [(mask_exact p ops fail s m hfit hsame hfail h).2.2 i hv,
    (mask_exact p ops' fail' s' m' hfit' hsame' hfail' h').2.2 i (hss ▸ hv), heq, hfe]

/-! ### expression trees of any depth -/

theorem shapes_un (p : Path) (a : Opd) (fs s : Shape) (h : p.shapes [a] = some (fs, s)) : s = a.shape := by
  cases p <;> simp [Path.shapes] at h <;> exact h.2.symm

theorem run_bin_bcast (p : Path) (a b : Opd) (f : Mask) (s : Shape) (m : Mask)
    (h : run p [a, b] f = some (s, m)) : bcast a.shape b.shape = some s := by
  cases p <;> simp only [run] at h <;> try (cases h; done)
  all_goals first
    | (simp only [Option.bind_eq_some_iff, Option.map_eq_some_iff, Prod.mk.injEq] at h
       obtain ⟨out, hb, rest⟩ := h
       have : out = s := by
         first
           | (obtain ⟨_, _, _, _, e, _⟩ := rest; exact e)
           | (obtain ⟨_, _, _, _, _, _, e, _⟩ := rest; exact e)
       rw [← this]; exact hb)
    | (by_cases hsh : a.shape = [] ∧ b.shape = []
       · rw [if_pos hsh] at h
         have hs : s = [] := by
           by_cases hany : f.any = true
           · simp only [hany, if_true, Option.some.injEq, Prod.mk.injEq] at h; exact h.1.symm
           · simp only [hany, Bool.false_eq_true, if_false, Option.bind_eq_some_iff,
               Option.map_eq_some_iff, Prod.mk.injEq] at h
             obtain ⟨_, _, _, _, e, _⟩ := h; exact e.symm
         rw [hs, hsh.1, hsh.2]; rfl
       · rw [if_neg hsh] at h; cases h)

/-- For every expression tree over the catalogue (any depth, any shapes), the expanded mask of
    the value is: masked iff an element of a sub-expression that broadcasts onto it is masked —
    recursively down to the leaves — or a node on the way failed there.  Nothing more. -/
theorem mask_exact_tree (e : MExpr) (hw : e.WF) (r : Opd) (h : e.eval = some r) :
    e.shape = some r.shape ∧ r.mask.Fits r.shape ∧
    ∀ i, Valid r.shape i → r.mask.atB i = e.spec i := by
  induction e generalizing r with
  | leaf o =>
    simp only [MExpr.eval, Option.some.injEq] at h
    subst h
    exact ⟨rfl, hw, fun _ _ => rfl⟩
  | un p f e ih =>
    simp only [MExpr.eval, Option.bind_eq_some_iff, Option.map_eq_some_iff] at h
    obtain ⟨a, ha, ⟨s, m⟩, hr, rfl⟩ := h
    obtain ⟨hwe, hwn⟩ := hw
    obtain ⟨ihs, ihf, ihm⟩ := ih hwe a ha
    obtain ⟨hff, hso⟩ := hwn a ha
    obtain ⟨⟨fs, hsh⟩, hfit, hm⟩ := mask_exact p [a] f s m (by simpa using ihf) hso hff hr
    have hs : s = a.shape := shapes_un p a fs s hsh
    subst hs
    refine ⟨by simpa [MExpr.shape] using ihs, hfit, fun i hv => ?_⟩
    rw [hm i hv, MExpr.spec, ← ihm i hv]; simp
  | bin p f e1 e2 ih1 ih2 =>
    simp only [MExpr.eval, Option.bind_eq_some_iff, Option.map_eq_some_iff] at h
    obtain ⟨a, ha, b, hb, ⟨s, m⟩, hr, rfl⟩ := h
    obtain ⟨hw1, hw2, hwn⟩ := hw
    obtain ⟨ihs1, ihf1, ihm1⟩ := ih1 hw1 a ha
    obtain ⟨ihs2, ihf2, ihm2⟩ := ih2 hw2 b hb
    obtain ⟨hff, hso⟩ := hwn a b ha hb
    have hfits : ∀ o ∈ [a, b], o.mask.Fits o.shape := by
      intro o ho; simp at ho; rcases ho with rfl | rfl <;> assumption
    obtain ⟨_, hfit, hm⟩ := mask_exact p [a, b] f s m hfits hso hff hr
    have hbc := run_bin_bcast p a b f s m hr
    obtain ⟨ba, bb⟩ := bcast_absorb _ _ _ hbc
    refine ⟨by simp [MExpr.shape, ihs1, ihs2, hbc], hfit, fun i hv => ?_⟩
    rw [hm i hv, MExpr.spec, ihs1, ihs2]
    simp only [Option.getD_some, List.any_cons, List.any_nil, Bool.or_false]
    rw [← ihm1 _ (valid_bidx _ _ ba i hv), ← ihm2 _ (valid_bidx _ _ bb i hv), atB_proj ihf1, atB_proj ihf2,
      Bool.or_assoc]

/-! ### the tree theorem flattened to leaves -/

theorem shapes_fs_into (p : Path) (ops : List Opd) (fs s : Shape) (h : p.shapes ops = some (fs, s)) :
    bcast fs s = some s := by
  cases p <;> (
    match ops, h with
    | [a], h =>
      first
        | (simp only [Path.shapes, Option.some.injEq, Prod.mk.injEq] at h
           obtain ⟨rfl, rfl⟩ := h; exact bcast_self _)
        | (simp [Path.shapes] at h)
    | [a, b], h =>
      first
        | (simp only [Path.shapes, Option.map_eq_some_iff, Prod.mk.injEq] at h
           obtain ⟨o, ho, rfl, rfl⟩ := h
           first | exact bcast_self _ | exact (bcast_absorb _ _ _ ho).2)
        | (simp only [Path.shapes, Option.some.injEq, Prod.mk.injEq] at h
           obtain ⟨rfl, rfl⟩ := h; exact bcast_self _)
        | (simp [Path.shapes] at h)
    | [a, b, c], h =>
      first
        | (simp only [Path.shapes, Option.bind_eq_some_iff, Option.map_eq_some_iff, Prod.mk.injEq] at h
           obtain ⟨bc, _, o, _, rfl, rfl⟩ := h; exact bcast_self _)
        | (simp [Path.shapes] at h)
    | [], h => simp [Path.shapes] at h
    | _ :: _ :: _ :: _ :: _, h => simp [Path.shapes] at h)

/-- a failure set that fits the shape it is computed on is unchanged by projecting the index
    onto the result shape first -/
theorem failAt_proj (p : Path) (f : Mask) (fs s : Shape) (hf : f.Fits fs) (hb : bcast fs s = some s)
    (i : Index) : p.failAt f (bidx s i) = p.failAt f i := by
  have : f.atB (bidx s i) = f.atB i := by
    cases f with
    | all b => rfl
    | arr a => simp only [Mask.Fits] at hf; subst hf; simp only [Mask.atB, bidx_bidx_into _ _ hb]
  cases p <;> simp [Path.failAt, this]

/-- `MExpr.spec` (recursive, with a projection at every binary node) equals `MExpr.flat`
    (every leaf and failure looked up directly), and `flat` is invariant under projection onto
    the expression's own shape -/
theorem spec_eq_flat (e : MExpr) (hw : e.WF) (r : Opd) (h : e.eval = some r) :
    (∀ i, e.flat (bidx r.shape i) = e.flat i) ∧ (∀ i, Valid r.shape i → e.spec i = e.flat i) := by
  induction e generalizing r with
  | leaf o =>
    simp only [MExpr.eval, Option.some.injEq] at h
    subst h
    exact ⟨fun i => atB_proj hw i, fun _ _ => rfl⟩
  | un p f e ih =>
    have hx := mask_exact_tree _ hw r h
    simp only [MExpr.eval, Option.bind_eq_some_iff, Option.map_eq_some_iff] at h
    obtain ⟨a, ha, ⟨s, m⟩, hr, rfl⟩ := h
    obtain ⟨hwe, hwn⟩ := hw
    obtain ⟨ihP, ihQ⟩ := ih hwe a ha
    obtain ⟨_, ihf, _⟩ := mask_exact_tree e hwe a ha
    obtain ⟨hff, hso⟩ := hwn a ha
    obtain ⟨⟨fs, hsh⟩, _, _⟩ := mask_exact p [a] f s m (by simpa using ihf) hso hff hr
    have hs : s = a.shape := shapes_un p a fs s hsh
    subst hs
    have hfs : f.Fits fs := by simpa [Path.FailFits, hsh] using hff
    refine ⟨fun i => ?_, fun i hv => ?_⟩
    · simp only [MExpr.flat, ihP i, failAt_proj p f fs _ hfs (shapes_fs_into _ _ _ _ hsh) i]
    · simp only [MExpr.spec, MExpr.flat, ihQ i hv]
  | bin p f e1 e2 ih1 ih2 =>
    simp only [MExpr.eval, Option.bind_eq_some_iff, Option.map_eq_some_iff] at h
    obtain ⟨a, ha, b, hb, ⟨s, m⟩, hr, rfl⟩ := h
    obtain ⟨hw1, hw2, hwn⟩ := hw
    obtain ⟨ihP1, ihQ1⟩ := ih1 hw1 a ha
    obtain ⟨ihP2, ihQ2⟩ := ih2 hw2 b hb
    obtain ⟨ihs1, ihf1, _⟩ := mask_exact_tree e1 hw1 a ha
    obtain ⟨ihs2, ihf2, _⟩ := mask_exact_tree e2 hw2 b hb
    obtain ⟨hff, hso⟩ := hwn a b ha hb
    have hfits : ∀ o ∈ [a, b], o.mask.Fits o.shape := by
      intro o ho; simp at ho; rcases ho with rfl | rfl <;> assumption
    obtain ⟨⟨fs, hsh⟩, _, _⟩ := mask_exact p [a, b] f s m hfits hso hff hr
    have hfs : f.Fits fs := by simpa [Path.FailFits, hsh] using hff
    have hbc := run_bin_bcast p a b f s m hr
    obtain ⟨ba, bb⟩ := bcast_absorb _ _ _ hbc
    have p1 : ∀ i, e1.flat (bidx s i) = e1.flat i := fun i => by
      rw [← ihP1 (bidx s i), bidx_bidx_into _ _ ba, ihP1]
    have p2 : ∀ i, e2.flat (bidx s i) = e2.flat i := fun i => by
      rw [← ihP2 (bidx s i), bidx_bidx_into _ _ bb, ihP2]
    refine ⟨fun i => ?_, fun i hv => ?_⟩
    · simp only [MExpr.flat, p1 i, p2 i, failAt_proj p f fs _ hfs (shapes_fs_into _ _ _ _ hsh) i]
    · simp only [MExpr.spec, MExpr.flat, ihs1, ihs2, Option.getD_some]
      rw [ihQ1 _ (valid_bidx _ _ ba i hv), ihQ2 _ (valid_bidx _ _ bb i hv), ihP1, ihP2]

/-- FLATTENED TREE THEOREM: for every expression tree over the catalogue (any depth, any
    shapes, any mask representations), the result element at `i` is masked iff one of the LEAVES
    that broadcast onto `i` is masked there, or one of the sub-expressions on the way is
    undefined there.  Nothing more, nothing less. -/
theorem mask_flat_tree (e : MExpr) (hw : e.WF) (r : Opd) (h : e.eval = some r) (i : Index)
    (hv : Valid r.shape i) : r.mask.atB i = e.flat i := by
  rw [(mask_exact_tree e hw r h).2.2 i hv, (spec_eq_flat e hw r h).2 i hv]

/-- operands that broadcast never make `Qube.or_` + constructor raise -/
theorem ctorOr_defined (a b : Opd) (out : Shape) (ha : a.mask.Fits a.shape) (hb : b.mask.Fits b.shape)
    (h : bcast a.shape b.shape = some out) (fail : Mask) :
    ∃ m, run (.ctorOr false) [a, b] fail = some (out, m) := by
  obtain ⟨m1, h1, hf⟩ := or_defined false a.mask b.mask _ _ _ ha hb h
  obtain ⟨ba, bb⟩ := bcast_absorb _ _ _ h
  have : ∃ m2, ctor m1 out = some m2 := by
    simp only [ctor, or_, Bool.false_eq_true, if_false, Option.bind_some]
    rcases hf with hf | hf | hf
    · exact suitableMask_defined _ _ _ _ hf ba
    · exact suitableMask_defined _ _ _ _ hf bb
    · exact suitableMask_defined _ _ _ _ hf (bcast_self out)
  obtain ⟨m2, h2⟩ := this
  exact ⟨m2, by simp [run, h, h1, h2]⟩

/-! ### definedness: broadcast-compatible operands never make the mask computation raise -/

theorem suitableMask_false_of_fits (m : Mask) (s : Shape) (h : m.Fits s) : suitableMask false m s = some m := by
  cases m with
  | all b => rfl
  | arr a => simp only [Mask.Fits] at h; simp [suitableMask, h]

theorem setitemMask_fits (m : Mask) (shape : Shape) (s : Arr Bool) (hm : m.Fits shape) :
    (setitemMask m shape s).Fits shape := by
  cases m with
  | all b => cases b <;> simp [setitemMask, Mask.Fits]
  | arr a => simpa [setitemMask, Mask.Fits] using hm

theorem remaskOr_defined (m sel : Mask) (shape : Shape) (hm : m.Fits shape) (hs : sel.Fits shape) :
    ∃ r, remaskOr m shape sel = some r := by
  obtain ⟨s, h1⟩ := suitableMask_defined true sel shape shape hs (bcast_self shape)
  have fs := suitableMask_fits _ _ _ _ h1
  obtain ⟨o, h2, ho⟩ := or_defined false m s shape shape shape hm fs (bcast_self shape)
  have fo : o.Fits shape := by rcases ho with h | h | h <;> exact h
  obtain ⟨r, h3⟩ := suitableMask_defined false o shape shape fo (bcast_self shape)
  exact ⟨r, by simp [remaskOr, h1, h2, h3]⟩

theorem maskWhere_defined (o : Opd) (sel : Mask) (replace : Bool) (hf : o.mask.Fits o.shape)
    (hs : sel.Fits o.shape) : ∃ m, maskWhere o sel replace = some m := by
  simp only [maskWhere, suitableMask_false_of_fits sel o.shape hs, Option.bind_some]
  by_cases hany : sel.any = true
  · simp only [hany, Bool.not_true, Bool.false_eq_true, if_false]
    by_cases hshape : o.shape = []
    · exact ⟨_, by rw [if_pos hshape]⟩
    · rw [if_neg hshape]
      cases replace with
      | false => simpa using remaskOr_defined _ _ _ hf hs
      | true =>
        simp only [Bool.not_true, Bool.false_eq_true, if_false]
        cases sel with
        | all b => exact remaskOr_defined _ _ _ hf hs
        | arr a => exact remaskOr_defined _ _ _ (setitemMask_fits _ _ _ hf) hs
  · simp only [Bool.not_eq_true] at hany
    exact ⟨o.mask, by simp [hany]⟩

theorem maskWhere_fits (o : Opd) (sel m : Mask) (replace : Bool) (hf : o.mask.Fits o.shape)
    (h : maskWhere o sel replace = some m) : m.Fits o.shape := by
  simp only [maskWhere, Option.bind_eq_some_iff] at h
  obtain ⟨sel', _, h⟩ := h
  by_cases hany : sel'.any = true
  · simp only [hany, Bool.not_true, Bool.false_eq_true, if_false] at h
    by_cases hshape : o.shape = []
    · rw [if_pos hshape] at h; cases h; trivial
    · rw [if_neg hshape] at h
      cases replace with
      | false => simp only [Bool.not_false, if_true] at h; exact remaskOr_fits _ _ _ _ h
      | true =>
        simp only [Bool.not_true, Bool.false_eq_true, if_false] at h
        cases sel' <;> exact remaskOr_fits _ _ _ _ h
  · simp only [Bool.not_eq_true] at hany
    simp only [hany, Bool.not_false, if_true, Option.some.injEq] at h
    subst h; exact hf

/-- a mask that fits an operand shape or the broadcast shape is accepted by the constructor -/
theorem ctor_defined (m : Mask) (s0 s1 out : Shape) (hb : bcast s0 s1 = some out)
    (hf : m.Fits s0 ∨ m.Fits s1 ∨ m.Fits out) : ∃ m', ctor m out = some m' := by
  obtain ⟨ba, bb⟩ := bcast_absorb _ _ _ hb
  simp only [ctor, or_, Bool.false_eq_true, if_false, Option.bind_some]
  rcases hf with hf | hf | hf
  · exact suitableMask_defined _ _ _ _ hf ba
  · exact suitableMask_defined _ _ _ _ hf bb
  · exact suitableMask_defined _ _ _ _ hf (bcast_self out)

/-- division (the zero-replacement path) never raises for broadcast-compatible operands -/
theorem divScalar_defined (a b : Opd) (out : Shape) (fail : Mask) (same : Bool)
    (ha : a.mask.Fits a.shape) (hb : b.mask.Fits b.shape) (hf : fail.Fits b.shape)
    (h : bcast a.shape b.shape = some out) :
    ∃ m, run (.divScalar same) [a, b] fail = some (out, m) := by
  obtain ⟨bm, h1⟩ := maskWhere_defined b fail true hb hf
  have fbm := maskWhere_fits _ _ _ _ hb h1
  obtain ⟨m1, h2, hfit⟩ := or_defined (same && !selAny b fail) a.mask bm _ _ _ ha fbm h
  obtain ⟨m2, h3⟩ := ctor_defined m1 _ _ _ h hfit
  exact ⟨m2, by simp [run, h, h1, h2, h3]⟩

/-- the guarded functions (sqrt, log, exp, reciprocal) never raise -/
theorem guard_defined (a : Opd) (fail : Mask) (ha : a.mask.Fits a.shape) (hf : fail.Fits a.shape) :
    ∃ m, run .guard [a] fail = some (a.shape, m) := by
  obtain ⟨m1, h1⟩ := maskWhere_defined a fail true ha hf
  have f1 := maskWhere_fits _ _ _ _ ha h1
  obtain ⟨m2, h2⟩ := ctor_defined m1 _ _ _ (bcast_self a.shape) (Or.inl f1)
  exact ⟨m2, by simp [run, h1, h2]⟩

/-- the power (array branch) never raises -/
theorem powArr_defined (a b : Opd) (out : Shape) (fail : Mask) (same : Bool)
    (ha : a.mask.Fits a.shape) (hb : b.mask.Fits b.shape) (hf : fail.Fits out)
    (h : bcast a.shape b.shape = some out) :
    ∃ m, run (.powArr same) [a, b] fail = some (out, m) := by
  obtain ⟨m1, h1, hfit⟩ := or_defined same a.mask b.mask _ _ _ ha hb h
  obtain ⟨ba, bb⟩ := bcast_absorb _ _ _ h
  by_cases hany : fail.any = true
  · -- or_ of m1 (fits a.shape, b.shape or out) with the failure array (fits out)
    have : ∃ m2, or_ false m1 fail = some m2 ∧ (m2.Fits a.shape ∨ m2.Fits b.shape ∨ m2.Fits out) := by
      rcases hfit with hm | hm | hm
      · obtain ⟨m2, e, f⟩ := or_defined false m1 fail _ _ _ hm hf ba
        exact ⟨m2, e, by rcases f with f | f | f <;> simp [f]⟩
      · obtain ⟨m2, e, f⟩ := or_defined false m1 fail _ _ _ hm hf bb
        exact ⟨m2, e, by rcases f with f | f | f <;> simp [f]⟩
      · obtain ⟨m2, e, f⟩ := or_defined false m1 fail _ _ _ hm hf (bcast_self out)
        exact ⟨m2, e, by rcases f with f | f | f <;> simp [f]⟩
    obtain ⟨m2, h2, f2⟩ := this
    obtain ⟨m3, h3⟩ := ctor_defined m2 _ _ _ h f2
    exact ⟨m3, by simp [run, h, h1, hany, h2, h3]⟩
  · obtain ⟨m3, h3⟩ := ctor_defined m1 _ _ _ h hfit
    exact ⟨m3, by simp [run, h, h1, hany, h3]⟩

theorem orPipe_defined (m0 m1 : Mask) (s0 s1 out : Shape) (h0 : m0.Fits s0) (h1 : m1.Fits s1)
    (hb : bcast s0 s1 = some out) :
    ∃ m, orPipe m0 m1 = some m ∧ (m.Fits s0 ∨ m.Fits s1 ∨ m.Fits out) := by
  cases m0 with
  | all b0 =>
    cases m1 with
    | all b1 => exact ⟨_, rfl, Or.inl trivial⟩
    | arr a1 => exact ⟨_, rfl, Or.inr (Or.inl (by simpa [Mask.Fits, Arr.map] using h1))⟩
  | arr a0 =>
    cases m1 with
    | all b1 => exact ⟨_, rfl, Or.inl (by simpa [Mask.Fits, Arr.map] using h0)⟩
    | arr a1 =>
      simp only [Mask.Fits] at h0 h1
      subst h0; subst h1
      simp [orPipe, Arr.map2, hb, Mask.Fits]

theorem divPipe_defined (a b : Opd) (out : Shape) (fail : Mask)
    (ha : a.mask.Fits a.shape) (hb : b.mask.Fits b.shape) (hf : fail.Fits b.shape)
    (h : bcast a.shape b.shape = some out) :
    ∃ m, run .divPipe [a, b] fail = some (out, m) := by
  obtain ⟨bm, h1⟩ := maskWhere_defined b fail true hb hf
  have fbm := maskWhere_fits _ _ _ _ hb h1
  obtain ⟨m1, h2, hfit⟩ := orPipe_defined a.mask bm _ _ _ ha fbm h
  obtain ⟨m2, h3⟩ := ctor_defined m1 _ _ _ h hfit
  exact ⟨m2, by simp [run, h, h1, h2, h3]⟩

/-- OR-ing a failure array of the operand's own shape into its mask, when `np.any` says so -/
theorem orFail_defined (m fail : Mask) (s : Shape) (hm : m.Fits s) (hf : fail.Fits s) :
    ∃ r, (if fail.any then or_ false m fail else some m) = some r ∧ r.Fits s := by
  by_cases hany : fail.any = true
  · obtain ⟨r, e, f⟩ := or_defined false m fail s s s hm hf (bcast_self s)
    exact ⟨r, by simp [hany, e], by rcases f with f | f | f <;> exact f⟩
  · exact ⟨m, by simp [hany], hm⟩

theorem guardAsin_defined (a : Opd) (fail : Mask) (ha : a.mask.Fits a.shape) (hf : fail.Fits a.shape) :
    ∃ m, run .guardAsin [a] fail = some (a.shape, m) := by
  by_cases hany : fail.any = true
  · cases fail with
    | all bb =>
      obtain ⟨m2, h2⟩ := ctor_defined (.all true) _ _ _ (bcast_self a.shape) (Or.inl trivial)
      exact ⟨m2, by simp [run, hany, h2]⟩
    | arr f =>
      obtain ⟨r, e, fr⟩ := or_defined false a.mask (.arr f) _ _ _ ha hf (bcast_self a.shape)
      have frs : r.Fits a.shape := by rcases fr with f | f | f <;> exact f
      obtain ⟨m2, h2⟩ := ctor_defined r _ _ _ (bcast_self a.shape) (Or.inl frs)
      exact ⟨m2, by simp [run, hany, e, h2]⟩
  · obtain ⟨m2, h2⟩ := ctor_defined a.mask _ _ _ (bcast_self a.shape) (Or.inl ha)
    exact ⟨m2, by simp [run, hany, h2]⟩

theorem matInverse_defined (a : Opd) (fail : Mask) (ha : a.mask.Fits a.shape) (hf : fail.Fits a.shape) :
    ∃ m, run .matInverse [a] fail = some (a.shape, m) := by
  obtain ⟨m1, h1, f1⟩ := orFail_defined a.mask fail a.shape ha hf
  obtain ⟨m2, h2⟩ := ctor_defined m1 _ _ _ (bcast_self a.shape) (Or.inl f1)
  exact ⟨m2, by simp only [run]; rw [h1]; simp [h2]⟩

theorem elementDiv_defined (a b : Opd) (out : Shape) (fail : Mask) (same : Bool)
    (ha : a.mask.Fits a.shape) (hb : b.mask.Fits b.shape) (hf : fail.Fits b.shape)
    (h : bcast a.shape b.shape = some out) :
    ∃ m, run (.elementDiv same) [a, b] fail = some (out, m) := by
  obtain ⟨dm, h1, f1⟩ := orFail_defined b.mask fail b.shape hb hf
  obtain ⟨m1, h2, hfit⟩ := or_defined (same && !fail.any) a.mask dm _ _ _ ha f1 h
  obtain ⟨m2, h3⟩ := ctor_defined m1 _ _ _ h hfit
  exact ⟨m2, by simp only [run, h, Option.bind_some]; rw [h1]; simp [h2, h3]⟩

theorem pow0D_defined (a b : Opd) (fail : Mask) (same : Bool)
    (ha : a.mask.Fits a.shape) (hb : b.mask.Fits b.shape) (hsa : a.shape = []) (hsb : b.shape = []) :
    ∃ m, run (.pow0D same) [a, b] fail = some ([], m) := by
  simp only [run, hsa, hsb, and_self, if_true]
  by_cases hany : fail.any = true
  · exact ⟨.all true, by simp [hany]⟩
  · obtain ⟨m1, h1, hfit⟩ := or_defined same a.mask b.mask [] [] [] (hsa ▸ ha) (hsb ▸ hb) (bcast_self [])
    obtain ⟨m2, h2⟩ := ctor_defined m1 [] [] [] (bcast_self []) hfit
    exact ⟨m2, by simp [hany, h1, h2]⟩

/-- `from_euler`: after `Qube.broadcast` the three angle operands have one common shape -/
theorem ctorOr3_defined (a b c : Opd) (fail : Mask) (ha : a.mask.Fits a.shape) (hb : b.mask.Fits b.shape)
    (hc : c.mask.Fits c.shape) (hab : a.shape = b.shape) (hbc : b.shape = c.shape) :
    ∃ m, run .ctorOr3 [a, b, c] fail = some (a.shape, m) := by
  have e1 : bcast b.shape c.shape = some a.shape := by rw [← hbc, ← hab]; exact bcast_self _
  obtain ⟨r, h1, f1⟩ := or_defined false b.mask c.mask a.shape a.shape a.shape (hab ▸ hb) (hab ▸ hbc ▸ hc)
    (bcast_self _)
  have fr : r.Fits a.shape := by rcases f1 with f | f | f <;> exact f
  obtain ⟨r2, h2, f2⟩ := or_defined false a.mask r a.shape a.shape a.shape ha fr (bcast_self _)
  have fr2 : r2.Fits a.shape := by rcases f2 with f | f | f <;> exact f
  obtain ⟨m, h3⟩ := ctor_defined r2 _ _ _ (bcast_self a.shape) (Or.inl fr2)
  exact ⟨m, by simp [run, e1, bcast_self, orList, h1, h2, h3]⟩

/-- side conditions under which the code reaches a path: `pow0D` only for two shapeless operands,
    `ctorOr3` after `Qube.broadcast` (one common shape) -/
def Path.Pre (p : Path) (ops : List Opd) : Prop :=
  match p, ops with
  | .pow0D _, [a, b] => a.shape = [] ∧ b.shape = []
  | .ctorOr3, [a, b, c] => a.shape = b.shape ∧ b.shape = c.shape
  | _, _ => True

/-- RESULT EXISTS, for every path: operands whose shapes broadcast (`p.shapes` defined), whose
    masks fit their shapes, and a failure set of the shape the code computes it on, never make
    the mask computation raise; together with `mask_exact` the result mask is then the union. -/
theorem run_defined (p : Path) (ops : List Opd) (fail : Mask) (fs s : Shape)
    (hsh : p.shapes ops = some (fs, s)) (hfit : ∀ o ∈ ops, o.mask.Fits o.shape)
    (hfail : fail.Fits fs) (hpre : p.Pre ops) : ∃ m, run p ops fail = some (s, m) := by
  cases p with
  | cloneSet =>
    match ops, hsh with
    | [a], hsh => simp only [Path.shapes, Option.some.injEq, Prod.mk.injEq] at hsh; exact ⟨a.mask, by simp [run, hsh.2]⟩
  | setTrue =>
    match ops, hsh with
    | [a], hsh =>
      simp only [Path.shapes, Option.some.injEq, Prod.mk.injEq] at hsh
      exact ⟨.all true, by simp [run, suitableMask, hsh.2]⟩
  | ctor1 =>
    match ops, hsh with
    | [a], hsh =>
      simp only [Path.shapes, Option.some.injEq, Prod.mk.injEq] at hsh
      obtain ⟨_, rfl⟩ := hsh
      obtain ⟨m, hm⟩ := ctor_defined a.mask _ _ _ (bcast_self a.shape) (Or.inl (hfit a (by simp)))
      exact ⟨m, by simp [run, hm]⟩
  | ctorOr same =>
    match ops, hsh with
    | [a, b], hsh =>
      simp only [Path.shapes, Option.map_eq_some_iff, Prod.mk.injEq] at hsh
      obtain ⟨o, ho, _, rfl⟩ := hsh
      obtain ⟨m1, h1, hf⟩ := or_defined same a.mask b.mask _ _ _ (hfit a (by simp)) (hfit b (by simp)) ho
      obtain ⟨m2, h2⟩ := ctor_defined m1 _ _ _ ho hf
      exact ⟨m2, by simp [run, ho, h1, h2]⟩
  | ctorOr3 =>
    match ops, hsh, hpre with
    | [a, b, c], hsh, hpre =>
      obtain ⟨hab, hbc⟩ := hpre
      have e1 : bcast b.shape c.shape = some a.shape := by rw [← hbc, ← hab]; exact bcast_self _
      simp only [Path.shapes, e1, Option.bind_some, bcast_self, Option.map_some, Option.some.injEq,
        Prod.mk.injEq] at hsh
      obtain ⟨m, hm⟩ := ctorOr3_defined a b c fail (hfit a (by simp)) (hfit b (by simp)) (hfit c (by simp)) hab hbc
      exact ⟨m, by rw [← hsh.2]; exact hm⟩
  | divScalar same =>
    match ops, hsh with
    | [a, b], hsh =>
      simp only [Path.shapes, Option.map_eq_some_iff, Prod.mk.injEq] at hsh
      obtain ⟨o, ho, rfl, rfl⟩ := hsh
      exact divScalar_defined a b o fail same (hfit a (by simp)) (hfit b (by simp)) hfail ho
  | divPipe =>
    match ops, hsh with
    | [a, b], hsh =>
      simp only [Path.shapes, Option.map_eq_some_iff, Prod.mk.injEq] at hsh
      obtain ⟨o, ho, rfl, rfl⟩ := hsh
      exact divPipe_defined a b o fail (hfit a (by simp)) (hfit b (by simp)) hfail ho
  | guard =>
    match ops, hsh with
    | [a], hsh =>
      simp only [Path.shapes, Option.some.injEq, Prod.mk.injEq] at hsh
      obtain ⟨rfl, rfl⟩ := hsh
      exact guard_defined a fail (hfit a (by simp)) hfail
  | guardAsin =>
    match ops, hsh with
    | [a], hsh =>
      simp only [Path.shapes, Option.some.injEq, Prod.mk.injEq] at hsh
      obtain ⟨rfl, rfl⟩ := hsh
      exact guardAsin_defined a fail (hfit a (by simp)) hfail
  | pow0D same =>
    match ops, hsh, hpre with
    | [a, b], hsh, hpre =>
      simp only [Path.shapes, Option.some.injEq, Prod.mk.injEq] at hsh
      obtain ⟨_, rfl⟩ := hsh
      exact pow0D_defined a b fail same (hfit a (by simp)) (hfit b (by simp)) hpre.1 hpre.2
  | powArr same =>
    match ops, hsh with
    | [a, b], hsh =>
      simp only [Path.shapes, Option.map_eq_some_iff, Prod.mk.injEq] at hsh
      obtain ⟨o, ho, rfl, rfl⟩ := hsh
      exact powArr_defined a b _ fail same (hfit a (by simp)) (hfit b (by simp)) hfail ho
  | elementDiv same =>
    match ops, hsh with
    | [a, b], hsh =>
      simp only [Path.shapes, Option.map_eq_some_iff, Prod.mk.injEq] at hsh
      obtain ⟨o, ho, rfl, rfl⟩ := hsh
      exact elementDiv_defined a b o fail same (hfit a (by simp)) (hfit b (by simp)) hfail ho
  | matInverse =>
    match ops, hsh with
    | [a], hsh =>
      simp only [Path.shapes, Option.some.injEq, Prod.mk.injEq] at hsh
      obtain ⟨rfl, rfl⟩ := hsh
      exact matInverse_defined a fail (hfit a (by simp)) hfail

/-! ### `Matrix3 * Scalar` (KF-C01-1, repaired: leading shapes broadcast, the matrix's mask is OR-ed in) -/

theorem bto_at (m : Mask) (s out : Shape) (hf : m.Fits s) (hb : bcast s out = some out) (i : Index) :
    (m.bto out).atB i = m.atB i := by
  cases m with
  | all b => rfl
  | arr a =>
    simp only [Mask.Fits] at hf
    subst hf
    simp only [Mask.bto, Mask.atB, Arr.bto, bidx_bidx_into _ _ hb]

theorem bto_fits (m : Mask) (out : Shape) : (m.bto out).Fits out := by
  cases m <;> simp [Mask.bto, Mask.Fits, Arr.bto]

/-- a Matrix3 times anything is an ordinary product as far as masks and leading shapes go:
    the result shape is the broadcast of the two leading shapes and the expanded mask is the
    union of the two operand masks — also for a Scalar right operand, which is returned
    "rotated" (itself), broadcast and re-masked -/
theorem matrix3Mul_exact (sc : Bool) (r x : Opd) (s : Shape) (m : Mask)
    (hr : r.mask.Fits r.shape) (hx : x.mask.Fits x.shape)
    (h : matrix3Mul sc r x = some (s, m)) :
    bcast r.shape x.shape = some s ∧ ∀ i, Valid s i → m.atB i = (r.mask.atB i || x.mask.atB i) := by
  cases sc with
  | false =>
    simp only [matrix3Mul, Bool.false_eq_true, if_false] at h
    obtain ⟨hb, _, e⟩ := mask_exact_ctorOr r x (.all false) s m false (by simp) h
    exact ⟨hb, e⟩
  | true =>
    simp only [matrix3Mul, if_true, Option.bind_eq_some_iff] at h
    obtain ⟨out, hb, h⟩ := h
    obtain ⟨br, bx⟩ := bcast_absorb _ _ _ hb
    have hxm : ∀ i, (if out = x.shape then x.mask else x.mask.bto out).atB i = x.mask.atB i := by
      intro i
      by_cases e : out = x.shape
      · simp [e]
      · simp only [e, if_false]; exact bto_at _ _ _ hx bx i
    by_cases hany : r.mask.any = true
    · simp only [hany, if_true, Option.map_eq_some_iff, Prod.mk.injEq] at h
      obtain ⟨m', hm, rfl, rfl⟩ := h
      refine ⟨hb, fun i hv => ?_⟩
      rw [remaskOr_at _ _ _ _ hm i (vb_self hv), hxm, bto_at _ _ _ hr br, Bool.or_comm]
    · simp only [hany, Bool.false_eq_true, if_false, Option.some.injEq, Prod.mk.injEq] at h
      obtain ⟨rfl, rfl⟩ := h
      refine ⟨hb, fun i hv => ?_⟩
      simp only [Bool.not_eq_true] at hany
      rw [hxm, anyF_false_at r.mask r.shape hr hany i (vb_of_valid br hv)]; simp

/-- compatible leading shapes never raise -/
theorem matrix3Mul_scalar_defined (r x : Opd) (out : Shape) (hx : x.mask.Fits x.shape)
    (hb : bcast r.shape x.shape = some out) : ∃ m, matrix3Mul true r x = some (out, m) := by
  simp only [matrix3Mul, if_true, hb, Option.bind_some]
  by_cases hany : r.mask.any = true
  · have fx : (if out = x.shape then x.mask else x.mask.bto out).Fits out := by
      by_cases e : out = x.shape
      · simp only [e, if_true]; exact hx
      · simp only [e, if_false]; exact bto_fits _ _
    obtain ⟨m, hm⟩ := remaskOr_defined _ (r.mask.bto out) out fx (bto_fits _ _)
    exact ⟨m, by simp [hany, hm]⟩
  · exact ⟨if out = x.shape then x.mask else x.mask.bto out, by simp [hany]⟩

/-- the former counterexamples of KF-C01-1 are now instances of the theorem: a fully masked
    shape-() rotation times an unmasked Scalar of shape (2,) is masked, and a (3,) rotation times
    a shape-() Scalar has shape (3,) -/
example : ((matrix3Mul true ⟨[], .all true⟩ ⟨[2], .all false⟩).map fun r => (r.1, (indices r.1).map r.2.atB))
    = some ([2], [true, true]) := by decide
example : ((matrix3Mul true ⟨[3], .all false⟩ ⟨[], .all false⟩).map fun r => r.1) = some [3] := by decide

/-! ### in-place operators: the target's new mask equals the mask of the direct form -/

theorem mergeMask_at (a : Opd) (m r : Mask) (h : mergeMask a m = some r) (i : Index) :
    r.atB i = (a.mask.atB i || m.atB i) ∧ (a.mask.Fits a.shape → r.Fits a.shape) := by
  simp only [mergeMask, Option.bind_eq_some_iff] at h
  obtain ⟨o, ho, h⟩ := h
  have e := or_at false _ _ _ (by simp) ho i
  cases o with
  | all b => simp only [Option.some.injEq] at h; subst h; exact ⟨e, fun _ => trivial⟩
  | arr x =>
    simp only at h
    by_cases hs : x.shape = a.shape
    · simp only [hs, if_true, Option.some.injEq] at h; subst h; exact ⟨e, fun _ => hs⟩
    · simp only [hs, if_false] at h
      by_cases hb : bcast x.shape a.shape = some a.shape
      · simp only [hb, if_true, Option.some.injEq] at h
        subst h
        refine ⟨?_, fun _ => rfl⟩
        rw [← e]
        simp only [Mask.atB, Arr.bto, bidx_bidx_into _ _ hb]
      · simp [hb] at h

theorem into_iff (a b : Opd) : into a b = true ↔ bcast a.shape b.shape = some a.shape := by
  simp [into]

/-- every in-place form: the target keeps its shape, the operand broadcasts into it, and the new
    mask is the union of the target's old mask, the operand's mask and the failure set — exactly
    what `mask_exact` says of the corresponding direct form -/
theorem inplace_exact (k : InPlace) (a b : Opd) (fail : Mask) (s : Shape) (m : Mask)
    (ha : a.mask.Fits a.shape) (hb : b.mask.Fits b.shape) (hf : fail.Fits b.shape)
    (h : runInPlace k a b fail = some (s, m)) :
    s = a.shape ∧ (k ≠ .number → bcast a.shape b.shape = some a.shape) ∧
    ∀ i, Valid s i → m.atB i =
      (a.mask.atB i || (match k with | .number => false | _ => b.mask.atB i) ||
       (match k with | .divMerge | .pipeMerge | .matdiv => fail.atB i | _ => false)) := by
  cases k with
  | number =>
    simp only [runInPlace, Option.some.injEq, Prod.mk.injEq] at h
    obtain ⟨rfl, rfl⟩ := h
    exact ⟨rfl, fun c => absurd rfl c, fun i _ => by simp⟩
  | merge =>
    simp only [runInPlace] at h
    by_cases hi : into a b = true
    · simp only [hi, if_true, Option.map_eq_some_iff, Prod.mk.injEq] at h
      obtain ⟨r, hr, rfl, rfl⟩ := h
      exact ⟨rfl, fun _ => (into_iff a b).1 hi, fun i _ => by simp [(mergeMask_at a _ _ hr i).1]⟩
    · simp [hi] at h
  | divMerge =>
    simp only [runInPlace, Option.bind_eq_some_iff] at h
    obtain ⟨⟨sb, bm⟩, hg, h⟩ := h
    obtain ⟨rfl, _, eg⟩ := mask_exact_guard b fail sb bm hb hg
    by_cases hi : into a b = true
    · simp only [hi, if_true, Option.map_eq_some_iff, Prod.mk.injEq] at h
      obtain ⟨r, hr, rfl, rfl⟩ := h
      have hbc := (into_iff a b).1 hi
      refine ⟨rfl, fun _ => hbc, fun i hv => ?_⟩
      have vbb : VB b.shape i := vb_of_valid (bcast_absorb _ _ _ hbc).2 hv
      have fbm : bm.Fits b.shape := (mask_exact_guard b fail b.shape bm hb hg).2.1
      rw [(mergeMask_at a _ _ hr i).1, ← atB_proj fbm, eg _ vbb, atB_proj hb, atB_proj hf]
      simp [Bool.or_assoc]
    · simp [hi] at h
  | pipeMerge =>
    simp only [runInPlace, Option.bind_eq_some_iff] at h
    obtain ⟨bm, hbm, h⟩ := h
    by_cases hi : into a b = true
    · simp only [hi, if_true, Option.map_eq_some_iff, Prod.mk.injEq] at h
      obtain ⟨r, hr, rfl, rfl⟩ := h
      have hbc := (into_iff a b).1 hi
      refine ⟨rfl, fun _ => hbc, fun i hv => ?_⟩
      have vbb : VB b.shape i := vb_of_valid (bcast_absorb _ _ _ hbc).2 hv
      rw [(mergeMask_at a _ _ hr i).1, (maskWhere_at _ _ _ _ hb hbm i vbb).1]
      simp [Bool.or_assoc]
    · simp [hi] at h
  | matmul =>
    simp only [runInPlace, Option.bind_eq_some_iff] at h
    obtain ⟨⟨s', m'⟩, hr, h⟩ := h
    by_cases hs : s' = a.shape
    · subst hs
      simp only [if_true, Option.some.injEq, Prod.mk.injEq] at h
      obtain ⟨rfl, rfl⟩ := h
      obtain ⟨hbc, _, e⟩ := mask_exact_ctorOr a b (.all false) _ m' false (by simp) hr
      exact ⟨rfl, fun _ => hbc, fun i hv => by simp [e i hv]⟩
    · simp [hs] at h
  | matdiv =>
    simp only [runInPlace, Option.bind_eq_some_iff] at h
    obtain ⟨⟨sb, bm⟩, hinv, ⟨s', m'⟩, hr, h⟩ := h
    obtain ⟨rfl, fbm, ei⟩ := mask_exact_matInverse b fail sb bm hf hinv
    by_cases hs : s' = a.shape
    · subst hs
      simp only [if_true, Option.some.injEq, Prod.mk.injEq] at h
      obtain ⟨rfl, rfl⟩ := h
      obtain ⟨hbc, _, e⟩ := mask_exact_ctorOr a ⟨b.shape, bm⟩ (.all false) _ m' false (by simp) hr
      refine ⟨rfl, fun _ => hbc, fun i hv => ?_⟩
      have hbc' : bcast a.shape b.shape = some a.shape := hbc
      have vbb : VB b.shape i := vb_of_valid (bcast_absorb _ _ _ hbc').2 hv
      rw [e i hv]
      simp only
      rw [← atB_proj fbm, ei _ vbb, atB_proj hb, atB_proj hf]
      simp [Bool.or_assoc]
    · simp [hs] at h

/-- `a *= b` leaves exactly the mask `a * b` has (same for `+= -=`), whenever both are accepted -/
theorem inplace_merge_eq_direct (a b : Opd) (s s' : Shape) (m m' : Mask) (same : Bool)
    (hs : same = true → a.mask = b.mask)
    (ha : a.mask.Fits a.shape) (hb : b.mask.Fits b.shape)
    (h : runInPlace .merge a b (.all false) = some (s, m))
    (h' : run (.ctorOr same) [a, b] (.all false) = some (s', m')) :
    s = s' ∧ ∀ i, Valid s i → m.atB i = m'.atB i := by
  obtain ⟨rfl, hbc, e⟩ := inplace_exact .merge a b (.all false) s m ha hb trivial h
  obtain ⟨hbc', _, e'⟩ := mask_exact_ctorOr a b (.all false) s' m' same hs h'
  have : some a.shape = some s' := by rw [← hbc (by simp), hbc']
  cases this
  exact ⟨rfl, fun i hv => by rw [e i hv, e' i hv]; simp⟩

/-- the seeded mutant C01x-a as a non-example: committing the matrix product WITHOUT its mask
    (keeping the target's old mask) is not what the model does -/
example : ((runInPlace .matmul ⟨[2], .all false⟩ ⟨[2], .arr ⟨[2], fun i => i == [1]⟩⟩ (.all false)).map
    fun r => (indices r.1).map r.2.atB) = some [false, true] := by decide

/-! ### non-vacuity: concrete instances -/

/-- a (2,3) operand with scalar False mask plus a (3,) operand with an array mask: the constructor
    falls back to a broadcast view -/
example : ((run (.ctorOr false) [⟨[2, 3], .all false⟩, ⟨[3], .arr ⟨[3], fun i => i == [1]⟩⟩] (.all false)).map
    fun r => (indices r.1).map r.2.atB) = some [false, true, false, false, true, false] := by
  decide

/-- division: divisor of shape (2,1) with a zero in row 0, dividend mask array of shape (2) -/
example : ((run (.divScalar false) [⟨[2], .arr ⟨[2], fun i => i == [1]⟩⟩, ⟨[2, 1], .all false⟩]
    (.arr ⟨[2, 1], fun i => i == [0, 0]⟩)).map fun r => (indices r.1).map r.2.atB)
    = some [true, true, false, true] := by
  decide

/-- zero-length axis and shape () are ordinary instances -/
example : ((run (.ctorOr false) [⟨[0], .all true⟩, ⟨[], .all false⟩] (.all false)).map
    fun r => (r.1, (indices r.1).map r.2.atB)) = some ([0], []) := by
  decide

/-- a tree: (a / b) with a zero in the divisor, then sqrt with a negative radicand at element 0 -/
example : ((MExpr.un .guard (.arr ⟨[2], fun i => i == [0]⟩)
      (.bin (.divScalar false) (.arr ⟨[2], fun i => i == [1]⟩)
        (.leaf ⟨[2], .all false⟩) (.leaf ⟨[2], .arr ⟨[2], fun _ => false⟩⟩))).eval.map
    fun r => (indices r.shape).map r.mask.atB) = some [true, true] := by
  decide

end PMV.MaskPath
