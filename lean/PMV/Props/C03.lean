import PMV.Model.NI
import PMV.Lemmas.Bcast
import PMV.Lemmas.Lanes
/-
  C03 — masked values do not exist: hidden numbers never influence any observable result.
  Non-interference theorems about the code-shaped definitions of Model/NI.lean.  Core Lean only
  (the imported lemma files on broadcasting and reduction lanes are core Lean too).

  `CLow`/`ALow`/`LowEq` : low-equivalence (same shape, same expanded mask, equal values where unmasked,
                          ARBITRARY values underneath the masks), for elements, arrays and objects.
                          `ALow` speaks about the indices INSIDE the shape only.
  `obsArr`/`obsObj`/`obsRes` (Model/NI.lean): what can be observed.
  All theorems hold for EVERY choice of the numeric primitives `P : Prims K`.
-/
namespace PMV.NI

variable {K : Type} (P : Prims K)

/-! ### low-equivalence -/

/-- two lists related element by element (core Lean has no `Forall₂`) -/
inductive F2 {α : Type} (R : α → α → Prop) : List α → List α → Prop
  | nil : F2 R [] []
  | cons {a b : α} {l l' : List α} : R a b → F2 R l l' → F2 R (a :: l) (b :: l')

/-- two stored elements are low-equivalent: same mask bit, and the same value unless masked -/
def CLow {α : Type} (c c' : Cell α) : Prop := c.m = c'.m ∧ (c.m = false → c.v = c'.v)

/-- arrays: same shape, and low-equivalent elements at every index inside the shape -/
def ALow {α : Type} (a b : MArr α) : Prop := a.shape = b.shape ∧ ∀ i, Valid a.shape i → CLow (a.get i) (b.get i)

/-- derivative of an object whose main array has shape `s`: absent in both, or present in both with
    that shape and low-equivalent under its own mask -/
def DLow (s : Shape) : Option (MArr K) → Option (MArr K) → Prop
  | none, none => True
  | some a, some b => a.shape = s ∧ ALow a b
  | _, _ => False

/-- objects: the main arrays are low-equivalent and so are the derivatives (which have the shape of
    the main array, as `insert_deriv` guarantees) -/
def LowEq (x y : Obj K) : Prop := ALow x.main y.main ∧ DLow x.main.shape x.d y.d

/-- outcomes: the same exception, or low-equivalent results (so the relation is a congruence) -/
def RLow : Except Err (Obj K) → Except Err (Obj K) → Prop
  | .error e, .error e' => e = e'
  | .ok x, .ok y => LowEq x y
  | _, _ => False

def RLowA {α : Type} : Except Err (MArr α) → Except Err (MArr α) → Prop
  | .error e, .error e' => e = e'
  | .ok x, .ok y => ALow x y
  | _, _ => False

theorem CLow.refl {α : Type} (c : Cell α) : CLow c c := ⟨rfl, fun _ => rfl⟩
theorem CLow.symm {α : Type} {c c' : Cell α} (h : CLow c c') : CLow c' c :=
  ⟨h.1.symm, fun h' => (h.2 (h.1.trans h')).symm⟩
theorem CLow.trans {α : Type} {a b c : Cell α} (h1 : CLow a b) (h2 : CLow b c) : CLow a c :=
  ⟨h1.1.trans h2.1, fun h => (h1.2 h).trans (h2.2 (h1.1.symm.trans h))⟩
theorem CLow.of_masked {α : Type} {c c' : Cell α} (h : c.m = true) (h' : c'.m = true) : CLow c c' :=
  ⟨h.trans h'.symm, fun hf => by rw [h] at hf; cases hf⟩
theorem CLow.eq_of_unmasked {α : Type} {c c' : Cell α} (h : CLow c c') (hm : c.m = false) : c = c' := by
  obtain ⟨v, m⟩ := c; obtain ⟨v', m'⟩ := c'
  obtain ⟨h1, h2⟩ := h
  simp only at h1 h2 hm
  subst hm; subst h1
  rw [h2 rfl]

theorem ALow.refl {α : Type} (a : MArr α) : ALow a a := ⟨rfl, fun _ _ => CLow.refl _⟩
theorem ALow.symm {α : Type} {a b : MArr α} (h : ALow a b) : ALow b a :=
  ⟨h.1.symm, fun i hi => (h.2 i (by rw [h.1]; exact hi)).symm⟩
theorem ALow.trans {α : Type} {a b c : MArr α} (h1 : ALow a b) (h2 : ALow b c) : ALow a c :=
  ⟨h1.1.trans h2.1, fun i hi => (h1.2 i hi).trans (h2.2 i (by rw [← h1.1]; exact hi))⟩

/-! ### ni_elem: element functions -/

/-- an element function that keeps masked elements masked is a congruence for low-equivalence -/
theorem strict1_congr {α β : Type} {f : Cell α → Cell β} (hf : ∀ c, c.m = true → (f c).m = true)
    {c c' : Cell α} (h : CLow c c') : CLow (f c) (f c') := by
  cases hc : c.m with
  | true =>
    have hc' : c'.m = true := by rw [← h.1, hc]
    exact CLow.of_masked (hf c hc) (hf c' hc')
  | false => rw [h.eq_of_unmasked hc]; exact CLow.refl _

theorem strict2_congr {α β γ : Type} {f : Cell α → Cell β → Cell γ}
    (hf : ∀ a b, (a.m = true ∨ b.m = true) → (f a b).m = true)
    {a a' : Cell α} {b b' : Cell β} (ha : CLow a a') (hb : CLow b b') : CLow (f a b) (f a' b') := by
  cases hca : a.m with
  | true =>
    have : a'.m = true := by rw [← ha.1, hca]
    exact CLow.of_masked (hf a b (Or.inl hca)) (hf a' b' (Or.inl this))
  | false =>
    cases hcb : b.m with
    | true =>
      have : b'.m = true := by rw [← hb.1, hcb]
      exact CLow.of_masked (hf a b (Or.inr hcb)) (hf a' b' (Or.inr this))
    | false => rw [ha.eq_of_unmasked hca, hb.eq_of_unmasked hcb]; exact CLow.refl _

theorem pass_strict (f : K → K) (c : Cell K) (h : c.m = true) : (passCode f c).m = true := h
theorem maskWhere_strict (cond : K → Bool) (rep : K) (c : Cell K) (h : c.m = true) :
    (maskWhereCode cond rep c).m = true := by
  unfold maskWhereCode; split <;> simp [h]
theorem sqrt_strict (c : Cell K) (h : c.m = true) : (sqrtCode P c).m = true :=
  maskWhere_strict _ _ c h
theorem log_strict (c : Cell K) (h : c.m = true) : (logCode P c).m = true :=
  maskWhere_strict _ _ c h
theorem logNoNegs_strict (c : Cell K) (h : c.m = true) : (logNoNegs P c).m = true :=
  maskWhere_strict _ _ c h
theorem expChecked_strict (c : Cell K) (h : c.m = true) : (expCheckedCode P c).m = true :=
  maskWhere_strict _ _ c h
theorem arc_strict (f : K → K) (c : Cell K) (h : c.m = true) : (arcCode P f c).m = true := by
  simp [arcCode, h]
theorem nonZero_strict (c : Cell K) (h : c.m = true) : (nonZero P c).m = true :=
  maskWhere_strict _ _ c h
theorem recip_strict (c : Cell K) (h : c.m = true) : (recipCode P c).m = true :=
  maskWhere_strict _ _ c h
theorem scale_strict (k : K) (c : Cell K) (h : c.m = true) : (scaleCode P k c).m = true := h
theorem bin_strict (f : K → K → K) (a b : Cell K) (h : a.m = true ∨ b.m = true) :
    (binCode f a b).m = true := by
  cases h with
  | inl h => simp [binCode, h]
  | inr h => simp [binCode, h]
theorem div_strict (a b : Cell K) (h : a.m = true ∨ b.m = true) : (divCode P a b).m = true := by
  cases h with
  | inl h => exact bin_strict _ _ _ (Or.inl h)
  | inr h => exact bin_strict _ _ _ (Or.inr (nonZero_strict P b h))

/-- **ni_elem** for the value-producing element functions (default, checked forms): zero
    replacement and domain guards are evaluated on hidden values but can only touch masked elements -/
theorem ni_elem_unary {c c' : Cell K} (h : CLow c c') (f : K → K) :
    CLow (passCode f c) (passCode f c') ∧ CLow (sqrtCode P c) (sqrtCode P c') ∧
    CLow (logCode P c) (logCode P c') ∧ CLow (expCheckedCode P c) (expCheckedCode P c') ∧
    CLow (arcCode P f c) (arcCode P f c') ∧ CLow (recipCode P c) (recipCode P c') :=
  ⟨strict1_congr (pass_strict f) h, strict1_congr (sqrt_strict P) h, strict1_congr (log_strict P) h,
   strict1_congr (expChecked_strict P) h, strict1_congr (arc_strict P f) h, strict1_congr (recip_strict P) h⟩

theorem ni_elem_binary {a a' b b' : Cell K} (ha : CLow a a') (hb : CLow b b') (f : K → K → K) :
    CLow (binCode f a b) (binCode f a' b') ∧ CLow (divCode P a b) (divCode P a' b') :=
  ⟨strict2_congr (bin_strict f) ha hb, strict2_congr (div_strict P) ha hb⟩

/-- **ni_elem** for `==`, `!=`: two masked elements are equal whatever is stored underneath -/
theorem ni_elem_eq {a a' b b' : Cell K} (ha : CLow a a') (hb : CLow b b') :
    eqCode P a b = eqCode P a' b' ∧ neCode P a b = neCode P a' b' := by
  obtain ⟨ha1, ha2⟩ := ha; obtain ⟨hb1, hb2⟩ := hb
  obtain ⟨av, am⟩ := a; obtain ⟨av', am'⟩ := a'; obtain ⟨bv, bm⟩ := b; obtain ⟨bv', bm'⟩ := b'
  simp only at ha1 ha2 hb1 hb2
  subst ha1; subst hb1
  cases am <;> cases bm <;> simp_all [eqCode, neCode]

/-- **ni_elem** for `<`, `<=`, `>`, `>=` -/
theorem ni_elem_ord (cmp : K → K → Bool) {a a' b b' : Cell K} (ha : CLow a a') (hb : CLow b b') :
    ordCode cmp a b = ordCode cmp a' b' := by
  obtain ⟨ha1, ha2⟩ := ha; obtain ⟨hb1, hb2⟩ := hb
  obtain ⟨av, am⟩ := a; obtain ⟨av', am'⟩ := a'; obtain ⟨bv, bm⟩ := b; obtain ⟨bv', bm'⟩ := b'
  simp only at ha1 ha2 hb1 hb2
  subst ha1; subst hb1
  cases am <;> cases bm <;> simp_all [ordCode]

/-! ### ni_lift: arrays -/

theorem ALow_map {α β : Type} {f : Cell α → Cell β} (hf : ∀ c c', CLow c c' → CLow (f c) (f c'))
    {a b : MArr α} (h : ALow a b) : ALow (a.map f) (b.map f) :=
  ⟨h.1, fun i hi => hf _ _ (h.2 i hi)⟩

theorem ALow_zip {α β γ : Type} {f : Cell α → Cell β → Cell γ}
    (hf : ∀ a a' b b', CLow a a' → CLow b b' → CLow (f a b) (f a' b'))
    {a a' : MArr α} {b b' : MArr β} (hs : a.shape = b.shape) (ha : ALow a a') (hb : ALow b b') :
    ALow (zip f a b) (zip f a' b') :=
  ⟨ha.1, fun i hi => hf _ _ _ _ (ha.2 i hi) (hb.2 i (by rw [← hs]; exact hi))⟩

/-- broadcasting to `out` (every index of `out` projects into the operand's shape - `bidx_valid`) -/
theorem ALow_bto {α : Type} {a b : MArr α} (h : ALow a b) {out : Shape}
    (hv : ∀ i, Valid out i → Valid a.shape (bidx a.shape i)) : ALow (a.bto out) (b.bto out) :=
  ⟨rfl, fun i hi => by
    show CLow (a.get (bidx a.shape i)) (b.get (bidx b.shape i))
    rw [← h.1]; exact h.2 _ (hv i hi)⟩

theorem toList_map {α β : Type} (g : α → β) (a : Arr α) : (a.map g).toList = a.toList.map g := by
  simp [Arr.toList, Arr.map]

/-- anything computed from the elements through a function that respects low-equivalence is equal -/
theorem toList_map_congr {α β : Type} {g : Cell α → β} (hg : ∀ c c', CLow c c' → g c = g c')
    {a b : MArr α} (h : ALow a b) : a.toList.map g = b.toList.map g := by
  simp only [Arr.toList, List.map_map, ← h.1]
  apply List.map_congr_left
  intro i hi
  exact hg _ _ (h.2 i ((mem_indices _ _).1 hi))

theorem toList_any_congr {α : Type} {g : Cell α → Bool} (hg : ∀ c c', CLow c c' → g c = g c')
    {a b : MArr α} (h : ALow a b) : a.toList.any g = b.toList.any g := by
  have := toList_map_congr hg h
  have e : ∀ l : List (Cell α), l.any g = (l.map g).any id := by
    intro l; simp [List.any_map]
  rw [e, e, this]

theorem F2_map {α β : Type} {R : β → β → Prop} (f g : α → β) (l : List α) (h : ∀ x ∈ l, R (f x) (g x)) :
    F2 R (l.map f) (l.map g) := by
  induction l with
  | nil => exact .nil
  | cons x xs ih => exact .cons (h x (by simp)) (ih fun y hy => h y (by simp [hy]))

theorem toList_forall2 {α : Type} {a b : MArr α} (h : ALow a b) : F2 CLow a.toList b.toList := by
  simp only [Arr.toList, ← h.1]
  exact F2_map _ _ _ fun i hi => h.2 i ((mem_indices _ _).1 hi)

/-- the lanes of low-equivalent arrays are element-wise low-equivalent (the lane of a valid output
    index reads valid input indices - `lanes_partition`) -/
theorem lane_forall2 {α : Type} {a b : MArr α} (h : ALow a b) (axes : List Nat) (o : Index)
    (ho : Valid (dropAxes axes a.shape) o) : F2 CLow (a.lane axes o) (b.lane axes o) := by
  simp only [Arr.lane, ← h.1]
  exact F2_map _ _ _ fun r hr =>
    h.2 _ ((lanes_partition axes a.shape).2 o r ho ((mem_indices _ _).1 hr)).1

/-- **ni_lift** (element-wise layer): strict element functions lift to arrays, with broadcasting -/
theorem ni_lift_unary {f : Cell K → Cell K} (hf : ∀ c, c.m = true → (f c).m = true) {a b : MArr K}
    (h : ALow a b) : ALow (a.map f) (b.map f) :=
  ALow_map (fun _ _ => strict1_congr hf) h

theorem ni_lift_binary {f : Cell K → Cell K → Cell K} (hf : ∀ a b, (a.m = true ∨ b.m = true) → (f a b).m = true)
    {a a' b b' : MArr K} (ha : ALow a a') (hb : ALow b b') {out : Shape} (hbc : bcast a.shape b.shape = some out) :
    ALow (zip f (a.bto out) (b.bto out)) (zip f (a'.bto out) (b'.bto out)) :=
  ALow_zip (fun _ _ _ _ => strict2_congr hf) rfl (ALow_bto ha fun _ hi => bidx_valid hbc hi)
    (ALow_bto hb fun _ hi => bidx_valid_right hbc hi)

/-! ### observation -/

theorem filter_unmasked_congr {α : Type} {xs ys : List (Cell α)} (h : F2 CLow xs ys) :
    (xs.filter fun c => !c.m).map (·.v) = (ys.filter fun c => !c.m).map (·.v) := by
  induction h with
  | nil => rfl
  | @cons c c' l l' hc _ ih =>
    cases hm : c.m with
    | true =>
      have hm' : c'.m = true := by rw [← hc.1, hm]
      simp [List.filter, hm, hm', ih]
    | false =>
      have := hc.eq_of_unmasked hm
      subst this
      simp [List.filter, hm, ih]

theorem masks_congr {α : Type} {xs ys : List (Cell α)} (h : F2 CLow xs ys) :
    xs.map (·.m) = ys.map (·.m) := by
  induction h with
  | nil => rfl
  | cons hc _ ih => simp [hc.1, ih]

/-- low-equivalent arrays are observed equal: shape, expanded mask, values at unmasked elements -/
theorem obsArr_congr {α : Type} {a b : MArr α} (h : ALow a b) : obsArr a = obsArr b := by
  have h2 := toList_forall2 h
  simp only [obsArr, h.1, masks_congr h2, filter_unmasked_congr h2]

theorem obsObj_congr {x y : Obj K} (h : LowEq x y) : obsObj x = obsObj y := by
  obtain ⟨xm, xd⟩ := x; obtain ⟨ym, yd⟩ := y
  obtain ⟨h1, h2⟩ := h
  simp only [obsObj, obsArr_congr h1]
  cases xd <;> cases yd <;> simp_all [DLow, Option.map]
  exact obsArr_congr h2.2

theorem obsRes_congr {r r' : Except Err (Obj K)} (h : RLow r r') : obsRes r = obsRes r' := by
  cases r <;> cases r' <;> simp_all [RLow, obsRes]
  exact obsObj_congr h

/-- comparisons: low-equivalent operands give the SAME observation of the Boolean result (or both
    fail to broadcast) -/
theorem ni_cmp {f : Cell K → Cell K → Cell Bool} (hf : ∀ a a' b b', CLow a a' → CLow b b' → f a b = f a' b')
    {x x' y y' : MArr K} (hx : ALow x x') (hy : ALow y y') :
    (cmpArr f x y).map obsArr = (cmpArr f x' y').map obsArr := by
  unfold cmpArr
  rw [← hx.1, ← hy.1]
  cases hb : bcast x.shape y.shape with
  | none => rfl
  | some out =>
    simp only [Option.map]
    have bx := ALow_bto hx (out := out) fun _ hi => bidx_valid hb hi
    have bY := ALow_bto hy (out := out) fun _ hi => bidx_valid_right hb hi
    have : ALow (zip f (x.bto out) (y.bto out)) (zip f (x'.bto out) (y'.bto out)) :=
      ⟨rfl, fun i hi => by
        show CLow (f _ _) (f _ _)
        rw [hf _ _ _ _ (bx.2 i hi) (bY.2 i hi)]; exact CLow.refl _⟩
    rw [obsArr_congr this]

/-! ### the fast paths (check=False, nozeros=True) -/

theorem any_unmasked_bad_of_safe (bad : K → Bool) (safe : K) (hsafe : bad safe = false) (l : List (Cell K)) :
    (l.map fun c => if c.m then (⟨safe, true⟩ : Cell K) else c).any (fun c => bad c.v)
      = l.any fun c => !c.m && bad c.v := by
  induction l with
  | nil => rfl
  | cons c cs ih =>
    simp only [List.map, List.any_cons, ih]
    cases hm : c.m <;> simp [hsafe]

theorem any_bad_false {bad : K → Bool} {l : List (Cell K)} (h : (l.any fun c => bad c.v) = false) :
    (l.any fun c => !c.m && bad c.v) = false := by
  induction l with
  | nil => rfl
  | cons c cs ih =>
    simp only [List.any_cons, Bool.or_eq_false_iff] at h ⊢
    exact ⟨by simp [h.1], ih h.2⟩

theorem any_bad_nomask {bad : K → Bool} {l : List (Cell K)} (h : (l.any (·.m)) = false) :
    (l.any fun c => !c.m && bad c.v) = l.any fun c => bad c.v := by
  induction l with
  | nil => rfl
  | cons c cs ih =>
    simp only [List.any_cons, Bool.or_eq_false_iff] at h
    simp only [List.any_cons, ih h.2, h.1]; simp

/-- the repaired fast path raises exactly when an UNMASKED element is outside the domain, and
    otherwise returns `np.f` of the values up to what is stored underneath the masks -/
theorem fast_spec (bad : K → Bool) (f : K → K) (safe : K) (hsafe : bad safe = false) (a : MArr K) :
    ((a.toList.any fun c => !c.m && bad c.v) = true → fastCode bad f safe a = .error .value) ∧
    ((a.toList.any fun c => !c.m && bad c.v) = false →
      ∃ r, fastCode bad f safe a = .ok r ∧ ALow r (a.map (passCode f))) := by
  have e1 := any_unmasked_bad_of_safe bad safe hsafe a.toList
  unfold fastCode
  simp only [toList_map, e1]
  cases h1 : a.toList.any fun c => bad c.v with
  | false =>
    have hu := any_bad_false (l := a.toList) h1
    rw [hu]
    exact ⟨fun h => Bool.noConfusion h, fun _ => ⟨a.map (passCode f), by simp, ALow.refl _⟩⟩
  | true =>
    cases h2 : a.toList.any (·.m) with
    | false =>
      have hu : (a.toList.any fun c => !c.m && bad c.v) = true := by rw [any_bad_nomask h2, h1]
      rw [hu]
      exact ⟨fun _ => by simp, fun h => Bool.noConfusion h⟩
    | true =>
      cases h3 : a.toList.any fun c => !c.m && bad c.v with
      | true => exact ⟨fun _ => by simp, fun h => Bool.noConfusion h⟩
      | false =>
        refine ⟨fun h => Bool.noConfusion h, fun _ => ⟨(a.map fun c => if c.m then (⟨safe, true⟩ : Cell K) else c).map (passCode f), by simp, rfl, fun i _ => ?_⟩⟩
        show CLow (passCode f (if (a.get i).m then (⟨safe, true⟩ : Cell K) else a.get i)) (passCode f (a.get i))
        cases hm : (a.get i).m with
        | true => exact CLow.of_masked rfl (by simp [passCode, hm])
        | false => simp only [Bool.false_eq_true, ite_false]; exact CLow.refl _

theorem unmaskedBad_congr (bad : K → Bool) {a b : MArr K} (h : ALow a b) :
    (a.toList.any fun c => !c.m && bad c.v) = (b.toList.any fun c => !c.m && bad c.v) :=
  toList_any_congr (fun c c' hc => by
    cases hm : c.m with
    | true => have hm' : c'.m = true := by rw [← hc.1, hm]
              simp [hm']
    | false => have e := hc.eq_of_unmasked hm
               subst e; simp [hm]) h

/-- **ni_elem, fast paths**: whether sqrt/log/arcsin/arccos(check=False), reciprocal(nozeros=True),
    exp() raise, and what they return, does not depend on hidden values -/
theorem ni_fast (bad : K → Bool) (f : K → K) (safe : K) (hsafe : bad safe = false) {a b : MArr K}
    (h : ALow a b) : RLowA (fastCode bad f safe a) (fastCode bad f safe b) := by
  have hU := unmaskedBad_congr bad h
  obtain ⟨a1, a2⟩ := fast_spec bad f safe hsafe a
  obtain ⟨b1, b2⟩ := fast_spec bad f safe hsafe b
  cases hu : a.toList.any fun c => !c.m && bad c.v with
  | true => rw [a1 hu, b1 (hU ▸ hu)]; rfl
  | false =>
    obtain ⟨r, hr, hra⟩ := a2 hu
    obtain ⟨r', hr', hrb⟩ := b2 (hU ▸ hu)
    rw [hr, hr']
    exact hra.trans ((ALow_map (fun _ _ => strict1_congr (pass_strict f)) h).trans hrb.symm)

/-- a successful fast path keeps the shape -/
theorem fast_shape (bad : K → Bool) (f : K → K) (safe : K) (hsafe : bad safe = false) {a r : MArr K}
    (h : fastCode bad f safe a = .ok r) : r.shape = a.shape := by
  obtain ⟨a1, a2⟩ := fast_spec bad f safe hsafe a
  cases hu : a.toList.any fun c => !c.m && bad c.v with
  | true => rw [a1 hu] at h; cases h
  | false =>
    obtain ⟨r', hr', hra⟩ := a2 hu
    rw [hr'] at h
    cases h
    exact hra.1

def isOk {α : Type} : Except Err α → Bool
  | .ok _ => true
  | .error _ => false

/-- the PINNED (unrepaired) fast path is not non-interfering: a hidden negative number makes
    `sqrt(check=False)` raise.  Witness over the integers: `Scalar([-1, 4], [True, False])` raises, the
    same object with `1` stored underneath the mask does not. -/
theorem ni_fastpath_counterexample :
    ∃ (a b : MArr Int), ALow a b ∧
      isOk (fastPinnedCode (fun x => decide (x < 0)) id a) ≠ isOk (fastPinnedCode (fun x => decide (x < 0)) id b) := by
  refine ⟨⟨[2], fun i => if i = [0] then ⟨-1, true⟩ else ⟨4, false⟩⟩,
          ⟨[2], fun i => if i = [0] then ⟨1, true⟩ else ⟨4, false⟩⟩, ⟨rfl, fun i _ => ?_⟩, ?_⟩
  · by_cases hi : i = [0] <;> simp [hi, CLow]
  · decide

/-! ### ni_reduce / ni_sort: lanes of any length -/

theorem filled_congr (fillv : K) {xs ys : List (Cell K)} (h : F2 CLow xs ys) :
    filled fillv xs = filled fillv ys := by
  induction h with
  | nil => rfl
  | @cons c c' l l' hc _ ih =>
    simp only [filled, List.map] at ih ⊢
    rw [ih]
    cases hm : c.m with
    | true => have : c'.m = true := by rw [← hc.1, hm]
              simp [this]
    | false => have e := hc.eq_of_unmasked hm
               subst e; simp [hm]

theorem count_congr {xs ys : List (Cell K)} (h : F2 CLow xs ys) :
    countUnmasked xs = countUnmasked ys := by
  induction h with
  | nil => rfl
  | cons hc _ ih =>
    simp only [countUnmasked, List.countP_cons] at ih ⊢
    rw [ih, hc.1]

theorem allm_congr {xs ys : List (Cell K)} (h : F2 CLow xs ys) :
    xs.all (·.m) = ys.all (·.m) := by
  induction h with
  | nil => rfl
  | cons hc _ ih => simp only [List.all_cons, ih, hc.1]

theorem sumLane_congr {xs ys : List (Cell K)} (h : F2 CLow xs ys) : sumLane P xs = sumLane P ys := by
  simp only [sumLane, count_congr h, filled_congr P.zero h]

theorem meanLane_congr {xs ys : List (Cell K)} (h : F2 CLow xs ys) : meanLane P xs = meanLane P ys := by
  simp only [meanLane, count_congr h, filled_congr P.zero h]

theorem extremeLane_congr (k : List K → K) (fillv : K) {xs ys : List (Cell K)} (h : F2 CLow xs ys) :
    CLow (extremeLane k fillv xs) (extremeLane k fillv ys) := by
  simp only [extremeLane, allm_congr h, filled_congr fillv h]
  cases hm : ys.all (·.m) with
  | true => exact CLow.of_masked rfl rfl
  | false => exact CLow.refl _

theorem argLane_congr (k : List K → Nat) (fillv : K) {xs ys : List (Cell K)} (h : F2 CLow xs ys) :
    CLow (argLane P k fillv xs) (argLane P k fillv ys) := by
  simp only [argLane, allm_congr h, filled_congr fillv h]
  cases hm : ys.all (·.m) with
  | true => exact CLow.of_masked rfl rfl
  | false => exact CLow.refl _

theorem medianLane_congr {xs ys : List (Cell K)} (h : F2 CLow xs ys) :
    CLow (medianLane P xs) (medianLane P ys) := by
  simp only [medianLane, count_congr h, filled_congr P.posInf h]
  cases hm : countUnmasked ys == 0 with
  | true => exact CLow.of_masked rfl rfl
  | false => exact CLow.refl _

theorem sortLane_congr (hm : K) {xs ys : List (Cell K)} (h : F2 CLow xs ys) :
    sortLane P hm xs = sortLane P hm ys := by
  simp only [sortLane, count_congr h, filled_congr P.posInf h]

/-- **ni_reduce**: a reduction whose lane kernel respects low-equivalence is non-interfering, for
    every shape, every set of axes and every lane length -/
theorem ni_reduce {k : List (Cell K) → Cell K}
    (hk : ∀ xs ys, F2 CLow xs ys → CLow (k xs) (k ys)) {a b : MArr K} (h : ALow a b)
    (axes : List Nat) : ALow (reduceCode k a axes) (reduceCode k b axes) :=
  ⟨by simp [reduceCode, Arr.reduce, h.1], fun o ho => hk _ _ (lane_forall2 h axes o ho)⟩

/-- the seven reductions of the catalogue -/
theorem ni_reduce_all {a b : MArr K} (h : ALow a b) (axes : List Nat) :
    ALow (reduceCode (sumLane P) a axes) (reduceCode (sumLane P) b axes) ∧
    ALow (reduceCode (meanLane P) a axes) (reduceCode (meanLane P) b axes) ∧
    ALow (reduceCode (extremeLane (maxK P) P.negInf) a axes) (reduceCode (extremeLane (maxK P) P.negInf) b axes) ∧
    ALow (reduceCode (extremeLane (minK P) P.posInf) a axes) (reduceCode (extremeLane (minK P) P.posInf) b axes) ∧
    ALow (reduceCode (argLane P (argmaxK P) P.negInf) a axes) (reduceCode (argLane P (argmaxK P) P.negInf) b axes) ∧
    ALow (reduceCode (argLane P (argminK P) P.posInf) a axes) (reduceCode (argLane P (argminK P) P.posInf) b axes) ∧
    ALow (reduceCode (medianLane P) a axes) (reduceCode (medianLane P) b axes) :=
  ⟨ni_reduce (fun _ _ hl => by rw [sumLane_congr P hl]; exact CLow.refl _) h axes,
   ni_reduce (fun _ _ hl => by rw [meanLane_congr P hl]; exact CLow.refl _) h axes,
   ni_reduce (fun _ _ hl => extremeLane_congr _ _ hl) h axes,
   ni_reduce (fun _ _ hl => extremeLane_congr _ _ hl) h axes,
   ni_reduce (fun _ _ hl => argLane_congr P _ _ hl) h axes,
   ni_reduce (fun _ _ hl => argLane_congr P _ _ hl) h axes,
   ni_reduce (fun _ _ hl => medianLane_congr P hl) h axes⟩

/-- **ni_sort**: the sorted array (masked elements last, overwritten) is the same in both runs -/
theorem ni_sort {a b : MArr K} (h : ALow a b) (axis : Nat) : ALow (sortCode P a axis) (sortCode P b axis) := by
  have hm : maxK P (filled P.negInf a.toList) = maxK P (filled P.negInf b.toList) := by
    rw [filled_congr P.negInf (toList_forall2 h)]
  refine ⟨h.1, fun i hi => ?_⟩
  have ho := ((lanes_partition [axis] a.shape).1 i hi).1
  simp only [sortCode, hm, sortLane_congr P _ (lane_forall2 h [axis] (dropAxes [axis] i) ho)]
  exact CLow.refl _

/-! ### ni_index -/

theorem valid_append_split : ∀ (s t : Shape) (i : Index), Valid (s ++ t) i →
    Valid s (i.take s.length) ∧ Valid t (i.drop s.length)
  | [], t, i, h => by simpa [Valid] using h
  | n :: s, t, [], h => by simp [Valid] at h
  | n :: s, t, a :: i, h => by
    have h' : a < n ∧ Valid (s ++ t) i := by simpa [Valid] using h
    have ih := valid_append_split s t i h'.2
    simpa [Valid] using ⟨⟨h'.1, ih.1⟩, ih.2⟩

/-- **ni_index**: indexing by a masked integer index object: hidden index values (including
    out-of-range ones) and hidden array values do not influence the result -/
theorem ni_index {x x' : MArr K} {idx idx' : MArr Int} (hx : ALow x x') (hi : ALow idx idx') :
    RLowA (getitemCode x idx) (getitemCode x' idx') := by
  unfold getitemCode
  rw [← hx.1]
  cases hs : x.shape with
  | nil => rfl
  | cons len rest =>
    simp only [RLowA]
    refine ⟨by rw [hi.1], fun i hv => ?_⟩
    have hv' : Valid (idx.shape ++ rest) i := hv
    obtain ⟨hj, hr⟩ := valid_append_split _ _ _ hv'
    simp only [← hi.1]
    generalize hjd : List.take idx.shape.length i = j at hj
    have hc := hi.2 j hj
    cases hm : (idx.get j).m with
    | true =>
      have hm' : (idx'.get j).m = true := by rw [← hc.1, hm]
      exact CLow.of_masked (by simp [hm]) (by simp [hm'])
    | false =>
      rw [← hc.eq_of_unmasked hm]
      simp only [hm, Bool.false_or]
      cases hoob : (decide ((idx.get j).v ≥ (len : Int)) || decide ((idx.get j).v < -(len : Int))) with
      | true => exact CLow.of_masked (by simp) (by simp)
      | false =>
        simp only [Bool.false_eq_true, ite_false, Bool.or_false]
        simp only [Bool.or_eq_false_iff, decide_eq_false_iff_not] at hoob
        have hpos : (0 : Int) < (len : Int) := by omega
        have h0 := Int.emod_nonneg (idx.get j).v (Int.ne_of_gt hpos)
        have h1 := Int.emod_lt_of_pos (idx.get j).v hpos
        have hk : ((idx.get j).v % (len : Int)).toNat < len := by omega
        have hvx : Valid x.shape (((idx.get j).v % (len : Int)).toNat :: List.drop idx.shape.length i) := by
          rw [hs]; exact ⟨hk, hr⟩
        have := hx.2 _ hvx
        exact ⟨this.1, this.2⟩

theorem getitem_shape {x r : MArr K} {idx : MArr Int} (h : getitemCode x idx = .ok r) :
    r.shape = idx.shape ++ x.shape.tail := by
  unfold getitemCode at h
  cases hs : x.shape with
  | nil => rw [hs] at h; cases h
  | cons len rest => rw [hs] at h; cases h; rfl

theorem getD_mem {α : Type} {l : List α} {j : Nat} {d : α} (h : j < l.length) : l.getD j d ∈ l := by
  induction l generalizing j with
  | nil => simp at h
  | cons a as ih =>
    cases j with
    | zero => simp
    | succ n => simpa using Or.inr (ih (by simpa using h))

theorem ni_index_bool {x x' : MArr K} {b b' : MArr Bool} (hx : ALow x x') (hb : ALow b b') :
    RLowA (getitemBoolCode x b) (getitemBoolCode x' b') := by
  unfold getitemBoolCode
  rw [← hx.1, ← hb.1]
  cases hs : x.shape with
  | nil => rfl
  | cons len rest =>
    cases hbs : b.shape with
    | nil => rfl
    | cons n tl =>
      cases tl with
      | cons _ _ => rfl
      | nil =>
        simp only []
        by_cases hn : (n != len) = true
        · simp [hn]; rfl
        · simp only [hn]
          have hnl : n = len := by simpa using hn
          have hsel : ∀ p ∈ List.range len, ((b.get [p]).v || (b.get [p]).m) = ((b'.get [p]).v || (b'.get [p]).m) := by
            intro p hp
            have hv : Valid b.shape [p] := by
              rw [hbs, hnl]; exact ⟨List.mem_range.1 hp, trivial⟩
            have hc := hb.2 [p] hv
            cases hm : (b.get [p]).m with
            | true => have hm' : (b'.get [p]).m = true := by rw [← hc.1, hm]
                      simp [hm']
            | false => rw [← hc.eq_of_unmasked hm]; simp [hm]
          have hpos : ((List.range len).filter fun p => (b.get [p]).v || (b.get [p]).m)
              = ((List.range len).filter fun p => (b'.get [p]).v || (b'.get [p]).m) :=
            List.filter_congr hsel
          rw [← hpos]
          refine ⟨rfl, fun i hv => ?_⟩
          match i, hv with
          | [], hv => exact hv.elim
          | j :: r, hv =>
            have hfacts : ∀ q ∈ ((List.range len).filter fun p => (b.get [p]).v || (b.get [p]).m), q < len :=
              fun q hq => List.mem_range.1 (List.mem_filter.1 hq).1
            have hj : j < ((List.range len).filter fun p => (b.get [p]).v || (b.get [p]).m).length := hv.1
            generalize ((List.range len).filter fun p => (b.get [p]).v || (b.get [p]).m) = pos at hj hfacts
            have hplen : pos.getD j 0 < len := hfacts _ (getD_mem hj)
            have hvx : Valid x.shape (pos.getD j 0 :: r) := by rw [hs]; exact ⟨hplen, hv.2⟩
            have hvb : Valid b.shape [pos.getD j 0] := by rw [hbs, hnl]; exact ⟨hplen, trivial⟩
            have hcx := hx.2 _ hvx
            have hcb := hb.2 _ hvb
            show CLow ⟨(x.get (pos.getD j 0 :: r)).v, (x.get (pos.getD j 0 :: r)).m || (b.get [pos.getD j 0]).m⟩
                      ⟨(x'.get (pos.getD j 0 :: r)).v, (x'.get (pos.getD j 0 :: r)).m || (b'.get [pos.getD j 0]).m⟩
            rw [← hcb.1]
            cases hmb : (b.get [pos.getD j 0]).m with
            | true => exact CLow.of_masked (by simp) (by simp)
            | false => simp only [Bool.or_false]; exact ⟨hcx.1, hcx.2⟩

theorem getitemBool_shape {x r : MArr K} {b : MArr Bool} (h : getitemBoolCode x b = .ok r) (x' : MArr K)
    (hs : x'.shape = x.shape) : ∀ r', getitemBoolCode x' b = .ok r' → r'.shape = r.shape := by
  intro r' h'
  unfold getitemBoolCode at h h'
  rw [hs] at h'
  cases hxs : x.shape with
  | nil => rw [hxs] at h; cases h
  | cons len rest =>
    rw [hxs] at h h'
    cases hbs : b.shape with
    | nil => rw [hbs] at h; cases h
    | cons n tl =>
      rw [hbs] at h h'
      cases tl with
      | cons _ _ => cases h
      | nil =>
        simp only [] at h h'
        by_cases hn : (n != len) = true
        · simp [hn] at h
        · simp only [hn] at h h'
          cases h; cases h'; rfl

theorem getitemBoolObj_congr {x y : Obj K} (h : LowEq x y) {b b' : MArr Bool} (hb : ALow b b') :
    RLow (getitemBoolObj x b) (getitemBoolObj y b') := by
  have hm := ni_index_bool h.1 hb
  have h2 := h.2
  unfold getitemBoolObj
  cases e1 : getitemBoolCode x.main b with
  | error e =>
    cases e2 : getitemBoolCode y.main b' with
    | error e' => rw [e1, e2] at hm; exact hm
    | ok r' => rw [e1, e2] at hm; exact hm.elim
  | ok r =>
    cases e2 : getitemBoolCode y.main b' with
    | error e' => rw [e1, e2] at hm; exact hm.elim
    | ok r' =>
      rw [e1, e2] at hm
      have hm : ALow r r' := hm
      cases hx : x.d with
      | none =>
        cases hy : y.d with
        | none => exact ⟨hm, trivial⟩
        | some dy => rw [hx, hy] at h2; exact h2.elim
      | some dx =>
        cases hy : y.d with
        | none => rw [hx, hy] at h2; exact h2.elim
        | some dy =>
          rw [hx, hy] at h2
          have h2' : dx.shape = x.main.shape ∧ ALow dx dy := h2
          have hd := ni_index_bool h2'.2 hb
          show RLow (match getitemBoolCode dx b with
                     | .error e => .error e
                     | .ok rd => .ok ⟨r, some rd⟩)
                    (match getitemBoolCode dy b' with
                     | .error e => .error e
                     | .ok rd => .ok ⟨r', some rd⟩)
          cases e3 : getitemBoolCode dx b with
          | error e =>
            cases e4 : getitemBoolCode dy b' with
            | error e' => rw [e3, e4] at hd; exact hd
            | ok _ => rw [e3, e4] at hd; exact hd.elim
          | ok rd =>
            cases e4 : getitemBoolCode dy b' with
            | error e' => rw [e3, e4] at hd; exact hd.elim
            | ok rd' =>
              rw [e3, e4] at hd
              exact ⟨hm, getitemBool_shape e1 dx h2'.1 rd e3, hd⟩

/-! ### ni_stack, ni_shrink, ni_pickle -/

theorem ni_stack {a a' b b' : MArr K} (hs : a.shape = b.shape) (ha : ALow a a') (hb : ALow b b') :
    ALow (stackArr a b) (stackArr a' b') := by
  refine ⟨by simp [stackArr, ha.1], fun i hi => ?_⟩
  match i, hi with
  | [], hi => exact hi.elim
  | 0 :: r, hi => exact ha.2 r hi.2
  | (n + 1) :: r, hi => exact hb.2 r (by rw [← hs]; exact hi.2)

theorem shrinkFlag_congr {a b : MArr K} (h : ALow a b) (am : Arr Bool) :
    ((zip (fun (c : Cell K) (s : Bool) => s && !c.m) a am).toList.any id)
      = ((zip (fun (c : Cell K) (s : Bool) => s && !c.m) b am).toList.any id) := by
  have e : (zip (fun (c : Cell K) (s : Bool) => s && !c.m) a am).toList
      = (zip (fun (c : Cell K) (s : Bool) => s && !c.m) b am).toList := by
    simp only [Arr.toList, zip, ← h.1]
    apply List.map_congr_left
    intro i hi; simp [(h.2 i ((mem_indices _ _).1 hi)).1]
  rw [e]

theorem remaskZip_congr {a b : MArr K} (h : ALow a b) (am : Arr Bool) :
    ALow (zip (fun (c : Cell K) (s : Bool) => (⟨c.v, c.m || !s⟩ : Cell K)) a am)
         (zip (fun (c : Cell K) (s : Bool) => (⟨c.v, c.m || !s⟩ : Cell K)) b am) :=
  ⟨h.1, fun i hi => strict1_congr (f := fun c => (⟨c.v, c.m || !am.get i⟩ : Cell K))
    (fun c hc => by simp [hc]) (h.2 i hi)⟩

theorem ni_shrink {a b : MArr K} (h : ALow a b) (am : Arr Bool) :
    ALow (shrinkUnshrinkArr P a am) (shrinkUnshrinkArr P b am) := by
  unfold shrinkUnshrinkArr
  rw [shrinkFlag_congr h am]
  split
  · exact ALow.refl _
  · exact remaskZip_congr h am

/-- **ni_pickle**: what is written to the pickle does not contain the hidden values at all -/
theorem ni_pickle_bytes {a b : MArr K} (h : ALow a b) : pickleBytes a = pickleBytes b :=
  obsArr_congr h

theorem ni_pickle {a b : MArr K} (h : ALow a b) : pickleArr P a = pickleArr P b := by
  simp only [pickleArr, ni_pickle_bytes h]

/-! ### objects: every operation of the catalogue is a congruence -/

theorem DLow_map {s s' : Shape} {f g : MArr K → MArr K}
    (hf : ∀ a b, a.shape = s → ALow a b → (f a).shape = s' ∧ ALow (f a) (g b))
    {d d' : Option (MArr K)} (h : DLow s d d') : DLow s' (d.map f) (d'.map g) := by
  cases d with
  | none =>
    cases d' with
    | none => trivial
    | some _ => exact False.elim h
  | some a =>
    cases d' with
    | none => exact False.elim h
    | some b =>
      have h' : a.shape = s ∧ ALow a b := h
      exact hf a b h'.1 h'.2

theorem mul_congr : ∀ a a' b b' : Cell K, CLow a a' → CLow b b' → CLow (binCode P.mul a b) (binCode P.mul a' b') :=
  fun _ _ _ _ => strict2_congr (bin_strict P.mul)

theorem zipbin_congr (f : K → K → K) {a a' b b' : MArr K} (hs : a.shape = b.shape) (ha : ALow a a') (hb : ALow b b') :
    ALow (zip (binCode f) a b) (zip (binCode f) a' b') :=
  ALow_zip (fun _ _ _ _ => strict2_congr (bin_strict f)) hs ha hb

theorem zipdiv_congr {a a' b b' : MArr K} (hs : a.shape = b.shape) (ha : ALow a a') (hb : ALow b b') :
    ALow (zip (divCode P) a b) (zip (divCode P) a' b') :=
  ALow_zip (fun _ _ _ _ => strict2_congr (div_strict P)) hs ha hb

theorem negmap_congr {a a' : MArr K} (h : ALow a a') : ALow (a.map (passCode P.neg)) (a'.map (passCode P.neg)) :=
  ni_lift_unary (pass_strict P.neg) h

theorem unaryObj_congr {f g : Cell K → Cell K} (hf : ∀ c, c.m = true → (f c).m = true)
    (hg : ∀ c, c.m = true → (g c).m = true) {x y : Obj K} (h : LowEq x y) :
    LowEq (unaryObj P f g x) (unaryObj P f g y) := by
  refine ⟨ni_lift_unary hf h.1, DLow_map ?_ h.2⟩
  intro a b hsd hd
  exact ⟨rfl, zipbin_congr P.mul hsd.symm (ni_lift_unary hg h.1) hd⟩

theorem btoObj_congr {x y : Obj K} (h : LowEq x y) {out : Shape}
    (hv : ∀ i, Valid out i → Valid x.main.shape (bidx x.main.shape i)) : LowEq (btoObj x out) (btoObj y out) := by
  refine ⟨ALow_bto h.1 hv, DLow_map ?_ h.2⟩
  intro a b hsd hd
  exact ⟨rfl, ALow_bto hd (by rw [hsd]; exact hv)⟩

theorem mergeD_congr {s : Shape} {both : MArr K → MArr K → MArr K} {right : MArr K → MArr K}
    (hb : ∀ a a' b b', a.shape = s → b.shape = s → ALow a a' → ALow b b' →
      (both a b).shape = s ∧ ALow (both a b) (both a' b'))
    (hr : ∀ a a', a.shape = s → ALow a a' → (right a).shape = s ∧ ALow (right a) (right a'))
    {d1 d1' d2 d2' : Option (MArr K)} (h1 : DLow s d1 d1') (h2 : DLow s d2 d2') :
    DLow s (mergeD both right d1 d2) (mergeD both right d1' d2') := by
  cases d1 with
  | none =>
    cases d1' with
    | some _ => exact False.elim h1
    | none =>
      cases d2 with
      | none =>
        cases d2' with
        | none => trivial
        | some _ => exact False.elim h2
      | some b =>
        cases d2' with
        | none => exact False.elim h2
        | some b' =>
          have h2' : b.shape = s ∧ ALow b b' := h2
          exact hr b b' h2'.1 h2'.2
  | some a =>
    cases d1' with
    | none => exact False.elim h1
    | some a' =>
      have h1' : a.shape = s ∧ ALow a a' := h1
      cases d2 with
      | none =>
        cases d2' with
        | none => exact h1'
        | some _ => exact False.elim h2
      | some b =>
        cases d2' with
        | none => exact False.elim h2
        | some b' =>
          have h2' : b.shape = s ∧ ALow b b' := h2
          exact hb a a' b b' h1'.1 h2'.1 h1'.2 h2'.2

theorem zipbin_merge (f : K → K → K) (s : Shape) : ∀ a a' b b' : MArr K, a.shape = s → b.shape = s → ALow a a' → ALow b b' →
    (zip (binCode f) a b).shape = s ∧ ALow (zip (binCode f) a b) (zip (binCode f) a' b') :=
  fun _ _ _ _ h1 h2 ha hb => ⟨h1, zipbin_congr f (h1.trans h2.symm) ha hb⟩

theorem id_merge (s : Shape) : ∀ a a' : MArr K, a.shape = s → ALow a a' → (id a).shape = s ∧ ALow (id a) (id a') :=
  fun _ _ h1 h => ⟨h1, h⟩

theorem neg_merge (s : Shape) : ∀ a a' : MArr K, a.shape = s → ALow a a' →
    (a.map (passCode P.neg)).shape = s ∧ ALow (a.map (passCode P.neg)) (a'.map (passCode P.neg)) :=
  fun _ _ h1 h => ⟨h1, negmap_congr P h⟩

/-- **ni_lift** for the unary operations of the catalogue, errors included -/
theorem evalU_congr (hexp : P.expOv P.zero = false) (hsq : sqrtBad P P.one = false)
    (hlg : logBad P P.one = false) (harc : arcBad P P.zero = false) (hrc : recipBad P P.one = false)
    (op : UOp) (hop : op ≠ .pickle) {x y : Obj K} (h : LowEq x y) : RLow (evalU P op x) (evalU P op y) := by
  have fastObj_congr : ∀ (bad : K → Bool) (f : K → K) (safe : K) (g : Cell K → Cell K),
      bad safe = false → (∀ c, c.m = true → (g c).m = true) →
      RLow (fastObj P bad f safe g x) (fastObj P bad f safe g y) := by
    intro bad f safe g hs hg
    have := ni_fast bad f safe hs h.1
    unfold fastObj
    cases h1 : fastCode bad f safe x.main with
    | error e =>
      cases h2 : fastCode bad f safe y.main with
      | error e' => rw [h1, h2] at this; exact this
      | ok r' => rw [h1, h2] at this; exact this.elim
    | ok r =>
      cases h2 : fastCode bad f safe y.main with
      | error e' => rw [h1, h2] at this; exact this.elim
      | ok r' =>
        rw [h1, h2] at this
        have hr : ALow r r' := this
        have hsh := fast_shape bad f safe hs h1
        refine ⟨hr, DLow_map ?_ h.2⟩
        intro a b hsd hd
        exact ⟨rfl, zipbin_congr P.mul (hsh.trans hsd.symm) (ni_lift_unary hg hr) hd⟩
  have fastPlain : ∀ (bad : K → Bool) (f : K → K) (safe : K), bad safe = false →
      RLow ((fastCode bad f safe x.main).map fun r => (⟨r, none⟩ : Obj K))
           ((fastCode bad f safe y.main).map fun r => (⟨r, none⟩ : Obj K)) := by
    intro bad f safe hs
    have := ni_fast bad f safe hs h.1
    cases h1 : fastCode bad f safe x.main <;> cases h2 : fastCode bad f safe y.main <;>
      rw [h1, h2] at this <;> first | exact this | exact this.elim | exact ⟨this, trivial⟩
  cases op
  case neg =>
    refine ⟨ni_lift_unary (pass_strict _) h.1, DLow_map ?_ h.2⟩
    intro a b hsd hd
    exact ⟨hsd, negmap_congr P hd⟩
  case abs => exact unaryObj_congr P (pass_strict _) (pass_strict _) h
  case sign => exact ⟨ni_lift_unary (pass_strict _) h.1, trivial⟩
  case sin => exact unaryObj_congr P (pass_strict _) (pass_strict _) h
  case cos => exact unaryObj_congr P (g := fun c => passCode P.neg (passCode P.sin c)) (pass_strict _) (fun c hc => hc) h
  case tan => exact ⟨ni_lift_unary (pass_strict _) h.1, trivial⟩
  case arctan => exact ⟨ni_lift_unary (pass_strict _) h.1, trivial⟩
  case sqrt =>
    exact unaryObj_congr P (g := fun c => scaleCode P P.half (recipCode P (sqrtCode P c))) (sqrt_strict P) (fun c hc => recip_strict P _ (sqrt_strict P c hc)) h
  case log =>
    refine ⟨ni_lift_unary (log_strict P) h.1, DLow_map ?_ h.2⟩
    intro a b hsd hd
    exact ⟨hsd, zipdiv_congr P hsd hd (ni_lift_unary (logNoNegs_strict P) h.1)⟩
  case expC => exact unaryObj_congr P (expChecked_strict P) (expChecked_strict P) h
  case recip =>
    exact unaryObj_congr P (g := fun c => let r := recipCode P c; binCode P.mul (passCode P.neg r) r) (recip_strict P)
      (fun c hc => bin_strict _ _ _ (Or.inr (recip_strict P c hc))) h
  case arcsin => exact ⟨ni_lift_unary (arc_strict P _) h.1, trivial⟩
  case arccos => exact ⟨ni_lift_unary (arc_strict P _) h.1, trivial⟩
  case sqrtNc => exact fastObj_congr _ _ _ _ hsq (fun c hc => recip_strict P c hc)
  case logNc =>
    have := ni_fast (logBad P) P.log P.one hlg h.1
    show RLow (logFastObj P x) (logFastObj P y)
    unfold logFastObj
    cases h1 : fastCode (logBad P) P.log P.one x.main with
    | error e =>
      cases h2 : fastCode (logBad P) P.log P.one y.main with
      | error e' => rw [h1, h2] at this; exact this
      | ok r' => rw [h1, h2] at this; exact this.elim
    | ok r =>
      cases h2 : fastCode (logBad P) P.log P.one y.main with
      | error e' => rw [h1, h2] at this; exact this.elim
      | ok r' =>
        rw [h1, h2] at this
        have hr : ALow r r' := this
        have hsh := fast_shape _ _ _ hlg h1
        refine ⟨hr, DLow_map ?_ h.2⟩
        intro a b hsd hd
        exact ⟨hsd.trans hsh.symm, zipdiv_congr P hsd hd h.1⟩
  case exp => exact fastObj_congr _ _ _ _ hexp (fun c hc => hc)
  case recipNz => exact fastObj_congr _ _ _ _ hrc (fun c hc => bin_strict _ _ _ (Or.inr hc))
  case arcsinNc => exact fastPlain _ _ _ harc
  case arccosNc => exact fastPlain _ _ _ harc
  case wod => exact ⟨h.1, trivial⟩
  case pickle => exact absurd rfl hop
  case signNz =>
    exact ⟨ni_lift_unary (f := signNzCode P) (fun c hc => by simp [signNzCode, hc]) h.1, trivial⟩
  case frac => exact ⟨ni_lift_unary (pass_strict _) h.1, h.2⟩
  case pow0 =>
    refine ⟨ni_lift_unary (f := fun c => (⟨P.one, c.m⟩ : Cell K)) (fun c hc => hc) h.1, DLow_map ?_ h.2⟩
    intro a b hsd hd
    exact ⟨hsd, ni_lift_unary (f := fun d => (⟨P.zero, d.m⟩ : Cell K)) (fun c hc => hc) hd⟩
  case pow2 => exact unaryObj_congr P (f := fun c => ⟨P.mul c.v c.v, c.m⟩) (g := fun c => ⟨P.mul c.v (P.ofNat 2), c.m⟩) (fun c hc => hc) (fun c hc => hc) h
  case pow3 => exact unaryObj_congr P (f := fun c => ⟨P.mul c.v (P.mul c.v c.v), c.m⟩) (g := fun c => ⟨P.mul (P.ofNat 3) (P.mul c.v c.v), c.m⟩) (fun c hc => hc) (fun c hc => hc) h
  case pow4 => exact unaryObj_congr P (f := fun c => ⟨P.mul (P.mul c.v c.v) (P.mul c.v c.v), c.m⟩) (g := fun c => ⟨P.mul (P.mul (P.ofNat 4) (P.mul c.v c.v)) c.v, c.m⟩) (fun c hc => hc) (fun c hc => hc) h

/-! ### phase 3: pickling, powers, mod / floordiv / arctan2, mask_where, clip -/

/-- pickling is a congruence for objects WITHOUT a derivative (with one it is not: see
    `ni_pickle_deriv_counterexample`) -/
theorem pickleObj_congr_noD {x y : Obj K} (h : LowEq x y) (hx : x.d = none) :
    LowEq (pickleObjCode P x) (pickleObjCode P y) := by
  have hy : y.d = none := by
    have h2 := h.2; rw [hx] at h2
    cases hyd : y.d with
    | none => rfl
    | some _ => rw [hyd] at h2; exact False.elim h2
  simp only [pickleObjCode, hx, hy, Option.map]
  exact ⟨by rw [ni_pickle P h.1]; exact ALow.refl _, trivial⟩

theorem pow_strict (k : K) (c : Cell K) (h : c.m = true) : (powCode P k c).m = true := by
  simp [powCode, h]

theorem powObj_congr (k km1 : K) {x y : Obj K} (h : LowEq x y) : LowEq (powObj P k km1 x) (powObj P k km1 y) :=
  unaryObj_congr P (g := fun c => let q := powCode P km1 c; ⟨P.mul k q.v, q.m⟩) (pow_strict P k)
    (fun c hc => pow_strict P km1 c hc) h

theorem fdiv_strict (a b : Cell K) (h : a.m = true ∨ b.m = true) : (fdivCode P a b).m = true := by
  cases h with
  | inl h => exact bin_strict _ _ _ (Or.inl h)
  | inr h => exact bin_strict _ _ _ (Or.inr (nonZero_strict P b h))
theorem fmod_strict (a b : Cell K) (h : a.m = true ∨ b.m = true) : (fmodCode P a b).m = true := by
  cases h with
  | inl h => exact bin_strict _ _ _ (Or.inl h)
  | inr h => exact bin_strict _ _ _ (Or.inr (nonZero_strict P b h))

theorem floordivObj_congr {x x' y y' : Obj K} (hx : LowEq x x') (hy : LowEq y y') :
    RLow (floordivObj P x y) (floordivObj P x' y') := by
  unfold floordivObj
  rw [← hx.1.1, ← hy.1.1]
  cases hb : bcast x.main.shape y.main.shape with
  | none => rfl
  | some out => exact ⟨ni_lift_binary (fdiv_strict P) hx.1 hy.1 hb, trivial⟩

theorem modObj_congr {x x' y y' : Obj K} (hx : LowEq x x') (hy : LowEq y y') :
    RLow (modObj P x y) (modObj P x' y') := by
  unfold modObj
  rw [← hx.1.1, ← hy.1.1]
  cases hb : bcast x.main.shape y.main.shape with
  | none => rfl
  | some out =>
    refine ⟨ni_lift_binary (fmod_strict P) hx.1 hy.1 hb, DLow_map ?_ hx.2⟩
    intro a b hsd hd
    exact ⟨rfl, ALow_bto hd (by rw [hsd]; exact fun _ hi => bidx_valid hb hi)⟩

theorem arctan2Obj_congr {y y' x x' : Obj K} (hy : LowEq y y') (hx : LowEq x x') :
    RLow (arctan2Obj P y x) (arctan2Obj P y' x') := by
  unfold arctan2Obj
  rw [← hy.1.1, ← hx.1.1]
  cases hb : bcast y.main.shape x.main.shape with
  | none => rfl
  | some out =>
    have bY := btoObj_congr hy (out := out) fun _ hi => bidx_valid hb hi
    have bx := btoObj_congr hx (out := out) fun _ hi => bidx_valid_right hb hi
    have hsq : ∀ {a b : MArr K}, ALow a b →
        ALow (a.map fun c => (⟨P.mul c.v c.v, c.m⟩ : Cell K)) (b.map fun c => (⟨P.mul c.v c.v, c.m⟩ : Cell K)) :=
      fun hab => ni_lift_unary (f := fun c => (⟨P.mul c.v c.v, c.m⟩ : Cell K)) (fun c hc => hc) hab
    have hdinv := ni_lift_unary (recip_strict P) (zipbin_congr P.add (by rfl) (hsq bx.1) (hsq bY.1))
    refine ⟨zipbin_congr _ rfl bY.1 bx.1, mergeD_congr (s := out) (zipbin_merge _ _) (neg_merge P _)
      (DLow_map ?_ bY.2) (DLow_map ?_ bx.2)⟩
    · intro a b hsd hd
      exact ⟨rfl, zipbin_congr _ hsd.symm (zipbin_congr _ rfl bx.1 hdinv) hd⟩
    · intro a b hsd hd
      exact ⟨rfl, zipbin_congr _ hsd.symm (zipbin_congr _ rfl bY.1 hdinv) hd⟩

theorem mwSel_congr (k : CmpKind) (lim : K) (remask : Bool) {c c' : Cell K} (h : CLow c c') (hm : c.m = false) :
    mwSel P k lim remask c = mwSel P k lim remask c' := by
  rw [h.eq_of_unmasked hm]

/-- the value/mask part of mask_where_xx keeps masked elements masked -/
theorem mwMain_strict (k : CmpKind) (lim : K) (rep : Option K) (remask : Bool) (c : Cell K) (h : c.m = true) :
    ((fun c => if mwSel P k lim remask c then (⟨rep.getD c.v, remask⟩ : Cell K) else c) c).m = true := by
  cases remask <;> simp [mwSel, h]
  split <;> simp_all

/-- **mask_where_xx with remask=False** is a congruence for ALL objects (derivatives included) -/
theorem mwObj_congr_false (k : CmpKind) (lim : K) (rep : Option K) {x y : Obj K} (h : LowEq x y) :
    LowEq (mwObj P k lim rep false x) (mwObj P k lim rep false y) := by
  cases rep with
  | none => exact h
  | some r =>
    simp only [mwObj]
    refine ⟨ni_lift_unary (mwMain_strict P k lim (some r) false) h.1, DLow_map ?_ h.2⟩
    intro a b hsd hd
    refine ⟨hsd.trans rfl |>.symm ▸ rfl, ?_⟩
    refine ⟨h.1.1, fun i hi => ?_⟩
    show CLow (if mwSel P k lim false (x.main.get i) then _ else a.get i)
              (if mwSel P k lim false (y.main.get i) then _ else b.get i)
    have hc := h.1.2 i hi
    have hdi := hd.2 i (by rw [hsd]; exact hi)
    cases hm : (x.main.get i).m with
    | true =>
      have hm' : (y.main.get i).m = true := by rw [← hc.1, hm]
      simp [mwSel, hm, hm']; exact hdi
    | false =>
      rw [← mwSel_congr P k lim false hc hm]
      split
      · exact CLow.refl _
      · exact hdi

/-- **mask_where_xx, any remask**, on objects WITHOUT a derivative -/
theorem mwObj_congr_noD (k : CmpKind) (lim : K) (rep : Option K) (remask : Bool) {x y : Obj K} (h : LowEq x y)
    (hx : x.d = none) : LowEq (mwObj P k lim rep remask x) (mwObj P k lim rep remask y) := by
  have hy : y.d = none := by
    have h2 := h.2; rw [hx] at h2
    cases hyd : y.d with
    | none => rfl
    | some _ => rw [hyd] at h2; exact False.elim h2
  cases rep <;> cases remask <;> simp only [mwObj, hx, hy, Option.map] <;>
    first | exact h | exact ⟨ni_lift_unary (mwMain_strict P k lim _ _) h.1, trivial⟩

theorem clipMain_strict (lo hi : K) (remask : Bool) (c : Cell K) (h : c.m = true) :
    ((fun (c : Cell K) => (⟨(if P.lt c.v lo then lo else if P.lt hi c.v then hi else c.v),
        c.m || (remask && (P.lt c.v lo || P.lt hi c.v))⟩ : Cell K)) c).m = true := by
  simp [h]

/-- **clip(remask=True)** is a congruence for all objects (the derivatives are passed through) -/
theorem clipObj_congr_true (lo hi : K) {x y : Obj K} (h : LowEq x y) :
    LowEq (clipObj P lo hi true x) (clipObj P lo hi true y) := by
  simp only [clipObj]
  exact ⟨ni_lift_unary (clipMain_strict P lo hi true) h.1, h.2⟩

/-- **clip, any remask**, on objects WITHOUT a derivative -/
theorem clipObj_congr_noD (lo hi : K) (remask : Bool) {x y : Obj K} (h : LowEq x y) (hx : x.d = none) :
    LowEq (clipObj P lo hi remask x) (clipObj P lo hi remask y) := by
  have hy : y.d = none := by
    have h2 := h.2; rw [hx] at h2
    cases hyd : y.d with
    | none => rfl
    | some _ => rw [hyd] at h2; exact False.elim h2
  cases remask <;> simp only [clipObj, hx, hy, Option.map] <;>
    exact ⟨ni_lift_unary (clipMain_strict P lo hi _) h.1, by simp [DLow]⟩

theorem addObj_congr {x x' y y' : Obj K} (hx : LowEq x x') (hy : LowEq y y') :
    RLow (addObj P x y) (addObj P x' y') := by
  unfold addObj
  rw [← hx.1.1, ← hy.1.1]
  cases hb : bcast x.main.shape y.main.shape with
  | none => rfl
  | some out =>
    have bx := btoObj_congr hx (out := out) fun _ hi => bidx_valid hb hi
    have bY := btoObj_congr hy (out := out) fun _ hi => bidx_valid_right hb hi
    exact ⟨zipbin_congr _ rfl bx.1 bY.1, mergeD_congr (zipbin_merge _ _) (id_merge _) bx.2 bY.2⟩

theorem subObj_congr {x x' y y' : Obj K} (hx : LowEq x x') (hy : LowEq y y') :
    RLow (subObj P x y) (subObj P x' y') := by
  unfold subObj
  rw [← hx.1.1, ← hy.1.1]
  cases hb : bcast x.main.shape y.main.shape with
  | none => rfl
  | some out =>
    have bx := btoObj_congr hx (out := out) fun _ hi => bidx_valid hb hi
    have bY := btoObj_congr hy (out := out) fun _ hi => bidx_valid_right hb hi
    exact ⟨zipbin_congr _ rfl bx.1 bY.1, mergeD_congr (zipbin_merge _ _) (neg_merge P _) bx.2 bY.2⟩

theorem mulObj_congr {x x' y y' : Obj K} (hx : LowEq x x') (hy : LowEq y y') :
    RLow (mulObj P x y) (mulObj P x' y') := by
  unfold mulObj
  rw [← hx.1.1, ← hy.1.1]
  cases hb : bcast x.main.shape y.main.shape with
  | none => rfl
  | some out =>
    have bx := btoObj_congr hx (out := out) fun _ hi => bidx_valid hb hi
    have bY := btoObj_congr hy (out := out) fun _ hi => bidx_valid_right hb hi
    refine ⟨zipbin_congr _ rfl bx.1 bY.1,
      mergeD_congr (s := out) (zipbin_merge _ _) (id_merge _) (DLow_map ?_ bx.2) (DLow_map ?_ bY.2)⟩
    · intro a b hsd hd
      exact ⟨hsd, zipbin_congr _ hsd hd bY.1⟩
    · intro a b hsd hd
      exact ⟨rfl, zipbin_congr _ hsd.symm bx.1 hd⟩

theorem divObj_congr {x x' y y' : Obj K} (hx : LowEq x x') (hy : LowEq y y') :
    RLow (divObj P x y) (divObj P x' y') := by
  unfold divObj
  rw [← hx.1.1, ← hy.1.1]
  cases hb : bcast x.main.shape y.main.shape with
  | none => rfl
  | some out =>
    have bx := btoObj_congr hx (out := out) fun _ hi => bidx_valid hb hi
    have bY := btoObj_congr hy (out := out) fun _ hi => bidx_valid_right hb hi
    have hy1 : ALow ((btoObj y out).main.map (nonZero P)) ((btoObj y' out).main.map (nonZero P)) :=
      ni_lift_unary (nonZero_strict P) bY.1
    have hinv : ALow (((btoObj y out).main.map (nonZero P)).map fun c => (⟨P.div P.one c.v, c.m⟩ : Cell K))
        (((btoObj y' out).main.map (nonZero P)).map fun c => (⟨P.div P.one c.v, c.m⟩ : Cell K)) :=
      ni_lift_unary (f := fun c => (⟨P.div P.one c.v, c.m⟩ : Cell K)) (fun c hc => hc) hy1
    refine ⟨zipbin_congr _ rfl bx.1 hy1, mergeD_congr (s := out) (zipbin_merge _ _) (neg_merge P _)
      (DLow_map ?_ bx.2) (DLow_map ?_ bY.2)⟩
    · intro a b hsd hd
      exact ⟨hsd, zipbin_congr _ hsd hd hinv⟩
    intro a b hsd hd
    refine ⟨rfl, zipbin_congr _ rfl bx.1 (zipbin_congr _ rfl (zipbin_congr _ rfl ?_ hinv) hinv)⟩
    exact ALow_zip (f := fun (c d : Cell K) => (⟨d.v, d.m || c.m⟩ : Cell K))
      (fun _ _ _ _ => strict2_congr (f := fun (c d : Cell K) => (⟨d.v, d.m || c.m⟩ : Cell K)) (fun a b hab => by
        cases hab with
        | inl h => simp [h]
        | inr h => simp [h])) hsd.symm hy1 hd

theorem stackObj_congr {x x' y y' : Obj K} (hx : LowEq x x') (hy : LowEq y y') :
    RLow (stackObj P x y) (stackObj P x' y') := by
  unfold stackObj
  rw [← hx.1.1, ← hy.1.1]
  cases hb : bcast x.main.shape y.main.shape with
  | none => rfl
  | some out =>
    have bx := btoObj_congr hx (out := out) fun _ hi => bidx_valid hb hi
    have bY := btoObj_congr hy (out := out) fun _ hi => bidx_valid_right hb hi
    refine ⟨ni_stack rfl bx.1 bY.1, ?_⟩
    have hz : ALow (Arr.const out (⟨P.zero, false⟩ : Cell K)) (Arr.const out (⟨P.zero, false⟩ : Cell K)) := ALow.refl _
    obtain ⟨_, hdx⟩ := bx; obtain ⟨_, hdy⟩ := bY
    revert hdx hdy
    cases (btoObj x out).d <;> cases (btoObj x' out).d <;> cases (btoObj y out).d <;> cases (btoObj y' out).d <;>
      simp only [DLow] <;> intro hdx hdy <;>
      first | trivial | exact hdx.elim | exact hdy.elim
            | exact ⟨by simp [stackArr, btoObj, Arr.bto, hdx.1], ni_stack (by simp [Arr.const, hdx.1, btoObj, Arr.bto]) hdx.2 hz⟩
            | exact ⟨by simp [stackArr, btoObj, Arr.bto, Arr.const], ni_stack (by simp [Arr.const, hdy.1, btoObj, Arr.bto]) hz hdy.2⟩
            | exact ⟨by simp [stackArr, btoObj, Arr.bto, hdx.1], ni_stack (by rw [hdx.1, hdy.1]; rfl) hdx.2 hdy.2⟩

/-- **ni_lift** for the binary operations (broadcasting, derivative merging, zero-divisor masking) and
    **ni_stack** at object level -/
theorem evalB_congr (op : BOp) {x x' y y' : Obj K} (hx : LowEq x x') (hy : LowEq y y') :
    RLow (evalB P op x y) (evalB P op x' y') := by
  cases op
  · exact addObj_congr P hx hy
  · exact subObj_congr P hx hy
  · exact mulObj_congr P hx hy
  · exact divObj_congr P hx hy
  · exact stackObj_congr P hx hy
  · exact modObj_congr P hx hy
  · exact floordivObj_congr P hx hy
  · exact arctan2Obj_congr P hx hy

theorem evalR_congr (op : ROp) (axes : List Nat) {x y : Obj K} (h : LowEq x y) :
    LowEq (evalR P op axes x) (evalR P op axes y) := by
  obtain ⟨r1, r2, r3, r4, r5, r6, r7⟩ := ni_reduce_all P h.1 axes
  cases op
  case sum =>
    refine ⟨r1, DLow_map ?_ h.2⟩
    intro a b hsd hd
    exact ⟨by show dropAxes axes a.shape = dropAxes axes x.main.shape; rw [hsd], (ni_reduce_all P hd axes).1⟩
  case mean =>
    refine ⟨r2, DLow_map ?_ h.2⟩
    intro a b hsd hd
    exact ⟨by show dropAxes axes a.shape = dropAxes axes x.main.shape; rw [hsd], (ni_reduce_all P hd axes).2.1⟩
  case max => exact ⟨r3, trivial⟩
  case min => exact ⟨r4, trivial⟩
  case argmax => exact ⟨r5, trivial⟩
  case argmin => exact ⟨r6, trivial⟩
  case median => exact ⟨r7, trivial⟩

theorem getitemObj_congr {x y : Obj K} (h : LowEq x y) {idx idx' : MArr Int} (hi : ALow idx idx') :
    RLow (getitemObj x idx) (getitemObj y idx') := by
  have hm := ni_index h.1 hi
  have h2 := h.2
  unfold getitemObj
  cases e1 : getitemCode x.main idx with
  | error e =>
    cases e2 : getitemCode y.main idx' with
    | error e' => rw [e1, e2] at hm; exact hm
    | ok r' => rw [e1, e2] at hm; exact hm.elim
  | ok r =>
    cases e2 : getitemCode y.main idx' with
    | error e' => rw [e1, e2] at hm; exact hm.elim
    | ok r' =>
      rw [e1, e2] at hm
      have hm : ALow r r' := hm
      cases hx : x.d with
      | none =>
        cases hy : y.d with
        | none => exact ⟨hm, trivial⟩
        | some dy => rw [hx, hy] at h2; exact h2.elim
      | some dx =>
        cases hy : y.d with
        | none => rw [hx, hy] at h2; exact h2.elim
        | some dy =>
          rw [hx, hy] at h2
          have h2' : dx.shape = x.main.shape ∧ ALow dx dy := h2
          have hd := ni_index h2'.2 hi
          show RLow (match getitemCode dx idx with
                     | .error e => .error e
                     | .ok rd => .ok ⟨r, some rd⟩)
                    (match getitemCode dy idx' with
                     | .error e => .error e
                     | .ok rd => .ok ⟨r', some rd⟩)
          cases e3 : getitemCode dx idx with
          | error e =>
            cases e4 : getitemCode dy idx' with
            | error e' => rw [e3, e4] at hd; exact hd
            | ok _ => rw [e3, e4] at hd; exact hd.elim
          | ok rd =>
            cases e4 : getitemCode dy idx' with
            | error e' => rw [e3, e4] at hd; exact hd.elim
            | ok rd' =>
              rw [e3, e4] at hd
              exact ⟨hm, by show rd.shape = r.shape; rw [getitem_shape e3, getitem_shape e1, h2'.1], hd⟩

theorem shrinkUnshrinkObj_congr {x y : Obj K} (h : LowEq x y) (am : Arr Bool) :
    LowEq (shrinkUnshrinkObj P x am) (shrinkUnshrinkObj P y am) := by
  unfold shrinkUnshrinkObj
  rw [shrinkFlag_congr h.1 am]
  split
  · refine ⟨ALow.refl _, DLow_map ?_ h.2⟩
    intro a b _ _
    exact ⟨rfl, ALow.refl _⟩
  · refine ⟨remaskZip_congr h.1 am, DLow_map ?_ h.2⟩
    intro a b hsd hd
    exact ⟨hsd, remaskZip_congr hd am⟩

/-! ### ni_program: every expression tree, any depth -/

/-- low-equivalent environments -/
def EnvLow (e e' : Env K) : Prop :=
  F2 LowEq e.objs e'.objs ∧ F2 ALow e.idxs e'.idxs ∧ e.ams = e'.ams ∧ e.consts = e'.consts ∧ F2 ALow e.bidxs e'.bidxs

theorem getD_forall2 {α : Type} {R : α → α → Prop} {l l' : List α} (h : F2 R l l') (i : Nat)
    (d d' : α) (hd : R d d') : R (l.getD i d) (l'.getD i d') := by
  induction h generalizing i with
  | nil => simpa using hd
  | cons hr _ ih =>
    cases i with
    | zero => simpa using hr
    | succ n => simpa using ih n

/-- the side conditions on the primitives: the "safe" constants of the repaired fast paths are inside
    the respective domains (sqrt 1, log 1, arcsin 0, 1/1, exp 0 raise no warning) -/
structure SafeConsts (P : Prims K) : Prop where
  exp0 : P.expOv P.zero = false
  sqrt1 : sqrtBad P P.one = false
  log1 : logBad P P.one = false
  arc0 : arcBad P P.zero = false
  recip1 : recipBad P P.one = false

/-- the expressions for which non-interference is PROVED.  Every constructor of the language is allowed
    everywhere, except the three operations whose treatment of DERIVATIVES leaks (open findings
    KF-C03-11, KF-C03-12, KF-C03-13, see the `…_counterexample` theorems): `mask_where_xx(remask=True)`,
    `clip(remask=False)` and pickling must be applied to a derivative-free operand (`x.wod`). -/
inductive Safe : Expr → Prop
  | var (i : Nat) : Safe (.var i)
  | un {op : UOp} {e : Expr} : op ≠ .pickle → Safe e → Safe (.un op e)
  | pickleW {e : Expr} : Safe e → Safe (.un .pickle (.un .wod e))
  | bin {op : BOp} {e1 e2 : Expr} : Safe e1 → Safe e2 → Safe (.bin op e1 e2)
  | red {op : ROp} {axes : List Nat} {e : Expr} : Safe e → Safe (.red op axes e)
  | sort {axis : Nat} {e : Expr} : Safe e → Safe (.sort axis e)
  | index {e : Expr} {iv : Nat} : Safe e → Safe (.index e iv)
  | shrinkUnshrink {am : Nat} {e : Expr} : Safe e → Safe (.shrinkUnshrink am e)
  | powG {ik ikm1 : Nat} {e : Expr} : Safe e → Safe (.powG ik ikm1 e)
  | mwF {k : CmpKind} {il : Nat} {ir : Option Nat} {e : Expr} : Safe e → Safe (.mw k il ir false e)
  | mwW {k : CmpKind} {il : Nat} {ir : Option Nat} {e : Expr} : Safe e → Safe (.mw k il ir true (.un .wod e))
  | clipT {ilo ihi : Nat} {e : Expr} : Safe e → Safe (.clip ilo ihi true e)
  | clipW {ilo ihi : Nat} {e : Expr} : Safe e → Safe (.clip ilo ihi false (.un .wod e))
  | indexB {e : Expr} {bv : Nat} : Safe e → Safe (.indexB e bv)

/-- one evaluation step through a total object function -/
theorem step_congr {r r' : Except Err (Obj K)} {f g : Obj K → Obj K} (hc : RLow r r')
    (hf : ∀ x y, LowEq x y → r = .ok x → LowEq (f x) (g y)) :
    RLow (match (generalizing := false) r with | .error er => .error er | .ok x => .ok (f x))
         (match (generalizing := false) r' with | .error er => .error er | .ok x => .ok (g x)) := by
  cases r with
  | error a =>
    cases r' with
    | error b => exact hc
    | ok _ => exact False.elim hc
  | ok x =>
    cases r' with
    | error b => exact False.elim hc
    | ok y => exact hf x y hc rfl

theorem wod_result {env : Env K} {e : Expr} {x : Obj K} (h : eval P env (.un .wod e) = .ok x) : x.d = none := by
  simp only [eval] at h
  cases h1 : eval P env e with
  | error er => rw [h1] at h; cases h
  | ok z => rw [h1] at h; simp only [evalU] at h; cases h; rfl

/-- **ni_program** (congruence form): for every SAFE expression tree over the catalogue, of any depth,
    low-equivalent environments give the same exception or low-equivalent results -/
theorem ni_program_low (hs : SafeConsts P) {env env' : Env K} (h : EnvLow env env') {e : Expr} (hsafe : Safe e) :
    RLow (eval P env e) (eval P env' e) := by
  induction hsafe with
  | var i =>
    exact getD_forall2 h.1 i _ _ ⟨ALow.refl _, trivial⟩
  | @un op e hop _ ih =>
    simp only [eval]
    cases h1 : eval P env e <;> cases h2 : eval P env' e <;> simp_all [RLow]
    exact evalU_congr P hs.exp0 hs.sqrt1 hs.log1 hs.arc0 hs.recip1 op hop ih
  | @pickleW e _ ih =>
    have hw : RLow (eval P env (.un .wod e)) (eval P env' (.un .wod e)) := by
      simp only [eval]
      cases h1 : eval P env e <;> cases h2 : eval P env' e <;> simp_all [RLow]
      exact ⟨ih.1, trivial⟩
    have hn : ∀ x, eval P env (.un .wod e) = .ok x → x.d = none := fun x hx => wod_result P hx
    generalize Expr.un UOp.wod e = c at hw hn
    simp only [eval, evalU]
    exact step_congr hw fun x y hxy hx => pickleObj_congr_noD P hxy (hn x hx)
  | @bin op e1 e2 _ _ ih1 ih2 =>
    simp only [eval]
    cases h1 : eval P env e1 <;> cases h2 : eval P env' e1 <;> simp_all [RLow]
    cases h3 : eval P env e2 <;> cases h4 : eval P env' e2 <;> simp_all [RLow]
    exact evalB_congr P op ih1 ih2
  | @red op axes e _ ih =>
    simp only [eval]
    exact step_congr ih fun x y hxy _ => evalR_congr P op axes hxy
  | @sort axis e _ ih =>
    simp only [eval]
    exact step_congr (f := fun x => ⟨sortCode P x.main axis, none⟩) (g := fun x => ⟨sortCode P x.main axis, none⟩) ih fun x y hxy _ => ⟨ni_sort P hxy.1 axis, trivial⟩
  | @index e iv _ ih =>
    simp only [eval]
    cases h1 : eval P env e <;> cases h2 : eval P env' e <;> simp_all [RLow]
    exact getitemObj_congr ih (getD_forall2 h.2.1 iv _ _ (ALow.refl _))
  | @shrinkUnshrink am e _ ih =>
    simp only [eval]
    rw [h.2.2.1]
    exact step_congr ih fun x y hxy _ => shrinkUnshrinkObj_congr P hxy _
  | @powG ik ikm1 e _ ih =>
    simp only [eval]
    rw [h.2.2.2.1]
    exact step_congr ih fun x y hxy _ => powObj_congr P _ _ hxy
  | @mwF k il ir e _ ih =>
    simp only [eval]
    rw [h.2.2.2.1]
    exact step_congr ih fun x y hxy _ => mwObj_congr_false P k _ _ hxy
  | @mwW k il ir e _ ih =>
    have hw : RLow (eval P env (.un .wod e)) (eval P env' (.un .wod e)) := by
      simp only [eval]
      cases h1 : eval P env e <;> cases h2 : eval P env' e <;> simp_all [RLow]
      exact ⟨ih.1, trivial⟩
    have hn : ∀ x, eval P env (.un .wod e) = .ok x → x.d = none := fun x hx => wod_result P hx
    generalize Expr.un UOp.wod e = c at hw hn
    simp only [eval]
    rw [h.2.2.2.1]
    exact step_congr hw fun x y hxy hx => mwObj_congr_noD P k _ _ true hxy (hn x hx)
  | @clipT ilo ihi e _ ih =>
    simp only [eval]
    rw [h.2.2.2.1]
    exact step_congr ih fun x y hxy _ => clipObj_congr_true P _ _ hxy
  | @clipW ilo ihi e _ ih =>
    have hw : RLow (eval P env (.un .wod e)) (eval P env' (.un .wod e)) := by
      simp only [eval]
      cases h1 : eval P env e <;> cases h2 : eval P env' e <;> simp_all [RLow]
      exact ⟨ih.1, trivial⟩
    have hn : ∀ x, eval P env (.un .wod e) = .ok x → x.d = none := fun x hx => wod_result P hx
    generalize Expr.un UOp.wod e = c at hw hn
    simp only [eval]
    rw [h.2.2.2.1]
    exact step_congr hw fun x y hxy hx => clipObj_congr_noD P _ _ false hxy (hn x hx)

  | @indexB e bv _ ih =>
    simp only [eval]
    cases h1 : eval P env e <;> cases h2 : eval P env' e <;> simp_all [RLow]
    exact getitemBoolObj_congr ih (getD_forall2 h.2.2.2.2 bv _ _ (ALow.refl _))

/-- **ni_program**: the observations (shape, expanded mask, unmasked values, unmasked derivative
    values, or the exception) of the two runs are EQUAL -/
theorem ni_program (hs : SafeConsts P) {env env' : Env K} (h : EnvLow env env') {e : Expr} (hsafe : Safe e) :
    obsRes (eval P env e) = obsRes (eval P env' e) :=
  obsRes_congr (ni_program_low P hs h hsafe)

/-- comparisons at the root: the truth values are equal -/
theorem ni_program_cmp (hs : SafeConsts P) {env env' : Env K} (h : EnvLow env env') (op : COp) {e1 e2 : Expr}
    (h1s : Safe e1) (h2s : Safe e2) :
    (evalCmp P env op e1 e2).map obsArr = (evalCmp P env' op e1 e2).map obsArr := by
  have r1 := ni_program_low P hs h h1s
  have r2 := ni_program_low P hs h h2s
  unfold evalCmp
  cases h1 : eval P env e1 <;> cases h2 : eval P env' e1 <;> simp_all [RLow]
  cases h3 : eval P env e2 <;> cases h4 : eval P env' e2 <;> simp_all [RLow]
  rename_i x x' y y'
  have key : ∀ (f : Cell K → Cell K → Cell Bool) (dflt : Except Err (MArr Bool)),
      (∀ a a' b b', CLow a a' → CLow b b' → f a b = f a' b') →
      (match cmpArr f x.main y.main with | some r => Except.ok r | none => dflt).map obsArr
      = (match cmpArr f x'.main y'.main with | some r => (Except.ok r : Except Err _) | none => dflt).map obsArr := by
    intro f dflt hf
    have := ni_cmp hf r1.1 r2.1
    cases e1 : cmpArr f x.main y.main <;> cases e2 : cmpArr f x'.main y'.main <;> simp_all [Except.map]
  cases op
  · exact key _ _ (fun _ _ _ _ ha hb => (ni_elem_eq P ha hb).1)
  · exact key _ _ (fun _ _ _ _ ha hb => (ni_elem_eq P ha hb).2)
  · exact key _ _ (fun _ _ _ _ ha hb => ni_elem_ord _ ha hb)
  · exact key _ _ (fun _ _ _ _ ha hb => ni_elem_ord _ ha hb)
  · exact key _ _ (fun _ _ _ _ ha hb => ni_elem_ord _ ha hb)
  · exact key _ _ (fun _ _ _ _ ha hb => ni_elem_ord _ ha hb)

/-! ### ni_setitem and ni_stmts: statement sequences -/

theorem F2_set {α : Type} {R : α → α → Prop} {l l' : List α} (h : F2 R l l') (i : Nat) {x x' : α} (hx : R x x') :
    F2 R (l.set i x) (l'.set i x') := by
  induction h generalizing i with
  | nil => exact .nil
  | cons hr _ ih =>
    cases i with
    | zero => exact .cons hx (by assumption)
    | succ n => exact .cons hr (ih n)

theorem valid_append2 : ∀ {s t : Shape} {i k : Index}, Valid s i → Valid t k → Valid (s ++ t) (i ++ k)
  | [], _, [], _, _, hk => by simpa using hk
  | [], _, _ :: _, _, hi, _ => by simp [Valid] at hi
  | _ :: _, _, [], _, hi, _ => by simp [Valid] at hi
  | n :: s, t, a :: i, k, hi, hk => by
    have hi' : a < n ∧ Valid s i := hi
    exact ⟨hi'.1, valid_append2 hi'.2 hk⟩

theorem find_congr {α : Type} {p q : α → Bool} (l : List α) (h : ∀ x ∈ l, p x = q x) : l.find? p = l.find? q := by
  induction l with
  | nil => rfl
  | cons a as ih =>
    simp only [List.find?, h a (by simp)]
    rw [ih fun x hx => h x (by simp [hx])]

/-- **ni_setitem**: item assignment through a masked integer index object: which elements are written, and
    with what, does not depend on hidden index values, hidden right-hand-side values or hidden target values -/
theorem ni_setitem {x x' rhs rhs' : MArr K} {idx idx' : MArr Int} (hx : ALow x x') (hi : ALow idx idx')
    (hr : ALow rhs rhs') : RLowA (setitemCode x idx rhs) (setitemCode x' idx' rhs') := by
  unfold setitemCode
  rw [← hx.1, ← hi.1, ← hr.1]
  cases hs : x.shape with
  | nil => rfl
  | cons len rest =>
    simp only []
    cases hb : bcast rhs.shape (idx.shape ++ rest) with
    | none => rfl
    | some out =>
      simp only []
      by_cases hne : (out != idx.shape ++ rest) = true
      · simp [hne]; rfl
      · simp only [hne]
        have hout : out = idx.shape ++ rest := by simpa using hne
        have hfind : ∀ k : Nat,
            ((indices idx.shape).reverse.find? fun j =>
              !(idx.get j).m && !(decide ((idx.get j).v ≥ (len : Int)) || decide ((idx.get j).v < -(len : Int))) &&
                ((idx.get j).v % (len : Int)).toNat == k)
            = ((indices idx.shape).reverse.find? fun j =>
              !(idx'.get j).m && !(decide ((idx'.get j).v ≥ (len : Int)) || decide ((idx'.get j).v < -(len : Int))) &&
                ((idx'.get j).v % (len : Int)).toNat == k) := by
          intro k
          apply find_congr
          intro j hj
          have hjv : Valid idx.shape j := (mem_indices _ _).1 (by simpa using hj)
          have hc := hi.2 j hjv
          cases hm : (idx.get j).m with
          | true =>
            have hm' : (idx'.get j).m = true := by rw [← hc.1, hm]
            simp [hm']
          | false => rw [← hc.eq_of_unmasked hm]; simp [hm]
        have hrb : ALow (rhs.bto out) (rhs'.bto out) :=
          ALow_bto hr fun _ hv => bidx_valid hb hv
        refine ⟨rfl, fun i hv => ?_⟩
        have hv' : Valid (len :: rest) i := hv
        match i, hv' with
        | [], hv' => exact hv'.elim
        | k :: r, hv' =>
          show CLow (match (indices idx.shape).reverse.find? _ with | some j => _ | none => _)
                    (match (indices idx.shape).reverse.find? _ with | some j => _ | none => _)
          rw [← hfind k]
          cases hf : (indices idx.shape).reverse.find? fun j =>
              !(idx.get j).m && !(decide ((idx.get j).v ≥ (len : Int)) || decide ((idx.get j).v < -(len : Int))) &&
                ((idx.get j).v % (len : Int)).toNat == k with
          | none => exact hx.2 _ (by rw [hs]; exact hv')
          | some j =>
            have hjm := List.mem_of_find?_eq_some hf
            have hjv : Valid idx.shape j := (mem_indices _ _).1 (by simpa using hjm)
            exact hrb.2 _ (by rw [hout]; exact valid_append2 hjv hv'.2)

/-- statements whose expressions are safe -/
def SafeStmt : Stmt → Prop
  | .assign _ e => Safe e
  | .query e => Safe e
  | .setitem _ _ e => Safe e

/-- **ni_stmts**: for every sequence of statements (queries, rebinding assignments = in-place operators,
    item assignments through masked index objects; any length) over low-equivalent environments, every
    statement shows the same observation in both runs and the final environments are low-equivalent again -
    induction over the statement list -/
theorem ni_stmts (hs : SafeConsts P) (stmts : List Stmt) (hsafe : ∀ st ∈ stmts, SafeStmt st) :
    ∀ {env env' : Env K}, EnvLow env env' →
    (runStmts P env stmts).1.map obsRes = (runStmts P env' stmts).1.map obsRes ∧
    EnvLow (runStmts P env stmts).2 (runStmts P env' stmts).2 := by
  induction stmts with
  | nil => intro env env' h; exact ⟨rfl, h⟩
  | cons st rest ih =>
    intro env env' h
    have hrest : ∀ st ∈ rest, SafeStmt st := fun s hs' => hsafe s (by simp [hs'])
    have hst : SafeStmt st := hsafe st (by simp)
    cases st with
    | query e =>
      have he := ni_program P hs h (show Safe e from hst)
      have := ih hrest h
      simp only [runStmts, List.map_cons, he, this.1]
      exact ⟨trivial, this.2⟩
    | assign i e =>
      have hl := ni_program_low P hs h (show Safe e from hst)
      have he := obsRes_congr hl
      have henv : EnvLow
          (match eval P env e with | .ok x => { env with objs := env.objs.set i x } | .error _ => env)
          (match eval P env' e with | .ok x => { env' with objs := env'.objs.set i x } | .error _ => env') := by
        cases h1 : eval P env e <;> cases h2 : eval P env' e <;> rw [h1, h2] at hl
        · exact h
        · exact False.elim hl
        · exact False.elim hl
        · exact ⟨F2_set h.1 i hl, h.2.1, h.2.2.1, h.2.2.2⟩
      have := ih hrest henv
      simp only [runStmts, List.map_cons, he]
      exact ⟨congrArg _ this.1, this.2⟩
    | setitem i iv e =>
      have hl := ni_program_low P hs h (show Safe e from hst)
      have hxi : LowEq (env.objs.getD i (emptyObj P)) (env'.objs.getD i (emptyObj P)) :=
        getD_forall2 h.1 i _ _ ⟨ALow.refl _, trivial⟩
      have hidx : ALow (env.idxs.getD iv ⟨[], fun _ => ⟨0, true⟩⟩) (env'.idxs.getD iv ⟨[], fun _ => ⟨0, true⟩⟩) :=
        getD_forall2 h.2.1 iv _ _ (ALow.refl _)
      have hr : RLow (setStmt P env i iv e) (setStmt P env' i iv e) := by
        unfold setStmt
        cases h1 : eval P env e with
        | error a =>
          cases h2 : eval P env' e with
          | error b => rw [h1, h2] at hl; exact hl
          | ok _ => rw [h1, h2] at hl; exact False.elim hl
        | ok rhs =>
          cases h2 : eval P env' e with
          | error b => rw [h1, h2] at hl; exact False.elim hl
          | ok rhs' =>
            rw [h1, h2] at hl
            have hsi := ni_setitem hxi.1 hidx (show ALow rhs.main rhs'.main from hl.1)
            show RLow (match setitemCode _ _ rhs.main with | .error er => .error er | .ok m => .ok ⟨m, none⟩)
                      (match setitemCode _ _ rhs'.main with | .error er => .error er | .ok m => .ok ⟨m, none⟩)
            cases h3 : setitemCode (env.objs.getD i (emptyObj P)).main (env.idxs.getD iv ⟨[], fun _ => ⟨0, true⟩⟩) rhs.main with
            | error a =>
              cases h4 : setitemCode (env'.objs.getD i (emptyObj P)).main (env'.idxs.getD iv ⟨[], fun _ => ⟨0, true⟩⟩) rhs'.main with
              | error b => rw [h3, h4] at hsi; exact hsi
              | ok _ => rw [h3, h4] at hsi; exact False.elim hsi
            | ok m =>
              cases h4 : setitemCode (env'.objs.getD i (emptyObj P)).main (env'.idxs.getD iv ⟨[], fun _ => ⟨0, true⟩⟩) rhs'.main with
              | error b => rw [h3, h4] at hsi; exact False.elim hsi
              | ok m' => rw [h3, h4] at hsi; exact ⟨hsi, trivial⟩
      have he := obsRes_congr hr
      have henv : EnvLow
          (match setStmt P env i iv e with | .ok y => { env with objs := env.objs.set i y } | .error _ => env)
          (match setStmt P env' i iv e with | .ok y => { env' with objs := env'.objs.set i y } | .error _ => env') := by
        cases h1 : setStmt P env i iv e <;> cases h2 : setStmt P env' i iv e <;> rw [h1, h2] at hr
        · exact h
        · exact False.elim hr
        · exact False.elim hr
        · exact ⟨F2_set h.1 i hr, h.2.1, h.2.2.1, h.2.2.2⟩
      have := ih hrest henv
      simp only [runStmts, List.map_cons, he]
      exact ⟨congrArg _ this.1, this.2⟩

/-! ### non-vacuity -/

/-- a concrete instance of the primitives over the integers (sqrt etc. are irrelevant placeholders) -/
def intPrims : Prims Int :=
  { zero := 0, one := 1, half := 1, negOne := -1, posInf := 1000000, negInf := -1000000, cutoff := 700,
    add := (· + ·), sub := (· - ·), mul := (· * ·), div := (· / ·), neg := (- ·), abs := fun x => x.natAbs,
    sign := Int.sign, lt := fun a b => decide (a < b), le := fun a b => decide (a ≤ b), eq := fun a b => decide (a = b),
    sqrt := id, log := id, exp := id, sin := id, cos := id, tan := id, asin := id, acos := id, atan := id,
    expOv := fun x => decide (x > 700), ofNat := fun n => n,
    fdiv := (· / ·), fmod := (· % ·), pow := fun a b => a ^ b.toNat, atan2 := fun a _ => a,
    nonfinite := fun x => decide (x > 1000000) }

example : SafeConsts intPrims := ⟨by decide, by decide, by decide, by decide, by decide⟩

/-! ### the boundary of `Safe`: counterexamples for the three operations with leaking derivative rules
(each witness is replayed on /repo, see known_findings.d/C03.json) -/

def arr1 (c : Cell Int) : MArr Int := ⟨[1], fun _ => c⟩
def arr2 (c0 c1 : Cell Int) : MArr Int := ⟨[2], fun i => if i = [0] then c0 else c1⟩

theorem LowEq_arr1 {c c' d d' : Cell Int} (hc : CLow c c') (hd : CLow d d') :
    LowEq (⟨arr1 c, some (arr1 d)⟩ : Obj Int) ⟨arr1 c', some (arr1 d')⟩ :=
  ⟨⟨rfl, fun _ _ => hc⟩, rfl, rfl, fun _ _ => hd⟩

/-- KF-C03-12: `mask_where_ge(1, remask=True)` on an object whose derivative is NOT masked where the
    object is: the derivative's own mask afterwards depends on the hidden number (5 vs 0) -/
theorem ni_maskwhere_deriv_counterexample :
    ∃ x y : Obj Int, LowEq x y ∧
      obsObj (mwObj intPrims .ge 1 none true x) ≠ obsObj (mwObj intPrims .ge 1 none true y) :=
  ⟨⟨arr1 ⟨5, true⟩, some (arr1 ⟨4, false⟩)⟩, ⟨arr1 ⟨0, true⟩, some (arr1 ⟨4, false⟩)⟩,
   LowEq_arr1 ⟨rfl, fun h => by cases h⟩ (CLow.refl _), by decide⟩

/-- KF-C03-11: `clip(-1, 1, remask=False)`: the derivative element of a masked, out-of-range hidden value
    is overwritten by an UNMASKED zero -/
theorem ni_clip_deriv_counterexample :
    ∃ x y : Obj Int, LowEq x y ∧
      obsObj (clipObj intPrims (-1) 1 false x) ≠ obsObj (clipObj intPrims (-1) 1 false y) :=
  ⟨⟨arr1 ⟨5, true⟩, some (arr1 ⟨9, true⟩)⟩, ⟨arr1 ⟨0, true⟩, some (arr1 ⟨9, true⟩)⟩,
   LowEq_arr1 ⟨rfl, fun h => by cases h⟩ (CLow.refl _), by decide⟩

/-- KF-C03-13: pickling an object with a partially masked array mask stores the derivative under the
    OBJECT's mask: the number hidden underneath the derivative's own mask (7 vs 8) is written and shown -/
theorem ni_pickle_deriv_counterexample :
    ∃ x y : Obj Int, LowEq x y ∧ obsObj (pickleObjCode intPrims x) ≠ obsObj (pickleObjCode intPrims y) :=
  ⟨⟨arr2 ⟨1, false⟩ ⟨2, true⟩, some (arr2 ⟨7, true⟩ ⟨0, true⟩)⟩,
   ⟨arr2 ⟨1, false⟩ ⟨2, true⟩, some (arr2 ⟨8, true⟩ ⟨0, true⟩)⟩,
   ⟨ALow.refl _, rfl, rfl, fun i _ => by
      show CLow (if i = [0] then _ else _) (if i = [0] then _ else _)
      by_cases hi : i = [0] <;> simp [hi, CLow]⟩,
   by decide⟩

/-- a safe program with every kind of node -/
example : Safe (.mw .ge 0 none true (.un .wod (.bin .mod (.powG 1 2 (.var 0)) (.clip 0 1 true (.var 1))))) :=
  .mwW (.bin (.powG (.var 0)) (.clipT (.var 1)))

/-- two elements that differ underneath the mask are low-equivalent -/
example : CLow (⟨-5, true⟩ : Cell Int) ⟨7, true⟩ := ⟨rfl, fun h => by cases h⟩
/-- … and the guarded square root of both is observed equal although the guard fires for one only -/
example : (sqrtCode intPrims ⟨-5, true⟩).m = (sqrtCode intPrims ⟨7, true⟩).m := by decide
/-- a lane with a hidden extreme value: max ignores it -/
example : (extremeLane (maxK intPrims) intPrims.negInf [⟨3, false⟩, ⟨999, true⟩, ⟨5, false⟩]).v = 5 := by decide
example : (sumLane intPrims [⟨3, false⟩, ⟨999, true⟩, ⟨5, false⟩]) = ⟨8, false⟩ := by decide

end PMV.NI
