import PMV.Model.ReadOnly
import PMV.Lemmas.ReadOnly
import PMV.Lemmas.ReadOnlyObj
import PMV.Lemmas.ReadOnlyInv
import PMV.Lemmas.ReadOnlyDeriv
import PMV.Gen.Guards
/-
  C08 — read-only objects cannot be changed through the public API.
  Property theorems about the state machine of PMV/Model/ReadOnly.lean (helper development: PMV/Lemmas/ReadOnly.lean).
  Core Lean only.
-/
namespace PMV.ReadOnly
open PMV.GuardEv

/-! #### T2: the guard table regenerated from the source -/

/-- In every mutator of the library, on every control-flow path on which `override` is not known to be set, the
    first event is `require_writable()`, the conditional read-only guard of insert_deriv(s) with its documented
    exemptions (new key, override), an unconditional raise, or a call of another method of the same table --
    never a bare write.  The table is regenerated from the source on every run. -/
theorem guards_ok : tableOk PMV.Gen.Guards.table = true := by decide

/-- T2, lock sites: `Qube.broadcast_to` hands back a read-only object that shares the memory of its source, so it locks
    the source (`self.as_readonly(...)`); in the regenerated table every such call stands under `if _protected:` and
    nothing else (`_protected=False` is the documented opt-out), and there is at least one. -/
theorem lock_sites_ok :
    (PMV.Gen.Guards.lockSites != [] && PMV.Gen.Guards.lockSites.all (fun c => c == ["_protected"])) = true := by decide

/-- the predicate is not vacuous: a mutator that writes first is rejected -/
example : tableOk [Method.mk "Qube" "set_units" [Path.mk .falsy [.write "_units_", .guard, .ret]]] = false := by
  decide

/-! #### mutators on a read-only object are rejected and change nothing -/

/-- the guarded mutators: everything except `override=True` and the insertion of a NEW derivative -/
def Guarded (s : State) : Op → Option Nat
  | .setItem v _ _ _ => some v
  | .setAll v => some v
  | .iop v _ _ => some v
  | .setUnits v _ false => some v
  | .deleteDeriv v _ false => some v
  | .deleteDerivs v false => some v
  | .insertDeriv v k d false =>
    match s.objs[v]?, s.objs[d]? with
    | some o, some _ => if hasKey o.derivs k then some v else none
    | _, _ => none
  | .insertDerivs v kds false =>
    match s.objs[v]? with
    | some o => if kds.any (fun kd => hasKey o.derivs kd.1) then some v else none
    | none => none
  | .requireWritable v => some v
  | _ => none

/-- the class overrides the operator with an unconditional raise (Boolean arithmetic, Matrix `//=`): TypeError -/
def Unsupported : Op → Bool
  | .iop _ _ u => u
  | _ => false

/-- `mutator_rejected`: item assignment, every in-place operator, set_units, delete_deriv(s) and the replacement of an
    existing derivative through insert_deriv(s) -- all without `override=True` -- on a read-only object of a class that
    supports the operation return ValueError and leave the whole state (hence the object's observable state) unchanged.
    (`unitsOk`/`derivsOk`: a class without units/derivatives answers TypeError first, also with the state unchanged:
    `mutator_rejected_state`.) -/
theorem mutator_rejected (s : State) (op : Op) (v : Nat) (o : Obj)
    (hg : Guarded s op = some v) (ho : s.objs[v]? = some o) (hro : o.ro = true)
    (hu : o.unitsOk = true) (hd : o.derivsOk = true) (hs : Unsupported op = false) :
    step s op = (s, .err .value) := by
  have hrw : requireWritable s v = some .value := by simp [requireWritable, ho, hro]
  cases op <;> simp only [Guarded] at hg <;> try (cases hg)
  case setItem pos mpos mn => simp [step, setItem, hrw]
  case setAll => simp [step, setAll, hrw]
  case iop f u => simp only [Unsupported] at hs; simp [step, iop, hrw, hs]
  case setUnits w u ov =>
    cases ov <;> simp at hg
    cases hg; simp [step, setUnits, ho, hu, hrw]
  case deleteDeriv w k ov =>
    cases ov <;> simp at hg
    cases hg; simp [step, deleteDeriv, hrw]
  case deleteDerivs w ov =>
    cases ov <;> simp at hg
    cases hg; simp [step, deleteDerivs, hrw]
  case insertDeriv w k d ov =>
    cases ov <;> simp at hg
    cases hw : s.objs[w]? with
    | none => simp [hw] at hg
    | some ow =>
      cases hd' : s.objs[d]? with
      | none => simp [hw, hd'] at hg
      | some od =>
        simp [hw, hd'] at hg
        obtain ⟨hk, rfl⟩ := hg
        rw [ho] at hw; cases hw
        simp [step, insertDeriv, ho, hd', hd, hro, hk]
  case insertDerivs w kds ov =>
    cases ov <;> simp at hg
    cases hw : s.objs[w]? with
    | none => simp [hw] at hg
    | some ow =>
      simp [hw] at hg
      obtain ⟨hk, rfl⟩ := hg
      rw [ho] at hw; cases hw
      have : (kds.any fun kd => hasKey o.derivs kd.1) = true := by
        simpa [List.any_eq_true] using hk
      simp [step, insertDerivs, ho, hro, this]
  case requireWritable => simp [step, hrw]

/-! #### no history can change memory that no writeable ndarray object looks into -/

/-- `frozen_buffer_constant` (the memory half of `sealed_constant`): if no writeable ndarray object looks into buffer `k`,
    then after EVERY history of calls of the alphabet -- public methods on any object, derivations of any kind, direct
    writes through any caller-held ndarray -- the buffer has the same content and still no writeable ndarray object
    looks into it.  Induction over the history; no bound on its length or on the number of objects. -/
theorem frozen_buffer_constant (s : State) (k : Nat) (ops : List Op) (h : Fz k s) :
    Fz k (run s ops) ∧ (run s ops).bufs[k]? = s.bufs[k]? :=
  (ext_run ops s).fz k h

/-- along every history an ndarray object keeps its buffer and its window, and a non-writeable one never becomes
    writeable again (nothing in the public API sets WRITEABLE back) -/
theorem array_never_thaws (s : State) (ops : List Op) (a : Nat) (x : NdArr) (h : s.arrs[a]? = some x) :
    ∃ x', (run s ops).arrs[a]? = some x' ∧ x'.buf = x.buf ∧ x'.sel = x.sel ∧ (x.w = false → x'.w = false) :=
  (ext_run ops s).arr a x h

/-- what an ndarray object shows is constant along every history when its buffer is frozen -/
theorem read_constant (s : State) (ops : List Op) (a : Nat) (x : NdArr) (h : s.arrs[a]? = some x)
    (hf : Fz x.buf s) : (run s ops).read a = s.read a := by
  obtain ⟨x', hx', hb, hs, _⟩ := (ext_run ops s).arr a x h
  have hbuf := ((ext_run ops s).fz _ hf).2
  unfold State.read
  rw [hx', h]
  simp only [hb, hs, hbuf]

/-- the ndarray objects an object holds directly -/
def ownArrs (o : Obj) : List Nat :=
  (match o.vals with
    | .arr a => [a]
    | .sc _ => []) ++
  (match o.mask with
    | .arr a => [a]
    | .sc _ => [])

/-- `Sealed s o`: every ndarray object of `o` exists and no writeable ndarray object at all (inside or outside `o`)
    looks into its buffer.  After `o.as_readonly()` this is exactly "no writeable array reference to o's buffers exists
    outside o". -/
def Sealed (s : State) (o : Obj) : Prop :=
  ∀ a ∈ ownArrs o, ∃ x, s.arrs[a]? = some x ∧ Fz x.buf s

-- (the full statement, `sealed_constant`, is proved further down, after the frame property of the object store)
/-- `sealed_constant_partial`: the values and the mask that a sealed object's arrays show are the same after every
    history of calls and direct writes. -/
theorem sealed_constant_partial (s : State) (o : Obj) (ops : List Op) (h : Sealed s o) :
    ∀ a ∈ ownArrs o, (run s ops).read a = s.read a := by
  intro a ha
  obtain ⟨x, hx, hf⟩ := h a ha
  exact read_constant s ops a x hx hf

/-- ... and it stays sealed: no later call can create a writeable ndarray object onto its buffers -/
theorem sealed_stays (s : State) (o : Obj) (ops : List Op) (h : Sealed s o) : Sealed (run s ops) o := by
  intro a ha
  obtain ⟨x, hx, hf⟩ := h a ha
  obtain ⟨x', hx', hb, _, _⟩ := (ext_run ops s).arr a x hx
  exact ⟨x', hx', hb ▸ ((ext_run ops s).fz _ hf).1⟩

/-! #### the unsealed history (DESIGN §8.1, defect 24, known finding KF-C08-1) -/

/-- b = Scalar(np.arange(2.)); v = b[0:1]; b.as_readonly(); v[0] = 99 -/
def unsealedHistory : List Op :=
  [.mk 2 2 (some false) true true, .derive 0 .view ⟨[0], [], none⟩ true [], .asReadonly 0 true, .setItem 1 [0] [0] 2]

/-- `unsealed_counterexample`: with a view taken BEFORE the freeze the read-only object does change: the item
    assignment through the view is accepted and `b`'s observable state is different afterwards, although `b` is
    read-only and its own arrays are non-writeable. -/
theorem unsealed_counterexample :
    let s3 := run State.empty (unsealedHistory.take 3)
    let r := step s3 (.setItem 1 [0] [0] 2)
    (s3.objs[0]?.map (·.ro)) = some true ∧ r.2 = .ok ∧ obs r.1 0 ≠ obs s3 0 := by
  decide

/-- the same history with the view taken AFTER the freeze is rejected (and so is the direct write) -/
example :
    let s3 := run State.empty [.mk 2 2 (some false) true true, .asReadonly 0 true, .derive 0 .view ⟨[0], [], none⟩ true [],
                               .rawRef 1 false]
    (step s3 (.setItem 1 [0] [0] 2)).2 = .err .value ∧ (step s3 (.write 0 [0])).2 = .err .value := by
  decide

/-! #### non-mutating operations never fail because the operand is read-only -/

def NonMutating : Op → Option Nat
  | .derive v _ _ _ _ => some v
  | .wod v => some v
  | .clone v _ => some v
  | .copy v _ _ => some v
  | .neg v _ _ => some v
  | .pickle v _ _ => some v
  | _ => none

/-- `nonmutating_never_fails_on_readonly`: every derivation, `wod`, `clone`, `copy`, an arithmetic result and a
    pickle round trip of an existing object hands back an object, read-only operand or not -/
theorem nonmutating_never_fails_on_readonly (s : State) (op : Op) (v : Nat) (o : Obj)
    (hn : NonMutating op = some v) (ho : s.objs[v]? = some o) : ∃ i, (step s op).2 = .obj i := by
  cases op <;> simp only [NonMutating] at hn <;> try (cases hn)
  all_goals simp [step, objRes, ho]

/-! #### flag and arrays agree on every object a read-only object gives rise to -/

theorem allocObj_get (s : State) (o : Obj) : (s.allocObj o).2.objs[(s.allocObj o).1]? = some o := by
  simp [State.allocObj]

/-- `derived_readonly` (the construction every flag-copying derivation ends with: indexer.py:84-89,
    shaper.py:38-43, 93-95, 162-164, 223-225, item_ops.py): whatever arrays NumPy handed back -- views or fresh
    writeable copies -- the object derived from a read-only object is read-only and both its arrays are non-writeable. -/
theorem derived_readonly (s : State) (nv : Val) (nm : Msk) (o : Obj) (m : Mode) (hro : o.ro = true)
    (hm : m ≠ .bcast) :
    let r := finishDerived s nv nm o m
    ∃ obj, r.2.objs[r.1]? = some obj ∧ obj.ro = true ∧ obj.vals = nv ∧ obj.mask = nm ∧ Agrees r.2 obj := by
  have key : ∀ st : State, ∃ obj, ((st.freezeV nv).freezeM nm |>.allocObj
        { (s.initObj nv nm o).1 with ro := true }).2.objs[((st.freezeV nv).freezeM nm |>.allocObj
        { (s.initObj nv nm o).1 with ro := true }).1]? = some obj ∧ obj.ro = true ∧ obj.vals = nv ∧ obj.mask = nm ∧
        Agrees ((st.freezeV nv).freezeM nm |>.allocObj { (s.initObj nv nm o).1 with ro := true }).2 obj := by
    intro st
    refine ⟨_, allocObj_get _ _, rfl, by simp [State.initObj], by simp [State.initObj], ?_⟩
    intro _
    have := frozen_pair st nv nm
    simpa [State.initObj, State.allocObj, valNW, mskNW, State.arrW] using this
  cases m <;> first
    | exact absurd rfl hm
    | (simp only [finishDerived, hro, if_true]; exact key _)

/-- the derivation as a whole (object without its derivatives), for an existing read-only source -/
theorem derive1_readonly (s : State) (i : Nat) (o : Obj) (m : Mode) (sel : Sel) (ho : s.objs[i]? = some o)
    (hro : o.ro = true) (hm : m ≠ .bcast) :
    let r := derive1 s i m sel
    ∃ obj, r.2.objs[r.1]? = some obj ∧ obj.ro = true ∧ Agrees r.2 obj := by
  simp only [derive1, ho]
  obtain ⟨obj, h1, h2, _, _, h5⟩ := derived_readonly
    (deriveMaskSel (deriveVals (freezeSource s i m o.vals) o.vals m sel.vidx).2 o.mask m sel).2
    (deriveVals (freezeSource s i m o.vals) o.vals m sel.vidx).1
    (deriveMaskSel (deriveVals (freezeSource s i m o.vals) o.vals m sel.vidx).2 o.mask m sel).1 o m hro hm
  exact ⟨obj, h1, h2, h5⟩

/-- `survives_pickle`: the object `__setstate__` builds from the pickle of a read-only object is read-only, its decoded
    (new, independent) arrays are non-writeable (repair 1211231; on the unrepaired code they were writeable). -/
theorem survives_pickle (s : State) (o : Obj) (mc : MaskClass) (hro : o.ro = true) :
    let r := unpickleNR s o mc none true
    ∃ obj, r.2.objs[r.1]? = some obj ∧ obj.ro = true ∧ Agrees r.2 obj := by
  simp only [unpickleNR, hro, if_true]
  refine ⟨_, allocObj_get _ _, rfl, ?_⟩
  intro _
  have := frozen_pair (decode s o mc).2 (decode s o mc).1.1 (decode s o mc).1.2
  simpa [State.allocObj, valNW, mskNW, State.arrW] using this

theorem copyMask_arrs (s : State) (m : Msk) (j : Nat) (hj : j < s.arrs.length) :
    (copyMask s m).2.arrs[j]? = s.arrs[j]? := by
  cases m with
  | sc b => rfl
  | arr a =>
    simp only [copyMask, State.copyOf, State.allocBuf, State.allocArr]
    exact List.getElem?_append_left hj

-- FULL: ... and the copy shows the same content as its source (needs well-formedness of the source's buffer index;
-- the harness compares the bytes: oracle `copy-differs`), likewise for the mask array and the derivatives.
/-- `copy_is_writable_and_independent`: `copy()` (readonly=False) of any object holding an array, read-only or not, is
    flagged writable; its values array is a NEW ndarray object, writeable, onto a NEW buffer (no ndarray object that
    existed before looks into it, so nothing done to the copy can reach the source, and nothing done through the
    source's arrays can reach the copy). -/
theorem copy_is_writable_and_independent (s : State) (i : Nat) (o : Obj) (a : Nat) (ho : s.objs[i]? = some o)
    (hv : o.vals = .arr a) :
    let r := copyNR s i false
    ∃ obj a' x, r.2.objs[r.1]? = some obj ∧ obj.ro = false ∧ obj.vals = .arr a' ∧
      r.2.arrs[a']? = some x ∧ x.w = true ∧ s.bufs.length ≤ x.buf ∧ s.arrs.length ≤ a' := by
  simp only [copyNR, ho, Bool.and_false, Bool.false_eq_true, if_false, hv, copyVals]
  refine ⟨_, s.arrs.length, ⟨s.bufs.length, List.range ((allPos s a).map fun j => (s.read a).getD j 0).length, true⟩, allocObj_get _ _, rfl, ?_, ?_, rfl, Nat.le_refl _, Nat.le_refl _⟩
  · simp [State.copyOf, State.allocBuf, State.allocArr]
  · simp only [State.allocObj]
    rw [copyMask_arrs _ _ _ (by simp [State.copyOf, State.allocBuf, State.allocArr])]
    simp [State.copyOf, State.allocBuf, State.allocArr]

/-- `as_readonly` itself (qube.py:1931-1937): afterwards the flag is set and both arrays are non-writeable -/
theorem as_readonly_agrees (s : State) (i : Nat) (o : Obj) (ho : s.objs[i]? = some o) (h : o.ro = false) :
    ∃ o', (asRO0 s i).objs[i]? = some o' ∧ o'.ro = true ∧ o'.vals = o.vals ∧ o'.mask = o.mask ∧
      Agrees (asRO0 s i) o' := by
  have hobjs : ((s.freezeV o.vals).freezeM o.mask).objs = s.objs := by
    cases o.vals <;> cases o.mask <;> rfl
  refine ⟨{ o with ro := true }, ?_, rfl, rfl, rfl, ?_⟩
  · simp only [asRO0, ho, h, Bool.false_eq_true, if_false, State.setObj, getElem?_upd, if_true, hobjs]
    simp
  · intro _
    have := frozen_pair s o.vals o.mask
    simpa [asRO0, ho, h, State.setObj, valNW, mskNW, State.arrW] using this

/-- `inv_reachable` (FULL): after EVERY history of calls of the alphabet, starting from nothing, every read-only object
    has non-writeable value and mask arrays and every one of its derivatives is a read-only object -- for which the same
    holds again, since the statement is about all objects of the state.  Induction over the history (`inv_run`); the
    induction step is `inv_step` (PMV/Lemmas/ReadOnlyDeriv.lean), proved operation by operation. -/
theorem inv_reachable (ops : List Op) (i : Nat) (o : Obj)
    (ho : (run State.empty ops).objs[i]? = some o) (hro : o.ro = true) :
    valNW (run State.empty ops) o.vals ∧ mskNW (run State.empty ops) o.mask ∧
    ∀ kd ∈ o.derivs, ∃ d, (run State.empty ops).objs[kd.2]? = some d ∧ d.ro = true := by
  have h := inv_run ops State.empty inv_empty
  exact ⟨((h.1 i o ho).agr hro).1, ((h.1 i o ho).agr hro).2, h.2 i o (fun hf => hf) ho hro⟩

/-- the same from any state that satisfies the invariant (e.g. the middle of a history) -/
theorem inv_preserved (s : State) (ops : List Op) (h : Inv s) : Inv (run s ops) := inv_run ops s h

/-- `inv_partial`: `Agrees` is stable: if a read-only object's arrays exist, it holds after every further history in
    which the object keeps its record. -/
theorem inv_partial (s : State) (ops : List Op) (o : Obj)
    (hv : ∀ a ∈ ownArrs o, a < s.arrs.length) (h : Agrees s o) : Agrees (run s ops) o := by
  intro hro
  obtain ⟨h1, h2⟩ := h hro
  have keep : ∀ a, a < s.arrs.length → s.arrW a = false → (run s ops).arrW a = false := by
    intro a ha hw
    obtain ⟨x, hx⟩ : ∃ x, s.arrs[a]? = some x := ⟨s.arrs[a], by simp [ha]⟩
    obtain ⟨x', hx', _, _, hw'⟩ := array_never_thaws s ops a x hx
    simp only [State.arrW, hx] at hw
    simp only [State.arrW, hx']
    exact hw' hw
  constructor
  · cases hvv : o.vals with
    | sc st => trivial
    | arr a =>
      rw [hvv] at h1
      exact keep a (hv a (by simp [ownArrs, hvv])) h1
  · cases hmm : o.mask with
    | sc b => trivial
    | arr a =>
      rw [hmm] at h2
      exact keep a (hv a (by simp [ownArrs, hmm])) h2

/-! #### the hypotheses above are satisfiable (non-vacuity) -/

example :
    let s := run State.empty [.mk 2 2 (some false) true true, .asReadonly 0 true]
    Guarded s (.setItem 0 [0] [0] 2) = some 0 ∧ (s.objs[0]?.map (·.ro)) = some true ∧
      step s (.setItem 0 [0] [0] 2) = (s, .err .value) := by
  decide

/-- unpickling and fancy indexing of a read-only object with a mask array and a derivative: flags agree everywhere -/
example :
    let s := run State.empty [.mk 3 3 none true true, .mk 3 3 (some false) true true, .insertDeriv 0 0 1 true,
      .asReadonly 0 true, .pickle 0 .mixed [(0, .none_)], .derive 0 .copy ⟨[0, 2], [0, 2], none⟩ true []]
    (s.objs.all fun o => !o.ro || (s.valRO o.vals || o.vals matches .sc _) && (s.mskRO o.mask || o.mask matches .sc _))
      = true := by
  decide

/-! #### the frame property on the object store: a call aimed at another object never rebinds a field of a
     read-only object's record -/

/-- a guarded mutator on a read-only object returns the state unchanged -- also when the class answers TypeError first
    (no units / no derivatives / operator not supported) -/
theorem guarded_state_unchanged (s : State) (op : Op) (v : Nat) (o : Obj)
    (hg : Guarded s op = some v) (ho : s.objs[v]? = some o) (hro : o.ro = true) :
    (step s op).1 = s := by
  have hrw : requireWritable s v = some .value := by simp [requireWritable, ho, hro]
  cases op <;> simp only [Guarded] at hg <;> try (cases hg)
  case setItem pos mpos mn => simp [step, setItem, hrw]
  case setAll => simp [step, setAll, hrw]
  case iop f u => cases u <;> simp [step, iop, hrw]
  case setUnits w u ov =>
    cases ov <;> simp at hg
    cases hg
    simp only [step, setUnits, ho]
    split
    · rfl
    · simp [hrw]
  case deleteDeriv w k ov =>
    cases ov <;> simp at hg
    cases hg; simp [step, deleteDeriv, hrw]
  case deleteDerivs w ov =>
    cases ov <;> simp at hg
    cases hg; simp [step, deleteDerivs, hrw]
  case insertDeriv w k d ov =>
    cases ov <;> simp at hg
    cases hw : s.objs[w]? with
    | none => simp [hw] at hg
    | some ow =>
      cases hd' : s.objs[d]? with
      | none => simp [hw, hd'] at hg
      | some od =>
        simp [hw, hd'] at hg
        obtain ⟨hk, rfl⟩ := hg
        rw [ho] at hw; cases hw
        simp only [step, insertDeriv, ho, hd']
        split
        · rfl
        · simp [hro, hk]
  case insertDerivs w kds ov =>
    cases ov <;> simp at hg
    cases hw : s.objs[w]? with
    | none => simp [hw] at hg
    | some ow =>
      simp [hw] at hg
      obtain ⟨hk, rfl⟩ := hg
      rw [ho] at hw; cases hw
      have : (kds.any fun kd => hasKey o.derivs kd.1) = true := by
        simpa [List.any_eq_true] using hk
      simp [step, insertDerivs, ho, hro, this]
  case requireWritable => simp [step, hrw]

/-- `ro_record_frame` (the frame property of `step`): whatever is called -- any of the operations of the alphabet, with
    any arguments, on any OTHER object or array -- a read-only object stays read-only and keeps its `_values_`, `_mask_`,
    units and derivative table. -/
theorem ro_record_frame (s : State) (op : Op) (i : Nat) (o : Obj) (ho : s.objs[i]? = some o) (hro : o.ro = true)
    (hne : Target op ≠ some i) :
    ∃ o', (step s op).1.objs[i]? = some o' ∧ o'.ro = true ∧ o'.vals = o.vals ∧ o'.mask = o.mask ∧
      o'.units = o.units ∧ o'.derivs = o.derivs := by
  obtain ⟨o', ho', k⟩ := (oext_step s op).keep i o ho
  obtain ⟨h1, h2, h3, h4⟩ := k hro
  have hlt : i < s.objs.length := (List.getElem?_eq_some_iff.mp ho).1
  have hnT : ¬ Touch s op i := by
    intro h
    cases h with
    | inl h => exact hne h
    | inr h => exact absurd hlt (Nat.not_lt.mpr h)
  exact ⟨o', ho', h1, h2, h3, (h4 hnT).1, (h4 hnT).2⟩

/-- a call that is not one of the documented ways of changing the read-only object `j`: it is aimed elsewhere, or it is
    a guarded mutator (no `override=True`, no insertion of a new derivative) -/
def Allowed (s : State) (j : Nat) (op : Op) : Prop := Target op ≠ some j ∨ Guarded s op = some j

/-- a history all of whose calls are `Allowed` for every object of `P` -/
def HistOK (P : List Nat) : State → List Op → Prop
  | _, [] => True
  | s, op :: ops => (∀ j ∈ P, Allowed s j op) ∧ HistOK P (step s op).1 ops

/-- one step: the record of a read-only object survives every allowed call -/
theorem ro_record_step (s : State) (op : Op) (i : Nat) (o : Obj) (ho : s.objs[i]? = some o) (hro : o.ro = true)
    (ha : Allowed s i op) :
    ∃ o', (step s op).1.objs[i]? = some o' ∧ o'.ro = true ∧ o'.vals = o.vals ∧ o'.mask = o.mask ∧
      o'.units = o.units ∧ o'.derivs = o.derivs := by
  cases ha with
  | inl h => exact ro_record_frame s op i o ho hro h
  | inr h =>
    rw [guarded_state_unchanged s op i o h ho hro]
    exact ⟨o, ho, hro, rfl, rfl, rfl, rfl⟩

/-- `ro_record_constant`: along every history of allowed calls a read-only object keeps its whole record -/
theorem ro_record_constant (P : List Nat) (ops : List Op) : ∀ (s : State) (i : Nat) (o : Obj),
    i ∈ P → s.objs[i]? = some o → o.ro = true → HistOK P s ops →
    ∃ o', (run s ops).objs[i]? = some o' ∧ o'.ro = true ∧ o'.vals = o.vals ∧ o'.mask = o.mask ∧
      o'.units = o.units ∧ o'.derivs = o.derivs := by
  induction ops with
  | nil => intro s i o _ ho hro _; exact ⟨o, ho, hro, rfl, rfl, rfl, rfl⟩
  | cons op ops ih =>
    intro s i o hi ho hro hok
    obtain ⟨o1, ho1, r1, v1, m1, u1, d1⟩ := ro_record_step s op i o ho hro (hok.1 i hi)
    obtain ⟨o2, ho2, r2, v2, m2, u2, d2⟩ := ih (step s op).1 i o1 hi ho1 r1 hok.2
    exact ⟨o2, ho2, r2, v2.trans v1, m2.trans m1, u2.trans u1, d2.trans d1⟩

theorem obsCore_constant (s s' : State) (o o' : Obj) (he : Ext s s') (hs : Sealed s o)
    (hv : o'.vals = o.vals) (hm : o'.mask = o.mask) (hu : o'.units = o.units) :
    obsCore s' o' = obsCore s o := by
  have hread : ∀ a ∈ ownArrs o, s'.read a = s.read a := by
    intro a ha
    obtain ⟨x, hx, hf⟩ := hs a ha
    obtain ⟨x', hx', hb, hsel, _⟩ := he.arr a x hx
    have hbuf := (he.fz _ hf).2
    unfold State.read
    rw [hx', hx]
    simp only [hb, hsel, hbuf]
  unfold obsCore
  rw [hv, hm, hu]
  cases hvv : o.vals with
  | sc st =>
    cases hmm : o.mask with
    | sc b => rfl
    | arr a => simp only [valCells]; rw [hread a (by simp [ownArrs, hmm])]
  | arr av =>
    have h1 := hread av (by simp [ownArrs, hvv])
    cases hmm : o.mask with
    | sc b => simp only [valCells, h1]
    | arr a => simp only [valCells, h1]; rw [hread a (by simp [ownArrs, hmm])]

/-- `sealed_constant` (FULL): a read-only object that is sealed, with read-only sealed derivatives, has the same
    observable state -- values, mask, units, and the same of every derivative -- after EVERY history of calls and direct
    array writes, as long as no call is one of the documented exceptions (`override=True`, insertion of a new derivative)
    aimed at the object itself or at one of its derivative objects.  No bound on the history or on what else happens. -/
theorem sealed_constant (s : State) (i : Nat) (o : Obj) (ops : List Op)
    (ho : s.objs[i]? = some o) (hro : o.ro = true) (hs : Sealed s o)
    (hd : ∀ kd ∈ o.derivs, ∃ d, s.objs[kd.2]? = some d ∧ d.ro = true ∧ Sealed s d)
    (hok : HistOK (i :: o.derivs.map (·.2)) s ops) :
    obs (run s ops) i = obs s i := by
  have he := ext_run ops s
  obtain ⟨o', ho', _, hv, hm, hu, hdv⟩ :=
    ro_record_constant _ ops s i o (List.mem_cons_self ..) ho hro hok
  unfold obs
  rw [ho', ho]
  dsimp only
  rw [hdv]
  have hcore := obsCore_constant s (run s ops) o o' he hs hv hm hu
  rw [hcore]
  congr 2
  apply List.map_congr_left
  intro kd hkd
  obtain ⟨d, hdo, hdro, hds⟩ := hd kd hkd
  obtain ⟨d', hd', _, dv, dm, du, _⟩ :=
    ro_record_constant _ ops s kd.2 d (List.mem_cons_of_mem _ (List.mem_map.mpr ⟨kd, hkd, rfl⟩)) hdo hdro hok
  rw [hd', hdo]
  simp only [Option.map_some]
  rw [obsCore_constant s (run s ops) d d' he hds dv dm du]

/-! #### the guard table and the state machine say the same thing -/

/-- how the state machine treats the operation that stands for a method of the library (hand-written: this is the
    reading of `step` that the theorems below justify) -/
def modelKindOf (owner name : String) : Option GuardKind :=
  if name == "set_units" || name == "delete_deriv" || name == "delete_derivs" then some .unlessOverride
  else if name == "insert_deriv" || name == "insert_derivs" then some .unlessOverrideOrNewKey
  else if owner == "Polynomial" || name == "__idiv__" then some .delegate
  else if owner == "Boolean" || (owner == "Matrix" && (name == "__ifloordiv__" || name == "__imod__")) then
    some .unsupported
  else if ["__setitem__", "__iadd__", "__isub__", "__imul__", "__itruediv__", "__ifloordiv__", "__imod__", "__ipow__",
           "__iand__", "__ior__", "__ixor__"].contains name then some .always
  else none

/-- `table_matches_model`: for every mutator found in the source, the classification read off its control-flow paths
    (regenerated on every run) is the classification the state machine implements.  A method whose guard is moved,
    dropped, made conditional, or a new mutator that the model does not know, breaks this `decide`. -/
theorem table_matches_model :
    PMV.Gen.Guards.table.all (fun m => modelKindOf m.owner m.name == some (kindOf m)) = true := by decide

/-- what the classifications mean in the state machine, `always`: see `mutator_rejected` (ValueError, state unchanged).
    `unsupported`: TypeError before anything else, read-only or not -/
theorem unsupported_is_type_error (s : State) (v : Nat) (fast : Bool) : step s (.iop v fast true) = (s, .err .type) := by
  simp [step, iop]

/-- `unlessOverride`, the accepting half: with `override=True` the call goes through on a read-only object
    (the rejecting half is `mutator_rejected`) -/
theorem override_accepted (s : State) (v : Nat) (o : Obj) (ho : s.objs[v]? = some o) (hu : o.unitsOk = true) (u k : Nat) :
    (step s (.setUnits v u true)).2 = .ok ∧ (step s (.deleteDeriv v k true)).2 = .ok ∧
    (step s (.deleteDerivs v true)).2 = .ok := by
  simp [step, setUnits, deleteDeriv, deleteDerivs, ho, hu]

/-- `unlessOverrideOrNewKey`, the accepting half: a NEW derivative, or `override=True`, is accepted on a read-only
    object -/
theorem new_key_or_override_accepted (s : State) (v k d : Nat) (o od : Obj) (ov : Bool)
    (ho : s.objs[v]? = some o) (hd : s.objs[d]? = some od) (hok : o.derivsOk = true)
    (h : hasKey o.derivs k = false ∨ ov = true) :
    (step s (.insertDeriv v k d ov)).2 = .ok := by
  cases h with
  | inl hk => simp [step, insertDeriv, ho, hd, hok, hk]
  | inr hov => simp [step, insertDeriv, ho, hd, hok, hov]

end PMV.ReadOnly
