import PMV.Lemmas.PickleObj
import PMV.Lemmas.PickleLegacy
/-
  C11 — pickling round-trips objects: lossless by default, else within the stated digits;
  pickling never changes the object.

  Model: PMV/Model/Pickle.lean (code-shaped `getstate` / `setstate`).  Specification:
  `expect` / `expectDeriv` (PMV/Lemmas/PickleObj.lean) — the object the property promises.
  The real-number error bound of the scaled-integer encoder is in PMV/Lemmas/PickleReal.lean
  (kept apart so that this file stays free of Mathlib).
-/
namespace PMV.Pickle
open PMV

/-! #### building blocks -/

/-- `np.unpackbits(np.packbits(bs))[:len(bs)] == bs` for bit arrays of ANY length -/
theorem packbits_roundtrip (bs : List Bool) : (unpackbits (packbits bs)).take bs.length = bs :=
  packbits_roundtrip' bs

example : packbits [true, false, true, true, false, false, false, false, true, true] = [176, 192] := by decide
example : (unpackbits (packbits [true, false, true])).take 3 = [true, false, true] := by decide

/-- `new[...] = d; new[am] = v[am]` agrees with `v` where `am` is set and is `d` elsewhere -/
theorem gather_scatter {α : Type} (d : α) (am : List Bool) (v : List α) (h : am.length = v.length) :
    scatter d am (gather am v) = List.zipWith (fun f x => if f then x else d) am v :=
  scatter_gather d am v h

example : scatter 9 [true, false, true, false] (gather [true, false, true, false] [1, 2, 3, 4]) = [1, 9, 3, 9] := by
  decide

/-- `_find_corners`: every unmasked element lies inside `[lower, upper)` on every axis, for a
    mask of any rank; so cropping to the corners and restoring into an all-True array of the
    original shape returns the mask (`restore (crop m) = m`). -/
theorem corners_sound (shape : Shape) (bits : List Bool) (hlen : bits.length = size shape) :
    (∀ i, (i, false) ∈ (indices shape).zip bits →
        inBox (findCorners shape bits).1 (findCorners shape bits).2 i = true) ∧
    scatter true (boxFlags shape (findCorners shape bits).1 (findCorners shape bits).2)
        (gather (boxFlags shape (findCorners shape bits).1 (findCorners shape bits).2) bits) = bits :=
  ⟨fun i hi => findCorners_sound shape bits i hi, crop_restore shape bits hlen⟩

/-- a 3x4 mask with a masked border: corners (1,1)-(2,3), cropped to 1x2 -/
example : findCorners [3, 4] [true, true, true, true, true, false, false, true, true, true, true, true]
    = ([1, 1], [2, 3]) := by decide
example : gather (boxFlags [3, 4] [1, 1] [2, 3])
    [true, true, true, true, true, false, false, true, true, true, true, true] = [false, false] := by decide

/-! #### the round trip -/

structure WFQ (q : QObj) : Prop where
  self : WFObj q.self
  derivs : ∀ kd ∈ q.derivs, WFDeriv q.self kd.2

/-- every float encoding that takes place is exact -/
def Exact (P : Params) (q : QObj) : Prop :=
  (q.self.dtype = .float → FloatExact P (checkDigits q.self.digits).1) ∧
  ∀ kd ∈ q.derivs, FloatExact P (derivDigits q.self kd.2)

/-- the default settings: digits 'double' for the object and for every derivative -/
def DefaultDigits (q : QObj) : Prop :=
  checkDigits q.self.digits = (.double, .double) ∧ ∀ kd ∈ q.derivs, (checkDigits kd.2.digits).1 = .double

/-- a read-only derivative that shares the parent's mask array freezes that array -/
def frozen (P : Params) (q : QObj) : Bool :=
  q.self.antimask.isSome && (getstate P q).1.derivs.any fun kd => kd.2.readonly

/-- THE SPECIFICATION for the whole object -/
def expectQ (P : Params) (q : QObj) : QObj :=
  ⟨{ expect q.self with maskW := (expect q.self).maskW && !frozen P q },
   q.derivs.map fun kd =>
     (kd.1, { expectDeriv q.self kd.2 with maskW := (expectDeriv q.self kd.2).maskW && !frozen P q })⟩

theorem mapOpt_map {α β γ : Type} (f : β → Option γ) (g : α → β) (h : α → γ) :
    ∀ l : List α, (∀ x ∈ l, f (g x) = some (h x)) → mapOpt f (l.map g) = some (l.map h)
  | [], _ => rfl
  | x :: xs, hx => by
    simp only [List.map_cons, mapOpt, hx x (by simp),
      mapOpt_map f g h xs (fun y hy => hx y (by simp [hy]))]

/-- **Round trip, any exact setting.**  For EVERY well-formed object — any class, shape, item,
    denominator, dtype (float / integer of any width / bool), mask representation and pattern,
    set of derivatives, read-only flag — and every codec satisfying its contract, whatever the
    data-dependent choices (`fpzipFails`, `lossyEnc`) are: `setstate (getstate q)` succeeds and
    is exactly the promised object. -/
theorem roundtrip (P : Params) (q : QObj) (hq : WFQ q) (hE : Exact P q) :
    setstate P (getstate P q).1 = some (expectQ P q) := by
  obtain ⟨ha, hs⟩ := setstate1_getstate1 P q.self hq.self hE.1
  have hfz : frozen P q = (q.self.antimask.isSome &&
      (q.derivs.map fun kd => (kd.1, getstateDeriv P (getstate1 P q.self).1.digits
        (getstate1 P q.self).2.1 kd.2)).any fun kd => kd.2.readonly) := rfl
  have hdig : (getstate1 P q.self).1.digits = checkDigits q.self.digits := by
    unfold getstate1
    cases q.self.vals with
    | single x => rfl
    | array vs items =>
      simp only
      split
      · rfl
      · split <;> rfl
  unfold setstate
  simp only [getstate, hs]
  rw [mapOpt_map
    (fun kd : String × St => (setstateDeriv P (expect q.self) q.self.antimask kd.2).map fun d => (kd.1, d))
    (fun kd : String × Obj => (kd.1, getstateDeriv P (getstate1 P q.self).1.digits (getstate1 P q.self).2.1 kd.2))
    (fun kd : String × Obj => (kd.1, expectDeriv q.self kd.2)) q.derivs
    (by
      intro kd hkd
      simp only [ha, hdig]
      rw [setstateDeriv_getstateDeriv P q.self kd.2 hq.self (hq.derivs kd hkd) (hE.2 kd hkd)]
      rfl)]
  simp only [expectQ, hfz, ha, List.map_map]
  rfl

/-- **Round trip with the default settings** ('double'): lossless — same class, shape, item,
    denominator, units, read-only flag, default, derivative keys; mask with the same expansion;
    every unmasked value bit for bit (−0.0, subnormals, ±inf, every NaN are ordinary bit
    patterns here); the class default under the mask; likewise for every derivative. -/
theorem roundtrip_default (P : Params) (q : QObj) (hq : WFQ q) (hD : DefaultDigits q) :
    setstate P (getstate P q).1 = some (expectQ P q) := by
  apply roundtrip P q hq
  refine ⟨fun _ => Or.inl (by rw [hD.1]), ?_⟩
  intro kd hkd
  left
  have h1 := hD.2 kd hkd
  unfold derivDigits
  cases q.self.antimask with
  | none => exact h1
  | some am =>
    simp only [hD.1]
    cases hdg : kd.2.digits with
    | none => rfl
    | some x => rw [hdg] at h1; exact h1

/-! #### set_pickle_digits: the second entry of the pair is the derivatives' -/

/-- after `set_pickle_digits((d0, d1))` the object is pickled with `d0` and EVERY derivative it carries with
    `d1`, whichever way the derivative is pickled (whole, or gathered by the parent's antimask) -/
theorem setDigits_derivDigits (p : Digits × Digits) (q : QObj) :
    (checkDigits (setDigits p q).self.digits).1 = p.1 ∧
    ∀ kd ∈ (setDigits p q).derivs, derivDigits (setDigits p q).self kd.2 = p.2 := by
  refine ⟨rfl, ?_⟩
  intro kd hkd
  simp only [setDigits, List.mem_map] at hkd
  obtain ⟨kd0, _, rfl⟩ := hkd
  unfold derivDigits
  cases (setDigits p q).self.antimask <;> rfl

/-- the clipping of a digits entry depends on THAT entry's reference only: with references
    (<string>, <number>) the derivative's digits are used as given, however large -/
theorem validateDigits_entrywise (p : Digits × Digits) (r0 r0' r1 : Bool) :
    (validateDigits p (r0, r1)).2 = (validateDigits p (r0', r1)).2 ∧
    (validateDigits p (r1, r0)).1 = (validateDigits p (r1, r0')).1 ∧
    ∀ t, (validateDigits (p.1, .num t) (r0, true)).2 = .num t := by
  refine ⟨rfl, rfl, fun t => rfl⟩

/-- deciding the clipping once from the first reference (seeded change C11z-b) clips 18 digits requested for the
    derivatives relative to a number down to 15.654 -/
theorem validateDigits_hoisted_counterexample :
    (validateDigits (.num 8000, .num 18000) (false, true)).2 = .num 18000 ∧
    clampDigit false (.num 18000) = .num 15654 := by decide

/-- so a pair whose entries are both exact settings makes the round trip exact, and with
    `('single', 'double')`-like pairs the derivatives are lossless whatever happens to the object's values
    (`FloatExact P .double` always holds) -/
theorem setDigits_exact (P : Params) (p : Digits × Digits) (q : QObj)
    (h0 : FloatExact P p.1) (h1 : FloatExact P p.2) : Exact P (setDigits p q) := by
  obtain ⟨hs, hd⟩ := setDigits_derivDigits p q
  exact ⟨fun _ => by rw [hs]; exact h0, fun kd hkd => by rw [hd kd hkd]; exact h1⟩

/-! #### what `expect` says, in the property's words -/

theorem expect_fields (q : Obj) :
    (expect q).cls = q.cls ∧ (expect q).shape = q.shape ∧ (expect q).numer = q.numer ∧
    (expect q).denom = q.denom ∧ (expect q).units = q.units ∧ (expect q).readonly = q.readonly ∧
    (expect q).default = q.default ∧ (expect q).dtype.kind = q.dtype.kind := by
  unfold expect
  cases hv : q.vals with
  | single x => simp [baseOf]; cases q.dtype <;> rfl
  | array vs items =>
    simp only [baseOf, true_and]
    split
    · cases q.dtype <;> rfl
    · rfl

/-- an integer array that is not fully masked keeps its exact dtype (width and signedness) -/
theorem expect_dtype (q : Obj) (vs : Shape) (items : List Item) (hv : q.vals = .array vs items)
    (h : q.mask.all = false) : (expect q).dtype = q.dtype := by
  simp [expect, hv, h]

/-- the expanded mask is unchanged -/
theorem expect_maskBits (q : Obj) (hq : WFObj q) : (expect q).maskBits = q.maskBits := by
  have hml := maskBits_length q hq
  cases hv : q.vals with
  | single x => simp [expect, hv, Obj.maskBits, baseOf]
  | array vs items =>
    have hshape : (expect q).shape = q.shape := (expect_fields q).2.1
    rcases Bool.eq_false_or_eq_true q.mask.all with hall | hall
    · have hm : (expect q).mask = .scalar true := by simp [expect, hv, canonMask, hall, baseOf]
      have hmb : q.maskBits.all id = true := by
        unfold Obj.maskBits
        cases hm : q.mask with
        | scalar b => simp [Mask.all, hm] at hall; simp [hall]
        | array bits => simpa [Mask.all, hm] using hall
      rw [all_true_eq_map q.maskBits (indices q.shape) (by rw [hml, length_indices]) hmb]
      simp [Obj.maskBits, hm, hshape]
    · rcases Bool.eq_false_or_eq_true q.mask.any with hany | hany
      · have hm : (expect q).mask = q.mask := by simp [expect, hv, canonMask, hall, hany, baseOf]
        simp [Obj.maskBits, hm, hshape]
      · have hm : (expect q).mask = .scalar false := by simp [expect, hv, canonMask, hall, hany, baseOf]
        have hmb : q.maskBits.any id = false := by
          unfold Obj.maskBits
          cases hm : q.mask with
          | scalar b => simp [Mask.any, hm] at hany; simp [hany]
          | array bits => simpa [Mask.any, hm] using hany
        rw [any_false_eq_map q.maskBits (indices q.shape) (by rw [hml, length_indices]) hmb]
        simp [Obj.maskBits, hm, hshape]

/-- unmasked values are kept bit for bit, masked ones are the class default — also for a
    single (Python scalar) value -/
theorem expect_values (q : Obj) :
    (∀ x, q.vals = .single x → (expect q).vals = .single (if q.mask.all then q.default.getD 0 0 else x)) ∧
    (∀ vs items, q.vals = .array vs items →
      (expect q).vals = .array (q.shape ++ (q.numer ++ q.denom)) (fill q.default q.maskBits items)) := by
  constructor
  · intro x hv; simp [expect, hv]
  · intro vs items hv; simp [expect, hv]

/-- read-only objects come back with non-writeable arrays, writable ones with writable values -/
theorem expect_writeable (q : Obj) (vs : Shape) (items : List Item) (hv : q.vals = .array vs items) :
    (expect q).valsW = !q.readonly ∧ (expect q).maskW = !q.readonly := by
  simp [expect, hv]

/-- derivative keys, classes, shapes, denominators, read-only flags; values at the parent's
    unmasked elements -/
theorem expectDeriv_fields (q d : Obj) :
    (expectDeriv q d).cls = d.cls ∧ (expectDeriv q d).shape = d.shape ∧ (expectDeriv q d).numer = d.numer ∧
    (expectDeriv q d).denom = d.denom ∧ (expectDeriv q d).readonly = d.readonly ∧
    (expectDeriv q d).default = d.default := by
  unfold expectDeriv
  split
  · simp [baseOf]
  · have := expect_fields d
    exact ⟨this.1, this.2.1, this.2.2.1, this.2.2.2.1, this.2.2.2.2.2.1, this.2.2.2.2.2.2.1⟩

theorem expectQ_keys (P : Params) (q : QObj) : (expectQ P q).derivs.map (·.1) = q.derivs.map (·.1) := by
  simp [expectQ, List.map_map, Function.comp_def]

/-- when the parent has an array mask with some but not all elements masked, the derivative's
    items at the parent's unmasked elements are kept and the rest is the derivative's default -/
theorem expectDeriv_values (q d : Obj) (am : List Bool) (dvs : Shape) (ditems : List Item)
    (ha : q.antimask = some am) (hdv : d.vals = .array dvs ditems) :
    (expectDeriv q d).vals = .array (q.shape ++ (d.numer ++ d.denom)) (fill d.default q.maskBits ditems) ∧
    (expectDeriv q d).mask = q.mask := by
  simp [expectDeriv, ha, hdv, baseOf]

/-! #### states written before the repair of defect 15 -/

/-- the whole state in the old form: no dtype in any INT step -/
def QSt.legacy (s : QSt) : QSt := ⟨s.self.legacy, s.derivs.map fun kd => (kd.1, kd.2.legacy)⟩

/-- integer data is of the native dtype (what the old decoder assumed) -/
def NativeInts (q : QObj) : Prop :=
  (∀ w sg, q.self.dtype = .int w sg → w = 8 ∧ sg = IntFmt.native) ∧
  ∀ kd ∈ q.derivs, ∀ w sg, kd.2.dtype = .int w sg → w = 8 ∧ sg = IntFmt.native

theorem getstateDeriv_native (P : Params) (pd : Digits × Digits) (am : Option (List Bool)) (d : Obj)
    (h : ∀ w sg, d.dtype = .int w sg → w = 8 ∧ sg = IntFmt.native) : NativeSteps (getstateDeriv P pd am d).valsEnc := by
  unfold getstateDeriv
  cases am with
  | none => exact getstate1_native P d h
  | some a => exact getstate1_native P _ h

/-- **Old pickles still load**: a state of native-int (or float / bool) data with the dtype
    removed from its INT steps is decoded to the same object. -/
theorem roundtrip_legacy (P : Params) (q : QObj) (hq : WFQ q) (hE : Exact P q) (hN : NativeInts q) :
    setstate P (getstate P q).1.legacy = some (expectQ P q) := by
  rw [← roundtrip P q hq hE]
  unfold setstate
  simp only [QSt.legacy]
  have hself : (getstate P q).1.self = (getstate1 P q.self).1 := rfl
  rw [setstate1_legacy P (getstate P q).1.self (by rw [hself]; exact getstate1_native P q.self hN.1)]
  cases hs : setstate1 P (getstate P q).1.self with
  | none => rfl
  | some r =>
    obtain ⟨o, am⟩ := r
    have hmap : mapOpt (fun kd : String × St => (setstateDeriv P o am kd.2).map fun d => (kd.1, d))
          ((getstate P q).1.derivs.map fun kd => (kd.1, kd.2.legacy))
        = mapOpt (fun kd : String × St => (setstateDeriv P o am kd.2).map fun d => (kd.1, d))
          (getstate P q).1.derivs := by
      have hall : ∀ kd ∈ (getstate P q).1.derivs, NativeSteps kd.2.valsEnc := by
        intro kd hkd
        simp only [getstate, List.mem_map] at hkd
        obtain ⟨kd0, hkd0, rfl⟩ := hkd
        exact getstateDeriv_native P _ _ kd0.2 (hN.2 kd0 hkd0)
      generalize (getstate P q).1.derivs = l at hall
      induction l with
      | nil => rfl
      | cons x xs ih =>
        have hx : setstateDeriv P o am x.2.legacy = setstateDeriv P o am x.2 := by
          unfold setstateDeriv
          rw [setstate1_legacy P _ (hall x (by simp))]
          rfl
        simp only [List.map_cons, mapOpt, hx, ih (fun kd hkd => hall kd (by simp [hkd]))]
    have hany : (((getstate P q).1.derivs.map fun kd => (kd.1, kd.2.legacy)).any fun kd => kd.2.readonly)
        = ((getstate P q).1.derivs.any fun kd => kd.2.readonly) := by
      rw [List.any_map]; rfl
    simp only [hmap, hany]

/-! #### per-item encoding is a pure relabelling -/

/-- `_encode_floats` encodes each item component separately (`reshape(-1, isz).swapaxes(0,1)`)
    and `_decode_floats` reassembles them (`moveaxis(values, 0, -1)`): entry `i` of component
    array `k` is component `k` of element `i`, and the reassembly returns the array — for any
    number of elements and any item size. -/
theorem items_transpose_roundtrip {α : Type} [Inhabited α] (isz : Nat) (rows : List (List α))
    (h : ∀ r ∈ rows, r.length = isz) :
    itemRows rows.length (itemColumns isz rows) = rows ∧
    ∀ k i, k < isz → i < rows.length →
      ((itemColumns isz rows).getD k []).getD i default = (rows.getD i []).getD k default :=
  ⟨itemRows_itemColumns isz rows h, fun k i hk hi => itemColumns_get isz rows k i hk hi⟩

example : itemColumns 3 [[1, 2, 3], [4, 5, 6]] = [[1, 4], [2, 5], [3, 6]] := by decide

/-! #### pickling does not change the object -/

def Obj.noCache (o : Obj) : Obj := { o with cache := [] }

/-- `__getstate__` leaves `q` as it was: the only attribute of `q` or of its derivatives that
    it writes is `_cache_` (entries 'corners', 'slicer', 'antimask').  That this effect frame is
    the one of the SOURCE is `effect_frame` in PMV/Lemmas/PickleEffects.lean, over a table
    regenerated from pickler.py / qube.py on every run. -/
theorem getstate_pure (P : Params) (q : QObj) :
    (getstate P q).2.self.noCache = q.self.noCache ∧
    (getstate P q).2.derivs.map (fun kd => (kd.1, kd.2.noCache)) = q.derivs.map (fun kd => (kd.1, kd.2.noCache)) := by
  constructor
  · rfl
  · simp only [getstate, List.map_map]
    apply List.map_congr_left
    intro kd _
    simp only [Function.comp]
    cases (getstate1 P q.self).2.1 <;> rfl

/-! #### non-vacuity: a concrete object with a cropped mask, an int16 dtype and a derivative -/

def exParams : Params :=
  { cutoff := 200, bz2 := Codec.id Blob, fpzip := Codec.lenPrefixed,
    lossyEnc := fun _ _ _ => [], lossyDec := fun _ => [] }

def exObj : Obj :=
  { cls := "Scalar", shape := [2, 3], numer := [], denom := [], dtype := .int 2 ⟨true, true⟩,
    vals := .array [2, 3] [[1], [65535], [3], [4], [5], [6]],
    mask := .array [true, true, true, true, false, false], units := 0, readonly := false,
    valsW := true, maskW := true, default := [1], digits := none, cache := [], fpzipFails := false }

example : (getstate1 exParams exObj).1.maskEnc = [.corners [1, 1] [2, 3], .bool [1, 2] 2] := by decide
example : (getstate1 exParams exObj).1.valsEnc = [.antimasked, .int [2] (some (2, ⟨true, true⟩))] := by decide
example : (setstate1 exParams (getstate1 exParams exObj).1).map (·.1.vals)
    = some (.array [2, 3] [[1], [1], [1], [1], [5], [6]]) := by decide

/-- the byte order recorded in the INT step matters: the buffer of a big-endian int16 array read
    with a little-endian descriptor (a step that records `dtype.name` instead of `dtype.str`) gives
    byte-swapped values, silently -/
theorem byteorder_counterexample :
    decodeInts false 2 1 [2] (intBytes true 2 [[1], [258]]) = some [[256], [513]] ∧
    decodeInts true 2 1 [2] (intBytes true 2 [[1], [258]]) = some [[1], [258]] := by decide

/-- the defect of the pinned tree (an INT step without dtype is decoded as int64): the state
    of an int16 array does not unpickle — `__setstate__` raises -/
theorem legacy_int_counterexample :
    setstate1 exParams (getstate1 exParams exObj).1.legacy = none := by decide

/-- Recorded finding KF-C11-7 (faithfully modelled, not repaired): a derivative that is masked
    at an element where its object is NOT masked loses that mask when the object has a partial
    array mask — it comes back with the object's mask.  Object mask `[T,F,F,F]`, derivative
    mask `[T,T,F,F]`: element 1 of the derivative comes back unmasked. -/
def exParent : Obj :=
  { exObj with shape := [4], dtype := .float, vals := .array [4] [[10], [11], [12], [13]],
               mask := .array [true, false, false, false] }
def exDeriv : Obj :=
  { exParent with vals := .array [4] [[20], [21], [22], [23]], mask := .array [true, true, false, false] }

theorem deriv_mask_counterexample :
    (setstate exParams (getstate exParams ⟨exParent, [("t", exDeriv)]⟩).1).map
        (fun r => r.derivs.map fun kd => kd.2.maskBits)
      = some [[true, false, false, false]] ∧
    exDeriv.maskBits = [true, true, false, false] := by decide

/-- the seeded change C11y-b (derivatives receive the pair unchanged) breaks exactly this: a derivative then
    reads the OBJECT's entry -/
theorem setDigits_pair_counterexample :
    derivDigits { exObj with digits := some (.single, .double) } { exObj with digits := some (.single, .double) }
      = .single := by decide

end PMV.Pickle
