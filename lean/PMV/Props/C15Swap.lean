import PMV.Props.C15Denom
/-
  C15 — swap_items (repaired code) exchanges the numerator and denominator parts of every index; the closed form
  of the index map of `numpy.rollaxis` for arbitrary (axis, position).
-/
namespace PMV.C15
open PMV PMV.NpShape PMV.Shaper PMV.ItemOps
variable {α : Type}

/-- transposing a list by the order of `rollaxis(a → s)`: entry `a` is taken out and put back at `s` -/
theorem permute_rollPerm {n a s : Nat} (l : List Nat) (ha : a < n) (hs : s < n) (hl : l.length = n) :
    permute (rollPerm n a s) l = (l.eraseIdx a).insertIdx s (l.getD a 0) := by
  have hp := rollPerm_isPerm ha hs
  have hel : (l.eraseIdx a).length = n - 1 := by rw [List.length_eraseIdx, if_pos (by omega)]; omega
  apply list_eq_of_getD
  · rw [length_permute, hp.1, List.length_insertIdx, if_pos (by omega), hel]; omega
  · intro k hk
    rw [length_permute, hp.1] at hk
    rw [getD_permute _ _ _ (by rw [hp.1]; exact hk)]
    have hget : (rollPerm n a s)[k]'(by rw [hp.1]; exact hk) = rollFn a s k := by
      simp [rollPerm_eq ha hs]
    rw [hget]
    have hlen2 : k < ((l.eraseIdx a).insertIdx s (l.getD a 0)).length := by
      rw [List.length_insertIdx, if_pos (by omega), hel]; omega
    rw [getD_of_lt _ _ hlen2, List.getElem_insertIdx]
    unfold rollFn
    split
    · rw [List.getElem_eraseIdx]
      split
      · exact getD_of_lt _ _ (by omega)
      · exact getD_of_lt _ _ (by omega)
    · split
      · rfl
      · rw [List.getElem_eraseIdx]
        split
        · exact getD_of_lt _ _ (by omega)
        · rw [getD_of_lt _ _ (by omega)]
          congr 1
          omega


/-- the source index under the order of `rollaxis(a → s)`: entry `s` of the result index goes back to `a` -/
theorem unpermute_rollPerm {n a s : Nat} (idx : Index) (ha : a < n) (hs : s < n) (hi : idx.length = n) :
    unpermute (rollPerm n a s) idx = (idx.eraseIdx s).insertIdx a (idx.getD s 0) := by
  rw [unpermute_eq_permute_of_inverse (rollPerm_isPerm ha hs) (rollPerm_isPerm hs ha) (rollPerm_inverse ha hs) idx hi,
    permute_rollPerm idx hs ha hi]

/-- one step of `swap_items`: `np.rollaxis(x, -rank, ndim)` moves axis `L = ndim - rank` to the end -/
theorem roll_to_end {β : Type} (x : Arr β) (S T : Shape) (n : Nat) (hx : x.shape = S ++ [n] ++ T) :
    ∃ y, NpShape.rollaxis x (-((T.length + 1 : Nat) : Int)) ((x.shape.length : Nat) : Int) = .ok y ∧
      y.shape = S ++ T ++ [n] ∧
      ∀ (i w : Index) (v : Nat), i.length = S.length → w.length = T.length →
        y.get (i ++ w ++ [v]) = x.get (i ++ [v] ++ w) := by
  have hlen : x.shape.length = S.length + 1 + T.length := by rw [hx]; simp; omega
  have hnorm : NpShape.normAxis x.shape.length (-((T.length + 1 : Nat) : Int)) = .ok S.length := by
    unfold NpShape.normAxis
    rw [if_pos ⟨by rw [hlen]; push_cast; omega, by push_cast; omega⟩, if_pos (by push_cast; omega)]
    congr 1
    rw [hlen]; push_cast; omega
  have r := rollaxis_ok x (axis := -((T.length + 1 : Nat) : Int)) (start := ((x.shape.length : Nat) : Int))
    (a := S.length) (s := ((x.shape.length : Nat) : Int)) hnorm (by rw [if_neg (by omega)]) (by omega) (by omega)
  have hd : (if S.length < ((x.shape.length : Nat) : Int).toNat then ((x.shape.length : Nat) : Int).toNat - 1
      else ((x.shape.length : Nat) : Int).toNat) = S.length + T.length := by
    rw [Int.toNat_natCast, if_pos (by omega), hlen]; omega
  rw [hd] at r
  by_cases h0 : T.length = 0
  · have hT : T = [] := List.length_eq_zero_iff.1 h0
    subst hT
    rw [if_pos (by simp)] at r
    refine ⟨x, r, by rw [hx]; simp, fun i w v _ hw => ?_⟩
    have : w = [] := List.length_eq_zero_iff.1 (by simpa using hw)
    subst this; simp
  · rw [if_neg (by omega)] at r
    have ha : S.length < x.shape.length := by omega
    have hs : S.length + T.length < x.shape.length := by omega
    refine ⟨_, r, ?_, fun i w v hi hw => ?_⟩
    · show permute _ x.shape = _
      rw [permute_rollPerm x.shape ha hs rfl, hx]
      have e1 : (S ++ [n] ++ T).eraseIdx S.length = S ++ T := by
        have := eraseIdx_mid S T n; exact this
      have e2 : (S ++ [n] ++ T).getD S.length 0 = n := getD_mid S T n
      rw [e1, e2]
      have := insertIdx_append_right n S T T.length
      rw [this]
      simp [List.insertIdx_length_self]
    · show x.get (unpermute _ (i ++ w ++ [v])) = _
      rw [unpermute_rollPerm _ ha hs (by simp only [List.length_append, List.length_cons, List.length_nil]; omega)]
      have hiw : (i ++ w).length = S.length + T.length := by rw [List.length_append, hi, hw]
      have e1 : (i ++ w ++ [v]).eraseIdx (S.length + T.length) = i ++ w := by
        rw [← hiw]; have := eraseIdx_mid (i ++ w) [] v; simpa using this
      have e2 : (i ++ w ++ [v]).getD (S.length + T.length) 0 = v := by
        rw [← hiw]; have := getD_mid (i ++ w) [] v; simpa using this
      rw [e1, e2, ← hi]
      have := insertIdx_append_right v i w 0
      simp only [Nat.add_zero, List.insertIdx_zero] at this
      rw [this, List.append_assoc]; rfl


/-- `for r in range(nrank): new_values = np.rollaxis(new_values, -rank, ndim)`: the block `N` of `|N|` axes after
    the first `|S|` ones ends up behind the block `T`; `(i, kt, kn)` of the result is `(i, kn, kt)` of the input -/
theorem rollItems_spec {β : Type} : ∀ (N : Shape) (x : Arr β) (S T : Shape), x.shape = S ++ N ++ T →
    ∃ y, rollItems (N.length + T.length) N.length x = .ok y ∧ y.shape = S ++ T ++ N ∧
      ∀ i kn kt : Index, i.length = S.length → kn.length = N.length → kt.length = T.length →
        y.get (i ++ kt ++ kn) = x.get (i ++ kn ++ kt)
  | [], x, S, T, hx => by
    refine ⟨x, rfl, by rw [hx]; simp, fun i kn kt _ hkn _ => ?_⟩
    have : kn = [] := List.length_eq_zero_iff.1 (by simpa using hkn)
    subst this; simp
  | n :: N', x, S, T, hx => by
    have hx' : x.shape = S ++ [n] ++ (N' ++ T) := by rw [hx]; simp
    obtain ⟨x1, h1, h1sh, h1get⟩ := roll_to_end x S (N' ++ T) n hx'
    have h1sh' : x1.shape = S ++ N' ++ (T ++ [n]) := by rw [h1sh]; simp
    obtain ⟨y, hy, hysh, hyget⟩ := rollItems_spec N' x1 S (T ++ [n]) h1sh'
    have hrank : (n :: N').length + T.length = N'.length + (T ++ [n]).length := by simp; omega
    have hrank2 : ((n :: N').length + T.length : Nat) = (N' ++ T).length + 1 := by simp; omega
    refine ⟨y, ?_, by rw [hysh]; simp, fun i kn kt hi hkn hkt => ?_⟩
    · show rollItems _ (N'.length + 1) x = _
      unfold rollItems
      rw [hrank2, h1]
      show rollItems ((N' ++ T).length + 1) N'.length x1 = _
      have : (N' ++ T).length + 1 = N'.length + (T ++ [n]).length := by simp; omega
      rw [this]; exact hy
    · cases kn with
      | nil => simp at hkn
      | cons v kn' =>
        have hkn' : kn'.length = N'.length := by simpa using hkn
        have e1 : i ++ kt ++ (v :: kn') = i ++ (kt ++ [v]) ++ kn' := by simp
        rw [e1, hyget i kn' (kt ++ [v]) hi hkn' (by simp [hkt])]
        have e2 : i ++ kn' ++ (kt ++ [v]) = i ++ (kn' ++ kt) ++ [v] := by simp
        rw [e2, h1get i (kn' ++ kt) v hi (by simp [hkn', hkt])]
        simp

/-- **swap_items** (repaired code): numerator and denominator exchange places — `(i, kd, kn)` of the result is
    `(i, kn, kd)` of the operand; leading index and mask untouched; no derivatives in the result -/
theorem swapItems_reindex {q r : Q α} {cs : List Cls} (hwf : WF0 q.base) (h : swapItems q cs = .ok r) :
    r.derivs = [] ∧ r.base.shape = q.base.shape ∧ r.base.numer = q.base.denom ∧ r.base.denom = q.base.numer ∧
    r.base.mask = q.base.mask ∧
    ∀ i kn kd : Index, Valid q.base.shape i → Valid q.base.numer kn → Valid q.base.denom kd →
      r.base.vals.get (i ++ kd ++ kn) = q.base.vals.get (i ++ kn ++ kd) := by
  unfold swapItems at h
  simp only at h
  obtain ⟨nv, hnv, h⟩ := bind_ok.1 h
  obtain ⟨obj, h1, h⟩ := bind_ok.1 h
  obtain ⟨obj', h2, h⟩ := bind_ok.1 h
  have := pure_ok.1 h; subst this
  obtain ⟨y, hy, hysh, hyget⟩ := rollItems_spec q.base.numer q.base.vals q.base.shape q.base.denom hwf.vshape
  rw [hnv] at hy; injection hy with hy; subst hy
  obtain ⟨_, c1, c2, c3, c4, c5, c6⟩ := construct_split (s := q.base.shape) (n := q.base.denom) (d := q.base.numer)
    h1 hysh rfl rfl hwf.mshape
  obtain ⟨b1, b2, b3, b4, b5, _⟩ := cast_keeps c6 cs h2
  refine ⟨rfl, b2.trans c2, b3.trans c3, b4.trans c4, b5.trans c5, fun i kn kd hi hkn hkd => ?_⟩
  rw [b1, c1]
  exact hyget i kn kd (NpShape.valid_length hi) (NpShape.valid_length hkn) (NpShape.valid_length hkd)

end PMV.C15
