import PMV.Model.Elem
/-
  C02 — undefined results are masked, never NaN / pole infinity / warning / exception.
  Property theorems about the code-shaped element functions of PMV/Model/Elem.lean.  Core Lean.

  The primitives (`pdiv`, `psqrt`, `plog`, `pexp`, `pasin`, `pacos`, `pinv`) TRAP outside their
  domain.  `no_trap_*`: the default forms never trap, for every cell — masked ones with
  arbitrary hidden values included — so no NumPy warning, NaN or pole infinity can arise anywhere
  in the array.  `masked_iff_undefined_*`: the element is masked exactly when an operand is masked
  or the operation is undefined there, otherwise the value is the reference.  `fastpath_*`: the
  check=False / nozeros=True forms give `ok` or `raise` (ValueError), never a warning.
  Everything is per element over an arbitrary value type satisfying `NumLaws`, hence for every
  array, every placement of poles, every shape (the lifting is `Arr.map`/`Arr.map2`).
-/
namespace PMV.Elem
open Num Trap

variable {K : Type} [Num K] [NumLaws K]
set_option linter.unusedSectionVars false

@[simp] theorem bind_ok {α β} (a : α) (f : α → Trap β) : (Trap.ok a >>= f) = f a := rfl
@[simp] theorem bind_warn {α β} (w : Warn) (f : α → Trap β) : (Trap.warn w >>= f) = Trap.warn w := rfl
@[simp] theorem bind_raise {α β} (f : α → Trap β) : ((Trap.raise : Trap α) >>= f) = Trap.raise := rfl
@[simp] theorem isOk_ok {α} (a : α) : (Trap.ok a).isOk = true := rfl

theorem isZero_one : isZero (one : K) = false := NumLaws.one_ne_zero
theorem lt_one_zero : lt (one : K) zero = false := NumLaws.not_one_lt_zero
theorem le_one_zero : le (one : K) zero = false := by
  simp [le, lt_one_zero, (NumLaws.one_ne_zero : Num.eq (one : K) zero = false)]

/-! ### no_trap: the default forms keep every primitive inside its domain -/

theorem no_trap_divByNumber (x : Cell K) (c : K) : (divByNumber x c).isOk = true := by
  unfold divByNumber pdiv
  by_cases h : isZero c = true <;> simp [h]

theorem no_trap_divByScalar (x y : Cell K) : (divByScalar x y).isOk = true := by
  unfold divByScalar maskWhere pdiv
  by_cases h : isZero y.v = true <;> simp [h, isZero_one]

theorem no_trap_floordivByScalar (x y : Cell K) : (floordivByScalar x y).isOk = true := by
  unfold floordivByScalar maskWhere pfloordiv
  by_cases h : isZero y.v = true <;> simp [h, isZero_one]

theorem no_trap_modByScalar (x y : Cell K) : (modByScalar x y).isOk = true := by
  unfold modByScalar maskWhere pmod
  by_cases h : isZero y.v = true <;> simp [h, isZero_one]

theorem no_trap_floordivByNumber (x : Cell K) (c : K) : (floordivByNumber x c).isOk = true := by
  unfold floordivByNumber pfloordiv
  by_cases h : isZero c = true <;> simp [h]

theorem no_trap_modByNumber (x : Cell K) (c : K) : (modByNumber x c).isOk = true := by
  unfold modByNumber pmod
  by_cases h : isZero c = true <;> simp [h]

theorem no_trap_reciprocal (x : Cell K) : (reciprocal false x).isOk = true := by
  unfold reciprocal maskWhere pdiv
  by_cases h : isZero x.v = true <;> simp [h, isZero_one]

theorem no_trap_rdivNumber (c : K) (x : Cell K) : (rdivNumber c x).isOk = true := by
  unfold rdivNumber reciprocal maskWhere pdiv
  by_cases h : isZero x.v = true <;> simp [h, isZero_one]

theorem no_trap_sqrt (F : Fns K) (x : Cell K) : (sqrt F true x).isOk = true := by
  unfold sqrt maskWhere psqrt
  by_cases h : lt x.v zero = true <;> simp [h, lt_one_zero]

theorem no_trap_log (F : Fns K) (x : Cell K) : (log F true x).isOk = true := by
  unfold log maskWhere plog
  by_cases h : le x.v zero = true
  · simp [h, isZero_one, lt_one_zero]
  · have h' := h
    simp only [le, Bool.or_eq_true, not_or, Bool.not_eq_true] at h'
    have hz : isZero x.v = false := h'.2
    simp [h, hz, h'.1]

theorem no_trap_exp (F : Fns K) (hmax : lt F.expMax zero = false) (x : Cell K) :
    (exp F true x).isOk = true := by
  unfold exp maskWhere pexp gt
  by_cases h : lt F.expMax x.v = true <;> simp [h, hmax]

theorem no_trap_arcsin (F : Fns K) (acos : Bool) (x : Cell K) : (arcsin F acos true x).isOk = true := by
  have z := (NumLaws.zero_in_unit : lt (zero : K) (-one) = false ∧ lt (one : K) zero = false)
  unfold arcsin pasin pacos gt
  by_cases h : (lt x.v (-one) || lt one x.v) = true
  · cases acos <;> simp [h, z.1, z.2]
  · cases acos <;> simp [h]

theorem no_trap_pow0D (F : Fns K) (d : K) (x e : Cell K) (ie : Option IntExp) :
    (pow0D F d x e ie).isOk = true := by
  unfold pow0D; cases powRaw F x.v e.v ie <;> rfl

theorem no_trap_powArr (F : Fns K) (x e : Cell K) (ie : Option IntExp) :
    (powArr F x e ie).isOk = true := by
  unfold powArr; cases powRaw F x.v e.v ie <;> rfl

theorem no_trap_powEasy (F : Fns K) (k : Easy) (x : Cell K) : (powEasy F k x).isOk = true := by
  cases k <;> simp only [powEasy, isOk_ok]
  · exact no_trap_reciprocal x
  · exact no_trap_sqrt F x
  · have h := no_trap_sqrt F x
    cases hs : sqrt F true x with
    | ok s => simp only [bind_ok]; exact no_trap_reciprocal s
    | warn w => rw [hs] at h; cases h
    | raise => rw [hs] at h; cases h

/-- dividing by a list none of whose entries is zero never traps -/
theorem divAll_ok (xs ys : List K) (h : ∀ y ∈ ys, isZero y = false) : (divAll xs ys).isOk = true := by
  induction xs generalizing ys with
  | nil => cases ys <;> rfl
  | cons x xs ih =>
    cases ys with
    | nil => rfl
    | cons y ys =>
      have hy := h y (by simp)
      have := ih ys (fun z hz => h z (by simp [hz]))
      simp only [divAll, pdiv, hy, Bool.false_eq_true, if_false, bind_ok]
      cases hd : divAll xs ys with
      | ok q => rfl
      | warn w => rw [hd] at this; cases this
      | raise => rw [hd] at this; cases this

theorem no_trap_elementDiv (x y : VCell K) : (elementDiv x y).isOk = true := by
  unfold elementDiv
  have h := divAll_ok x.vals (y.vals.map fun c => if isZero c then one else c) (by
    intro z hz
    obtain ⟨c, _, rfl⟩ := List.mem_map.mp hz
    by_cases hc : isZero c = true <;> simp [hc, isZero_one])
  cases hd : divAll x.vals (y.vals.map fun c => if isZero c then one else c) with
  | ok q => simp only [hd, bind_ok, isOk_ok]
  | warn w => rw [hd] at h; cases h
  | raise => rw [hd] at h; cases h

theorem sumSq_nonneg (xs : List K) : lt (sumSq xs) zero = false := by
  induction xs with
  | nil => exact NumLaws.lt_irrefl _
  | cons x xs ih => exact NumLaws.add_nonneg _ _ (NumLaws.sq_nonneg x) ih

theorem no_trap_norm (F : Fns K) (x : VCell K) : (norm F x).isOk = true := by
  unfold norm psqrt; simp [sumSq_nonneg]

theorem no_trap_vdivByScalar (x : VCell K) (y : Cell K) : (vdivByScalar x y).isOk = true := by
  unfold vdivByScalar
  have h := divAll_ok x.vals (x.vals.map fun _ => (maskWhere (isZero y.v) one y).v) (by
    intro z hz
    obtain ⟨c, _, rfl⟩ := List.mem_map.mp hz
    unfold maskWhere
    by_cases hc : isZero y.v = true <;> simp [hc, isZero_one])
  cases hd : divAll x.vals (x.vals.map fun _ => (maskWhere (isZero y.v) one y).v) with
  | ok q => simp only [hd, bind_ok, isOk_ok]
  | warn w => rw [hd] at h; cases h
  | raise => rw [hd] at h; cases h

theorem no_trap_unit (F : Fns K) (x : VCell K) : (unit F x).isOk = true := by
  unfold unit norm psqrt
  simp only [sumSq_nonneg, Bool.false_eq_true, if_false, bind_ok]
  exact no_trap_vdivByScalar _ _

theorem no_trap_quatReciprocal (x : VCell K) : (quatReciprocal x).isOk = true :=
  no_trap_vdivByScalar _ _

/-- LAPACK contract used: the identity is invertible -/
theorem no_trap_matInverse (L : Lapack K) (hid : isZero (L.det L.ident) = false) (x : VCell K) :
    (matInverse L false x).isOk = true := by
  unfold matInverse pinv
  by_cases h : isZero (L.det x.vals) = true <;> simp [h, hid]

/-! #### derivative formulas (they divide again) -/

theorem maskWhere_zero_nonzero (y : Cell K) : isZero (maskWhere (isZero y.v) one y).v = false := by
  unfold maskWhere
  by_cases h : isZero y.v = true <;> simp [h, isZero_one]

/-- `reciprocal(nozeros=True)` of an element that is not zero is the plain quotient -/
theorem reciprocal_true_nonzero (x : Cell K) (h : isZero x.v = false) :
    reciprocal true x = ok ⟨one / x.v, x.m⟩ := by
  unfold reciprocal reciprocalFast trips fastEval pdiv
  simp [h]

theorem no_trap_divDerivX (dx y : Cell K) : (divDerivX dx y).isOk = true := by
  unfold divDerivX
  simp only [reciprocal_true_nonzero _ (maskWhere_zero_nonzero y), bind_ok, isOk_ok]

theorem no_trap_divDerivY (x dy y : Cell K) : (divDerivY x dy y).isOk = true := by
  unfold divDerivY
  simp only [reciprocal_true_nonzero _ (maskWhere_zero_nonzero y), bind_ok, isOk_ok]

theorem no_trap_reciprocalDeriv (dx x : Cell K) : (reciprocalDeriv dx x).isOk = true := by
  unfold reciprocalDeriv reciprocal maskWhere pdiv
  by_cases h : isZero x.v = true <;> simp [h, isZero_one]

theorem no_trap_logDeriv (dx x : Cell K) : (logDeriv dx x).isOk = true := no_trap_divByScalar _ _

theorem no_trap_sqrtDeriv (F : Fns K) (dx x : Cell K) : (sqrtDeriv F dx x).isOk = true := by
  unfold sqrtDeriv
  have h := no_trap_sqrt F x
  cases hs : sqrt F true x with
  | ok s =>
    simp only [bind_ok]
    have h2 := no_trap_rdivNumber (half : K) s
    cases hr : rdivNumber half s with
    | ok f => simp
    | warn w => rw [hr] at h2; cases h2
    | raise => rw [hr] at h2; cases h2
  | warn w => rw [hs] at h; cases h
  | raise => rw [hs] at h; cases h

/-! ### masked_iff_undefined: masked exactly where an operand is masked or the operation is
    undefined; elsewhere the reference value -/

theorem masked_iff_undefined_div (x y r : Cell K) (h : divByScalar x y = ok r) :
    r.m = (x.m || y.m || isZero y.v) ∧ (isZero y.v = false → r.v = x.v / y.v) := by
  unfold divByScalar maskWhere pdiv at h
  by_cases hz : isZero y.v = true
  · simp [hz, isZero_one] at h; subst h; simp [hz]
  · simp [hz] at h; subst h; simp [hz]

theorem masked_iff_undefined_floordiv (x y r : Cell K) (h : floordivByScalar x y = ok r) :
    r.m = (x.m || y.m || isZero y.v) ∧ (isZero y.v = false → r.v = floor (x.v / y.v)) := by
  unfold floordivByScalar maskWhere pfloordiv at h
  by_cases hz : isZero y.v = true
  · simp [hz, isZero_one] at h; subst h; simp [hz]
  · simp [hz] at h; subst h; simp [hz]

theorem masked_iff_undefined_mod (x y r : Cell K) (h : modByScalar x y = ok r) :
    r.m = (x.m || y.m || isZero y.v) ∧
    (isZero y.v = false → r.v = x.v - floor (x.v / y.v) * y.v) := by
  unfold modByScalar maskWhere pmod at h
  by_cases hz : isZero y.v = true
  · simp [hz, isZero_one] at h; subst h; simp [hz]
  · simp [hz] at h; subst h; simp [hz]

theorem masked_iff_undefined_divByNumber (x r : Cell K) (c : K) (h : divByNumber x c = ok r) :
    r.m = (x.m || isZero c) ∧ (isZero c = false → r.v = x.v / c) := by
  unfold divByNumber pdiv at h
  by_cases hz : isZero c = true
  · simp [hz] at h; subst h; simp [hz]
  · simp [hz] at h; subst h; simp [hz]

theorem masked_iff_undefined_reciprocal (x r : Cell K) (h : reciprocal false x = ok r) :
    r.m = (x.m || isZero x.v) ∧ (isZero x.v = false → r.v = one / x.v) := by
  unfold reciprocal maskWhere pdiv at h
  by_cases hz : isZero x.v = true
  · simp [hz, isZero_one] at h; subst h; simp [hz]
  · simp [hz] at h; subst h; simp [hz]

theorem masked_iff_undefined_sqrt (F : Fns K) (x r : Cell K) (h : sqrt F true x = ok r) :
    r.m = (x.m || lt x.v zero) ∧ (lt x.v zero = false → r.v = F.sqrt x.v) := by
  unfold sqrt maskWhere psqrt at h
  by_cases hz : lt x.v zero = true
  · simp [hz, lt_one_zero] at h; subst h; simp [hz]
  · simp [hz] at h; subst h; simp [hz]

theorem masked_iff_undefined_log (F : Fns K) (x r : Cell K) (h : log F true x = ok r) :
    r.m = (x.m || le x.v zero) ∧ (le x.v zero = false → r.v = F.log x.v) := by
  unfold log maskWhere plog at h
  by_cases hz : le x.v zero = true
  · simp [hz, isZero_one, lt_one_zero] at h; subst h; simp [hz]
  · have h' := hz
    simp only [le, Bool.or_eq_true, not_or, Bool.not_eq_true] at h'
    have hz0 : isZero x.v = false := h'.2
    simp [hz, hz0, h'.1] at h; subst h; simp [hz]

theorem masked_iff_undefined_exp (F : Fns K) (hmax : lt F.expMax zero = false) (x r : Cell K)
    (h : exp F true x = ok r) :
    r.m = (x.m || gt x.v F.expMax) ∧ (gt x.v F.expMax = false → r.v = F.exp x.v) := by
  unfold exp maskWhere pexp gt at h
  unfold gt
  by_cases hz : lt F.expMax x.v = true
  · simp [hz, hmax] at h; subst h; simp [hz]
  · simp [hz] at h; subst h; simp [hz]

theorem masked_iff_undefined_arcsin (F : Fns K) (acos : Bool) (x r : Cell K)
    (h : arcsin F acos true x = ok r) :
    r.m = (x.m || (lt x.v (-one) || gt x.v one)) ∧
    ((lt x.v (-one) || gt x.v one) = false → r.v = (if acos then F.acos x.v else F.asin x.v)) := by
  have z := (NumLaws.zero_in_unit : lt (zero : K) (-one) = false ∧ lt (one : K) zero = false)
  unfold arcsin pasin pacos gt at h
  unfold gt
  by_cases hz : (lt x.v (-one) || lt one x.v) = true
  · cases acos <;> simp [hz, z.1, z.2] at h <;> subst h <;> simp [hz]
  · cases acos <;> simp [hz] at h <;> subst h <;> simp [hz]

/-- where `x ** e` is undefined: 0 to a negative power, a negative base with a fractional
    exponent -/
def powUndefined (x e : K) (ie : Option IntExp) : Bool :=
  match ie with
  | some ⟨false, _⟩ => false
  | some ⟨true, _⟩ => isZero x
  | none => lt x zero || (isZero x && lt e zero)

/-- the reference value of a defined power -/
def powRef (F : Fns K) (x e : K) (ie : Option IntExp) : K :=
  match ie with
  | some ⟨false, n⟩ => npow x n
  | some ⟨true, n⟩ => one / npow x n
  | none => if isZero x then zero else F.powr x e

theorem powRaw_spec (F : Fns K) (x e : K) (ie : Option IntExp) :
    (powUndefined x e ie = true → ∀ v, powRaw F x e ie ≠ .fin v) ∧
    (powUndefined x e ie = false → powRaw F x e ie = .fin (powRef F x e ie)) := by
  unfold powUndefined powRef powRaw
  match ie with
  | some ⟨false, n⟩ => simp
  | some ⟨true, n⟩ => by_cases h : isZero x = true <;> simp [h]
  | none =>
    by_cases h1 : lt x zero = true
    · simp [h1]
    · by_cases h2 : isZero x = true
      · by_cases h3 : lt e zero = true <;> simp [h1, h2, h3]
      · simp [h1, h2]

theorem masked_iff_undefined_powArr (F : Fns K) (x e r : Cell K) (ie : Option IntExp)
    (h : powArr F x e ie = ok r) :
    r.m = (x.m || e.m || powUndefined x.v e.v ie) ∧
    (powUndefined x.v e.v ie = false → r.v = powRef F x.v e.v ie) := by
  obtain ⟨s1, s2⟩ := powRaw_spec F x.v e.v ie
  unfold powArr at h
  by_cases hu : powUndefined x.v e.v ie = true
  · have := s1 hu
    cases hp : powRaw F x.v e.v ie with
    | fin v => exact absurd hp (this v)
    | nan => rw [hp] at h; simp only [ok.injEq] at h; subst h; simp [hu]
    | inf => rw [hp] at h; simp only [ok.injEq] at h; subst h; simp [hu]
  · simp only [Bool.not_eq_true] at hu
    rw [s2 hu] at h
    simp only [ok.injEq] at h; subst h; simp [hu]

theorem masked_iff_undefined_pow0D (F : Fns K) (d : K) (x e r : Cell K) (ie : Option IntExp)
    (h : pow0D F d x e ie = ok r) :
    r.m = (x.m || e.m || powUndefined x.v e.v ie) ∧
    (powUndefined x.v e.v ie = false → r.v = powRef F x.v e.v ie) := by
  obtain ⟨s1, s2⟩ := powRaw_spec F x.v e.v ie
  unfold pow0D at h
  by_cases hu : powUndefined x.v e.v ie = true
  · have := s1 hu
    cases hp : powRaw F x.v e.v ie with
    | fin v => exact absurd hp (this v)
    | nan => rw [hp] at h; simp only [ok.injEq] at h; subst h; simp [hu]
    | inf => rw [hp] at h; simp only [ok.injEq] at h; subst h; simp [hu]
  · simp only [Bool.not_eq_true] at hu
    rw [s2 hu] at h
    simp only [ok.injEq] at h; subst h; simp [hu]

theorem masked_iff_undefined_elementDiv (x y r : VCell K) (h : elementDiv x y = ok r) :
    r.m = (x.m || y.m || y.vals.any isZero) ∧
    (y.vals.any isZero = false → divAll x.vals y.vals = ok r.vals) := by
  unfold elementDiv at h
  cases hd : divAll x.vals (y.vals.map fun c => if isZero c then one else c) with
  | ok q =>
    simp only [hd, bind_ok, ok.injEq] at h
    subst h
    refine ⟨by simp [List.any_map, Bool.or_assoc], fun hz => ?_⟩
    have : (y.vals.map fun c => if isZero c then one else c) = y.vals := by
      rw [List.any_eq_false] at hz
      conv => rhs; rw [← List.map_id y.vals]
      apply List.map_congr_left
      intro c hc
      have := hz c hc
      simp only [Bool.not_eq_true] at this
      simp [this]
    rw [this] at hd
    exact hd
  | warn w => simp [hd] at h
  | raise => simp [hd] at h

theorem masked_iff_undefined_vdiv (x r : VCell K) (y : Cell K) (h : vdivByScalar x y = ok r) :
    r.m = (x.m || y.m || isZero y.v) := by
  unfold vdivByScalar at h
  cases hd : divAll x.vals (x.vals.map fun _ => (maskWhere (isZero y.v) one y).v) with
  | ok q =>
    simp only [hd, bind_ok, ok.injEq] at h
    subst h
    unfold maskWhere
    by_cases hz : isZero y.v = true <;> simp [hz]
  | warn w => simp [hd] at h
  | raise => simp [hd] at h

/-- `unit`: masked exactly where the vector is masked or its norm is zero -/
theorem masked_iff_undefined_unit (F : Fns K) (x r : VCell K) (h : unit F x = ok r) :
    r.m = (x.m || isZero (F.sqrt (sumSq x.vals))) := by
  unfold unit norm psqrt at h
  simp only [sumSq_nonneg, Bool.false_eq_true, if_false, bind_ok] at h
  rw [masked_iff_undefined_vdiv _ _ _ h]; simp

/-- `Quaternion.reciprocal`: masked exactly where the quaternion is masked or is zero -/
theorem masked_iff_undefined_quatReciprocal (x r : VCell K) (h : quatReciprocal x = ok r) :
    r.m = (x.m || isZero (sumSq x.vals)) := by
  unfold quatReciprocal at h
  rw [masked_iff_undefined_vdiv _ _ _ h]; simp

theorem masked_iff_undefined_matInverse (L : Lapack K) (hid : isZero (L.det L.ident) = false)
    (x r : VCell K) (h : matInverse L false x = ok r) :
    r.m = (x.m || isZero (L.det x.vals)) ∧
    (isZero (L.det x.vals) = false → r.vals = L.inv x.vals) := by
  unfold matInverse pinv at h
  by_cases hz : isZero (L.det x.vals) = true
  · simp [hz, hid] at h; subst h; simp [hz]
  · simp [hz] at h; subst h; simp [hz]

/-! #### derivatives: never a trap (above); masked wherever the formula has a pole -/

theorem deriv_masked_when_pole_divX (dx y r : Cell K) (h : divDerivX dx y = ok r) :
    r.m = (dx.m || y.m || isZero y.v) := by
  unfold divDerivX at h
  simp only [reciprocal_true_nonzero _ (maskWhere_zero_nonzero y), bind_ok, ok.injEq] at h
  subst h
  unfold maskWhere mul
  by_cases hz : isZero y.v = true <;> simp [hz]

theorem deriv_masked_when_pole_divY (x dy y r : Cell K) (h : divDerivY x dy y = ok r) :
    r.m = (x.m || dy.m || y.m || isZero y.v) := by
  unfold divDerivY at h
  simp only [reciprocal_true_nonzero _ (maskWhere_zero_nonzero y), bind_ok, ok.injEq] at h
  subst h
  obtain ⟨xv, xm⟩ := x; obtain ⟨dv, dm⟩ := dy; obtain ⟨yv, ym⟩ := y
  unfold maskWhere mul
  by_cases hz : isZero yv = true
  · simp [hz]
  · cases xm <;> cases dm <;> cases ym <;> simp [hz]

theorem deriv_masked_when_pole_log (dx x r : Cell K) (h : logDeriv dx x = ok r) :
    r.m = (dx.m || x.m || le x.v zero) := by
  unfold logDeriv at h
  obtain ⟨hm, _⟩ := masked_iff_undefined_div _ _ _ h
  rw [hm]
  unfold maskWhere
  by_cases hz : le x.v zero = true
  · simp [hz]
  · have h' := hz
    simp only [le, Bool.or_eq_true, not_or, Bool.not_eq_true] at h'
    have hz0 : isZero x.v = false := h'.2
    simp [hz, hz0]

theorem deriv_masked_when_pole_reciprocal (dx x r : Cell K) (h : reciprocalDeriv dx x = ok r) :
    r.m = (dx.m || x.m || isZero x.v) := by
  obtain ⟨xv, xm⟩ := x; obtain ⟨dv, dm⟩ := dx
  unfold reciprocalDeriv reciprocal maskWhere pdiv mul at h
  by_cases hz : isZero xv = true
  · simp [hz, isZero_one] at h; subst h; simp [hz]
  · simp [hz] at h; subst h; cases xm <;> cases dm <;> simp [hz]

/-- sqrt': `0.5 / sqrt(x)` — masked where x < 0 (the value itself is masked) and where sqrt(x) = 0 -/
theorem deriv_masked_when_pole_sqrt (F : Fns K) (dx x r : Cell K) (h : sqrtDeriv F dx x = ok r) :
    r.m = (dx.m || x.m || lt x.v zero ||
           isZero (F.sqrt (if lt x.v zero then one else x.v))) := by
  obtain ⟨xv, xm⟩ := x; obtain ⟨dv, dm⟩ := dx
  unfold sqrtDeriv sqrt rdivNumber reciprocal maskWhere psqrt pdiv mul at h
  by_cases hn : lt xv zero = true
  · by_cases hz : isZero (F.sqrt one) = true
    · simp [hn, hz, lt_one_zero, isZero_one] at h; subst h; simp [hn]
    · simp [hn, hz, lt_one_zero] at h; subst h; simp [hn]
  · by_cases hz : isZero (F.sqrt xv) = true
    · simp [hn, hz, isZero_one] at h; subst h; simp [hn, hz]
    · simp [hn, hz] at h; subst h; cases xm <;> cases dm <;> simp [hn, hz]

/-! #### the remaining derivative formulas: arcsin', arccos', pow', norm', unit', quaternion reciprocal' -/

theorem isOk_iff {α} (t : Trap α) : t.isOk = true ↔ ∃ a, t = ok a := by
  cases t <;> simp [isOk]

theorem no_trap_arcsinDeriv (F : Fns K) (acos : Bool) (dx x : Cell K) :
    (arcsinDeriv F acos dx x).isOk = true := by
  unfold arcsinDeriv
  obtain ⟨s, hs⟩ := (isOk_iff _).1 (no_trap_sqrt F ⟨one - x.v * x.v, x.m⟩)
  obtain ⟨f, hf⟩ := (isOk_iff _).1 (no_trap_reciprocal s)
  simp [hs, hf]

/-- arcsin'/arccos' is masked exactly where an operand is masked, |x| > 1 (1 - x² < 0) or
    |x| = 1 (sqrt(1 - x²) = 0): the poles of 1/sqrt(1 - x²) -/
theorem deriv_masked_when_pole_arcsin (F : Fns K) (acos : Bool) (dx x r : Cell K)
    (h : arcsinDeriv F acos dx x = ok r) :
    r.m = (dx.m || x.m || lt (one - x.v * x.v) zero ||
           isZero (F.sqrt (if lt (one - x.v * x.v) zero then one else one - x.v * x.v))) := by
  obtain ⟨xv, xm⟩ := x; obtain ⟨dv, dm⟩ := dx
  unfold arcsinDeriv at h
  obtain ⟨s, hs⟩ := (isOk_iff _).1 (no_trap_sqrt F ⟨one - xv * xv, xm⟩)
  obtain ⟨f, hf⟩ := (isOk_iff _).1 (no_trap_reciprocal s)
  obtain ⟨hsm, _⟩ := masked_iff_undefined_sqrt F _ _ hs
  obtain ⟨hfm, _⟩ := masked_iff_undefined_reciprocal _ _ hf
  have hsv : s.v = F.sqrt (if lt (one - xv * xv) zero then one else one - xv * xv) := by
    unfold sqrt maskWhere psqrt at hs
    by_cases hn : lt (one - xv * xv) zero = true
    · simp [hn, lt_one_zero] at hs; subst hs; simp [hn]
    · simp [hn] at hs; subst hs; simp [hn]
  simp only [hs, hf, bind_ok, ok.injEq] at h
  subst h
  simp only at hsm
  cases acos <;> simp [mul, hfm, hsm, hsv] <;> cases xm <;> cases dm <;> simp

theorem no_trap_powDeriv (F : Fns K) (zeroD : Bool) (d : K) (dx x e : Cell K) (ie1 : Option IntExp) :
    (powDeriv F zeroD d dx x e ie1).isOk = true := by
  unfold powDeriv
  cases zeroD
  · obtain ⟨p, hp⟩ := (isOk_iff _).1 (no_trap_powArr F x ⟨e.v - one, e.m⟩ ie1)
    simp [hp]
  · obtain ⟨p, hp⟩ := (isOk_iff _).1 (no_trap_pow0D F d x ⟨e.v - one, e.m⟩ ie1)
    simp [hp]

/-- pow' is masked exactly where an operand is masked or `x ** (e - 1)` is undefined -/
theorem deriv_masked_when_pole_pow (F : Fns K) (zeroD : Bool) (d : K) (dx x e r : Cell K)
    (ie1 : Option IntExp) (h : powDeriv F zeroD d dx x e ie1 = ok r) :
    r.m = (dx.m || x.m || e.m || powUndefined x.v (e.v - one) ie1) := by
  unfold powDeriv at h
  cases zeroD
  · obtain ⟨p, hp⟩ := (isOk_iff _).1 (no_trap_powArr F x ⟨e.v - one, e.m⟩ ie1)
    obtain ⟨hm, _⟩ := masked_iff_undefined_powArr F _ _ _ _ hp
    simp only [Bool.false_eq_true, if_false, hp, bind_ok, ok.injEq] at h
    subst h
    simp only [mul, hm]
    cases dx.m <;> cases x.m <;> cases e.m <;> simp
  · obtain ⟨p, hp⟩ := (isOk_iff _).1 (no_trap_pow0D F d x ⟨e.v - one, e.m⟩ ie1)
    obtain ⟨hm, _⟩ := masked_iff_undefined_pow0D F d _ _ _ _ hp
    simp only [if_true, hp, bind_ok, ok.injEq] at h
    subst h
    simp only [mul, hm]
    cases dx.m <;> cases x.m <;> cases e.m <;> simp

theorem no_trap_normDeriv (F : Fns K) (dx x : VCell K) : (normDeriv F dx x).isOk = true := by
  unfold normDeriv
  obtain ⟨n, hn⟩ := (isOk_iff _).1 (no_trap_norm F x)
  obtain ⟨f, hf⟩ := (isOk_iff _).1 (no_trap_vdivByScalar ⟨x.vals, x.m⟩ n)
  simp [hn, hf]

/-- norm' is masked exactly where the vector or its derivative is masked or the norm is zero -/
theorem deriv_masked_when_pole_norm (F : Fns K) (dx x : VCell K) (r : Cell K)
    (h : normDeriv F dx x = ok r) :
    r.m = (x.m || dx.m || isZero (F.sqrt (sumSq x.vals))) := by
  unfold normDeriv at h
  obtain ⟨n, hn⟩ := (isOk_iff _).1 (no_trap_norm F x)
  obtain ⟨f, hf⟩ := (isOk_iff _).1 (no_trap_vdivByScalar ⟨x.vals, x.m⟩ n)
  have hfm := masked_iff_undefined_vdiv _ _ _ hf
  have hnv : n = ⟨F.sqrt (sumSq x.vals), x.m⟩ := by
    unfold norm psqrt at hn
    simp only [sumSq_nonneg, Bool.false_eq_true, if_false, bind_ok, ok.injEq] at hn
    exact hn.symm
  simp only [hn, hf, bind_ok, ok.injEq] at h
  subst h
  simp only [hfm, hnv]
  cases x.m <;> cases dx.m <;> simp

theorem no_trap_unitDeriv (F : Fns K) (dx x : VCell K) : (unitDeriv F dx x).isOk = true := by
  unfold unitDeriv
  obtain ⟨n, hn⟩ := (isOk_iff _).1 (no_trap_norm F x)
  obtain ⟨nd, hnd⟩ := (isOk_iff _).1 (no_trap_normDeriv F dx x)
  simp only [hn, hnd, bind_ok, reciprocal_true_nonzero _ (maskWhere_zero_nonzero n), isOk_ok]

/-- unit' is masked exactly where the vector or its derivative is masked or the norm is zero -/
theorem deriv_masked_when_pole_unit (F : Fns K) (dx x r : VCell K) (h : unitDeriv F dx x = ok r) :
    r.m = (x.m || dx.m || isZero (F.sqrt (sumSq x.vals))) := by
  unfold unitDeriv at h
  obtain ⟨n, hn⟩ := (isOk_iff _).1 (no_trap_norm F x)
  obtain ⟨nd, hnd⟩ := (isOk_iff _).1 (no_trap_normDeriv F dx x)
  have hndm := deriv_masked_when_pole_norm F dx x nd hnd
  have hnv : n = ⟨F.sqrt (sumSq x.vals), x.m⟩ := by
    unfold norm psqrt at hn
    simp only [sumSq_nonneg, Bool.false_eq_true, if_false, bind_ok, ok.injEq] at hn
    exact hn.symm
  simp only [hn, hnd, bind_ok, reciprocal_true_nonzero _ (maskWhere_zero_nonzero n), ok.injEq] at h
  subst h
  subst hnv
  simp only [mul, maskWhere, hndm]
  by_cases hz : isZero (F.sqrt (sumSq x.vals)) = true
  · simp [hz]
  · cases x.m <;> cases dx.m <;> simp [hz]

theorem no_trap_quatReciprocalDeriv (dx x : VCell K) : (quatReciprocalDeriv dx x).isOk = true := by
  unfold quatReciprocalDeriv
  have e := reciprocal_true_nonzero _ (maskWhere_zero_nonzero (⟨sumSq x.vals, x.m⟩ : Cell K))
  dsimp only at e
  simp only [e, bind_ok, isOk_ok]

/-- Quaternion.reciprocal' is masked exactly where the quaternion or its derivative is masked
    or the quaternion is zero -/
theorem deriv_masked_when_pole_quatReciprocal (dx x r : VCell K) (h : quatReciprocalDeriv dx x = ok r) :
    r.m = (x.m || dx.m || isZero (sumSq x.vals)) := by
  unfold quatReciprocalDeriv at h
  have e := reciprocal_true_nonzero _ (maskWhere_zero_nonzero (⟨sumSq x.vals, x.m⟩ : Cell K))
  dsimp only at e
  simp only [e, bind_ok, ok.injEq] at h
  subst h
  simp only [mul, maskWhere]
  by_cases hz : isZero (sumSq x.vals) = true
  · simp [hz]
  · cases x.m <;> cases dx.m <;> simp [hz]

/-! ### fast paths (check=False / nozeros=True): `ok` or the documented ValueError, never a
    warning; they raise exactly when an UNMASKED element is outside the domain — whatever is
    hidden underneath the mask, and whether or not the first attempt tripped -/

theorem asError_ne_warn {α} (t : Trap α) (w : Warn) : t.asError ≠ warn w := by
  cases t <;> simp [asError]

theorem bind_ok_ne_warn {α β} (t : Trap α) (f : α → β) (w : Warn) (h : ∀ w, t ≠ warn w) :
    (t >>= fun a => ok (f a)) ≠ warn w := by
  cases t with
  | ok a => simp
  | warn w' => exact absurd rfl (h w')
  | raise => simp

theorem bind_ok_eq_raise {α β} (t : Trap α) (f : α → β) :
    (t >>= fun a => ok (f a)) = raise ↔ t = raise := by
  cases t <;> simp

theorem fastEval_ne_warn (prim : K → Trap K) (safe : K) (t : Bool) (x : Cell K) (w : Warn) :
    fastEval prim safe t x ≠ warn w := by
  unfold fastEval
  cases prim x.v with
  | ok r => cases t <;> simp [asError_ne_warn]
  | warn w' => exact asError_ne_warn _ _
  | raise => exact asError_ne_warn _ _

/-- the heart of the repaired fast paths: with a safe constant inside the domain, the
    re-evaluation raises iff the element is unmasked and outside the domain -/
theorem fastEval_raise_iff (prim : K → Trap K) (safe : K) (hs : (prim safe).isOk = true)
    (hnr : ∀ v, prim v ≠ raise) (t : Bool) (x : Cell K) :
    fastEval prim safe t x = raise ↔ (x.m = false ∧ (prim x.v).isOk = false) := by
  obtain ⟨v, m⟩ := x
  unfold fastEval
  cases hsafe : prim safe with
  | warn w => rw [hsafe] at hs; cases hs
  | raise => rw [hsafe] at hs; cases hs
  | ok sv =>
    cases hx : prim v with
    | ok r => cases t <;> cases m <;> simp [hx, hsafe, asError, isOk]
    | warn w => cases m <;> simp [hx, hsafe, asError, isOk]
    | raise => exact absurd hx (hnr v)

theorem fastEval_unmasked_ok (prim : K → Trap K) (safe : K) (t : Bool) (x : Cell K) (r : K)
    (hm : x.m = false) (h : prim x.v = ok r) : fastEval prim safe t x = ok r := by
  unfold fastEval
  cases t <;> simp [h, hm, asError]

theorem fastEval_masked_ok (prim : K → Trap K) (safe : K) (hs : (prim safe).isOk = true)
    (hnr : ∀ v, prim v ≠ raise) (t : Bool) (x : Cell K) (hm : x.m = true) :
    (fastEval prim safe t x).isOk = true := by
  have h1 := fastEval_ne_warn prim safe t x
  have h2 : fastEval prim safe t x ≠ raise := fun e => by
    have := (fastEval_raise_iff prim safe hs hnr t x).1 e
    simp [hm] at this
  cases h : fastEval prim safe t x with
  | ok r => rfl
  | warn w => exact absurd h (h1 w)
  | raise => exact absurd h h2

theorem pdiv_ne_raise (a v : K) : pdiv a v ≠ raise := by unfold pdiv; split <;> simp
theorem psqrt_ne_raise (F : Fns K) (v : K) : psqrt F v ≠ raise := by unfold psqrt; split <;> simp
theorem plog_ne_raise (F : Fns K) (v : K) : plog F v ≠ raise := by
  unfold plog; split <;> (try split) <;> simp
theorem pexp_ne_raise (F : Fns K) (v : K) : pexp F v ≠ raise := by unfold pexp; split <;> simp
theorem pasin_ne_raise (F : Fns K) (v : K) : pasin F v ≠ raise := by unfold pasin; split <;> simp
theorem pacos_ne_raise (F : Fns K) (v : K) : pacos F v ≠ raise := by unfold pacos; split <;> simp

theorem pdiv_isOk (a v : K) : (pdiv a v).isOk = !isZero v := by
  unfold pdiv; by_cases h : isZero v = true <;> simp [h, isOk]
theorem psqrt_isOk (F : Fns K) (v : K) : (psqrt F v).isOk = !lt v zero := by
  unfold psqrt; by_cases h : lt v zero = true <;> simp [h, isOk]
theorem plog_isOk (F : Fns K) (v : K) : (plog F v).isOk = !le v zero := by
  unfold plog le isZero
  by_cases h1 : Num.eq v zero = true <;> by_cases h2 : lt v zero = true <;> simp [h1, h2, isOk]
theorem pexp_isOk (F : Fns K) (v : K) : (pexp F v).isOk = !gt v F.expMax := by
  unfold pexp gt; by_cases h : lt F.expMax v = true <;> simp [h, isOk]
theorem pasin_isOk (F : Fns K) (acos : Bool) (v : K) :
    ((if acos then pacos F else pasin F) v).isOk = !(lt v (-one) || gt v one) := by
  unfold pasin pacos gt
  by_cases h : (lt v (-one) || lt one v) = true <;> cases acos <;> simp [h, isOk]

theorem fastpath_only_valueerror_reciprocal (t : Bool) (x : Cell K) (w : Warn) :
    reciprocalFast t x ≠ warn w :=
  bind_ok_ne_warn _ _ w (fastEval_ne_warn _ _ _ _)

theorem fastpath_only_valueerror_sqrt (F : Fns K) (t : Bool) (x : Cell K) (w : Warn) :
    sqrtFast F t x ≠ warn w :=
  bind_ok_ne_warn _ _ w (fastEval_ne_warn _ _ _ _)

theorem fastpath_only_valueerror_log (F : Fns K) (t : Bool) (x : Cell K) (w : Warn) :
    logFast F t x ≠ warn w :=
  bind_ok_ne_warn _ _ w (fastEval_ne_warn _ _ _ _)

theorem fastpath_only_valueerror_exp (F : Fns K) (t : Bool) (x : Cell K) (w : Warn) :
    expFast F t x ≠ warn w :=
  bind_ok_ne_warn _ _ w (fastEval_ne_warn _ _ _ _)

theorem fastpath_only_valueerror_arcsin (F : Fns K) (acos : Bool) (t : Bool) (x : Cell K) (w : Warn) :
    arcsinFast F acos t x ≠ warn w :=
  bind_ok_ne_warn _ _ w (fastEval_ne_warn _ _ _ _)

theorem fastpath_only_valueerror_matInverse (L : Lapack K) (x : VCell K) (w : Warn) :
    matInverse L true x ≠ warn w := by
  unfold matInverse
  simp only [if_true]
  exact bind_ok_ne_warn _ _ w (asError_ne_warn _)

/-- the shape-() forms (`check=false` argument of the main definitions) are instances -/
theorem fastpath_only_valueerror_shapeless (F : Fns K) (acos : Bool) (x : Cell K) (w : Warn) :
    reciprocal true x ≠ warn w ∧ sqrt F false x ≠ warn w ∧ log F false x ≠ warn w ∧
    exp F false x ≠ warn w ∧ arcsin F acos false x ≠ warn w := by
  refine ⟨?_, ?_, ?_, ?_, ?_⟩
  · unfold reciprocal; simp only [if_true]; exact fastpath_only_valueerror_reciprocal _ _ _
  · unfold sqrt; simp only [Bool.false_eq_true, if_false]; exact fastpath_only_valueerror_sqrt _ _ _ _
  · unfold log; simp only [Bool.false_eq_true, if_false]; exact fastpath_only_valueerror_log _ _ _ _
  · unfold exp; simp only [Bool.false_eq_true, if_false]; exact fastpath_only_valueerror_exp _ _ _ _
  · unfold arcsin; simp only [Bool.false_eq_true, if_false]; exact fastpath_only_valueerror_arcsin _ _ _ _ _

/-- raise ⇔ an UNMASKED value is outside the domain (independent of hidden values and of `t`) -/
theorem fastpath_raises_iff_reciprocal (t : Bool) (x : Cell K) :
    reciprocalFast t x = raise ↔ (x.m = false ∧ isZero x.v = true) := by
  unfold reciprocalFast
  rw [bind_ok_eq_raise, fastEval_raise_iff _ _ (by simp [pdiv_isOk, isZero_one]) (pdiv_ne_raise one)]
  simp [pdiv_isOk]

theorem fastpath_raises_iff_sqrt (F : Fns K) (t : Bool) (x : Cell K) :
    sqrtFast F t x = raise ↔ (x.m = false ∧ lt x.v zero = true) := by
  unfold sqrtFast
  rw [bind_ok_eq_raise, fastEval_raise_iff _ _ (by simp [psqrt_isOk, lt_one_zero]) (psqrt_ne_raise F)]
  simp [psqrt_isOk]

theorem fastpath_raises_iff_log (F : Fns K) (t : Bool) (x : Cell K) :
    logFast F t x = raise ↔ (x.m = false ∧ le x.v zero = true) := by
  unfold logFast
  rw [bind_ok_eq_raise, fastEval_raise_iff _ _ (by simp [plog_isOk, le_one_zero]) (plog_ne_raise F)]
  simp [plog_isOk]

theorem fastpath_raises_iff_exp (F : Fns K) (hmax : lt F.expMax zero = false) (t : Bool) (x : Cell K) :
    expFast F t x = raise ↔ (x.m = false ∧ gt x.v F.expMax = true) := by
  unfold expFast
  rw [bind_ok_eq_raise, fastEval_raise_iff _ _ (by simp [pexp_isOk, gt, hmax]) (pexp_ne_raise F)]
  simp [pexp_isOk]

theorem fastpath_raises_iff_arcsin (F : Fns K) (acos : Bool) (t : Bool) (x : Cell K) :
    arcsinFast F acos t x = raise ↔ (x.m = false ∧ (lt x.v (-one) || gt x.v one) = true) := by
  have z := (NumLaws.zero_in_unit : lt (zero : K) (-one) = false ∧ lt (one : K) zero = false)
  unfold arcsinFast
  rw [bind_ok_eq_raise, fastEval_raise_iff _ _ (by simp [pasin_isOk, gt, z.1, z.2])
    (by cases acos <;> simp [pasin_ne_raise, pacos_ne_raise])]
  simp only [pasin_isOk]
  generalize lt x.v (-one) = a
  generalize gt x.v one = b
  cases a <;> cases b <;> simp

/-- a masked element never makes a fast path fail, whatever value is hidden under the mask -/
theorem fastpath_masked_ok_sqrt (F : Fns K) (t : Bool) (x : Cell K) (hm : x.m = true) :
    ∃ r, sqrtFast F t x = ok ⟨r, true⟩ := by
  have h := fastEval_masked_ok (psqrt F) one (by simp [psqrt_isOk, lt_one_zero]) (psqrt_ne_raise F) t x hm
  unfold sqrtFast
  cases hf : fastEval (psqrt F) one t x with
  | ok r => exact ⟨r, by simp [hm]⟩
  | warn w => rw [hf] at h; cases h
  | raise => rw [hf] at h; cases h

theorem fastpath_masked_ok_reciprocal (t : Bool) (x : Cell K) (hm : x.m = true) :
    ∃ r, reciprocalFast t x = ok ⟨r, true⟩ := by
  have h := fastEval_masked_ok (pdiv one) one (by simp [pdiv_isOk, isZero_one]) (pdiv_ne_raise one) t x hm
  unfold reciprocalFast
  cases hf : fastEval (pdiv (one : K)) one t x with
  | ok r => exact ⟨r, by simp [hm]⟩
  | warn w => rw [hf] at h; cases h
  | raise => rw [hf] at h; cases h

/-- an unmasked element inside the domain gets the reference value -/
theorem fastpath_value_sqrt (F : Fns K) (t : Bool) (x : Cell K) (hm : x.m = false)
    (hd : lt x.v zero = false) : sqrtFast F t x = ok ⟨F.sqrt x.v, false⟩ := by
  unfold sqrtFast
  rw [fastEval_unmasked_ok _ _ _ _ (F.sqrt x.v) hm (by simp [psqrt, hd])]
  simp [hm]

theorem fastpath_value_reciprocal (t : Bool) (x : Cell K) (hm : x.m = false)
    (hd : isZero x.v = false) : reciprocalFast t x = ok ⟨one / x.v, false⟩ := by
  unfold reciprocalFast
  rw [fastEval_unmasked_ok _ _ _ _ (one / x.v) hm (by simp [pdiv, hd])]
  simp [hm]

/-! ### the value types used by the driver satisfy the laws -/

instance : NumLaws Int where
  eq_iff x y := by simp [Num.eq]
  one_ne_zero := by decide
  not_one_lt_zero := by decide
  zero_in_unit := by decide
  lt_irrefl x := by simp [Num.lt]
  sq_nonneg x := by
    simp only [Num.lt, Num.zero, decide_eq_false_iff_not, Int.not_lt]
    rcases Int.le_total 0 x with h | h
    · exact Int.mul_nonneg h h
    · have e : x * x = (-x) * (-x) := by rw [Int.neg_mul_neg]
      rw [e]; exact Int.mul_nonneg (by omega) (by omega)
  add_nonneg x y hx hy := by
    simp only [Num.lt, Num.zero, decide_eq_false_iff_not, Int.not_lt] at *
    omega

instance : NumLaws Rat where
  eq_iff x y := by simp [Num.eq]
  one_ne_zero := by decide
  not_one_lt_zero := by decide
  zero_in_unit := by decide
  lt_irrefl x := by simp [Num.lt, Rat.lt_irrefl]
  sq_nonneg x := by
    simp only [Num.lt, Num.zero, decide_eq_false_iff_not, Rat.not_lt]
    rcases Rat.le_total (a := 0) (b := x) with h | h
    · exact Rat.mul_nonneg h h
    · have e : x * x = (-x) * (-x) := by grind
      have hn : (0 : Rat) ≤ -x := by grind
      rw [e]; exact Rat.mul_nonneg hn hn
  add_nonneg x y hx hy := by
    simp only [Num.lt, Num.zero, decide_eq_false_iff_not, Rat.not_lt] at *
    exact Rat.add_nonneg hx hy

/-! ### non-vacuity -/
example : divByScalar (K := Int) ⟨6, false⟩ ⟨0, false⟩ = ok ⟨6, true⟩ := by decide
example : divByScalar (K := Int) ⟨6, false⟩ ⟨3, false⟩ = ok ⟨2, false⟩ := by decide
example : reciprocal (K := Int) true ⟨0, true⟩ = ok ⟨1, true⟩ := by decide
example : reciprocal (K := Int) true ⟨0, false⟩ = raise := by decide
example : sqrtFast (K := Int) ⟨id, id, id, id, id, id, id, id, id, fun a _ => a, fun a _ => a, 5⟩ true ⟨-4, true⟩ = ok ⟨1, true⟩ := by decide
example : pdiv (6 : Int) 0 = warn .divZero := by decide

end PMV.Elem
