import PMV.Model.Algebra
import PMV.Lemmas.AlgebraMat3
import PMV.Lemmas.AlgebraEuler
import PMV.Lemmas.AlgebraQuat
import PMV.Lemmas.AlgebraMat3T
import PMV.Lemmas.AlgebraSum
import PMV.Lemmas.AlgebraIndex
import PMV.Lemmas.AlgebraRoll
import PMV.Lemmas.AlgebraQEuler
import PMV.Lemmas.AlgebraSO3
import PMV.Lemmas.AlgebraToEuler
import PMV.Lemmas.AlgebraToEulerGimbal
import Mathlib.Tactic.Linarith
import Mathlib.Tactic.Ring
import Mathlib.Tactic.LinearCombination
import Mathlib.Tactic.FieldSimp
/-
  C16 — vector, matrix, rotation and quaternion operations satisfy their algebra.

  Theorems about the code-shaped definitions of PMV/Model/Algebra.lean (the ones the driver
  executes), in an arbitrary commutative ring / field `K`.  Square roots, sines and cosines
  enter only through the contracts `n * n = ‖v‖²`, `s * s + c * c = 1`, `√2 * √2 = 2`.
-/
namespace PMV.Algebra

/-! ## dot / matrix product: the axis bookkeeping (math_ops.py:165-245) -/
section dot
variable {K : Type} [Add K] [Mul K] [Zero K]

/-- **dot_eq_einsum.** `Qube.dot(arg1, arg2, axis1, axis2)` with its reshape / rollaxis / broadcast-multiply /
    sum bookkeeping equals the index-sum reference, for every numerator rank, every (possibly
    negative) axis pair, every axis length and every denominator:
    result[o1 ++ o2 ++ d1 ++ d2] = Σ_t a[o1 with t inserted at a1 ++ d1] · b[o2 with t inserted at a2 ++ d2]. -/
theorem dot_eq_einsum (a b : Item K) (ax1 ax2 : Int) (a1 a2 : Nat)
    (h1 : normAx a.numer.length ax1 = some a1) (h2 : normAx b.numer.length ax2 = some a2)
    (hd : ¬ (a.denom.length ≠ 0 ∧ b.denom.length ≠ 0))
    (hn : a.numer.getD a1 0 = b.numer.getD a2 0) :
    ∃ r, dotItem a b ax1 ax2 = .ok r ∧
      r.numer = a.numer.eraseIdx a1 ++ b.numer.eraseIdx a2 ∧ r.denom = a.denom ++ b.denom ∧
      ∀ o1 o2 d1 d2, Valid (a.numer.eraseIdx a1) o1 → Valid (b.numer.eraseIdx a2) o2 →
        Valid a.denom d1 → Valid b.denom d2 →
        r.get (o1 ++ o2 ++ d1 ++ d2) = einsumRef a b a1 a2 o1 o2 d1 d2 := by
  have l1 := normAx_lt h1
  have l2 := normAx_lt h2
  -- shapes of the two padded-and-rolled arrays, as blocks
  have eA : (a.numer.eraseIdx a1).length = a.numer.length - 1 := by simp [List.length_eraseIdx, l1]
  have eB : (b.numer.eraseIdx a2).length = b.numer.length - 1 := by simp [List.length_eraseIdx, l2]
  have s1 : (rollEnd a1 (pad1 a (b.numer.length - 1) b.denom.length)).shape =
      a.numer.eraseIdx a1 ++ List.replicate (b.numer.eraseIdx a2).length 1 ++ a.denom
        ++ List.replicate b.denom.length 1 ++ [a.numer.getD a1 0] := by
    simp only [rollEnd, pad1, eB]
    have := eraseIdx_mid [] a.numer (List.replicate (b.numer.length - 1) 1 ++ a.denom ++ List.replicate b.denom.length 1) a1 l1
    have g := getD_mid [] a.numer (List.replicate (b.numer.length - 1) 1 ++ a.denom ++ List.replicate b.denom.length 1) a1 1 l1
    simp only [List.nil_append, List.length_nil, Nat.add_zero, ← List.append_assoc] at this g
    rw [this, g, getD_eq_of_lt l1 1 0]
  have s2 : (rollEnd (a2 + (a.numer.length - 1)) (pad2 b (a.numer.length - 1) a.denom.length)).shape =
      List.replicate (a.numer.eraseIdx a1).length 1 ++ b.numer.eraseIdx a2 ++ List.replicate a.denom.length 1
        ++ b.denom ++ [a.numer.getD a1 0] := by
    simp only [rollEnd, pad2, eA]
    have := eraseIdx_mid (List.replicate (a.numer.length - 1) 1) b.numer (List.replicate a.denom.length 1 ++ b.denom) a2 l2
    have g := getD_mid (List.replicate (a.numer.length - 1) 1) b.numer (List.replicate a.denom.length 1 ++ b.denom) a2 1 l2
    simp only [List.length_replicate, ← List.append_assoc] at this g
    rw [this, g, getD_eq_of_lt l2 1 0, hn]
  have hb := bshape_blocks (a.numer.eraseIdx a1) (b.numer.eraseIdx a2) a.denom b.denom (a.numer.getD a1 0)
  have hnn : a.numer.length + b.numer.length - 2 = (a.numer.eraseIdx a1 ++ b.numer.eraseIdx a2).length := by
    simp only [List.length_append, eA, eB]; omega
  unfold dotItem
  rw [if_neg hd]
  simp only [h1, h2]
  rw [if_neg (not_not.mpr hn)]
  simp only [mulB, s1, s2, hb, Option.map_some, sumLast, List.dropLast_concat, List.getLastD_concat, hnn]
  refine ⟨_, rfl, ?_, ?_, ?_⟩
  · rw [List.append_assoc (a.numer.eraseIdx a1 ++ b.numer.eraseIdx a2)]; exact take_len_append _ _
  · rw [List.append_assoc (a.numer.eraseIdx a1 ++ b.numer.eraseIdx a2)]; exact drop_len_append _ _
  · intro o1 o2 d1 d2 v1 v2 v3 v4
    simp only [einsumRef]
    apply sumRange_congr
    intro t ht
    rw [bz_blocks1 _ _ _ _ _ _ _ _ _ _ v1 v2 v3 v4 ht, bz_blocks2 _ _ _ _ _ _ _ _ _ _ v1 v2 v3 v4 ht]
    simp only [rollEnd, pad1, pad2, List.dropLast_concat, List.getLastD_concat]
    have lo1 := valid_length v1; have lo2 := valid_length v2; have ld1 := valid_length v3; have ld2 := valid_length v4
    have i1 : insAt a1 t (o1 ++ List.replicate (b.numer.eraseIdx a2).length 0 ++ d1 ++ List.replicate b.denom.length 0)
        = insAt a1 t o1 ++ List.replicate (b.numer.eraseIdx a2).length 0 ++ d1 ++ List.replicate b.denom.length 0 := by
      rw [List.append_assoc, List.append_assoc, insAt_append_left (by omega)]; simp [List.append_assoc]
    have i2 : insAt (a2 + (a.numer.length - 1)) t
          (List.replicate (a.numer.eraseIdx a1).length 0 ++ o2 ++ List.replicate a.denom.length 0 ++ d2)
        = List.replicate (a.numer.eraseIdx a1).length 0 ++ insAt a2 t o2 ++ List.replicate a.denom.length 0 ++ d2 := by
      have : a2 + (a.numer.length - 1) = (List.replicate (a.numer.eraseIdx a1).length 0).length + a2 := by
        simp [eA]; omega
      rw [this, List.append_assoc, List.append_assoc, insAt_append_right, insAt_append_left (by omega)]; simp [List.append_assoc]
    rw [i1, i2]
    rw [pick1 _ _ _ _ _ _ _ (by rw [length_insAt (by omega)]; omega) (by simp [eB]) ld1]
    rw [pick2 _ _ _ _ _ _ _ (by simp [eA]) (by rw [length_insAt (by omega)]; omega) (by simp)]
end dot



section corollaries
variable {K : Type} [Add K] [Mul K] [Zero K]

/-- a matrix / vector element as an `Item` -/
def matItem (m k : Nat) (f : Mat K) : Item K := ⟨[m, k], [], fun i => f (i.getD 0 0) (i.getD 1 0)⟩
def vecItem (n : Nat) (f : Nat → K) : Item K := ⟨[n], [], fun i => f (i.getD 0 0)⟩

/-- **matmul_eq_ref.** `Matrix * Matrix` (`Qube.dot(self, arg, -1, 0)`, qube.py:3149) is the index-sum
    matrix product for rectangular operands of every size -/
theorem matmul_eq_ref (m k n : Nat) (A B : Mat K) :
    ∃ r, dotItem (matItem m k A) (matItem k n B) (-1) 0 = .ok r ∧ r.numer = [m, n] ∧ r.denom = [] ∧
      ∀ i j, i < m → j < n → r.get [i, j] = Mat.mul k A B i j := by
  obtain ⟨r, hr, hnum, hden, hv⟩ := dot_eq_einsum (matItem m k A) (matItem k n B) (-1) 0 1 0
    (by simp [matItem, normAx]) (by simp [matItem, normAx]) (by simp [matItem]) (by simp [matItem])
  refine ⟨r, hr, by simpa [matItem] using hnum, by simpa [matItem] using hden, ?_⟩
  intro i j hi hj
  have := hv [i] [j] [] [] (by simp [matItem, Valid, hi]) (by simp [matItem, Valid, hj]) (by simp [matItem, Valid]) (by simp [matItem, Valid])
  simpa [einsumRef, matItem, insAt, Mat.mul] using this

/-- `Matrix * Vector` and `Matrix3.rotate` (`dot(self, arg, -1, 0)`): Σ_t M[i,t] v[t] -/
theorem matvec_eq_ref (m k : Nat) (A : Mat K) (v : Nat → K) :
    ∃ r, dotItem (matItem m k A) (vecItem k v) (-1) 0 = .ok r ∧ r.numer = [m] ∧
      ∀ i, i < m → r.get [i] = Mat.app k A v i := by
  obtain ⟨r, hr, hnum, _, hv⟩ := dot_eq_einsum (matItem m k A) (vecItem k v) (-1) 0 1 0
    (by simp [matItem, normAx]) (by simp [vecItem, normAx]) (by simp [matItem]) (by simp [matItem, vecItem])
  refine ⟨r, hr, by simpa [matItem, vecItem] using hnum, ?_⟩
  intro i hi
  have := hv [i] [] [] [] (by simp [matItem, Valid, hi]) (by simp [vecItem, Valid]) (by simp [matItem, Valid]) (by simp [vecItem, Valid])
  simpa [einsumRef, matItem, vecItem, insAt, Mat.app] using this

/-- `Matrix3.unrotate` (`dot(self, arg, -2, 0)`): Σ_t M[t,i] v[t], the model's `unrotate` -/
theorem unrotate_eq_dot (A : Mat K) (v : Nat → K) :
    ∃ r, dotItem (matItem 3 3 A) (vecItem 3 v) (-2) 0 = .ok r ∧ r.numer = [3] ∧
      ∀ i, i < 3 → r.get [i] = unrotate A v i := by
  obtain ⟨r, hr, hnum, _, hv⟩ := dot_eq_einsum (matItem 3 3 A) (vecItem 3 v) (-2) 0 0 0
    (by simp [matItem, normAx]) (by simp [vecItem, normAx]) (by simp [matItem]) (by simp [matItem, vecItem])
  refine ⟨r, hr, by simpa [matItem, vecItem] using hnum, ?_⟩
  intro i hi
  have := hv [i] [] [] [] (by simp [matItem, Valid, hi]) (by simp [vecItem, Valid]) (by simp [matItem, Valid]) (by simp [vecItem, Valid])
  simpa [einsumRef, matItem, vecItem, insAt, unrotate] using this

/-- `Vector.dot` (`dot(self, arg, 0, 0)`) is Σ_t a[t] b[t] for every length -/
theorem vecdot_eq_ref (n : Nat) (a b : Nat → K) :
    ∃ r, dotItem (vecItem n a) (vecItem n b) 0 0 = .ok r ∧ r.numer = [] ∧ r.get [] = vdot n a b := by
  obtain ⟨r, hr, hnum, _, hv⟩ := dot_eq_einsum (vecItem n a) (vecItem n b) 0 0 0 0
    (by simp [vecItem, normAx]) (by simp [vecItem, normAx]) (by simp [vecItem]) (by simp [vecItem])
  refine ⟨r, hr, by simpa [vecItem] using hnum, ?_⟩
  have := hv [] [] [] [] (by simp [vecItem, Valid]) (by simp [vecItem, Valid]) (by simp [vecItem, Valid]) (by simp [vecItem, Valid])
  simpa [einsumRef, vecItem, insAt, vdot] using this

end corollaries


section outer
variable {K : Type} [Mul K]

/-- **outer_eq_ref.** `Qube.outer` with its reshape bookkeeping is the index-product reference
    result[i1 ++ i2 ++ d1 ++ d2] = a[i1 ++ d1] · b[i2 ++ d2], for all numerator ranks, shapes and denominators -/
theorem outer_eq_ref (a b : Item K) (hd : ¬ (a.denom.length ≠ 0 ∧ b.denom.length ≠ 0)) :
    ∃ r, outerItem a b = .ok r ∧ r.numer = a.numer ++ b.numer ∧ r.denom = a.denom ++ b.denom ∧
      ∀ i1 i2 d1 d2, Valid a.numer i1 → Valid b.numer i2 → Valid a.denom d1 → Valid b.denom d2 →
        r.get (i1 ++ i2 ++ d1 ++ d2) = a.get (i1 ++ d1) * b.get (i2 ++ d2) := by
  have hb : bshape (a.numer ++ List.replicate b.numer.length 1 ++ a.denom ++ List.replicate b.denom.length 1)
      (List.replicate a.numer.length 1 ++ b.numer ++ List.replicate a.denom.length 1 ++ b.denom)
      = some (a.numer ++ b.numer ++ a.denom ++ b.denom) := by
    rw [bshape_append (by simp), bshape_append (by simp), bshape_append (by simp)]
    simp [bshape_ones_right, bshape_ones_left]
  unfold outerItem
  rw [if_neg hd]
  simp only [mulB, pad1, pad2, hb, Option.map_some]
  refine ⟨_, rfl, ?_, ?_, ?_⟩
  · rw [List.append_assoc (a.numer ++ b.numer), ← List.length_append]; exact take_len_append _ _
  · rw [List.append_assoc (a.numer ++ b.numer), ← List.length_append]; exact drop_len_append _ _
  · intro i1 i2 d1 d2 v1 v2 v3 v4
    have l1 := valid_length v1; have l2 := valid_length v2; have l3 := valid_length v3; have l4 := valid_length v4
    have z1 : bz (a.numer ++ List.replicate b.numer.length 1 ++ a.denom ++ List.replicate b.denom.length 1)
        (i1 ++ i2 ++ d1 ++ d2) = i1 ++ List.replicate b.numer.length 0 ++ d1 ++ List.replicate b.denom.length 0 := by
      rw [bz_append (by (try simp only [List.length_append, List.length_replicate]); omega),
          bz_append (by (try simp only [List.length_append, List.length_replicate]); omega), bz_append (by omega),
          bz_valid v1, bz_valid v3, bz_ones l2, bz_ones l4]
    have z2 : bz (List.replicate a.numer.length 1 ++ b.numer ++ List.replicate a.denom.length 1 ++ b.denom)
        (i1 ++ i2 ++ d1 ++ d2) = List.replicate a.numer.length 0 ++ i2 ++ List.replicate a.denom.length 0 ++ d2 := by
      rw [bz_append (by (try simp only [List.length_append, List.length_replicate]); omega),
          bz_append (by (try simp only [List.length_append, List.length_replicate]); omega),
          bz_append (by simp only [List.length_replicate]; omega),
          bz_valid v2, bz_valid v4, bz_ones l1, bz_ones l3]
    dsimp only
    rw [z1, z2]
    rw [pick1 _ _ _ _ _ _ _ l1 (by simp) l3, pick2 _ _ _ _ _ _ _ (by simp) l2 (by simp)]

end outer


section cross
variable {K : Type} [Mul K] [Sub K]

/-- the special case `Vector.cross` uses (`cross(self, arg, 0, 0)` on plain vectors), evaluated directly:
    the reshape / roll / `cross_3x3` / roll-back pipeline yields the textbook cross product, and for
    2-vectors `cross_2x2` yields the scalar a₀b₁ − a₁b₀ -/
theorem cross_vectors_eq_ref (a b : Nat → K) :
    (∃ r, crossItem (vecItem 3 a) (vecItem 3 b) 0 0 = .ok r ∧ r.numer = [3] ∧ r.denom = [] ∧
      r.get [0] = a 1 * b 2 - a 2 * b 1 ∧ r.get [1] = a 2 * b 0 - a 0 * b 2 ∧ r.get [2] = a 0 * b 1 - a 1 * b 0) ∧
    (∃ r, crossItem (vecItem 2 a) (vecItem 2 b) 0 0 = .ok r ∧ r.numer = [] ∧ r.denom = [] ∧
      r.get [] = a 0 * b 1 - a 1 * b 0) := by
  constructor
  · refine ⟨_, by simp [crossItem, vecItem, normAx, cross3, bshape, rollEnd, pad1, pad2]; rfl, ?_⟩
    simp [rollFromEnd, insAt, bz, rollEnd, pad1, pad2, vecItem]
  · refine ⟨_, by simp [crossItem, vecItem, normAx, cross2, bshape, rollEnd, pad1, pad2]; rfl, ?_⟩
    simp [insAt, bz, rollEnd, pad1, pad2, vecItem]
end cross


section crossfull
variable {K : Type} [Mul K] [Sub K]

/-- the textbook cross product component `c` of two 3-vectors given as functions of the axis index -/
def crossRef (f g : Nat → K) (c : Nat) : K :=
  match c with
  | 0 => f 1 * g 2 - f 2 * g 1
  | 1 => f 2 * g 0 - f 0 * g 2
  | _ => f 0 * g 1 - f 1 * g 0

/-- **cross_eq_ref.** `Qube.cross(arg1, arg2, axis1, axis2)` with its reshape / rollaxis / `cross_3x3` /
    roll-back (resp. `cross_2x2`) bookkeeping equals the Levi-Civita reference for every numerator rank, every
    axis pair, and every denominator: for axis length 3 the new axis sits at position a1,
    result[o1 with c at a1 ++ o2 ++ d1 ++ d2] = (a[o1 with · at a1 ++ d1] × b[o2 with · at a2 ++ d2])_c ;
    for axis length 2 the axis disappears and the result is a₀b₁ − a₁b₀. -/
theorem cross_eq_ref (a b : Item K) (ax1 ax2 : Int) (a1 a2 : Nat)
    (h1 : normAx a.numer.length ax1 = some a1) (h2 : normAx b.numer.length ax2 = some a2)
    (hd : ¬ (a.denom.length ≠ 0 ∧ b.denom.length ≠ 0))
    (hn : a.numer.getD a1 0 = b.numer.getD a2 0) :
    (a.numer.getD a1 0 = 3 →
      ∃ r, crossItem a b ax1 ax2 = .ok r ∧
        r.numer = insAt a1 3 (a.numer.eraseIdx a1) ++ b.numer.eraseIdx a2 ∧ r.denom = a.denom ++ b.denom ∧
        ∀ c o1 o2 d1 d2, c < 3 → Valid (a.numer.eraseIdx a1) o1 → Valid (b.numer.eraseIdx a2) o2 →
          Valid a.denom d1 → Valid b.denom d2 →
          r.get (insAt a1 c o1 ++ o2 ++ d1 ++ d2) =
            crossRef (fun k => a.get (insAt a1 k o1 ++ d1)) (fun k => b.get (insAt a2 k o2 ++ d2)) c) ∧
    (a.numer.getD a1 0 = 2 →
      ∃ r, crossItem a b ax1 ax2 = .ok r ∧
        r.numer = a.numer.eraseIdx a1 ++ b.numer.eraseIdx a2 ∧ r.denom = a.denom ++ b.denom ∧
        ∀ o1 o2 d1 d2, Valid (a.numer.eraseIdx a1) o1 → Valid (b.numer.eraseIdx a2) o2 →
          Valid a.denom d1 → Valid b.denom d2 →
          r.get (o1 ++ o2 ++ d1 ++ d2) =
            a.get (insAt a1 0 o1 ++ d1) * b.get (insAt a2 1 o2 ++ d2)
              - a.get (insAt a1 1 o1 ++ d1) * b.get (insAt a2 0 o2 ++ d2)) := by
  have l1 := normAx_lt h1
  have l2 := normAx_lt h2
  have eA : (a.numer.eraseIdx a1).length = a.numer.length - 1 := by simp [List.length_eraseIdx, l1]
  have eB : (b.numer.eraseIdx a2).length = b.numer.length - 1 := by simp [List.length_eraseIdx, l2]
  have s1 := roll_shape1 a b a1 l1 (b.numer.eraseIdx a2) eB
  have s2 := roll_shape2 a b a2 l2 (a.numer.eraseIdx a1) eA
  rw [← hn] at s2
  have hb := bshape_blocks (a.numer.eraseIdx a1) (b.numer.eraseIdx a2) a.denom b.denom (a.numer.getD a1 0)
  constructor
  · intro h3
    have hA1 : a1 ≤ (a.numer.eraseIdx a1).length := by omega
    have hnn : a.numer.length + b.numer.length - 1 =
        (insAt a1 3 (a.numer.eraseIdx a1) ++ b.numer.eraseIdx a2).length := by
      simp only [List.length_append, length_insAt hA1, eA, eB]; omega
    have hsh : insAt a1 3 (a.numer.eraseIdx a1 ++ b.numer.eraseIdx a2 ++ a.denom ++ b.denom)
        = insAt a1 3 (a.numer.eraseIdx a1) ++ b.numer.eraseIdx a2 ++ (a.denom ++ b.denom) := by
      rw [List.append_assoc, List.append_assoc, insAt_append_left hA1]; simp [List.append_assoc]
    unfold crossItem
    rw [if_neg hd]
    simp only [h1, h2]
    rw [if_neg (by rw [← hn, h3]; simp)]
    rw [if_pos h3]
    rw [h3] at s1 s2 hb
    simp only [cross3, s1, s2, hb, Option.map_some, rollFromEnd, List.dropLast_concat, List.getLastD_concat, hsh, hnn]
    refine ⟨_, rfl, take_len_append _ _, drop_len_append _ _, ?_⟩
    intro c o1 o2 d1 d2 hc v1 v2 v3 v4
    have lo1 := valid_length v1
    have e1 : (insAt a1 c o1 ++ o2 ++ d1 ++ d2).eraseIdx a1 = o1 ++ o2 ++ d1 ++ d2 := by
      rw [List.append_assoc, List.append_assoc, List.eraseIdx_append_of_lt_length (by rw [length_insAt (by omega)]; omega),
          eraseIdx_insAt (by omega)]; simp [List.append_assoc]
    have e2 : (insAt a1 c o1 ++ o2 ++ d1 ++ d2).getD a1 0 = c := by
      rw [List.append_assoc, List.append_assoc]
      simp only [List.getD]
      rw [List.getElem?_append_left (by rw [length_insAt (by omega)]; omega)]
      exact getD_insAt (by omega)
    dsimp only
    rw [e1, e2]
    try simp only [List.dropLast_concat, List.getLastD_concat]
    have g1 : ∀ t, t < 3 → (rollEnd a1 (pad1 a (b.numer.length - 1) b.denom.length)).get
        (bz (a.numer.eraseIdx a1 ++ List.replicate (b.numer.eraseIdx a2).length 1 ++ a.denom ++
          List.replicate b.denom.length 1 ++ [3]) (o1 ++ o2 ++ d1 ++ d2 ++ [t])) = a.get (insAt a1 t o1 ++ d1) := by
      intro t ht
      rw [bz_blocks1 _ _ _ _ _ t _ _ _ _ v1 v2 v3 v4 ht, roll_get1 a b a1 t l1 _ b.denom eB rfl o1 d1 v1 v3]
    have g2 : ∀ t, t < 3 → (rollEnd (a2 + (a.numer.length - 1)) (pad2 b (a.numer.length - 1) a.denom.length)).get
        (bz (List.replicate (a.numer.eraseIdx a1).length 1 ++ b.numer.eraseIdx a2 ++ List.replicate a.denom.length 1 ++
          b.denom ++ [3]) (o1 ++ o2 ++ d1 ++ d2 ++ [t])) = b.get (insAt a2 t o2 ++ d2) := by
      intro t ht
      rw [bz_blocks2 _ _ _ _ _ t _ _ _ _ v1 v2 v3 v4 ht, roll_get2 a b a2 t l2 _ a.denom eA rfl o2 d2 v2 v4]
    match c, hc with
    | 0, _ => simp only [crossRef, g1 1 (by omega), g1 2 (by omega), g2 1 (by omega), g2 2 (by omega)]
    | 1, _ => simp only [crossRef, g1 0 (by omega), g1 2 (by omega), g2 0 (by omega), g2 2 (by omega)]
    | 2, _ => simp only [crossRef, g1 0 (by omega), g1 1 (by omega), g2 0 (by omega), g2 1 (by omega)]
  · intro h2'
    have hnn : a.numer.length + b.numer.length - 2 = (a.numer.eraseIdx a1 ++ b.numer.eraseIdx a2).length := by
      simp only [List.length_append, eA, eB]; omega
    unfold crossItem
    rw [if_neg hd]
    simp only [h1, h2]
    rw [if_neg (by rw [← hn, h2']; simp)]
    rw [if_neg (by rw [h2']; simp)]
    simp only [cross2, s1, s2, hb, Option.map_some, List.dropLast_concat, hnn]
    refine ⟨_, rfl, ?_, ?_, ?_⟩
    · rw [List.append_assoc (a.numer.eraseIdx a1 ++ b.numer.eraseIdx a2)]; exact take_len_append _ _
    · rw [List.append_assoc (a.numer.eraseIdx a1 ++ b.numer.eraseIdx a2)]; exact drop_len_append _ _
    · intro o1 o2 d1 d2 v1 v2 v3 v4
      dsimp only
      rw [bz_blocks1 _ _ _ _ _ 0 _ _ _ _ v1 v2 v3 v4 (by omega), bz_blocks2 _ _ _ _ _ 1 _ _ _ _ v1 v2 v3 v4 (by omega),
          bz_blocks1 _ _ _ _ _ 1 _ _ _ _ v1 v2 v3 v4 (by omega), bz_blocks2 _ _ _ _ _ 0 _ _ _ _ v1 v2 v3 v4 (by omega)]
      rw [roll_get1 a b a1 0 l1 _ b.denom eB rfl o1 d1 v1 v3, roll_get1 a b a1 1 l1 _ b.denom eB rfl o1 d1 v1 v3,
          roll_get2 a b a2 0 l2 _ a.denom eA rfl o2 d2 v2 v4, roll_get2 a b a2 1 l2 _ a.denom eA rfl o2 d2 v2 v4]
end crossfull

/-! ## Matrix.inverse (matrix.py:321-366): the masking decision, LAPACK as a parameter -/
section inverse
variable {K : Type} [CommRing K] [DecidableEq K]

/-- what is assumed of `np.linalg.det` / `np.linalg.inv` on n×n elements: a matrix whose reported
    determinant is non-zero is inverted -/
def LapackContract (L : Lapack K) (n : Nat) : Prop :=
  ∀ m : Mat K, L.det n m ≠ 0 → ∀ r c, r < n → c < n → Mat.mul n m (L.inv n m) r c = Mat.ident r c

/-- **inverse_identity.** wherever the result of `inverse()` is unmasked, M · M⁻¹ = 1; an element is
    masked exactly when the operand was masked or its determinant is reported 0, and such an element is
    replaced by the identity before LAPACK sees it -/
theorem inverse_identity (L : Lapack K) (n : Nat) (hL : LapackContract L n) (m : Mat K) (msk : Bool) :
    ((inverseElem L n m msk).2 = false →
        ∀ r c, r < n → c < n → Mat.mul n m (inverseElem L n m msk).1 r c = Mat.ident r c) ∧
    ((inverseElem L n m msk).2 = (msk || decide (L.det n m = 0))) ∧
    (L.det n m = 0 → (inverseElem L n m msk).1 = L.inv n Mat.ident) := by
  refine ⟨?_, rfl, ?_⟩
  · intro h r c hr hc
    simp only [inverseElem, Bool.or_eq_false_iff, decide_eq_false_iff_not] at h
    simp only [inverseElem, h.2, decide_false, Bool.false_eq_true, ↓reduceIte]
    exact hL m h.2 r c hr hc
  · intro h; simp [inverseElem, h]

/-- `inverse(nozeros=True)`: the mask is the operand's, and M · M⁻¹ = 1 under the caller's promise -/
theorem inverse_nozeros (L : Lapack K) (n : Nat) (hL : LapackContract L n) (m : Mat K) (msk : Bool)
    (h : L.det n m ≠ 0) :
    (inverseElemNozeros L n m msk).2 = msk ∧
    ∀ r c, r < n → c < n → Mat.mul n m (inverseElemNozeros L n m msk).1 r c = Mat.ident r c :=
  ⟨rfl, hL m h⟩

omit [CommRing K] [DecidableEq K] in
/-- the object-level branch `if np.any(det == 0): new_mask = or_(mask, det == 0) else: new_mask = mask`
    gives the element-wise OR in both branches, for every number of elements -/
theorem inverse_masks_eq (masks singular : List Bool) (h : masks.length = singular.length) :
    inverseMasks masks singular = List.zipWith (· || ·) masks singular := by
  unfold inverseMasks
  split
  · rfl
  · rename_i hs
    induction masks generalizing singular with
    | nil => cases singular <;> simp_all
    | cons x xs ih =>
      cases singular with
      | nil => simp at h
      | cons s ss =>
        simp only [List.any_cons, id, Bool.or_eq_true, not_or, Bool.not_eq_true] at hs
        simp only [List.length_cons, Nat.add_right_cancel_iff] at h
        simp only [List.zipWith_cons_cons, hs.1, Bool.or_false]
        rw [← ih ss h (by simp [hs.2])]

/-- the contract is satisfiable (1×1 matrices over ℚ; the driver's exact adjugate inverse satisfies it for n ≤ 4
    and is exercised by the correspondence run) -/
example : LapackContract (K := ℚ) ⟨fun _ m => m 0 0, fun _ m _ _ => 1 / m 0 0⟩ 1 := by
  intro m h r c hr hc
  have h' : m 0 0 ≠ 0 := h
  obtain rfl : r = 0 := by omega
  obtain rfl : c = 0 := by omega
  simp [Mat.mul, sumRange, Mat.ident, h']

end inverse

/-! ## rotations about a principal axis (matrix3.py:139-267) -/
section rotation
variable {K : Type} [CommRing K]

/-- the code's x/y/z_rotation against the textbook matrices: y and z are the counter-clockwise
    rotations, `x_rotation(angle)` is the counter-clockwise rotation by MINUS the angle
    (matrix3.py:155-158 puts +sin above the diagonal) -/
theorem axis_rotation_eq (s c : K) :
    Eq3 (xRot s c) (Rax 0 (SC.neg ⟨s, c⟩)) ∧ Eq3 (yRot s c) (Rax 1 ⟨s, c⟩) ∧ Eq3 (zRot s c) (Rax 2 ⟨s, c⟩) := by
  refine ⟨?_, ?_, ?_⟩ <;> refine forall_lt3_2 ⟨?_, ?_, ?_, ?_, ?_, ?_, ?_, ?_, ?_⟩ <;>
    simp [xRot, yRot, zRot, Rax, Mat.set, Mat.zeros, SC.neg]

/-- the x-rotation is NOT the counter-clockwise rotation its docstring promises (witness: angle π/2,
    s = 1, c = 0 over ℤ): recorded as known finding KF-C16-1 -/
theorem x_rotation_sense_counterexample : ¬ Eq3 (xRot (1 : Int) 0) (Rax 0 ⟨1, 0⟩) := by
  intro h
  have := h 1 2 (by omega) (by omega)
  simp [xRot, Rax, Mat.set, Mat.zeros] at this

theorem sc_neg_unit (s c : K) (h : s * s + c * c = 1) :
    (SC.neg ⟨s, c⟩ : SC K).s * (SC.neg ⟨s, c⟩ : SC K).s + (SC.neg ⟨s, c⟩ : SC K).c * (SC.neg ⟨s, c⟩ : SC K).c = 1 := by
  simp only [SC.neg]; linear_combination h

/-- every axis rotation (any `axis` argument, reduced mod 3 as the code does) is orthonormal … -/
theorem axis_rotation_orthonormal (axis : Nat) (s c : K) (h : s * s + c * c = 1) :
    Orthonormal3 (axisRot axis s c) := by
  obtain ⟨hx, hy, hz⟩ := axis_rotation_eq s c
  unfold axisRot
  split
  · exact hz.orthonormal (rax_orthonormal 2 (by omega) _ h)
  · split
    · exact hx.orthonormal (rax_orthonormal 0 (by omega) _ (sc_neg_unit s c h))
    · exact hy.orthonormal (rax_orthonormal 1 (by omega) _ h)

/-- … with determinant +1 -/
theorem axis_rotation_det_one (axis : Nat) (s c : K) (h : s * s + c * c = 1) :
    det3 (axisRot axis s c) = 1 := by
  obtain ⟨hx, hy, hz⟩ := axis_rotation_eq s c
  unfold axisRot
  split
  · rw [hz.det]; exact rax_det 2 (by omega) _ h
  · split
    · rw [hx.det]; exact rax_det 0 (by omega) _ (sc_neg_unit s c h)
    · rw [hy.det]; exact rax_det 1 (by omega) _ h

example : (-1 : Int) * (-1) + 0 * 0 = 1 := by decide

/-! ## Euler angles, all 24 conventions (matrix3.py:417-519) -/

/-- the table of Lemmas/AlgebraEuler.lean is the code's `_AXES2TUPLE`, row for row -/
theorem convTable_is_axes2tuple : convTable.map (fun r => (r.1, r.2.1)) = axes2tuple := by
  simp [convTable, axes2tuple]

/-- `Matrix3.from_euler` writes, for every one of the 24 conventions and whatever the `np.empty`
    buffer held, exactly the product of the three axis rotations the axes string names
    (static frame: first rotation rightmost; rotating frame: the reverse).
    No hypothesis on the sines and cosines. -/
theorem euler_eq_axis_product (ai aj ak : SC K) (m0 : Mat K) :
    ∀ row ∈ (convTable : List (String × Conv × Bool × Nat × Nat × Nat)),
      Eq3 (fromEuler row.2.1 ai aj ak m0)
          (eulerSpec row.2.2.1 row.2.2.2.1 row.2.2.2.2.1 row.2.2.2.2.2 ai aj ak) := by
  intro row h
  simp only [convTable, List.mem_cons, List.mem_nil_iff, or_false] at h
  rcases h with rfl | rfl | rfl | rfl | rfl | rfl | rfl | rfl | rfl | rfl | rfl | rfl | rfl | rfl | rfl | rfl |
    rfl | rfl | rfl | rfl | rfl | rfl | rfl | rfl
  · exact euler_row_sxyz ai aj ak m0
  · exact euler_row_sxyx ai aj ak m0
  · exact euler_row_sxzy ai aj ak m0
  · exact euler_row_sxzx ai aj ak m0
  · exact euler_row_syzx ai aj ak m0
  · exact euler_row_syzy ai aj ak m0
  · exact euler_row_syxz ai aj ak m0
  · exact euler_row_syxy ai aj ak m0
  · exact euler_row_szxy ai aj ak m0
  · exact euler_row_szxz ai aj ak m0
  · exact euler_row_szyx ai aj ak m0
  · exact euler_row_szyz ai aj ak m0
  · exact euler_row_rzyx ai aj ak m0
  · exact euler_row_rxyx ai aj ak m0
  · exact euler_row_ryzx ai aj ak m0
  · exact euler_row_rxzx ai aj ak m0
  · exact euler_row_rxzy ai aj ak m0
  · exact euler_row_ryzy ai aj ak m0
  · exact euler_row_rzxy ai aj ak m0
  · exact euler_row_ryxy ai aj ak m0
  · exact euler_row_ryxz ai aj ak m0
  · exact euler_row_rzxz ai aj ak m0
  · exact euler_row_rxyz ai aj ak m0
  · exact euler_row_rzyz ai aj ak m0

theorem convTable_axes_lt3 : ∀ row ∈ (convTable : List (String × Conv × Bool × Nat × Nat × Nat)),
    row.2.2.2.1 < 3 ∧ row.2.2.2.2.1 < 3 ∧ row.2.2.2.2.2 < 3 := by
  intro row h
  simp only [convTable, List.mem_cons, List.mem_nil_iff, or_false] at h
  rcases h with rfl | rfl | rfl | rfl | rfl | rfl | rfl | rfl | rfl | rfl | rfl | rfl | rfl | rfl | rfl | rfl |
    rfl | rfl | rfl | rfl | rfl | rfl | rfl | rfl <;> simp

theorem eulerSpec_orthonormal (st : Bool) (x1 x2 x3 : Nat) (h1 : x1 < 3) (h2 : x2 < 3) (h3 : x3 < 3)
    (ai aj ak : SC K) (hi : ai.s * ai.s + ai.c * ai.c = 1) (hj : aj.s * aj.s + aj.c * aj.c = 1)
    (hk : ak.s * ak.s + ak.c * ak.c = 1) : Orthonormal3 (eulerSpec st x1 x2 x3 ai aj ak) := by
  cases st <;> simp only [eulerSpec]
  · exact (rax_orthonormal x1 h1 ai hi).mul ((rax_orthonormal x2 h2 aj hj).mul (rax_orthonormal x3 h3 ak hk))
  · exact (rax_orthonormal x3 h3 ak hk).mul ((rax_orthonormal x2 h2 aj hj).mul (rax_orthonormal x1 h1 ai hi))

theorem eulerSpec_det (st : Bool) (x1 x2 x3 : Nat) (h1 : x1 < 3) (h2 : x2 < 3) (h3 : x3 < 3)
    (ai aj ak : SC K) (hi : ai.s * ai.s + ai.c * ai.c = 1) (hj : aj.s * aj.s + aj.c * aj.c = 1)
    (hk : ak.s * ak.s + ak.c * ak.c = 1) : det3 (eulerSpec st x1 x2 x3 ai aj ak) = 1 := by
  cases st <;> simp only [eulerSpec, det3_mul, rax_det _ h1 ai hi, rax_det _ h2 aj hj, rax_det _ h3 ak hk, mul_one]

/-- for all 24 conventions the matrix built by `from_euler` is orthonormal … -/
theorem euler_orthonormal (ai aj ak : SC K) (hi : ai.s * ai.s + ai.c * ai.c = 1)
    (hj : aj.s * aj.s + aj.c * aj.c = 1) (hk : ak.s * ak.s + ak.c * ak.c = 1) (m0 : Mat K) :
    ∀ cv ∈ allConvs, Orthonormal3 (fromEuler cv ai aj ak m0) := by
  intro cv hcv
  rw [allConvs, ← convTable_is_axes2tuple, List.map_map, List.mem_map] at hcv
  obtain ⟨row, hrow, rfl⟩ := hcv
  obtain ⟨h1, h2, h3⟩ := convTable_axes_lt3 row hrow
  exact (euler_eq_axis_product ai aj ak m0 row hrow).orthonormal
    (eulerSpec_orthonormal _ _ _ _ h1 h2 h3 ai aj ak hi hj hk)

/-- … with determinant +1 -/
theorem euler_det_one (ai aj ak : SC K) (hi : ai.s * ai.s + ai.c * ai.c = 1)
    (hj : aj.s * aj.s + aj.c * aj.c = 1) (hk : ak.s * ak.s + ak.c * ak.c = 1) (m0 : Mat K) :
    ∀ cv ∈ allConvs, det3 (fromEuler cv ai aj ak m0) = 1 := by
  intro cv hcv
  rw [allConvs, ← convTable_is_axes2tuple, List.map_map, List.mem_map] at hcv
  obtain ⟨row, hrow, rfl⟩ := hcv
  obtain ⟨h1, h2, h3⟩ := convTable_axes_lt3 row hrow
  show det3 (fromEuler row.2.1 ai aj ak m0) = 1
  rw [(euler_eq_axis_product ai aj ak m0 row hrow).det]
  exact eulerSpec_det _ _ _ _ h1 h2 h3 ai aj ak hi hj hk

/-- all nine entries of the `np.empty` buffer are overwritten: the result does not depend on it -/
theorem euler_overwrites_buffer (ai aj ak : SC K) (m0 m1 : Mat K) :
    ∀ cv ∈ allConvs, Eq3 (fromEuler cv ai aj ak m0) (fromEuler cv ai aj ak m1) := by
  intro cv hcv
  rw [allConvs, ← convTable_is_axes2tuple, List.map_map, List.mem_map] at hcv
  obtain ⟨row, hrow, rfl⟩ := hcv
  intro r c hr hc
  show fromEuler row.2.1 ai aj ak m0 r c = fromEuler row.2.1 ai aj ak m1 r c
  rw [euler_eq_axis_product ai aj ak m0 row hrow r c hr hc, euler_eq_axis_product ai aj ak m1 row hrow r c hr hc]

example : allConvs.length = 24 := by decide

end rotation
/-! ## quaternions (quaternion.py) -/
section quatRing
variable {K : Type} [CommRing K]

/-- `mul_values` is associative -/
theorem quat_mul_assoc (a b c : Q4 K) : qMul (qMul a b) c = qMul a (qMul b c) := by
  simp only [qMul, Q4.mk.injEq]
  refine ⟨?_, ?_, ?_, ?_⟩ <;> ring

/-- the norm is multiplicative: ‖ab‖² = ‖a‖² ‖b‖² (proved in Lemmas/AlgebraQuat.lean, restated) -/
theorem quat_norm_multiplicative (a b : Q4 K) : qNormSq (qMul a b) = qNormSq a * qNormSq b := quat_norm_mul a b

theorem quat_one_mul (a : Q4 K) : qMul Q4.one a = a ∧ qMul a Q4.one = a := by
  constructor <;> (cases a; simp [qMul, Q4.one])

/-- `conj` is an anti-automorphism and q * conj q = ‖q‖² -/
theorem quat_conj_mul (a b : Q4 K) : qConj (qMul a b) = qMul (qConj b) (qConj a) := by
  simp only [qMul, qConj, Q4.mk.injEq]
  refine ⟨?_, ?_, ?_, ?_⟩ <;> ring

theorem quat_mul_conj (a : Q4 K) : qMul a (qConj a) = ⟨qNormSq a, 0, 0, 0⟩ := by
  simp only [qMul, qConj, qNormSq_eq, Q4.mk.injEq]
  refine ⟨?_, ?_, ?_, ?_⟩ <;> ring

omit [CommRing K] in
/-- from_parts / to_parts are mutually inverse -/
theorem parts_roundtrip (q : Q4 K) (s : K) (v : Nat → K) :
    fromParts (toParts q).1 (toParts q).2 = q ∧
    (toParts (fromParts s v)).1 = s ∧ ∀ i, i < 3 → (toParts (fromParts s v)).2 i = v i := by
  refine ⟨by cases q; rfl, rfl, ?_⟩
  exact forall_lt3 rfl rfl rfl

end quatRing

section quatField
variable {K : Type} [Field K] [DecidableEq K]

/-- `reciprocal`: q * q⁻¹ = 1 = q⁻¹ * q and the result is masked only if the operand was,
    wherever ‖q‖² ≠ 0; a zero quaternion is masked -/
theorem quat_conj_inverse (q : Q4 K) (m : Bool) :
    (qNormSq q ≠ 0 → qMul q (qRecip q m).1 = Q4.one ∧ qMul (qRecip q m).1 q = Q4.one ∧ (qRecip q m).2 = m) ∧
    (qNormSq q = 0 → (qRecip q m).2 = true) := by
  constructor
  · intro h
    have e := qNormSq_eq q
    simp only [qRecip, h, decide_false, Bool.false_eq_true, ↓reduceIte, Bool.or_false, Bool.or_self, and_true]
    generalize qNormSq q = n at h e ⊢
    simp only [qMul, qConj, Q4.one, Q4.mk.injEq]
    refine ⟨⟨?_, ?_, ?_, ?_⟩, ?_, ?_, ?_, ?_⟩ <;> field_simp <;>
      first | ring1 | linear_combination e | linear_combination -e
  · intro h
    simp [qRecip, h]

example : qNormSq (⟨1, 2, 3, 4⟩ : Q4 ℚ) ≠ 0 := by simp [qNormSq, sumRange]; norm_num

/-- `to_matrix3` with its √2/‖p‖ scaling equals the textbook matrix, writes all nine entries of the
    buffer and masks nothing more than the operand, given only √2·√2 = 2 and pnorm² = ‖p‖² ≠ 0;
    a zero norm is masked -/
theorem to_matrix3_eq_ref (sqrt2 pnorm : K) (p : Q4 K) (m : Bool) (m0 : Mat K)
    (h2 : sqrt2 * sqrt2 = 2) (hn : pnorm * pnorm = qNormSq p) :
    (pnorm ≠ 0 → Eq3 (qToMatrix3 sqrt2 pnorm p m m0).1 (toMatRef p) ∧ (qToMatrix3 sqrt2 pnorm p m m0).2 = m) ∧
    (pnorm = 0 → (qToMatrix3 sqrt2 pnorm p m m0).2 = true) := by
  constructor
  · intro hz
    have hN : qNormSq p ≠ 0 := by rw [← hn]; exact mul_ne_zero hz hz
    have hff : sqrt2 / pnorm * (sqrt2 / pnorm) = 2 / qNormSq p := by
      rw [← hn]; field_simp; linear_combination h2
    refine ⟨?_, by simp [qToMatrix3, hz]⟩
    simp only [qToMatrix3, hz, decide_false, Bool.false_eq_true, ↓reduceIte]
    unfold toMatRef
    generalize sqrt2 / pnorm = f at hff
    generalize qNormSq p = n at hN hff
    have e : ∀ A : K, 2 * A / n = f * f * A := by intro A; rw [hff]; ring
    refine forall_lt3_2 ⟨?_, ?_, ?_, ?_, ?_, ?_, ?_, ?_, ?_⟩ <;>
      simp only [Mat.set, e] <;> simp <;> ring1
  · intro hz; simp [qToMatrix3, hz]


/-- `to_matrix3` is a homomorphism: to_matrix3(p*q) = to_matrix3(p) · to_matrix3(q), with the
    normalisation made explicit (each norm enters through its square only) -/
theorem to_matrix3_mul (sqrt2 np nq npq : K) (p q : Q4 K) (mp mq : Bool) (m0 m1 m2 : Mat K)
    (h2 : sqrt2 * sqrt2 = 2) (hp : np * np = qNormSq p) (hq : nq * nq = qNormSq q)
    (hpq : npq * npq = qNormSq (qMul p q)) (zp : np ≠ 0) (zq : nq ≠ 0) :
    Eq3 (qToMatrix3 sqrt2 npq (qMul p q) (mp || mq) m0).1
        (Mat.mul 3 (qToMatrix3 sqrt2 np p mp m1).1 (qToMatrix3 sqrt2 nq q mq m2).1) := by
  have Np : qNormSq p ≠ 0 := by rw [← hp]; exact mul_ne_zero zp zp
  have Nq : qNormSq q ≠ 0 := by rw [← hq]; exact mul_ne_zero zq zq
  have zpq : npq ≠ 0 := by
    intro h; rw [h, quat_norm_mul, mul_zero] at hpq; exact (mul_ne_zero Np Nq) hpq.symm
  have A := ((to_matrix3_eq_ref sqrt2 npq (qMul p q) (mp || mq) m0 h2 hpq).1 zpq).1
  have B := ((to_matrix3_eq_ref sqrt2 np p mp m1 h2 hp).1 zp).1
  have C := ((to_matrix3_eq_ref sqrt2 nq q mq m2 h2 hq).1 zq).1
  intro r c hr hc
  rw [A r c hr hc, toMatRef_mul p q Np Nq r c hr hc]
  simp only [Mat.mul, sumRange]
  rw [B r 0 hr (by omega), B r 1 hr (by omega), B r 2 hr (by omega),
      C 0 c (by omega) hc, C 1 c (by omega) hc, C 2 c (by omega) hc]

/-- `to_matrix3` of any quaternion of non-zero norm is orthonormal with determinant +1 -/
theorem to_matrix3_orthonormal (sqrt2 pnorm : K) (p : Q4 K) (m : Bool) (m0 : Mat K)
    (h2 : sqrt2 * sqrt2 = 2) (hn : pnorm * pnorm = qNormSq p) (hz : pnorm ≠ 0) :
    Orthonormal3 (qToMatrix3 sqrt2 pnorm p m m0).1 ∧ det3 (qToMatrix3 sqrt2 pnorm p m m0).1 = 1 := by
  have N : qNormSq p ≠ 0 := by rw [← hn]; exact mul_ne_zero hz hz
  have A := ((to_matrix3_eq_ref sqrt2 pnorm p m m0 h2 hn).1 hz).1
  exact ⟨A.orthonormal (toMatRef_orthonormal p N), by rw [A.det]; exact toMatRef_det p N⟩

example : ∃ sqrt2 pnorm : ℚ, sqrt2 * sqrt2 = 2 * 2 ∧ pnorm * pnorm = qNormSq (⟨1, 1, 1, 1⟩ : Q4 ℚ) ∧ pnorm ≠ 0 :=
  ⟨2, 2, by norm_num, by simp [qNormSq, sumRange]; norm_num, by norm_num⟩

end quatField

/-! ## rotate / unrotate (matrix3.py:304-335) -/
section rotate
variable {K : Type} [CommRing K]

/-- `unrotate` undoes `rotate` and vice versa, for every matrix with M Mᵀ = 1 -/
theorem unrotate_rotate (m : Mat K) (h : Orthonormal3 m) (v : Nat → K) :
    (∀ r, r < 3 → unrotate m (rotate m v) r = v r) ∧ (∀ r, r < 3 → rotate m (unrotate m v) r = v r) := by
  have ht := h.transpose
  have t00 := ht 0 0 (by omega) (by omega); have t01 := ht 0 1 (by omega) (by omega)
  have t02 := ht 0 2 (by omega) (by omega); have t11 := ht 1 1 (by omega) (by omega)
  have t12 := ht 1 2 (by omega) (by omega); have t22 := ht 2 2 (by omega) (by omega)
  have h00 := h 0 0 (by omega) (by omega); have h01 := h 0 1 (by omega) (by omega)
  have h02 := h 0 2 (by omega) (by omega); have h11 := h 1 1 (by omega) (by omega)
  have h12 := h 1 2 (by omega) (by omega); have h22 := h 2 2 (by omega) (by omega)
  simp [Mat.mul, Mat.T, sumRange, Mat.ident] at t00 t01 t02 t11 t12 t22 h00 h01 h02 h11 h12 h22
  constructor
  · refine forall_lt3 ?_ ?_ ?_ <;> simp only [unrotate, rotate, Mat.app, sumRange]
    · linear_combination v 0 * t00 + v 1 * t01 + v 2 * t02
    · linear_combination v 0 * t01 + v 1 * t11 + v 2 * t12
    · linear_combination v 0 * t02 + v 1 * t12 + v 2 * t22
  · refine forall_lt3 ?_ ?_ ?_ <;> simp only [unrotate, rotate, Mat.app, sumRange]
    · linear_combination v 0 * h00 + v 1 * h01 + v 2 * h02
    · linear_combination v 0 * h01 + v 1 * h11 + v 2 * h12
    · linear_combination v 0 * h02 + v 1 * h12 + v 2 * h22

end rotate
/-! ## unit, perp, proj (vector.py:400-503), every vector length -/
section vectors
variable {K : Type} [Field K] [DecidableEq K]

theorem vdot_div_right (n : Nat) (a b : Nat → K) (d : K) :
    vdot n a (fun i => b i / d) = vdot n a b / d := by
  simp only [vdot, div_eq_mul_inv, ← mul_assoc]
  exact sumRange_mul_right n d⁻¹ _

theorem vdot_div_left (n : Nat) (a b : Nat → K) (d : K) :
    vdot n (fun i => a i / d) b = vdot n a b / d := by
  simp only [vdot, div_eq_mul_inv, mul_right_comm _ d⁻¹ _]
  exact sumRange_mul_right n d⁻¹ _

/-- `unit()`: ‖unit v‖² = 1 and nothing more is masked than the operand, given only
    nrm · nrm = ‖v‖² and nrm ≠ 0; a zero norm masks the element -/
theorem unit_norm_sq (v : VecE K) (nrm : K) (hn : nrm * nrm = vdot v.n v.get v.get) :
    (nrm ≠ 0 → vdot v.n (unit v nrm).get (unit v nrm).get = 1 ∧ (unit v nrm).m = v.m) ∧
    (nrm = 0 → (unit v nrm).m = true) := by
  constructor
  · intro hz
    simp only [unit, divByScalar, hz, decide_false, Bool.false_eq_true, ↓reduceIte, Bool.or_false, Bool.or_self, and_true]
    rw [vdot_div_left, vdot_div_right, ← hn]
    field_simp
  · intro hz; simp [unit, divByScalar, hz]

/-- `perp + proj` restores the vector, component by component, with no hypothesis at all
    (the same unit vector and the same dot product enter both) -/
theorem perp_add_proj (v a : VecE K) (nrm : K) (i : Nat) :
    (perp v a nrm).get i + (proj v a nrm).get i = v.get i := by
  simp only [perp]; ring

/-- `perp` is orthogonal to the axis: perp(v, a) · a = 0 for every length, given nrm² = ‖a‖² ≠ 0 -/
theorem perp_orth (v a : VecE K) (nrm : K) (hlen : v.n = a.n)
    (hn : nrm * nrm = vdot a.n a.get a.get) (hz : nrm ≠ 0) :
    vdot v.n (perp v a nrm).get a.get = 0 := by
  simp only [perp, proj, unit, divByScalar, hz, decide_false, Bool.false_eq_true, ↓reduceIte]
  rw [vdot_div_right, hlen]
  have e : vdot a.n (fun t => v.get t - a.get t / nrm * (vdot a.n v.get a.get / nrm)) a.get
      = vdot a.n v.get a.get - (vdot a.n v.get a.get / nrm) * (vdot a.n a.get a.get / nrm) := by
    simp only [vdot, sub_mul, sumRange_sub]
    congr 1
    rw [div_eq_mul_inv (sumRange a.n fun t => a.get t * a.get t), ← sumRange_mul_right, ← sumRange_mul_left]
    apply sumRange_congr; intro t _; ring
  rw [e, ← hn]
  field_simp
  ring

/-- `proj` is parallel to the axis: proj(v, a) = a · (v·a)/‖a‖² -/
theorem proj_parallel (v a : VecE K) (nrm : K) (hlen : v.n = a.n)
    (hn : nrm * nrm = vdot a.n a.get a.get) (hz : nrm ≠ 0) (i : Nat) :
    (proj v a nrm).get i = a.get i * (vdot a.n v.get a.get / vdot a.n a.get a.get) := by
  simp only [proj, unit, divByScalar, hz, decide_false, Bool.false_eq_true, ↓reduceIte]
  rw [vdot_div_right, hlen, ← hn]
  field_simp

/-- masks of `perp` and `proj`: masked iff an operand is masked or the axis has zero norm -/
theorem perp_proj_mask (v a : VecE K) (nrm : K) :
    (proj v a nrm).m = (v.m || a.m || decide (nrm = 0)) ∧ (perp v a nrm).m = (v.m || a.m || decide (nrm = 0)) := by
  simp only [perp, proj, unit, divByScalar]
  cases v.m <;> cases a.m <;> cases decide (nrm = 0) <;> simp

example : ∃ nrm : ℚ, nrm * nrm = vdot 2 (fun i => if i = 0 then (3 : ℚ) else 4) (fun i => if i = 0 then (3 : ℚ) else 4) ∧ nrm ≠ 0 :=
  ⟨5, by simp [vdot, sumRange]; norm_num, by norm_num⟩

end vectors

/-! ## Quaternion.from_euler (quaternion.py:734-805) -/
section qeuler
variable {K : Type} [Field K] [DecidableEq K]

theorem Eq3.mul {a a' b b' : Mat K} (ha : Eq3 a a') (hb : Eq3 b b') : Eq3 (Mat.mul 3 a b) (Mat.mul 3 a' b') := by
  intro r c hr hc
  simp only [Mat.mul, sumRange]
  rw [ha r 0 hr (by omega), ha r 1 hr (by omega), ha r 2 hr (by omega),
      hb 0 c (by omega) hc, hb 1 c (by omega) hc, hb 2 c (by omega) hc]

theorem Eq3.trans {a b c : Mat K} (h1 : Eq3 a b) (h2 : Eq3 b c) : Eq3 a c :=
  fun r c' hr hc => (h1 r c' hr hc).trans (h2 r c' hr hc)
theorem Eq3.symm {a b : Mat K} (h : Eq3 a b) : Eq3 b a := fun r c hr hc => (h r c hr hc).symm

/-- sine and cosine of the full angle from those of the half angle -/
def SC.dbl (h : SC K) : SC K := ⟨2 * h.s * h.c, h.c * h.c - h.s * h.s⟩

theorem qAx_norm (x : Nat) (h : SC K) (hh : h.s * h.s + h.c * h.c = 1) : qNormSq (qAx x h) = 1 := by
  rw [qNormSq_eq]
  unfold qAx
  split <;> simp <;> linear_combination hh

theorem toMatRef_qAx (x : Nat) (hx : x < 3) (h : SC K) (hh : h.s * h.s + h.c * h.c = 1) :
    Eq3 (toMatRef (qAx x h)) (Rax x h.dbl) := by
  have hN := qAx_norm x h hh
  unfold toMatRef
  rw [hN]
  revert x
  refine forall_lt3 ?_ ?_ ?_ <;> intro _ <;> refine forall_lt3_2 ⟨?_, ?_, ?_, ?_, ?_, ?_, ?_, ?_, ?_⟩ <;>
    simp [qAx, Rax, SC.dbl] <;> first | ring1 | linear_combination -hh

theorem toMatRef_scale (c : K) (p : Q4 K) (hc : c ≠ 0) (hp : qNormSq p ≠ 0) :
    Eq3 (toMatRef (qScale c p)) (toMatRef p) := by
  have ea := qNormSq_eq p
  unfold toMatRef
  rw [qNormSq_eq (qScale c p)]
  simp only [qScale]
  generalize qNormSq p = n at hp ea
  have hn : p.s * c * (p.s * c) + p.x * c * (p.x * c) + p.y * c * (p.y * c) + p.z * c * (p.z * c) = c * c * n := by
    rw [ea]; ring
  rw [hn]
  refine forall_lt3_2 ⟨?_, ?_, ?_, ?_, ?_, ?_, ?_, ?_, ?_⟩ <;> simp only [] <;> field_simp

/-- **Quaternion.from_euler = product of the three axis quaternions**, for all 24 conventions, up to the
    sign normalisation of the scalar part (the four assignments overwrite the whole `np.empty` buffer) -/
theorem qeuler_eq_axis_product (sign : K → K) (hi hj hk : SC K) (q0 : Q4 K) :
    ∀ row ∈ (convTable : List (String × Conv × Bool × Nat × Nat × Nat)),
      qFromEuler sign row.2.1 hi hj hk q0 =
        qScale (sign (qEulerSpec row.2.2.1 row.2.2.2.1 row.2.2.2.2.1 row.2.2.2.2.2 hi hj hk).s)
          (qEulerSpec row.2.2.1 row.2.2.2.1 row.2.2.2.2.1 row.2.2.2.2.2 hi hj hk) := by
  intro row h
  have key : qFromEulerRaw row.2.1 hi hj hk q0 =
      qEulerSpec row.2.2.1 row.2.2.2.1 row.2.2.2.2.1 row.2.2.2.2.2 hi hj hk := by
    simp only [convTable, List.mem_cons, List.mem_nil_iff, or_false] at h
    rcases h with rfl | rfl | rfl | rfl | rfl | rfl | rfl | rfl | rfl | rfl | rfl | rfl | rfl | rfl | rfl | rfl |
      rfl | rfl | rfl | rfl | rfl | rfl | rfl | rfl
    · exact qeuler_row_sxyz hi hj hk q0
    · exact qeuler_row_sxyx hi hj hk q0
    · exact qeuler_row_sxzy hi hj hk q0
    · exact qeuler_row_sxzx hi hj hk q0
    · exact qeuler_row_syzx hi hj hk q0
    · exact qeuler_row_syzy hi hj hk q0
    · exact qeuler_row_syxz hi hj hk q0
    · exact qeuler_row_syxy hi hj hk q0
    · exact qeuler_row_szxy hi hj hk q0
    · exact qeuler_row_szxz hi hj hk q0
    · exact qeuler_row_szyx hi hj hk q0
    · exact qeuler_row_szyz hi hj hk q0
    · exact qeuler_row_rzyx hi hj hk q0
    · exact qeuler_row_rxyx hi hj hk q0
    · exact qeuler_row_ryzx hi hj hk q0
    · exact qeuler_row_rxzx hi hj hk q0
    · exact qeuler_row_rxzy hi hj hk q0
    · exact qeuler_row_ryzy hi hj hk q0
    · exact qeuler_row_rzxy hi hj hk q0
    · exact qeuler_row_ryxy hi hj hk q0
    · exact qeuler_row_ryxz hi hj hk q0
    · exact qeuler_row_rzxz hi hj hk q0
    · exact qeuler_row_rxyz hi hj hk q0
    · exact qeuler_row_rzyz hi hj hk q0
  simp only [qFromEuler, key]

theorem qScale_norm (c : K) (p : Q4 K) : qNormSq (qScale c p) = c * c * qNormSq p := by
  simp only [qNormSq_eq, qScale]; ring

theorem qEulerSpec_norm (st : Bool) (x1 x2 x3 : Nat) (hi hj hk : SC K)
    (ei : hi.s * hi.s + hi.c * hi.c = 1) (ej : hj.s * hj.s + hj.c * hj.c = 1) (ek : hk.s * hk.s + hk.c * hk.c = 1) :
    qNormSq (qEulerSpec st x1 x2 x3 hi hj hk) = 1 := by
  cases st <;> simp only [qEulerSpec, quat_norm_mul, qAx_norm _ _ ei, qAx_norm _ _ ej, qAx_norm _ _ ek, mul_one]

theorem toMatRef_qEulerSpec (st : Bool) (x1 x2 x3 : Nat) (h1 : x1 < 3) (h2 : x2 < 3) (h3 : x3 < 3) (hi hj hk : SC K)
    (ei : hi.s * hi.s + hi.c * hi.c = 1) (ej : hj.s * hj.s + hj.c * hj.c = 1) (ek : hk.s * hk.s + hk.c * hk.c = 1) :
    Eq3 (toMatRef (qEulerSpec st x1 x2 x3 hi hj hk)) (eulerSpec st x1 x2 x3 hi.dbl hj.dbl hk.dbl) := by
  have ni := qAx_norm x1 hi ei; have nj := qAx_norm x2 hj ej; have nk := qAx_norm x3 hk ek
  have one : (1 : K) ≠ 0 := one_ne_zero
  cases st <;> simp only [qEulerSpec, eulerSpec]
  · refine (toMatRef_mul _ _ (by rw [ni]; exact one) (by rw [quat_norm_mul, nj, nk, mul_one]; exact one)).trans ?_
    refine Eq3.mul (toMatRef_qAx x1 h1 hi ei) ?_
    exact (toMatRef_mul _ _ (by rw [nj]; exact one) (by rw [nk]; exact one)).trans
      (Eq3.mul (toMatRef_qAx x2 h2 hj ej) (toMatRef_qAx x3 h3 hk ek))
  · refine (toMatRef_mul _ _ (by rw [nk]; exact one) (by rw [quat_norm_mul, nj, ni, mul_one]; exact one)).trans ?_
    refine Eq3.mul (toMatRef_qAx x3 h3 hk ek) ?_
    exact (toMatRef_mul _ _ (by rw [nj]; exact one) (by rw [ni]; exact one)).trans
      (Eq3.mul (toMatRef_qAx x2 h2 hj ej) (toMatRef_qAx x1 h1 hi ei))

/-- **to_matrix3 (Quaternion.from_euler …) = Matrix3.from_euler …** for all 24 conventions: the half-angle
    sines/cosines go to the quaternion constructor, the double-angle pairs (2sc, c²−s²) to the matrix
    constructor; `sign` is any function with values ±1, √2·√2 = 2, pnorm² = ‖q‖². Nothing is masked. -/
theorem qeuler_to_matrix3 (sign : K → K) (hsign : ∀ x, sign x * sign x = 1) (sqrt2 pnorm : K) (h2 : sqrt2 * sqrt2 = 2)
    (hi hj hk : SC K)
    (ei : hi.s * hi.s + hi.c * hi.c = 1) (ej : hj.s * hj.s + hj.c * hj.c = 1) (ek : hk.s * hk.s + hk.c * hk.c = 1)
    (q0 : Q4 K) (m : Bool) (m0 m1 : Mat K) :
    ∀ cv ∈ allConvs, pnorm * pnorm = qNormSq (qFromEuler sign cv hi hj hk q0) →
      Eq3 (qToMatrix3 sqrt2 pnorm (qFromEuler sign cv hi hj hk q0) m m0).1 (fromEuler cv hi.dbl hj.dbl hk.dbl m1) ∧
      (qToMatrix3 sqrt2 pnorm (qFromEuler sign cv hi hj hk q0) m m0).2 = m := by
  intro cv hcv hn
  rw [allConvs, ← convTable_is_axes2tuple, List.map_map, List.mem_map] at hcv
  obtain ⟨row, hrow, rfl⟩ := hcv
  obtain ⟨l1, l2, l3⟩ := convTable_axes_lt3 row hrow
  show Eq3 (qToMatrix3 sqrt2 pnorm (qFromEuler sign row.2.1 hi hj hk q0) m m0).1 (fromEuler row.2.1 hi.dbl hj.dbl hk.dbl m1) ∧ _
  change pnorm * pnorm = qNormSq (qFromEuler sign row.2.1 hi hj hk q0) at hn
  have hq := qeuler_eq_axis_product sign hi hj hk q0 row hrow
  have hN := qEulerSpec_norm row.2.2.1 row.2.2.2.1 row.2.2.2.2.1 row.2.2.2.2.2 hi hj hk ei ej ek
  have hs := hsign (qEulerSpec row.2.2.1 row.2.2.2.1 row.2.2.2.2.1 row.2.2.2.2.2 hi hj hk).s
  have hs0 : sign (qEulerSpec row.2.2.1 row.2.2.2.1 row.2.2.2.2.1 row.2.2.2.2.2 hi hj hk).s ≠ 0 := by
    intro e; rw [e, mul_zero] at hs; exact zero_ne_one hs
  have hpn : pnorm ≠ 0 := by
    intro e; rw [e, mul_zero, hq, qScale_norm, hs, hN, mul_one] at hn; exact zero_ne_one hn
  obtain ⟨A, B⟩ := (to_matrix3_eq_ref sqrt2 pnorm _ m m0 h2 hn).1 hpn
  refine ⟨?_, B⟩
  refine A.trans ?_
  rw [hq]
  refine (toMatRef_scale _ _ hs0 (by rw [hN]; exact one_ne_zero)).trans ?_
  refine (toMatRef_qEulerSpec _ _ _ _ l1 l2 l3 hi hj hk ei ej ek).trans ?_
  exact (euler_eq_axis_product hi.dbl hj.dbl hk.dbl m1 row hrow).symm

end qeuler

/-! ## Quaternion.from_matrix3 (quaternion.py:400-482) -/
section frommatrix
variable {K : Type} [Field K] [DecidableEq K]

/-- a quaternion `u` with ‖u‖² = 4X whose quadratic forms reproduce 2X·M has matrix M -/
theorem toMatRef_of_identities (u : Q4 K) (m : Mat K) (X : K) (hX : X ≠ 0) (h2 : (2 : K) ≠ 0)
    (hN : qNormSq u = 4 * X)
    (e00 : u.y * u.y + u.z * u.z = 2 * X * (1 - m 0 0)) (e11 : u.x * u.x + u.z * u.z = 2 * X * (1 - m 1 1))
    (e22 : u.x * u.x + u.y * u.y = 2 * X * (1 - m 2 2))
    (e01 : u.x * u.y - u.s * u.z = 2 * X * m 0 1) (e02 : u.x * u.z + u.s * u.y = 2 * X * m 0 2)
    (e10 : u.x * u.y + u.s * u.z = 2 * X * m 1 0) (e12 : u.y * u.z - u.s * u.x = 2 * X * m 1 2)
    (e20 : u.x * u.z - u.s * u.y = 2 * X * m 2 0) (e21 : u.y * u.z + u.s * u.x = 2 * X * m 2 1) :
    Eq3 (toMatRef u) m := by
  have h4 : (4 : K) ≠ 0 := by
    have : (4 : K) = 2 * 2 := by norm_num
    rw [this]; exact mul_ne_zero h2 h2
  unfold toMatRef
  rw [hN]
  refine forall_lt3_2 ⟨?_, ?_, ?_, ?_, ?_, ?_, ?_, ?_, ?_⟩ <;> simp only []
  · rw [e00]; field_simp; ring
  · rw [e01]; field_simp; ring
  · rw [e02]; field_simp; ring
  · rw [e10]; field_simp; ring
  · rw [e11]; field_simp; ring
  · rw [e12]; field_simp; ring
  · rw [e20]; field_simp; ring
  · rw [e21]; field_simp; ring
  · rw [e22]; field_simp; ring

/-- branch `argmax = 0` of `from_matrix3`: the un-scaled quaternion `u` reproduces the matrix -/
theorem fromMatrix3_branch0 (m : Mat K) (h : SO3 m) (q0 : Q4 K) (h2 : (2 : K) ≠ 0)
    (hX : 1 + (1 + 1) * m 0 0 - (m 0 0 + m 1 1 + m 2 2) ≠ 0) :
    Eq3 (toMatRef ((((q0.setAt 0 (m 2 1 - m 1 2)).setAt (0 + 1) (1 + (1 + 1) * m 0 0 - (m 0 0 + m 1 1 + m 2 2))).setAt
      (1 + 1) (m 0 1 + m 1 0)).setAt (2 + 1) (m 0 2 + m 2 0))) m := by
  refine toMatRef_of_identities _ m _ hX h2 ?_ ?_ ?_ ?_ ?_ ?_ ?_ ?_ ?_ ?_ <;> simp only [Q4.setAt, qNormSq_eq]
  · linear_combination (1) * h.r00 + (1) * h.r11 + (1) * h.r22 + (2) * h.f00 + (-2) * h.f11 + (-2) * h.f22
  · linear_combination (1) * h.r00 + (1) * h.c00 + (-2) * h.f11 + (-2) * h.f22
  · linear_combination (1) * h.r00 + (1) * h.r22 + (-1) * h.c11 + (-2) * h.f11
  · linear_combination (-1) * h.r22 + (1) * h.c00 + (1) * h.c11 + (-2) * h.f22
  · linear_combination (1) * h.r01 + (-1) * h.c01 + (1) * h.f01 + (-1) * h.f10
  · linear_combination (1) * h.r02 + (-1) * h.c02 + (1) * h.f02 + (-1) * h.f20
  · linear_combination (-1) * h.r01 + (1) * h.c01 + (-1) * h.f01 + (1) * h.f10
  · linear_combination (1) * h.r12 + (1) * h.c12 + (1) * h.f12 + (1) * h.f21
  · linear_combination (-1) * h.r02 + (1) * h.c02 + (-1) * h.f02 + (1) * h.f20
  · linear_combination (1) * h.r12 + (1) * h.c12 + (1) * h.f12 + (1) * h.f21

/-- branch `argmax = 1` of `from_matrix3`: the un-scaled quaternion `u` reproduces the matrix -/
theorem fromMatrix3_branch1 (m : Mat K) (h : SO3 m) (q0 : Q4 K) (h2 : (2 : K) ≠ 0)
    (hX : 1 + (1 + 1) * m 1 1 - (m 0 0 + m 1 1 + m 2 2) ≠ 0) :
    Eq3 (toMatRef ((((q0.setAt 0 (m 0 2 - m 2 0)).setAt (1 + 1) (1 + (1 + 1) * m 1 1 - (m 0 0 + m 1 1 + m 2 2))).setAt
      (2 + 1) (m 1 2 + m 2 1)).setAt (0 + 1) (m 1 0 + m 0 1))) m := by
  refine toMatRef_of_identities _ m _ hX h2 ?_ ?_ ?_ ?_ ?_ ?_ ?_ ?_ ?_ ?_ <;> simp only [Q4.setAt, qNormSq_eq]
  · linear_combination (1) * h.r00 + (1) * h.r11 + (1) * h.r22 + (-2) * h.f00 + (2) * h.f11 + (-2) * h.f22
  · linear_combination (1) * h.r11 + (1) * h.r22 + (-1) * h.c00 + (-2) * h.f00
  · linear_combination (1) * h.r11 + (1) * h.c11 + (-2) * h.f00 + (-2) * h.f22
  · linear_combination (-1) * h.r22 + (1) * h.c00 + (1) * h.c11 + (-2) * h.f22
  · linear_combination (-1) * h.r01 + (1) * h.c01 + (1) * h.f01 + (-1) * h.f10
  · linear_combination (1) * h.r02 + (1) * h.c02 + (1) * h.f02 + (1) * h.f20
  · linear_combination (1) * h.r01 + (-1) * h.c01 + (-1) * h.f01 + (1) * h.f10
  · linear_combination (1) * h.r12 + (-1) * h.c12 + (1) * h.f12 + (-1) * h.f21
  · linear_combination (1) * h.r02 + (1) * h.c02 + (1) * h.f02 + (1) * h.f20
  · linear_combination (-1) * h.r12 + (1) * h.c12 + (-1) * h.f12 + (1) * h.f21

/-- branch `argmax = 2` of `from_matrix3`: the un-scaled quaternion `u` reproduces the matrix -/
theorem fromMatrix3_branch2 (m : Mat K) (h : SO3 m) (q0 : Q4 K) (h2 : (2 : K) ≠ 0)
    (hX : 1 + (1 + 1) * m 2 2 - (m 0 0 + m 1 1 + m 2 2) ≠ 0) :
    Eq3 (toMatRef ((((q0.setAt 0 (m 1 0 - m 0 1)).setAt (2 + 1) (1 + (1 + 1) * m 2 2 - (m 0 0 + m 1 1 + m 2 2))).setAt
      (0 + 1) (m 2 0 + m 0 2)).setAt (1 + 1) (m 2 1 + m 1 2))) m := by
  refine toMatRef_of_identities _ m _ hX h2 ?_ ?_ ?_ ?_ ?_ ?_ ?_ ?_ ?_ ?_ <;> simp only [Q4.setAt, qNormSq_eq]
  · linear_combination (1) * h.r00 + (1) * h.r11 + (1) * h.r22 + (-2) * h.f00 + (-2) * h.f11 + (2) * h.f22
  · linear_combination (1) * h.r11 + (1) * h.r22 + (-1) * h.c00 + (-2) * h.f00
  · linear_combination (1) * h.r00 + (1) * h.r22 + (-1) * h.c11 + (-2) * h.f11
  · linear_combination (1) * h.r00 + (1) * h.r11 + (2) * h.r22 + (-1) * h.c00 + (-1) * h.c11 + (-2) * h.f00 + (-2) * h.f11
  · linear_combination (1) * h.r01 + (1) * h.c01 + (1) * h.f01 + (1) * h.f10
  · linear_combination (-1) * h.r02 + (1) * h.c02 + (1) * h.f02 + (-1) * h.f20
  · linear_combination (1) * h.r01 + (1) * h.c01 + (1) * h.f01 + (1) * h.f10
  · linear_combination (-1) * h.r12 + (1) * h.c12 + (1) * h.f12 + (-1) * h.f21
  · linear_combination (1) * h.r02 + (-1) * h.c02 + (-1) * h.f02 + (1) * h.f20
  · linear_combination (1) * h.r12 + (-1) * h.c12 + (-1) * h.f12 + (1) * h.f21


theorem argmax3_lt (le : K → K → Bool) (a b c : K) : argmax3 le a b c < 3 := by
  unfold argmax3; split <;> [omega; (split <;> omega)]

/-- **Matrix3 → Quaternion → Matrix3**, non-degenerate branches: for every rotation matrix (M Mᵀ = 1,
    det M = 1), whichever diagonal entry `argmax` selects (the comparison `le` is arbitrary here), if the
    square root argument is non-zero and `r·r = r_sq`, the quaternion returned by `from_matrix3` has the
    rotation matrix M (textbook matrix of the normalised quaternion; `to_matrix3_eq_ref` transfers this to
    the code-shaped `qToMatrix3`). The `np.empty` buffer is fully overwritten. -/
theorem from_matrix3_roundtrip (le : K → K → Bool) (r : K) (m : Mat K) (q0 : Q4 K) (h : SO3 m) (h2 : (2 : K) ≠ 0)
    (hr : r * r = fromMatrix3Rsq le m) (hz : r ≠ 0) :
    Eq3 (toMatRef (fromMatrix3 le r m q0)) m ∧ qNormSq (fromMatrix3 le r m q0) ≠ 0 := by
  have hX : fromMatrix3Rsq le m ≠ 0 := by rw [← hr]; exact mul_ne_zero hz hz
  have hs : (1 / (1 + 1) : K) / r ≠ 0 := by
    have : (1 + 1 : K) = 2 := one_add_one_eq_two
    rw [this]; exact div_ne_zero (div_ne_zero one_ne_zero h2) hz
  have hi := argmax3_lt le (m 0 0) (m 1 1) (m 2 2)
  unfold fromMatrix3Rsq at hX
  unfold fromMatrix3
  simp only [hz, decide_false, Bool.false_eq_true, ↓reduceIte]
  generalize argmax3 le (m 0 0) (m 1 1) (m 2 2) = i at hi hX
  have key : ∀ u : Q4 K, Eq3 (toMatRef u) m → qNormSq u ≠ 0 →
      Eq3 (toMatRef (qScale ((1 / (1 + 1) : K) / r) u)) m ∧ qNormSq (qScale ((1 / (1 + 1) : K) / r) u) ≠ 0 := by
    intro u hu hn
    exact ⟨(toMatRef_scale _ u hs hn).trans hu, by rw [qScale_norm]; exact mul_ne_zero (mul_ne_zero hs hs) hn⟩
  have h4 : (4 : K) ≠ 0 := by
    have : (4 : K) = 2 * 2 := by norm_num
    rw [this]; exact mul_ne_zero h2 h2
  match i, hi with
  | 0, _ =>
    refine key _ (fromMatrix3_branch0 m h q0 h2 hX) ?_
    have : qNormSq ((((q0.setAt 0 (m 2 1 - m 1 2)).setAt (0 + 1) (1 + (1 + 1) * m 0 0 - (m 0 0 + m 1 1 + m 2 2))).setAt
      ((0 + 1) % 3 + 1) (m 0 1 + m 1 0)).setAt ((0 + 2) % 3 + 1) (m 0 2 + m 2 0))
        = 4 * (1 + (1 + 1) * m 0 0 - (m 0 0 + m 1 1 + m 2 2)) := by
      simp only [Q4.setAt, qNormSq_eq]
      linear_combination (1) * h.r00 + (1) * h.r11 + (1) * h.r22 + (2) * h.f00 + (-2) * h.f11 + (-2) * h.f22
    rw [this]; exact mul_ne_zero h4 hX
  | 1, _ =>
    refine key _ (fromMatrix3_branch1 m h q0 h2 hX) ?_
    have : qNormSq ((((q0.setAt 0 (m 0 2 - m 2 0)).setAt (1 + 1) (1 + (1 + 1) * m 1 1 - (m 0 0 + m 1 1 + m 2 2))).setAt
      ((1 + 1) % 3 + 1) (m 1 2 + m 2 1)).setAt ((1 + 2) % 3 + 1) (m 1 0 + m 0 1))
        = 4 * (1 + (1 + 1) * m 1 1 - (m 0 0 + m 1 1 + m 2 2)) := by
      simp only [Q4.setAt, qNormSq_eq]
      linear_combination (1) * h.r00 + (1) * h.r11 + (1) * h.r22 + (-2) * h.f00 + (2) * h.f11 + (-2) * h.f22
    rw [this]; exact mul_ne_zero h4 hX
  | 2, _ =>
    refine key _ (fromMatrix3_branch2 m h q0 h2 hX) ?_
    have : qNormSq ((((q0.setAt 0 (m 1 0 - m 0 1)).setAt (2 + 1) (1 + (1 + 1) * m 2 2 - (m 0 0 + m 1 1 + m 2 2))).setAt
      ((2 + 1) % 3 + 1) (m 2 0 + m 0 2)).setAt ((2 + 2) % 3 + 1) (m 2 1 + m 1 2))
        = 4 * (1 + (1 + 1) * m 2 2 - (m 0 0 + m 1 1 + m 2 2)) := by
      simp only [Q4.setAt, qNormSq_eq]
      linear_combination (1) * h.r00 + (1) * h.r11 + (1) * h.r22 + (-2) * h.f00 + (-2) * h.f11 + (2) * h.f22
    rw [this]; exact mul_ne_zero h4 hX

/-- the degenerate branch: r = 0 returns the identity quaternion, whose matrix is the identity -/
theorem from_matrix3_zero (le : K → K → Bool) (m : Mat K) (q0 : Q4 K) :
    fromMatrix3 le 0 m q0 = ⟨1, 0, 0, 0⟩ ∧ Eq3 (toMatRef (⟨1, 0, 0, 0⟩ : Q4 K)) Mat.ident := by
  refine ⟨by simp [fromMatrix3], ?_⟩
  refine forall_lt3_2 ⟨?_, ?_, ?_, ?_, ?_, ?_, ?_, ?_, ?_⟩ <;> simp [toMatRef, Mat.ident, qNormSq_eq]

end frommatrix

section coverage
variable {K : Type} [Field K] [LinearOrder K] [IsStrictOrderedRing K]

/-- **the branches cover all rotations**: over an ordered field, with `argmax` taken for the real `≤`,
    the square-root argument `1 + 2·max(diag) − trace` of a rotation matrix is never negative and vanishes
    only for the identity matrix — the one case the degenerate branch answers with the identity quaternion. -/
theorem from_matrix3_cover (m : Mat K) (h : SO3 m) :
    0 ≤ fromMatrix3Rsq (fun a b => decide (a ≤ b)) m ∧
    (fromMatrix3Rsq (fun a b => decide (a ≤ b)) m = 0 → Eq3 m Mat.ident) := by
  have b0 : m 0 0 ≤ 1 := by nlinarith [h.r00, sq_nonneg (m 0 1), sq_nonneg (m 0 2), sq_nonneg (m 0 0 - 1)]
  have b1 : m 1 1 ≤ 1 := by nlinarith [h.r11, sq_nonneg (m 1 0), sq_nonneg (m 1 2), sq_nonneg (m 1 1 - 1)]
  have b2 : m 2 2 ≤ 1 := by nlinarith [h.r22, sq_nonneg (m 2 0), sq_nonneg (m 2 1), sq_nonneg (m 2 2 - 1)]
  have ident : m 0 0 = 1 → m 1 1 = 1 → m 2 2 = 1 → Eq3 m Mat.ident := by
    intro e0 e1 e2
    have r0 := h.r00; have r1 := h.r11; have r2 := h.r22
    rw [e0] at r0; rw [e1] at r1; rw [e2] at r2
    have z01 : m 0 1 = 0 := by nlinarith [sq_nonneg (m 0 1), sq_nonneg (m 0 2)]
    have z02 : m 0 2 = 0 := by nlinarith [sq_nonneg (m 0 1), sq_nonneg (m 0 2)]
    have z10 : m 1 0 = 0 := by nlinarith [sq_nonneg (m 1 0), sq_nonneg (m 1 2)]
    have z12 : m 1 2 = 0 := by nlinarith [sq_nonneg (m 1 0), sq_nonneg (m 1 2)]
    have z20 : m 2 0 = 0 := by nlinarith [sq_nonneg (m 2 0), sq_nonneg (m 2 1)]
    have z21 : m 2 1 = 0 := by nlinarith [sq_nonneg (m 2 0), sq_nonneg (m 2 1)]
    refine forall_lt3_2 ⟨?_, ?_, ?_, ?_, ?_, ?_, ?_, ?_, ?_⟩ <;> simp [Mat.ident, *]
  unfold fromMatrix3Rsq argmax3
  have two : (1 + 1 : K) = 2 := one_add_one_eq_two
  simp only [Bool.and_eq_true, decide_eq_true_eq, two]
  split
  · rename_i hc
    refine ⟨by linarith [hc.1, hc.2], fun e => ?_⟩
    exact ident (by linarith [hc.1, hc.2]) (by linarith [hc.1, hc.2]) (by linarith [hc.1, hc.2])
  · rename_i hc
    split
    · rename_i hd
      have : m 0 0 ≤ m 1 1 := by
        by_contra hlt
        exact hc ⟨by linarith [not_le.mp hlt], by linarith [not_le.mp hlt]⟩
      refine ⟨by linarith, fun e => ?_⟩
      exact ident (by linarith) (by linarith) (by linarith)
    · rename_i hd
      have hd' := not_le.mp hd
      have : m 0 0 ≤ m 2 2 := by
        by_contra hlt
        have := not_le.mp hlt
        rcases le_or_gt (m 1 1) (m 0 0) with h10 | h10
        · exact hc ⟨h10, by linarith⟩
        · linarith
      refine ⟨by linarith, fun e => ?_⟩
      exact ident (by linarith) (by linarith) (by linarith)

end coverage

section m2q2m
variable {K : Type} [Field K] [DecidableEq K]

/-- **Matrix3 → Quaternion → Matrix3 on the code-shaped functions**: `to_matrix3(from_matrix3(M)) = M` on all
    nine entries and nothing is masked, for every rotation matrix in a non-degenerate branch -/
theorem m2q2m_roundtrip (le : K → K → Bool) (r sqrt2 pnorm : K) (m : Mat K) (q0 : Q4 K) (msk : Bool) (m0 : Mat K)
    (h : SO3 m) (h2 : (2 : K) ≠ 0) (hr : r * r = fromMatrix3Rsq le m) (hz : r ≠ 0)
    (hs : sqrt2 * sqrt2 = 2) (hn : pnorm * pnorm = qNormSq (fromMatrix3 le r m q0)) :
    Eq3 (qToMatrix3 sqrt2 pnorm (fromMatrix3 le r m q0) msk m0).1 m ∧
    (qToMatrix3 sqrt2 pnorm (fromMatrix3 le r m q0) msk m0).2 = msk := by
  obtain ⟨A, N⟩ := from_matrix3_roundtrip le r m q0 h h2 hr hz
  have hp : pnorm ≠ 0 := by intro e; rw [e, mul_zero] at hn; exact N hn.symm
  obtain ⟨B, C⟩ := (to_matrix3_eq_ref sqrt2 pnorm _ msk m0 hs hn).1 hp
  exact ⟨B.trans A, C⟩

end m2q2m

section q2m2q
variable {K : Type} [Field K] [DecidableEq K]

/-- **Quaternion → Matrix3 → Quaternion**: for a unit quaternion q, `from_matrix3(to_matrix3 q)` (textbook matrix
    `toMatRef q`, which `to_matrix3_eq_ref` identifies with the code's) is ±q: it equals `c·q` with c² = 1,
    whichever diagonal entry is selected, provided r·r = r_sq ≠ 0 -/
theorem q2m2q_roundtrip (le : K → K → Bool) (r : K) (q q0 : Q4 K) (hq : qNormSq q = 1) (h2 : (2 : K) ≠ 0)
    (hr : r * r = fromMatrix3Rsq le (toMatRef q)) (hz : r ≠ 0) :
    ∃ c : K, c * c = 1 ∧ fromMatrix3 le r (toMatRef q) q0 = qScale c q := by
  have hi := argmax3_lt le (toMatRef q 0 0) (toMatRef q 1 1) (toMatRef q 2 2)
  have two : (1 + 1 : K) = 2 := one_add_one_eq_two
  unfold fromMatrix3Rsq at hr
  unfold fromMatrix3
  simp only [hz, decide_false, Bool.false_eq_true, ↓reduceIte]
  generalize argmax3 le (toMatRef q 0 0) (toMatRef q 1 1) (toMatRef q 2 2) = i at hi hr
  have e := qNormSq_eq q
  rw [hq] at e
  match i, hi with
  | 0, _ =>
    refine ⟨2 * q.x / r, ?_, ?_⟩
    · simp only [toMatRef, hq, two] at hr
      field_simp
      linear_combination (-1 : K) * hr
    · simp only [toMatRef, hq, two, Q4.setAt, qScale, Q4.mk.injEq]
      simp only [toMatRef, hq, two] at hr
      refine ⟨?_, ?_, ?_, ?_⟩ <;> field_simp <;> ring1
  | 1, _ =>
    refine ⟨2 * q.y / r, ?_, ?_⟩
    · simp only [toMatRef, hq, two] at hr
      field_simp
      linear_combination (-1 : K) * hr
    · simp only [toMatRef, hq, two, Q4.setAt, qScale, Q4.mk.injEq]
      simp only [toMatRef, hq, two] at hr
      refine ⟨?_, ?_, ?_, ?_⟩ <;> field_simp <;> ring1
  | 2, _ =>
    refine ⟨2 * q.z / r, ?_, ?_⟩
    · simp only [toMatRef, hq, two] at hr
      field_simp
      linear_combination (-1 : K) * hr
    · simp only [toMatRef, hq, two, Q4.setAt, qScale, Q4.mk.injEq]
      simp only [toMatRef, hq, two] at hr
      refine ⟨?_, ?_, ?_, ?_⟩ <;> field_simp <;> ring1

end q2m2q

/-! ## to_euler (matrix3.py:522-589): from_euler ∘ to_euler = id -/
section toeuler
variable {K : Type} [Field K] [DecidableEq K]

/-- the two matrix entries under the square root of the pivot (`sy` resp. `cy`) -/
def eulerPivotEntries (cv : Conv) (m : Mat K) : K × K :=
  let (i, j, k) := eulerIJK cv
  if cv.repetition ≠ 0 then (m i j, m i k) else (m i i, m j i)

/-- **from_euler (to_euler M) = M away from gimbal lock**, all 24 conventions: for every rotation matrix
    (`SO3 m`), with the arctan2 contract built into `atan2SC` (sine and cosine of the returned angle are the
    normalised pair; reduction mod 2π does not change them) and `sqrt` any function with
    `sqrt(x²+y²)² = x²+y²`, `sqrt 1 = 1`, whenever the regular branch is taken and the pivot is non-zero. -/
theorem euler_roundtrip (sqrt : K → K) (small : K → Bool) (m : Mat K) (h : SO3 m) (m0 : Mat K)
    (hsq : ∀ x y : K, sqrt (x * x + y * y) * sqrt (x * x + y * y) = x * x + y * y) (h1 : sqrt 1 = 1) :
    ∀ cv ∈ allConvs, small (eulerPivot sqrt cv m) = false → eulerPivot sqrt cv m ≠ 0 →
      Eq3 (fromEuler cv (toEuler sqrt small cv m).1 (toEuler sqrt small cv m).2.1 (toEuler sqrt small cv m).2.2 m0) m := by
  intro cv hcv hs hz
  simp only [allConvs, axes2tuple, List.map_cons, List.map_nil, List.mem_cons, List.mem_nil_iff, or_false] at hcv
  rcases hcv with rfl | rfl | rfl | rfl | rfl | rfl | rfl | rfl | rfl | rfl | rfl | rfl | rfl | rfl | rfl | rfl | rfl | rfl | rfl | rfl | rfl | rfl | rfl | rfl
  · exact to_euler_row_sxyz sqrt small m h m0 hsq h1 hs hz
  · exact to_euler_row_sxyx sqrt small m h m0 hsq h1 hs hz
  · exact to_euler_row_sxzy sqrt small m h m0 hsq h1 hs hz
  · exact to_euler_row_sxzx sqrt small m h m0 hsq h1 hs hz
  · exact to_euler_row_syzx sqrt small m h m0 hsq h1 hs hz
  · exact to_euler_row_syzy sqrt small m h m0 hsq h1 hs hz
  · exact to_euler_row_syxz sqrt small m h m0 hsq h1 hs hz
  · exact to_euler_row_syxy sqrt small m h m0 hsq h1 hs hz
  · exact to_euler_row_szxy sqrt small m h m0 hsq h1 hs hz
  · exact to_euler_row_szxz sqrt small m h m0 hsq h1 hs hz
  · exact to_euler_row_szyx sqrt small m h m0 hsq h1 hs hz
  · exact to_euler_row_szyz sqrt small m h m0 hsq h1 hs hz
  · exact to_euler_row_rzyx sqrt small m h m0 hsq h1 hs hz
  · exact to_euler_row_rxyx sqrt small m h m0 hsq h1 hs hz
  · exact to_euler_row_ryzx sqrt small m h m0 hsq h1 hs hz
  · exact to_euler_row_rxzx sqrt small m h m0 hsq h1 hs hz
  · exact to_euler_row_rxzy sqrt small m h m0 hsq h1 hs hz
  · exact to_euler_row_ryzy sqrt small m h m0 hsq h1 hs hz
  · exact to_euler_row_rzxy sqrt small m h m0 hsq h1 hs hz
  · exact to_euler_row_ryxy sqrt small m h m0 hsq h1 hs hz
  · exact to_euler_row_ryxz sqrt small m h m0 hsq h1 hs hz
  · exact to_euler_row_rzxz sqrt small m h m0 hsq h1 hs hz
  · exact to_euler_row_rxyz sqrt small m h m0 hsq h1 hs hz
  · exact to_euler_row_rzyz sqrt small m h m0 hsq h1 hs hz

/-- **the gimbal-lock branch**: when `to_euler` takes the branch `sy <= EPSILON` (resp. `cy <= EPSILON`) and
    the lock is exact (the two entries under the square root vanish), `from_euler (to_euler M) = M` as well -/
theorem euler_roundtrip_gimbal (sqrt : K → K) (small : K → Bool) (m : Mat K) (h : SO3 m) (m0 : Mat K)
    (hsq : ∀ x y : K, sqrt (x * x + y * y) * sqrt (x * x + y * y) = x * x + y * y) (h1 : sqrt 1 = 1) :
    ∀ cv ∈ allConvs, small (eulerPivot sqrt cv m) = true →
      (eulerPivotEntries cv m).1 = 0 → (eulerPivotEntries cv m).2 = 0 →
      Eq3 (fromEuler cv (toEuler sqrt small cv m).1 (toEuler sqrt small cv m).2.1 (toEuler sqrt small cv m).2.2 m0) m := by
  intro cv hcv hs z1 z2
  simp only [allConvs, axes2tuple, List.map_cons, List.map_nil, List.mem_cons, List.mem_nil_iff, or_false] at hcv
  rcases hcv with rfl | rfl | rfl | rfl | rfl | rfl | rfl | rfl | rfl | rfl | rfl | rfl | rfl | rfl | rfl | rfl | rfl | rfl | rfl | rfl | rfl | rfl | rfl | rfl
  · exact to_euler_gimbal_row_sxyz sqrt small m h m0 hsq h1 hs z1 z2
  · exact to_euler_gimbal_row_sxyx sqrt small m h m0 hsq h1 hs z1 z2
  · exact to_euler_gimbal_row_sxzy sqrt small m h m0 hsq h1 hs z1 z2
  · exact to_euler_gimbal_row_sxzx sqrt small m h m0 hsq h1 hs z1 z2
  · exact to_euler_gimbal_row_syzx sqrt small m h m0 hsq h1 hs z1 z2
  · exact to_euler_gimbal_row_syzy sqrt small m h m0 hsq h1 hs z1 z2
  · exact to_euler_gimbal_row_syxz sqrt small m h m0 hsq h1 hs z1 z2
  · exact to_euler_gimbal_row_syxy sqrt small m h m0 hsq h1 hs z1 z2
  · exact to_euler_gimbal_row_szxy sqrt small m h m0 hsq h1 hs z1 z2
  · exact to_euler_gimbal_row_szxz sqrt small m h m0 hsq h1 hs z1 z2
  · exact to_euler_gimbal_row_szyx sqrt small m h m0 hsq h1 hs z1 z2
  · exact to_euler_gimbal_row_szyz sqrt small m h m0 hsq h1 hs z1 z2
  · exact to_euler_gimbal_row_rzyx sqrt small m h m0 hsq h1 hs z1 z2
  · exact to_euler_gimbal_row_rxyx sqrt small m h m0 hsq h1 hs z1 z2
  · exact to_euler_gimbal_row_ryzx sqrt small m h m0 hsq h1 hs z1 z2
  · exact to_euler_gimbal_row_rxzx sqrt small m h m0 hsq h1 hs z1 z2
  · exact to_euler_gimbal_row_rxzy sqrt small m h m0 hsq h1 hs z1 z2
  · exact to_euler_gimbal_row_ryzy sqrt small m h m0 hsq h1 hs z1 z2
  · exact to_euler_gimbal_row_rzxy sqrt small m h m0 hsq h1 hs z1 z2
  · exact to_euler_gimbal_row_ryxy sqrt small m h m0 hsq h1 hs z1 z2
  · exact to_euler_gimbal_row_ryxz sqrt small m h m0 hsq h1 hs z1 z2
  · exact to_euler_gimbal_row_rzxz sqrt small m h m0 hsq h1 hs z1 z2
  · exact to_euler_gimbal_row_rxyz sqrt small m h m0 hsq h1 hs z1 z2
  · exact to_euler_gimbal_row_rzyz sqrt small m h m0 hsq h1 hs z1 z2

end toeuler

/-! ## twovec (matrix3.py:59-133) -/
section twovecRing
variable {K : Type} [CommRing K]

/-- the row assembly of `twovec`: a unit vector u1, a unit vector u3 orthogonal to it and their cross product
    (taken in the order the code's branch uses) placed in rows axis1, axis2 (u2), axis3 form a rotation
    matrix — orthonormal with determinant +1 — for all six admissible axis pairs; the buffer is overwritten -/
theorem twovec_rows_rotation (u1 u2 u3 : Nat → K) (m0 : Mat K)
    (e1 : u1 0 * u1 0 + u1 1 * u1 1 + u1 2 * u1 2 = 1) (e3 : u3 0 * u3 0 + u3 1 * u3 1 + u3 2 * u3 2 = 1)
    (e13 : u1 0 * u3 0 + u1 1 * u3 1 + u1 2 * u3 2 = 0)
    (a1 a2 : Nat) (h1 : a1 < 3) (h2 : a2 < 3) (hne : a1 ≠ a2)
    (hu2 : ∀ i, i < 3 → u2 i = if (3 + a2 - a1) % 3 = 1 then crossV u3 u1 i else crossV u1 u3 i) :
    Orthonormal3 (twovecAssemble a1 a2 u1 u2 u3 m0) ∧ det3 (twovecAssemble a1 a2 u1 u2 u3 m0) = 1 := by
  have C : (u3 2 ^ 2 + u3 1 ^ 2 + u3 0 ^ 2) * (u1 0 * u1 0 + u1 1 * u1 1 + u1 2 * u1 2 - 1)
      + (u3 0 * u3 0 + u3 1 * u3 1 + u3 2 * u3 2 - 1)
      + (-u1 2 * u3 2 - u1 1 * u3 1 - u1 0 * u3 0) * (u1 0 * u3 0 + u1 1 * u3 1 + u1 2 * u3 2 - 0) = 0 := by
    rw [e1, e3, e13]; ring
  have q0 := hu2 0 (by omega); have q1 := hu2 1 (by omega); have q2 := hu2 2 (by omega)
  match a1, h1, a2, h2 with
  | 0, _, 1, _ | 1, _, 2, _ | 2, _, 0, _ | 0, _, 2, _ | 1, _, 0, _ | 2, _, 1, _ =>
    simp [crossV] at q0 q1 q2
    constructor
    · refine forall_lt3_2 ⟨?_, ?_, ?_, ?_, ?_, ?_, ?_, ?_, ?_⟩ <;>
        simp [twovecAssemble, Mat.mul, Mat.T, Mat.ident, sumRange, q0, q1, q2] <;>
        first | ring1 | linear_combination e1 | linear_combination e3 | linear_combination e13 | linear_combination C
    · simp [twovecAssemble, det3, q0, q1, q2]
      first | linear_combination C | linear_combination -C
  | 0, _, 0, _ | 1, _, 1, _ | 2, _, 2, _ => exact absurd rfl hne

end twovecRing
section twovecField
variable {K : Type} [Field K] [DecidableEq K]

theorem vdot3 (a b : Nat → K) : vdot 3 a b = a 0 * b 0 + a 1 * b 1 + a 2 * b 2 := by
  simp [vdot, sumRange]

/-- `ucross`: wherever it is unmasked the result is a unit vector orthogonal to both operands, equal to the
    cross product divided by its norm; it is masked iff an operand is masked or the cross product has zero norm -/
theorem ucross_spec (sqrt : K → K) (a b : VecE K)
    (hsq : ∀ v : Nat → K, sqrt (vdot 3 v v) * sqrt (vdot 3 v v) = vdot 3 v v) :
    (ucross sqrt a b).m = (a.m || b.m || decide (sqrt (vdot 3 (crossV a.get b.get) (crossV a.get b.get)) = 0)) ∧
    (sqrt (vdot 3 (crossV a.get b.get) (crossV a.get b.get)) ≠ 0 →
      (∀ i, (ucross sqrt a b).get i = crossV a.get b.get i / sqrt (vdot 3 (crossV a.get b.get) (crossV a.get b.get))) ∧
      vdot 3 (ucross sqrt a b).get (ucross sqrt a b).get = 1 ∧
      vdot 3 (ucross sqrt a b).get a.get = 0 ∧ vdot 3 (ucross sqrt a b).get b.get = 0) := by
  constructor
  · simp only [ucross, unit, divByScalar]
    cases a.m <;> cases b.m <;> simp
  · intro hz
    have hn := hsq (crossV a.get b.get)
    have U := (unit_norm_sq ⟨3, crossV a.get b.get, a.m || b.m⟩ _ hn).1 hz
    refine ⟨fun i => by simp [ucross, unit, divByScalar, hz], U.1, ?_, ?_⟩
    · simp only [ucross, unit, divByScalar, hz, decide_false, Bool.false_eq_true, ↓reduceIte]
      rw [vdot_div_left]
      have : vdot 3 (crossV a.get b.get) a.get = 0 := by simp [vdot, sumRange, crossV]; ring
      rw [this, zero_div]
    · simp only [ucross, unit, divByScalar, hz, decide_false, Bool.false_eq_true, ↓reduceIte]
      rw [vdot_div_left]
      have : vdot 3 (crossV a.get b.get) b.get = 0 := by simp [vdot, sumRange, crossV]; ring
      rw [this, zero_div]

/-- Lagrange: the cross product of two orthogonal unit vectors is a unit vector -/
theorem cross_unit_norm (u w : Nat → K) (eu : vdot 3 u u = 1) (ew : vdot 3 w w = 1) (euw : vdot 3 u w = 0) :
    vdot 3 (crossV u w) (crossV u w) = 1 := by
  rw [vdot3] at eu ew euw ⊢
  simp only [crossV]
  linear_combination (w 0 * w 0 + w 1 * w 1 + w 2 * w 2) * eu + ew - (u 0 * w 0 + u 1 * w 1 + u 2 * w 2) * euw

/-- **twovec**: wherever the result is unmasked it is a rotation matrix (orthonormal, determinant +1), for all
    six admissible axis pairs, with `sqrt` any function satisfying `sqrt(‖v‖²)² = ‖v‖²` and `sqrt 1 = 1`.
    (Degenerate inputs — zero or parallel vectors — are masked: `ucross_spec`, `unit_norm_sq`.) -/
theorem twovec_rotation (sqrt : K → K)
    (hsq : ∀ v : Nat → K, sqrt (vdot 3 v v) * sqrt (vdot 3 v v) = vdot 3 v v) (h1 : sqrt 1 = 1)
    (v1 v2 : VecE K) (a1 a2 : Nat) (l1 : a1 < 3) (l2 : a2 < 3) (hne : a1 ≠ a2) (m0 : Mat K)
    (hm : (twovec sqrt v1 v2 a1 a2 m0).2 = false) :
    Orthonormal3 (twovec sqrt v1 v2 a1 a2 m0).1 ∧ det3 (twovec sqrt v1 v2 a1 a2 m0).1 = 1 := by
  have U1 := unit_norm_sq ⟨3, v1.get, v1.m⟩ (sqrt (vdot 3 v1.get v1.get)) (hsq v1.get)
  have one : (1 : K) ≠ 0 := one_ne_zero
  unfold twovec at hm ⊢
  by_cases hb : (3 + a2 - a1) % 3 = 1
  · simp only [hb, ↓reduceIte, Bool.or_eq_false_iff] at hm ⊢
    obtain ⟨⟨⟨m1, _⟩, m2⟩, m3⟩ := hm
    set u1 := unit v1 (sqrt (vdot 3 v1.get v1.get)) with hu1
    have n1 : sqrt (vdot 3 v1.get v1.get) ≠ 0 := by
      intro e; have := U1.2 e; simp only [unit, divByScalar] at this m1 hu1; rw [hu1] at m1; simp_all [unit, divByScalar]
    have e1 : vdot 3 u1.get u1.get = 1 := by
      have := (U1.1 n1).1; simpa [hu1, unit, divByScalar] using this
    obtain ⟨S3m, S3⟩ := ucross_spec sqrt u1 v2 hsq
    have n3 : sqrt (vdot 3 (crossV u1.get v2.get) (crossV u1.get v2.get)) ≠ 0 := by
      intro e; rw [S3m, e] at m3; simp at m3
    obtain ⟨_, e3, e31, _⟩ := S3 n3
    set u3 := ucross sqrt u1 v2
    have e13 : vdot 3 u1.get u3.get = 0 := by rw [vdot3] at e31 ⊢; linear_combination e31
    obtain ⟨_, S2⟩ := ucross_spec sqrt u3 u1 hsq
    have c2 := cross_unit_norm u3.get u1.get e3 e1 e31
    have n2 : sqrt (vdot 3 (crossV u3.get u1.get) (crossV u3.get u1.get)) = 1 := by rw [c2, h1]
    obtain ⟨g2, _⟩ := S2 (by rw [n2]; exact one)
    rw [vdot3] at e1 e3 e13
    exact twovec_rows_rotation u1.get _ u3.get m0 e1 e3 e13 a1 a2 l1 l2 hne
      (fun i _ => by rw [g2 i, n2, div_one, if_pos hb])
  · simp only [hb, ↓reduceIte, Bool.or_eq_false_iff] at hm ⊢
    obtain ⟨⟨⟨m1, _⟩, m2⟩, m3⟩ := hm
    set u1 := unit v1 (sqrt (vdot 3 v1.get v1.get)) with hu1
    have n1 : sqrt (vdot 3 v1.get v1.get) ≠ 0 := by
      intro e; have := U1.2 e; simp only [unit, divByScalar] at this m1 hu1; rw [hu1] at m1; simp_all [unit, divByScalar]
    have e1 : vdot 3 u1.get u1.get = 1 := by
      have := (U1.1 n1).1; simpa [hu1, unit, divByScalar] using this
    obtain ⟨S3m, S3⟩ := ucross_spec sqrt v2 u1 hsq
    have n3 : sqrt (vdot 3 (crossV v2.get u1.get) (crossV v2.get u1.get)) ≠ 0 := by
      intro e; rw [S3m, e] at m3; simp at m3
    obtain ⟨_, e3, _, e31⟩ := S3 n3
    set u3 := ucross sqrt v2 u1
    have e13 : vdot 3 u1.get u3.get = 0 := by rw [vdot3] at e31 ⊢; linear_combination e31
    obtain ⟨_, S2⟩ := ucross_spec sqrt u1 u3 hsq
    have c2 := cross_unit_norm u1.get u3.get e1 e3 e13
    have n2 : sqrt (vdot 3 (crossV u1.get u3.get) (crossV u1.get u3.get)) = 1 := by rw [c2, h1]
    obtain ⟨g2, _⟩ := S2 (by rw [n2]; exact one)
    rw [vdot3] at e1 e3 e13
    exact twovec_rows_rotation u1.get _ u3.get m0 e1 e3 e13 a1 a2 l1 l2 hne
      (fun i _ => by rw [g2 i, n2, div_one, if_neg hb])

end twovecField

/-! ## pole_rotation and from_rotation -/
section poleRing
variable {K : Type} [CommRing K]

/-- `pole_rotation(ra, dec)` is a rotation matrix: orthonormal with determinant +1, from the two s²+c² = 1 -/
theorem pole_rotation_rotation (ra dec : SC K) (hr : ra.s * ra.s + ra.c * ra.c = 1)
    (hd : dec.s * dec.s + dec.c * dec.c = 1) :
    Orthonormal3 (poleRot ra dec) ∧ det3 (poleRot ra dec) = 1 := by
  constructor
  · refine forall_lt3_2 ⟨?_, ?_, ?_, ?_, ?_, ?_, ?_, ?_, ?_⟩ <;>
      simp [poleRot, Mat.mul, Mat.T, Mat.ident, sumRange] <;>
      first | ring1 | linear_combination (-dec.s * dec.c) * hr | linear_combination hr | linear_combination (dec.c^2) * hr + hd | linear_combination (dec.s^2) * hr + hd
  · simp [poleRot, det3]
    linear_combination (dec.s * dec.s + dec.c * dec.c) * hr + hd

end poleRing

section fromRot
variable {K : Type} [Field K] [DecidableEq K]

/-- **Quaternion.from_rotation (Rodrigues)**: for a non-zero axis (nrm² = ‖v‖² ≠ 0) and s² + c² = 1 of the half
    angle, the quaternion is a unit quaternion, nothing is masked beyond the operands, its rotation matrix is
    orthonormal with determinant +1, fixes the axis (M v = v) and has trace 1 + 2·cos(angle) with
    cos(angle) = c² − s²; a zero axis is masked -/
theorem from_rotation_spec (half : SC K) (am : Bool) (v : VecE K) (nrm : K)
    (hh : half.s * half.s + half.c * half.c = 1) (hn : nrm * nrm = vdot 3 v.get v.get) :
    (nrm = 0 → (fromRotation half am v nrm).2 = true) ∧
    (nrm ≠ 0 →
      (fromRotation half am v nrm).2 = (am || v.m) ∧
      qNormSq (fromRotation half am v nrm).1 = 1 ∧
      Orthonormal3 (toMatRef (fromRotation half am v nrm).1) ∧ det3 (toMatRef (fromRotation half am v nrm).1) = 1 ∧
      (∀ r, r < 3 → Mat.app 3 (toMatRef (fromRotation half am v nrm).1) v.get r = v.get r) ∧
      toMatRef (fromRotation half am v nrm).1 0 0 + toMatRef (fromRotation half am v nrm).1 1 1
        + toMatRef (fromRotation half am v nrm).1 2 2 = 1 + 2 * (half.c * half.c - half.s * half.s)) := by
  constructor
  · intro hz; simp [fromRotation, hz]
  · intro hz
    rw [vdot3] at hn
    have hN : qNormSq (fromRotation half am v nrm).1 = 1 := by
      simp only [fromRotation, hz, decide_false, Bool.false_eq_true, ↓reduceIte, fromParts, qNormSq_eq]
      field_simp
      linear_combination (nrm * nrm) * hh - (half.s * half.s) * hn
    have one : (1 : K) ≠ 0 := one_ne_zero
    refine ⟨?_, hN, toMatRef_orthonormal _ (by rw [hN]; exact one), toMatRef_det _ (by rw [hN]; exact one), ?_, ?_⟩
    · simp only [fromRotation, hz, decide_false]; cases am <;> cases v.m <;> rfl
    · unfold toMatRef
      rw [hN]
      simp only [fromRotation, hz, decide_false, Bool.false_eq_true, ↓reduceIte, fromParts]
      refine forall_lt3 ?_ ?_ ?_ <;> simp only [Mat.app, sumRange] <;> field_simp <;>
        first | ring1 | linear_combination (2 * half.s * half.s * v.get 0) * hn | linear_combination (2 * half.s * half.s * v.get 1) * hn | linear_combination (2 * half.s * half.s * v.get 2) * hn | skip
    · unfold toMatRef
      rw [hN]
      simp only [fromRotation, hz, decide_false, Bool.false_eq_true, ↓reduceIte, fromParts]
      field_simp
      linear_combination (-2 * (nrm * nrm)) * hh + (4 * half.s * half.s) * hn

end fromRot

/-! ## spin and sep: arithmetic cores (no correspondence tie: arcsin / the replacement of zero vectors are T1) -/
section spinsep
variable {K : Type} [Field K] [DecidableEq K]

/-- **spin = Rodrigues' formula**: for a unit pole z (‖z‖² = 1), with r = rx the norm of the perpendicular part
    (r² = ‖perp‖² ≠ 0): result = cos·perp + sin·(z × perp) + (v·z) z; it keeps the component along the pole and the
    norm of the vector -/
theorem spin_rodrigues (v z : Nat → K) (a : SC K) (r : K) (hz : vdot 3 z z = 1)
    (ha : a.s * a.s + a.c * a.c = 1)
    (hr : r * r = vdot 3 (fun i => v i - vdot 3 v z * z i) (fun i => v i - vdot 3 v z * z i)) (hr0 : r ≠ 0) :
    (∀ i, i < 3 → spinCore v z a r r i =
        a.c * (v i - vdot 3 v z * z i) + a.s * crossV z (fun j => v j - vdot 3 v z * z j) i + vdot 3 v z * z i) ∧
    vdot 3 (spinCore v z a r r) z = vdot 3 v z ∧
    vdot 3 (spinCore v z a r r) (spinCore v z a r r) = vdot 3 v v := by
  have nz : ¬ ((v 0 - vdot 3 v z * z 0 = 0) ∧ (v 1 - vdot 3 v z * z 1 = 0) ∧ (v 2 - vdot 3 v z * z 2 = 0)) := by
    rintro ⟨p0, p1, p2⟩
    rw [vdot3] at hr; simp only [p0, p1, p2] at hr
    have : r * r = 0 := by rw [hr]; ring
    exact hr0 (mul_self_eq_zero.mp this)
  have core : ∀ i, spinCore v z a r r i =
      a.c * (v i - vdot 3 v z * z i) + a.s * crossV z (fun j => v j - vdot 3 v z * z j) i + vdot 3 v z * z i := by
    intro i
    have hdec : (decide (v 0 - vdot 3 v z * z 0 = 0) && decide (v 1 - vdot 3 v z * z 1 = 0) &&
        decide (v 2 - vdot 3 v z * z 2 = 0)) = false := by
      by_contra hc
      simp only [Bool.not_eq_false, Bool.and_eq_true, decide_eq_true_eq] at hc
      exact nz ⟨hc.1.1, hc.1.2, hc.2⟩
    simp only [spinCore, hdec, Bool.false_eq_true, ↓reduceIte, hr0]
    match i with
    | 0 => simp only [crossV]; field_simp
    | 1 => simp only [crossV]; field_simp
    | (n + 2) => simp only [crossV]; field_simp
  refine ⟨fun i _ => core i, ?_, ?_⟩
  · rw [vdot3] at hz ⊢
    rw [core 0, core 1, core 2]
    simp only [crossV, vdot3]
    linear_combination (v 0 * z 0 + v 1 * z 1 + v 2 * z 2) * (1 - a.c) * hz
  · rw [vdot3, vdot3]
    rw [core 0, core 1, core 2]
    rw [vdot3] at hz
    simp only [crossV]
    have hd := vdot3 v z
    generalize vdot 3 v z = d at hd ⊢
    linear_combination
      ((v 0 - d * z 0) * (v 0 - d * z 0) + (v 1 - d * z 1) * (v 1 - d * z 1) + (v 2 - d * z 2) * (v 2 - d * z 2)) * ha
      + (a.s * a.s * ((v 0 - d * z 0) * (v 0 - d * z 0) + (v 1 - d * z 1) * (v 1 - d * z 1) + (v 2 - d * z 2) * (v 2 - d * z 2))) * hz
      + (-(a.s * a.s) * ((v 0 - d * z 0) * z 0 + (v 1 - d * z 1) * z 1 + (v 2 - d * z 2) * z 2) + 2 * a.c * d - 2 * d)
          * (-hd - d * hz)

/-- **sep**: for unit vectors a, b, a sign σ = ±1 and d = ‖a − σ b‖ (d² = ‖a − σb‖²), the cosine of the angle the code
    assembles from `2σ·arcsin(d/2) + (σ<0)·π` is the dot product a·b — for either sign, so the supplementary-angle
    trick used near π does not change the result -/
theorem sep_cosine (a b : Nat → K) (sign d : K) (h2 : (2 : K) ≠ 0) (hs : sign * sign = 1)
    (ha : vdot 3 a a = 1) (hb : vdot 3 b b = 1)
    (hd : d * d = vdot 3 (fun i => a i - sign * b i) (fun i => a i - sign * b i)) :
    sepCos sign d = vdot 3 a b := by
  rw [vdot3] at ha hb hd ⊢
  have two : (1 + 1 : K) = 2 := one_add_one_eq_two
  simp only [sepCos, two]
  field_simp
  linear_combination (-sign) * hd + (2 * (a 0 * b 0 + a 1 * b 1 + a 2 * b 2) - sign) * hs - sign * ha - sign * (sign * sign) * hb

end spinsep

/-! ## masks of the operands carry into every result; leading shapes broadcast -/
section lifting
variable {K : Type}

/-- every lifted binary operation (dot, cross, outer, element_mul, matrix product, rotate …): the
    result has the broadcast leading shape, each element is the item operation applied to the
    broadcast operand elements, and an element is masked iff one of its two operand elements is -/
theorem lift2_spec (f : Item K → Item K → Except Err (Item K)) (a b : Opd K) (r : Opd K)
    (h : lift2 f a b = .ok r) :
    bcast a.shape b.shape = some r.shape ∧
    (∀ i, r.mask i = (a.mask (bidx a.shape i) || b.mask (bidx b.shape i))) ∧
    (∀ i x, f (a.item (bidx a.shape i)) (b.item (bidx b.shape i)) = .ok x → ∀ j, r.val i j = x.get j) := by
  unfold lift2 at h
  split at h
  · simp at h
  · rename_i out hout
    split at h
    · simp at h
    · rename_i r0 hr0
      simp only [Except.ok.injEq] at h
      subst h
      refine ⟨hout, fun i => rfl, ?_⟩
      intro i x hx j
      simp only [hx]

/-- every lifted unary operation (norm_sq, transpose …) keeps the leading shape and the mask -/
theorem lift1_spec (f : Item K → Except Err (Item K)) (a r : Opd K) (h : lift1 f a = .ok r) :
    r.shape = a.shape ∧ (∀ i, r.mask i = a.mask i) ∧
    (∀ i x, f (a.item i) = .ok x → ∀ j, r.val i j = x.get j) := by
  unfold lift1 at h
  split at h
  · simp at h
  · simp only [Except.ok.injEq] at h
    subst h
    refine ⟨rfl, fun i => rfl, ?_⟩
    intro i x hx j
    simp only [hx]

end lifting

end PMV.Algebra
