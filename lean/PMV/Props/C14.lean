import PMV.Model.Logic3
import PMV.Lemmas.Lanes
/-
  C14 — equality, ordering and three-valued logic follow their truth tables under masks.
  Property theorems only.  Core Lean; no Mathlib.
-/
namespace PMV.Logic3

/-! #### Kleene element operators: code = documented table, for every representation flag -/

/-- `tvl_and` returns the Kleene conjunction, whatever is stored under the masks and whichever
    of the two code branches (`is_one_false`) is taken. -/
theorem tvl_and_table (sf af : Bool) (s a : Cell)
    (hs : sf = true → s.m = false) (ha : af = true → a.m = false) :
    (tvlAndCode sf af s a).t3 = kand s.t3 a.t3 := by
  obtain ⟨sv, sm⟩ := s; obtain ⟨av, am⟩ := a
  cases sf <;> cases af <;> cases sv <;> cases sm <;> cases av <;> cases am <;>
    first | rfl | exact absurd (hs rfl) (by decide) | exact absurd (ha rfl) (by decide)

theorem tvl_or_table (sf af : Bool) (s a : Cell)
    (hs : sf = true → s.m = false) (ha : af = true → a.m = false) :
    (tvlOrCode sf af s a).t3 = kor s.t3 a.t3 := by
  obtain ⟨sv, sm⟩ := s; obtain ⟨av, am⟩ := a
  cases sf <;> cases af <;> cases sv <;> cases sm <;> cases av <;> cases am <;>
    first | rfl | exact absurd (hs rfl) (by decide) | exact absurd (ha rfl) (by decide)

/-- `&`, `|`, `^` are strict: masked iff an input is masked, else the Boolean operator -/
theorem strict_table (op : Bool → Bool → Bool) (s a : Cell) :
    (strictCode op s a).t3 = strict2 op s.t3 a.t3 := by
  obtain ⟨sv, sm⟩ := s; obtain ⟨av, am⟩ := a
  cases sv <;> cases sm <;> cases av <;> cases am <;>
    simp [strictCode, Cell.t3, strict2, T3.isT] <;> cases op _ _ <;> rfl

theorem not_table (s : Cell) : (notCode s).t3 = knot s.t3 := by
  obtain ⟨sv, sm⟩ := s
  cases sv <;> cases sm <;> rfl

/-! #### Kleene reductions over a lane of any length -/

theorem tvl_any_array_cons (c : Cell) (cs : List Cell) :
    (tvlAnyCode .array (c :: cs)).t3 = kor c.t3 (tvlAnyCode .array cs).t3 := by
  simp only [tvlAnyCode, List.any_cons]
  generalize (cs.any fun c => c.v && !c.m) = p
  generalize (cs.any (·.m)) = q
  obtain ⟨v, m⟩ := c
  cases v <;> cases m <;> cases p <;> cases q <;> rfl

/-- `tvl_any` over a lane with an array mask is the Kleene disjunction of the lane -/
theorem tvl_any_array (xs : List Cell) :
    (tvlAnyCode .array xs).t3 = kany (xs.map Cell.t3) := by
  induction xs with
  | nil => rfl
  | cons c cs ih => rw [tvl_any_array_cons, ih]; rfl

theorem tvl_all_array_cons (c : Cell) (cs : List Cell) :
    (tvlAllCode .array (c :: cs)).t3 = kand c.t3 (tvlAllCode .array cs).t3 := by
  simp only [tvlAllCode, List.all_cons, List.any_cons]
  generalize (cs.all fun c => c.v || c.m) = p
  generalize (cs.any (·.m)) = q
  obtain ⟨v, m⟩ := c
  cases v <;> cases m <;> cases p <;> cases q <;> rfl

theorem tvl_all_array (xs : List Cell) :
    (tvlAllCode .array xs).t3 = kall (xs.map Cell.t3) := by
  induction xs with
  | nil => rfl
  | cons c cs ih => rw [tvl_all_array_cons, ih]; rfl

/-- a lane none of whose elements is masked (the mask is the scalar False) -/
theorem tvl_any_scalar_false (xs : List Cell) (h : Rep.ok (.scalar false) xs) :
    (tvlAnyCode (.scalar false) xs).t3 = kany (xs.map Cell.t3) := by
  induction xs with
  | nil => rfl
  | cons c cs ih =>
    have hc : c.m = false := h c (by simp)
    have hcs : Rep.ok (.scalar false) cs := fun d hd => h d (by simp [hd])
    have e : (tvlAnyCode (.scalar false) (c :: cs)).t3
        = kor c.t3 (tvlAnyCode (.scalar false) cs).t3 := by
      simp only [tvlAnyCode, List.any_cons]
      generalize cs.any (·.v) = p
      obtain ⟨v, m⟩ := c
      subst hc
      cases v <;> cases p <;> rfl
    rw [e, ih hcs]; rfl

theorem tvl_all_scalar_false (xs : List Cell) (h : Rep.ok (.scalar false) xs) :
    (tvlAllCode (.scalar false) xs).t3 = kall (xs.map Cell.t3) := by
  induction xs with
  | nil => rfl
  | cons c cs ih =>
    have hc : c.m = false := h c (by simp)
    have hcs : Rep.ok (.scalar false) cs := fun d hd => h d (by simp [hd])
    have e : (tvlAllCode (.scalar false) (c :: cs)).t3
        = kand c.t3 (tvlAllCode (.scalar false) cs).t3 := by
      simp only [tvlAllCode, List.all_cons]
      generalize cs.all (·.v) = p
      obtain ⟨v, m⟩ := c
      subst hc
      cases v <;> cases p <;> rfl
    rw [e, ih hcs]; rfl

theorem kany_all_m : ∀ (xs : List T3), xs ≠ [] → (∀ x ∈ xs, x = .m) → kany xs = .m
  | [x], _, h => by have := h x (by simp); subst this; rfl
  | x :: y :: ys, _, h => by
    have hx := h x (by simp); subst hx
    have := kany_all_m (y :: ys) (by simp) (fun z hz => h z (by simp [hz]))
    show kor .m (kany (y :: ys)) = .m
    rw [this]; rfl

theorem kall_all_m : ∀ (xs : List T3), xs ≠ [] → (∀ x ∈ xs, x = .m) → kall xs = .m
  | [x], _, h => by have := h x (by simp); subst this; rfl
  | x :: y :: ys, _, h => by
    have hx := h x (by simp); subst hx
    have := kall_all_m (y :: ys) (by simp) (fun z hz => h z (by simp [hz]))
    show kand .m (kall (y :: ys)) = .m
    rw [this]; rfl

/-- a lane all of whose elements are masked (the mask is the scalar True): unknown when the lane
    has elements; Kleene any/all of NO elements is False/True (repaired on main: the scalar-mask
    branch answers `mask and size > 0`), so no hypothesis on the length is needed. -/
theorem tvl_any_scalar_true (xs : List Cell) (h : Rep.ok (.scalar true) xs) :
    (tvlAnyCode (.scalar true) xs).t3 = kany (xs.map Cell.t3) := by
  cases xs with
  | nil => rfl
  | cons c cs =>
    rw [kany_all_m _ (by simp)]
    · rfl
    · intro x hx
      obtain ⟨d, hd, rfl⟩ := List.mem_map.mp hx
      simp [Cell.t3, h d hd]

theorem tvl_all_scalar_true (xs : List Cell) (h : Rep.ok (.scalar true) xs) :
    (tvlAllCode (.scalar true) xs).t3 = kall (xs.map Cell.t3) := by
  cases xs with
  | nil => rfl
  | cons c cs =>
    rw [kall_all_m _ (by simp)]
    · rfl
    · intro x hx
      obtain ⟨d, hd, rfl⟩ := List.mem_map.mp hx
      simp [Cell.t3, h d hd]

/-- Kleene any/all do what the documentation says, for every lane:
    True iff some element is True; False iff every element is False; otherwise masked. -/
theorem kany_spec (xs : List T3) :
    (kany xs = .t ↔ .t ∈ xs) ∧ (kany xs = .f ↔ ∀ x ∈ xs, x = .f) := by
  induction xs with
  | nil => simp [kany]
  | cons x xs ih =>
    have e : kany (x :: xs) = kor x (kany xs) := rfl
    rw [e]; obtain ⟨i1, i2⟩ := ih
    cases x <;> cases h : kany xs <;> simp_all [kor] <;> grind

theorem kall_spec (xs : List T3) :
    (kall xs = .f ↔ .f ∈ xs) ∧ (kall xs = .t ↔ ∀ x ∈ xs, x = .t) := by
  induction xs with
  | nil => simp [kall]
  | cons x xs ih =>
    have e : kall (x :: xs) = kand x (kall xs) := rfl
    rw [e]; obtain ⟨i1, i2⟩ := ih
    cases x <;> cases h : kall xs <;> simp_all [kand] <;> grind

/-! #### `any()` / `all()` ignore masked elements; masked iff every element is masked -/

theorem all_isM (xs : List Cell) : (xs.map Cell.t3).all T3.isM = xs.all (·.m) := by
  induction xs with
  | nil => rfl
  | cons c cs ih =>
    obtain ⟨v, m⟩ := c
    simp only [List.map, List.all_cons, ih]; cases v <;> cases m <;> rfl

theorem any_isT (xs : List Cell) :
    (xs.map Cell.t3).any T3.isT = xs.any (fun c => c.v && !c.m) := by
  induction xs with
  | nil => rfl
  | cons c cs ih =>
    obtain ⟨v, m⟩ := c
    simp only [List.map, List.any_cons, ih]; cases v <;> cases m <;> rfl

theorem any_isF (xs : List Cell) :
    (xs.map Cell.t3).any T3.isF = xs.any (fun c => !c.v && !c.m) := by
  induction xs with
  | nil => rfl
  | cons c cs ih =>
    obtain ⟨v, m⟩ := c
    simp only [List.map, List.any_cons, ih]; cases v <;> cases m <;> rfl

theorem any_array (xs : List Cell) : (anyCode .array xs).t3 = ignAny (xs.map Cell.t3) := by
  simp only [ignAny, all_isM, any_isT, anyCode, Cell.t3]

theorem all_array (xs : List Cell) : (allCode .array xs).t3 = ignAll (xs.map Cell.t3) := by
  have : (xs.all fun c => c.v || c.m) = !(xs.any fun c => !c.v && !c.m) := by
    induction xs with
    | nil => rfl
    | cons c cs ih =>
      obtain ⟨v, m⟩ := c
      simp only [List.all_cons, List.any_cons, ih]; cases v <;> cases m <;> simp
  simp only [ignAll, all_isM, any_isF, allCode, Cell.t3, this]
  cases (xs.all (·.m)) <;> cases (xs.any fun c => !c.v && !c.m) <;> rfl

/-! #### equality -/

theorem itemNe_eq_not_itemEq : ∀ (x y : List Int), itemNe x y = !itemEq x y
  | [], [] => rfl
  | [], _ :: _ => rfl
  | _ :: _, [] => rfl
  | a :: x, b :: y => by
    simp only [itemNe, itemEq, itemNe_eq_not_itemEq x y, bne]
    cases (a == b) <;> cases itemEq x y <;> rfl

theorem itemEq_iff : ∀ (x y : List Int), itemEq x y = true ↔ x = y
  | [], [] => by simp [itemEq]
  | [], _ :: _ => by simp [itemEq]
  | _ :: _, [] => by simp [itemEq]
  | a :: x, b :: y => by simp [itemEq, itemEq_iff x y]

/-- `==` and `!=` are complementary at every element -/
theorem eq_ne_complementary (s a : ICell) : neCode s a = !eqCode s a := by
  obtain ⟨sv, sm⟩ := s; obtain ⟨av, am⟩ := a
  simp only [neCode, eqCode, itemNe_eq_not_itemEq]
  cases sm <;> cases am <;> simp

theorem eq_symm (s a : ICell) : eqCode s a = eqCode a s := by
  obtain ⟨sv, sm⟩ := s; obtain ⟨av, am⟩ := a
  have : itemEq sv av = itemEq av sv := by
    rw [Bool.eq_iff_iff, itemEq_iff, itemEq_iff]; exact eq_comm
  simp only [eqCode, this]
  cases sm <;> cases am <;> simp

theorem eq_refl (s : ICell) : eqCode s s = true := by
  obtain ⟨sv, sm⟩ := s
  have : itemEq sv sv = true := (itemEq_iff sv sv).2 rfl
  simp only [eqCode, this]
  cases sm <;> simp

/-- full table: both masked ⇒ equal (whatever is stored underneath); exactly one masked ⇒
    unequal; neither masked ⇒ whole items are compared -/
theorem eq_table (s a : ICell) :
    eqCode s a = (if s.m && a.m then true else if s.m || a.m then false
                  else decide (s.vals = a.vals)) := by
  obtain ⟨sv, sm⟩ := s; obtain ⟨av, am⟩ := a
  simp only [eqCode]
  cases sm <;> cases am <;> simp
  rw [Bool.eq_iff_iff]; simp [itemEq_iff]

/-! #### ordering -/

/-- `<`, `<=`, `>`, `>=` are False wherever either side is masked, else the comparison -/
theorem ord_table (o : Ord) (s a : NCell) :
    ordCode o s a = (if s.m || a.m then false else o.cmp s.v a.v) := by
  cases h1 : s.m <;> cases h2 : a.m <;> simp [ordCode, h1, h2]

/-- the tvl_ comparisons are unknown iff either side is unknown, else the comparison -/
theorem tvl_ord_table (o : Ord) (s a : NCell) :
    (tvlOrdCode o s a).t3 = tvlCmpSpec (o.cmp s.v a.v) s.m a.m := by
  cases h1 : s.m <;> cases h2 : a.m <;> cases h3 : o.cmp s.v a.v <;>
    simp [tvlOrdCode, ordCode, tvlCmpSpec, Cell.t3, h1, h2, h3]

theorem tvl_eq_table (s a : ICell) :
    (tvlEqCode s a).t3 = tvlCmpSpec (decide (s.vals = a.vals)) s.m a.m := by
  have := eq_table s a
  cases h1 : s.m <;> cases h2 : a.m <;> cases h3 : decide (s.vals = a.vals) <;>
    simp_all [tvlEqCode, tvlCmpSpec, Cell.t3]

theorem tvl_ne_table (s a : ICell) :
    (tvlNeCode s a).t3 = tvlCmpSpec (!decide (s.vals = a.vals)) s.m a.m := by
  have := eq_table s a
  have hc := eq_ne_complementary s a
  cases h1 : s.m <;> cases h2 : a.m <;> cases h3 : decide (s.vals = a.vals) <;>
    simp_all [tvlNeCode, tvlCmpSpec, Cell.t3]

/-! #### truth testing agrees with all()/any() of the comparison -/

/-- `bool(a == b)`-style results (`_truth_if_all_`) equal `all()` of the comparison whenever
    the comparison result is unmasked (which `==`, `<` … results always are) -/
theorem bool_if_all (xs : List Cell) (shapeless : Bool) (h : ∀ c ∈ xs, c.m = false) :
    boolCode true false shapeless xs = some (xs.all (·.v)) := by
  have e : (xs.all fun c => c.v && !c.m) = xs.all (·.v) := by
    induction xs with
    | nil => rfl
    | cons c cs ih =>
      have := h c (by simp)
      simp [List.all_cons, this, ih (fun d hd => h d (by simp [hd]))]
  simp [boolCode, e]

theorem bool_if_any (xs : List Cell) (shapeless : Bool) (h : ∀ c ∈ xs, c.m = false) :
    boolCode false true shapeless xs = some (xs.any (·.v)) := by
  have e : (xs.any fun c => c.v && !c.m) = xs.any (·.v) := by
    induction xs with
    | nil => rfl
    | cons c cs ih =>
      have := h c (by simp)
      simp [List.any_cons, this, ih (fun d hd => h d (by simp [hd]))]
  simp [boolCode, e]

/-- without the flags, only an unmasked shapeless object has a truth value -/
theorem bool_plain_none (xs : List Cell) : boolCode false false false xs = none := by
  simp [boolCode]

theorem bool_plain_shapeless (c : Cell) :
    boolCode false false true [c] = if c.m then none else some c.v := by
  simp [boolCode]

/-! #### lifting to n-dimensional objects: every broadcast pair of shapes, every set of axes

The array-level operations are `Arr.map2` (NumPy broadcasting, `bidx`) of the element functions and
`Arr.reduce` (lanes) of the lane kernels; `PMV.lanes_partition` shows that the lanes of a reduction
partition the input for every shape and every set of axes. -/

theorem tvl_and_nd (a b : Arr Cell) (sf af : Bool) (r : Arr Cell)
    (hs : sf = true → ∀ i, (a.get i).m = false) (ha : af = true → ∀ i, (b.get i).m = false)
    (h : Arr.map2 (tvlAndCode sf af) a b = some r) (i : Index) :
    (r.get i).t3 = kand (a.get (bidx a.shape i)).t3 (b.get (bidx b.shape i)).t3 := by
  simp only [Arr.map2, Option.map_eq_some_iff] at h
  obtain ⟨out, _, rfl⟩ := h
  exact tvl_and_table sf af _ _ (fun h => hs h _) (fun h => ha h _)

theorem tvl_or_nd (a b : Arr Cell) (sf af : Bool) (r : Arr Cell)
    (hs : sf = true → ∀ i, (a.get i).m = false) (ha : af = true → ∀ i, (b.get i).m = false)
    (h : Arr.map2 (tvlOrCode sf af) a b = some r) (i : Index) :
    (r.get i).t3 = kor (a.get (bidx a.shape i)).t3 (b.get (bidx b.shape i)).t3 := by
  simp only [Arr.map2, Option.map_eq_some_iff] at h
  obtain ⟨out, _, rfl⟩ := h
  exact tvl_or_table sf af _ _ (fun h => hs h _) (fun h => ha h _)

theorem strict_nd (op : Bool → Bool → Bool) (a b r : Arr Cell)
    (h : Arr.map2 (strictCode op) a b = some r) (i : Index) :
    (r.get i).t3 = strict2 op (a.get (bidx a.shape i)).t3 (b.get (bidx b.shape i)).t3 := by
  simp only [Arr.map2, Option.map_eq_some_iff] at h
  obtain ⟨out, _, rfl⟩ := h
  exact strict_table op _ _

/-- along any axes of an object of any shape: the output element at `o` is the Kleene
    disjunction of its lane, and the lane holds exactly the input elements whose kept
    coordinates are `o` (second conjunct, from `lanes_partition`). -/
theorem tvl_any_nd (a : Arr Cell) (axes : List Nat) (o : Index) :
    ((a.reduce (tvlAnyCode .array) axes).get o).t3 = kany ((a.lane axes o).map Cell.t3) ∧
    (∀ i, Valid a.shape i → dropAxes axes i = o → a.get i ∈ a.lane axes o) :=
  ⟨tvl_any_array _, fun i hi ho => ho ▸ mem_lane a axes i hi⟩

theorem tvl_all_nd (a : Arr Cell) (axes : List Nat) (o : Index) :
    ((a.reduce (tvlAllCode .array) axes).get o).t3 = kall ((a.lane axes o).map Cell.t3) ∧
    (∀ i, Valid a.shape i → dropAxes axes i = o → a.get i ∈ a.lane axes o) :=
  ⟨tvl_all_array _, fun i hi ho => ho ▸ mem_lane a axes i hi⟩

theorem any_nd (a : Arr Cell) (axes : List Nat) (o : Index) :
    ((a.reduce (anyCode .array) axes).get o).t3 = ignAny ((a.lane axes o).map Cell.t3) :=
  any_array _

theorem all_nd (a : Arr Cell) (axes : List Nat) (o : Index) :
    ((a.reduce (allCode .array) axes).get o).t3 = ignAll ((a.lane axes o).map Cell.t3) :=
  all_array _

theorem eq_nd (a b : Arr ICell) (r : Arr Bool) (h : Arr.map2 eqCode a b = some r) (i : Index) :
    r.get i = eqCode (a.get (bidx a.shape i)) (b.get (bidx b.shape i)) := by
  simp only [Arr.map2, Option.map_eq_some_iff] at h
  obtain ⟨out, _, rfl⟩ := h
  rfl

/-! #### whole-operand level of `==` / `!=`: incompatible operands are unequal, never an error -/

/-- operands whose item shapes (numerator and denominator axes) differ, or whose shapes cannot be broadcast, are reported
    as unequal: `==` is the Python bool False and `!=` is True -/
theorem eq_ne_incompatible (itemS itemA : List Nat) (s a : Arr ICell)
    (h : itemS ≠ itemA ∨ bcast s.shape a.shape = none) :
    eqTop itemS itemA s a = .whole false ∧ neTop itemS itemA s a = .whole true := by
  have hc : compatCode itemS itemA s.shape a.shape = false := by
    unfold compatCode
    rcases h with h | h
    · simp [h]
    · simp [h]
  simp [eqTop, neTop, hc]

/-- compatible operands (equal item shapes, broadcastable shapes) are compared element by element over the broadcast
    shape, each element by the `==` / `!=` table -/
theorem eq_ne_compatible (item : List Nat) (s a : Arr ICell) (out : Shape)
    (hb : bcast s.shape a.shape = some out) :
    (∃ r, eqTop item item s a = .elems r ∧ r.shape = out ∧
        ∀ i, r.get i = eqCode (s.get (bidx s.shape i)) (a.get (bidx a.shape i))) ∧
    (∃ r, neTop item item s a = .elems r ∧ r.shape = out ∧
        ∀ i, r.get i = neCode (s.get (bidx s.shape i)) (a.get (bidx a.shape i))) := by
  have hc : compatCode item item s.shape a.shape = true := by simp [compatCode, hb]
  constructor
  · refine ⟨⟨out, fun i => eqCode (s.get (bidx s.shape i)) (a.get (bidx a.shape i))⟩, ?_, rfl, fun _ => rfl⟩
    simp [eqTop, hc, Arr.map2, hb]
  · refine ⟨⟨out, fun i => neCode (s.get (bidx s.shape i)) (a.get (bidx a.shape i))⟩, ?_, rfl, fun _ => rfl⟩
    simp [neTop, hc, Arr.map2, hb]

/-- `==` never fails and `!=` is its complement at the whole-operand level too -/
theorem eq_ne_top_complementary (itemS itemA : List Nat) (s a : Arr ICell) :
    (∃ b, eqTop itemS itemA s a = .whole b ∧ neTop itemS itemA s a = .whole (!b)) ∨
    (∃ r r', eqTop itemS itemA s a = .elems r ∧ neTop itemS itemA s a = .elems r' ∧ r'.shape = r.shape ∧
        ∀ i, r'.get i = !r.get i) := by
  cases hc : compatCode itemS itemA s.shape a.shape
  · left; exact ⟨false, by simp [eqTop, hc], by simp [neTop, hc]⟩
  · cases hb : bcast s.shape a.shape with
    | none => left; exact ⟨false, by simp [eqTop, hc, Arr.map2, hb], by simp [neTop, hc, Arr.map2, hb]⟩
    | some out =>
      right
      refine ⟨⟨out, fun i => eqCode (s.get (bidx s.shape i)) (a.get (bidx a.shape i))⟩,
              ⟨out, fun i => neCode (s.get (bidx s.shape i)) (a.get (bidx a.shape i))⟩, ?_, ?_, rfl, ?_⟩
      · simp [eqTop, hc, Arr.map2, hb]
      · simp [neTop, hc, Arr.map2, hb]
      · intro i; exact eq_ne_complementary _ _

/-- `tvl_eq` / `tvl_ne` of operands that cannot be compared element by element (different item shapes, shapes that do not
    broadcast) give ONE answer: unequal, and unknown exactly when one of the operands is entirely masked -/
theorem tvl_cmp_incompatible (isEq : Bool) (itemS itemA : List Nat) (allS allA : Bool) (s a : Arr ICell)
    (h : itemS ≠ itemA ∨ bcast s.shape a.shape = none) :
    tvlCmpTop isEq itemS itemA allS allA s a = .whole ⟨!isEq, allS || allA⟩ := by
  have hc : compatCode itemS itemA s.shape a.shape = false := by
    unfold compatCode
    rcases h with h | h <;> simp [h]
  simp [tvlCmpTop, hc, tvlWholeCode]

/-- compatible operands: one Kleene answer per element of the broadcast shape -/
theorem tvl_cmp_compatible (isEq : Bool) (item : List Nat) (allS allA : Bool) (s a : Arr ICell) (out : Shape)
    (hb : bcast s.shape a.shape = some out) :
    ∃ r, tvlCmpTop isEq item item allS allA s a = .elems r ∧ r.shape = out ∧
      ∀ i, r.get i = (if isEq then tvlEqCode else tvlNeCode) (s.get (bidx s.shape i)) (a.get (bidx a.shape i)) := by
  have hc : compatCode item item s.shape a.shape = true := by simp [compatCode, hb]
  refine ⟨⟨out, fun i => (if isEq then tvlEqCode else tvlNeCode) (s.get (bidx s.shape i)) (a.get (bidx a.shape i))⟩,
          ?_, rfl, fun _ => rfl⟩
  simp [tvlCmpTop, hc, Arr.map2, hb]

/-! #### non-vacuity -/
example : (tvlAndCode false false ⟨true, true⟩ ⟨true, false⟩).t3 = .m := by decide
example : (tvlAnyCode .array [⟨true, true⟩, ⟨false, false⟩]).t3 = .m := by decide
example : Rep.ok (.scalar true) [⟨true, true⟩, ⟨false, true⟩] := by simp [Rep.ok]
example : (tvlAnyCode (.scalar true) []).t3 = .f := by decide
example : eqCode ⟨[1, 2], true⟩ ⟨[3, 4], true⟩ = true := by decide
example : compatCode [] [3] [] [] = false ∧ compatCode [3] [3] [2, 1] [3] = true := by decide

end PMV.Logic3
