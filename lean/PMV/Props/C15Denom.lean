import PMV.Props.C15Scalars
/-
  C15 — denominator operations (transpose_denom, reshape_denom / flatten_denom, extract_denom) and slice_numer:
  ONE map on the denominator (resp. numerator) part of the index; leading index, the other item part and the
  mask are untouched.  (These operations return objects without derivatives.)
-/
namespace PMV.C15
open PMV PMV.NpShape PMV.Shaper PMV.ItemOps

variable {α : Type}

structure DenomReindex (πd : Index → Index) (d' : Shape) (q q' : Q0 α) : Prop where
  shape : q'.shape = q.shape
  numer : q'.numer = q.numer
  denom : q'.denom = d'
  mask : q'.mask = q.mask
  vals : ∀ i kn kd : Index, Valid q.shape i → Valid q.numer kn → Valid d' kd →
    q'.vals.get (i ++ kn ++ kd) = q.vals.get (i ++ kn ++ πd kd)
  wf : WF0 q'

/-- `np.swapaxes(values, off+a1, off+a2)` with two of the LAST `m` axes of an array over `lead ++ tail` -/
theorem swapaxes_tail {β : Type} (x : Arr β) (lead tail : Shape) {a1 a2 : Nat}
    (hx : x.shape = lead ++ tail) (h1 : a1 < tail.length) (h2 : a2 < tail.length) :
    ∃ y, NpShape.swapaxes x ((lead.length + a1 : Nat) : Int) ((lead.length + a2 : Nat) : Int) = .ok y ∧
      y.shape = lead ++ permute (swapPerm tail.length a1 a2) tail ∧
      ∀ i k : Index, i.length = lead.length → k.length = tail.length →
        y.get (i ++ k) = x.get (i ++ unpermute (swapPerm tail.length a1 a2) k) := by
  have hq := swapPerm_isPerm h1 h2
  have hL : x.shape.length = lead.length + tail.length := by rw [hx, List.length_append]
  have e1 : NpShape.normAxis x.shape.length ((lead.length + a1 : Nat) : Int) = .ok (lead.length + a1) := by
    have := normAxis_of_nonneg (n := x.shape.length) (b := ((lead.length + a1 : Nat) : Int)) (by omega) (by rw [hL]; omega)
    rwa [Int.toNat_natCast] at this
  have e2 : NpShape.normAxis x.shape.length ((lead.length + a2 : Nat) : Int) = .ok (lead.length + a2) := by
    have := normAxis_of_nonneg (n := x.shape.length) (b := ((lead.length + a2 : Nat) : Int)) (by omega) (by rw [hL]; omega)
    rwa [Int.toNat_natCast] at this
  refine ⟨_, swapaxes_ok x e1 e2, ?_, ?_⟩
  · show permute _ x.shape = _
    rw [hL, swapPerm_item _ _ _ _ h1 h2, hx, permute_item_shape lead tail hq rfl]
  · intro i k hi hk
    show x.get (unpermute _ (i ++ k)) = _
    rw [hL, swapPerm_item _ _ _ _ h1 h2, ← hi, unpermute_item_index i k hq hk]

/-- **transpose_denom**: the denominator part of the index is permuted; everything else is untouched -/
theorem transposeDenom_reindex {q r : Q α} {axis1 axis2 : Int} {a1 a2 : Nat} (hwf : WF0 q.base)
    (hx1 : itemAxis q.base.denom.length axis1 = .ok a1) (hx2 : itemAxis q.base.denom.length axis2 = .ok a2)
    (h : transposeDenom q axis1 axis2 = .ok r) :
    r.derivs = [] ∧
    DenomReindex (unpermute (swapPerm q.base.denom.length a1 a2))
      (permute (swapPerm q.base.denom.length a1 a2) q.base.denom) q.base r.base := by
  obtain ⟨l1, _, _⟩ := itemAxis_ok hx1
  obtain ⟨l2, _, _⟩ := itemAxis_ok hx2
  unfold transposeDenom at h
  obtain ⟨b1, e1, h⟩ := bind_ok.1 h
  rw [hx1] at e1; injection e1 with e1; subst e1
  obtain ⟨b2, e2, h⟩ := bind_ok.1 h
  rw [hx2] at e2; injection e2 with e2; subst e2
  simp only at h
  obtain ⟨nv, hnv, h⟩ := bind_ok.1 h
  obtain ⟨b, hb, h⟩ := bind_ok.1 h
  have := pure_ok.1 h; subst this
  obtain ⟨y, hy, hysh, hyget⟩ := swapaxes_tail q.base.vals (q.base.shape ++ q.base.numer) q.base.denom hwf.vshape l1 l2
  rw [List.length_append] at hy
  rw [hnv] at hy; injection hy with hy; subst hy
  obtain ⟨_, c1, c2, c3, c4, c5, c6⟩ := construct_split (s := q.base.shape) (n := q.base.numer)
    (d := permute (swapPerm q.base.denom.length a1 a2) q.base.denom) hb hysh rfl
    (by rw [length_permute, (swapPerm_isPerm l1 l2).1]) hwf.mshape
  refine ⟨rfl, c2, c3, c4, c5, fun i kn kd hi hkn hkd => ?_, c6⟩
  rw [c1]
  exact hyget (i ++ kn) kd (by rw [List.length_append, List.length_append, NpShape.valid_length hi, NpShape.valid_length hkn])
    (by rw [NpShape.valid_length hkd, length_permute, (swapPerm_isPerm l1 l2).1])


/-- reshaping the LAST block of `lead ++ d` to `d'` (same size) -/
theorem reshape_last (lead d d' : Shape) (j kd : Index) (hsz : size d' = size d) (hj : Valid lead j)
    (hk : Valid d' kd) :
    unravel (lead ++ d) (ravel (lead ++ d') (j ++ kd)) = j ++ unravel d (ravel d' kd) := by
  rw [ravel_append lead d' j kd (NpShape.valid_length hj), hsz,
    unravel_append lead d _ _ (ravel_lt hj) (hsz ▸ ravel_lt hk), unravel_ravel hj]

/-- **reshape_denom / flatten_denom**: `(i, kn, kd) ↦ (i, kn, unravel denom (ravel new kd))` -/
theorem reshapeDenom_reindex {q r : Q α} {new : Shape} (hwf : WF0 q.base)
    (h : reshapeDenom q (ofNats new) = .ok r) :
    r.derivs = [] ∧ size new = size q.base.denom ∧
    DenomReindex (fun kd => unravel q.base.denom (ravel new kd)) new q.base r.base := by
  unfold reshapeDenom at h
  split at h; · cases h
  rename_i hsz
  have hsz' : size new = size q.base.denom := by
    have : (size q.base.denom : Int) = prodInt (ofNats new) := by simpa using hsz
    rw [prodInt_ofNats] at this; exact_mod_cast this.symm
  obtain ⟨nv, hnv, h⟩ := bind_ok.1 h
  obtain ⟨b, hb, h⟩ := bind_ok.1 h
  have := pure_ok.1 h; subst this
  have htarget : ofNats q.base.shape ++ ofNats q.base.numer ++ ofNats new
      = ofNats (q.base.shape ++ q.base.numer ++ new) := by
    unfold ofNats; rw [List.map_append, List.map_append]
  have hres : resolve (size q.base.vals.shape) (ofNats (q.base.shape ++ q.base.numer ++ new))
      = .ok (q.base.shape ++ q.base.numer ++ new) := by
    have := resolve_ofNats (q.base.shape ++ q.base.numer ++ new)
    rwa [show size (q.base.shape ++ q.base.numer ++ new) = size q.base.vals.shape by
      rw [hwf.vshape, size_append, size_append, size_append, size_append, hsz']] at this
  rw [htarget, reshape_eq q.base.vals _ _ hres] at hnv
  injection hnv with hnv; subst hnv
  obtain ⟨_, c1, c2, c3, c4, c5, c6⟩ := construct_split (s := q.base.shape) (n := q.base.numer) (d := new) hb rfl rfl
    (by unfold ofNats; simp) hwf.mshape
  refine ⟨rfl, hsz', c2, c3, c4, c5, fun i kn kd hi hkn hkd => ?_, c6⟩
  rw [c1]
  show q.base.vals.get (unravel q.base.vals.shape (ravel (q.base.shape ++ q.base.numer ++ new) (i ++ kn ++ kd))) = _
  rw [hwf.vshape, reshape_last (q.base.shape ++ q.base.numer) q.base.denom new (i ++ kn) kd hsz'
    (NpShape.valid_append hi hkn) hkd]

theorem flattenDenom_reindex {q r : Q α} (hwf : WF0 q.base) (h : flattenDenom q = .ok r) :
    r.derivs = [] ∧
    DenomReindex (fun kd => unravel q.base.denom (ravel [size q.base.denom] kd)) [size q.base.denom] q.base r.base := by
  obtain ⟨a, _, c⟩ := reshapeDenom_reindex (new := [size q.base.denom]) hwf h
  exact ⟨a, c⟩

/-- **extract_denom**: denominator axis `a1` is indexed away at `k`; element `(i, kn, kd)` of the result is
    element `(i, kn, kd with k inserted at a1)`; no derivatives in the result -/
theorem extractDenom_reindex {q r : Q α} {axis index : Int} {a1 : Nat} {cs : List Cls} (hwf : WF0 q.base)
    (hax : itemAxis q.base.denom.length axis = .ok a1) (h : extractDenom q axis index cs = .ok r) :
    ∃ k, pyIndex (q.base.denom.getD a1 0) index = .ok k ∧ r.derivs = [] ∧
      DenomReindex (fun kd => kd.insertIdx a1 k) (q.base.denom.eraseIdx a1) q.base r.base := by
  have ha := (itemAxis_ok hax).1
  unfold extractDenom at h
  obtain ⟨a, e, h⟩ := bind_ok.1 h
  rw [hax] at e; injection e with e; subst e
  simp only at h
  obtain ⟨rolled, hroll, h⟩ := bind_ok.1 h
  obtain ⟨k, hk, h⟩ := bind_ok.1 h
  obtain ⟨obj, h1, h⟩ := bind_ok.1 h
  obtain ⟨obj', h2, h⟩ := bind_ok.1 h
  have := pure_ok.1 h; subst this
  have hvs : q.base.vals.shape = (q.base.shape ++ q.base.numer) ++ q.base.denom := hwf.vshape
  have hlen : q.base.shape.length + q.base.numer.length + a1 < q.base.vals.shape.length := by
    rw [hvs, List.length_append, List.length_append]; omega
  obtain ⟨y, hy, hysh, hyget⟩ := rollaxis_front q.base.vals hlen
  have e : rolled = y := by have := hroll.symm.trans hy; injection this
  subst e
  have hhead : rolled.shape.headD 0 = q.base.denom.getD a1 0 := by
    rw [hysh, List.headD_cons, hvs]
    have : q.base.shape.length + q.base.numer.length + a1 = (q.base.shape ++ q.base.numer).length + a1 := by
      rw [List.length_append]
    rw [this]
    exact getD_append_right _ _ _
  rw [hhead] at hk
  have herase : rolled.shape.tail = q.base.shape ++ q.base.numer ++ q.base.denom.eraseIdx a1 := by
    rw [hysh, List.tail_cons, hvs,
      List.eraseIdx_append_of_length_le (by rw [List.length_append]; omega)]
    congr 2
    rw [List.length_append]; omega
  obtain ⟨_, c1, c2, c3, c4, c5, c6⟩ := construct_split (s := q.base.shape) (n := q.base.numer)
    (d := q.base.denom.eraseIdx a1) h1 herase rfl (by rw [List.length_eraseIdx, if_pos ha]) hwf.mshape
  obtain ⟨b1, b2, b3, b4, b5, b6⟩ := cast_keeps c6 (q.base.cls :: cs) h2
  refine ⟨k, hk, rfl, b2.trans c2, b3.trans c3, b4.trans c4, b5.trans c5, fun i kn kd hi hkn hkd => ?_, b6⟩
  rw [b1, c1]
  show rolled.get (k :: (i ++ kn ++ kd)) = _
  have hkdl : kd.length = q.base.denom.length - 1 := by
    rw [NpShape.valid_length hkd, List.length_eraseIdx, if_pos ha]
  rw [hyget k (i ++ kn ++ kd) (by
    rw [hvs]; simp only [List.length_append]
    rw [NpShape.valid_length hi, NpShape.valid_length hkn, hkdl]; omega)]
  have : q.base.shape.length + q.base.numer.length + a1 = (i ++ kn).length + a1 := by
    rw [List.length_append, NpShape.valid_length hi, NpShape.valid_length hkn]
  rw [this, insertIdx_append_right]


/-! ## slice_numer -/

theorem eraseIdx_three (i kn kd : List Nat) (a : Nat) (ha : a < kn.length) :
    (i ++ kn ++ kd).eraseIdx (i.length + a) = i ++ kn.eraseIdx a ++ kd := by
  rw [List.append_assoc, List.eraseIdx_append_of_length_le (by omega), Nat.add_sub_cancel_left,
    List.eraseIdx_append_of_lt_length ha, List.append_assoc]

theorem insertIdx_three (i kn kd : List Nat) (a v : Nat) (ha : a ≤ kn.length) :
    (i ++ kn ++ kd).insertIdx (i.length + a) v = i ++ kn.insertIdx a v ++ kd := by
  rw [List.append_assoc, insertIdx_append_right, insertIdx_append_left v kn kd a ha, List.append_assoc]

theorem getD_three (i kn kd : List Nat) (a : Nat) (ha : a < kn.length) :
    (i ++ kn ++ kd).getD (i.length + a) 0 = kn.getD a 0 := by
  rw [List.append_assoc, getD_append_right, getD_append_left _ _ _ ha]

/-- **slice_numer**, one object: numerator axis `a1` is cut to `[lo, lo+len)`; element `(i, kn, kd)` of the
    result is element `(i, kn with entry a1 shifted by lo, kd)`; leading index, denominator and mask untouched -/
theorem sliceNumerCore_reindex {q r : Q0 α} {a1 : Nat} {index1 index2 : Int} {cs : List Cls} (hwf : WF0 q)
    (ha : a1 < q.numer.length) (h : sliceNumerCore q a1 index1 index2 cs = .ok r) :
    let lo := (sliceBounds (q.numer.getD a1 0) index1 index2).1
    let len := (sliceBounds (q.numer.getD a1 0) index1 index2).2
    NumerReindex (fun kn => (kn.eraseIdx a1).insertIdx a1 (lo + kn.getD a1 0))
      ((q.numer.eraseIdx a1).insertIdx a1 len) q r := by
  intro lo len
  unfold sliceNumerCore at h
  simp only at h
  obtain ⟨rolled, hroll, h⟩ := bind_ok.1 h
  have hvs : q.vals.shape = q.shape ++ q.numer ++ q.denom := hwf.vshape
  have hlen : q.shape.length + a1 < q.vals.shape.length := by
    rw [hvs, List.length_append, List.length_append]; omega
  obtain ⟨y, hy, hysh, hyget⟩ := rollaxis_front q.vals hlen
  have e : rolled = y := by have := hroll.symm.trans hy; injection this
  subst e
  have hhead : rolled.shape.headD 0 = q.numer.getD a1 0 := by
    rw [hysh, List.headD_cons, hvs, getD_three _ _ _ _ ha]
  rw [hhead] at h
  obtain ⟨back, hback, h⟩ := bind_ok.1 h
  obtain ⟨obj, h1, h2⟩ := bind_ok.1 h
  -- the slice and the roll back
  have hsl : (slice0 rolled lo len).shape = len :: (q.shape ++ q.numer.eraseIdx a1 ++ q.denom) := by
    show len :: rolled.shape.tail = _
    rw [hysh, List.tail_cons, hvs, eraseIdx_three _ _ _ _ ha]
  have hs : q.shape.length + a1 < (slice0 rolled lo len).shape.length := by
    rw [hsl]; simp only [List.length_cons, List.length_append, List.length_eraseIdx, if_pos ha]; omega
  obtain ⟨z, hz, hzsh, hzget⟩ := rollaxis_to (slice0 rolled lo len) hs
  have e2 : back = z := by have := hback.symm.trans hz; injection this
  subst e2
  have hbsh : back.shape = q.shape ++ (q.numer.eraseIdx a1).insertIdx a1 len ++ q.denom := by
    rw [hzsh, hsl, List.tail_cons, List.headD_cons,
      insertIdx_three _ _ _ _ _ (by rw [List.length_eraseIdx, if_pos ha]; omega)]
  obtain ⟨_, c1, c2, c3, c4, c5, c6⟩ := construct_split (s := q.shape)
    (n := (q.numer.eraseIdx a1).insertIdx a1 len) (d := q.denom) h1 hbsh
    (by rw [List.length_insertIdx, List.length_eraseIdx, if_pos ha, if_pos (by omega)]; omega) rfl hwf.mshape
  obtain ⟨b1, b2, b3, b4, b5, b6⟩ := cast_keeps c6 cs h2
  refine ⟨b2.trans c2, b3.trans c3, b4.trans c4, b5.trans c5, fun i kn kd hi hkn hkd => ?_, b6⟩
  have hknl : kn.length = q.numer.length := by
    rw [NpShape.valid_length hkn, List.length_insertIdx, List.length_eraseIdx, if_pos ha, if_pos (by omega)]; omega
  have hil := NpShape.valid_length hi
  rw [b1, c1, hzget (i ++ kn ++ kd) (by
    rw [hsl]; simp only [List.length_cons, List.length_append, List.length_eraseIdx, if_pos ha]
    rw [hil, hknl, NpShape.valid_length hkd]; omega)]
  rw [← hil, getD_three _ _ _ _ (by omega), eraseIdx_three _ _ _ _ (by omega)]
  show rolled.get ((lo + kn.getD a1 0) :: (i ++ kn.eraseIdx a1 ++ kd)) = _
  rw [hyget _ _ (by
    rw [hvs]; simp only [List.length_append, List.length_eraseIdx, if_pos (show a1 < kn.length by omega)]
    rw [hil, hknl, NpShape.valid_length hkd]; omega)]
  rw [← hil, insertIdx_three _ _ _ _ _ (by rw [List.length_eraseIdx, if_pos (by omega)]; omega)]


/-- **slice_numer, whole object incl. the derivative recursion**: the same cut of the same numerator axis in the
    values and in every derivative -/
theorem sliceNumer_reindex {q r : Q α} {axis index1 index2 : Int} {a1 : Nat} {cs : List Cls} (hwf : WF q)
    (hax : itemAxis q.base.numer.length axis = .ok a1) (h : sliceNumer q axis index1 index2 cs true = .ok r) :
    ObjNumerReindex
      (fun kn => (kn.eraseIdx a1).insertIdx a1 ((sliceBounds (q.base.numer.getD a1 0) index1 index2).1 + kn.getD a1 0))
      ((q.base.numer.eraseIdx a1).insertIdx a1 (sliceBounds (q.base.numer.getD a1 0) index1 index2).2) q r := by
  obtain ⟨ha, _, hidem⟩ := itemAxis_ok hax
  unfold sliceNumer at h
  obtain ⟨a, e, h⟩ := bind_ok.1 h
  rw [hax] at e; injection e with e; subst e
  obtain ⟨b, hb, h⟩ := bind_ok.1 h
  refine withDerivs_numer hwf (sliceNumerCore_reindex hwf.base ha hb) ?_ h
  intro d d' wd hn hd
  unfold sliceNumer0 at hd
  obtain ⟨a', e', hd⟩ := bind_ok.1 hd
  rw [hn, hidem] at e'; injection e' with e'; subst e'
  have := sliceNumerCore_reindex wd (hn ▸ ha) hd
  rwa [hn] at this

end PMV.C15
