import PMV.Model.WF
import PMV.Lemmas.WFCtor
import PMV.Lemmas.WFOps
/-
  C05 — every object the API hands back is structurally well-formed.
-/
namespace PMV.C05
open PMV PMV.Gen PMV.WF PMV.C05L

/-! ### what `WF` says (sanity: the Boolean predicate the driver evaluates implies each clause of the property) -/

theorem wf_iff (o : ObjDump) :
    WF o = true ↔ (bodyOk o.body (!o.derivs.isEmpty) = true ∧ (∀ d ∈ o.derivs, derivOk o.body d.2 = true)
      ∧ attrsOk o.derivs o.attrs = true) := by
  simp only [WF, wfClauses, bodyOk, derivOk, List.all_append, List.all_cons, List.all_nil, Bool.and_true,
    Bool.and_eq_true, List.all_eq_true, id, Bool.or_eq_true, Bool.not_eq_true', beq_iff_eq]
  constructor
  · rintro ⟨hb, h1, h2, h3, h4, h5, h6⟩
    refine ⟨hb, ?_, h4⟩
    intro d hd
    have a1 := h1 d hd; have a2 := h2 d hd; have a3 := h3 d hd; have a6 := h6 d hd
    rcases a3 with ⟨a3, a3'⟩
    simp only [List.isEmpty_iff] at a3
    simp only [a3, List.isEmpty_nil, Bool.not_true] at a6
    refine ⟨⟨⟨⟨⟨⟨a1, a2.1⟩, a2.2⟩, by simp [a3]⟩, a3'⟩, ?_⟩, a6⟩
    rcases h5 with h5 | h5
    · exact Or.inl h5
    · exact Or.inr (h5 d hd)
  · rintro ⟨hb, hd, ha⟩
    refine ⟨hb, fun d h => (hd d h).1.1.1.1.1.1, fun d h => ⟨(hd d h).1.1.1.1.1.2, (hd d h).1.1.1.1.2⟩,
      fun d h => ⟨(hd d h).1.1.1.2, (hd d h).1.1.2⟩, ha, ?_, ?_⟩
    · by_cases hr : o.body.readonly = false
      · exact Or.inl hr
      · right; intro d h
        rcases (hd d h).1.2 with h' | h'
        · exact absurd h' hr
        · exact h'
    · intro d h
      have e := (hd d h).1.1.1.2
      simp only [List.isEmpty_iff] at e
      simpa [e] using (hd d h).2

/-- values shape = shape ++ numerator ++ denominator -/
theorem wf_values_shape {o : ObjDump} (h : WF o = true) :
    o.body.vshape = o.body.shape ++ o.body.numer ++ o.body.denom := by
  have := ((wf_iff o).1 h).1
  simp only [bodyOk, bodyClauses, List.all_cons, Bool.and_eq_true, beq_iff_eq, id] at this
  exact this.2.1

/-- the mask is a single Python bool or a bool array of exactly the leading shape -/
theorem wf_mask {o : ObjDump} (h : WF o = true) :
    (∃ b, o.body.mask = .scalar b) ∨ (∃ w, o.body.mask = .array o.body.shape true w) := by
  have := ((wf_iff o).1 h).1
  simp only [bodyOk, bodyClauses, List.all_cons, Bool.and_eq_true, id] at this
  have hm := this.2.2.1
  cases hmk : o.body.mask with
  | scalar b => exact Or.inl ⟨b, rfl⟩
  | npbool b => simp [hmk, maskOk] at hm
  | array s k w =>
    simp only [hmk, maskOk, Bool.and_eq_true, beq_iff_eq] at hm
    exact Or.inr ⟨w, by rw [hm.1, hm.2]⟩
  | other => simp [hmk, maskOk] at hm

/-- rank / item / size bookkeeping agrees with the shapes; the default value has the item's shape and the values' kind -/
theorem wf_bookkeeping {o : ObjDump} (h : WF o = true) :
    o.body.nrank = o.body.numer.length ∧ o.body.drank = o.body.denom.length ∧ o.body.rank = o.body.nrank + o.body.drank
    ∧ o.body.item = o.body.numer ++ o.body.denom ∧ o.body.size = size o.body.shape ∧ o.body.isize = size o.body.item
    ∧ o.body.dshape = o.body.item ∧ o.body.dkind = o.body.kind := by
  have := ((wf_iff o).1 h).1
  simp only [bodyOk, bodyClauses, List.all_cons, Bool.and_eq_true, beq_iff_eq, id] at this
  obtain ⟨-, -, -, ⟨⟨⟨a, b⟩, c⟩, d⟩, ⟨⟨⟨e, f⟩, -⟩, -⟩, ⟨g, k⟩, -⟩ := this
  exact ⟨a, b, c, d, e, f, g, k⟩

/-- the class constraints of the regenerated table hold -/
theorem wf_class {o : ObjDump} (h : WF o = true) :
    kindOk o.body.cls o.body.kind = true
    ∧ (∀ n, (classInfo o.body.cls).nrank = some n → o.body.numer.length = n)
    ∧ (∀ n, (classInfo o.body.cls).numer = some n → o.body.numer = n)
    ∧ (o.body.units = true → (classInfo o.body.cls).unitsOk = true)
    ∧ ((o.derivs ≠ [] ∨ o.body.denom ≠ []) → (classInfo o.body.cls).derivsOk = true) := by
  have := ((wf_iff o).1 h).1
  simp only [bodyOk, bodyClauses, List.all_cons, Bool.and_eq_true, beq_iff_eq, id] at this
  obtain ⟨-, -, -, -, -, -, ⟨c1, c2⟩, c3, c4, c5, -⟩ := this
  refine ⟨c3, ?_, ?_, ?_, ?_⟩
  · intro n hn; rw [hn] at c1; simpa [optAll] using c1
  · intro n hn; rw [hn] at c2; simpa [optAll] using c2
  · intro hu; simpa [hu] using c4
  · intro hd
    cases hok : (classInfo o.body.cls).derivsOk
    · exfalso
      simp only [hok, Bool.or_false, Bool.and_eq_true, Bool.not_eq_true', List.isEmpty_iff, Bool.not_eq_false'] at c5
      rcases hd with hd | hd
      · exact hd c5.1
      · exact hd c5.2
    · rfl

/-- each derivative: float, same leading shape and numerator, no derivatives of its own, read-only when the parent
    is, itself well-formed as an object; attribute ⇔ key -/
theorem wf_derivs {o : ObjDump} (h : WF o = true) :
    (∀ d ∈ o.derivs, d.2.body.kind = .float ∧ d.2.body.shape = o.body.shape ∧ d.2.body.numer = o.body.numer
      ∧ d.2.derivs = [] ∧ d.2.attrs = [] ∧ (o.body.readonly = true → d.2.body.readonly = true) ∧ WF d.2 = true)
    ∧ o.derivs.map (·.1) = o.attrs.map (·.1) ∧ (∀ a ∈ o.attrs, a.2 = true) := by
  obtain ⟨-, hd, ha⟩ := (wf_iff o).1 h
  refine ⟨?_, ?_, ?_⟩
  · intro d hdm
    have := hd d hdm
    simp only [derivOk, Bool.and_eq_true, beq_iff_eq, List.isEmpty_iff, Bool.or_eq_true, Bool.not_eq_true'] at this
    obtain ⟨⟨⟨⟨⟨⟨a, b⟩, c⟩, e⟩, f⟩, g⟩, k⟩ := this
    refine ⟨a, b, c, e, f, ?_, ?_⟩
    · intro hr; rcases g with g | g
      · rw [hr] at g; cases g
      · exact g
    · rw [wf_iff]
      refine ⟨by simpa [e] using k, by simp [e], by simp [attrsOk, e, f]⟩
  · simp only [attrsOk, Bool.and_eq_true, beq_iff_eq] at ha; exact ha.1
  · simp only [attrsOk, Bool.and_eq_true, List.all_eq_true] at ha; exact fun a h => ha.2 a h

/-! ### the constructor -/

/-- `ctor_wf` for the object itself: for ANY raw input (any class, argument, mask, units, ranks, example, default)
    the constructor model raises or builds an object satisfying every per-object clause of `WF`. -/
theorem ctorCore_wf (i : CtorIn) (b : Body) (h : ctorCore i = some b) : WF (bare b) = true := by
  rw [wf_iff]
  exact ⟨(ctorCore_ok h).1, by simp [bare], by simp [bare, attrsOk]⟩

/-- the constructor called without derivatives (derivs = {} and no derivatives on a Qube argument): a special case of
    `ctor_wf` below that needs no hypothesis on the arguments at all -/
theorem ctor_noderivs_wf (i : CtorIn) (o : ObjDump) (hd : derivsGiven i = false) (h : ctor i = some o) : WF o = true := by
  unfold ctor at h
  split at h
  · cases h
  · rename_i b hb
    have e : ctorDerivs i = [] := by
      unfold derivsGiven at hd
      unfold ctorDerivs
      cases hid : i.derivs with
      | some l => simpa [hid] using hd
      | none =>
        cases hia : i.arg with
        | qube a => simpa [hid, hia] using hd
        | val a => rfl
        | bad => rfl
    simp only [e, insertDerivs] at h
    cases h
    exact ctorCore_wf i b hb
-- (the full `ctor_wf`, with derivatives, is proved below, after `insertDeriv_wf`)

example : (ctor ⟨.vector3, .val ⟨true, [2, 3], .int, false⟩, .arr [1] true true, some [], .some, none, none, none, none⟩).map (·.body)
    = some ({ cls := .vector3, kind := .float, varr := true, vshape := [2, 3], vwritable := true,
                   mask := .array [2] true false, shape := [2], numer := [3], denom := [], item := [3], rank := 1,
                   nrank := 1, drank := 0, size := 2, isize := 3, nsize := 3, dsize := 1, dshape := [3],
                   dkind := .float, units := true, readonly := false, complete := true } : Body) := by decide

/-- the rejected raw inputs are rejected for a reason: e.g. a negative rank (repaired), a wrong item shape -/
example : (ctor ⟨.qube, .val ⟨true, [2, 3], .float, true⟩, .bool false, some [], .none, some 2, some (-2), none, none⟩).isNone = true := by
  decide
example : (ctor ⟨.vector3, .val ⟨true, [2, 4], .float, true⟩, .bool false, some [], .none, none, none, none, none⟩).isNone = true := by
  decide

/-! ### derivatives -/

theorem map_fst_setAssoc {β} (k : String) (v : β) (w : Bool) (l : List (String × β)) (a : List (String × Bool))
    (h : l.map (·.1) = a.map (·.1)) : (setAssoc k v l).map (·.1) = (setAssoc k w a).map (·.1) := by
  induction l generalizing a with
  | nil => cases a with
    | nil => rfl
    | cons x t => cases h
  | cons x t ih =>
    cases a with
    | nil => cases h
    | cons y u =>
      simp only [List.map_cons, List.cons.injEq] at h
      obtain ⟨h1, h2⟩ := h
      simp only [setAssoc, h1]
      split
      · simp [h2]
      · simp [h1, ih u h2]

theorem setAssoc_all (k : String) (a : List (String × Bool)) (h : a.all (·.2) = true) :
    (setAssoc k true a).all (·.2) = true := by
  induction a with
  | nil => rfl
  | cons x t ih =>
    simp only [List.all_cons, Bool.and_eq_true] at h
    simp only [setAssoc]
    split
    · simp [h.2]
    · simp [h.1, ih h.2]

theorem mem_setAssoc {β} (k : String) (v : β) (l : List (String × β)) (x : String × β) (h : x ∈ setAssoc k v l) :
    x = (k, v) ∨ x ∈ l := by
  induction l with
  | nil => simp [setAssoc] at h; exact Or.inl h
  | cons y t ih =>
    simp only [setAssoc] at h
    split at h
    · simp only [List.mem_cons] at h
      rcases h with h | h
      · exact Or.inl h
      · exact Or.inr (List.mem_cons_of_mem _ h)
    · simp only [List.mem_cons] at h
      rcases h with h | h
      · exact Or.inr (by simp [h])
      · rcases ih h with h | h
        · exact Or.inl h
        · exact Or.inr (List.mem_cons_of_mem _ h)

theorem setAssoc_ne_nil {β} (k : String) (v : β) (l : List (String × β)) : (setAssoc k v l).isEmpty = false := by
  cases l with
  | nil => rfl
  | cons y t => simp only [setAssoc]; split <;> rfl

theorem bodyOk_true_of {b : Body} {h : Bool} (hb : bodyOk b h = true) (hd : (classInfo b.cls).derivsOk = true) :
    bodyOk b true = true := by
  simp only [bodyOk, bodyClauses, List.all_cons, List.all_nil, Bool.and_eq_true, id] at hb ⊢
  obtain ⟨c1, c2, c3, c4, c5, c6, c7, c8, c9, -, c11⟩ := hb
  exact ⟨c1, c2, c3, c4, c5, c6, c7, c8, c9, by simp [hd], c11⟩

theorem bodyOk_false_of {b : Body} {h : Bool} (hb : bodyOk b h = true) : bodyOk b false = true := by
  simp only [bodyOk, bodyClauses, List.all_cons, List.all_nil, Bool.and_eq_true, id] at hb ⊢
  obtain ⟨c1, c2, c3, c4, c5, c6, c7, c8, c9, c10, c11⟩ := hb
  refine ⟨c1, c2, c3, c4, c5, c6, c7, c8, c9, ?_, c11⟩
  cases h <;> simp_all

/-- the commit step of `insert_deriv` (qube.py:1536-1540): storing a derivative that meets the contract under a key
    and as attribute keeps the parent well-formed -/
theorem store_deriv_wf (p d : ObjDump) (key : String) (hp : WF p = true) (hok : (classInfo p.body.cls).derivsOk = true)
    (hd : derivOk p.body d = true) :
    WF { p with derivs := setAssoc key d p.derivs, attrs := setAssoc key true p.attrs } = true := by
  obtain ⟨hb, hds, ha⟩ := (wf_iff p).1 hp
  rw [wf_iff]
  refine ⟨?_, ?_, ?_⟩
  · simp only [setAssoc_ne_nil, Bool.not_false]
    exact bodyOk_true_of hb hok
  · intro x hx
    rcases mem_setAssoc key d p.derivs x hx with h | h
    · rw [h]; exact hd
    · exact hds x h
  · simp only [attrsOk, Bool.and_eq_true, beq_iff_eq] at ha ⊢
    exact ⟨map_fst_setAssoc key d true p.derivs p.attrs ha.1, setAssoc_all key p.attrs ha.2⟩

theorem bodyReadonly_ok {b : Body} {h : Bool} (hb : bodyOk b h = true) : bodyOk (bodyReadonly b) h = true := by
  unfold bodyReadonly
  split
  · exact hb
  · simp only [bodyOk, bodyClauses, List.all_cons, List.all_nil, Bool.and_eq_true, id] at hb ⊢
    obtain ⟨c1, c2, c3, c4, c5, c6, c7, c8, c9, c10, c11⟩ := hb
    refine ⟨c1, c2, ?_, c4, c5, c6, c7, c8, c9, c10, ?_⟩
    · exact maskToReadonly_ok c3
    · unfold roArraysOk
      cases hv : b.varr <;> cases hm : b.mask <;> simp [maskToReadonly]

theorem wodBody_ok {b : Body} {h : Bool} (hb : bodyOk b h = true) : bodyOk (wodBody b) h = true := by
  unfold wodBody
  split
  · simp only [bodyOk, bodyClauses, List.all_cons, List.all_nil, Bool.and_eq_true, id] at hb ⊢
    obtain ⟨c1, c2, c3, c4, c5, c6, c7, c8, c9, c10, c11⟩ := hb
    refine ⟨c1, c2, maskToReadonly_ok c3, c4, c5, c6, c7, c8, c9, c10, ?_⟩
    unfold roArraysOk at c11 ⊢
    cases hr : b.readonly <;> cases hm : b.mask <;> simp_all [maskToReadonly]
  · exact hb

theorem wodOf_facts (d : ObjDump) (hd : WF d = true) :
    bodyOk (wodOf d).body false = true ∧ (wodOf d).body.kind = d.body.kind ∧ (wodOf d).body.shape = d.body.shape
    ∧ (wodOf d).body.numer = d.body.numer ∧ (wodOf d).body.cls = d.body.cls ∧ wodOf d = bare (wodOf d).body := by
  have hb := bodyOk_false_of ((wf_iff d).1 hd).1
  unfold wodOf
  split
  · exact ⟨hb, rfl, rfl, rfl, rfl, rfl⟩
  · refine ⟨wodBody_ok hb, ?_, ?_, ?_, ?_, rfl⟩ <;> (unfold wodBody; simp only [bare]; split <;> rfl)

/-- a read-only float Scalar of shape (2,3) and an int Scalar of shape (3,) with a derivative of its own -/
def startP : ObjDump :=
  bare { cls := .scalar, kind := .float, varr := true, vshape := [2, 3], vwritable := false,
         mask := .scalar false, shape := [2, 3], numer := [], denom := [], item := [], rank := 0, nrank := 0, drank := 0,
         size := 6, isize := 1, nsize := 1, dsize := 1, dshape := [], dkind := .float, units := false,
         readonly := true, complete := true }
def startD0 : Body :=
  { cls := .scalar, kind := .int, varr := true, vshape := [3], vwritable := true,
    mask := .array [3] true true, shape := [3], numer := [], denom := [], item := [], rank := 0, nrank := 0, drank := 0,
    size := 3, isize := 1, nsize := 1, dsize := 1, dshape := [], dkind := .int, units := false,
    readonly := false, complete := true }
def startD : ObjDump :=
  ⟨startD0, [("x", bare { startD0 with kind := .float, dkind := .float })], [("x", true)]⟩

/-- `insert_deriv_wf`: `insert_deriv(key, deriv, override)` on a well-formed object with a well-formed derivative
    either raises (object unchanged) or leaves a well-formed object — whatever class, kind, shape, read-only state
    the derivative has: nested derivatives are stripped, ints converted to float through the constructor, the shape
    broadcast, the read-only state matched, and attribute and dictionary entry set together. -/
theorem insertDeriv_wf (p d : ObjDump) (key : String) (ov : Bool) (r : ObjDump)
    (hp : WF p = true) (hd : WF d = true) (h : insertDeriv p key d ov = some r) : WF r = true := by
  unfold insertDeriv at h
  split at h
  · cases h
  rename_i hok
  split at h
  · cases h
  rename_i hn
  split at h
  · cases h
  split at h
  · cases h
  have hok' : (classInfo p.body.cls).derivsOk = true := by simpa using hok
  have hn' : p.body.numer = d.body.numer := by simpa using hn
  obtain ⟨w1, w2, w3, w4, w5, w6⟩ := wodOf_facts d hd
  split at h
  · cases h
  rename_i d1 h1
  obtain ⟨a1, a2', a3', a4, a5⟩ := asFloat_ok w1 w6 h1
  have a2 : d1.body.shape = d.body.shape := a2'.trans w3
  have a3 : d1.body.numer = d.body.numer := a3'.trans w4
  split at h
  · cases h
  rename_i d2 h2
  -- after the broadcast
  have hb2 : d2.body.kind = .float ∧ d2.body.shape = p.body.shape ∧ d2.body.numer = d.body.numer
      ∧ bodyOk d2.body false = true := by
    split at h2
    · obtain ⟨b1, b2, b3, b4, -⟩ := broadcastTo_ok a4 a5 h2
      exact ⟨by rw [b3, a1], b1, by rw [b2, a3], b4⟩
    · rename_i hs
      cases h2
      exact ⟨a1, by simpa using hs, by rw [a3], a4⟩
  obtain ⟨c1, c2, c3, c4⟩ := hb2
  cases h
  apply store_deriv_wf p _ key hp hok'
  simp only [derivOk, cloneBare, bare, Bool.and_eq_true, beq_iff_eq, List.isEmpty_nil, Bool.or_eq_true,
    Bool.not_eq_true']
  split
  · obtain ⟨f1, f2, f3, f4, -⟩ := bodyReadonly_fields d2.body
    refine ⟨⟨⟨⟨⟨⟨?_, ?_⟩, ?_⟩, trivial⟩, trivial⟩, Or.inr f4⟩, bodyReadonly_ok' c4⟩
    · show (bodyReadonly d2.body).kind = Kind.float; rw [f3, c1]
    · show (bodyReadonly d2.body).shape = p.body.shape; rw [f1, c2]
    · show (bodyReadonly d2.body).numer = p.body.numer; rw [f2, c3, hn']
  · rename_i hro
    refine ⟨⟨⟨⟨⟨⟨c1, c2⟩, by rw [c3, hn']⟩, trivial⟩, trivial⟩, ?_⟩, c4⟩
    simp only [Bool.and_eq_true, Bool.not_eq_true', not_and, Bool.not_eq_false] at hro
    cases hr : p.body.readonly
    · exact Or.inl rfl
    · exact Or.inr (hro hr)

example : (insertDeriv startP "t" startD true).map WF = some true := by decide

theorem insertDeriv_body (p d : ObjDump) (key : String) (ov : Bool) (r : ObjDump)
    (h : insertDeriv p key d ov = some r) : r.body = p.body := by
  unfold insertDeriv at h
  repeat' split at h
  all_goals first | (cases h; done) | (cases h; rfl)

/-- `insert_derivs`: however far it gets before an insertion raises, the object stays well-formed -/
theorem insertDerivs_wf (l : List (String × ObjDump)) (p : ObjDump) (ov : Bool) (r : ObjDump) (ok : Bool)
    (hp : WF p = true) (hl : ∀ kd ∈ l, WF kd.2 = true) (h : insertDerivs p l ov = (r, ok)) :
    WF r = true ∧ r.body = p.body := by
  induction l generalizing p with
  | nil => simp only [insertDerivs, Prod.mk.injEq] at h; rw [← h.1]; exact ⟨hp, rfl⟩
  | cons kd t ih =>
    obtain ⟨k, d⟩ := kd
    simp only [insertDerivs] at h
    cases hi : insertDeriv p k d ov with
    | none => rw [hi] at h; simp only [Prod.mk.injEq] at h; rw [← h.1]; exact ⟨hp, rfl⟩
    | some p' =>
      rw [hi] at h
      have hw := insertDeriv_wf p d k ov p' hp (hl (k, d) List.mem_cons_self) hi
      obtain ⟨w1, w2⟩ := ih p' hw (fun x hx => hl x (List.mem_cons_of_mem _ hx)) h
      exact ⟨w1, w2.trans (insertDeriv_body p d k ov p' hi)⟩

/-- `ctor_wf`: for ANY raw input (class, argument, mask, units, ranks, example, default; derivatives and a Qube
    argument being well-formed objects) the constructor model raises or returns a well-formed object. -/
theorem ctor_wf (i : CtorIn) (o : ObjDump)
    (hderivs : ∀ l, i.derivs = some l → ∀ kd ∈ l, WF kd.2 = true)
    (harg : ∀ a, i.arg = .qube a → WF a = true)
    (h : ctor i = some o) : WF o = true := by
  unfold ctor at h
  split at h
  · cases h
  · rename_i b hb
    have hl : ∀ kd ∈ ctorDerivs i, WF kd.2 = true := by
      unfold ctorDerivs
      cases hid : i.derivs with
      | some l => exact hderivs l hid
      | none =>
        cases hia : i.arg with
        | qube a =>
          intro kd hkd
          exact ((wf_derivs (harg a hia)).1 kd hkd).2.2.2.2.2.2
        | val a => intro kd hkd; cases hkd
        | bad => intro kd hkd; cases hkd
    generalize ctorDerivs i = L at h hl
    cases hr : insertDerivs (bare b) L false with
    | mk r ok =>
      rw [hr] at h
      cases ok with
      | false => cases h
      | true =>
        cases h
        exact (insertDerivs_wf L (bare b) false _ true (ctorCore_wf i b hb) hl hr).1

/-! ### operations that preserve well-formedness -/

theorem mem_delKey {β} (k : String) (l : List (String × β)) (x : String × β) (h : x ∈ delKey k l) : x ∈ l := by
  simp only [delKey, List.mem_filter] at h; exact h.1

theorem delKey_map {β} (k : String) (l : List (String × β)) (a : List (String × Bool))
    (h : l.map (·.1) = a.map (·.1)) : (delKey k l).map (·.1) = (delKey k a).map (·.1) := by
  induction l generalizing a with
  | nil => cases a with
    | nil => rfl
    | cons x t => cases h
  | cons x t ih =>
    cases a with
    | nil => cases h
    | cons y u =>
      simp only [List.map_cons, List.cons.injEq] at h
      obtain ⟨h1, h2⟩ := h
      simp only [delKey, List.filter_cons, h1]
      split
      · simp only [List.map_cons, h1]; congr 1; exact ih u h2
      · exact ih u h2

theorem bodyOk_any {b : Body} {h h' : Bool} (hb : bodyOk b h = true) (hd : h' = true → h = true) : bodyOk b h' = true := by
  cases h' with
  | false => exact bodyOk_false_of hb
  | true => rw [hd rfl] at hb; exact hb

/-- `delete_deriv` (qube.py:1574-1592) -/
theorem deleteDeriv_wf (p : ObjDump) (key : String) (ov : Bool) (r : ObjDump) (hp : WF p = true)
    (h : deleteDeriv p key ov = some r) : WF r = true := by
  unfold deleteDeriv at h
  split at h
  · cases h
  split at h
  · cases h
    obtain ⟨hb, hds, ha⟩ := (wf_iff p).1 hp
    rw [wf_iff]
    refine ⟨bodyOk_any hb ?_, fun x hx => hds x (mem_delKey key _ x hx), ?_⟩
    · intro h1
      cases hpd : p.derivs with
      | nil => simp [hpd, delKey] at h1
      | cons a t => rfl
    · simp only [attrsOk, Bool.and_eq_true, beq_iff_eq, List.all_eq_true] at ha ⊢
      exact ⟨delKey_map key _ _ ha.1, fun x hx => ha.2 x (mem_delKey key _ x hx)⟩
  · cases h; exact hp

/-- `delete_derivs` (qube.py:1595-1627, without `preserve`) -/
theorem deleteDerivs_wf (p : ObjDump) (ov : Bool) (r : ObjDump) (hp : WF p = true)
    (h : deleteDerivs p ov = some r) : WF r = true := by
  unfold deleteDerivs at h
  split at h
  · cases h
  cases h
  obtain ⟨hb, hds, ha⟩ := (wf_iff p).1 hp
  rw [wf_iff]
  refine ⟨bodyOk_false_of hb, by simp, ?_⟩
  simp only [attrsOk, Bool.and_eq_true, beq_iff_eq, List.all_eq_true] at ha ⊢
  refine ⟨?_, fun x hx => ha.2 x (List.mem_filter.1 hx).1⟩
  have : p.attrs.filter (fun a => !hasKey a.1 p.derivs) = [] := by
    rw [List.filter_eq_nil_iff]
    intro a hmem
    have : a.1 ∈ p.attrs.map (·.1) := List.mem_map_of_mem hmem
    rw [← ha.1] at this
    obtain ⟨d, hd, he⟩ := List.mem_map.1 this
    have hany : (p.derivs.any fun x => x.1 == a.1) = true := List.any_eq_true.2 ⟨d, hd, by simp [he]⟩
    simp [hasKey, hany]
  simp [this]

/-- the `wod` property -/
theorem wod_wf (o : ObjDump) (ho : WF o = true) : WF (wod o) = true := by
  unfold wod
  split
  · exact ho
  · obtain ⟨hb, -, -⟩ := (wf_iff o).1 ho
    rw [wf_iff]
    refine ⟨?_, by simp [wodOf, bare], by simp [wodOf, bare, attrsOk]⟩
    exact (wodOf_facts o ho).1

/-- reading a derivative (`obj.d_dt`, `obj.derivs['t']`) hands back a well-formed object -/
theorem deriv_wf (o : ObjDump) (key : String) (d : ObjDump) (ho : WF o = true) (h : lookup key o.derivs = some d) :
    WF d = true := by
  have hm : (key, d) ∈ o.derivs ∨ ∃ k, (k, d) ∈ o.derivs := by
    right
    generalize o.derivs = l at h
    induction l with
    | nil => cases h
    | cons x t ih =>
      obtain ⟨k', v⟩ := x
      simp only [lookup] at h
      split at h
      · cases h; exact ⟨k', List.mem_cons_self⟩
      · obtain ⟨k, hk⟩ := ih h; exact ⟨k, List.mem_cons_of_mem _ hk⟩
  rcases hm with hm | ⟨k, hm⟩
  · exact ((wf_derivs ho).1 _ hm).2.2.2.2.2.2
  · exact ((wf_derivs ho).1 _ hm).2.2.2.2.2.2

/-- `as_readonly` (qube.py:1915-1953, repaired: the derivatives always follow) -/
theorem asReadonly_wf (o : ObjDump) (ho : WF o = true) : WF (asReadonly o) = true := by
  unfold asReadonly
  split
  · exact ho
  · obtain ⟨hb, hds, ha⟩ := (wf_iff o).1 ho
    rw [wf_iff]
    refine ⟨?_, ?_, ?_⟩
    · simp only [List.isEmpty_map]; exact bodyReadonly_ok hb
    · intro x hx
      simp only [List.mem_map] at hx
      obtain ⟨d, hd, rfl⟩ := hx
      have := hds d hd
      simp only [derivOk, Bool.and_eq_true, beq_iff_eq, List.isEmpty_iff, Bool.or_eq_true, Bool.not_eq_true'] at this ⊢
      obtain ⟨⟨⟨⟨⟨⟨a, b⟩, c⟩, e⟩, f⟩, -⟩, k⟩ := this
      refine ⟨⟨⟨⟨⟨⟨?_, ?_⟩, ?_⟩, e⟩, f⟩, ?_⟩, bodyReadonly_ok k⟩
      · unfold bodyReadonly; split <;> simp [a]
      · unfold bodyReadonly; split <;> split <;> simp [b]
      · unfold bodyReadonly; split <;> split <;> simp [c]
      · right; unfold bodyReadonly; split <;> simp_all
    · simp only [attrsOk, Bool.and_eq_true, beq_iff_eq, List.map_map] at ha ⊢
      exact ⟨by simpa [Function.comp_def] using ha.1, ha.2⟩

theorem bare_wf (b : Body) (hb : bodyOk b false = true) : WF (bare b) = true := by
  rw [wf_iff]; exact ⟨hb, by simp [bare], by simp [bare, attrsOk]⟩

/-- `clone(recursive=False)` -/
theorem cloneBare_wf (o : ObjDump) (ho : WF o = true) : WF (cloneBare o) = true :=
  bare_wf _ (bodyOk_false_of ((wf_iff o).1 ho).1)

theorem insertDerivs_ok_wf (l : List (String × ObjDump)) (p : ObjDump) (ov : Bool) (r : ObjDump)
    (hp : WF p = true) (hl : ∀ kd ∈ l, WF kd.2 = true)
    (h : (match insertDerivs p l ov with | (r, true) => some r | (_, false) => none) = some r) : WF r = true := by
  cases hr : insertDerivs p l ov with
  | mk r' ok =>
    rw [hr] at h
    cases ok with
    | false => cases h
    | true => cases h; exact (insertDerivs_wf l p ov _ true hp hl hr).1

/-- `clone(recursive, preserve)` (qube.py:968-1020) -/
theorem clone_wf (o : ObjDump) (recursive : Bool) (preserve : List String) (r : ObjDump) (ho : WF o = true)
    (h : clone o recursive preserve = some r) : WF r = true := by
  unfold clone at h
  simp only [] at h
  apply insertDerivs_ok_wf _ (cloneBare o) true r (cloneBare_wf o ho) ?_ h
  intro kd hkd
  simp only [List.mem_map] at hkd
  obtain ⟨d, hdm, rfl⟩ := hkd
  have hd : d ∈ o.derivs := by
    split at hdm
    · exact hdm
    · exact (List.mem_filter.1 hdm).1
  exact cloneBare_wf _ ((wf_derivs ho).1 d hd).2.2.2.2.2.2

/-- `without_deriv(key)` (repaired: the copy loses the dictionary entry AND the attribute) -/
theorem withoutDeriv_wf (o : ObjDump) (key : String) (r : ObjDump) (ho : WF o = true)
    (h : withoutDeriv o key = some r) : WF r = true := by
  unfold withoutDeriv at h
  split at h
  · cases h; exact ho
  · split at h
    · cases h
    · rename_i c hc
      exact deleteDeriv_wf c key true r (clone_wf o true [] c ho hc) h

theorem freshBody_ok {b : Body} {h : Bool} (hb : bodyOk b h = true) : bodyOk (freshBody b) h = true := by
  simp only [bodyOk, bodyClauses, freshBody, List.all_cons, List.all_nil, Bool.and_eq_true, id] at hb ⊢
  obtain ⟨c1, c2, c3, c4, c5, c6, c7, c8, c9, c10, c11⟩ := hb
  refine ⟨c1, c2, ?_, c4, c5, c6, c7, c8, c9, c10, ?_⟩
  · cases hm : b.mask <;> simp_all [maskOk]
  · simp [roArraysOk]

theorem copyOne_wf (x : ObjDump) (ro : Bool) (hx : WF x = true) : WF (copyOne x ro) = true := by
  have hb := bodyOk_false_of ((wf_iff x).1 hx).1
  unfold copyOne
  split
  · exact bare_wf _ hb
  · split
    · exact bare_wf _ (bodyReadonly_ok (freshBody_ok hb))
    · exact bare_wf _ (freshBody_ok hb)

/-- `copy(recursive, readonly)` (qube.py:1985-2030) -/
theorem copy_wf (o : ObjDump) (recursive readonly : Bool) (r : ObjDump) (ho : WF o = true)
    (h : copy o recursive readonly = some r) : WF r = true := by
  unfold copy at h
  split at h
  · cases h; exact cloneBare_wf o ho
  · split at h
    · apply insertDerivs_ok_wf _ (copyOne o readonly) true r (copyOne_wf o readonly ho) ?_ h
      intro kd hkd
      simp only [List.mem_map] at hkd
      obtain ⟨d, hdm, rfl⟩ := hkd
      exact copyOne_wf _ _ ((wf_derivs ho).1 d hdm).2.2.2.2.2.2
    · cases h; exact copyOne_wf o readonly ho

/-- `as_float()` of any object (qube.py:2099-2130): through the constructor, derivatives re-inserted -/
theorem asFloatObj_wf (o r : ObjDump) (ho : WF o = true) (h : asFloatObj o = some r) : WF r = true := by
  unfold asFloatObj at h
  split at h
  · cases h; exact ho
  · split at h
    · cases h
    · refine ctor_wf _ r ?_ ?_ h
      · intro l hl kd hkd
        simp only [Option.some.injEq] at hl
        subst hl
        exact ((wf_derivs ho).1 kd hkd).2.2.2.2.2.2
      · intro a ha; cases ha

theorem broadcastTo_wf (o r : ObjDump) (S : List Nat) (ho : WF o = true) (h : broadcastTo (cloneBare o) S = some r) :
    WF r = true := by
  have hb : bodyOk (cloneBare o).body false = true := bodyOk_false_of ((wf_iff o).1 ho).1
  obtain ⟨-, -, -, b4, b5⟩ := broadcastTo_ok hb rfl h
  rw [b5]; exact bare_wf _ b4

theorem broadcastToObj_go_wf (S : List Nat) (l : List (String × ObjDump)) (obj r : ObjDump) (hobj : WF obj = true)
    (hl : ∀ kd ∈ l, WF kd.2 = true) (h : broadcastToObj.go S obj l = some r) : WF r = true := by
  induction l generalizing obj with
  | nil => simp only [broadcastToObj.go, Option.some.injEq] at h; rw [← h]; exact hobj
  | cons kd t ih =>
    obtain ⟨k, d⟩ := kd
    simp only [broadcastToObj.go] at h
    split at h
    · cases h
    · rename_i d' hd'
      split at h
      · cases h
      · rename_i obj' hobj'
        have hd : WF d = true := hl (k, d) List.mem_cons_self
        exact ih obj' (insertDeriv_wf obj d' k true obj' hobj (broadcastTo_wf d d' S hd hd') hobj')
          (fun x hx => hl x (List.mem_cons_of_mem _ hx)) h

/-- `broadcast_to(shape)` of any object (qube.py:4532-4630) -/
theorem broadcastToObj_wf (o r : ObjDump) (S : List Nat) (ho : WF o = true) (h : broadcastToObj o S = some r) :
    WF r = true := by
  unfold broadcastToObj at h
  split at h
  · cases h; exact ho
  · split at h
    · cases h
    · rename_i base hbase
      exact broadcastToObj_go_wf S o.derivs base r (broadcastTo_wf o base S ho hbase)
        (fun kd hkd => ((wf_derivs ho).1 kd hkd).2.2.2.2.2.2) h

theorem rebuildBody_ok {b : Body} {h : Bool} (c : Collapse) (hb : bodyOk b h = true) :
    bodyOk (rebuildBody b c) h = true := by
  simp only [bodyOk, bodyClauses, rebuildBody, List.all_cons, List.all_nil, Bool.and_eq_true, id] at hb ⊢
  obtain ⟨c1, c2, c3, c4, c5, c6, c7, c8, c9, c10, c11⟩ := hb
  refine ⟨c1, c2, ?_, c4, c5, c6, c7, c8, c9, c10, ?_⟩
  · cases c with
    | to x => simp [rebuildMask, maskOk]
    | keep => cases hm : b.mask <;> simp_all [rebuildMask, maskOk]
  · unfold roArraysOk
    cases hr : b.readonly <;> cases hv : b.varr <;> cases c <;> cases hm : b.mask <;> simp [rebuildMask]

/-- replacing the WRITEABLE flag of a mask array by one that is off whenever the object is read-only -/
theorem maskFlag_ok {b : Body} {h : Bool} (s : List Nat) (k w w' : Bool) (hb : bodyOk b h = true)
    (hm : b.mask = .array s k w) (hw : b.readonly = true → w' = false) :
    bodyOk { b with mask := .array s k w' } h = true := by
  simp only [bodyOk, bodyClauses, List.all_cons, List.all_nil, Bool.and_eq_true, id] at hb ⊢
  obtain ⟨c1, c2, c3, c4, c5, c6, c7, c8, c9, c10, c11⟩ := hb
  refine ⟨c1, c2, ?_, c4, c5, c6, c7, c8, c9, c10, ?_⟩
  · simpa [hm, maskOk] using c3
  · unfold roArraysOk at c11 ⊢
    cases hr : b.readonly
    · simp
    · have hw' := hw hr
      subst hw'
      cases hv : b.varr <;> cases hvw : b.vwritable <;> simp_all

theorem sharedMask_some {m : MaskD} {s : List Nat} {k w : Bool} (h : sharedMask m = some (s, k, w)) :
    m = .array s k w ∧ s.isEmpty = false := by
  cases m with
  | array s' k' w' =>
    simp only [sharedMask] at h
    split at h
    · cases h
    · rename_i hne
      simp only [Option.some.injEq, Prod.mk.injEq] at h
      obtain ⟨rfl, rfl, rfl⟩ := h
      exact ⟨rfl, by simpa using hne⟩
  | scalar x => cases h
  | npbool x => cases h
  | other => cases h

/-- `pickle.loads(pickle.dumps(obj))` (pickler.py:945-1100, repaired form of `__setstate__`), whatever the mask
    contents make `__getstate__` do to the mask representations -/
theorem setstate_wf (o r : ObjDump) (c : Collapse) (dc : List (String × Collapse)) (ho : WF o = true)
    (h : setstate o c dc = some r) : WF r = true := by
  obtain ⟨hb, hds, -⟩ := (wf_iff o).1 ho
  have hb0 : bodyOk (rebuildBody o.body c) false = true := rebuildBody_ok c (bodyOk_false_of hb)
  unfold setstate at h
  simp only [] at h
  -- the parent after the derivatives have frozen the shared mask
  have hparent : bodyOk (frozenByDerivs (rebuildBody o.body c) o.derivs) false = true := by
    unfold frozenByDerivs
    split
    · rename_i s k w hsm
      have hm := (sharedMask_some hsm).1
      refine maskFlag_ok s k w _ hb0 hm ?_
      intro hr
      have : w = false := by
        have := hb0
        simp only [bodyOk, bodyClauses, List.all_cons, List.all_nil, Bool.and_eq_true, id] at this
        have h11 := this.2.2.2.2.2.2.2.2.2.2.1
        unfold roArraysOk at h11
        simp only [hr, hm, Bool.not_true, Bool.false_or, Bool.and_eq_true, Bool.not_eq_true'] at h11
        exact h11.2
      simp [this]
    · exact hb0
  have hPshape : (frozenByDerivs (rebuildBody o.body c) o.derivs).shape = o.body.shape
      ∧ (∀ s k w, sharedMask (frozenByDerivs (rebuildBody o.body c) o.derivs).mask = some (s, k, w) →
      s = o.body.shape ∧ k = true ∧ (∀ d ∈ o.derivs, d.2.body.readonly = true → w = false)) := by
    unfold frozenByDerivs
    split
    · rename_i s k w hsm
      obtain ⟨hm, hne⟩ := sharedMask_some hsm
      refine ⟨rfl, ?_⟩
      intro s' k' w' he
      simp only [sharedMask, hne, Bool.false_eq_true, ↓reduceIte, Option.some.injEq, Prod.mk.injEq] at he
      obtain ⟨rfl, rfl, rfl⟩ := he
      have hm3 : maskOk (rebuildBody o.body c).mask (rebuildBody o.body c).shape = true := by
        have := hb0
        simp only [bodyOk, bodyClauses, List.all_cons, List.all_nil, Bool.and_eq_true, id] at this
        exact this.2.2.1
      rw [hm] at hm3
      simp only [maskOk, Bool.and_eq_true, beq_iff_eq] at hm3
      refine ⟨hm3.2, hm3.1, ?_⟩
      intro d hd hr
      have : o.derivs.any (fun d => d.2.body.readonly) = true := List.any_eq_true.2 ⟨d, hd, hr⟩
      simp [this]
    · rename_i hnone
      refine ⟨rfl, ?_⟩
      intro s k w he
      rw [hnone] at he
      cases he
  generalize frozenByDerivs (rebuildBody o.body c) o.derivs = P at h hparent hPshape
  apply insertDerivs_ok_wf _ (bare P) true r (bare_wf _ hparent) ?_ h
  intro kd hkd
  simp only [List.mem_map] at hkd
  obtain ⟨d, hdm, rfl⟩ := hkd
  have hdw := (wf_derivs ho).1 d hdm
  have hdb : bodyOk d.2.body false = true := bodyOk_false_of ((wf_iff d.2).1 hdw.2.2.2.2.2.2).1
  unfold rebuildDeriv
  split
  · rename_i s k w hm
    obtain ⟨e1, e2, e3⟩ := hPshape.2 s k w hm
    apply bare_wf
    have hk := rebuildBody_ok .keep hdb
    -- the derivative takes the parent's mask array
    simp only [bodyOk, bodyClauses, List.all_cons, List.all_nil, Bool.and_eq_true, id] at hk ⊢
    obtain ⟨c1, c2, c3, c4, c5, c6, c7, c8, c9, c10, c11⟩ := hk
    refine ⟨c1, c2, ?_, c4, c5, c6, c7, c8, c9, c10, ?_⟩
    · simp only [maskOk, rebuildBody, Bool.and_eq_true, beq_iff_eq]
      exact ⟨e2, by rw [e1, hdw.2.1]⟩
    · unfold roArraysOk at c11 ⊢
      cases hr : d.2.body.readonly
      · simp [rebuildBody, hr]
      · have hw : w = false := e3 d hdm hr
        subst hw
        simp only [rebuildBody, hr, Bool.not_true, Bool.false_or, Bool.and_eq_true, Bool.not_eq_true'] at c11 ⊢
        exact ⟨⟨c11.1.1, trivial⟩, c11.2⟩
  · exact bare_wf _ (rebuildBody_ok _ hdb)

/-- a change of the body that keeps shape, numerator and the derivative dictionary keeps the object well-formed
    provided the new body is fine by itself and is read-only only if every derivative is -/
theorem rebody_wf (o : ObjDump) (b : Body) (ho : WF o = true)
    (hb : bodyOk b (!o.derivs.isEmpty) = true) (hs : b.shape = o.body.shape) (hn : b.numer = o.body.numer)
    (hr : b.readonly = true → ∀ d ∈ o.derivs, d.2.body.readonly = true) :
    WF { o with body := b } = true := by
  obtain ⟨-, hds, ha⟩ := (wf_iff o).1 ho
  rw [wf_iff]
  refine ⟨hb, ?_, ha⟩
  intro d hd
  have := hds d hd
  simp only [derivOk, Bool.and_eq_true, beq_iff_eq, List.isEmpty_iff, Bool.or_eq_true, Bool.not_eq_true'] at this ⊢
  obtain ⟨⟨⟨⟨⟨⟨a, b'⟩, c⟩, e⟩, f⟩, -⟩, k⟩ := this
  refine ⟨⟨⟨⟨⟨⟨a, by rw [b', hs]⟩, by rw [c, hn]⟩, e⟩, f⟩, ?_⟩, k⟩
  cases hro : b.readonly
  · exact Or.inl rfl
  · exact Or.inr (hr hro d hd)

theorem norm_facts (v : RawArr) :
    (v.norm.isArr = true ∨ v.norm.shape = []) ∧ v.norm.kind = v.kind
    ∧ (v.norm.isArr && !v.norm.writable) = (v.isArr && !v.writable) := by
  unfold RawArr.norm; split <;> simp_all

def setBody (b : Body) (v : RawArr) (m : MaskD) : Body :=
  { b with varr := v.isArr, vwritable := v.writable, kind := v.kind, dkind := v.kind,
           readonly := v.isArr && !v.writable, mask := m }

/-- `_set_values_(values, mask)` (qube.py:1104-1177) under the callers' obligations `setterGuard` -/
theorem setValues_wf (o r : ObjDump) (v : RawArr) (mask : Option MaskD) (ho : WF o = true)
    (hg : setterGuard o v mask = true) (h : setValues o v mask = some r) : WF r = true := by
  obtain ⟨n1, n2, n3⟩ := norm_facts v
  obtain ⟨hb, -, -⟩ := (wf_iff o).1 ho
  simp only [setterGuard, Bool.and_eq_true, Bool.or_eq_true, Bool.not_eq_true', List.all_eq_true] at hg
  obtain ⟨⟨g1, g2⟩, g3⟩ := hg
  unfold setValues at h
  simp only [] at h
  by_cases hsh : (v.norm.shape != o.body.vshape) = true
  · rw [if_pos hsh] at h; cases h
  rw [if_neg hsh] at h
  by_cases hbad : badMaskShape mask o.body.shape = true
  · rw [if_pos hbad] at h; cases h
  rw [if_neg hbad] at h
  by_cases hko : (v.norm.kind == Kind.other) = true
  · rw [if_pos hko] at h; cases h
  rw [if_neg hko] at h
  cases h
  have hsh' : v.norm.shape = o.body.vshape := by simpa using hsh
  refine rebody_wf o (setBody o.body v.norm (setterMask (v.norm.isArr && !v.norm.writable) (newMask mask o.body.mask)))
    ho ?_ rfl rfl ?_
  · -- the new body
    simp only [bodyOk, bodyClauses, setBody, List.all_cons, List.all_nil, Bool.and_eq_true, id] at hb ⊢
    obtain ⟨c1, c2, c3, c4, c5, c6, c7, c8, c9, c10, c11⟩ := hb
    simp only [Bool.or_eq_true, List.isEmpty_iff, beq_iff_eq] at c1 c2 c4 c5 c6 c9 c10 ⊢
    refine ⟨⟨c1.1, ?_⟩, c2, ?_, c4, c5, ⟨c6.1, trivial⟩, c7, by rw [n2]; exact g1, c9, c10, ?_⟩
    · rcases n1 with h | h
      · exact Or.inl h
      · exact Or.inr (hsh' ▸ h)
    · -- mask
      cases mask with
      | none =>
        simp only [newMask]
        cases hm : o.body.mask with
        | scalar x => simp [setterMask, maskOk]
        | npbool x => rw [hm] at c3; simp [maskOk] at c3
        | other => rw [hm] at c3; simp [maskOk] at c3
        | array s k w =>
          rw [hm] at c3
          simp only [maskOk, Bool.and_eq_true, beq_iff_eq] at c3
          simp only [setterMask]
          split <;> (try split) <;> simp [maskOk, c3.1, c3.2]
      | some m =>
        cases m with
        | scalar x => simp [newMask, setterMask, maskOk]
        | npbool x => simp at g2
        | other => simp at g2
        | array s k w =>
          simp only [newMask, setterMask]
          have hk : k = true := by simpa using g2
          have hs : s = o.body.shape := by simpa [badMaskShape] using hbad
          split <;> (try split) <;> simp [maskOk, hk, hs]
    · -- read-only flag and arrays
      unfold roArraysOk
      simp only [setBody]
      cases hro : (v.norm.isArr && !v.norm.writable)
      · simp
      · have hva : v.norm.isArr = true ∧ v.norm.writable = false := by simpa using hro
        have hro' : (v.isArr && !v.writable) = true := by rw [← n3]; exact hro
        simp only [hva.1, hva.2, Bool.not_true, Bool.false_or, Bool.not_false, Bool.true_and, Bool.or_true]
        rcases g3 with g3 | g3
        · rw [hro'] at g3; cases g3
        · have g4 := g3.2
          cases hm : newMask mask o.body.mask with
          | array s k w =>
            rw [hm] at g4
            have : s.isEmpty = false := by simpa using g4
            simp [setterMask, this]
          | scalar x => simp [setterMask]
          | npbool x => simp [setterMask]
          | other => simp [setterMask]
  · intro hro d hd
    simp only [setBody] at hro
    rw [n3] at hro
    rcases g3 with g3 | g3
    · rw [hro] at g3; cases g3
    · exact g3.1 d hd

def maskFrozen : MaskD → Bool
  | .array _ _ w => !w
  | _ => true

theorem remask_wf (o : ObjDump) (m : MaskD) (ho : WF o = true) (hm : maskOk m o.body.shape = true)
    (hro : o.body.readonly = true → maskFrozen m = true) :
    WF { o with body := { o.body with mask := m } } = true := by
  obtain ⟨hb, -, -⟩ := (wf_iff o).1 ho
  refine rebody_wf o _ ho ?_ rfl rfl ?_
  · simp only [bodyOk, bodyClauses, List.all_cons, List.all_nil, Bool.and_eq_true, id] at hb ⊢
    obtain ⟨c1, c2, c3, c4, c5, c6, c7, c8, c9, c10, c11⟩ := hb
    refine ⟨c1, c2, hm, c4, c5, c6, c7, c8, c9, c10, ?_⟩
    unfold roArraysOk at c11 ⊢
    cases hr : o.body.readonly
    · simp
    · have hf := hro hr
      simp only [hr, Bool.not_true, Bool.false_or, Bool.and_eq_true] at c11 ⊢
      refine ⟨⟨c11.1.1, ?_⟩, c11.2⟩
      cases m <;> simp_all [maskFrozen]
  · intro hr d hd
    exact ((wf_derivs ho).1 d hd).2.2.2.2.2.1 hr

/-- `_set_mask_(mask)` (qube.py:1187-1223): no obligation on the caller -/
theorem setMask_wf (o r : ObjDump) (mask : RawMask) (ho : WF o = true) (h : setMask o mask = some r) : WF r = true := by
  unfold setMask at h
  split at h
  · cases h
  rename_i m hm
  simp only [] at h
  cases m with
  | scalar x =>
    simp only [Option.some.injEq] at h
    subst h
    exact remask_wf o (.scalar x) ho rfl (fun _ => rfl)
  | npbool x => cases h
  | other => cases h
  | array s k w =>
    simp only [] at h
    by_cases hs : (s == o.body.shape) = true
    · rw [if_pos hs] at h
      simp only [Option.some.injEq] at h
      subst h
      have hs' : s = o.body.shape := by simpa using hs
      have e : (if o.body.readonly = true then MaskD.array s true false else MaskD.array s true true)
          = MaskD.array s true (!o.body.readonly) := by cases o.body.readonly <;> rfl
      simp only [e]
      exact remask_wf o (.array s true (!o.body.readonly)) ho (by simp [maskOk, hs'])
        (by intro hr; simp [maskFrozen, hr])
    · rw [if_neg hs] at h
      cases h

/-! ### every object produced by any list of operations -/

def good : Effect → Prop
  | .none => True
  | .set _ o => WF o = true
  | .push o => WF o = true

theorem ofSet_good (i : Nat) (r : R ObjDump) (h : ∀ o, r = some o → WF o = true) : good (Effect.ofSet i r) := by
  cases r with
  | none => trivial
  | some o => exact h o rfl

theorem ofPush_good (r : R ObjDump) (h : ∀ o, r = some o → WF o = true) : good (Effect.ofPush r) := by
  cases r with
  | none => trivial
  | some o => exact h o rfl

theorem resolveDerivs_mem (pool : Pool) (l : List (String × Nat)) (r : List (String × ObjDump))
    (h : resolveDerivs pool l = some r) : ∀ kd ∈ r, ∃ i, pool.get? i = some kd.2 := by
  induction l generalizing r with
  | nil => simp only [resolveDerivs, Option.some.injEq] at h; subst h; intro kd hkd; cases hkd
  | cons x t ih =>
    obtain ⟨k, i⟩ := x
    simp only [resolveDerivs] at h
    split at h
    · rename_i o r' ho hr'
      cases h
      intro kd hkd
      rcases List.mem_cons.1 hkd with e | e
      · subst e; exact ⟨i, ho⟩
      · exact ih r' hr' kd e
    · cases h

theorem resolveCtor_wf {pool : Pool} {cls arg mask derivs units nrank drank exmpl dflt} {ci : CtorIn}
    (hget : ∀ i o, pool.get? i = some o → WF o = true)
    (h : resolveCtor pool cls arg mask derivs units nrank drank exmpl dflt = some ci) :
    (∀ l, ci.derivs = some l → ∀ kd ∈ l, WF kd.2 = true) ∧ (∀ a, ci.arg = .qube a → WF a = true) := by
  unfold resolveCtor at h
  simp only [] at h
  split at h
  · rename_i a d e h1 h2 h3
    cases h
    constructor
    · intro l hl kd hkd
      simp only at hl
      subst hl
      cases derivs with
      | none => simp at h2
      | some dl =>
        simp only [Option.map_eq_some_iff] at h2
        obtain ⟨r, hr, hr'⟩ := h2
        simp only [Option.some.injEq] at hr'
        subst hr'
        obtain ⟨i, hi⟩ := resolveDerivs_mem pool dl r hr kd hkd
        exact hget i _ hi
    · intro q hq
      simp only at hq
      subst hq
      cases arg with
      | val x => simp at h1
      | bad => simp at h1
      | obj i =>
        simp only [Option.map_eq_some_iff] at h1
        obtain ⟨o, ho, ho'⟩ := h1
        simp only [RawArg.qube.injEq] at ho'
        subst ho'
        exact hget i _ ho
  · cases h

/-- every operation of the model hands back / leaves behind a well-formed object, or raises -/
theorem effect_good (pool : Pool) (op : Op) (hp : ∀ o ∈ pool, WF o = true) : good (effect pool op) := by
  have hget : ∀ i o, pool.get? i = some o → WF o = true := by
    intro i o h; exact hp o (List.mem_of_getElem? h)
  cases op with
  | ctor cls arg mask derivs units nrank drank exmpl dflt =>
    simp only [effect]
    split
    · rename_i ci hci
      obtain ⟨w1, w2⟩ := resolveCtor_wf hget hci
      exact ofPush_good _ fun o ho => ctor_wf ci o w1 w2 ho
    · trivial
  | insertDeriv p key d ov =>
    simp only [effect]
    split
    · rename_i po dn hpo hdn
      exact ofSet_good _ _ fun r hr => insertDeriv_wf po dn key ov r (hget p po hpo) (hget d dn hdn) hr
    · trivial
  | deleteDeriv p key ov =>
    simp only [effect]
    cases hg : pool.get? p with
    | none => trivial
    | some o => exact ofSet_good _ _ fun r hr => deleteDeriv_wf o key ov r (hget p o hg) hr
  | deleteDerivs p ov =>
    simp only [effect]
    cases hg : pool.get? p with
    | none => trivial
    | some o => exact ofSet_good _ _ fun r hr => deleteDerivs_wf o ov r (hget p o hg) hr
  | asReadonly p =>
    simp only [effect]
    cases hg : pool.get? p with
    | none => trivial
    | some o => exact asReadonly_wf o (hget p o hg)
  | setValues p v mask =>
    simp only [effect]
    cases hg : pool.get? p with
    | none => trivial
    | some o =>
      simp only []
      split
      · rename_i hguard
        exact ofSet_good _ _ fun r hr => setValues_wf o r v mask (hget p o hg) hguard hr
      · trivial
  | setMask p mask =>
    simp only [effect]
    cases hg : pool.get? p with
    | none => trivial
    | some o => exact ofSet_good _ _ fun r hr => setMask_wf o r mask (hget p o hg) hr
  | clone p recursive preserve =>
    simp only [effect]
    cases hg : pool.get? p with
    | none => trivial
    | some o => exact ofPush_good _ fun r hr => clone_wf o recursive preserve r (hget p o hg) hr
  | wod p =>
    simp only [effect]
    cases hg : pool.get? p with
    | none => trivial
    | some o => exact wod_wf o (hget p o hg)
  | withoutDeriv p key =>
    simp only [effect]
    cases hg : pool.get? p with
    | none => trivial
    | some o => exact ofPush_good _ fun r hr => withoutDeriv_wf o key r (hget p o hg) hr
  | copy p recursive readonly =>
    simp only [effect]
    cases hg : pool.get? p with
    | none => trivial
    | some o => exact ofPush_good _ fun r hr => copy_wf o recursive readonly r (hget p o hg) hr
  | asFloat p =>
    simp only [effect]
    cases hg : pool.get? p with
    | none => trivial
    | some o => exact ofPush_good _ fun r hr => asFloatObj_wf o r (hget p o hg) hr
  | broadcastTo p shape =>
    simp only [effect]
    cases hg : pool.get? p with
    | none => trivial
    | some o => exact ofPush_good _ fun r hr => broadcastToObj_wf o r shape (hget p o hg) hr
  | pickle p c dc =>
    simp only [effect]
    cases hg : pool.get? p with
    | none => trivial
    | some o => exact ofPush_good _ fun r hr => setstate_wf o r c dc (hget p o hg) hr
  | deriv p key =>
    simp only [effect]
    cases hg : pool.get? p with
    | none => trivial
    | some o => exact ofPush_good _ fun d hd => deriv_wf o key d (hget p o hg) hd

/-- `op_preserves_wf`: one call — ANY of the 16 modelled operations with ANY arguments, applied to a pool of
    well-formed objects — leaves a pool of well-formed objects -/
theorem step_wf (pool : Pool) (op : Op) (hp : ∀ o ∈ pool, WF o = true) :
    ∀ o ∈ step pool op, WF o = true := by
  have hg := effect_good pool op hp
  unfold step
  cases he : effect pool op with
  | none => exact hp
  | set i o =>
    rw [he] at hg
    intro x hx
    rcases List.mem_or_eq_of_mem_set hx with h | h
    · exact hp x h
    · rw [h]; exact hg
  | push o =>
    rw [he] at hg
    intro x hx
    rcases List.mem_append.1 hx with h | h
    · exact hp x h
    · simp only [List.mem_singleton] at h; rw [h]; exact hg

/-- `reachable_wf`: for EVERY list of operations (any length, any order, any arguments: constructor calls with
    arbitrary raw arrays, insert_deriv, delete_deriv(s), as_readonly, the setters under the callers' obligations,
    clone, wod, without_deriv, copy, as_float, broadcast_to, pickling, reading a derivative), applied to any pool of
    well-formed start objects, every object of the final pool is well-formed.  Induction over the list: unbounded. -/
theorem reachable_wf (ops : List Op) (pool : Pool) (hp : ∀ o ∈ pool, WF o = true) :
    ∀ o ∈ run pool ops, WF o = true := by
  induction ops generalizing pool with
  | nil => exact hp
  | cons op t ih =>
    simp only [run, List.foldl_cons]
    exact ih (step pool op) (step_wf pool op hp)

/-- in particular for programs that start from nothing: every object comes from the constructor -/
theorem reachable_from_ctor_wf (ops : List Op) : ∀ o ∈ run [] ops, WF o = true :=
  reachable_wf ops [] (fun o ho => by cases ho)

def startObj : ObjDump :=
  bare { cls := .scalar, kind := .float, varr := true, vshape := [2], vwritable := true,
         mask := .scalar false, shape := [2], numer := [], denom := [], item := [], rank := 0, nrank := 0, drank := 0,
         size := 2, isize := 1, nsize := 1, dsize := 1, dshape := [], dkind := .float, units := false,
         readonly := false, complete := true }

/-- a non-trivial history: a Vector3 with a derivative given as an int Scalar-shaped Vector3 of another shape
    (converted, broadcast), frozen, cloned, pickled, one derivative removed -/
def history : List Op :=
  [.ctor .vector3 (.val ⟨true, [2, 3], .float, true⟩) (.arr [2] true true) (some []) .none none none none none,
   .ctor .vector3 (.val ⟨true, [1, 3], .float, true⟩) (.bool false) (some []) .none none none none none,
   .insertDeriv 1 "t" 2 true, .insertDeriv 1 "x" 1 true, .asReadonly 1, .clone 1 true [], .withoutDeriv 3 "t",
   .pickle 1 .keep [], .copy 1 true false, .broadcastTo 0 [3, 2], .setMask 0 (.arr [2] true true),
   .setValues 0 ⟨true, [2], .int, false⟩ none, .asFloat 0, .deriv 1 "t", .deleteDerivs 1 true, .wod 3]

example : (run [startObj] history).length = 11 ∧ (run [startObj] history).all WF = true := by decide

end PMV.C05
