import PMV.Model.WF
import PMV.Lemmas.WFCtor
import PMV.Lemmas.WFOps
/-
  C05 — every object the API hands back is structurally well-formed.
-/
namespace PMV.C05
open PMV PMV.Gen PMV.WF PMV.C05L

/-! ### what `WF` says (sanity: the Boolean predicate the driver evaluates implies each clause of the property) -/

theorem wf_iff (o : ObjDump) :
    WF o = true ↔ (bodyOk o.body (!o.derivs.isEmpty) = true ∧ (∀ d ∈ o.derivs, derivOk o.body d.2 = true)
      ∧ attrsOk o.derivs o.attrs = true) := by
  simp only [WF, wfClauses, bodyOk, derivOk, List.all_append, List.all_cons, List.all_nil, Bool.and_true,
    Bool.and_eq_true, List.all_eq_true, id, Bool.or_eq_true, Bool.not_eq_true', beq_iff_eq]
  constructor
  · rintro ⟨hb, h1, h2, h3, h4, h5, h6⟩
    refine ⟨hb, ?_, h4⟩
    intro d hd
    have a1 := h1 d hd; have a2 := h2 d hd; have a3 := h3 d hd; have a6 := h6 d hd
    rcases a3 with ⟨a3, a3'⟩
    simp only [List.isEmpty_iff] at a3
    simp only [a3, List.isEmpty_nil, Bool.not_true] at a6
    refine ⟨⟨⟨⟨⟨⟨a1, a2.1⟩, a2.2⟩, by simp [a3]⟩, a3'⟩, ?_⟩, a6⟩
    rcases h5 with h5 | h5
    · exact Or.inl h5
    · exact Or.inr (h5 d hd)
  · rintro ⟨hb, hd, ha⟩
    refine ⟨hb, fun d h => (hd d h).1.1.1.1.1.1, fun d h => ⟨(hd d h).1.1.1.1.1.2, (hd d h).1.1.1.1.2⟩,
      fun d h => ⟨(hd d h).1.1.1.2, (hd d h).1.1.2⟩, ha, ?_, ?_⟩
    · by_cases hr : o.body.readonly = false
      · exact Or.inl hr
      · right; intro d h
        rcases (hd d h).1.2 with h' | h'
        · exact absurd h' hr
        · exact h'
    · intro d h
      have e := (hd d h).1.1.1.2
      simp only [List.isEmpty_iff] at e
      simpa [e] using (hd d h).2

/-- values shape = shape ++ numerator ++ denominator -/
theorem wf_values_shape {o : ObjDump} (h : WF o = true) :
    o.body.vshape = o.body.shape ++ o.body.numer ++ o.body.denom := by
  have := ((wf_iff o).1 h).1
  simp only [bodyOk, bodyClauses, List.all_cons, Bool.and_eq_true, beq_iff_eq, id] at this
  exact this.2.1

/-- the mask is a single Python bool or a bool array of exactly the leading shape -/
theorem wf_mask {o : ObjDump} (h : WF o = true) :
    (∃ b, o.body.mask = .scalar b) ∨ (∃ w, o.body.mask = .array o.body.shape true w) := by
  have := ((wf_iff o).1 h).1
  simp only [bodyOk, bodyClauses, List.all_cons, Bool.and_eq_true, id] at this
  have hm := this.2.2.1
  cases hmk : o.body.mask with
  | scalar b => exact Or.inl ⟨b, rfl⟩
  | npbool b => simp [hmk, maskOk] at hm
  | array s k w =>
    simp only [hmk, maskOk, Bool.and_eq_true, beq_iff_eq] at hm
    exact Or.inr ⟨w, by rw [hm.1, hm.2]⟩
  | other => simp [hmk, maskOk] at hm

/-- rank / item / size bookkeeping agrees with the shapes; the default value has the item's shape and the values' kind -/
theorem wf_bookkeeping {o : ObjDump} (h : WF o = true) :
    o.body.nrank = o.body.numer.length ∧ o.body.drank = o.body.denom.length ∧ o.body.rank = o.body.nrank + o.body.drank
    ∧ o.body.item = o.body.numer ++ o.body.denom ∧ o.body.size = size o.body.shape ∧ o.body.isize = size o.body.item
    ∧ o.body.dshape = o.body.item ∧ o.body.dkind = o.body.kind := by
  have := ((wf_iff o).1 h).1
  simp only [bodyOk, bodyClauses, List.all_cons, Bool.and_eq_true, beq_iff_eq, id] at this
  obtain ⟨-, -, -, ⟨⟨⟨a, b⟩, c⟩, d⟩, ⟨⟨⟨e, f⟩, -⟩, -⟩, ⟨g, k⟩, -⟩ := this
  exact ⟨a, b, c, d, e, f, g, k⟩

/-- the class constraints of the regenerated table hold -/
theorem wf_class {o : ObjDump} (h : WF o = true) :
    kindOk o.body.cls o.body.kind = true
    ∧ (∀ n, (classInfo o.body.cls).nrank = some n → o.body.numer.length = n)
    ∧ (∀ n, (classInfo o.body.cls).numer = some n → o.body.numer = n)
    ∧ (o.body.units = true → (classInfo o.body.cls).unitsOk = true)
    ∧ ((o.derivs ≠ [] ∨ o.body.denom ≠ []) → (classInfo o.body.cls).derivsOk = true) := by
  have := ((wf_iff o).1 h).1
  simp only [bodyOk, bodyClauses, List.all_cons, Bool.and_eq_true, beq_iff_eq, id] at this
  obtain ⟨-, -, -, -, -, -, ⟨c1, c2⟩, c3, c4, c5, -⟩ := this
  refine ⟨c3, ?_, ?_, ?_, ?_⟩
  · intro n hn; rw [hn] at c1; simpa [optAll] using c1
  · intro n hn; rw [hn] at c2; simpa [optAll] using c2
  · intro hu; simpa [hu] using c4
  · intro hd
    cases hok : (classInfo o.body.cls).derivsOk
    · exfalso
      simp only [hok, Bool.or_false, Bool.and_eq_true, Bool.not_eq_true', List.isEmpty_iff, Bool.not_eq_false'] at c5
      rcases hd with hd | hd
      · exact hd c5.1
      · exact hd c5.2
    · rfl

/-- each derivative: float, same leading shape and numerator, no derivatives of its own, read-only when the parent
    is, itself well-formed as an object; attribute ⇔ key -/
theorem wf_derivs {o : ObjDump} (h : WF o = true) :
    (∀ d ∈ o.derivs, d.2.body.kind = .float ∧ d.2.body.shape = o.body.shape ∧ d.2.body.numer = o.body.numer
      ∧ d.2.derivs = [] ∧ d.2.attrs = [] ∧ (o.body.readonly = true → d.2.body.readonly = true) ∧ WF d.2 = true)
    ∧ o.derivs.map (·.1) = o.attrs.map (·.1) ∧ (∀ a ∈ o.attrs, a.2 = true) := by
  obtain ⟨-, hd, ha⟩ := (wf_iff o).1 h
  refine ⟨?_, ?_, ?_⟩
  · intro d hdm
    have := hd d hdm
    simp only [derivOk, Bool.and_eq_true, beq_iff_eq, List.isEmpty_iff, Bool.or_eq_true, Bool.not_eq_true'] at this
    obtain ⟨⟨⟨⟨⟨⟨a, b⟩, c⟩, e⟩, f⟩, g⟩, k⟩ := this
    refine ⟨a, b, c, e, f, ?_, ?_⟩
    · intro hr; rcases g with g | g
      · rw [hr] at g; cases g
      · exact g
    · rw [wf_iff]
      refine ⟨by simpa [e] using k, by simp [e], by simp [attrsOk, e, f]⟩
  · simp only [attrsOk, Bool.and_eq_true, beq_iff_eq] at ha; exact ha.1
  · simp only [attrsOk, Bool.and_eq_true, List.all_eq_true] at ha; exact fun a h => ha.2 a h

/-! ### the constructor -/

/-- `ctor_wf` for the object itself: for ANY raw input (any class, argument, mask, units, ranks, example, default)
    the constructor model raises or builds an object satisfying every per-object clause of `WF`. -/
theorem ctorCore_wf (i : CtorIn) (b : Body) (h : ctorCore i = some b) : WF (bare b) = true := by
  rw [wf_iff]
  exact ⟨(ctorCore_ok h).1, by simp [bare], by simp [bare, attrsOk]⟩

/-- the constructor called without derivatives (derivs = {} and no derivatives on a Qube argument) -/
theorem ctor_wf_partial (i : CtorIn) (o : ObjDump) (hd : derivsGiven i = false) (h : ctor i = some o) : WF o = true := by
  unfold ctor at h
  split at h
  · cases h
  · rename_i b hb
    have e : ctorDerivs i = [] := by
      unfold derivsGiven at hd
      unfold ctorDerivs
      cases hid : i.derivs with
      | some l => simpa [hid] using hd
      | none =>
        cases hia : i.arg with
        | qube a => simpa [hid, hia] using hd
        | val a => rfl
        | bad => rfl
    simp only [e, insertDerivs] at h
    cases h
    exact ctorCore_wf i b hb
-- (the full `ctor_wf`, with derivatives, is proved below, after `insertDeriv_wf`)

example : (ctor ⟨.vector3, .val ⟨true, [2, 3], .int, false⟩, .arr [1] true true, some [], .some, none, none, none, none⟩).map (·.body)
    = some ({ cls := .vector3, kind := .float, varr := true, vshape := [2, 3], vwritable := true,
                   mask := .array [2] true false, shape := [2], numer := [3], denom := [], item := [3], rank := 1,
                   nrank := 1, drank := 0, size := 2, isize := 3, nsize := 3, dsize := 1, dshape := [3],
                   dkind := .float, units := true, readonly := false, complete := true } : Body) := by decide

/-- the rejected raw inputs are rejected for a reason: e.g. a negative rank (repaired), a wrong item shape -/
example : (ctor ⟨.qube, .val ⟨true, [2, 3], .float, true⟩, .bool false, some [], .none, some 2, some (-2), none, none⟩).isNone = true := by
  decide
example : (ctor ⟨.vector3, .val ⟨true, [2, 4], .float, true⟩, .bool false, some [], .none, none, none, none, none⟩).isNone = true := by
  decide

/-! ### derivatives -/

theorem map_fst_setAssoc {β} (k : String) (v : β) (w : Bool) (l : List (String × β)) (a : List (String × Bool))
    (h : l.map (·.1) = a.map (·.1)) : (setAssoc k v l).map (·.1) = (setAssoc k w a).map (·.1) := by
  induction l generalizing a with
  | nil => cases a with
    | nil => rfl
    | cons x t => cases h
  | cons x t ih =>
    cases a with
    | nil => cases h
    | cons y u =>
      simp only [List.map_cons, List.cons.injEq] at h
      obtain ⟨h1, h2⟩ := h
      simp only [setAssoc, h1]
      split
      · simp [h2]
      · simp [h1, ih u h2]

theorem setAssoc_all (k : String) (a : List (String × Bool)) (h : a.all (·.2) = true) :
    (setAssoc k true a).all (·.2) = true := by
  induction a with
  | nil => rfl
  | cons x t ih =>
    simp only [List.all_cons, Bool.and_eq_true] at h
    simp only [setAssoc]
    split
    · simp [h.2]
    · simp [h.1, ih h.2]

theorem mem_setAssoc {β} (k : String) (v : β) (l : List (String × β)) (x : String × β) (h : x ∈ setAssoc k v l) :
    x = (k, v) ∨ x ∈ l := by
  induction l with
  | nil => simp [setAssoc] at h; exact Or.inl h
  | cons y t ih =>
    simp only [setAssoc] at h
    split at h
    · simp only [List.mem_cons] at h
      rcases h with h | h
      · exact Or.inl h
      · exact Or.inr (List.mem_cons_of_mem _ h)
    · simp only [List.mem_cons] at h
      rcases h with h | h
      · exact Or.inr (by simp [h])
      · rcases ih h with h | h
        · exact Or.inl h
        · exact Or.inr (List.mem_cons_of_mem _ h)

theorem setAssoc_ne_nil {β} (k : String) (v : β) (l : List (String × β)) : (setAssoc k v l).isEmpty = false := by
  cases l with
  | nil => rfl
  | cons y t => simp only [setAssoc]; split <;> rfl

theorem bodyOk_true_of {b : Body} {h : Bool} (hb : bodyOk b h = true) (hd : (classInfo b.cls).derivsOk = true) :
    bodyOk b true = true := by
  simp only [bodyOk, bodyClauses, List.all_cons, List.all_nil, Bool.and_eq_true, id] at hb ⊢
  obtain ⟨c1, c2, c3, c4, c5, c6, c7, c8, c9, -, c11⟩ := hb
  exact ⟨c1, c2, c3, c4, c5, c6, c7, c8, c9, by simp [hd], c11⟩

theorem bodyOk_false_of {b : Body} {h : Bool} (hb : bodyOk b h = true) : bodyOk b false = true := by
  simp only [bodyOk, bodyClauses, List.all_cons, List.all_nil, Bool.and_eq_true, id] at hb ⊢
  obtain ⟨c1, c2, c3, c4, c5, c6, c7, c8, c9, c10, c11⟩ := hb
  refine ⟨c1, c2, c3, c4, c5, c6, c7, c8, c9, ?_, c11⟩
  cases h <;> simp_all

/-- the commit step of `insert_deriv` (qube.py:1536-1540): storing a derivative that meets the contract under a key
    and as attribute keeps the parent well-formed -/
theorem store_deriv_wf (p d : ObjDump) (key : String) (hp : WF p = true) (hok : (classInfo p.body.cls).derivsOk = true)
    (hd : derivOk p.body d = true) :
    WF { p with derivs := setAssoc key d p.derivs, attrs := setAssoc key true p.attrs } = true := by
  obtain ⟨hb, hds, ha⟩ := (wf_iff p).1 hp
  rw [wf_iff]
  refine ⟨?_, ?_, ?_⟩
  · simp only [setAssoc_ne_nil, Bool.not_false]
    exact bodyOk_true_of hb hok
  · intro x hx
    rcases mem_setAssoc key d p.derivs x hx with h | h
    · rw [h]; exact hd
    · exact hds x h
  · simp only [attrsOk, Bool.and_eq_true, beq_iff_eq] at ha ⊢
    exact ⟨map_fst_setAssoc key d true p.derivs p.attrs ha.1, setAssoc_all key p.attrs ha.2⟩

theorem bodyReadonly_ok {b : Body} {h : Bool} (hb : bodyOk b h = true) : bodyOk (bodyReadonly b) h = true := by
  unfold bodyReadonly
  split
  · exact hb
  · simp only [bodyOk, bodyClauses, List.all_cons, List.all_nil, Bool.and_eq_true, id] at hb ⊢
    obtain ⟨c1, c2, c3, c4, c5, c6, c7, c8, c9, c10, c11⟩ := hb
    refine ⟨c1, c2, ?_, c4, c5, c6, c7, c8, c9, c10, ?_⟩
    · exact maskToReadonly_ok c3
    · unfold roArraysOk
      cases hv : b.varr <;> cases hm : b.mask <;> simp [maskToReadonly]

/-- a read-only float Scalar of shape (2,3) and an int Scalar of shape (3,) with a derivative of its own -/
def startP : ObjDump :=
  bare { cls := .scalar, kind := .float, varr := true, vshape := [2, 3], vwritable := false,
         mask := .scalar false, shape := [2, 3], numer := [], denom := [], item := [], rank := 0, nrank := 0, drank := 0,
         size := 6, isize := 1, nsize := 1, dsize := 1, dshape := [], dkind := .float, units := false,
         readonly := true, complete := true }
def startD0 : Body :=
  { cls := .scalar, kind := .int, varr := true, vshape := [3], vwritable := true,
    mask := .array [3] true true, shape := [3], numer := [], denom := [], item := [], rank := 0, nrank := 0, drank := 0,
    size := 3, isize := 1, nsize := 1, dsize := 1, dshape := [], dkind := .int, units := false,
    readonly := false, complete := true }
def startD : ObjDump :=
  ⟨startD0, [("x", bare { startD0 with kind := .float, dkind := .float })], [("x", true)]⟩

/-- `insert_deriv_wf`: `insert_deriv(key, deriv, override)` on a well-formed object with a well-formed derivative
    either raises (object unchanged) or leaves a well-formed object — whatever class, kind, shape, read-only state
    the derivative has: nested derivatives are stripped, ints converted to float through the constructor, the shape
    broadcast, the read-only state matched, and attribute and dictionary entry set together. -/
theorem insertDeriv_wf (p d : ObjDump) (key : String) (ov : Bool) (r : ObjDump)
    (hp : WF p = true) (hd : WF d = true) (h : insertDeriv p key d ov = some r) : WF r = true := by
  unfold insertDeriv at h
  split at h
  · cases h
  rename_i hok
  split at h
  · cases h
  rename_i hn
  split at h
  · cases h
  split at h
  · cases h
  have hok' : (classInfo p.body.cls).derivsOk = true := by simpa using hok
  have hn' : p.body.numer = d.body.numer := by simpa using hn
  have hdb : bodyOk (cloneBare d).body (!d.derivs.isEmpty) = true := ((wf_iff d).1 hd).1
  split at h
  · cases h
  rename_i d1 h1
  obtain ⟨a1, a2, a3, a4, a5⟩ := asFloat_ok hdb rfl h1
  split at h
  · cases h
  rename_i d2 h2
  -- after the broadcast
  have hb2 : d2.body.kind = .float ∧ d2.body.shape = p.body.shape ∧ d2.body.numer = d.body.numer
      ∧ bodyOk d2.body false = true := by
    split at h2
    · obtain ⟨b1, b2, b3, b4, -⟩ := broadcastTo_ok a4 a5 h2
      exact ⟨by rw [b3, a1], b1, by rw [b2, a3]; rfl, b4⟩
    · rename_i hs
      cases h2
      exact ⟨a1, by simpa using hs, by rw [a3]; rfl, a4⟩
  obtain ⟨c1, c2, c3, c4⟩ := hb2
  cases h
  apply store_deriv_wf p _ key hp hok'
  simp only [derivOk, cloneBare, bare, Bool.and_eq_true, beq_iff_eq, List.isEmpty_nil, Bool.or_eq_true,
    Bool.not_eq_true']
  split
  · obtain ⟨f1, f2, f3, f4, -⟩ := bodyReadonly_fields d2.body
    refine ⟨⟨⟨⟨⟨⟨?_, ?_⟩, ?_⟩, trivial⟩, trivial⟩, Or.inr f4⟩, bodyReadonly_ok' c4⟩
    · show (bodyReadonly d2.body).kind = Kind.float; rw [f3, c1]
    · show (bodyReadonly d2.body).shape = p.body.shape; rw [f1, c2]
    · show (bodyReadonly d2.body).numer = p.body.numer; rw [f2, c3, hn']
  · rename_i hro
    refine ⟨⟨⟨⟨⟨⟨c1, c2⟩, by rw [c3, hn']⟩, trivial⟩, trivial⟩, ?_⟩, c4⟩
    simp only [Bool.and_eq_true, Bool.not_eq_true', not_and, Bool.not_eq_false] at hro
    cases hr : p.body.readonly
    · exact Or.inl rfl
    · exact Or.inr (hro hr)

example : (insertDeriv startP "t" startD true).map WF = some true := by decide

theorem insertDeriv_body (p d : ObjDump) (key : String) (ov : Bool) (r : ObjDump)
    (h : insertDeriv p key d ov = some r) : r.body = p.body := by
  unfold insertDeriv at h
  repeat' split at h
  all_goals first | (cases h; done) | (cases h; rfl)

/-- `insert_derivs`: however far it gets before an insertion raises, the object stays well-formed -/
theorem insertDerivs_wf (l : List (String × ObjDump)) (p : ObjDump) (ov : Bool) (r : ObjDump) (ok : Bool)
    (hp : WF p = true) (hl : ∀ kd ∈ l, WF kd.2 = true) (h : insertDerivs p l ov = (r, ok)) :
    WF r = true ∧ r.body = p.body := by
  induction l generalizing p with
  | nil => simp only [insertDerivs, Prod.mk.injEq] at h; rw [← h.1]; exact ⟨hp, rfl⟩
  | cons kd t ih =>
    obtain ⟨k, d⟩ := kd
    simp only [insertDerivs] at h
    cases hi : insertDeriv p k d ov with
    | none => rw [hi] at h; simp only [Prod.mk.injEq] at h; rw [← h.1]; exact ⟨hp, rfl⟩
    | some p' =>
      rw [hi] at h
      have hw := insertDeriv_wf p d k ov p' hp (hl (k, d) List.mem_cons_self) hi
      obtain ⟨w1, w2⟩ := ih p' hw (fun x hx => hl x (List.mem_cons_of_mem _ hx)) h
      exact ⟨w1, w2.trans (insertDeriv_body p d k ov p' hi)⟩

/-- `ctor_wf`: for ANY raw input (class, argument, mask, units, ranks, example, default; derivatives and a Qube
    argument being well-formed objects) the constructor model raises or returns a well-formed object. -/
theorem ctor_wf (i : CtorIn) (o : ObjDump)
    (hderivs : ∀ l, i.derivs = some l → ∀ kd ∈ l, WF kd.2 = true)
    (harg : ∀ a, i.arg = .qube a → WF a = true)
    (h : ctor i = some o) : WF o = true := by
  unfold ctor at h
  split at h
  · cases h
  · rename_i b hb
    have hl : ∀ kd ∈ ctorDerivs i, WF kd.2 = true := by
      unfold ctorDerivs
      cases hid : i.derivs with
      | some l => exact hderivs l hid
      | none =>
        cases hia : i.arg with
        | qube a =>
          intro kd hkd
          exact ((wf_derivs (harg a hia)).1 kd hkd).2.2.2.2.2.2
        | val a => intro kd hkd; cases hkd
        | bad => intro kd hkd; cases hkd
    generalize ctorDerivs i = L at h hl
    cases hr : insertDerivs (bare b) L false with
    | mk r ok =>
      rw [hr] at h
      cases ok with
      | false => cases h
      | true =>
        cases h
        exact (insertDerivs_wf L (bare b) false _ true (ctorCore_wf i b hb) hl hr).1

/-! ### operations that preserve well-formedness -/

theorem mem_delKey {β} (k : String) (l : List (String × β)) (x : String × β) (h : x ∈ delKey k l) : x ∈ l := by
  simp only [delKey, List.mem_filter] at h; exact h.1

theorem delKey_map {β} (k : String) (l : List (String × β)) (a : List (String × Bool))
    (h : l.map (·.1) = a.map (·.1)) : (delKey k l).map (·.1) = (delKey k a).map (·.1) := by
  induction l generalizing a with
  | nil => cases a with
    | nil => rfl
    | cons x t => cases h
  | cons x t ih =>
    cases a with
    | nil => cases h
    | cons y u =>
      simp only [List.map_cons, List.cons.injEq] at h
      obtain ⟨h1, h2⟩ := h
      simp only [delKey, List.filter_cons, h1]
      split
      · simp only [List.map_cons, h1]; congr 1; exact ih u h2
      · exact ih u h2

theorem bodyOk_any {b : Body} {h h' : Bool} (hb : bodyOk b h = true) (hd : h' = true → h = true) : bodyOk b h' = true := by
  cases h' with
  | false => exact bodyOk_false_of hb
  | true => rw [hd rfl] at hb; exact hb

/-- `delete_deriv` (qube.py:1574-1592) -/
theorem deleteDeriv_wf (p : ObjDump) (key : String) (ov : Bool) (r : ObjDump) (hp : WF p = true)
    (h : deleteDeriv p key ov = some r) : WF r = true := by
  unfold deleteDeriv at h
  split at h
  · cases h
  split at h
  · cases h
    obtain ⟨hb, hds, ha⟩ := (wf_iff p).1 hp
    rw [wf_iff]
    refine ⟨bodyOk_any hb ?_, fun x hx => hds x (mem_delKey key _ x hx), ?_⟩
    · intro h1
      cases hpd : p.derivs with
      | nil => simp [hpd, delKey] at h1
      | cons a t => rfl
    · simp only [attrsOk, Bool.and_eq_true, beq_iff_eq, List.all_eq_true] at ha ⊢
      exact ⟨delKey_map key _ _ ha.1, fun x hx => ha.2 x (mem_delKey key _ x hx)⟩
  · cases h; exact hp

/-- `delete_derivs` (qube.py:1595-1627, without `preserve`) -/
theorem deleteDerivs_wf (p : ObjDump) (ov : Bool) (r : ObjDump) (hp : WF p = true)
    (h : deleteDerivs p ov = some r) : WF r = true := by
  unfold deleteDerivs at h
  split at h
  · cases h
  cases h
  obtain ⟨hb, hds, ha⟩ := (wf_iff p).1 hp
  rw [wf_iff]
  refine ⟨bodyOk_false_of hb, by simp, ?_⟩
  simp only [attrsOk, Bool.and_eq_true, beq_iff_eq, List.all_eq_true] at ha ⊢
  refine ⟨?_, fun x hx => ha.2 x (List.mem_filter.1 hx).1⟩
  have : p.attrs.filter (fun a => !hasKey a.1 p.derivs) = [] := by
    rw [List.filter_eq_nil_iff]
    intro a hmem
    have : a.1 ∈ p.attrs.map (·.1) := List.mem_map_of_mem hmem
    rw [← ha.1] at this
    obtain ⟨d, hd, he⟩ := List.mem_map.1 this
    have hany : (p.derivs.any fun x => x.1 == a.1) = true := List.any_eq_true.2 ⟨d, hd, by simp [he]⟩
    simp [hasKey, hany]
  simp [this]

/-- the `wod` property -/
theorem wod_wf (o : ObjDump) (ho : WF o = true) : WF (wod o) = true := by
  unfold wod
  split
  · exact ho
  · obtain ⟨hb, -, -⟩ := (wf_iff o).1 ho
    rw [wf_iff]
    exact ⟨bodyOk_false_of hb, by simp [cloneBare, bare], by simp [cloneBare, bare, attrsOk]⟩

/-- reading a derivative (`obj.d_dt`, `obj.derivs['t']`) hands back a well-formed object -/
theorem deriv_wf (o : ObjDump) (key : String) (d : ObjDump) (ho : WF o = true) (h : lookup key o.derivs = some d) :
    WF d = true := by
  have hm : (key, d) ∈ o.derivs ∨ ∃ k, (k, d) ∈ o.derivs := by
    right
    generalize o.derivs = l at h
    induction l with
    | nil => cases h
    | cons x t ih =>
      obtain ⟨k', v⟩ := x
      simp only [lookup] at h
      split at h
      · cases h; exact ⟨k', List.mem_cons_self⟩
      · obtain ⟨k, hk⟩ := ih h; exact ⟨k, List.mem_cons_of_mem _ hk⟩
  rcases hm with hm | ⟨k, hm⟩
  · exact ((wf_derivs ho).1 _ hm).2.2.2.2.2.2
  · exact ((wf_derivs ho).1 _ hm).2.2.2.2.2.2

/-- `as_readonly` (qube.py:1915-1953, repaired: the derivatives always follow) -/
theorem asReadonly_wf (o : ObjDump) (ho : WF o = true) : WF (asReadonly o) = true := by
  unfold asReadonly
  split
  · exact ho
  · obtain ⟨hb, hds, ha⟩ := (wf_iff o).1 ho
    rw [wf_iff]
    refine ⟨?_, ?_, ?_⟩
    · simp only [List.isEmpty_map]; exact bodyReadonly_ok hb
    · intro x hx
      simp only [List.mem_map] at hx
      obtain ⟨d, hd, rfl⟩ := hx
      have := hds d hd
      simp only [derivOk, Bool.and_eq_true, beq_iff_eq, List.isEmpty_iff, Bool.or_eq_true, Bool.not_eq_true'] at this ⊢
      obtain ⟨⟨⟨⟨⟨⟨a, b⟩, c⟩, e⟩, f⟩, -⟩, k⟩ := this
      refine ⟨⟨⟨⟨⟨⟨?_, ?_⟩, ?_⟩, e⟩, f⟩, ?_⟩, bodyReadonly_ok k⟩
      · unfold bodyReadonly; split <;> simp [a]
      · unfold bodyReadonly; split <;> split <;> simp [b]
      · unfold bodyReadonly; split <;> split <;> simp [c]
      · right; unfold bodyReadonly; split <;> simp_all
    · simp only [attrsOk, Bool.and_eq_true, beq_iff_eq, List.map_map] at ha ⊢
      exact ⟨by simpa [Function.comp_def] using ha.1, ha.2⟩

theorem bare_wf (b : Body) (hb : bodyOk b false = true) : WF (bare b) = true := by
  rw [wf_iff]; exact ⟨hb, by simp [bare], by simp [bare, attrsOk]⟩

/-- `clone(recursive=False)` -/
theorem cloneBare_wf (o : ObjDump) (ho : WF o = true) : WF (cloneBare o) = true :=
  bare_wf _ (bodyOk_false_of ((wf_iff o).1 ho).1)

theorem insertDerivs_ok_wf (l : List (String × ObjDump)) (p : ObjDump) (ov : Bool) (r : ObjDump)
    (hp : WF p = true) (hl : ∀ kd ∈ l, WF kd.2 = true)
    (h : (match insertDerivs p l ov with | (r, true) => some r | (_, false) => none) = some r) : WF r = true := by
  cases hr : insertDerivs p l ov with
  | mk r' ok =>
    rw [hr] at h
    cases ok with
    | false => cases h
    | true => cases h; exact (insertDerivs_wf l p ov _ true hp hl hr).1

/-- `clone(recursive, preserve)` (qube.py:968-1020) -/
theorem clone_wf (o : ObjDump) (recursive : Bool) (preserve : List String) (r : ObjDump) (ho : WF o = true)
    (h : clone o recursive preserve = some r) : WF r = true := by
  unfold clone at h
  simp only [] at h
  apply insertDerivs_ok_wf _ (cloneBare o) true r (cloneBare_wf o ho) ?_ h
  intro kd hkd
  simp only [List.mem_map] at hkd
  obtain ⟨d, hdm, rfl⟩ := hkd
  have hd : d ∈ o.derivs := by
    split at hdm
    · exact hdm
    · exact (List.mem_filter.1 hdm).1
  exact cloneBare_wf _ ((wf_derivs ho).1 d hd).2.2.2.2.2.2

/-- `without_deriv(key)` (repaired: the copy loses the dictionary entry AND the attribute) -/
theorem withoutDeriv_wf (o : ObjDump) (key : String) (r : ObjDump) (ho : WF o = true)
    (h : withoutDeriv o key = some r) : WF r = true := by
  unfold withoutDeriv at h
  split at h
  · cases h; exact ho
  · split at h
    · cases h
    · rename_i c hc
      exact deleteDeriv_wf c key true r (clone_wf o true [] c ho hc) h

/-! ### every object produced by any list of operations -/

/-- the operations whose preservation theorem is proved in this file -/
def Proved : Op → Bool
  | .ctor _ _ _ derivs _ _ _ _ _ => (match derivs with | some [] => true | _ => false)
  | .deleteDeriv .. => true
  | .deleteDerivs .. => true
  | .asReadonly _ => true
  | .wod _ => true
  | .deriv .. => true
  | _ => false

def good : Effect → Prop
  | .none => True
  | .set _ o => WF o = true
  | .push o => WF o = true

theorem ofSet_good (i : Nat) (r : R ObjDump) (h : ∀ o, r = some o → WF o = true) : good (Effect.ofSet i r) := by
  cases r with
  | none => trivial
  | some o => exact h o rfl

theorem ofPush_good (r : R ObjDump) (h : ∀ o, r = some o → WF o = true) : good (Effect.ofPush r) := by
  cases r with
  | none => trivial
  | some o => exact h o rfl

theorem resolveCtor_noderivs {pool cls arg mask units nrank drank exmpl dflt ci}
    (h : resolveCtor pool cls arg mask (some []) units nrank drank exmpl dflt = some ci) : derivsGiven ci = false := by
  unfold resolveCtor at h
  simp only [resolveDerivs, Option.map_some] at h
  split at h
  · rename_i h1 h2 h3
    cases h2
    cases h
    rfl
  · cases h

theorem effect_good (pool : Pool) (op : Op) (hop : Proved op = true) (hp : ∀ o ∈ pool, WF o = true) :
    good (effect pool op) := by
  have hget : ∀ i o, pool.get? i = some o → WF o = true := by
    intro i o h; exact hp o (List.mem_of_getElem? h)
  cases op with
  | ctor cls arg mask derivs units nrank drank exmpl dflt =>
    simp only [Proved] at hop
    split at hop
    · simp only [effect]
      split
      · rename_i ci hci
        exact ofPush_good _ fun o ho => ctor_wf_partial ci o (resolveCtor_noderivs hci) ho
      · trivial
    · cases hop
  | deleteDeriv p key ov =>
    simp only [effect]
    cases hg : pool.get? p with
    | none => trivial
    | some o => exact ofSet_good _ _ fun r hr => deleteDeriv_wf o key ov r (hget p o hg) hr
  | deleteDerivs p ov =>
    simp only [effect]
    cases hg : pool.get? p with
    | none => trivial
    | some o => exact ofSet_good _ _ fun r hr => deleteDerivs_wf o ov r (hget p o hg) hr
  | asReadonly p =>
    simp only [effect]
    cases hg : pool.get? p with
    | none => trivial
    | some o => exact asReadonly_wf o (hget p o hg)
  | wod p =>
    simp only [effect]
    cases hg : pool.get? p with
    | none => trivial
    | some o => exact wod_wf o (hget p o hg)
  | deriv p key =>
    simp only [effect]
    cases hg : pool.get? p with
    | none => trivial
    | some o => exact ofPush_good _ fun d hd => deriv_wf o key d (hget p o hg) hd
  | _ => cases hop

theorem step_wf (pool : Pool) (op : Op) (hop : Proved op = true) (hp : ∀ o ∈ pool, WF o = true) :
    ∀ o ∈ step pool op, WF o = true := by
  have hg := effect_good pool op hop hp
  unfold step
  cases he : effect pool op with
  | none => exact hp
  | set i o =>
    rw [he] at hg
    intro x hx
    rcases List.mem_or_eq_of_mem_set hx with h | h
    · exact hp x h
    · rw [h]; exact hg
  | push o =>
    rw [he] at hg
    intro x hx
    rcases List.mem_append.1 hx with h | h
    · exact hp x h
    · simp only [List.mem_singleton] at h; rw [h]; exact hg

/-- `reachable_wf` for the proved operations: for EVERY list of operations (any length, any order, any arguments,
    applied to any pool of well-formed start objects) every object of the final pool is well-formed. -/
theorem reachable_wf_partial (ops : List Op) (pool : Pool) (hops : ∀ op ∈ ops, Proved op = true)
    (hp : ∀ o ∈ pool, WF o = true) : ∀ o ∈ run pool ops, WF o = true := by
  induction ops generalizing pool with
  | nil => exact hp
  | cons op t ih =>
    simp only [run, List.foldl_cons]
    exact ih (step pool op) (fun o ho => hops o (List.mem_cons_of_mem _ ho))
      (step_wf pool op (hops op List.mem_cons_self) hp)
-- FULL (reachable_wf): the same without the hypothesis `hops` (all 15 operations of `Op`; `setValues` under the
-- `setterGuard` built into `effect`).  Not proved: insertDeriv in general, clone, withoutDeriv, copy, asFloat,
-- broadcastTo, setValues, setMask, pickle — all monitored by the one-step correspondence and the sweep.

def startObj : ObjDump :=
  bare { cls := .scalar, kind := .float, varr := true, vshape := [2], vwritable := true,
         mask := .scalar false, shape := [2], numer := [], denom := [], item := [], rank := 0, nrank := 0, drank := 0,
         size := 2, isize := 1, nsize := 1, dsize := 1, dshape := [], dkind := .float, units := false,
         readonly := false, complete := true }

example : (run [startObj]
    [.ctor .vector3 (.val ⟨true, [2, 3], .float, true⟩) (.bool false) (some []) .none none none none none,
     .asReadonly 0, .wod 1, .deleteDerivs 1 true]).all WF = true := by decide

end PMV.C05
