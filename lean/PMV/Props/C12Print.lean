import PMV.Model.UnitsPrint
/-
  C12, printing path — "every resulting Units value printable".
  `name_printable`: with the module's tables intact (every registered unit has a name), `str(u)` succeeds
  for every Units value whose own name is None, a string, or a dictionary with string keys — whatever its
  exponents and triple; the dictionaries produced by `mul_names` / `div_names` / `name_power` are of that kind.
  `name_unprintable_counterexample`: with one registered name set to None (the state defect 13 left behind)
  printing raises TypeError.  Core Lean only.
-/
namespace PMV.Units

/-- every registered unit still has its name -/
def Reg.allNamed (r : Reg) : Bool := r.standard.all fun x => x.name.isSome

/-- the tables are as units.py:879-886 builds them: no empty list, every unit of list i has a non-zero
    exponent i (so that `target_power // actual_power` and `UNITS_BY_EXPO[i][0]` are defined) -/
def Reg.good (r : Reg) : Bool :=
  !((List.range 3).any fun i => (r.byExpo i).isEmpty || (r.byExpo i).any fun x => x.u.expAt i == 0)

/-- all keys of a dictionary are strings -/
def KeysOk (d : PDict) : Prop := ∀ kv ∈ d, kv.1.isSome = true

def PrintOk : PName → Prop
  | .str _ => True
  | .dict d => KeysOk d

theorem mapM_id_of_all_some : ∀ (l : List (Option String)), (∀ x ∈ l, x.isSome = true) → ∃ l', l.mapM id = some l'
  | [], _ => ⟨[], rfl⟩
  | x :: xs, h => by
    obtain ⟨l', hl⟩ := mapM_id_of_all_some xs (fun y hy => h y (List.mem_cons_of_mem _ hy))
    cases hx : x with
    | none => have := h x (List.mem_cons_self); simp [hx] at this
    | some s => exact ⟨s :: l', by simp [List.mapM_cons, hl]⟩

theorem splitKeys_ok (d : PDict) (h : KeysOk d) :
    (∀ k ∈ (splitKeys d).1, k.isSome = true) ∧ (∀ k ∈ (splitKeys d).2, k.isSome = true) := by
  constructor
  · intro k hk
    simp only [splitKeys, List.mem_filterMap] at hk
    obtain ⟨kv, hm, he⟩ := hk
    have hkv := h kv hm
    split at he
    · injection he with he; rw [← he]; exact hkv
    · split at he
      · split at he
        · injection he with he; rw [← he]; exact hkv
        · cases he
      · injection he with he; rw [← he]; exact hkv
  · intro k hk
    simp only [splitKeys, List.mem_filterMap] at hk
    obtain ⟨kv, hm, he⟩ := hk
    have hkv := h kv hm
    split at he
    · cases he
    · split at he
      · split at he
        · injection he with he; rw [← he]; exact hkv
        · cases he
      · cases he

/-- `name_to_str` is total on strings and on dictionaries whose keys are strings -/
theorem nameToStr_total (r : Reg) (n : PName) (h : PrintOk n) : ∃ s, nameToStr r n = .ok s := by
  cases n with
  | str s => exact ⟨s, rfl⟩
  | dict d =>
    obtain ⟨h1, h2⟩ := splitKeys_ok d h
    obtain ⟨l1, e1⟩ := mapM_id_of_all_some _ h1
    obtain ⟨l2, e2⟩ := mapM_id_of_all_some _ h2
    simp only [nameToStr, e1, e2]
    split <;> split <;> exact ⟨_, rfl⟩

theorem pdSet_keysOk (d : PDict) (k : PKey) (v : NVal) (hd : KeysOk d) (hk : k.isSome = true) :
    KeysOk (pdSet d k v) := by
  unfold pdSet
  split
  · intro kv hm
    simp only [List.mem_map] at hm
    obtain ⟨x, hx, rfl⟩ := hm
    split
    · exact hk
    · exact hd x hx
  · intro kv hm
    simp only [List.mem_append, List.mem_singleton] at hm
    rcases hm with hm | rfl
    · exact hd kv hm
    · exact hk

theorem dict3_keysOk (a b c : Opt) (ha : a.unit.name.isSome = true) (hb : b.unit.name.isSome = true)
    (hc : c.unit.name.isSome = true) : KeysOk (dict3 a b c) := by
  unfold dict3
  apply pdSet_keysOk _ _ _ _ hc
  apply pdSet_keysOk _ _ _ _ hb
  apply pdSet_keysOk _ _ _ _ ha
  intro kv hm; cases hm

theorem optOf_unit (i : Nat) (t : Int) (x : RU) (o : Opt) (h : optOf i t x = some o) : o.unit = x := by
  unfold optOf at h
  dsimp only at h
  split at h
  · split at h <;> (injection h with h; rw [← h])
  · cases h

theorem optionsFor_unit_mem (r : Reg) (u : U) (i : Nat) (o : Opt) (h : o ∈ optionsFor r u i) :
    o.unit ∈ r.byExpo i := by
  unfold optionsFor at h
  dsimp only at h
  split at h
  · simp only [List.mem_filterMap] at h
    obtain ⟨x, hx, he⟩ := h
    rw [optOf_unit _ _ _ _ he]; exact hx
  · split at h
    · rename_i x xs heq
      simp only [List.mem_singleton] at h
      rw [h, heq]; exact List.mem_cons_self
    · cases h

theorem byExpo_sub_standard (r : Reg) (i : Nat) (x : RU) (h : x ∈ r.byExpo i) : x ∈ r.standard := by
  unfold Reg.standard
  apply List.mem_cons_of_mem
  unfold Reg.byExpo at h
  split at h
  · exact List.mem_append_left _ (List.mem_append_left _ h)
  · exact List.mem_append_left _ (List.mem_append_right _ h)
  · exact List.mem_append_right _ h

theorem named_of_mem (r : Reg) (hn : r.allNamed = true) (x : RU) (h : x ∈ r.standard) : x.name.isSome = true := by
  unfold Reg.allNamed at hn
  rw [List.all_eq_true] at hn
  exact hn x h

theorem successes_keysOk (r : Reg) (hn : r.allNamed = true) (u : U) (d : PDict) (h : d ∈ successes r u) :
    KeysOk d := by
  unfold successes at h
  simp only [List.mem_flatMap, List.mem_filterMap] at h
  obtain ⟨dO, hd, tO, ht, aO, ha, he⟩ := h
  split at he
  · injection he with he
    rw [← he]
    exact dict3_keysOk _ _ _
      (named_of_mem r hn _ (byExpo_sub_standard r 0 _ (optionsFor_unit_mem r u 0 dO hd)))
      (named_of_mem r hn _ (byExpo_sub_standard r 1 _ (optionsFor_unit_mem r u 1 tO ht)))
      (named_of_mem r hn _ (byExpo_sub_standard r 2 _ (optionsFor_unit_mem r u 2 aO ha)))
  · cases he

theorem bestOf_mem (ss : List PDict) (d : PDict) (h : bestOf ss = some d) : d ∈ ss := by
  unfold bestOf at h
  split at h
  · cases h
  · exact List.mem_of_find?_eq_some h

theorem fallback_keysOk (u : U) : KeysOk (fallbackDict u) := by
  intro kv hm
  simp only [fallbackDict, List.mem_cons, List.not_mem_nil, or_false] at hm
  rcases hm with rfl | rfl | rfl | rfl <;> rfl

/-- `create_name` never fails with intact tables and returns a name `name_to_str` can print -/
theorem createName_ok (r : Reg) (hn : r.allNamed = true) (hg : r.good = true) (u : U) (nm : Option PName)
    (hnm : ∀ n, nm = some n → PrintOk n) : ∃ n, createName r u nm = .ok n ∧ PrintOk n := by
  cases nm with
  | some n => exact ⟨n, rfl, hnm n rfl⟩
  | none =>
    have hg' : ((List.range 3).any fun i => (r.byExpo i).isEmpty || (r.byExpo i).any fun x => x.u.expAt i == 0) = false := by
      unfold Reg.good at hg
      simpa using hg
    unfold createName
    dsimp only
    split
    · rename_i s _
      exact ⟨.str s, rfl, trivial⟩
    · rw [hg']
      simp only [Bool.false_eq_true, if_false]
      cases hb : bestOf (successes r u) with
      | some d => exact ⟨.dict d, rfl, successes_keysOk r hn u d (bestOf_mem _ _ hb)⟩
      | none => exact ⟨.dict (fallbackDict u), rfl, fallback_keysOk u⟩

/-- `name_printable`: with intact tables, `str(u)` succeeds for EVERY exponent triple and factor triple and
    every name that is None, a string or a dictionary with string keys -/
theorem name_printable (r : Reg) (hn : r.allNamed = true) (hg : r.good = true) (u : U) (nm : Option PName)
    (hnm : ∀ n, nm = some n → PrintOk n) : ∃ s, strU r u nm = .ok s := by
  have key : ∃ s, getName r u nm = .ok s := by
    unfold getName
    cases nm with
    | none =>
      obtain ⟨n, hc, hp⟩ := createName_ok r hn hg u none (by intro n h; cases h)
      obtain ⟨s, hs⟩ := nameToStr_total r n hp
      exact ⟨s, by simp only [hc, hs]⟩
    | some n0 =>
      dsimp only
      split
      · exact nameToStr_total r n0 (hnm n0 rfl)
      · obtain ⟨n, hc, hp⟩ := createName_ok r hn hg u (some n0) hnm
        obtain ⟨s, hs⟩ := nameToStr_total r n hp
        exact ⟨s, by simp only [hc, hs]⟩
  obtain ⟨s, hs⟩ := key
  exact ⟨"Units(" ++ s ++ ")", by simp only [strU, hs]⟩

theorem stdReg_allNamed : stdReg.allNamed = true := by decide
theorem stdReg_good : stdReg.good = true := by decide

theorem ofNameDict_printOk (d : NameDict) : PrintOk (ofNameDict d) := by
  intro kv hm
  simp only [List.mem_map] at hm
  obtain ⟨x, _, rfl⟩ := hm
  rfl

/-- with the module's own tables: every Units value without a name prints -/
theorem std_printable_unnamed (u : U) : ∃ s, strU stdReg u none = .ok s :=
  name_printable stdReg stdReg_allNamed stdReg_good u none (by intro n h; cases h)

/-- … and so does every value carrying a name produced by the dictionary algebra
    (`mul_names`, `div_names`, `name_power`, `sqrt`), whatever the operands were -/
theorem std_printable_algebra (u : U) (a b : Option NameDict) (k2 : Int) :
    (∀ d, mulNames a b = some d → ∃ s, strU stdReg u (some (ofNameDict d)) = .ok s) ∧
    (∀ d, divNames a b = some d → ∃ s, strU stdReg u (some (ofNameDict d)) = .ok s) ∧
    (∀ d, namePower a k2 = .ok (some d) → ∃ s, strU stdReg u (some (ofNameDict d)) = .ok s) ∧
    (∀ d, sqrtName a = some d → ∃ s, strU stdReg u (some (ofNameDict d)) = .ok s) := by
  have h : ∀ d : NameDict, ∃ s, strU stdReg u (some (ofNameDict d)) = .ok s := fun d =>
    name_printable stdReg stdReg_allNamed stdReg_good u _
      (by intro n hn; injection hn with hn; rw [← hn]; exact ofNameDict_printOk d)
  exact ⟨fun d _ => h d, fun d _ => h d, fun d _ => h d, fun d _ => h d⟩

/-- a plain string name prints as itself -/
theorem std_printable_string (u : U) (s : String) : ∃ t, strU stdReg u (some (.str s)) = .ok t :=
  name_printable stdReg stdReg_allNamed stdReg_good u _ (by intro n hn; injection hn with hn; rw [← hn]; trivial)

/-- the tables after defect 13 has struck `Units.KM` (its `.name` is None) -/
def brokenReg : Reg := { stdReg with dist := { (ru "km" 1 0 0 1 1 0) with name := none } :: stdReg.dist.tail }

/-- the hypothesis "every registered unit has its name" cannot be dropped: in the state defect 13 left behind,
    `str(Units.KM)` raises TypeError (replayed on the real code by the harness' "damaged" cases) -/
theorem name_unprintable_counterexample : strU brokenReg ⟨1, 0, 0, 1, 1, 0⟩ none = .error .typeError := by
  decide

/-! non-vacuity -/
example : strU stdReg ⟨1, 1, 0, 1, 1000, 0⟩ none = .ok "Units(km*msec)" := by decide
example : strU stdReg ⟨0, -1, 0, 1, 1, 0⟩ none = .ok "Units(s**(-1))" := by decide
example : strU stdReg ⟨1, -1, 0, 1, 1, 0⟩ (some (ofNameDict [("km", 1), ("s", -1)])) = .ok "Units(km/s)" := by decide

end PMV.Units
