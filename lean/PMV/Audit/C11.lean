import PMV.Props.C11
import PMV.Lemmas.PickleReal
#print axioms PMV.Pickle.packbits_roundtrip
#print axioms PMV.Pickle.gather_scatter
#print axioms PMV.Pickle.corners_sound
#print axioms PMV.Pickle.mapOpt_map
#print axioms PMV.Pickle.roundtrip
#print axioms PMV.Pickle.roundtrip_default
#print axioms PMV.Pickle.expect_fields
#print axioms PMV.Pickle.expect_dtype
#print axioms PMV.Pickle.expect_maskBits
#print axioms PMV.Pickle.expect_values
#print axioms PMV.Pickle.expect_writeable
#print axioms PMV.Pickle.expectDeriv_fields
#print axioms PMV.Pickle.expectQ_keys
#print axioms PMV.Pickle.expectDeriv_values
#print axioms PMV.Pickle.getstateDeriv_native
#print axioms PMV.Pickle.roundtrip_legacy
#print axioms PMV.Pickle.getstate_pure
#print axioms PMV.Pickle.legacy_int_counterexample
#print axioms PMV.PickleReal.scaleFactor_pos
#print axioms PMV.PickleReal.encode_range
#print axioms PMV.PickleReal.scaled_bound
#print axioms PMV.PickleReal.scaled_within_precision
#print axioms PMV.PickleReal.constant_exact
