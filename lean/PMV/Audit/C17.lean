import PMV.Props.C17
#print axioms PMV.Shrink.gather_map2
#print axioms PMV.Shrink.masked_single_absorbs
#print axioms PMV.Shrink.catalogue_respects
#print axioms PMV.Shrink.tree_congruence
#print axioms PMV.Shrink.shrink_rel_partial
#print axioms PMV.Shrink.noCachedPath_of_switch
#print axioms PMV.Shrink.noCachedPath_of_op
#print axioms PMV.Shrink.unshrink_shrink_partial
#print axioms PMV.Shrink.relEnv_shrink
#print axioms PMV.Shrink.shrink_commutes_partial
#print axioms PMV.Shrink.shrink_unshrink_true
#print axioms PMV.Shrink.switches_agree_partial
