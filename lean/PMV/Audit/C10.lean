import PMV.Props.C10
#print axioms PMV.SetItem.npAssign_frame
#print axioms PMV.SetItem.npAssign_update
#print axioms PMV.SetItem.npAssign_readback
#print axioms PMV.SetItem.expandMask_bit
#print axioms PMV.SetItem.setitem_state
#print axioms PMV.SetItem.setitem_frame
#print axioms PMV.SetItem.setitem_update
#print axioms PMV.SetItem.masked_entry_writes_nothing
#print axioms PMV.SetItem.readback
#print axioms PMV.SetItem.mapM_some_mem
#print axioms PMV.SetItem.derivs_updated_missing_as_zero
#print axioms PMV.SetItem.step_shape
#print axioms PMV.SetItem.sequence_of_assignments
#print axioms PMV.SetItem.shared_mask_untouched
