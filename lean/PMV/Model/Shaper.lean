import PMV.Model.NpShape
/-
  Code-shaped model of polymath's leading-axis operations:
    polymath/extensions/shaper.py:9-232   reshape, flatten, swap_axes, roll_axis, move_axis
    polymath/qube.py:4532-4613            broadcast_to
    polymath/extensions/shaper.py:235-399 stack
  (the REPAIRED code of branch wt-C15: roll_axis normalises `start` like `axis`; swap_axes / move_axis
  test the range before taking the modulo; reshape(()) goes through ndarray.reshape; broadcast_to(())
  takes the single element with reshape(()); stack passes the numerator rank on).

  Objects are modelled as a values array over `shape ++ numer ++ denom`, a mask in one of the two
  representations the code distinguishes (single bool / bool array over the leading shape) and a
  dictionary of derivatives, which are objects without derivatives of their own.
  The argument normalisation is written exactly as in the source (`%`, `< 0 → + rank`, `rank=`
  extension prepending length-1 axes, `-1` in reshape, scalar-mask vs array-mask branches, the
  recursive calls on the derivatives WITH THE ALREADY NORMALISED ARGUMENTS).
  Mathlib-free.
-/
namespace PMV.Shaper
open PMV.NpShape

/-! ### objects -/

/-- the two mask representations of `Qube._mask_` -/
inductive Mask where
  | all (b : Bool)
  | arr (a : Arr Bool)

/-- expanded view of a mask -/
def Mask.at : Mask → Index → Bool
  | .all b, _ => b
  | .arr a, i => a.get i

inductive Cls where
  | qube | scalar | boolean | vector | vector3 | pair | matrix | matrix3 | quaternion
  deriving DecidableEq, Repr, Inhabited

/-- class attribute NRANK -/
def Cls.nrank : Cls → Option Nat
  | .qube => none | .scalar => some 0 | .boolean => some 0
  | .vector => some 1 | .vector3 => some 1 | .pair => some 1 | .quaternion => some 1
  | .matrix => some 2 | .matrix3 => some 2

/-- class attribute NUMER -/
def Cls.numer : Cls → Option Shape
  | .scalar => some [] | .boolean => some [] | .vector3 => some [3] | .pair => some [2]
  | .quaternion => some [4] | .matrix3 => some [3, 3] | _ => none

/-- class attribute DERIVS_OK (also: may the class have a denominator) -/
def Cls.derivsOk : Cls → Bool
  | .boolean => false
  | _ => true

/-- an object without derivatives (what `recursive=False` calls see and return) -/
structure Q0 (α : Type) where
  cls : Cls
  shape : Shape
  numer : Shape
  denom : Shape
  vals : Arr α          -- over shape ++ numer ++ denom
  mask : Mask

/-- an object with its derivative dictionary (insertion order) -/
structure Q (α : Type) where
  base : Q0 α
  derivs : List (String × Q0 α)

variable {α : Type}

def Q0.item (q : Q0 α) : Shape := q.numer ++ q.denom

/-- `Qube._suitable_mask(mask, shape, broadcast=True)` (qube.py:568-621) -/
def suitableMask (m : Mask) (shape : Shape) : Except Err Mask :=
  match m with
  | .all b => .ok (.all b)
  | .arr a =>
    if a.shape = shape then .ok (.arr a)
    else if bcastOkRev a.shape.reverse shape.reverse then .ok (.arr (a.bto shape))
    else .error .value

/-- `Qube.__init__(values, mask, nrank=, drank=)` for class `cls` (qube.py:330-387): rank checks,
    split of the full shape into shape / numer / denom, class NUMER check, mask check -/
def construct (cls : Cls) (vals : Arr α) (mask : Mask) (nrank drank : Nat) : Except Err (Q0 α) :=
  if cls.nrank.any (· ≠ nrank) then .error .value
  else if drank ≠ 0 ∧ ¬ cls.derivsOk then .error .value
  else if vals.shape.length < nrank + drank then .error .value
  else
    let dd := vals.shape.length - drank
    let nn := dd - nrank
    let shape := vals.shape.take nn
    let numer := (vals.shape.drop nn).take nrank
    let denom := vals.shape.drop dd
    if cls.numer.any (· ≠ numer) then .error .value
    else do
      let m ← suitableMask mask shape
      pure ⟨cls, shape, numer, denom, vals, m⟩

/-- `obj.__init__(new_values, new_mask, example=self)` with `obj` of the class of `self` -/
def likeSelf (q : Q0 α) (vals : Arr α) (mask : Mask) : Except Err (Q0 α) :=
  construct q.cls vals mask q.numer.length q.denom.length

def ofNats (s : Shape) : List Int := s.map Int.ofNat

/-! ### broadcast_to (qube.py:4532-4613) -/

/-- one object, `recursive=False` -/
def broadcastTo0 (q : Q0 α) (shape : List Int) : Except Err (Q0 α) :=
  if shape = ofNats q.shape then .ok q
  else if shape = [] then
    -- "Special case: broadcast to ()": the single element, mask `bool(mask.ravel()[0])`
    match NpShape.reshape q.vals (ofNats q.item) with
    | .error e => .error e
    | .ok nv =>
      let nm : Mask := match q.mask with
        | .all b => .all b
        | .arr a => .all (a.get (unravel a.shape 0))
      likeSelf q nv nm
  else do
    let nv ← NpShape.broadcastTo q.vals (shape ++ ofNats q.item)
    let nm ← match q.mask with
      | .all b => pure (Mask.all b)
      | .arr a => (NpShape.broadcastTo a shape).map Mask.arr
    likeSelf q nv nm

/-- `Qube.insert_deriv(key, deriv)` (qube.py:1473-1541) as far as shapes go: numerators must agree,
    a derivative of another leading shape is broadcast to the object's shape -/
def insertDeriv (b : Q0 α) (d : Q0 α) : Except Err (Q0 α) :=
  if ¬ b.cls.derivsOk then .error .type
  else if b.numer ≠ d.numer then .error .value
  else if d.shape ≠ b.shape then broadcastTo0 d (ofNats b.shape)
  else .ok d

/-- apply a `recursive=False` call to every derivative and insert the results into `b` -/
def mapDerivs (b : Q0 α) (ds : List (String × Q0 α)) (f : Q0 α → Except Err (Q0 α)) :
    Except Err (List (String × Q0 α)) :=
  ds.mapM fun kd => do
    let d ← f kd.2
    let d ← insertDeriv b d
    pure (kd.1, d)

def broadcastTo (q : Q α) (shape : List Int) (recursive : Bool) : Except Err (Q α) :=
  if shape = ofNats q.base.shape then
    .ok (if recursive then q else ⟨q.base, []⟩)
  else do
    let b ← broadcastTo0 q.base shape
    let ds ← if recursive then mapDerivs b q.derivs (broadcastTo0 · shape) else pure []
    pure ⟨b, ds⟩

/-! ### reshape / flatten (shaper.py:9-56) -/

/-- the body of `reshape` for one object (`recursive=False`) -/
def reshape0 (q : Q0 α) (shape : List Int) : Except Err (Q0 α) :=
  if shape = ofNats q.shape then .ok q
  else do
    let nv ← NpShape.reshape q.vals (shape ++ ofNats q.item)
    let nm ← match q.mask with
      | .all b => pure (Mask.all b)                               -- np.isscalar(self._mask_)
      | .arr a => (NpShape.reshape a shape).map Mask.arr
    likeSelf q nv nm

def reshape (q : Q α) (shape : List Int) (recursive : Bool) : Except Err (Q α) :=
  if shape = ofNats q.base.shape then .ok q                       -- `return self`
  else do
    let b ← reshape0 q.base shape
    let ds ← if recursive then mapDerivs b q.derivs (reshape0 · shape) else pure []
    pure ⟨b, ds⟩

def flatten (q : Q α) (recursive : Bool) : Except Err (Q α) :=
  if q.base.shape.length < 2 then .ok q
  else reshape q [Int.ofNat (size q.base.shape)] recursive

/-! ### swap_axes (shaper.py:59-101, repaired) -/

/-- validation + normalisation of the two axes: range test on the argument as given, then `%` -/
def swapNorm (rank : Nat) (axis1 axis2 : Int) : Except Err (Int × Int) :=
  let n : Int := rank
  if axis1 < -n ∨ axis1 ≥ n then .error .value
  else if axis2 < -n ∨ axis2 ≥ n then .error .value
  else .ok (axis1 % n, axis2 % n)

/-- the part of `swap_axes` after the normalisation: NumPy calls on values and mask, new object -/
def swapCore (q : Q0 α) (a1 a2 : Int) : Except Err (Q0 α) := do
  let nv ← NpShape.swapaxes q.vals a1 a2
  let nm ← match q.mask with
    | .all b => pure (Mask.all b)                                 -- np.isscalar(self._mask_)
    | .arr a => (NpShape.swapaxes a a1 a2).map Mask.arr
  likeSelf q nv nm

/-- `swap_axes(axis1, axis2, recursive=False)` on one object -/
def swapAxes0 (q : Q0 α) (axis1 axis2 : Int) : Except Err (Q0 α) := do
  let (a1, a2) ← swapNorm q.shape.length axis1 axis2
  if a1 = a2 then pure q else swapCore q a1 a2

def swapAxes (q : Q α) (axis1 axis2 : Int) (recursive : Bool) : Except Err (Q α) := do
  let (a1, a2) ← swapNorm q.base.shape.length axis1 axis2
  if a1 = a2 then pure q
  else
    let b ← swapCore q.base a1 a2
    -- `deriv.swap_axes(a1, a2, False)`: the recursive call receives the normalised axes
    let ds ← if recursive then mapDerivs b q.derivs (swapAxes0 · a1 a2) else pure []
    pure ⟨b, ds⟩

/-! ### roll_axis (shaper.py:104-170, repaired) -/

/-- `rank or len_shape` -/
def rankOr (len : Nat) : Option Nat → Nat
  | none => len
  | some 0 => len
  | some r => r

/-- `rank = rank or len_shape; rank < len_shape → ValueError; len_shape == 0 → rank = 1` -/
def effRank (len : Nat) (rank : Option Nat) : Except Err Nat :=
  if rankOr len rank < len then .error .value
  else .ok (if len = 0 then 1 else rankOr len rank)

/-- `axis < 0 → axis + rank`, range `0 ≤ a1 < rank`; `start < 0 → start + rank`, range `0 ≤ a2 ≤ rank` -/
def rollNorm (rank : Nat) (axis start : Int) : Except Err (Int × Int) :=
  let a1 := if axis < 0 then axis + (rank : Int) else axis
  if a1 < 0 ∨ a1 ≥ (rank : Int) then .error .value
  else
    let a2 := if start < 0 then start + (rank : Int) else start
    if a2 < 0 ∨ a2 ≥ (rank : Int) + 1 then .error .value
    else .ok (a1, a2)

/-- `(rank - len_shape) * (1,) + self._shape_` -/
def padShape (rank : Nat) (shape : Shape) : List Int :=
  (List.replicate (rank - shape.length) (1 : Int)) ++ ofNats shape

def rollCore (q : Q0 α) (a1 a2 : Int) : Except Err (Q0 α) := do
  let nv ← NpShape.rollaxis q.vals a1 a2
  let nm ← match q.mask with
    | .all b => pure (Mask.all b)                                 -- `np.shape(self._mask_)` is ()
    | .arr a => (NpShape.rollaxis a a1 a2).map Mask.arr
  likeSelf q nv nm

/-- `roll_axis(axis, start, recursive=False, rank)` on one object -/
def rollAxis0 (q : Q0 α) (axis start : Int) (rank : Option Nat) : Except Err (Q0 α) := do
  let rank ← effRank q.shape.length rank
  let (a1, a2) ← rollNorm rank axis start
  if q.shape = [] then pure q
  else
    let q ← if q.shape.length < rank then reshape0 q (padShape rank q.shape) else pure q
    rollCore q a1 a2

def rollAxis (q : Q α) (axis start : Int) (recursive : Bool) (rank : Option Nat) : Except Err (Q α) := do
  let len := q.base.shape.length
  let rk ← effRank len rank
  let (a1, a2) ← rollNorm rk axis start
  if q.base.shape = [] then pure q
  else
    -- "Add missing axes if necessary": self.reshape(..., recursive=recursive)
    let q ← if len < rk then reshape q (padShape rk q.base.shape) recursive else pure q
    let b ← rollCore q.base a1 a2
    -- `deriv.roll_axis(a1, a2, False, rank)`: normalised axes and the effective rank
    let ds ← if recursive then mapDerivs b q.derivs (rollAxis0 · a1 a2 (some rk)) else pure []
    pure ⟨b, ds⟩

/-! ### move_axis (shaper.py:173-232, repaired) -/

/-- range test on every source and destination entry as given, then `x % rank` -/
def moveNorm (rank : Nat) (source destination : List Int) : Except Err (List Int × List Int) :=
  let n : Int := rank
  if (source ++ destination).any (fun x => x < -n ∨ x ≥ n) then .error .value
  else .ok (source.map (· % n), destination.map (· % n))

def moveCore (q : Q0 α) (src dst : List Int) : Except Err (Q0 α) := do
  let nv ← NpShape.moveaxis q.vals src dst
  let nm ← match q.mask with
    | .all b => pure (Mask.all b)
    | .arr a => (NpShape.moveaxis a src dst).map Mask.arr
  likeSelf q nv nm

/-- `move_axis(source, destination, recursive=False, rank)` on one object -/
def moveAxis0 (q : Q0 α) (source destination : List Int) (rank : Option Nat) : Except Err (Q0 α) := do
  let rank ← effRank q.shape.length rank
  let (src, dst) ← moveNorm rank source destination
  if q.shape = [] then pure q
  else
    let q ← if q.shape.length < rank then reshape0 q (padShape rank q.shape) else pure q
    moveCore q src dst

def moveAxis (q : Q α) (source destination : List Int) (recursive : Bool) (rank : Option Nat) :
    Except Err (Q α) := do
  let len := q.base.shape.length
  let rk ← effRank len rank
  let (src, dst) ← moveNorm rk source destination
  if q.base.shape = [] then pure q
  else
    let q ← if len < rk then reshape q (padShape rk q.base.shape) recursive else pure q
    let b ← moveCore q.base src dst
    let ds ← if recursive then mapDerivs b q.derivs (moveAxis0 · src dst (some rk)) else pure []
    pure ⟨b, ds⟩

/-! ### stack (shaper.py:235-399) for operands of one class, item shape and kind -/

/-- `Qube.broadcasted_shape` (qube.py:4657-4686) folded over the operand shapes -/
def bcastShapes : List Shape → Except Err Shape
  | [] => .ok []
  | s :: ss => do
    let r ← bcastShapes ss
    match bcast s r with
    | some t => .ok t
    | none => .error .value

/-- mask of the stack: an array when any operand has an array mask or both scalar values occur,
    else the common scalar (place-holders `none` count as unmasked rows of an array mask) -/
def stackMask (out : Shape) (ms : List (Option Mask)) : Mask :=
  let arrayFound := ms.any fun m => match m with | some (.arr _) => true | _ => false
  let trueFound := ms.any fun m => match m with | some (.all true) => true | _ => false
  let falseFound := ms.any fun m => match m with | some (.all false) => true | _ => false
  if arrayFound ∨ (falseFound ∧ trueFound) then
    .arr ⟨ms.length :: out, fun i => match i with
      | [] => false
      | k :: r => match ms[k]? with
        | some (some m) => m.at r
        | _ => false⟩
  else .all trueFound

/-- values of the stack: row `k` is operand `k` (a `none` place-holder is a row of zeros) -/
def stackVals (zero : α) (out : Shape) (vs : List (Option (Arr α))) : Arr α :=
  ⟨vs.length :: out, fun i => match i with
    | [] => zero
    | k :: r => match vs[k]? with
      | some (some a) => a.get r
      | _ => zero⟩

/-- stack of objects without derivatives; `none` = place-holder.  All operands have been converted
    to the class of the first real one, have equal denominators (else ValueError) and are broadcast
    to the common shape first. -/
def stack0 (zero : α) (args : List (Option (Q0 α))) : Except Err (Q0 α) := do
  let real := args.filterMap id
  match real with
  | [] => .error .type
  | first :: _ =>
    if real.any (fun q => q.denom ≠ first.denom) then .error .value
    else
      let out ← bcastShapes (real.map (·.shape))
      let bs ← args.mapM fun a => match a with
        | none => pure none
        | some q => (broadcastTo0 q (ofNats out)).map some
      let mask := stackMask out (bs.map (·.map (·.mask)))
      let vals := stackVals zero (out ++ first.item) (bs.map (·.map (·.vals)))
      construct first.cls vals mask first.numer.length first.denom.length

def lookup (k : String) (ds : List (String × Q0 α)) : Option (Q0 α) := (ds.find? (·.1 = k)).map (·.2)

def dedup : List String → List String
  | [] => []
  | k :: ks => k :: (dedup ks).filter (· ≠ k)

def stack (zero : α) (args : List (Q α)) (recursive : Bool) : Except Err (Q α) := do
  let b ← stack0 zero (args.map fun q => some q.base)
  if ¬ recursive then pure ⟨b, []⟩
  else
    -- Qube.broadcast(*args, recursive=True) first: every derivative at the common leading shape
    let out ← bcastShapes (args.map (·.base.shape))
    let keys := dedup (args.flatMap fun q => q.derivs.map (·.1))
    let ds ← keys.mapM fun k => do
      let col ← args.mapM fun q => match lookup k q.derivs with
        | none => pure none
        | some d => (broadcastTo0 d (ofNats out)).map some
      let d ← stack0 zero col
      let d ← insertDeriv b d
      pure (k, d)
    pure ⟨b, ds⟩

end PMV.Shaper
