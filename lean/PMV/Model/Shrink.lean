import PMV.Core.Arr
/-
  C17 view: `shrink` / `unshrink` (polymath/extensions/shrinker.py) and a catalogue of
  element-wise operations lifted with NumPy broadcasting.  Mathlib-free, executable.

  Representation.  A derivative-free object (`Obj`) is its leading shape, its values as a
  function on indices, and its mask in the representation the code branches on
  (`Rep.allT` = the Python bool True, `Rep.allF` = False, `Rep.arr` = an ndarray whose
  content is `mbits`).  A full object (`Q`) adds the class, the dictionary of derivatives
  (objects without derivatives of the parent's shape, each with its own cache), the
  read-only flag and the one cache entry the shrinker uses, `_cache_['unshrunk']` (`Back`).

  Everything the theorems talk about is phrased through `Q.cellAt`: the element of an object
  at an index = value, mask bit, and for every derivative key the derivative's value and
  mask bit.  `Q.cellB` reads an object *through broadcasting* at a grid index.
-/
namespace PMV.Shrink
open PMV

/-! ## positions selected by an antimask array -/

/-- the positions where the antimask is True, in row-major order (the order of NumPy boolean
    indexing `a[antimask]`) -/
def trues (am : Arr Bool) : List Index := (indices am.shape).filter am.get
/-- `np.sum(antimask)`: length of the gathered axis -/
def count (am : Arr Bool) : Nat := (trues am).length
/-- the `k`-th selected position -/
def sel (am : Arr Bool) (k : Nat) : Index := (trues am).getD k []
/-- the rank of a selected position among the selected ones -/
def rnk (am : Arr Bool) (a : Index) : Nat := (trues am).idxOf a

/-- NumPy boolean-array indexing on the trailing axes, `a[extras*(slice(None),) + (am, ...)]`
    where `a.shape = before ++ am.shape`, `before = a.shape.take extras` -/
def npGather {α} (extras : Nat) (am : Arr Bool) (a : Arr α) : Arr α :=
  ⟨a.shape.take extras ++ [count am], fun i => a.get (i.dropLast ++ sel am (i.getLastD 0))⟩

/-- the inverse assignment `new[extras*(slice(None),) + (am, ...)] = y` into an array
    pre-filled with `dflt`; `y.shape = before ++ [count am]` -/
def npScatter {α} (am : Arr Bool) (dflt : α) (y : Arr α) : Arr α :=
  ⟨y.shape.dropLast ++ am.shape, fun j =>
    let ex := j.length - am.shape.length
    match am.get (j.drop ex) with
    | true => y.get (j.take ex ++ [rnk am (j.drop ex)])
    | false => dflt⟩

/-- specification-level gather of a functional array by an antimask: the operand is
    broadcast against the antimask on its trailing axes (fewer axes: fully; more axes: the
    leading ones are kept), then the antimask's axes are replaced by one axis that
    enumerates the selected positions -/
def gather {α} (am : Arr Bool) (a : Arr α) : Arr α :=
  ⟨a.shape.take (a.shape.length - am.shape.length) ++ [count am],
   fun i => a.get (bidx a.shape (i.dropLast ++ sel am (i.getLastD 0)))⟩

/-! ## objects -/

inductive Rep where
  | allT | allF | arr
  deriving DecidableEq, Repr, Inhabited

structure Obj (K : Type) where
  shape : Shape
  vals : Index → K
  rep : Rep
  mbits : Index → Bool

variable {K : Type}

/-- the expanded mask -/
def Obj.maskAt (o : Obj K) (i : Index) : Bool :=
  match o.rep with
  | .allT => true
  | .allF => false
  | .arr => o.mbits i

/-- `Qube.antimask` -/
def Obj.antiAt (o : Obj K) (i : Index) : Bool := !o.maskAt i

/-- the cache entry `_cache_['unshrunk']`: absent, the object itself (shapeless
    pass-through, shrinker.py:46-48), or another object with its derivatives -/
inductive Back (K : Type) where
  | none
  | self
  | to (o : Obj K) (ds : List (String × Obj K))

/-- a derivative: an object without derivatives, with its own cache -/
structure DObj (K : Type) where
  obj : Obj K
  ro : Bool
  back : Back K

inductive Cls where
  | scalar | boolean
  deriving DecidableEq, Repr, Inhabited

structure Q (K : Type) where
  cls : Cls
  obj : Obj K
  derivs : List (String × DObj K)
  ro : Bool
  back : Back K

def Q.shape (x : Q K) : Shape := x.obj.shape
def Q.keys (x : Q K) : List String := x.derivs.map (·.1)

/-- the antimask argument: a Python/NumPy bool or a bool array -/
inductive AM where
  | all (b : Bool)
  | arr (a : Arr Bool)

/-- the three global switches (qube.py:200-211) -/
structure Cfg where
  disable : Bool        -- Qube._DISABLE_SHRINKING
  ignoreCached : Bool   -- Qube._IGNORE_UNSHRUNK_AS_CACHED
  disableCache : Bool   -- Qube.DISABLE_CACHE
  deriving Repr, DecidableEq

/-! ## cells: what is observable of one element -/

structure DCell (K : Type) where
  v : K
  m : Bool

structure Cell (K : Type) where
  v : K
  m : Bool
  d : String → DCell K

/-- dictionary lookup -/
def lookupD {α : Type} (ds : List (String × α)) (k : String) : Option α :=
  match ds with
  | [] => none
  | (k', d) :: rest => if k' = k then some d else lookupD rest k

/-- apply a function to every value of a dictionary -/
def mapVals {α β : Type} (f : α → β) : List (String × α) → List (String × β)
  | [] => []
  | (k, d) :: rest => (k, f d) :: mapVals f rest

/-- apply a partial function (`none` = an exception) to every value of a dictionary -/
def mapDerivs {α β : Type} (g : α → Option β) : List (String × α) → Option (List (String × β))
  | [] => some []
  | (k, d) :: rest =>
    match g d, mapDerivs g rest with
    | some d', some r => some ((k, d') :: r)
    | _, _ => none

variable [Inhabited K]

/-- a key that is not present reads as a masked derivative -/
def noDeriv : DCell K := ⟨default, true⟩

def Obj.dcellAt (o : Obj K) (i : Index) : DCell K := ⟨o.vals i, o.maskAt i⟩

/-- the element of an object at an index of its own shape -/
def Q.cellAt (x : Q K) (i : Index) : Cell K :=
  ⟨x.obj.vals i, x.obj.maskAt i, fun k =>
    match lookupD x.derivs k with
    | some d => d.obj.dcellAt i
    | none => noDeriv⟩

/-- the element of an object read through broadcasting at a grid index -/
def Q.cellB (x : Q K) (j : Index) : Cell K := x.cellAt (bidx x.obj.shape j)

/-- what can be observed of a derivative element: nothing if masked -/
def DCell.obs (c : DCell K) : Option K := match c.m with | true => none | false => some c.v

/-- observational equality of elements: same mask state; if unmasked, same value and, for
    every derivative key, same derivative mask state and (if unmasked) value -/
def Cell.Same (a b : Cell K) : Prop :=
  a.m = b.m ∧ (a.m = false → a.v = b.v ∧ ∀ k, (a.d k).obs = (b.d k).obs)

/-! ## NumPy / Qube helpers -/

/-- `np.any` / `np.all` of a Boolean function over all indices of a shape -/
def anyOver (s : Shape) (p : Index → Bool) : Bool := (indices s).any p
def allOver (s : Shape) (p : Index → Bool) : Bool := (indices s).all p

/-- `Qube.broadcast_to` on the arrays (qube.py:4532-4615): unchanged if the shape matches,
    else views of values and mask; a scalar mask stays scalar.  `none` = ValueError. -/
def Obj.bto (o : Obj K) (s : Shape) : Option (Obj K) :=
  if s = o.shape then some o
  else if bcast o.shape s = some s then
    some ⟨s, fun i => o.vals (bidx o.shape i), o.rep, fun i => o.mbits (bidx o.shape i)⟩
  else none

/-- recursive `broadcast_to`: the derivatives are broadcast too; broadcast objects are
    read-only and have an empty cache -/
def Q.bto (x : Q K) (s : Shape) : Option (Q K) :=
  if s = x.obj.shape then some x
  else match x.obj.bto s, mapDerivs (fun (d : DObj K) =>
      (d.obj.bto s).map fun o => (⟨o, true, .none⟩ : DObj K)) x.derivs with
    | some o, some ds => some ⟨x.cls, o, ds, true, .none⟩
    | _, _ => none

/-- class default (`_default_`): 1 for Scalar, False for Boolean -/
structure Dflt (K : Type) where
  scalar : K
  boolean : K

def Dflt.of (df : Dflt K) : Cls → K
  | .scalar => df.scalar
  | .boolean => df.boolean

/-- qube.py:2285-2301 on the arrays: shape (), the class default, mask True -/
def singleObj (dv : K) : Obj K := ⟨[], fun _ => dv, .allT, fun _ => true⟩

/-- `masked_single(recursive=True).as_readonly()`: derivatives become masked singles too
    (a derivative of a Scalar is a Scalar) -/
def Q.maskedSingle (df : Dflt K) (x : Q K) : Q K :=
  ⟨x.cls, singleObj (df.of x.cls),
   mapVals (fun _ => (⟨singleObj df.scalar, true, .none⟩ : DObj K)) x.derivs, true, .none⟩

def Q.plainDerivs (x : Q K) : List (String × Obj K) := mapVals (·.obj) x.derivs

/-- `Qube.or_` of a mask with a mask array given as a function (qube.py:894-926) -/
def Obj.orMask (o : Obj K) (m : Index → Bool) : Obj K :=
  match o.rep with
  | .allT => { o with rep := .allT }
  | .allF => { o with rep := .arr, mbits := m }
  | .arr => { o with rep := .arr, mbits := fun i => o.mbits i || m i }

/-- `mask_where(mask)` with an array mask of the object's shape (mask_ops.py:8-60):
    unchanged if the mask is empty; otherwise `remask_or`: the object's mask is or-ed with
    the mask, the derivatives' masks are or-ed likewise (repaired behaviour, see report). -/
def maskWhere (o : Obj K) (ds : List (String × Obj K)) (m : Index → Bool) :
    Obj K × List (String × Obj K) :=
  match anyOver o.shape m with
  | false => (o, ds)
  | true => (o.orMask m, mapVals (·.orMask m) ds)

/-- `_masked_outside(obj, antimask)` (shrinker.py, repaired): every element outside the
    antimask masked; object and inverted antimask broadcast to a common shape first. -/
def maskedOutside (o : Obj K) (ds : List (String × Obj K)) (am : AM) :
    Option (Obj K × List (String × Obj K)) :=
  match am with
  | .all true => some (o, ds)
  | .all false => some ({ o with rep := .allT }, mapVals (fun d => { d with rep := .allT }) ds)
  | .arr a =>
    if a.shape = o.shape then some (maskWhere o ds fun i => !a.get i)
    else match bcast o.shape a.shape with
      | none => none
      | some s =>
        match o.bto s, mapDerivs (fun (d : Obj K) => d.bto s) ds with
        | some o', some ds' => some (maskWhere o' ds' fun i => !a.get (bidx a.shape i))
        | _, _ => none

def Q.withArrays (x : Q K) (r : Obj K × List (String × Obj K)) (ro : Bool) : Q K :=
  ⟨x.cls, r.1, mapVals (fun o => (⟨o, ro, .none⟩ : DObj K)) r.2, ro, .none⟩

/-- `insert_deriv` as far as shapes and caches go (qube.py:1473-1539): a derivative whose
    shape differs from the parent's is broadcast (new object, empty cache) -/
def insertDeriv (shape : Shape) (d : DObj K) : Option (DObj K) :=
  if d.obj.shape = shape then some d
  else (d.obj.bto shape).map fun o => ⟨o, true, .none⟩

/-! ## shrink (shrinker.py, `shrink`) -/

/-- `max(after[k], antimask.shape[k])` for the trailing axes -/
def maxShape : Shape → Shape → Shape
  | a :: as, b :: bs => max a b :: maxShape as bs
  | _, _ => []

/-- shrinker.py:54-79, rank reconciliation: if the antimask has extra dimensions, broadcast
    self; make the rightmost axes of self and the antimask compatible.  Returns `extras`, the
    (possibly broadcast) antimask and the (possibly broadcast) object. -/
def reconcile (a : Arr Bool) (x : Q K) : Option (Nat × Arr Bool × Q K) :=
  let selfRank := x.obj.shape.length
  let amRank := a.shape.length
  match (if selfRank < amRank then x.bto a.shape else some x) with
  | none => none
  | some x1 =>
    let extras := x1.obj.shape.length - amRank
    let before := x1.obj.shape.take extras
    let after := x1.obj.shape.drop extras
    let newAfter := maxShape after a.shape
    let newShape := before ++ newAfter
    match (if x1.obj.shape ≠ newShape then x1.bto newShape else some x1),
          (if a.shape ≠ newAfter then
             (if bcast a.shape newAfter = some newAfter then some (a.bto newAfter) else none)
           else some a) with
    | some x2, some a2 => some (extras, a2, x2)
    | _, _ => none

/-- shrinker.py:81-85, the new mask: `np.zeros(antimask.shape, bool)[antimask]` for a False mask,
    else `self._mask_[extras*(slice(None),) + (antimask, Ellipsis)]` -/
def gatherMask (extras : Nat) (a2 : Arr Bool) (o : Obj K) : Arr Bool :=
  match o.rep with
  | .allF => npGather 0 a2 (Arr.const a2.shape false)
  | _ => npGather extras a2 ⟨o.shape, o.mbits⟩

/-- shrinker.py:81-104: gather mask and values, collapse, recurse into the derivatives -/
def finishShrink (df : Dflt K) (recur : Arr Bool → DObj K → Option (DObj K)) (extras : Nat)
    (a2 : Arr Bool) (x2 : Q K) : Option (Q K) :=
  let gmask : Arr Bool := gatherMask extras a2 x2.obj
  if allOver gmask.shape gmask.get then
    some { x2.maskedSingle df with back := .to x2.obj x2.plainDerivs }
  else
    let rep := if anyOver gmask.shape gmask.get then Rep.arr else Rep.allF
    let gvals := npGather extras a2 ⟨x2.obj.shape, x2.obj.vals⟩
    let obj : Obj K := ⟨gvals.shape, gvals.get, rep, gmask.get⟩
    -- derivative recursion
    match mapDerivs (fun (d : DObj K) => (recur a2 d).bind (insertDeriv obj.shape)) x2.derivs with
    | none => none
    | some ds => some ⟨x2.cls, obj, ds, true, .to x2.obj x2.plainDerivs⟩

/-- `is_one_true(self._mask_) or not np.any(antimask & self.antimask)` (shrinker.py:39-40):
    `self.antimask` is a Python bool for a scalar mask (qube.py:1269-1282), an array otherwise
    (then the two must broadcast; `none` = ValueError) -/
def gone? (a : Arr Bool) (o : Obj K) : Option Bool :=
  match o.rep with
  | .allT => some true
  | .allF => some (!anyOver a.shape a.get)
  | .arr => (bcast a.shape o.shape).map fun g =>
      !(anyOver g fun i => a.get (bidx a.shape i) && o.antiAt (bidx o.shape i))

/-- the code path of `shrink`, parameterised by the function used for the derivatives
    (the method calls itself on them; they have no derivatives of their own) -/
def shrinkG (df : Dflt K) (recur : Arr Bool → DObj K → Option (DObj K)) (cfg : Cfg) (am : AM)
    (x : Q K) : Option (Q K) :=
  -- "For testing only..."
  if cfg.disable then
    match x.obj.shape, am with
    | [], _ => some x
    | _, .all true => some x
    | _, _ => (maskedOutside x.obj x.plainDerivs am).map fun r => x.withArrays r false
  else
  match am with
  -- a True antimask leaves an object unchanged
  | .all true => some x
  | .all false =>
    -- is_one_false(antimask): a single masked value
    some { x.maskedSingle df with back := if cfg.disableCache then .none else .to x.obj x.plainDerivs }
  | .arr a =>
    match gone? a x.obj with
    | none => none
    | some true =>
      some { x.maskedSingle df with back := if cfg.disableCache then .none else .to x.obj x.plainDerivs }
    | some false =>
    -- shapeless objects are returned as they are (and remember themselves)
    if x.obj.shape = [] then some { x with back := .self }
    else
    match reconcile a x with
    | none => none
    | some (extras, a2, x2) => finishShrink df recur extras a2 x2

def DObj.toQ (d : DObj K) : Q K := ⟨.scalar, d.obj, [], d.ro, d.back⟩
def Q.toDObj (x : Q K) : DObj K := ⟨x.obj, x.ro, x.back⟩

/-- `deriv.shrink(antimask)` -/
def shrinkD (df : Dflt K) (cfg : Cfg) (a : Arr Bool) (d : DObj K) : Option (DObj K) :=
  (shrinkG df (fun _ _ => none) cfg (.arr a) d.toQ).map Q.toDObj

/-- `Qube.shrink(antimask)` -/
def shrink (df : Dflt K) (cfg : Cfg) (am : AM) (x : Q K) : Option (Q K) :=
  shrinkG df (shrinkD df cfg) cfg am x

/-! ## unshrink (shrinker.py, `unshrink`) -/

/-- `np.all(self._mask_)` -/
def Obj.allMasked (o : Obj K) : Bool :=
  match o.rep with
  | .allT => true
  | .allF => false
  | .arr => allOver o.shape o.mbits

def AM.any : AM → Bool
  | .all b => b
  | .arr a => anyOver a.shape a.get

def AM.shape : AM → Shape
  | .all _ => []
  | .arr a => a.shape

/-- shrinker.py:129-137: the previous un-shrunken version, if available and not ignored -/
def cacheLookup (cfg : Cfg) (b : Back K) : Back K :=
  if cfg.disableCache then .none
  else match b with
    | .none => .none
    | b => if cfg.ignoreCached then .none else b

/-- `del self._cache_['unshrunk']` (only when the cache is consulted) -/
def cacheDrop (cfg : Cfg) (x : Q K) : Q K :=
  if cfg.disableCache then x else { x with back := .none }

/-- shrinker.py:160-181: default-filled values, all-True mask, the shrunken values and mask
    assigned at the positions the antimask selects -/
def scatterObj (dv : K) (a : Arr Bool) (o : Obj K) : Obj K :=
  let nv := npScatter a dv ⟨o.shape, o.vals⟩
  let nm := npScatter a true ⟨o.shape, o.maskAt⟩
  ⟨nv.shape, nv.get, .arr, nm.get⟩

def unshrinkG (df : Dflt K) (recur : DObj K → Option (DObj K)) (cfg : Cfg) (am : AM)
    (shape : Shape) (x : Q K) : Option (Q K) :=
  -- "For testing only..."
  if cfg.disable then some x
  else
  -- cache lookup and deletion
  let unshrunk := cacheLookup cfg x.back
  let x := cacheDrop cfg x
  match am with
  | .all true => some x
  | _ =>
  if !am.any || x.obj.allMasked then (x.maskedSingle df).bto shape
  else if x.obj.shape = [] then some x
  else
  match unshrunk, am with
  | .to o ds, _ => (maskedOutside o ds am).map fun r => x.withArrays r false
  | _, .all _ => none          -- unreachable: `am.any` is false for `.all false`
  | _, .arr a =>
    if x.obj.shape.getLastD 0 ≠ count a then none
    else
    let obj := scatterObj (df.of x.cls) a x.obj
    match mapDerivs (fun (d : DObj K) => (recur d).bind (insertDeriv obj.shape)) x.derivs with
    | none => none
    | some ds => some ⟨x.cls, obj, ds, true, .none⟩

def unshrinkD (df : Dflt K) (cfg : Cfg) (am : AM) (shape : Shape) (d : DObj K) : Option (DObj K) :=
  (unshrinkG df (fun _ => none) cfg am shape d.toQ).map Q.toDObj

def unshrink (df : Dflt K) (cfg : Cfg) (am : AM) (shape : Shape) (x : Q K) : Option (Q K) :=
  unshrinkG df (unshrinkD df cfg am shape) cfg am shape x

/-! ## element-wise operations, lifted with broadcasting -/

/-- build an object from a cell function: array mask, one derivative object per key -/
def Q.ofCells (cls : Cls) (s : Shape) (ks : List String) (c : Index → Cell K) : Q K :=
  ⟨cls, ⟨s, fun i => (c i).v, .arr, fun i => (c i).m⟩,
   ks.map fun k => (k, (⟨⟨s, fun i => ((c i).d k).v, .arr, fun i => ((c i).d k).m⟩, false, .none⟩ : DObj K)),
   false, .none⟩

/-- an element-wise binary operation given by its action on elements (`f`, told the key sets
    of the operands), the key set of the result and its class; operands broadcast (NumPy) -/
structure Op2 (K : Type) where
  keys : List String → List String → List String
  cls : Cls → Cls → Cls
  f : List String → List String → Cell K → Cell K → Cell K

structure Op1 (K : Type) where
  keys : List String → List String
  cls : Cls → Cls
  f : List String → Cell K → Cell K

def lift2 (op : Op2 K) (a b : Q K) : Option (Q K) :=
  (bcast a.obj.shape b.obj.shape).map fun s =>
    Q.ofCells (op.cls a.cls b.cls) s (op.keys a.keys b.keys)
      fun i => op.f a.keys b.keys (a.cellB i) (b.cellB i)

def lift1 (op : Op1 K) (a : Q K) : Q K :=
  Q.ofCells (op.cls a.cls) a.obj.shape (op.keys a.keys) fun i => op.f a.keys (a.cellAt i)

/-- apply a partial function to every operand of an environment -/
def mapOpt {α β : Type} (f : α → Option β) : List α → Option (List β)
  | [] => some []
  | a :: as => match f a, mapOpt f as with
    | some b, some bs => some (b :: bs)
    | _, _ => none

/-- element-wise expression trees -/
inductive Expr (K : Type) where
  | var (n : Nat)
  | un (op : Op1 K) (e : Expr K)
  | bin (op : Op2 K) (e₁ e₂ : Expr K)

def eval (env : List (Q K)) : Expr K → Option (Q K)
  | .var n => env[n]?
  | .un op e => (eval env e).map (lift1 op)
  | .bin op e₁ e₂ =>
    match eval env e₁, eval env e₂ with
    | some a, some b => lift2 op a b
    | _, _ => none

/-! ## the catalogue (per-element code of the operators, qube.py / scalar.py) -/

/-- the numeric primitives the catalogue needs -/
class Num (K : Type) extends Inhabited K where
  add : K → K → K
  sub : K → K → K
  mul : K → K → K
  div : K → K → K
  neg : K → K
  abs : K → K
  sign : K → K
  sqrt : K → K
  isZero : K → Bool
  isNeg : K → Bool
  lt : K → K → Bool
  le : K → K → Bool
  eq : K → K → Bool
  one : K
  zero : K
  half : K

namespace Cat
variable {K : Type} [Num K]
open Num

def dmap2 (f : K → K → K) (a b : DCell K) : DCell K := ⟨f a.v b.v, a.m || b.m⟩
/-- derivative × (derivative-free operand) -/
def dscale (f : K → K → K) (d : DCell K) (v : K) (m : Bool) : DCell K := ⟨f d.v v, d.m || m⟩

/-- `_add_derivs` / `_sub_derivs` (qube.py:2971-2990, 3091-3110) -/
def keysUnion (ka kb : List String) : List String := ka ++ kb.filter fun k => !ka.contains k

/-- `__add__` (qube.py:2879-2918) -/
def add : Op2 K where
  keys := keysUnion
  cls := fun _ _ => .scalar
  f := fun ka kb a b => ⟨Num.add a.v b.v, a.m || b.m, fun k =>
    match ka.contains k, kb.contains k with
    | true, true => dmap2 Num.add (a.d k) (b.d k)
    | true, false => a.d k
    | false, true => b.d k
    | false, false => noDeriv⟩

/-- `__sub__` (qube.py:2995-3034) -/
def sub : Op2 K where
  keys := keysUnion
  cls := fun _ _ => .scalar
  f := fun ka kb a b => ⟨Num.sub a.v b.v, a.m || b.m, fun k =>
    match ka.contains k, kb.contains k with
    | true, true => dmap2 Num.sub (a.d k) (b.d k)
    | true, false => a.d k
    | false, true => ⟨Num.neg (b.d k).v, (b.d k).m⟩
    | false, false => noDeriv⟩

/-- `_mul_by_scalar` + `_mul_derivs` (qube.py:3245-3292):
    `self_deriv * arg.wod  [+ self.wod * arg_deriv]` -/
def mul : Op2 K where
  keys := keysUnion
  cls := fun _ _ => .scalar
  f := fun ka kb a b => ⟨Num.mul a.v b.v, a.m || b.m, fun k =>
    match ka.contains k, kb.contains k with
    | true, true => dmap2 Num.add (dscale Num.mul (a.d k) b.v b.m)
                      ⟨Num.mul a.v (b.d k).v, a.m || (b.d k).m⟩
    | true, false => dscale Num.mul (a.d k) b.v b.m
    | false, true => ⟨Num.mul a.v (b.d k).v, a.m || (b.d k).m⟩
    | false, false => noDeriv⟩

/-- `_div_by_scalar` + `_div_derivs(nozeros=True)` (qube.py:3426-3480): zeros of the divisor
    are masked and replaced by 1 first; `self_deriv * inv  [- self.wod * (arg_deriv*inv*inv)]` -/
def div : Op2 K where
  keys := keysUnion
  cls := fun _ _ => .scalar
  f := fun ka kb a b =>
    let z := Num.isZero b.v
    let bv := if z then Num.one else b.v
    let bm := b.m || z
    let inv := Num.div Num.one bv
    ⟨Num.div a.v bv, a.m || bm, fun k =>
      -- the divisor's derivative was masked and replaced along with the divisor
      let bd : DCell K := if z then ⟨Num.one, true⟩ else b.d k
      let term : DCell K := ⟨Num.mul a.v (Num.mul (Num.mul bd.v inv) inv), a.m || (bd.m || bm || bm)⟩
      match ka.contains k, kb.contains k with
      | true, true => dmap2 Num.sub (dscale Num.mul (a.d k) inv bm) term
      | true, false => dscale Num.mul (a.d k) inv bm
      | false, true => ⟨Num.neg term.v, term.m⟩
      | false, false => noDeriv⟩

/-- `__neg__` (qube.py:2834-2845) -/
def neg : Op1 K where
  keys := id
  cls := id
  f := fun ka a => ⟨Num.neg a.v, a.m, fun k =>
    match ka.contains k with
    | true => ⟨Num.neg (a.d k).v, (a.d k).m⟩
    | false => noDeriv⟩

/-- `__abs__` (qube.py:2848-2864): derivatives multiplied by `sign(self)` (its mask is
    the object's mask) -/
def abs : Op1 K where
  keys := id
  cls := id
  f := fun ka a => ⟨Num.abs a.v, a.m, fun k =>
    match ka.contains k with
    | true => dscale Num.mul (a.d k) (Num.sign a.v) a.m
    | false => noDeriv⟩

/-- `Scalar.reciprocal` (scalar.py:1301-1342): zeros masked and replaced by 1;
    derivative factor `-obj*obj` -/
def recip : Op1 K where
  keys := id
  cls := id
  f := fun ka a =>
    let z := Num.isZero a.v
    let av := if z then Num.one else a.v
    let m := a.m || z
    let r := Num.div Num.one av
    ⟨r, m, fun k =>
      match ka.contains k with
      | true => ⟨Num.mul (Num.mul (Num.neg r) r) (a.d k).v, (m || m) || (a.d k).m⟩
      | false => noDeriv⟩

/-- `Scalar.sqrt` (scalar.py:551-590): negatives masked and replaced by 1;
    derivative factor `0.5 / obj` (division masks where `obj` is 0) -/
def sqrt : Op1 K where
  keys := id
  cls := id
  f := fun ka a =>
    let ng := Num.isNeg a.v
    let av := if ng then Num.one else a.v
    let m := a.m || ng
    let r := Num.sqrt av
    let z := Num.isZero r
    let fac := Num.div Num.half (if z then Num.one else r)
    ⟨r, m, fun k =>
      match ka.contains k with
      | true => ⟨Num.mul fac (a.d k).v, (m || z) || (a.d k).m⟩
      | false => noDeriv⟩

def ofBool (b : Bool) : K := if b then Num.one else Num.zero

/-- ordered comparisons (scalar.py:1363-1449): False wherever either side is masked -/
def cmp (c : K → K → Bool) : Op2 K where
  keys := fun _ _ => []
  cls := fun _ _ => .boolean
  f := fun _ _ a b => ⟨ofBool (c a.v b.v && (!a.m && !b.m)), false, fun _ => noDeriv⟩

/-- `__eq__` (qube.py:3867-3905): both masked = equal, one masked = unequal -/
def eq : Op2 K where
  keys := fun _ _ => []
  cls := fun _ _ => .boolean
  f := fun _ _ a b =>
    let r := if a.m && b.m then true else if a.m != b.m then false else Num.eq a.v b.v
    ⟨ofBool r, false, fun _ => noDeriv⟩

def ne : Op2 K where
  keys := fun _ _ => []
  cls := fun _ _ => .boolean
  f := fun _ _ a b =>
    let r := if a.m && b.m then false else if a.m != b.m then true else !Num.eq a.v b.v
    ⟨ofBool r, false, fun _ => noDeriv⟩

/-- `wod`: the same object without derivatives -/
def wod : Op1 K where
  keys := fun _ => []
  cls := id
  f := fun _ a => ⟨a.v, a.m, fun _ => noDeriv⟩

end Cat

end PMV.Shrink
