import PMV.Core.Arr
/-
  C14 view: equality, ordering, strict Boolean operators and Kleene three-valued logic.

  A Boolean element of polymath is a stored value bit and a mask bit.  The value stored
  under a mask is arbitrary ("hidden") and is carried explicitly so that a theorem can say
  the answer does not depend on it.

  Every function named `…Code` is written branch for branch like the source it models:
    tvl_and / tvl_or / tvl_any / tvl_all        polymath/extensions/tvl.py
    __eq__ __ne__ __invert__ __and__ __or__ __xor__ logical_not any all   polymath/qube.py
    __lt__ __le__ __gt__ __ge__                  polymath/scalar.py
    _tvl_op                                      polymath/extensions/tvl.py
  The flag `oneFalse` is the test `Qube.is_one_false(mask)`: the mask is the single Python
  bool False (then every element's mask bit is false).
-/
namespace PMV.Logic3

/-- three truth values: true, false, masked (= unknown) -/
inductive T3 where
  | t | f | m
  deriving DecidableEq, Repr, Inhabited

structure Cell where
  v : Bool
  m : Bool
  deriving DecidableEq, Repr, Inhabited

/-- the observable truth value of a stored element -/
def Cell.t3 (c : Cell) : T3 :=
  match c.m, c.v with
  | true, _ => .m
  | false, true => .t
  | false, false => .f

def T3.isT : T3 → Bool | .t => true | _ => false
def T3.isF : T3 → Bool | .f => true | _ => false
def T3.isM : T3 → Bool | .m => true | _ => false

/-! ### specifications (the documented tables) -/

def kand : T3 → T3 → T3
  | .f, _ => .f
  | _, .f => .f
  | .t, .t => .t
  | _, _ => .m

def kor : T3 → T3 → T3
  | .t, _ => .t
  | _, .t => .t
  | .f, .f => .f
  | _, _ => .m

def knot : T3 → T3
  | .t => .f
  | .f => .t
  | .m => .m

/-- Kleene any / all over a lane -/
def kany (xs : List T3) : T3 := xs.foldr kor .f
def kall (xs : List T3) : T3 := xs.foldr kand .t

/-- strict lifting of a Boolean operator: masked if any input is -/
def strict2 (op : Bool → Bool → Bool) : T3 → T3 → T3
  | .m, _ => .m
  | _, .m => .m
  | a, b => match op a.isT b.isT with | true => .t | false => .f

/-- `any()` / `all()` ignore masked elements; masked iff every element is masked -/
def ignAny (xs : List T3) : T3 :=
  match xs.all T3.isM, xs.any T3.isT with
  | true, _ => .m
  | false, true => .t
  | false, false => .f
def ignAll (xs : List T3) : T3 :=
  match xs.all T3.isM, xs.any T3.isF with
  | true, _ => .m
  | false, true => .f
  | false, false => .t

/-! ### code-shaped element functions -/

/-- tvl.py:31-51 -/
def tvlAndCode (sOneFalse aOneFalse : Bool) (s a : Cell) : Cell :=
  let sTrue := if sOneFalse then s.v else s.v && !s.m
  let sNotFalse := if sOneFalse then s.v else s.v || s.m
  let aTrue := if aOneFalse then a.v else a.v && !a.m
  let aNotFalse := if aOneFalse then a.v else a.v || a.m
  let rTrue := sTrue && aTrue
  let rNotFalse := sNotFalse && aNotFalse
  ⟨rTrue, !rTrue && rNotFalse⟩

/-- tvl.py:86-106 (note: the stored value is `result_is_not_false`) -/
def tvlOrCode (sOneFalse aOneFalse : Bool) (s a : Cell) : Cell :=
  let sTrue := if sOneFalse then s.v else s.v && !s.m
  let sNotFalse := if sOneFalse then s.v else s.v || s.m
  let aTrue := if aOneFalse then a.v else a.v && !a.m
  let aNotFalse := if aOneFalse then a.v else a.v || a.m
  let rTrue := sTrue || aTrue
  let rNotFalse := sNotFalse || aNotFalse
  ⟨rNotFalse, !rTrue && rNotFalse⟩

/-- qube.py `__and__`, `__or__`, `__xor__`: values combined, masks OR-ed -/
def strictCode (op : Bool → Bool → Bool) (s a : Cell) : Cell := ⟨op s.v a.v, s.m || a.m⟩
/-- qube.py `__invert__` / `logical_not` on a Boolean -/
def notCode (s : Cell) : Cell := ⟨!s.v, s.m⟩

/-- the representation of a mask: a single Python bool or an array -/
inductive Rep where
  | scalar (b : Bool)
  | array
  deriving DecidableEq, Repr

/-- a lane is consistent with a representation -/
def Rep.ok : Rep → List Cell → Prop
  | .scalar b, xs => ∀ c ∈ xs, c.m = b
  | .array, _ => True

/-- tvl.py:143-155 on one lane.  Scalar-mask branch: `bool(mask) and size > 0` — when the object has no
    elements every lane is empty, otherwise none is, so per lane this is `b && !xs.isEmpty`. -/
def tvlAnyCode (r : Rep) (xs : List Cell) : Cell :=
  match r with
  | .scalar b => ⟨xs.any (·.v), b && !xs.isEmpty⟩
  | .array =>
    let newV := xs.any fun c => c.v && !c.m
    let found := xs.any (·.m)
    ⟨newV, !newV && found⟩

/-- tvl.py:194-207 on one lane (scalar-mask branch as in `tvlAnyCode`) -/
def tvlAllCode (r : Rep) (xs : List Cell) : Cell :=
  match r with
  | .scalar b => ⟨xs.all (·.v), b && !xs.isEmpty⟩
  | .array =>
    let newV := xs.all fun c => c.v || c.m
    let found := xs.any (·.m)
    ⟨newV, newV && found⟩

/-- qube.py:4148-4154 on one lane -/
def anyCode (r : Rep) (xs : List Cell) : Cell :=
  match r with
  | .scalar b => ⟨xs.any (·.v), b⟩
  | .array => ⟨xs.any fun c => c.v && !c.m, xs.all (·.m)⟩

/-- qube.py:4192-4198 on one lane -/
def allCode (r : Rep) (xs : List Cell) : Cell :=
  match r with
  | .scalar b => ⟨xs.all (·.v), b⟩
  | .array => ⟨xs.all fun c => c.v || c.m, xs.all (·.m)⟩

/-! ### equality and ordering on items

An item is the list of its components (length = product of the item shape); both operands
have been broadcast to one shape and have equal item shapes when these are reached. -/

structure ICell where
  vals : List Int
  m : Bool
  deriving DecidableEq, Repr, Inhabited

/-- `np.all(self._values_ == arg._values_, axis=item axes)` -/
def itemEq : List Int → List Int → Bool
  | [], [] => true
  | x :: xs, y :: ys => x == y && itemEq xs ys
  | _, _ => false

/-- `np.any(self._values_ != arg._values_, axis=item axes)` -/
def itemNe : List Int → List Int → Bool
  | [], [] => false
  | x :: xs, y :: ys => x != y || itemNe xs ys
  | _, _ => true

/-- qube.py:3875-3898: result of `==` at one element (the result is never masked) -/
def eqCode (s a : ICell) : Bool :=
  let compare := itemEq s.vals a.vals
  let both := s.m && a.m
  let one := s.m ^^ a.m
  let compare := if one then false else compare
  if both then true else compare

/-- qube.py:3913-3941 -/
def neCode (s a : ICell) : Bool :=
  let compare := itemNe s.vals a.vals
  let both := s.m && a.m
  let one := s.m ^^ a.m
  let compare := if one then true else compare
  if both then false else compare

/-- what `==` / `!=` return: a Python bool for incompatible operands, else one Boolean per element -/
inductive CmpRes where
  | whole (b : Bool)
  | elems (r : Arr Bool)

/-- qube.py `_compatible_arg`, same-class branch: `self._item_ != arg._item_` → None (the item shape is numerator AND
    denominator axes); `Qube.broadcast(self, arg)` raising ValueError → None -/
def compatCode (itemS itemA : List Nat) (ss sa : Shape) : Bool :=
  if itemS != itemA then false else (bcast ss sa).isSome

/-- qube.py `__eq__`: `if arg is None: return False`, else the element-wise comparison -/
def eqTop (itemS itemA : List Nat) (s a : Arr ICell) : CmpRes :=
  if !compatCode itemS itemA s.shape a.shape then .whole false
  else match Arr.map2 eqCode s a with
    | some r => .elems r
    | none => .whole false

/-- qube.py `__ne__`: `if arg is None: return True` -/
def neTop (itemS itemA : List Nat) (s a : Arr ICell) : CmpRes :=
  if !compatCode itemS itemA s.shape a.shape then .whole true
  else match Arr.map2 neCode s a with
    | some r => .elems r
    | none => .whole true

inductive Ord where | lt | le | gt | ge
  deriving DecidableEq, Repr

def Ord.cmp : Ord → Int → Int → Bool
  | .lt, x, y => x < y
  | .le, x, y => x ≤ y
  | .gt, x, y => x > y
  | .ge, x, y => x ≥ y

structure NCell where
  v : Int
  m : Bool
  deriving DecidableEq, Repr, Inhabited

/-- scalar.py:1371-1379: `compare &= antimask & antimask` (array path) and
    `if mask or mask: return False` (shape-() path) coincide per element -/
def ordCode (o : Ord) (s a : NCell) : Bool := o.cmp s.v a.v && (!s.m && !a.m)

/-- tvl.py `_tvl_op`: the comparison's value, masked by the OR of the operand masks -/
def tvlOrdCode (o : Ord) (s a : NCell) : Cell := ⟨ordCode o s a, s.m || a.m⟩
def tvlEqCode (s a : ICell) : Cell := ⟨eqCode s a, s.m || a.m⟩
def tvlNeCode (s a : ICell) : Cell := ⟨neCode s a, s.m || a.m⟩

/-- what `tvl_eq` / `tvl_ne` return: ONE three-valued answer when the operands cannot be compared element by element
    (`==` answered with a Python bool), else one per element -/
inductive TvlCmpRes where
  | whole (c : Cell)
  | elems (r : Arr Cell)

/-- tvl.py `_tvl_op`, branch `isinstance(comparison, bool)` with builtins off: the single truth value is indeterminate iff
    either operand is ENTIRELY masked, however that mask is represented (`bool(np.all(mask))`, passed in as
    `allS`, `allA`) -/
def tvlWholeCode (value allS allA : Bool) : Cell := ⟨value, allS || allA⟩

/-- `tvl_eq` (`isEq = true`) / `tvl_ne` of operands of one class -/
def tvlCmpTop (isEq : Bool) (itemS itemA : List Nat) (allS allA : Bool) (s a : Arr ICell) : TvlCmpRes :=
  if !compatCode itemS itemA s.shape a.shape then .whole (tvlWholeCode (!isEq) allS allA)
  else match Arr.map2 (if isEq then tvlEqCode else tvlNeCode) s a with
    | some r => .elems r
    | none => .whole (tvlWholeCode (!isEq) allS allA)

/-- specification of a tvl comparison: unknown if either side is unknown -/
def tvlCmpSpec (r : Bool) (sm am : Bool) : T3 :=
  match sm || am, r with
  | true, _ => .m
  | false, true => .t
  | false, false => .f

/-- `__bool__` (qube.py:3978-3992) on the list of all elements of a comparison result.
    `none` = raises ValueError. -/
def boolCode (truthIfAll truthIfAny : Bool) (shapeless : Bool) (xs : List Cell) : Option Bool :=
  if truthIfAll then some (xs.all fun c => c.v && !c.m)
  else if truthIfAny then some (xs.any fun c => c.v && !c.m)
  else if !shapeless then none
  else match xs with
    | [c] => if c.m then none else some c.v
    | _ => none

end PMV.Logic3
