import PMV.Model.Index
/-
  polymath/extensions/indexer.py:95-245 — `__setitem__`, the general path (indices that
  `_prep_scalar_index` rejects), on the leading axes of one array-with-mask; right-hand sides that
  are shapeless or have the rank of the selection.  Repaired tree (branch wt-C09).  Mathlib-free.

  NOT modelled here (covered by the direct oracle of harness/c10.py only): the whole-object path
  taken when the index consists of True/False/None/Ellipsis/`:` only (indexer.py:101-134), right-hand
  sides of lower rank than the selection (the rank juggling of indexer.py:166-178), derivatives.
-/
namespace PMV.SetItem
open PMV PMV.NpIndex PMV.Index

/-- the indexed object: leading shape, one (tagged) value per element, mask -/
structure Obj where
  shape : Shape
  vals : Index → Int
  mask : Mask

/-- right-hand side after `as_this_type`: leading shape, values, mask -/
structure Rhs where
  shape : Shape
  vals : Index → Int
  mask : Mask

inductive Outcome where
  | ok (o : Obj)
  | indexError
  | valueError

/-- NumPy `a[idx] = v` restricted to the selection coordinates `keep` (for `v` already laid out on
    the selection): every kept coordinate is written, in row-major order of the selection, so for
    duplicates the last writer wins.  `keep = fun _ => true` is the plain assignment. -/
def npAssign {α : Type} (s : Sel) (keep : Index → Bool) (a : Index → α) (v : Index → α) : Index → α :=
  fun x => match (indices s.shape).reverse.find? (fun o => keep o && s.src o == x) with
    | some o => v o
    | none => a x

/-- polymath-layout coordinate of a NumPy-layout selection coordinate (inverse of the relocation):
    the right-hand side is given in polymath's layout and `np.moveaxis(arg, after, before)` moves
    its array axes to the front (indexer.py:166-186) -/
def toPoly (moved : Bool) (loc r : Nat) (o : Index) : Index :=
  if moved then (o.drop r).take loc ++ o.take r ++ o.drop (r + loc) else o

def toNpShape (moved : Bool) (loc r : Nat) (sh : Shape) : Shape :=
  if moved then (sh.drop loc).take r ++ sh.take loc ++ sh.drop (loc + r) else sh

/-- indexer.py:153-163: the target's mask becomes an array unless both masks are the same scalar -/
def expandMask (shape : Shape) (self arg : Mask) : Mask :=
  match self, arg with
  | .all a, .all b => if a == b then .all a else .arr ⟨shape, fun _ => a⟩
  | .all a, .arr _ => .arr ⟨shape, fun _ => a⟩
  | .arr m, _ => .arr m

/-- the post-mask as a predicate on (NumPy-layout) selection coordinates -/
def flagged (p : Prep) (o : Index) : Bool :=
  match p.post with
  | .all b => b
  | .arr pm => alignedPost pm p.arrayShape (if p.moved then 0 else p.loc) o

/-- indexer.py:136-221 -/
def setitem (q : Obj) (indx : List Entry) (rhs : Rhs) : Outcome :=
  match prepIndex q.shape indx with
  | none => .indexError
  | some p =>
    if p.post.all? then .ok q                       -- "If index is fully masked, we're done"
    else
      match npIndex q.shape p.pre with
      | none => .indexError
      | some s =>
        let r := p.arrayShape.length
        let full := rhs.shape.length == s.shape.length
        let mv := p.moved && full
        -- the right-hand side must broadcast to the selection (NumPy raises ValueError otherwise)
        if bcast (toNpShape mv p.loc r rhs.shape) s.shape != some s.shape then .valueError
        else
          let pos : Index → Index := fun o => bidx rhs.shape (toPoly mv p.loc r o)
          let rv : Index → Int := fun o => rhs.vals (pos o)
          let rm : Index → Bool := fun o => rhs.mask.bit (pos o)
          let m0 := expandMask q.shape q.mask rhs.mask
          if !p.post.any? then
            -- self._values_[vals_index] = arg_values ; self._mask_[pre_index] = arg_mask
            .ok ⟨q.shape, npAssign s (fun _ => true) q.vals rv,
                 match m0 with
                 | .arr m => .arr ⟨q.shape, npAssign s (fun _ => true) m.get rm⟩
                 | .all b => .all b⟩
          else
            -- every array index reduced to its unmasked elements (`kept_index`): the flagged
            -- coordinates of the selection are not written at all
            .ok ⟨q.shape, npAssign s (fun o => !flagged p o) q.vals rv,
                 match m0 with
                 | .arr m => .arr ⟨q.shape, npAssign s (fun o => !flagged p o) m.get rm⟩
                 | .all b => .all b⟩

/-- one assignment of a sequence; an assignment that raises leaves the object as it was -/
def step (q : Obj) (a : List Entry × Rhs) : Obj :=
  match setitem q a.1 a.2 with
  | .ok q' => q'
  | _ => q

/-- a sequence of assignments to the same target -/
def assignAll (q : Obj) (as : List (List Entry × Rhs)) : Obj := as.foldl step q

/-- `self._mask_ = self._mask_.copy()` before writing (indexer.py:192-194, 218-219): the mask array
    the target shared stays as it was; the target is re-pointed to a fresh array.  Heap of mask
    arrays by identity. -/
def writeMaskCopy (heap : Nat → Option (Arr Bool)) (fresh : Nat) (new : Arr Bool) : Nat → Option (Arr Bool) :=
  fun k => if k = fresh then some new else heap k

end PMV.SetItem
