import PMV.Model.Index
/-
  polymath/extensions/indexer.py:95-245 — `__setitem__`, the general path (indices that
  `_prep_scalar_index` rejects), on the leading axes of one array-with-mask; right-hand sides that
  are shapeless or have the rank of the selection.  Repaired tree (branch wt-C09).  Mathlib-free.

  NOT modelled here (covered by the direct oracle of harness/c10.py only): the whole-object path
  taken when the index consists of True/False/None/Ellipsis/`:` only (indexer.py:101-134), right-hand
  sides with MORE axes than the selection, derivatives.
-/
namespace PMV.SetItem
open PMV PMV.NpIndex PMV.Index

/-- the indexed object: leading shape, one (tagged) value per element, mask -/
structure Obj where
  shape : Shape
  vals : Index → Int
  mask : Mask

/-- right-hand side after `as_this_type`: leading shape, values, mask -/
structure Rhs where
  shape : Shape
  vals : Index → Int
  mask : Mask

inductive Outcome where
  | ok (o : Obj)
  | indexError
  | valueError

/-- NumPy `a[idx] = v` restricted to the selection coordinates `keep` (for `v` already laid out on
    the selection): every kept coordinate is written, in row-major order of the selection, so for
    duplicates the last writer wins.  `keep = fun _ => true` is the plain assignment. -/
def npAssign {α : Type} (s : Sel) (keep : Index → Bool) (a : Index → α) (v : Index → α) : Index → α :=
  fun x => match (indices s.shape).reverse.find? (fun o => keep o && s.src o == x) with
    | some o => v o
    | none => a x

/-- polymath-layout coordinate of a NumPy-layout selection coordinate (inverse of the relocation):
    the right-hand side is given in polymath's layout and `np.moveaxis(arg, after, before)` moves
    its array axes to the front (indexer.py:166-186) -/
def toPoly (moved : Bool) (loc r : Nat) (o : Index) : Index :=
  if moved then (o.drop r).take loc ++ o.take r ++ o.drop (r + loc) else o

def toNpShape (moved : Bool) (loc r : Nat) (sh : Shape) : Shape :=
  if moved then (sh.drop loc).take r ++ sh.take loc ++ sh.drop (loc + r) else sh

/-- the shape of the right-hand side as NumPy's assignment sees it: padded with leading unit axes to
    the rank of the selection and its array axes moved to the front when polymath relocated them -/
def rhsLayout (mv : Bool) (loc r : Nat) (sel rhs : Shape) : Shape :=
  if mv then toNpShape true loc r (List.replicate (sel.length - rhs.length) 1 ++ rhs) else rhs

/-- indexer.py:153-163: the target's mask becomes an array unless both masks are the same scalar -/
def expandMask (shape : Shape) (self arg : Mask) : Mask :=
  match self, arg with
  | .all a, .all b => if a == b then .all a else .arr ⟨shape, fun _ => a⟩
  | .all a, .arr _ => .arr ⟨shape, fun _ => a⟩
  | .arr m, _ => .arr m

/-- the post-mask as a predicate on (NumPy-layout) selection coordinates -/
def flagged (p : Prep) (o : Index) : Bool :=
  match p.post with
  | .all b => b
  | .arr pm => alignedPost pm p.arrayShape (if p.moved then 0 else p.loc) o

/-- indexer.py:136-221 -/
def setitem (q : Obj) (indx : List Entry) (rhs : Rhs) : Outcome :=
  match prepIndex q.shape indx with
  | none => .indexError
  | some p =>
    if p.post.all? then .ok q                       -- "If index is fully masked, we're done"
    else
      match npIndex q.shape p.pre with
      | none => .indexError
      | some s =>
        let r := p.arrayShape.length
        -- indexer.py:174-197: a right-hand side with fewer axes than the selection lines up from
        -- the right (it is given leading unit axes) before its array axes are moved to the front;
        -- a shapeless one is left alone
        let mv := p.moved && !rhs.shape.isEmpty
        -- the right-hand side must broadcast to the selection (NumPy raises ValueError otherwise)
        if bcast (rhsLayout mv p.loc r s.shape rhs.shape) s.shape != some s.shape then .valueError
        else
          let pos : Index → Index := fun o => bidx rhs.shape (toPoly mv p.loc r o)
          let rv : Index → Int := fun o => rhs.vals (pos o)
          let rm : Index → Bool := fun o => rhs.mask.bit (pos o)
          let m0 := expandMask q.shape q.mask rhs.mask
          if !p.post.any? then
            -- self._values_[vals_index] = arg_values ; self._mask_[pre_index] = arg_mask
            .ok ⟨q.shape, npAssign s (fun _ => true) q.vals rv,
                 match m0 with
                 | .arr m => .arr ⟨q.shape, npAssign s (fun _ => true) m.get rm⟩
                 | .all b => .all b⟩
          else
            -- every array index reduced to its unmasked elements (`kept_index`): the flagged
            -- coordinates of the selection are not written at all
            .ok ⟨q.shape, npAssign s (fun o => !flagged p o) q.vals rv,
                 match m0 with
                 | .arr m => .arr ⟨q.shape, npAssign s (fun o => !flagged p o) m.get rm⟩
                 | .all b => .all b⟩

/-- one assignment of a sequence; an assignment that raises leaves the object as it was -/
def step (q : Obj) (a : List Entry × Rhs) : Obj :=
  match setitem q a.1 a.2 with
  | .ok q' => q'
  | _ => q

/-- a sequence of assignments to the same target -/
def assignAll (q : Obj) (as : List (List Entry × Rhs)) : Obj := as.foldl step q

/-! ### derivatives (indexer.py:253-273) -/

/-- an object with its derivatives (each derivative has the object's leading shape) -/
structure ObjD where
  main : Obj
  derivs : List (String × Obj)

structure RhsD where
  main : Rhs
  derivs : List (String × Rhs)

inductive OutcomeD where
  | ok (o : ObjD)
  | indexError
  | valueError

def lookupD {α : Type} (k : String) : List (String × α) → Option α
  | [] => none
  | (k', x) :: r => if k' == k then some x else lookupD k r

/-- a derivative that is missing counts as zero: zero values, carrying the given mask -/
def zeroRhs (shape : Shape) (mask : Mask) : Rhs := ⟨shape, fun _ => 0, mask⟩
def zeroObj (shape : Shape) (mask : Mask) : Obj := ⟨shape, fun _ => 0, mask⟩

/-- `d[indx] = rd` for one derivative; `none` = the assignment failed -/
def setDeriv (d : Obj) (indx : List Entry) (rd : Rhs) : Option Obj :=
  match setitem d indx rd with
  | .ok d' => some d'
  | _ => none

/-- `__setitem__` with derivatives: the object, then every derivative of the object (from the
    right-hand side's derivative of that key, or zero with the right-hand side's mask), then every
    derivative only the right-hand side has (into a zero derivative carrying the object's NEW mask).
    A fully masked index returns before any of this. -/
def setitemD (q : ObjD) (indx : List Entry) (rhs : RhsD) : OutcomeD :=
  match setitem q.main indx rhs.main with
  | .indexError => .indexError
  | .valueError => .valueError
  | .ok m' =>
    match prepIndex q.main.shape indx with
    | none => .indexError
    | some p =>
      if p.post.all? then .ok q
      else
        let old := q.derivs.mapM fun (kd : String × Obj) =>
          (setDeriv kd.2 indx ((lookupD kd.1 rhs.derivs).getD (zeroRhs rhs.main.shape rhs.main.mask))).map
            fun d' => (kd.1, d')
        let new := (rhs.derivs.filter fun kr => (lookupD kr.1 q.derivs).isNone).mapM
          fun (kr : String × Rhs) =>
            (setDeriv (zeroObj q.main.shape m'.mask) indx kr.2).map fun d' => (kr.1, d')
        match old, new with
        | some ds1, some ds2 => .ok ⟨m', ds1 ++ ds2⟩
        | _, _ => .valueError

/-! ### the whole-object path (indexer.py:101-150): indices made of True/False/None/Ellipsis/`:` -/

/-- index items that are neither `None` nor the Ellipsis -/
def usedCount (indx : List Entry) : Nat :=
  (indx.filter fun e => match e with | .none => false | .ell => false | _ => true).length

/-- is the whole-object path taken?  `_prep_scalar_index` must accept the index and, for an object
    with a shape, the index must not have more items than the object has axes nor add axes with
    `None` (unless it writes nothing anyway); otherwise the general path is taken (a shapeless
    object raises IndexError). -/
def wholePath (shape : Shape) (indx : List Entry) : Option SState :=
  match scalarLoop {} indx with
  | none => none
  | some s =>
    if !shape.isEmpty && (decide (usedCount indx > shape.length) ||
        ((s.before ++ s.after).contains 1 && !(s.masked || s.sizeZero))) then none
    else some s

/-- `arg.broadcast_to(self._shape_)` (a shapeless target takes a right-hand side with one element) -/
def bcastRhs (shape : Shape) (r : Rhs) : Option Obj :=
  if shape.isEmpty then
    if size r.shape == 1 then some ⟨[], fun _ => r.vals [], .all (r.mask.bit [])⟩ else none
  else if bcast r.shape shape == some shape then
    some ⟨shape, fun i => r.vals (bidx r.shape i),
          match r.mask with
          | .all b => .all b
          | .arr a => .arr ⟨shape, fun i => a.get (bidx r.shape i)⟩⟩
  else none

/-- the whole-object assignment: values, mask and derivatives are replaced by the broadcast
    right-hand side's; a derivative only the object has becomes zero (with the new mask) -/
def setitemWhole (q : ObjD) (s : SState) (rhs : RhsD) : OutcomeD :=
  if s.masked || s.sizeZero then .ok q
  else
    match bcastRhs q.main.shape rhs.main with
    | none => .valueError
    | some m' =>
      let kept := q.derivs.map fun (kd : String × Obj) =>
        match lookupD kd.1 rhs.derivs with
        | some rd => (bcastRhs q.main.shape rd).map fun d => (kd.1, d)
        | none => some (kd.1, zeroObj q.main.shape m'.mask)
      let added := (rhs.derivs.filter fun kr => (lookupD kr.1 q.derivs).isNone).map
        fun (kr : String × Rhs) => (bcastRhs q.main.shape kr.2).map fun d => (kr.1, d)
      match (kept ++ added).mapM id with
      | some ds => .ok ⟨m', ds⟩
      | none => .valueError

/-- `__setitem__`: the whole-object path when it applies, else the general path -/
def setitemAny (q : ObjD) (indx : List Entry) (rhs : RhsD) : OutcomeD :=
  match wholePath q.main.shape indx with
  | some s => setitemWhole q s rhs
  | none => if q.main.shape.isEmpty then .indexError else setitemD q indx rhs

/-- one assignment of a sequence on an object with derivatives (any path); an assignment that
    raises leaves the object as it was -/
def stepAny (q : ObjD) (a : List Entry × RhsD) : ObjD :=
  match setitemAny q a.1 a.2 with
  | .ok q' => q'
  | _ => q

def assignAny (q : ObjD) (as : List (List Entry × RhsD)) : ObjD := as.foldl stepAny q

/-- `self._mask_ = self._mask_.copy()` before writing (indexer.py:192-194, 218-219): the mask array
    the target shared stays as it was; the target is re-pointed to a fresh array.  Heap of mask
    arrays by identity. -/
def writeMaskCopy (heap : Nat → Option (Arr Bool)) (fresh : Nat) (new : Arr Bool) : Nat → Option (Arr Bool) :=
  fun k => if k = fresh then some new else heap k

end PMV.SetItem
