import PMV.Model.Logic3
/-
  Vocabulary for the comparison functions regenerated from the source (PMV/Gen/Cmp.lean): which operator compares the
  values, how the item axes are reduced, which truth-testing flag the result carries.
-/
namespace PMV.Logic3

inductive CmpOp where | eq | ne | lt | le | gt | ge
  deriving DecidableEq, Repr

inductive ItemRed where | all | any | none
  deriving DecidableEq, Repr

inductive TruthFlag where | ifAll | ifAny | none
  deriving DecidableEq, Repr

/-- what `__bool__` does: all() / any() of "non-zero and not masked" over the elements, or ValueError -/
inductive BoolOut where | allNonzero | anyNonzero | raises
  deriving DecidableEq, Repr

/-- documented truth testing: results of `==` and of the ordered comparisons test as all(), results of `!=` as any();
    any other object only when it has no shape and is not masked -/
def boolSpec (tAll tAny shaped masked : Bool) : BoolOut :=
  match tAll, tAny, shaped, masked with
  | true, _, _, _ => .allNonzero
  | false, true, _, _ => .anyNonzero
  | false, false, true, _ => .raises
  | false, false, false, true => .raises
  | false, false, false, false => .allNonzero

/-- the outcome applied to the elements (`as_mask_where_nonzero` = stored value non-zero and not masked) -/
def BoolOut.run : BoolOut → List Cell → Option Bool
  | .allNonzero, xs => some (xs.all fun c => c.v && !c.m)
  | .anyNonzero, xs => some (xs.any fun c => c.v && !c.m)
  | .raises, _ => none

/-- the documented table of `==` on one element, in terms of the raw whole-item comparison `c` -/
def eqSpec (c sm am : Bool) : Bool :=
  match sm, am with
  | true, true => true
  | true, false => false
  | false, true => false
  | false, false => c

/-- `<`, `<=`, `>`, `>=`: False wherever either side is masked -/
def ordSpec (c sm am : Bool) : Bool :=
  match sm || am with
  | true => false
  | false => c

end PMV.Logic3
