import PMV.Model.Logic3
/-
  Vocabulary for the comparison functions regenerated from the source (PMV/Gen/Cmp.lean): which operator compares the
  values, how the item axes are reduced, which truth-testing flag the result carries.
-/
namespace PMV.Logic3

inductive CmpOp where | eq | ne | lt | le | gt | ge
  deriving DecidableEq, Repr

inductive ItemRed where | all | any | none
  deriving DecidableEq, Repr

inductive TruthFlag where | ifAll | ifAny | none
  deriving DecidableEq, Repr

/-- a test of `_compatible_arg` whose failure makes `==` answer False / `!=` answer True -/
inductive CompatCheck where | units | item | broadcast
  deriving DecidableEq, Repr

/-- `compatCode` (the hand model the driver runs) in terms of the list of tests: every listed test must pass; the units
    test always passes for the modelled operands (no units) -/
def compatOf (cs : List CompatCheck) (itemS itemA : List Nat) (ss sa : Shape) : Bool :=
  cs.all fun
    | .units => true
    | .item => itemS == itemA
    | .broadcast => (bcast ss sa).isSome

/-- what `__bool__` does: all() / any() of "non-zero and not masked" over the elements, or ValueError -/
inductive BoolOut where | allNonzero | anyNonzero | raises
  deriving DecidableEq, Repr

/-- documented truth testing: results of `==` and of the ordered comparisons test as all(), results of `!=` as any();
    any other object only when it has no shape and is not masked -/
def boolSpec (tAll tAny shaped masked : Bool) : BoolOut :=
  match tAll, tAny, shaped, masked with
  | true, _, _, _ => .allNonzero
  | false, true, _, _ => .anyNonzero
  | false, false, true, _ => .raises
  | false, false, false, true => .raises
  | false, false, false, false => .allNonzero

/-- the outcome applied to the elements (`as_mask_where_nonzero` = stored value non-zero and not masked) -/
def BoolOut.run : BoolOut → List Cell → Option Bool
  | .allNonzero, xs => some (xs.all fun c => c.v && !c.m)
  | .anyNonzero, xs => some (xs.any fun c => c.v && !c.m)
  | .raises, _ => none

/-- the documented table of `==` on one element, in terms of the raw whole-item comparison `c` -/
def eqSpec (c sm am : Bool) : Bool :=
  match sm, am with
  | true, true => true
  | true, false => false
  | false, true => false
  | false, false => c

/-- `<`, `<=`, `>`, `>=`: False wherever either side is masked -/
def ordSpec (c sm am : Bool) : Bool :=
  match sm || am with
  | true => false
  | false => c

end PMV.Logic3
