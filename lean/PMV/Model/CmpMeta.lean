import PMV.Model.Logic3
/-
  Vocabulary for the comparison functions regenerated from the source (PMV/Gen/Cmp.lean): which operator compares the
  values, how the item axes are reduced, which truth-testing flag the result carries.
-/
namespace PMV.Logic3

inductive CmpOp where | eq | ne | lt | le | gt | ge
  deriving DecidableEq, Repr

inductive ItemRed where | all | any | none
  deriving DecidableEq, Repr

inductive TruthFlag where | ifAll | ifAny | none
  deriving DecidableEq, Repr

/-- the documented table of `==` on one element, in terms of the raw whole-item comparison `c` -/
def eqSpec (c sm am : Bool) : Bool :=
  match sm, am with
  | true, true => true
  | true, false => false
  | false, true => false
  | false, false => c

/-- `<`, `<=`, `>`, `>=`: False wherever either side is masked -/
def ordSpec (c sm am : Bool) : Bool :=
  match sm || am with
  | true => false
  | false => c

end PMV.Logic3
