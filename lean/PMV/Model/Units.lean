/-
  C12 view: the `Units` class of polymath/units.py and the way object arithmetic combines units.

  A `Units` value is its exponent triple (distance, time, angle) and its factor triple
  (numer, denom, pi_expo): the conversion factor to standard units (km, s, rad) is
  numer/denom · π^pi_expo.  The model is exact: numer and denom are natural numbers (the code keeps
  Python ints of unbounded size), pi_expo an integer.  Wherever the code leaves the exact domain
  (a float triple after `sqrt` of a non-square or of an odd power of π) the model answers `inexact`.

  Everything here is written branch for branch like the source; the doc comment of each
  definition names the lines.  Core Lean only.
-/
namespace PMV.Units

deriving instance DecidableEq for Except

/-- the exception classes the code raises on a units rejection -/
inductive Rej where
  | valueError | typeError
  deriving DecidableEq, Repr, Inhabited

/-! ### units.py:15-24 `gcd` -/

/-- `while b: a, b = b, a % b` with an explicit iteration bound -/
def gcdLoop : Nat → Nat → Nat → Nat
  | 0, a, _ => a
  | fuel + 1, a, b => if b = 0 then a else gcdLoop fuel b (a % b)

/-- units.py:15-24.  `b + 1` iterations always suffice (second component strictly decreases). -/
def pyGcd (a b : Nat) : Nat := gcdLoop (b + 1) a b

/-! ### the value -/

structure U where
  e0 : Int          -- distance exponent
  e1 : Int          -- time exponent
  e2 : Int          -- angle exponent
  numer : Nat
  denom : Nat
  piexp : Int
  deriving DecidableEq, Repr, Inhabited

/-- `self.exponents` -/
def U.exps (u : U) : Int × Int × Int := (u.e0, u.e1, u.e2)

/-- units.py:53-74, `Units.__init__` on an integer triple: scale both by 256, divide by the gcd,
    fall back to the raw pair if the reduced pair does not represent the same ratio. -/
def mk' (e0 e1 e2 : Int) (n d : Nat) (p : Int) : U :=
  let numer := n * 256
  let denom := d * 256
  let g := pyGcd numer denom
  let numer := numer / g
  let denom := denom / g
  if numer * d != denom * n then ⟨e0, e1, e2, n, d, p⟩
  else ⟨e0, e1, e2, numer, denom, p⟩

/-- a value the constructor can have produced from a positive integer triple -/
structure WF (u : U) : Prop where
  npos : 0 < u.numer
  dpos : 0 < u.denom
  cop : Nat.gcd u.numer u.denom = 1

/-! ### units.py:242-350 arithmetic -/

/-- units.py:243-250 `__mul__` (Units argument) -/
def mul (a b : U) : U :=
  mk' (a.e0 + b.e0) (a.e1 + b.e1) (a.e2 + b.e2) (a.numer * b.numer) (a.denom * b.denom) (a.piexp + b.piexp)

/-- units.py:270-277 `__truediv__` (Units argument) -/
def div (a b : U) : U :=
  mk' (a.e0 - b.e0) (a.e1 - b.e1) (a.e2 - b.e2) (a.numer * b.denom) (a.denom * b.numer) (a.piexp - b.piexp)

/-- units.py:255-256 `self * k` for a positive integer `k` -/
def mulNat (a : U) (k : Nat) : U := mul a (mk' 0 0 0 k 1 0)
/-- units.py:282-283 `self / k` for a positive integer `k` -/
def divNat (a : U) (k : Nat) : U := mul a (mk' 0 0 0 1 k 0)

/-- units.py:307-322 `__pow__` with an integer power (both branches) -/
def pow (a : U) (p : Int) : U :=
  if p > 0 then
    mk' (p * a.e0) (p * a.e1) (p * a.e2) (a.numer ^ p.toNat) (a.denom ^ p.toNat) (p * a.piexp)
  else
    mk' (p * a.e0) (p * a.e1) (p * a.e2) (a.denom ^ (-p).toNat) (a.numer ^ (-p).toNat) (p * a.piexp)

/-- units.py:287-294 `k / self` -/
def rdivNat (k : Nat) (a : U) : U := pow (divNat a k) (-1)

/-- outcome of an operation that may leave the exact domain -/
inductive Sq where
  | exact (u : U)
  | inexact            -- the code continues with a float triple
  deriving DecidableEq, Repr, Inhabited

/-- units.py:324-350 `sqrt` (repaired form: exact integer square roots, see DESIGN.d/C12.md).
    `ValueError` for an odd exponent; exact when numerator and denominator are perfect squares
    and the π exponent is even; otherwise the code builds a float triple. -/
def sqrt (a : U) : Except Rej Sq :=
  if a.e0 % 2 != 0 || a.e1 % 2 != 0 || a.e2 % 2 != 0 then .error .valueError
  else
    let rn := Nat.sqrt a.numer
    let rd := Nat.sqrt a.denom
    let pe := a.piexp / 2
    if rn * rn == a.numer && rd * rd == a.denom && a.piexp == 2 * pe then
      .ok (.exact (mk' (a.e0 / 2) (a.e1 / 2) (a.e2 / 2) rn rd pe))
    else .ok .inexact

/-- a power as the code classifies it: `half k2` is the number k2/2 (integer when k2 is even),
    `other` any real that is neither an integer nor a half-integer -/
inductive Pw where
  | half (k2 : Int)
  | other
  deriving DecidableEq, Repr, Inhabited

/-- units.py:296-322 `__pow__` on any real power -/
def powR (a : U) : Pw → Except Rej Sq
  | .other => .error .valueError
  | .half k2 =>
    if k2 % 2 == 0 then .ok (.exact (pow a (k2 / 2)))
    else match sqrt a with
      | .error e => .error e
      | .ok .inexact => .ok .inexact
      | .ok (.exact r) => .ok (.exact (pow r k2))

/-! ### units.py:110-177 compatibility tests (`None` = no units) -/

def unitless : U := ⟨0, 0, 0, 1, 1, 0⟩

/-- units.py:111-119 -/
def canMatch : Option U → Option U → Bool
  | none, _ => true
  | _, none => true
  | some a, some b => a.exps == b.exps

/-- units.py:129-140 (`None` is treated as unitless) -/
def doMatch (a b : Option U) : Bool :=
  (a.getD unitless).exps == (b.getD unitless).exps

/-- units.py:150-155 -/
def isAngle : Option U → Bool
  | none => true
  | some a => a.exps == (0, 0, 0) || a.exps == (0, 0, 1)

/-- units.py:165-170 -/
def isUnitless : Option U → Bool
  | none => true
  | some a => a.exps == (0, 0, 0)

def requireCompatible (a b : Option U) : Except Rej Unit :=
  if canMatch a b then .ok () else .error .valueError
def requireMatch (a b : Option U) : Except Rej Unit :=
  if doMatch a b then .ok () else .error .valueError
def requireAngle (a : Option U) : Except Rej Unit :=
  if isAngle a then .ok () else .error .valueError
def requireUnitless (a : Option U) : Except Rej Unit :=
  if isUnitless a then .ok () else .error .valueError

/-- units.py:418-430 `__eq__` / `__ne__` read exactly: equal exponents and equal factor.
    The code compares the float `factor`; numer/denom·π^piexp are equal as real numbers exactly when
    the reduced fractions and the π exponents agree (π is transcendental). -/
def eqU (a b : U) : Bool :=
  a.exps == b.exps && (a.numer * b.denom == b.numer * a.denom && a.piexp == b.piexp)

/-! ### units.py:215-236 `convert`: an exact factor (numer, denom, π exponent) -/

structure Factor where
  n : Nat
  d : Nat
  p : Int
  deriving DecidableEq, Repr, Inhabited

/-- units.py:215-236: `none` = the value is returned unmodified; otherwise the value is multiplied
    by n, divided by d and multiplied by π^p -/
def convert (a : U) (b : Option U) : Except Rej (Option Factor) :=
  let b := b.getD unitless
  if a.exps != b.exps then .error .valueError
  else if a.piexp == b.piexp && a.numer * b.denom == a.denom * b.numer then .ok none
  else .ok (some ⟨a.numer * b.denom, a.denom * b.numer, a.piexp - b.piexp⟩)

/-- units.py:76-80 `factor`, `factor_inv` as exact factors -/
def U.factor (u : U) : Factor := ⟨u.numer, u.denom, u.piexp⟩
def U.factorInv (u : U) : Factor := ⟨u.denom, u.numer, -u.piexp⟩

/-! ### units.py:357-412 static helpers used by object arithmetic
    (repaired form of defect 13: an operand is returned as it is, never renamed) -/

/-- units.py:357-370 -/
def mulUnits : Option U → Option U → Option U
  | a, none => a
  | none, some b => some b
  | some a, some b => some (mul a b)

/-- units.py:373-386 -/
def divUnits : Option U → Option U → Option U
  | a, none => a
  | none, some b => some (pow b (-1))
  | some a, some b => some (div a b)

/-- units.py:389-398; outer `none` = no units -/
def sqrtUnits : Option U → Except Rej (Option Sq)
  | none => .ok none
  | some a => match sqrt a with
    | .error e => .error e
    | .ok r => .ok (some r)

/-- units.py:401-412 -/
def unitsPower : Option U → Pw → Except Rej (Option Sq)
  | none, _ => .ok none
  | some a, p => match powR a p with
    | .error e => .error e
    | .ok r => .ok (some r)

/-! ### values over ℚ·π^k and the unit-changing object methods (qube.py:1773-1871) -/

/-- the number q·π^k -/
structure QPi where
  q : Rat
  k : Int
  deriving DecidableEq, Repr, Inhabited

/-- `factor * value` -/
def QPi.scale (f : Factor) (v : QPi) : QPi := ⟨v.q * (f.n : Rat) / (f.d : Rat), v.k + f.p⟩

/-- an object without derivatives: stored values (standard units) and its units -/
structure Leaf where
  vals : List QPi
  units : Option U
  deriving DecidableEq, Repr, Inhabited

/-- an object with its derivatives -/
structure Obj where
  vals : List QPi
  units : Option U
  derivs : List (String × Leaf)
  unitsOk : Bool            -- class attribute UNITS_OK
  deriving DecidableEq, Repr, Inhabited

/-- the float test `factor == 1.` read exactly -/
def Factor.isOne (f : Factor) : Bool := f.n == f.d && f.p == 0

/-- qube.py:1811-1842 on an object without derivatives (`deriv.into_units(recursive=False)`) -/
def Leaf.intoUnits (l : Leaf) : Leaf :=
  match l.units with
  | none => l
  | some u => if u.factorInv.isOne then l else { l with vals := l.vals.map (QPi.scale u.factorInv) }

/-- qube.py:1845-1871 on an object without derivatives -/
def Leaf.fromUnits (l : Leaf) : Leaf :=
  match l.units with
  | none => l
  | some u => if u.factor.isOne then l else { l with vals := l.vals.map (QPi.scale u.factor) }

/-- qube.py:1811-1842 `into_units(recursive=True)` -/
def Obj.intoUnits (o : Obj) : Obj :=
  match o.units with
  | none => o
  | some u =>
    if u.factorInv.isOne then o
    else { o with vals := o.vals.map (QPi.scale u.factorInv),
                  derivs := o.derivs.map fun kd => (kd.1, kd.2.intoUnits) }

/-- qube.py:1845-1871 `from_units(recursive=True)` -/
def Obj.fromUnits (o : Obj) : Obj :=
  match o.units with
  | none => o
  | some u =>
    if u.factor.isOne then o
    else { o with vals := o.vals.map (QPi.scale u.factor),
                  derivs := o.derivs.map fun kd => (kd.1, kd.2.fromUnits) }

/-- qube.py:1773-1793 `set_units` on a writable object -/
def Obj.setUnits (o : Obj) (u : Option U) : Except Rej Obj :=
  if !o.unitsOk && u.isSome then .error .typeError
  else if !canMatch u o.units then .error .valueError
  else .ok { o with units := u }

/-- qube.py:1796-1808 `without_units(recursive=True)`: `clone(recursive)` then `_units_ = None`.
    Stored values are kept; the (cloned) derivatives keep their values and lose their units as well
    (repaired: the pinned code left the derivatives' units in place, contrary to its docstring). -/
def Obj.withoutUnits (o : Obj) : Obj :=
  { o with units := none, derivs := o.derivs.map fun kd => (kd.1, { kd.2 with units := none }) }

/-! ### the cached derivative-free view and unit changes (qube.py:1354-1378, 1773-1793)

`x.wod` is a shallow clone without derivatives that carries its own copy of the units and is kept in the
object's cache; all derivative arithmetic goes through it.  `set_units` must therefore drop the cache. -/

/-- an object with its cache entry 'wod' -/
structure CObj where
  obj : Obj
  wodCache : Option Leaf
  deriving DecidableEq, Repr, Inhabited

/-- qube.py:1354-1378 the `wod` property: the view handed out, and the object with its cache filled -/
def CObj.wod (c : CObj) : Leaf × CObj :=
  if c.obj.derivs.isEmpty then (⟨c.obj.vals, c.obj.units⟩, c)            -- `return self`
  else match c.wodCache with
    | some w => (w, c)
    | none => (⟨c.obj.vals, c.obj.units⟩, { c with wodCache := some ⟨c.obj.vals, c.obj.units⟩ })

/-- anything that materialises the view (`x.wod`, a product, `norm()`, `dot()` …) -/
def CObj.touch (c : CObj) : CObj := c.wod.2

def CObj.touches : Nat → CObj → CObj
  | 0, c => c
  | n + 1, c => CObj.touches n c.touch

/-- qube.py:1773-1793 `set_units`, including `self._cache_.clear()` -/
def CObj.setUnits (c : CObj) (u : Option U) : Except Rej CObj :=
  match c.obj.setUnits u with
  | .error e => .error e
  | .ok o => .ok ⟨o, none⟩

/-- qube.py `clone()` (and `copy()`): a new object whose cache never contains the 'wod' entry -/
def CObj.clone (c : CObj) : CObj := ⟨c.obj, none⟩

/-- qube.py:1796-1808 `without_units`: `self` if there is nothing to strip, else a clone without units -/
def CObj.withoutUnits (c : CObj) : CObj :=
  if c.obj.units.isNone && c.obj.derivs.isEmpty then c else ⟨c.obj.withoutUnits, none⟩

/-- qube.py:1811-1842 `into_units`: `self` on the easy exits, else a clone with new values (empty cache) -/
def CObj.intoUnits (c : CObj) : CObj :=
  match c.obj.units with
  | none => c
  | some u => if u.factorInv.isOne then c else ⟨c.obj.intoUnits, none⟩

/-- qube.py:1845-1871 `from_units` -/
def CObj.fromUnits (c : CObj) : CObj :=
  match c.obj.units with
  | none => c
  | some u => if u.factor.isOne then c else ⟨c.obj.fromUnits, none⟩

/-- one step of a history of an object -/
inductive HOp where
  | touch                          -- anything that materialises the cached view
  | setUnits (u : Option U)
  | without | into | «from» | clone
  deriving DecidableEq, Repr, Inhabited

def CObj.step (c : CObj) : HOp → Except Rej CObj
  | .touch => .ok c.touch
  | .setUnits u => c.setUnits u
  | .without => .ok c.withoutUnits
  | .into => .ok c.intoUnits
  | .«from» => .ok c.fromUnits
  | .clone => .ok c.clone

/-- a whole history; the object each step returns is the one the next step works on -/
def CObj.run : List HOp → CObj → Except Rej CObj
  | [], c => .ok c
  | h :: hs, c => match c.step h with
    | .error e => .error e
    | .ok c' => CObj.run hs c'

/-! ### how each object operation treats units -/

inductive OpSym where
  | add | sub                      -- qube.py:2879-3090
  | lt | le | gt | ge              -- scalar.py:1352-1440
  | eq | ne                        -- qube.py:3836-3950
  | stack                          -- extensions/shaper.py:276-374
  | fromScalars                    -- qube.py:4795-4850 (Vector.from_scalars …)
  | arctan2                        -- scalar.py:505-553
  | mul | dot | cross | outer      -- qube.py:3264, math_ops.py:243,455,550
  | div                            -- qube.py:3441
  | normSq                         -- math_ops.py:357
  | norm                           -- math_ops.py:273-320 (units of the operand)
  | sqrt                           -- scalar.py:555-591
  | recip                          -- scalar.py:1302-1345, matrix.py:366
  | pow (p : Pw) (zeroD : Bool)    -- scalar.py:1527-1620; zeroD: both operands shapeless
  | sin | cos | tan | exp          -- need an angle (or a pure number)
  | arcsin | arccos | arctan       -- need a pure number; result is an angle without units
  | int | frac                     -- scalar.py:213,283: need a pure number
  | log                            -- scalar.py:593-630: no units test at all
  deriving DecidableEq, Repr, Inhabited

inductive RuleOut where
  | obj (u : Option U)     -- the result object carries these units (`none` = no units)
  | inexact                -- the result's units have a float triple
  | cmp                    -- Boolean result decided by the stored values
  | const (b : Bool)       -- `==` / `!=` answered without looking at the values
  deriving DecidableEq, Repr, Inhabited

def ofSq : Except Rej (Option Sq) → Except Rej RuleOut
  | .error e => .error e
  | .ok none => .ok (.obj none)
  | .ok (some (.exact u)) => .ok (.obj (some u))
  | .ok (some .inexact) => .ok .inexact

/-- `units = self._units_ or arg._units_` -/
def orUnits : Option U → Option U → Option U
  | some a, _ => some a
  | none, b => b

/-- scalar.py:1527-1620 `Scalar.__pow__` as far as units are concerned.
    Powers 0, 1, 2, 3, 4, -1, 1/2, -1/2 take the shortcuts of `_EASY_INT_POWERS`/`_EASY_FLOAT_POWERS`;
    every other power goes through the generic code (both routes share `_units_to_power` since the repair). -/
def powRule (p : Pw) (_zeroD : Bool) (a : Option U) : Except Rej RuleOut :=
  match p with
  | .half 0 => .ok (.obj none)                                     -- _power_0: `ones()` has no units
  | .half 2 => .ok (.obj a)                                        -- _power_1: self
  | .half 4 => ofSq (unitsPower a (.half 4))
  | .half 6 => ofSq (unitsPower a (.half 6))
  | .half 8 => ofSq (unitsPower a (.half 8))
  | .half (-2) => ofSq (unitsPower a (.half (-2)))                 -- reciprocal
  | .half 1 => ofSq (sqrtUnits a)                                  -- sqrt
  | .half (-1) =>                                                  -- sqrt().reciprocal()
    match sqrtUnits a with
    | .error e => .error e
    | .ok none => .ok (.obj none)
    | .ok (some .inexact) => .ok .inexact
    | .ok (some (.exact r)) => ofSq (unitsPower (some r) (.half (-2)))
  | p =>
    -- scalar.py `_units_to_power` (repaired: one rule for the rank-0 and the array route, `zeroD` no longer
    -- matters): the units are raised exactly; only where that is impossible may a pure number keep its units
    -- (`new_units = None`, then `example=self` restores self's units)
    match unitsPower a p with
    | .error e => if isUnitless a then .ok (.obj a) else .error e
    | r => ofSq r

/-- the units part of every unit-aware object operation: rejection, or what the result carries.
    Unary operations ignore `b`. -/
def unitsRule (op : OpSym) (a b : Option U) : Except Rej RuleOut :=
  match op with
  | .add | .sub =>
    if canMatch a b then .ok (.obj (orUnits a b)) else .error .valueError
  | .lt | .le | .gt | .ge =>
    if canMatch a b then .ok .cmp else .error .valueError
  | .eq => if canMatch a b then .ok .cmp else .ok (.const false)
  | .ne => if canMatch a b then .ok .cmp else .ok (.const true)
  | .stack =>
    -- the first operand that has units fixes them; later ones are confirmed with can_match
    if canMatch a b then .ok (.obj (orUnits a b)) else .error .valueError
  | .fromScalars =>
    -- repaired form (see DESIGN.d/C12.md): absent units match anything, as in stack()
    if canMatch a b then .ok (.obj (orUnits a b)) else .error .valueError
  | .arctan2 => if canMatch a b then .ok (.obj none) else .error .valueError
  | .mul | .dot | .cross | .outer => .ok (.obj (mulUnits a b))
  | .div => .ok (.obj (divUnits a b))
  | .normSq => .ok (.obj (mulUnits a a))
  | .norm => .ok (.obj a)
  | .sqrt => ofSq (sqrtUnits a)
  | .recip => ofSq (unitsPower a (.half (-2)))
  | .pow p z => powRule p z a
  | .sin | .cos | .tan | .exp => if isAngle a then .ok (.obj none) else .error .valueError
  | .arcsin | .arccos | .arctan | .int | .frac =>
    if isUnitless a then .ok (.obj none) else .error .valueError
  | .log => .ok (.obj none)

/-! ### n-ary combiners: every component's units are checked against a running value -/

/-- qube.py:4954-4966 `from_scalars` (Vector/Vector3/Pair/Matrix.from_scalars): the loop
    `new_units = new_units or scalar._units_; Units.require_compatible(new_units, scalar._units_)`
    with the running value `run` -/
def fromScalarsGo (run : Option U) : List (Option U) → Except Rej (Option U)
  | [] => .ok run
  | u :: us =>
    let run' := orUnits run u
    if canMatch run' u then fromScalarsGo run' us else .error .valueError

def fromScalarsN (us : List (Option U)) : Except Rej (Option U) := fromScalarsGo none us

/-- extensions/shaper.py:308-315 `stack`: `if arg._units_ is not None: if units is None: units = arg._units_
    else: arg.confirm_units(units)` -/
def stackGo (units : Option U) : List (Option U) → Except Rej (Option U)
  | [] => .ok units
  | none :: us => stackGo units us
  | some a :: us =>
    match units with
    | none => stackGo (some a) us
    | some r => if canMatch (some a) (some r) then stackGo (some r) us else .error .valueError

def stackN (us : List (Option U)) : Except Rej (Option U) := stackGo none us

/-! ### units of the derivatives of a result

Every object carries its derivatives as objects with units of their own.  The operations build the
derivative of a result from the operands' derivatives by the product / quotient / chain rule, using the
same unit-combining helpers as for the values (qube.py `_mul_derivs`, `_div_derivs`, `_add_derivs`;
math_ops.py dot/cross/outer/norm/norm_sq; scalar.py sqrt/reciprocal/`__pow__`; vector.py element_mul/div). -/

/-- the derivative of an operand under one key: absent (`none`), or present with these units -/
abbrev DU := Option (Option U)

/-- what the result's derivative under that key carries -/
inductive DOut where
  | absent                    -- the result has no derivative under the key
  | units (u : Option U)
  | inexact
  deriving DecidableEq, Repr, Inhabited

/-- units of `x + y`, `x - y`, `x += y`, `x -= y` (qube.py:2895-2912, 2945-2964): must match, the left ones win -/
def addU (a b : Option U) : Except Rej (Option U) :=
  if canMatch a b then .ok (orUnits a b) else .error .valueError

/-- `Units.units_power(u, -1)` on exact units -/
def recipU : Option U → Option U
  | none => none
  | some a => some (pow a (-1))

/-- second term added to / subtracted from a first one that may be absent -/
def addTerm (t1 : Option (Option U)) (t2 : Option U) : Except Rej DOut :=
  match t1 with
  | none => .ok (.units t2)
  | some t1 => match addU t1 t2 with
    | .error e => .error e
    | .ok u => .ok (.units u)

/-- qube.py `_mul_derivs`; math_ops.py dot / cross / outer; vector.py element_mul:
    d(xy) = dx·y.wod + x.wod·dy -/
def derivMul (a b : Option U) (da db : DU) : Except Rej DOut :=
  let t1 := da.map fun d => mulUnits d b
  match db with
  | none => .ok (match t1 with | none => .absent | some t => .units t)
  | some d => addTerm t1 (mulUnits a d)

/-- qube.py `_div_derivs`: d(x/y) = dx·(1/y) − x·(dy·(1/y)·(1/y)) -/
def derivDiv (a b : Option U) (da db : DU) : Except Rej DOut :=
  let inv := recipU b
  let t1 := da.map fun d => mulUnits d inv
  match db with
  | none => .ok (match t1 with | none => .absent | some t => .units t)
  | some d => addTerm t1 (mulUnits a (mulUnits (mulUnits d inv) inv))

/-- vector.py:696-718 `element_div`: dx·(1/y) − dy·(x·y⁻²)  (repaired: the factor y⁻² has units y⁻²) -/
def derivElemDiv (a b : Option U) (da db : DU) : Except Rej DOut :=
  let t1 := da.map fun d => mulUnits d (recipU b)
  match db with
  | none => .ok (match t1 with | none => .absent | some t => .units t)
  | some d =>
    let inv2 : Option U := match b with | none => none | some b => some (pow b (-2))
    addTerm t1 (mulUnits d (mulUnits a inv2))

def outUnits : Except Rej RuleOut → Except Rej (Option (Option U))
  | .error e => .error e
  | .ok (.obj u) => .ok (some u)
  | .ok _ => .ok none          -- inexact

/-- `factor * deriv` where the factor's units come out of another rule -/
def timesFactor (f : Except Rej RuleOut) (da : DU) : Except Rej DOut :=
  match da with
  | none => .ok .absent
  | some d => match outUnits f with
    | .error e => .error e
    | .ok none => .ok .inexact
    | .ok (some fu) => .ok (.units (mulUnits fu d))

/-- scalar.py:555-591 `sqrt`: factor = 0.5 / result, derivative = factor * deriv -/
def derivSqrt (a : Option U) (da : DU) : Except Rej DOut :=
  match ofSq (sqrtUnits a) with
  | .error e => .error e
  | .ok (.obj r) => timesFactor (.ok (.obj (recipU r))) da
  | .ok _ => .ok (match da with | none => .absent | some _ => .inexact)

/-- scalar.py:1302-1345 `reciprocal`: factor = −result·result -/
def derivRecip (a : Option U) (da : DU) : Except Rej DOut :=
  timesFactor (.ok (.obj (mulUnits (recipU a) (recipU a)))) da

/-- scalar.py:1455-1620 `__pow__` with derivatives, following the same routes as `powRule` -/
def derivPow (p : Pw) (zeroD : Bool) (a : Option U) (da : DU) : Except Rej DOut :=
  match powRule p zeroD a with
  | .error e => .error e
  | .ok _ =>
    match p with
    | .half 0 => .ok (match da with | none => .absent | some _ => .units none)   -- `deriv.zeros(...)`: no units
    | .half 2 => .ok (match da with | none => .absent | some d => .units d)     -- self
    | .half 4 => timesFactor (.ok (.obj a)) da                                  -- 2·x.wod
    | .half 6 => timesFactor (ofSq (unitsPower a (.half 4))) da                -- 3·x², units_power(u, 2)
    | .half 8 => timesFactor (ofSq (unitsPower a (.half 6))) da                -- 4·x³, units_power(u, 3)
    | .half (-2) => derivRecip a da
    | .half 1 => derivSqrt a da
    | .half (-1) =>                                                             -- sqrt().reciprocal()
      match ofSq (sqrtUnits a), derivSqrt a da with
      | .error e, _ => .error e
      | _, .error e => .error e
      | .ok (.obj r), .ok (.units d1) => derivRecip r (some d1)
      | .ok (.obj _), .ok .absent => .ok .absent
      | _, _ => .ok (match da with | none => .absent | some _ => .inexact)
    | .other => timesFactor (powRule .other zeroD a) da     -- expo − 1 is again neither integer nor half-integer
    | .half k2 => timesFactor (powRule (.half (k2 - 2)) zeroD a) da               -- expo · x**(expo−1)

inductive DOp where
  | mulLike | div | elemDiv | sqrt | recip | norm | normSq
  | pow (p : Pw) (zeroD : Bool)
  deriving DecidableEq, Repr, Inhabited

/-- units of the result's derivative for each operation that builds derivatives -/
def derivRule (op : DOp) (a b : Option U) (da db : DU) : Except Rej DOut :=
  match op with
  | .mulLike => derivMul a b da db
  | .div => derivDiv a b da db
  | .elemDiv => derivElemDiv a b da db
  | .sqrt => derivSqrt a da
  | .recip => derivRecip a da
  | .norm => timesFactor (.ok (.obj (divUnits a a))) da          -- factor = x.wod / norm, then dot(factor, dx)
  | .normSq => timesFactor (.ok (.obj a)) da                     -- factor = 2·x.wod
  | .pow p z => derivPow p z a da

/-! ### units.py:452-520 the name algebra on dictionaries

A name is `None`, a string or a dictionary {unit name: exponent}.  The harness hands the model the
dictionary form (`name_to_dict` of a plain name is `{name: 1}`, of the empty string `{}`); the string
parser itself is not modelled.  Dictionaries are association lists in insertion order. -/

abbrev NameDict := List (String × Int)

/-- `new_name[key]` / `key in new_name` -/
def ndGet (d : NameDict) (k : String) : Option Int := (d.find? (fun kv => kv.1 == k)).map (·.2)

/-- `new_name[key] = v` (an existing key keeps its position, a new key is appended) -/
def ndSet (d : NameDict) (k : String) (v : Int) : NameDict :=
  if (ndGet d k).isSome then d.map (fun kv => if kv.1 == k then (k, v) else kv) else d ++ [(k, v)]

/-- `new_name.pop(key, None)` (repaired form of `del new_name[key]`: the key may be absent) -/
def ndPop (d : NameDict) (k : String) : NameDict := d.filter (fun kv => !(kv.1 == k))

/-- one iteration of the loop of units.py:462-469 -/
def mulStep (acc : NameDict) (kv : String × Int) : NameDict :=
  let expo := match ndGet acc kv.1 with
    | some x => kv.2 + x
    | none => kv.2
  if expo == 0 then ndPop acc kv.1 else ndSet acc kv.1 expo

/-- one iteration of the loop of units.py:483-490 (`expo -= new_name[key]` … `new_name[key] = -expo`) -/
def divStep (acc : NameDict) (kv : String × Int) : NameDict :=
  let expo := match ndGet acc kv.1 with
    | some x => kv.2 - x
    | none => kv.2
  if expo == 0 then ndPop acc kv.1 else ndSet acc kv.1 (-expo)

/-- units.py:453-471 `mul_names` -/
def mulNames : Option NameDict → Option NameDict → Option NameDict
  | some a, some b => some (b.foldl mulStep a)
  | _, _ => none

/-- units.py:474-492 `div_names` -/
def divNames : Option NameDict → Option NameDict → Option NameDict
  | some a, some b => some (b.foldl divStep a)
  | _, _ => none

/-- units.py:511-518: one entry of `name_power` with the power k2/2 (`none` = ValueError) -/
def powEntry (k2 : Int) (kv : String × Int) : Option (String × Int) :=
  if (kv.2 * k2) % 2 == 0 then some (kv.1, kv.2 * k2 / 2) else none

/-- units.py:495-520 `name_power` with the power k2/2: every exponent times the power must be an
    integer, else ValueError; zero exponents are kept -/
def namePower : Option NameDict → Int → Except Rej (Option NameDict)
  | none, _ => .ok none
  | some a, k2 =>
    match a.mapM (powEntry k2) with
    | some r => .ok (some r)
    | none => .error .valueError

/-- the name `Units.sqrt` gives its result (repaired: a name without a square root is dropped) -/
def sqrtName (a : Option NameDict) : Option NameDict :=
  match namePower a 1 with
  | .ok r => r
  | .error _ => none

end PMV.Units
