import PMV.Model.Num
/-
  C06 — the derivative formulas of polymath, written as the source computes them.
  Mathlib-free, polymorphic in `[Num K]`; the driver runs the `Float` instance, the theorems
  (Props/C06.lean) are about the `ℝ` instance.

  One *key* (one derivative name, one denominator component) is modelled at a time: the derivative
  of an operand is `Option K` — `none` when the operand does not carry the key.  The key-set
  merges of `_add_derivs`, `_sub_derivs`, `_mul_derivs`, `_div_derivs` are therefore the
  `Option` case splits below (union of the key sets; an absent key is *not* padded with a zero by
  the source, and is not here).

  Layer 1 (this file, first half): scalar derivative clauses `d…` and the expression language `E`
  with `E.val`, `E.der`, `E.ok`.
  Layer 2 (second half): the vector / matrix / quaternion formulas of the source on tuples
  (`Val`), and their expansion into component expressions of layer 1.
-/
namespace PMV.Dual
open PMV Num

variable {K : Type} [Num K]

/-! ### derivative clauses, as written in the source -/

/-- qube.py:2971-2988 `_add_derivs`: keys of both → sum; keys of one → that derivative -/
def dAdd : Option K → Option K → Option K
  | some x, some y => some (x + y)
  | some x, none => some x
  | none, some y => some y
  | none, none => none

/-- qube.py:3091-3108 `_sub_derivs`: a key only on the right → negated -/
def dSub : Option K → Option K → Option K
  | some x, some y => some (x - y)
  | some x, none => some x
  | none, some y => some (-y)
  | none, none => none

/-- qube.py:3272-3290 `_mul_derivs`: `self_deriv * arg_wod`, then `+ self_wod * arg_deriv` -/
def dMul (a : K) (da : Option K) (b : K) (db : Option K) : Option K :=
  match da, db with
  | some x, some y => some (x * b + a * y)
  | some x, none => some (x * b)
  | none, some y => some (a * y)
  | none, none => none

/-- qube.py:3450-3479 `_div_derivs`: `arg_wod_inv = 1/arg`; `self_deriv * arg_wod_inv`;
    `term = self_wod * (arg_deriv * arg_wod_inv*arg_wod_inv)` subtracted (or negated) -/
def dDiv (a : K) (da : Option K) (b : K) (db : Option K) : Option K :=
  let inv : K := one / b
  match da, db with
  | some x, some y => some (x * inv - a * (y * inv * inv))
  | some x, none => some (x * inv)
  | none, some y => some (-(a * (y * inv * inv)))
  | none, none => none

/-- the common shape `obj.insert_deriv(key, factor * deriv)` (scalar.py:327-330 and siblings) -/
def dFac (factor : K) (d : Option K) : Option K := d.map fun x => factor * x

/-- `deriv * factor` (qube.py:2860 abs, scalar.py:660 exp, `_mul_by_number`) -/
def dFacR (factor : K) (d : Option K) : Option K := d.map fun x => x * factor

/-- scalar.py:515-548 `arctan2`: `x.wod * denom_inv * y_deriv`, then `-= y.wod * denom_inv * x_deriv` -/
def dAtan2 (y : K) (dy : Option K) (x : K) (dx : Option K) : Option K :=
  let denomInv : K := one / (x * x + y * y)
  match dy, dx with
  | some p, some q => some (x * denomInv * p - y * denomInv * q)
  | some p, none => some (x * denomInv * p)
  | none, some q => some (-(y * denomInv * q))
  | none, none => none

/-! ### scalar expressions -/

/-- Scalar-valued expression trees over operand elements.  `var i` is operand element `i`
    (value `env i`, derivative `denv i`, `none` if that operand lacks the key, unmasked iff `um i`). -/
inductive E (K : Type) where
  | var (i : Nat)
  /-- a Python number appearing in the program (no derivative, never masked) -/
  | lit (c : K)
  | add (a b : E K)
  | sub (a b : E K)
  | mul (a b : E K)
  | div (a b : E K)
  | neg (a : E K)
  | abs (a : E K)
  /-- `obj * c` / `c * obj` for a Python number: `_mul_by_number` (qube.py:3226-3237) -/
  | scale (c : K) (a : E K)
  /-- `obj / c` for a Python number: `_div_by_number` (qube.py:3403-3420) -/
  | divn (a : E K) (c : K)
  /-- `Scalar.reciprocal` (scalar.py:1301-1343) -/
  | recip (a : E K)
  /-- `x ** 0`, `x ** 2`, `x ** 3`, `x ** 4`: scalar.py:1463-1508 (powers 1, -1, ±0.5 are the
      identity, `recip`, `sqrt`, `recip ∘ sqrt` — `Scalar._EASY_INT_POWERS`) -/
  | pow0 (a : E K)
  | pow2 (a : E K)
  | pow3 (a : E K)
  | pow4 (a : E K)
  /-- `x ** n` for another Python integer: generic clause scalar.py:1540-1621 -/
  | powi (n : Int) (a : E K)
  /-- `x ** p` for a Python float: same clause -/
  | powg (p : K) (a : E K)
  | sin (a : E K)
  | cos (a : E K)
  | tan (a : E K)
  | asin (a : E K)
  | acos (a : E K)
  | atan (a : E K)
  | exp (a : E K)
  | log (a : E K)
  | sqrt (a : E K)
  /-- `y.arctan2(x)` -/
  | atan2 (y x : E K)
  /-- `x.sign().mask_where_eq(0, 1, remask=False)` (vector.py:529, scalar.py:703-740): -1 or +1, carries no
      derivatives -/
  | sgn (a : E K)
  /-- `(sign < 0.)` used as a number (vector.py:533): 1 where negative, else 0; no derivatives -/
  | isneg (a : E K)
  deriving Inhabited

namespace E

/-- the values polymath computes (NumPy calls of the source, element by element) -/
def val : E K → (Nat → K) → K
  | var i, env => env i
  | lit c, _ => c
  | add a b, env => a.val env + b.val env
  | sub a b, env => a.val env - b.val env
  | mul a b, env => a.val env * b.val env
  | div a b, env => a.val env / b.val env
  | neg a, env => -(a.val env)
  | abs a, env => Num.abs (a.val env)
  | scale c a, env => a.val env * c
  | divn a c, env => a.val env / c
  | recip a, env => one / a.val env
  | pow0 _, _ => one
  | pow2 a, env => a.val env * a.val env
  | pow3 a, env => a.val env * (a.val env * a.val env)
  | pow4 a, env => (a.val env * a.val env) * (a.val env * a.val env)
  | powi n a, env => Num.pow (a.val env) (ofInt n)
  | powg p a, env => Num.pow (a.val env) p
  | sin a, env => Num.sin (a.val env)
  | cos a, env => Num.cos (a.val env)
  | tan a, env => Num.tan (a.val env)
  | asin a, env => Num.asin (a.val env)
  | acos a, env => Num.acos (a.val env)
  | atan a, env => Num.atan (a.val env)
  | exp a, env => Num.exp (a.val env)
  | log a, env => Num.log (a.val env)
  | sqrt a, env => Num.sqrt (a.val env)
  | atan2 y x, env => Num.atan2 (y.val env) (x.val env)
  | sgn a, env => if lt (a.val env) zero then ofInt (-1) else one
  | isneg a, env => if lt (a.val env) zero then one else zero

/-- the derivative polymath attaches for the key, formula by formula -/
def der : E K → (Nat → K) → (Nat → Option K) → Option K
  | var i, _, denv => denv i
  | lit _, _, _ => none
  | add a b, env, denv => dAdd (a.der env denv) (b.der env denv)
  | sub a b, env, denv => dSub (a.der env denv) (b.der env denv)
  | mul a b, env, denv => dMul (a.val env) (a.der env denv) (b.val env) (b.der env denv)
  | div a b, env, denv => dDiv (a.val env) (a.der env denv) (b.val env) (b.der env denv)
  -- qube.py:2834-2846: `-deriv`
  | neg a, env, denv => (a.der env denv).map fun x => -x
  -- qube.py:2848-2863: `deriv * sign`
  | abs a, env, denv => dFacR (sign (a.val env)) (a.der env denv)
  | scale c a, env, denv => dFacR c (a.der env denv)
  | divn a c, env, denv => (a.der env denv).map fun x => x / c
  -- scalar.py:1337-1341: `factor = -obj*obj`
  | recip a, env, denv => let obj : K := one / a.val env; dFac (-(obj * obj)) (a.der env denv)
  -- scalar.py:1463-1471: zeros
  | pow0 a, env, denv => (a.der env denv).map fun _ => zero
  -- scalar.py:1476-1485: `factor = 2. * self.wod`
  | pow2 a, env, denv => dFac (two * a.val env) (a.der env denv)
  -- scalar.py:1487-1497: `3. * x_sq`
  | pow3 a, env, denv => dFac (ofInt 3 * (a.val env * a.val env)) (a.der env denv)
  -- scalar.py:1499-1509: `4. * x_sq * self._values_`
  | pow4 a, env, denv => dFac (ofInt 4 * (a.val env * a.val env) * a.val env) (a.der env denv)
  -- scalar.py:1615-1619: `factor = expo * self.__pow__(expo-1, recursive=False)`
  | powi n a, env, denv => dFac (ofInt n * Num.pow (a.val env) (ofInt (n - 1))) (a.der env denv)
  | powg p a, env, denv => dFac (p * Num.pow (a.val env) (p - one)) (a.der env denv)
  -- scalar.py:326-330
  | sin a, env, denv => dFac (Num.cos (a.val env)) (a.der env denv)
  -- scalar.py:348-352: `factor = -self.wod.sin()`
  | cos a, env, denv => dFac (-(Num.sin (a.val env))) (a.der env denv)
  -- scalar.py:371-375: `inv_sec_sq = self.wod.cos()**(-2)`
  | tan a, env, denv => dFac (Num.pow (Num.cos (a.val env)) (ofInt (-2))) (a.der env denv)
  -- scalar.py:423-427: `(1. - self.wod**2)**(-0.5)`; `**(-0.5)` is `sqrt().reciprocal()` (scalar.py:1522)
  | asin a, env, denv => dFac (one / Num.sqrt (one - a.val env * a.val env)) (a.der env denv)
  -- scalar.py:477-481
  | acos a, env, denv => dFac (-(one / Num.sqrt (one - a.val env * a.val env))) (a.der env denv)
  -- scalar.py:500-504: `1. / (1. + self.wod**2)`
  | atan a, env, denv => dFac (one / (one + a.val env * a.val env)) (a.der env denv)
  -- scalar.py:698-701: `factor * deriv` with `factor = Scalar(exp_values, …)`
  | exp a, env, denv => dFac (Num.exp (a.val env)) (a.der env denv)
  -- scalar.py:624-627: `deriv / no_negs`
  | log a, env, denv => (a.der env denv).map fun x => x / a.val env
  -- scalar.py:591-595: `factor = 0.5 / obj` (computed as `obj.reciprocal() * 0.5`)
  | sqrt a, env, denv => dFac (one / Num.sqrt (a.val env) * half) (a.der env denv)
  | atan2 y x, env, denv => dAtan2 (y.val env) (y.der env denv) (x.val env) (x.der env denv)
  | sgn _, _, _ => none
  | isneg _, _, _ => none

/-- "value and derivative are left unmasked": every operand element used is unmasked and no
    operation on the way masks its result or the derivative it attaches.
    (div, recip: `mask_where_eq(0)`; sqrt: value masked below 0 and the factor `0.5/obj` masked at 0;
    log: `mask_where_le(0)`; arcsin/arccos: value masked outside [-1,1], factor masked at ±1;
    tan: `cos**(-2)` masked where it is infinite; arctan2: `reciprocal()` of `x²+y²` masked at 0.)
    For `abs` (at 0), `arctan2` (on the cut `y = 0, x < 0`) and `x ** p` the source masks nothing
    although no derivative exists; these points are excluded here as *non-smooth* — see the report. -/
def ok : E K → (Nat → K) → (Nat → Bool) → Bool
  | var i, _, um => um i
  | lit _, _, _ => true
  | add a b, env, um => a.ok env um && b.ok env um
  | sub a b, env, um => a.ok env um && b.ok env um
  | mul a b, env, um => a.ok env um && b.ok env um
  | div a b, env, um => a.ok env um && b.ok env um && nz (b.val env)
  | neg a, env, um => a.ok env um
  | abs a, env, um => a.ok env um && nz (a.val env)
  | scale _ a, env, um => a.ok env um
  | divn a c, env, um => a.ok env um && nz c
  | recip a, env, um => a.ok env um && nz (a.val env)
  | pow0 a, env, um => a.ok env um
  | pow2 a, env, um => a.ok env um
  | pow3 a, env, um => a.ok env um
  | pow4 a, env, um => a.ok env um
  | powi n a, env, um => a.ok env um && (nz (a.val env) || decide (1 ≤ n))
  | powg _ a, env, um => a.ok env um && lt zero (a.val env)
  | sin a, env, um => a.ok env um
  | cos a, env, um => a.ok env um
  | tan a, env, um => a.ok env um && nz (Num.cos (a.val env))
  | asin a, env, um => a.ok env um && lt (ofInt (-1)) (a.val env) && lt (a.val env) one
  | acos a, env, um => a.ok env um && lt (ofInt (-1)) (a.val env) && lt (a.val env) one
  | atan a, env, um => a.ok env um
  | exp a, env, um => a.ok env um
  | log a, env, um => a.ok env um && lt zero (a.val env)
  | sqrt a, env, um => a.ok env um && lt zero (a.val env)
  | atan2 y x, env, um => y.ok env um && x.ok env um && (lt zero (x.val env) || nz (y.val env))
  | sgn a, env, um => a.ok env um && nz (a.val env)
  | isneg a, env, um => a.ok env um && nz (a.val env)

/-- the operand elements whose derivatives reach the result -/
def vars : E K → List Nat
  | var i => [i]
  | lit _ => []
  | add a b | sub a b | mul a b | div a b | atan2 a b => a.vars ++ b.vars
  | neg a | abs a | scale _ a | divn a _ | recip a | pow0 a | pow2 a | pow3 a | pow4 a | powi _ a
  | powg _ a | sin a | cos a | tan a | asin a | acos a | atan a | exp a | log a | sqrt a => a.vars
  -- `sign()` returns an object without derivatives: nothing below it reaches the result's key set
  | sgn _ | isneg _ => []

end E

/-! ### Layer 2: items (vectors, matrices, quaternions) with the source's own derivative formulas

  A `Val` is one array element of a polymath object: its item components in row-major order, the
  derivative item for the key (`none`: key absent on the whole object), and the unmasked flag.
  Every operation below transcribes the formula of the source at the level the source writes it
  (`Qube.dot(arg1_deriv, arg2_wod) + Qube.dot(arg1_wod, arg2_deriv)` etc.); the component
  expansions into layer-1 expressions, and the theorems that both agree, are in Props/C06.lean. -/

structure Val (K : Type) where
  v : List K
  d : Option (List K)
  ok : Bool
  deriving Inhabited

def zipAdd (a b : List K) : List K := List.zipWith (· + ·) a b
def zipSub (a b : List K) : List K := List.zipWith (· - ·) a b
def zipMul (a b : List K) : List K := List.zipWith (· * ·) a b

/-- `np.sum(..., axis=-1)` over a short lane: left to right -/
def sumL : List K → K
  | [] => zero
  | x :: xs => xs.foldl (· + ·) x

/-- `np.sum(array1 * array2, axis=-1)` (math_ops.py:236) -/
def dotV (a b : List K) : K := sumL (zipMul a b)

/-- key merge of `+=` on derivative items (math_ops.py:259-262 and siblings) -/
def mergeAdd : Option (List K) → Option (List K) → Option (List K)
  | some x, some y => some (zipAdd x y)
  | some x, none => some x
  | none, some y => some y
  | none, none => none

/-- the bilinear pattern shared by `dot`, `cross`, `outer`, `element_mul`, matrix and quaternion
    products: `B(self_deriv, arg_wod)`, then `+= B(self_wod, arg_deriv)` -/
def bilin (B : List K → List K → List K) (a b : Val K) : Val K :=
  ⟨B a.v b.v, mergeAdd (a.d.map fun da => B da b.v) (b.d.map fun db => B a.v db), a.ok && b.ok⟩

/-- structure-preserving maps (`transpose_numer`, `extract_numer`, `slice_numer`, `conj`, unary minus):
    the same map on the derivative item -/
def linmap (L : List K → List K) (a : Val K) : Val K := ⟨L a.v, a.d.map L, a.ok⟩

namespace Val

/-- an operand element: components `env idx`, derivative item `denv idx` when every component has one -/
def opd (idx : List Nat) (env : Nat → K) (denv : Nat → Option K) (um : Nat → Bool) : Val K :=
  ⟨idx.map env, idx.mapM denv, idx.all um⟩

/-- qube.py `__add__` + `_add_derivs` on items -/
def add (a b : Val K) : Val K := ⟨zipAdd a.v b.v, mergeAdd a.d b.d, a.ok && b.ok⟩

/-- qube.py `__sub__` + `_sub_derivs` on items -/
def sub (a b : Val K) : Val K :=
  ⟨zipSub a.v b.v,
   match a.d, b.d with
   | some x, some y => some (zipSub x y)
   | some x, none => some x
   | none, some y => some (y.map fun t => -t)
   | none, none => none,
   a.ok && b.ok⟩

def neg (a : Val K) : Val K := linmap (fun l => l.map fun t => -t) a

/-- `_mul_by_number` -/
def nscale (c : K) (a : Val K) : Val K := linmap (fun l => l.map fun t => t * c) a

/-- `_div_by_number` -/
def ndiv (a : Val K) (c : K) : Val K := ⟨a.v.map fun t => t / c, a.d.map fun l => l.map fun t => t / c, a.ok && nz c⟩

/-- `_mul_by_scalar` + `_mul_derivs` (qube.py:3240-3290): item times Scalar -/
def smul (a s : Val K) : Val K :=
  let sv := s.v.headD zero
  ⟨a.v.map fun t => t * sv,
   match a.d, s.d.map (·.headD zero) with
   | some x, some ds => some (zipAdd (x.map fun t => t * sv) (a.v.map fun t => t * ds))
   | some x, none => some (x.map fun t => t * sv)
   | none, some ds => some (a.v.map fun t => t * ds)
   | none, none => none,
   a.ok && s.ok⟩

/-- `_div_by_scalar` + `_div_derivs` (qube.py:3423-3479): item divided by Scalar -/
def sdiv (a s : Val K) : Val K :=
  let sv := s.v.headD zero
  let inv : K := one / sv
  ⟨a.v.map fun t => t / sv,
   match a.d, s.d.map (·.headD zero) with
   | some x, some ds => some (zipSub (x.map fun t => t * inv) (a.v.map fun t => t * (ds * inv * inv)))
   | some x, none => some (x.map fun t => t * inv)
   | none, some ds => some (a.v.map fun t => -(t * (ds * inv * inv)))
   | none, none => none,
   a.ok && s.ok && nz sv⟩

/-- a scalar function of one Scalar: the layer-1 clause `f` (a template over `var 0`) -/
def sc1 (f : E K) (a : Val K) : Val K :=
  let env := fun _ : Nat => a.v.headD zero
  let denv := fun _ : Nat => a.d.bind (·.head?)
  ⟨[f.val env], (f.der env denv).map fun t => [t], f.ok env (fun _ => a.ok)⟩

/-- a scalar function of two Scalars: template over `var 0`, `var 1` -/
def sc2 (f : E K) (a b : Val K) : Val K :=
  let env := fun i : Nat => if i = 0 then a.v.headD zero else b.v.headD zero
  let denv := fun i : Nat => if i = 0 then a.d.bind (·.head?) else b.d.bind (·.head?)
  ⟨[f.val env], (f.der env denv).map fun t => [t], f.ok env (fun i => if i = 0 then a.ok else b.ok)⟩

/-- `Qube.dot` on two vectors (math_ops.py:160-270) -/
def dot (a b : Val K) : Val K := bilin (fun x y => [dotV x y]) a b

/-- `Qube.norm_sq` (math_ops.py:330-372): `factor = 2.*arg.wod`, `dot(factor, deriv)` -/
def normSq (a : Val K) : Val K :=
  ⟨[sumL (a.v.map fun t => t * t)], a.d.map (fun da => [dotV (a.v.map fun t => t * two) da]), a.ok⟩

/-- `Qube.norm` (math_ops.py:273-318): `factor = arg.wod / obj`, `dot(factor, deriv)`;
    the factor is masked where the norm is 0 -/
def norm (a : Val K) : Val K :=
  let n := Num.sqrt (sumL (a.v.map fun t => t * t))
  ⟨[n], a.d.map (fun da => [dotV (a.v.map fun t => t / n) da]), a.ok && nz n⟩

/-- `cross_3x3` (math_ops.py:480-492) -/
def cross3V (a b : List K) : List K :=
  match a, b with
  | [a0, a1, a2], [b0, b1, b2] => [a1 * b2 - a2 * b1, a2 * b0 - a0 * b2, a0 * b1 - a1 * b0]
  | _, _ => []

/-- `cross_2x2` (math_ops.py:494-504) -/
def cross2V (a b : List K) : List K :=
  match a, b with
  | [a0, a1], [b0, b1] => [a0 * b1 - a1 * b0]
  | _, _ => []

def cross3 (a b : Val K) : Val K := bilin cross3V a b
def cross2 (a b : Val K) : Val K := bilin cross2V a b

/-- `Qube.outer` (math_ops.py:507-575): all products `a_i * b_j`, row-major -/
def outerV (a b : List K) : List K := a.flatMap fun x => b.map fun y => x * y
def outer (a b : Val K) : Val K := bilin outerV a b

/-- `Vector.element_mul` (vector.py:580-643) -/
def emul (a b : Val K) : Val K := bilin zipMul a b

/-- `Vector.element_div` (vector.py:646-723): `self_deriv.element_mul(1/divisor)`,
    `-= arg_deriv.element_mul(self.wod.element_mul(divisor**(-2)))`; zeros in the divisor are masked -/
def ediv (a b : Val K) : Val K :=
  let inv := b.v.map fun t => one / t
  let factor := zipMul a.v (b.v.map fun t => Num.pow t (ofInt (-2)))
  ⟨List.zipWith (· / ·) a.v b.v,
   match a.d, b.d with
   | some x, some y => some (zipSub (zipMul x inv) (zipMul y factor))
   | some x, none => some (zipMul x inv)
   | none, some y => some ((zipMul y factor).map fun t => -t)
   | none, none => none,
   a.ok && b.ok && b.v.all nz⟩

/-- `extract_numer` / `to_scalar(i)` / matrix `to_scalar(i,j)` on a flattened item -/
def comp (i : Nat) (a : Val K) : Val K := linmap (fun l => [l.getD i zero]) a

/-- `slice_numer` on a flattened item: components `i ≤ k < j` -/
def slice (i j : Nat) (a : Val K) : Val K := linmap (fun l => (l.drop i).take (j - i)) a

/-- `from_scalars` / `from_parts` (qube.py:4750-4880, quaternion.py:60-119): concatenate components;
    the key set is the union, a part lacking the key contributes zeros -/
def cat (a b : Val K) : Val K :=
  ⟨a.v ++ b.v,
   match a.d, b.d with
   | some x, some y => some (x ++ y)
   | some x, none => some (x ++ b.v.map fun _ => zero)
   | none, some y => some ((a.v.map fun _ => zero) ++ y)
   | none, none => none,
   a.ok && b.ok⟩

/-- `Qube.stack` (shaper.py:236-330): the stacked object has the union of the keys; an argument that
    lacks a key contributes zeros.  `widen a b` is `a`'s element seen inside a stack that also holds `b`. -/
def widen (a b : Val K) : Val K :=
  ⟨a.v, match a.d, b.d with
        | none, some _ => some (a.v.map fun _ => zero)
        | d, _ => d,
   a.ok⟩

/-- rows of a row-major `m × n` item -/
def rows (n : Nat) : Nat → List K → List (List K)
  | 0, _ => []
  | m + 1, l => l.take n :: rows n m (l.drop n)

def col (n j : Nat) (m : Nat) (l : List K) : List K := (rows n m l).map fun r => r.getD j zero

/-- `Qube.dot(self, arg, -1, 0)` for an `m×k` item times a `k×n` item (a vector is `k×1`):
    entry `(i,j)` is `np.sum(row_i * col_j)` -/
def matmulV (m k n : Nat) (a b : List K) : List K :=
  (rows k m a).flatMap fun r => (List.range n).map fun j => dotV r (col n j k b)

def matmul (m k n : Nat) (a b : Val K) : Val K := bilin (matmulV m k n) a b

/-- `transpose_numer(0,1)` of a row-major `m × n` item -/
def transposeV (m n : Nat) (a : List K) : List K :=
  (List.range n).flatMap fun j => col n j m a

def transpose (m n : Nat) (a : Val K) : Val K := linmap (transposeV m n) a

/-- determinant and inverse of 2×2 / 3×3 by cofactors (the source calls `np.linalg.inv`; LAPACK is a
    contract: it returns the inverse up to rounding) -/
def det2 : List K → K
  | [a, b, c, d] => a * d - b * c
  | _ => zero
def inv2V : List K → List K
  | [a, b, c, d] => let dt := a * d - b * c; [d / dt, -b / dt, -c / dt, a / dt]
  | _ => []
def det3 : List K → K
  | [a, b, c, d, e, f, g, h, i] => a * (e * i - f * h) - b * (d * i - f * g) + c * (d * h - e * g)
  | _ => zero
def inv3V : List K → List K
  | [a, b, c, d, e, f, g, h, i] =>
    let dt := a * (e * i - f * h) - b * (d * i - f * g) + c * (d * h - e * g)
    [(e * i - f * h) / dt, (c * h - b * i) / dt, (b * f - c * e) / dt,
     (f * g - d * i) / dt, (a * i - c * g) / dt, (c * d - a * f) / dt,
     (d * h - e * g) / dt, (b * g - a * h) / dt, (a * e - b * d) / dt]
  | _ => []

/-- `Matrix.inverse` (matrix.py:321-378): derivative `-obj * deriv * obj`; singular matrices masked -/
def inverse (n : Nat) (a : Val K) : Val K :=
  let (iv, dt) := if n = 2 then (inv2V a.v, det2 a.v) else (inv3V a.v, det3 a.v)
  ⟨iv, a.d.map (fun dm => matmulV n n n (matmulV n n n (iv.map fun t => -t) dm) iv), a.ok && nz dt⟩

/-- `Matrix3.x_rotation / y_rotation / z_rotation` (matrix3.py:139-248): values and the matrix of
    `d/d angle`, multiplied by the angle's derivative -/
def rotV (axis : Nat) (c s : K) : List K × List K :=
  let z : K := zero
  let o : K := one
  match axis with
  | 0 => ([o, z, z,  z, c, s,  z, -s, c], [z, z, z,  z, -s, c,  z, -c, -s])
  | 1 => ([c, z, s,  z, o, z,  -s, z, c], [-s, z, c,  z, z, z,  -c, z, -s])
  | _ => ([c, -s, z,  s, c, z,  z, z, o], [-s, -c, z,  c, -s, z,  z, z, z])

def rot (axis : Nat) (a : Val K) : Val K :=
  let ang := a.v.headD zero
  let (vals, mat) := rotV axis (Num.cos ang) (Num.sin ang)
  ⟨vals, (a.d.map (·.headD zero)).map (fun da => mat.map fun t => t * da), a.ok⟩

/-- `Quaternion.mul_values` (quaternion.py:613-640) -/
def qmulV (a b : List K) : List K :=
  match a, b with
  | [a0, a1, a2, a3], [b0, b1, b2, b3] =>
    [a0 * b0 - a1 * b1 - a2 * b2 - a3 * b3,
     a0 * b1 + a1 * b0 + a2 * b3 - a3 * b2,
     a0 * b2 - a1 * b3 + a2 * b0 + a3 * b1,
     a0 * b3 + a1 * b2 - a2 * b1 + a3 * b0]
  | _, _ => []

/-- `Quaternion.__mul__` (quaternion.py:549-610): `a_deriv * b.wod`, `+= a.wod * b_deriv` -/
def qmul (a b : Val K) : Val K := bilin qmulV a b

/-- `Quaternion.conj` (quaternion.py:160-180) -/
def qconjV : List K → List K
  | [s, x, y, z] => [s, -x, -y, -z]
  | _ => []
def qconj (a : Val K) : Val K := linmap qconjV a

/-! composite methods: the same compositions as the source -/

/-- vector.py:400-412 `self / self.norm()` -/
def unit (a : Val K) : Val K := sdiv a (norm a)
/-- vector.py:490-503 `arg.unit() * self.dot(arg.unit())` -/
def proj (a b : Val K) : Val K := let u := unit b; smul u (dot a u)
/-- vector.py:472-487 `self - arg * self.dot(arg)` with `arg = arg.unit()` -/
def perp (a b : Val K) : Val K := let u := unit b; sub a (smul u (dot a u))
/-- vector.py:448-458 -/
def ucross (a b : Val K) : Val K := unit (cross3 a b)
/-- vector.py:415-429 `self * (norm / self.norm())` -/
def withNorm (a n : Val K) : Val K := smul a (sc2 (.div (.var 0) (.var 1)) n (norm a))
/-- quaternion.py:673-686 `conj / norm_sq` -/
def qrecip (a : Val K) : Val K := sdiv (qconj a) (normSq a)

/-- `Quaternion.from_rotation` (quaternion.py:130-146): `from_parts(cos(a/2), (sin(a/2)/|v|) * v)` -/
def fromRotation (a v : Val K) : Val K :=
  let h := nscale half a
  cat (sc1 (.cos (.var 0)) h) (smul v (sdiv (sc1 (.sin (.var 0)) h) (norm v)))

/-- `Quaternion.to_rotation` (quaternion.py:149-157): angle `2 * |vec|.arctan2(scalar)` -/
def toRotation0 (q : Val K) : Val K :=
  nscale two (sc2 (.atan2 (.var 0) (.var 1)) (norm (slice 1 4 q)) (comp 0 q))
/-- … and axis `vec / |vec|` -/
def toRotation1 (q : Val K) : Val K := sdiv (slice 1 4 q) (norm (slice 1 4 q))

/-- `Vector.sep` (vector.py:506-535): `sign = a.dot(b).sign()` with zeros replaced by 1 (no derivatives);
    `b *= sign`; `arg = 0.5 * (a - b).norm()`; `2.*sign*arg.arcsin() + (sign < 0.)*pi` -/
def sep (a b : Val K) : Val K :=
  let ua := unit a
  let ub := unit b
  let sg := sc1 (.sgn (.var 0)) (dot ua ub)
  let b' := smul ub sg
  let arg := nscale half (norm (sub ua b'))
  add (smul (nscale two sg) (sc1 (.asin (.var 0)) arg)) (nscale pi (sc1 (.isneg (.var 0)) sg))

/-- `Matrix3.twovec` (matrix3.py:60-133): rows `unit1`, `unit2`, `unit3` placed at `axis1`, `axis2`, the
    remaining axis; the derivative rows are the rows' derivatives, zeros where a row lacks the key -/
def twovec (axis1 axis2 : Nat) (v1 v2 : Val K) : Val K :=
  let u1 := unit v1
  let (u2, u3) :=
    if (3 + axis2 - axis1) % 3 = 1 then
      let u3 := ucross u1 v2
      (ucross u3 u1, u3)
    else
      let u3 := ucross v2 u1
      (ucross u1 u3, u3)
  let row := fun i : Nat => if i = axis1 then u1 else if i = axis2 then u2 else u3
  cat (cat (row 0) (row 1)) (row 2)

/-- `Quaternion.to_matrix3` (quaternion.py:183-321): `q = sqrt(2)/|p| * p`; the nine quadratic entries;
    derivative `dm_dq.chain(dq_dp) * (-sqrt(2)/|p|**3)` chained with the quaternion's derivative, with the
    `m` (3×3×4) and `dq_dp` (4×4) tables as the source fills them; `|p| = 0` is masked -/
def toMatrix3 (a : Val K) : Val K :=
  match a.v with
  | [p0, p1, p2, p3] =>
    let pn := Num.sqrt (sumL [p0 * p0, p1 * p1, p2 * p2, p3 * p3])
    let c := Num.sqrt two / pn
    let s := c * p0
    let x := c * p1
    let y := c * p2
    let z := c * p3
    let vals := [one - (y * y + z * z), x * y - s * z, x * z + s * y,
                 x * y + s * z, one - (x * x + z * z), y * z - s * x,
                 x * z - s * y, y * z + s * x, one - (x * x + y * y)]
    let o : K := zero
    let m2 : K := ofInt (-2)
    let m : List (List K) :=
      [[o, o, m2 * y, m2 * z], [-z, y, x, -s], [y, z, s, x],
       [z, y, x, s], [o, m2 * x, o, m2 * z], [-x, -s, z, y],
       [-y, z, -s, x], [x, s, z, y], [o, m2 * x, m2 * y, o]]
    let dqdp : List (List K) :=
      [[-(p1 * p1 + p2 * p2 + p3 * p3), p0 * p1, p0 * p2, p0 * p3],
       [p0 * p1, -(p0 * p0 + p2 * p2 + p3 * p3), p1 * p2, p1 * p3],
       [p0 * p2, p1 * p2, -(p0 * p0 + p1 * p1 + p3 * p3), p2 * p3],
       [p0 * p3, p1 * p3, p2 * p3, -(p0 * p0 + p1 * p1 + p2 * p2)]]
    let f := -(Num.sqrt two) / (pn * pn * pn)
    let dmdp := m.map fun row => (List.range 4).map fun l => dotV row (dqdp.map fun r => r.getD l zero) * f
    ⟨vals, a.d.map (fun dp => dmdp.map fun row => dotV row dp), a.ok && nz pn⟩
  | _ => ⟨[], none, false⟩

end Val


/-! ### Item programs: the wire format of the driver as an inductive type

  One constructor per primitive item operation; `ProgW.run` dispatches to the `Val.*` formulas above.
  The driver (`Driver/C06.lean`) parses a request into a `ProgW Float` and calls `ProgW.run`; the
  composition theorems (`progw_rep`, `progw_sound`, Lemmas/DualProg.lean) are about `ProgW ℝ` and the
  same `run`. -/

inductive Ty where
  | S | V2 | V3 | Q | M2 | M3
  deriving DecidableEq, Repr

def Ty.len : Ty → Nat
  | .S => 1 | .V2 => 2 | .V3 => 3 | .Q => 4 | .M2 => 4 | .M3 => 9

inductive ProgW (K : Type) where
  | opd (τ : Ty) (idx : List Nat)
  | lit (c : K)
  | add (a b : ProgW K) | sub (a b : ProgW K) | neg (a : ProgW K)
  | nscale (c : K) (a : ProgW K) | ndiv (a : ProgW K) (c : K)
  | smul (a s : ProgW K) | sdiv (a s : ProgW K)
  | sc1 (f : E K) (a : ProgW K) | sc2 (f : E K) (a b : ProgW K)
  | dot (a b : ProgW K) | normSq (a : ProgW K) | norm (a : ProgW K)
  | cross3 (a b : ProgW K) | cross2 (a b : ProgW K) | outer (a b : ProgW K)
  | emul (a b : ProgW K) | ediv (a b : ProgW K)
  | comp (i : Nat) (a : ProgW K) | slice (i j : Nat) (a : ProgW K)
  | cat (a b : ProgW K) | rowcat3 (a b c : ProgW K) | widen (a b : ProgW K)
  | matmul (m k n : Nat) (a b : ProgW K) | transpose (m n : Nat) (a : ProgW K) | inverse (n : Nat) (a : ProgW K)
  | rot (axis : Nat) (a : ProgW K)
  | qmul (a b : ProgW K) | qconj (a : ProgW K)
  /-- `Quaternion.to_matrix3` -/
  | toMatrix3 (a : ProgW K)

namespace ProgW

/-- evaluation with the source's item-level formulas (the `Val.*` definitions the driver executes) -/
def run (env : Nat → K) (denv : Nat → Option K) (um : Nat → Bool) : ProgW K → Val K
  | opd _ idx => Val.opd idx env denv um
  | lit c => ⟨[c], none, true⟩
  | add a b => Val.add (a.run env denv um) (b.run env denv um)
  | sub a b => Val.sub (a.run env denv um) (b.run env denv um)
  | neg a => Val.neg (a.run env denv um)
  | nscale c a => Val.nscale c (a.run env denv um)
  | ndiv a c => Val.ndiv (a.run env denv um) c
  | smul a s => Val.smul (a.run env denv um) (s.run env denv um)
  | sdiv a s => Val.sdiv (a.run env denv um) (s.run env denv um)
  | sc1 f a => Val.sc1 f (a.run env denv um)
  | sc2 f a b => Val.sc2 f (a.run env denv um) (b.run env denv um)
  | dot a b => Val.dot (a.run env denv um) (b.run env denv um)
  | normSq a => Val.normSq (a.run env denv um)
  | norm a => Val.norm (a.run env denv um)
  | cross3 a b => Val.cross3 (a.run env denv um) (b.run env denv um)
  | cross2 a b => Val.cross2 (a.run env denv um) (b.run env denv um)
  | outer a b => Val.outer (a.run env denv um) (b.run env denv um)
  | emul a b => Val.emul (a.run env denv um) (b.run env denv um)
  | ediv a b => Val.ediv (a.run env denv um) (b.run env denv um)
  | comp i a => Val.comp i (a.run env denv um)
  | slice i j a => Val.slice i j (a.run env denv um)
  | cat a b => Val.cat (a.run env denv um) (b.run env denv um)
  | rowcat3 a b c => Val.cat (Val.cat (a.run env denv um) (b.run env denv um)) (c.run env denv um)
  | widen a b => Val.widen (a.run env denv um) (b.run env denv um)
  | matmul m k n a b => Val.matmul m k n (a.run env denv um) (b.run env denv um)
  | transpose m n a => Val.transpose m n (a.run env denv um)
  | inverse n a => Val.inverse n (a.run env denv um)
  | rot axis a => Val.rot axis (a.run env denv um)
  | qmul a b => Val.qmul (a.run env denv um) (b.run env denv um)
  | qconj a => Val.qconj (a.run env denv um)
  | toMatrix3 a => Val.toMatrix3 (a.run env denv um)

/-! composite methods as program-building functions (the compositions of the source) -/
def unit (a : ProgW K) : ProgW K := sdiv a (norm a)
def proj (a b : ProgW K) : ProgW K := smul (unit b) (dot a (unit b))
def perp (a b : ProgW K) : ProgW K := sub a (smul (unit b) (dot a (unit b)))
def ucross (a b : ProgW K) : ProgW K := unit (cross3 a b)
def withNorm (a n : ProgW K) : ProgW K := smul a (sc2 (.div (.var 0) (.var 1)) n (norm a))
def qrecip (a : ProgW K) : ProgW K := sdiv (qconj a) (normSq a)
def mdiv (n : Nat) (a b : ProgW K) : ProgW K := matmul n n n a (inverse n b)
def fromRotation (a v : ProgW K) : ProgW K :=
  cat (sc1 (.cos (.var 0)) (nscale half a)) (smul v (sdiv (sc1 (.sin (.var 0)) (nscale half a)) (norm v)))
def toRotation0 (q : ProgW K) : ProgW K :=
  nscale two (sc2 (.atan2 (.var 0) (.var 1)) (norm (slice 1 4 q)) (comp 0 q))
def toRotation1 (q : ProgW K) : ProgW K := sdiv (slice 1 4 q) (norm (slice 1 4 q))
def sep (a b : ProgW K) : ProgW K :=
  add (smul (nscale two (sc1 (.sgn (.var 0)) (dot (unit a) (unit b))))
        (sc1 (.asin (.var 0))
          (nscale half (norm (sub (unit a) (smul (unit b) (sc1 (.sgn (.var 0)) (dot (unit a) (unit b)))))))))
      (nscale pi (sc1 (.isneg (.var 0)) (sc1 (.sgn (.var 0)) (dot (unit a) (unit b)))))
/-- `Vector3.from_ra_dec_length` without a length / with the Python number 1. (vector3.py:86-113):
    `from_scalars(cos(dec)*cos(ra), cos(dec)*sin(ra), sin(dec))` -/
def fromRaDec (ra dec : ProgW K) : ProgW K :=
  cat (cat (smul (sc1 (.cos (.var 0)) dec) (sc1 (.cos (.var 0)) ra))
           (smul (sc1 (.cos (.var 0)) dec) (sc1 (.sin (.var 0)) ra)))
      (sc1 (.sin (.var 0)) dec)
/-- … with a length: `Scalar.as_scalar(length) * result` -/
def fromRaDecLength (ra dec len : ProgW K) : ProgW K := smul (fromRaDec ra dec) len
/-- `Vector3.from_cylindrical` (vector3.py:134-154): `from_scalars(r*cos(lon), r*sin(lon), z)` -/
def fromCylindrical (r lon z : ProgW K) : ProgW K :=
  cat (cat (smul r (sc1 (.cos (.var 0)) lon)) (smul r (sc1 (.sin (.var 0)) lon))) z
def twovec (axis1 axis2 : Nat) (v1 v2 : ProgW K) : ProgW K :=
  let u1 := unit v1
  let u3 := if (3 + axis2 - axis1) % 3 = 1 then ucross u1 v2 else ucross v2 u1
  let u2 := if (3 + axis2 - axis1) % 3 = 1 then ucross u3 u1 else ucross u1 u3
  let row := fun i : Nat => if i = axis1 then u1 else if i = axis2 then u2 else u3
  rowcat3 (row 0) (row 1) (row 2)

end ProgW

end PMV.Dual
