import PMV.Core.Arr
/-
  NumPy basic + advanced indexing, defined denotationally: for an index tuple applied to an array of a
  given shape, the result shape and, per result coordinate, the source coordinate.  Includes NumPy's
  rule for the placement of the axes produced by advanced (integer / array) indices: where the first
  advanced index stood if all of them are adjacent, first otherwise.  `none` = IndexError.

  This file is the model's statement of what NumPy does (numpy/_core/src/multiarray/mapping.c,
  documented in "Indexing on ndarrays"); it is validated against the real NumPy by the kernel suite
  of harness/c09.py on every run and is part of the trusted base as such.  Mathlib-free.
-/
namespace PMV.NpIndex
open PMV

/-- one entry of a NumPy index tuple.  A slice is abstracted as the list of source coordinates it
    selects on the axis it lands on (slice arithmetic is NumPy's and is passed through untouched by
    polymath). -/
inductive NEntry where
  | newaxis
  | ell
  | coords (l : List Nat)
  | int (k : Int)
  | arr (a : Arr Int)
  | barr (a : Arr Bool)

namespace NEntry
/-- source axes consumed -/
def cons : NEntry → Nat
  | newaxis => 0 | ell => 0 | coords _ => 1 | int _ => 1 | arr _ => 1 | barr b => b.shape.length
/-- "advanced" index in NumPy's sense: integers count -/
def isAdv : NEntry → Bool
  | int _ => true | arr _ => true | barr _ => true | _ => false
def isArr : NEntry → Bool
  | arr _ => true | barr _ => true | _ => false
def isEll : NEntry → Bool
  | ell => true | _ => false
end NEntry

/-- an index entry with its source axes resolved -/
inductive Atom where
  /-- produces one axis; element `j` reads source coordinate `l[j]` -/
  | plain (l : List Nat)
  /-- produces one axis of length 1, reads nothing -/
  | newaxis
  /-- advanced index of shape `sh`; at array coordinate `i` it reads the source coordinates `f i`
      (one per consumed axis); `ok` = every element of an integer ARRAY is within bounds (NumPy
      checks the arrays while iterating, i.e. not at all when the broadcast index is empty) -/
  | adv (sh : Shape) (f : Index → List Nat) (ok : Bool)

/-- NumPy's treatment of one integer index on an axis of length `n`: negative values count from the
    end, anything outside `[-n, n)` is an IndexError -/
def normIdx (n : Nat) (k : Int) : Option Nat :=
  if 0 ≤ k ∧ k < n then some k.toNat
  else if k < 0 ∧ -k ≤ n then some (k + n).toNat
  else none

/-- positions (row-major) of the `true` elements: `ndarray.nonzero()` -/
def trues (b : Arr Bool) : List Index := (indices b.shape).filter b.get

/-- resolve the entries against the remaining source shape; `w` = width of the Ellipsis -/
def atoms : Shape → Nat → List NEntry → Option (List Atom)
  | [], _, [] => some []
  | _ :: _, _, [] => none
  | sh, w, .newaxis :: r => (atoms sh w r).map (Atom.newaxis :: ·)
  | sh, w, .ell :: r =>
    (atoms (sh.drop w) w r).map (((sh.take w).map fun n => Atom.plain (List.range n)) ++ ·)
  | n :: sh, w, .coords l :: r =>
    if l.all (· < n) then (atoms sh w r).map (Atom.plain l :: ·) else none
  | n :: sh, w, .int k :: r =>
    match normIdx n k with
    | some k' => (atoms sh w r).map (Atom.adv [] (fun _ => [k']) true :: ·)
    | none => none
  | n :: sh, w, .arr a :: r =>
    (atoms sh w r).map (Atom.adv a.shape (fun i => [(normIdx n (a.get i)).getD 0])
      ((indices a.shape).all fun i => (normIdx n (a.get i)).isSome) :: ·)
  | sh, w, .barr b :: r =>
    if sh.take b.shape.length = b.shape then
      let tr := trues b
      (atoms (sh.drop b.shape.length) w r).map
        (Atom.adv [tr.length] (fun i => tr.getD (i.headD 0) []) true :: ·)
    else none
  | [], _, .coords _ :: _ => none
  | [], _, .int _ :: _ => none
  | [], _, .arr _ :: _ => none

def advShapes : List Atom → List Shape
  | [] => []
  | .adv sh _ _ :: r => sh :: advShapes r
  | _ :: r => advShapes r

/-- broadcast of all advanced-index shapes -/
def bcastAll : List Shape → Option Shape
  | [] => some []
  | s :: r => match bcastAll r with
    | some t => bcast s t
    | none => none

/-- lengths of the axes produced by the non-advanced entries, in order -/
def plainLens : List Atom → Shape
  | [] => []
  | .plain l :: r => l.length :: plainLens r
  | .newaxis :: r => 1 :: plainLens r
  | .adv _ _ _ :: r => plainLens r

/-- number of axes produced ahead of the first advanced entry -/
def axesBefore : List Atom → Nat
  | [] => 0
  | .plain _ :: r => 1 + axesBefore r
  | .newaxis :: r => 1 + axesBefore r
  | .adv _ _ _ :: _ => 0

/-- does a non-advanced entry stand between two advanced ones?  (argument: `isAdv` per entry) -/
def separated (l : List Bool) : Bool :=
  ((l.dropWhile (!·)).reverse.dropWhile (!·)).any (!·)

/-- all integer arrays within bounds -/
def allOk : List Atom → Bool
  | [] => true
  | .adv _ _ ok :: r => ok && allOk r
  | _ :: r => allOk r

/-- source coordinate for plain coordinate `po` (one per produced plain axis) and array
    coordinate `ac` (within the broadcast advanced shape) -/
def walk : List Atom → Index → Index → Index
  | [], _, _ => []
  | .plain l :: r, po, ac => l.getD (po.headD 0) 0 :: walk r po.tail ac
  | .newaxis :: r, po, ac => walk r po.tail ac
  | .adv sh f _ :: r, po, ac => f (bidx sh ac) ++ walk r po ac

/-- the result of an indexing operation: its shape and the source coordinate of every element -/
structure Sel where
  shape : Shape
  src : Index → Index

def ellCount (idx : List NEntry) : Nat := (idx.filter NEntry.isEll).length
def consTotal (idx : List NEntry) : Nat := (idx.map NEntry.cons).sum

/-- split a result coordinate into (plain coordinate, array coordinate) for advanced axes at `loc` -/
def splitAt (loc r : Nat) (o : Index) : Index × Index :=
  (o.take loc ++ o.drop (loc + r), (o.drop loc).take r)

/-- `a[idx]` for `a` of shape `shape` -/
def npIndex (shape : Shape) (idx : List NEntry) : Option Sel :=
  if ellCount idx > 1 then none
  else if consTotal idx > shape.length then none
  else
    let idx' := if idx.any NEntry.isEll then idx else idx ++ [.ell]
    match atoms shape (shape.length - consTotal idx) idx' with
    | none => none
    | some ats =>
      match bcastAll (advShapes ats) with
      | none => none
      | some B =>
        if size B != 0 && !allOk ats then none else
        let loc := if separated (idx.map NEntry.isAdv) then 0 else axesBefore ats
        let pl := plainLens ats
        some ⟨pl.take loc ++ B ++ pl.drop loc,
              fun o => walk ats (splitAt loc B.length o).1 (splitAt loc B.length o).2⟩

/-- `np.moveaxis(x, (0..r-1), (loc..loc+r-1))` on a `Sel` -/
def moveFront (loc r : Nat) (s : Sel) : Sel :=
  let B := s.shape.take r
  let rest := s.shape.drop r
  ⟨rest.take loc ++ B ++ rest.drop loc,
   fun o => s.src ((o.drop loc).take r ++ (o.take loc ++ o.drop (loc + r)))⟩

end PMV.NpIndex
