/-
  Heap model of NumPy / polymath aliasing (view for property C07).  Mathlib-free, total, executable.

  Four sorts of heap cells, all named by natural numbers and allocated from one counter `next`:
    * data buffers            (`buf`)   — the memory an ndarray looks at; contents abstracted to one Int
    * ndarray objects         (`arr`)   — (buffer, WRITEABLE flag); a NumPy *view* is a new ndarray object on the
                                          same buffer (numpy: basic slicing, reshape, swapaxes, rollaxis, moveaxis,
                                          broadcast_to, `[..., ::-1]`); `asarray`/attribute access hand out the SAME
                                          ndarray object
    * Units objects           (`uname`) — only the mutable field `.name` matters (polymath/units.py:31-80)
    * Qube objects            (`obj`)   — references `_values_`, `_mask_` (none = Python scalar / bool), `_units_`,
                                          `_derivs_` (key ↦ object), `_readonly_` (polymath/qube.py:371-405)

  Part A: an effect language for method bodies, its interpreter `run`, and the static freshness check `safe`.
  Part B: `copyObj` (Qube.copy, qube.py:1982-2028), the public mutators, and observations.
-/
namespace PMV.Heap

/-- cell names (one counter for all four sorts) and register names are natural numbers -/
abbrev CellName := Nat


structure ArrObj where
  buf : Nat
  wr : Bool
  deriving DecidableEq, Repr, Inhabited

structure Obj where
  vals : Option Nat
  mask : Option Nat
  units : Option Nat
  derivs : List (Nat × Nat)
  ro : Bool
  deriving DecidableEq, Repr, Inhabited

structure Heap where
  buf : Nat → Int
  arr : Nat → ArrObj
  uname : Nat → Int
  obj : Nat → Obj
  next : Nat

/-- a Python value as far as aliasing is concerned -/
inductive Val where
  | arr (a : Nat)
  | obj (o : Nat)
  | units (u : Nat)
  | py
  deriving DecidableEq, Repr, Inhabited

def upd {β : Type} (f : Nat → β) (a : Nat) (v : β) : Nat → β := fun x => if x = a then v else f x

@[simp] theorem upd_same {β : Type} (f : Nat → β) (a : Nat) (v : β) : upd f a v a = v := by simp [upd]
@[simp] theorem upd_other {β : Type} (f : Nat → β) (a x : Nat) (v : β) (h : x ≠ a) : upd f a v x = f x := by
  simp [upd, h]

inductive Attr where
  | vals | mask | units
  deriving DecidableEq, Repr

/-! ### Part A — effects -/

/-- One statement of a method-body summary.  Registers hold `Val`s. -/
inductive Eff where
  /-- `dst := <i-th argument>` (receiver = 0; module constants follow the arguments) -/
  | arg (dst : Nat) (i : Nat)
  /-- `dst := src._values_ | src._mask_ | src._units_` — attribute pass-through: the SAME object, as in
      `clone` (qube.py:983-993) and `wod` (qube.py:1357-1364) -/
  | get (dst src : Nat) (a : Attr)
  /-- `dst := src._derivs_[key]` -/
  | getDeriv (dst src : Nat) (key : Nat)
  /-- a new ndarray on a new buffer: arithmetic, `np.empty/zeros`, `astype`, fancy indexing, `linalg.inv` -/
  | fresh (dst : Nat)
  /-- `src.copy()` if `src` is an ndarray, `src` itself if it is a Python scalar (qube.py:2003-2012) -/
  | copyOf (dst src : Nat)
  /-- a NumPy view: a new ndarray object on the buffer of `src` (a Python scalar / scalar mask stays as it is) -/
  | view (dst src : Nat)
  /-- `Units(...)` -/
  | newUnits (dst : Nat)
  /-- `Qube.__new__` + filling `_values_`, `_mask_`, `_units_` with the given references (no derivatives) -/
  | newObj (dst v m u : Nat)
  /-- `o.insert_deriv(key, d)` / `o._derivs_[key] = d` -/
  | setDeriv (o : Nat) (key : Nat) (d : Nat)
  /-- `o._values_ = src` etc. -/
  | rebind (o : Nat) (a : Attr) (src : Nat)
  /-- `r[...] = v`, `r op= …`, `r.fill(v)`, `np.ufunc(…, out=r)`: writes the buffer; raises if not WRITEABLE -/
  | writeInto (r : Nat) (v : Int)
  /-- `r.flags['WRITEABLE'] = False` (qube.py:1904-1911; ignored for non-arrays) -/
  | setFlag (r : Nat)
  /-- `u.name = v` -/
  | setName (u : Nat) (v : Int)
  /-- `o.as_readonly(recursive=False)` (qube.py:1946-1964): the documented effect of broadcasting; marks the object
      and all of its derivatives -/
  | markRO (o : Nat)
  /-- a statement that may raise: raises iff bit `n` of the schedule is set -/
  | raiseIf (n : Nat)
  deriving Repr

structure St where
  h : Heap
  env : Nat → Val
  raised : Bool

/-- inputs of a run that are not in the heap: the argument tuple (then the constants) and the raise schedule -/
structure Args where
  args : List Val
  sched : Nat → Bool

def St.set (s : St) (r : Nat) (v : Val) : St := { s with env := upd s.env r v }
def St.fail (s : St) : St := { s with raised := true }

def optArr : Val → Option Nat
  | .arr a => some a
  | _ => none
def optUnits : Val → Option Nat
  | .units u => some u
  | _ => none
def arrVal : Option Nat → Val
  | some a => .arr a
  | none => .py
def unitsVal : Option Nat → Val
  | some u => .units u
  | none => .py

def Obj.setAttr (o : Obj) (a : Attr) (v : Val) : Obj :=
  match a with
  | .vals => { o with vals := optArr v }
  | .mask => { o with mask := optArr v }
  | .units => { o with units := optUnits v }

def Heap.allocArr (h : Heap) (b : Nat) (w : Bool) : Heap :=
  { h with arr := upd h.arr h.next ⟨b, w⟩, next := h.next + 1 }

def Heap.setWr (h : Heap) (a : Nat) : Heap :=
  { h with arr := upd h.arr a ⟨(h.arr a).buf, false⟩ }

def Heap.setWrOpt (h : Heap) : Option Nat → Heap
  | some a => h.setWr a
  | none => h

/-- `x.as_readonly()` on one object without looking at its derivatives (qube.py:1946-1953): nothing if the flag is
    already set, else WRITEABLE is cleared on both arrays and `_readonly_` is set -/
def Heap.freezeObj (h : Heap) (x : Nat) : Heap :=
  if (h.obj x).ro then h
  else
    let h1 := (h.setWrOpt (h.obj x).vals).setWrOpt (h.obj x).mask
    let ox := h1.obj x
    let ox' : Obj := { ox with ro := true }
    { h1 with obj := upd h1.obj x ox' }

def Heap.freezeAll (h : Heap) : List Nat → Heap
  | [] => h
  | x :: xs => (h.freezeObj x).freezeAll xs

/-- `x.as_readonly(recursive)` as it is now (qube.py:1946-1964): an already read-only object is returned as is;
    otherwise the object AND every derivative are marked ("a read-only object never carries writable
    derivatives", whether or not `recursive`) -/
def Heap.freezeTree (h : Heap) (x : Nat) : Heap :=
  if (h.obj x).ro then h else (h.freezeObj x).freezeAll ((h.obj x).derivs.map (·.2))

/-- one statement (only called on a state that has not raised) -/
def step (A : Args) (e : Eff) (s : St) : St :=
  match e with
  | .arg dst i => s.set dst (A.args.getD i .py)
  | .get dst src a =>
    match s.env src with
    | .obj o =>
      match a with
      | .vals => s.set dst (arrVal (s.h.obj o).vals)
      | .mask => s.set dst (arrVal (s.h.obj o).mask)
      | .units => s.set dst (unitsVal (s.h.obj o).units)
    | _ => s.fail
  | .getDeriv dst src key =>
    match s.env src with
    | .obj o =>
      match (s.h.obj o).derivs.lookup key with
      | some d => s.set dst (.obj d)
      | none => s.fail
    | _ => s.fail
  | .fresh dst =>
    let n := s.h.next
    { s with h := { (s.h.allocArr n true) with buf := upd s.h.buf n 0 }, env := upd s.env dst (.arr n) }
  | .copyOf dst src =>
    match s.env src with
    | .arr a =>
      let n := s.h.next
      { s with h := { (s.h.allocArr n true) with buf := upd s.h.buf n (s.h.buf (s.h.arr a).buf) },
               env := upd s.env dst (.arr n) }
    | v => s.set dst v
  | .view dst src =>
    match s.env src with
    | .arr a => { s with h := s.h.allocArr (s.h.arr a).buf (s.h.arr a).wr, env := upd s.env dst (.arr s.h.next) }
    | .py => s.set dst .py      -- polymath keeps a scalar mask / Python-scalar value as it is
    | _ => s.fail
  | .newUnits dst =>
    { s with h := { s.h with uname := upd s.h.uname s.h.next 0, next := s.h.next + 1 },
             env := upd s.env dst (.units s.h.next) }
  | .newObj dst v m u =>
    -- `_readonly_` follows the values array (qube.py:397, 1142; `clone` copies the flag of an object whose arrays
    -- are read-only)
    let ro := match optArr (s.env v) with
      | some a => !(s.h.arr a).wr
      | none => false
    let o : Obj := ⟨optArr (s.env v), optArr (s.env m), optUnits (s.env u), [], ro⟩
    { s with h := { s.h with obj := upd s.h.obj s.h.next o, next := s.h.next + 1 },
             env := upd s.env dst (.obj s.h.next) }
  | .setDeriv o key d =>
    match s.env o, s.env d with
    | .obj x, .obj y =>
      let ox := s.h.obj x
      let ox' : Obj := { ox with derivs := (key, y) :: ox.derivs.filter (fun p => p.1 != key) }
      { s with h := { s.h with obj := upd s.h.obj x ox' } }
    | _, _ => s.fail
  | .rebind o a src =>
    match s.env o with
    | .obj x => { s with h := { s.h with obj := upd s.h.obj x ((s.h.obj x).setAttr a (s.env src)) } }
    | _ => s.fail
  | .writeInto r v =>
    match s.env r with
    | .arr a =>
      if (s.h.arr a).wr then { s with h := { s.h with buf := upd s.h.buf (s.h.arr a).buf v } } else s.fail
    | _ => s.fail
  | .setFlag r =>
    match s.env r with
    | .arr a => { s with h := s.h.setWr a }
    | _ => s
  | .setName u v =>
    match s.env u with
    | .units x => { s with h := { s.h with uname := upd s.h.uname x v } }
    | _ => s.fail
  | .markRO o =>
    match s.env o with
    | .obj x => { s with h := s.h.freezeTree x }
    | _ => s.fail
  | .raiseIf n => if A.sched n then s.fail else s

/-- run a summary: statements after a raise are not executed (exceptional exit keeps the heap as it is then) -/
def run (A : Args) : List Eff → St → St
  | [], s => s
  | e :: p, s => if s.raised then s else run A p (step A e s)

def emptyEnv : Nat → Val := fun _ => .py

/-- `run : Effects → Heap → Args → Heap × Result`: the final heap, the value of register 0 (the returned
    object; register 0 by convention) and whether the exit was exceptional -/
def call (p : List Eff) (h : Heap) (A : Args) : St := run A p ⟨h, emptyEnv, false⟩

/-! #### static freshness check -/

/-- what the analysis knows about a register -/
inductive Tag where
  | old                       -- anything that may have existed before the call (never written)
  | newArr (newBuf : Bool)    -- if an array: an ndarray object created by this call (on a buffer created by it?)
  | newObj                    -- if an object: created by this call
  | newUnits                  -- if a Units: created by this call
  deriving DecidableEq, Repr

def Tag.isNewArr : Tag → Bool
  | .newArr _ => true
  | _ => false

def viewTag : Tag → Tag
  | .newArr nb => .newArr nb
  | _ => .newArr false

/-- `rx = false`: strict (nothing that existed before the call may change at all);
    `rx = true`: read-only marking of pre-existing arrays/objects is tolerated (broadcasting) -/
def tagStep (rx : Bool) (e : Eff) (t : Nat → Tag) : Option (Nat → Tag) :=
  match e with
  | .arg dst _ => some (upd t dst .old)
  | .get dst _ _ => some (upd t dst .old)
  | .getDeriv dst _ _ => some (upd t dst .old)
  | .fresh dst => some (upd t dst (.newArr true))
  | .copyOf dst _ => some (upd t dst (.newArr true))
  | .view dst src => some (upd t dst (viewTag (t src)))
  | .newUnits dst => some (upd t dst .newUnits)
  | .newObj dst _ _ _ => some (upd t dst .newObj)
  | .setDeriv o _ _ => if t o = .newObj then some t else none
  | .rebind o _ _ => if t o = .newObj then some t else none
  | .writeInto r _ => if t r = .newArr true then some t else none
  | .setFlag r => if (t r).isNewArr || rx then some t else none
  | .setName u _ => if t u = .newUnits then some t else none
  | .markRO _ => if rx then some t else none
  | .raiseIf _ => some t

def safeFrom (rx : Bool) : List Eff → (Nat → Tag) → Bool
  | [], _ => true
  | e :: p, t =>
    match tagStep rx e t with
    | some t' => safeFrom rx p t'
    | none => false

def safe (rx : Bool) (p : List Eff) : Bool := safeFrom rx p (fun _ => .old)

/-! #### reachability (polymath forbids derivatives of derivatives: depth one) -/

def Heap.objArrs (h : Heap) (o : Nat) : List Nat := (h.obj o).vals.toList ++ (h.obj o).mask.toList
def Heap.reachObjs (h : Heap) (o : Nat) : List Nat := o :: (h.obj o).derivs.map (·.2)

def Heap.reachArrs (h : Heap) : Val → List Nat
  | .arr a => [a]
  | .obj o => (h.reachObjs o).flatMap h.objArrs
  | _ => []
def Heap.reachBufs (h : Heap) (v : Val) : List Nat := (h.reachArrs v).map fun a => (h.arr a).buf
def Heap.reachUnits (h : Heap) : Val → List Nat
  | .units u => [u]
  | .obj o => (h.reachObjs o).filterMap fun x => (h.obj x).units
  | _ => []
def Heap.reachObjsV (h : Heap) : Val → List Nat
  | .obj o => h.reachObjs o
  | _ => []

/-- everything reachable from `v` was allocated (id below `next`) -/
def Heap.Closed (h : Heap) (v : Val) : Prop :=
  (∀ o ∈ h.reachObjsV v, o < h.next) ∧ (∀ a ∈ h.reachArrs v, a < h.next) ∧
  (∀ b ∈ h.reachBufs v, b < h.next) ∧ (∀ u ∈ h.reachUnits v, u < h.next)


/-! ### Effect summaries of the catalogued methods

  Register conventions: the receiver is loaded into register 1, the result ends up in register 0.
  `keys` = the derivative keys of the receiver (the summaries are straight-line: the harness passes the branch
  taken by the real call — number of derivatives, "determinant is zero somewhere", … — as parameters). -/
namespace Summary

/-- per-derivative block: build a new object for `self._derivs_[k]` from (vals-producer, mask-producer) and insert
    it into the result in register 0.  `fv`/`fm` say how the new values / mask arrays are obtained from the old. -/
inductive How where
  | same      -- the very same ndarray (attribute pass-through)
  | viewOf    -- a NumPy view
  | copied    -- `.copy()` (a Python scalar is passed through)
  | computed  -- a new array (arithmetic)
  deriving DecidableEq, Repr

/-- `dst := how(src)` where `.same` just reuses the source register -/
def obtain (dst src : Nat) (h : How) : List Eff × Nat :=
  match h with
  | .same => ([], src)
  | .viewOf => ([.view dst src], dst)
  | .copied => ([.copyOf dst src], dst)
  | .computed => ([.fresh dst], dst)

/-- build in register `dst` a new object from object register `src`: values by `hv`, mask by `hm`, units shared.
    Uses registers `base .. base+4`. -/
def rebuild (dst src base : Nat) (hv hm : How) : List Eff :=
  let (ev, rv) := obtain (base + 1) base hv
  let (em, rm) := obtain (base + 3) (base + 2) hm
  [.get base src .vals] ++ ev ++ [.get (base + 2) src .mask] ++ em ++
  [.get (base + 4) src .units, .newObj dst rv rm (base + 4)]

/-- the same for every derivative `k` of the receiver (register 1), inserted into the result (register 0) -/
def derivBlocks (keys : List Nat) (hv hm : How) : List Eff :=
  keys.flatMap fun k => [.getDeriv 20 1 k] ++ rebuild 21 20 22 hv hm ++ [.setDeriv 0 k 21]

/-- a method that returns a new object whose values/mask are obtained uniformly from the receiver's -/
def uniform (keys : List Nat) (hv hm : How) : List Eff :=
  [.arg 1 0] ++ rebuild 0 1 10 hv hm ++ derivBlocks keys hv hm

/-- `Qube.copy()` (qube.py:1982-2028) -/
def copy (keys : List Nat) : List Eff := uniform keys .copied .copied
/-- `Qube.clone()` (qube.py:968-1020): a new object on the same arrays -/
def clone (keys : List Nat) : List Eff := uniform keys .same .same
/-- `wod` (qube.py:1344-1370) of an object with derivatives -/
def wod : List Eff := uniform [] .same .same
/-- `-a`, `abs(a)` … : new values; the mask is shared (`clone` + `_set_values_`, qube.py:2837-2838) unless it is a
    read-only array, in which case `_set_values_` replaces it by a copy (qube.py:1166-1171) -/
def arith (maskRO : Bool) (keys : List Nat) : List Eff :=
  uniform keys .computed (if maskRO then .copied else .same)
/-- basic slicing, `reshape`, `flatten`, `swap_axes`, `roll_axis`, `move_axis` of contiguous data: views -/
def viewing (keys : List Nat) : List Eff := uniform keys .viewOf .viewOf
/-- fancy (integer-array) indexing: everything new -/
def fancy (keys : List Nat) : List Eff := uniform keys .computed .computed
/-- a method that hands back its receiver -/
def self : List Eff := [.arg 0 0]

/-- `broadcast_to` (qube.py broadcast_to) of an array-valued object to another shape: `self.as_readonly(recursive=
    False)` marks the receiver and (since "a read-only object never carries writable derivatives") each of its
    derivatives read-only — the documented side effect — BEFORE `np.broadcast_to` validates the shape (`raiseIf 0`:
    an incompatible shape raises ValueError with the marking already done); the result holds read-only views.
    `keys` = the derivatives carried over (none for `recursive=False`). -/
def broadcast (keys : List Nat) : List Eff :=
  [.arg 1 0, .markRO 1, .raiseIf 0] ++ rebuild 0 1 10 .viewOf .viewOf ++ [.markRO 0] ++
  keys.flatMap fun k => [.getDeriv 20 1 k, .markRO 20] ++ rebuild 21 20 22 .viewOf .viewOf ++
                        [.markRO 21, .setDeriv 0 k 21]

/-- `Matrix.inverse()` as REPAIRED (matrix.py:343-378): the identity replacement at singular entries is made on a
    copy.  `singular` = some determinant is zero.  Derivatives (`-M⁻¹ dM M⁻¹`) are new arrays. -/
def inverse (singular : Bool) (keys : List Nat) : List Eff :=
  [.arg 1 0, .get 10 1 .vals] ++
  (if singular then [.copyOf 11 10, .writeInto 11 1, .fresh 12, .get 13 1 .mask, .fresh 14]
   else [.fresh 12, .get 14 1 .mask]) ++
  [.raiseIf 0, .get 15 1 .units, .newUnits 16, .newObj 0 12 14 16] ++
  -- `-obj * deriv * obj` for an unmasked derivative: new values, the mask IS the result's mask array (`or_`)
  keys.flatMap fun k => [.fresh 21, .newObj 23 21 14 16, .setDeriv 0 k 23]

/-- `Matrix.inverse()` as on the pinned tree: `self._values_[mask] = identity` -/
def inversePinned (singular : Bool) : List Eff :=
  [.arg 1 0, .get 10 1 .vals] ++
  (if singular then [.writeInto 10 1, .fresh 12, .get 13 1 .mask, .fresh 14] else [.fresh 12, .get 14 1 .mask]) ++
  [.get 15 1 .units, .newUnits 16, .newObj 0 12 14 16]

/-- per-object body of `Pair.rot90` as REPAIRED (pair.py:131-144): rollaxis, `[..., ::-1]`, copy, rollaxis back,
    negate in place -/
def rot90Body (dst src base : Nat) (fixed : Bool) : List Eff :=
  [.get base src .vals, .view (base + 1) base, .view (base + 2) (base + 1)] ++
  (if fixed then [.copyOf (base + 3) (base + 2)] else [.view (base + 3) (base + 2)]) ++
  [.view (base + 4) (base + 3), .writeInto (base + 4) 2, .get (base + 5) src .mask, .get (base + 6) src .units,
   .newObj dst (base + 4) (base + 5) (base + 6)]

def rot90 (fixed : Bool) (keys : List Nat) : List Eff :=
  [.arg 1 0] ++ rot90Body 0 1 10 fixed ++
  keys.flatMap fun k => [.getDeriv 20 1 k] ++ rot90Body 21 20 22 fixed ++ [.setDeriv 0 k 21]

/-- `Units.mul_units(u, None)` on the pinned tree (units.py: the operand is renamed) and repaired (a new Units) -/
def mulUnitsPinned : List Eff := [.arg 1 0, .setName 1 7, .arg 0 0]
def mulUnitsFixed : List Eff := [.arg 1 0, .newUnits 0, .setName 0 7]

/-- `Polynomial.eval` on the pinned tree: `x_power *= x` where `x_power` IS the caller's `x` -/
def polyEvalPinned : List Eff := [.arg 1 1, .get 10 1 .vals, .writeInto 10 4, .fresh 11, .get 12 1 .mask,
                                  .get 13 1 .units, .newObj 0 11 12 13]

end Summary

/-! ### Part B — copy() and the public mutators (objects without derivatives; each derivative is itself copied by
  `copy(recursive=False)`, qube.py:2023-2026, i.e. by the same function) -/

/-- `x.copy()` for an ndarray reference, the value itself for a Python scalar (qube.py:2003-2012) -/
def copyArrRef (h : Heap) : Option Nat → Heap × Option Nat
  | none => (h, none)
  | some a =>
    ({ h with arr := upd h.arr h.next ⟨h.next, true⟩, buf := upd h.buf h.next (h.buf (h.arr a).buf),
              next := h.next + 1 }, some h.next)

/-- `Qube.copy(recursive=False)` (qube.py:1995-2020): shallow clone, then both arrays are duplicated and the copy
    is writable; the Units object is shared -/
def copyFlat (h : Heap) (o : Nat) : Heap × Nat :=
  let r1 := copyArrRef h (h.obj o).vals
  let r2 := copyArrRef r1.1 (h.obj o).mask
  ({ r2.1 with obj := upd r2.1.obj r2.1.next ⟨r1.2, r2.2, (h.obj o).units, [], false⟩, next := r2.1.next + 1 },
   r2.1.next)

/-- the in-place public API, as far as storage is concerned -/
inductive Mut where
  /-- `t[...] = v`, `t += v`, `t.values[...] = v`: writes the values buffer (refused on a read-only object/array) -/
  | write (v : Int)
  /-- item assignment that changes the mask: writes the mask buffer, after first replacing a shared read-only mask
      array by a copy (indexer.py:188-221, qube.py:1974-1976) -/
  | writeMask (v : Int)
  /-- an in-place operator that rebinds `_values_` to a new array (dtype change, Python-scalar values) -/
  | rebindVals (v : Int)
  /-- `set_units(u)` -/
  | setUnits (u : Option Nat)
  /-- `as_readonly()` -/
  | freeze
  deriving Repr

def applyMut (h : Heap) (t : Nat) : Mut → Heap
  | .write v =>
    match (h.obj t).vals with
    | some a => if (h.arr a).wr && !(h.obj t).ro then { h with buf := upd h.buf (h.arr a).buf v } else h
    | none => h
  | .writeMask v =>
    if (h.obj t).ro then h else
    match (h.obj t).mask with
    | some a =>
      if (h.arr a).wr then { h with buf := upd h.buf (h.arr a).buf v }
      else
        let ot := h.obj t
        let ot' : Obj := { ot with mask := some h.next }
        { h with arr := upd h.arr h.next ⟨h.next, true⟩, buf := upd h.buf h.next v,
                 obj := upd h.obj t ot', next := h.next + 1 }
    | none => h
  | .rebindVals v =>
    if (h.obj t).ro then h else
    let ot := h.obj t
    let ot' : Obj := { ot with vals := some h.next }
    { h with arr := upd h.arr h.next ⟨h.next, true⟩, buf := upd h.buf h.next v, obj := upd h.obj t ot',
             next := h.next + 1 }
  | .setUnits u =>
    if (h.obj t).ro then h else
    let ot := h.obj t
    let ot' : Obj := { ot with units := u }
    { h with obj := upd h.obj t ot' }
  | .freeze =>
    let h1 := (h.setWrOpt (h.obj t).vals).setWrOpt (h.obj t).mask
    let ot := h1.obj t
    let ot' : Obj := { ot with ro := true }
    { h1 with obj := upd h1.obj t ot' }

/-- a history: each step mutates the first (`true`) or the second (`false`) of two objects -/
def runHist (h : Heap) (a b : Nat) : List (Bool × Mut) → Heap
  | [] => h
  | (side, m) :: rest => runHist (applyMut h (if side then a else b) m) a b rest

/-! #### objects WITH derivatives -/

/-- `copy(recursive=False)` of every derivative, in dictionary order (qube.py:2060-2063) -/
def copyDerivs (h : Heap) : List (Nat × Nat) → Heap × List (Nat × Nat)
  | [] => (h, [])
  | (k, d) :: rest =>
    let r := copyFlat h d
    let r2 := copyDerivs r.1 rest
    (r2.1, (k, r.2) :: r2.2)

/-- `Qube.copy()` (qube.py copy): the object itself by `copyFlat`, then each derivative by `copyFlat`, inserted into
    the new object -/
def copyObj (h : Heap) (o : Nat) : Heap × Nat :=
  let r := copyFlat h o
  let r2 := copyDerivs r.1 (h.obj o).derivs
  let oc := r2.1.obj r.2
  let oc' : Obj := { oc with derivs := r2.2 }
  ({ r2.1 with obj := upd r2.1.obj r.2 oc' }, r.2)

/-- the in-place public API of an object with derivatives -/
inductive MutT where
  /-- a storage mutation of the object itself -/
  | own (m : Mut)
  /-- a storage mutation of its derivative `k` (`t.d_dk[...] = v`, `t.d_dk *= 2` …); KeyError if absent -/
  | deriv (k : Nat) (m : Mut)
  /-- `t.insert_deriv(k, d)` with an operand `d` that is not an alias of anything else: a new object on new arrays
      replaces/creates entry `k` (refused on a read-only object) -/
  | insertDeriv (k : Nat) (v : Int)
  /-- `t.delete_deriv(k)` / `delete_derivs()` entry by entry (refused on a read-only object) -/
  | deleteDeriv (k : Nat)
  deriving Repr

def applyMutT (h : Heap) (t : Nat) : MutT → Heap
  | .own m => applyMut h t m
  | .deriv k m =>
    match (h.obj t).derivs.lookup k with
    | some d => applyMut h d m
    | none => h
  | .insertDeriv k v =>
    if (h.obj t).ro then h else
    let n := h.next
    let d : Obj := ⟨some n, some (n + 1), none, [], false⟩
    let ot := h.obj t
    let ot' : Obj := { ot with derivs := (k, n + 2) :: ot.derivs.filter (fun p => p.1 != k) }
    { h with arr := upd (upd h.arr n ⟨n, true⟩) (n + 1) ⟨n + 1, true⟩,
             buf := upd (upd h.buf n v) (n + 1) 0,
             obj := upd (upd h.obj (n + 2) d) t ot', next := n + 3 }
  | .deleteDeriv k =>
    if (h.obj t).ro then h else
    let ot := h.obj t
    let ot' : Obj := { ot with derivs := ot.derivs.filter (fun p => p.1 != k) }
    { h with obj := upd h.obj t ot' }

def runHistT (h : Heap) (a b : Nat) : List (Bool × MutT) → Heap
  | [] => h
  | (side, m) :: rest => runHistT (applyMutT h (if side then a else b) m) a b rest

/-! #### aliased `insert_deriv` operands, and Units -/

/-- `t.insert_deriv(k, d)` where `d` is ANY existing object — possibly the other object of a copy pair or one of its
    derivatives.  `insert_deriv` (qube.py insert_deriv: "hold a separate shallow copy") always stores a NEW object on
    the operand's ndarrays (`deriv.wod.as_float()` of a float object without derivatives is the object itself, which
    is then cloned); refused on a read-only object. -/
def insertAlias (h : Heap) (t k d : Nat) : Heap :=
  if (h.obj t).ro then h else
  let od := h.obj d
  let c : Obj := ⟨od.vals, od.mask, od.units, [], od.ro⟩
  let ot := h.obj t
  let ot' : Obj := { ot with derivs := (k, h.next) :: ot.derivs.filter (fun p => p.1 != k) }
  { h with obj := upd (upd h.obj h.next c) t ot', next := h.next + 1 }

/-- `u.set_name(v)` (units.py set_name): the in-place API of a Units object.  The registries `Units.NAME_TO_UNIT`,
    `TUPLES_TO_UNIT`, `…_LIST` are modelled in the same sort of cell: one cell per entry (its value = the unit the
    entry points to) and one per dictionary for its key set, so that rebinding or adding an entry is a `setName` on a
    cell that existed before the call. -/
def renameUnits (h : Heap) (u : Nat) (v : Int) : Heap := { h with uname := upd h.uname u v }

/-- the unit name an object shows (`str(x)` prints it) -/
def Heap.unitName (h : Heap) (x : Nat) : Option Int := (h.obj x).units.map h.uname

namespace Summary
/-- `Units.mul_units(u, None, name)` / `div_units` as repaired (units.py mul_units): the operand itself when no name
    is given, a new Units object carrying the name otherwise; `u1 * u2`, `u ** p`, `units_power`, `sqrt_units`: new -/
def unitsMulNone (named : Bool) : List Eff :=
  if named then [.arg 1 0, .newUnits 0, .setName 0 7] else [.arg 0 0]
def unitsNew : List Eff := [.arg 1 0, .newUnits 0, .setName 0 7]
/-- a write into a registry (`Units.NAME_TO_UNIT[name] = u`): argument 1 is the registry entry cell -/
def registryWrite : List Eff := [.arg 1 1, .setName 1 5, .arg 0 0]
end Summary

end PMV.Heap
