/-
  The numeric interface the derivative model (Model/Dual.lean) is polymorphic in.
  Mathlib-free.  Two instances exist:
    * `Float` (here)            — what the compiled driver `driver_c06` runs (T1 correspondence),
    * `ℝ`     (Props/C06.lean)  — noncomputable, fields are `Real.sin`, `Real.arctan`, … ; the
                                  theorems are stated for this instance.
  No laws are part of the class: the model files never reason, they only compute.
-/
namespace PMV

class Num (K : Type) extends Add K, Sub K, Mul K, Div K, Neg K where
  ofInt : Int → K
  /-- the literal `0.5` of the source (scalar.py:593 `0.5 / obj`) -/
  half : K
  pi : K
  sin : K → K
  cos : K → K
  tan : K → K
  exp : K → K
  log : K → K
  sqrt : K → K
  asin : K → K
  acos : K → K
  atan : K → K
  /-- `np.arctan2(y, x)` -/
  atan2 : K → K → K
  /-- `np.abs` -/
  abs : K → K
  /-- `values ** expo` for a general real exponent (scalar.py:1581, 1605) -/
  pow : K → K → K
  /-- strict order test used by the mask predicates (`mask_where_lt`, `mask_where_eq`, …) -/
  lt : K → K → Bool

namespace Num
variable {K : Type} [Num K]

@[inline] def zero : K := ofInt 0
@[inline] def one : K := ofInt 1
@[inline] def two : K := ofInt 2

/-- `x != 0` as the source tests it (`mask_where_eq(0.)` masks exactly the zeros) -/
@[inline] def nz (x : K) : Bool := lt x zero || lt zero x

/-- `np.sign`: -1, 0 or +1 (scalar.py:676-700) -/
@[inline] def sign (x : K) : K := if lt x zero then ofInt (-1) else if lt zero x then ofInt 1 else ofInt 0

end Num

instance : Num Float where
  ofInt := Float.ofInt
  half := 0.5
  pi := 3.141592653589793
  sin := Float.sin
  cos := Float.cos
  tan := Float.tan
  exp := Float.exp
  log := Float.log
  sqrt := Float.sqrt
  asin := Float.asin
  acos := Float.acos
  atan := Float.atan
  atan2 := Float.atan2
  abs := Float.abs
  pow := Float.pow
  lt := fun a b => a < b

end PMV
