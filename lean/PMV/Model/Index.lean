import PMV.Model.NpIndex
/-
  polymath/extensions/indexer.py — `_prep_index`, `_prep_scalar_index`, `__getitem__`, iteration —
  modelled statement by statement on functional arrays (PMV.Core.Arr) and on top of the NumPy
  kernel PMV.Model.NpIndex.  The tree modelled is the repaired one (branch wt-C09).
  `none` = IndexError throughout (every failure inside `_prep_index` is converted to IndexError by
  its `except` clause, lines 520-521; NumPy's own indexing failures are IndexErrors).  Mathlib-free.
-/
namespace PMV.Index
open PMV PMV.NpIndex

/-- `_mask_` of a Qube (also of an index object): a single bool or a bool array of the leading shape -/
inductive Mask where
  | all (b : Bool)
  | arr (a : Arr Bool)

namespace Mask
/-- expanded view -/
def bit : Mask → Index → Bool
  | all b, _ => b
  | arr a, i => a.get i
/-- `np.any(mask)` for a mask belonging to leading shape `sh` -/
def any (m : Mask) (sh : Shape) : Bool :=
  match m with
  | all b => b
  | arr a => (indices sh).any a.get
end Mask

/-- one item of the index tuple as the user wrote it (slices abstracted as coordinate lists;
    `full` records whether the slice is literally `slice(None, None, None)`, which is all that
    `_prep_scalar_index` asks of a slice) -/
inductive Entry where
  | none
  | ell
  | slice (full : Bool) (l : List Nat)
  /-- Python int, NumPy integer, or an integer Scalar of shape () with mask `m` -/
  | int (k : Int) (m : Bool)
  /-- Python bool, `np.bool_`, or a Boolean of shape () with mask `m` -/
  | bool (v m : Bool)
  /-- integer ndarray / list / Scalar with a shape -/
  | iarr (v : Arr Int) (m : Mask)
  /-- bool ndarray / Boolean with a shape -/
  | barr (v : Arr Bool) (m : Mask)
  /-- integer Pair / Vector with `n` components -/
  | vec (n : Nat) (v : Arr (List Int)) (m : Mask)
  | float
  | bad

namespace Entry
def isEll : Entry → Bool
  | ell => true | _ => false
end Entry

/-- indexer.py:278-297 with Vector.as_index_and_mask (vector.py:186-237, `purge=False`,
    `masked=None`): a Pair/Vector index becomes one integer index per component; the mask stays
    on the first (and is the plain `False` when nothing is masked). -/
def expandEntry : Entry → List Entry
  | .vec n v m =>
    let m' := if m.any v.shape then m else Mask.all false
    (List.range n).map fun j =>
      let mj := if j = 0 then m' else Mask.all false
      if v.shape = [] then Entry.int ((v.get []).getD j 0) (mj.bit [])
      else Entry.iarr ⟨v.shape, fun i => (v.get i).getD j 0⟩ mj
  | e => [e]

def expand (es : List Entry) : List Entry := es.flatMap expandEntry

/-- indexer.py:309-322: input axes a (expanded) item moves `inloc` forward by -/
def Entry.advance : Entry → Nat
  | .none => 0
  | .ell => 0
  | .barr v _ => v.shape.length
  | _ => 1

/-- indexer.py:306-322 -/
def inlocsFrom : Nat → List Entry → List Nat
  | _, [] => []
  | loc, e :: r => loc :: inlocsFrom (loc + e.advance) r

def totalAdvance (es : List Entry) : Nat := (es.map Entry.advance).sum

/-- the post-mask accumulator of `_prep_index`: `False`/`True` or an array -/
inductive PostMask where
  | all (b : Bool)
  | arr (a : Arr Bool)

/-- `post_mask = post_mask | mask_vals` (NumPy broadcasting; failure is an exception) -/
def PostMask.orArr : PostMask → Arr Bool → Option PostMask
  | .all b, a => some (.arr (a.map (b || ·)))
  | .arr p, a => (Arr.map2 (· || ·) p a).map .arr

/-- what one item does to the post-mask -/
inductive PostUpd where
  | keep
  | setTrue
  | orArr (a : Arr Bool)

def PostUpd.apply : PostUpd → PostMask → Option PostMask
  | .keep, p => some p
  | .setTrue, _ => some (.all true)
  | .orArr a, p => p.orArr a

/-- smallest element of `range n` not in `used`, else -1  (indexer.py:433-448; the code takes an
    arbitrary element of the set — which one is not observable) -/
def unusedIndex (n : Nat) (used : List Int) : Int :=
  match (List.range n).find? (fun k => !used.contains (Int.ofNat k)) with
  | some k => Int.ofNat k
  | none => -1

/-- indexer.py:424-425: `out_of_bounds_mask` -/
def oobAt (n : Nat) (v : Arr Int) (i : Index) : Bool :=
  decide (v.get i ≥ (n : Int)) || decide (v.get i < -(n : Int))

/-- indexer.py:426-431: `mask_vals` after `Qube.or_(mask_vals, out_of_bounds_mask)` -/
def prepIntArrMask (n : Nat) (v : Arr Int) (m : Mask) : Mask :=
  if (indices v.shape).any (oobAt n v) then
    match m with
    | .all true => .all true
    | .all false => .arr ⟨v.shape, oobAt n v⟩
    | .arr a => .arr ⟨v.shape, fun i => a.get i || oobAt n v i⟩
  else m

/-- indexer.py:433-453: the values handed to NumPy, given the final `mask_vals` -/
def prepIntArrVals (n : Nat) (v : Arr Int) (mv : Mask) (anyMasked : Bool) : Index → Int :=
  let ix := indices v.shape
  let modn : Index → Int := fun i => v.get i % (n : Int)
  let unused : Int :=
    match mv with
    | .arr a => unusedIndex n ((ix.filter fun i => !a.get i).map modn)
    | .all true => -1
    | .all false => unusedIndex n (ix.map modn)
  fun i => if anyMasked && mv.bit i then unused else modn i

/-- indexer.py:457-460: contribution to the post-mask -/
def prepIntArrUpd (v : Arr Int) (mv : Mask) : PostUpd :=
  match mv with
  | .arr a => .orArr ⟨v.shape, a.get⟩
  | .all true => .setTrue
  | .all false => .keep

/-- indexer.py:419-464, integer array item on an axis of length `n` -/
def prepIntArr (n : Nat) (v : Arr Int) (m : Mask) : NEntry × PostUpd × Shape :=
  let anyOob := (indices v.shape).any (oobAt n v)
  let mv := prepIntArrMask n v m
  let anyMasked := if anyOob then true else mv.any v.shape
  (.arr ⟨v.shape, prepIntArrVals n v mv anyMasked⟩, prepIntArrUpd v mv, v.shape)

/-- indexer.py:466-488, one integer item -/
def prepInt (n : Nat) (k : Int) (m : Bool) : NEntry × PostUpd :=
  let k1 := if !m && decide (k < 0) then k + (n : Int) else k
  let m1 := if !m then decide (k1 < 0) || decide (k1 ≥ (n : Int)) else true
  if m1 then (.int 0, .setTrue) else (.int (k1 % (n : Int)), .keep)

/-- indexer.py:364-410, Boolean items -/
def prepBoolArr (shape : Shape) (inloc : Nat) (v : Arr Bool) (m : Mask) :
    Option (NEntry × PostUpd × Shape) :=
  if (shape.drop inloc).take v.shape.length = v.shape then
    let index : Arr Bool := ⟨v.shape, fun i => v.get i || m.bit i⟩
    let tr := trues index
    let upd : PostUpd :=
      match m with
      | .arr a => .orArr ⟨[tr.length], fun i => a.get (tr.getD (i.headD 0) [])⟩
      | .all true => .setTrue
      | .all false => .keep
    some (.barr index, upd, [tr.length])
  else none

def prepBool (n : Nat) (v m : Bool) : NEntry × PostUpd :=
  if m then (.coords (List.range (min 1 n)), .setTrue)        -- slice(0,1)
  else if v then (.coords (List.range n), .keep)                -- slice(None)
  else (.coords [], .keep)                                      -- slice(0,0)

/-- indexer.py:343-495: one (expanded) item at input location `inloc` -/
def prepEntry (shape : Shape) (inloc : Nat) : Entry → Option (NEntry × PostUpd × Option Shape)
  | .none => some (.newaxis, .keep, none)
  | .ell => some (.ell, .keep, none)
  | e =>
    match shape[inloc]? with
    | none => none                                   -- axis_length = self._shape_[inloc]
    | some n =>
      match e with
      | .barr v m => (prepBoolArr shape inloc v m).map fun (p, u, s) => (p, u, some s)
      | .bool v m => let (p, u) := prepBool n v m; some (p, u, none)
      | .iarr v m => let (p, u, s) := prepIntArr n v m; some (p, u, some s)
      | .int k m => let (p, u) := prepInt n k m; some (p, u, none)
      | .slice _ l => some (.coords l, .keep, none)
      | _ => none                                    -- float index, invalid index type

/-- the loop of indexer.py:343-495 -/
def prepLoop (shape : Shape) : List Entry → List Nat → PostMask →
    Option (List NEntry × PostMask × List Shape)
  | [], _, post => some ([], post, [])
  | e :: es, inloc :: locs, post =>
    match prepEntry shape inloc e with
    | none => none
    | some (p, u, s) =>
      match u.apply post with
      | none => none
      | some post' =>
        match prepLoop shape es locs post' with
        | none => none
        | some (ps, post'', ss) => some (p :: ps, post'', s.toList ++ ss)
  | _ :: _, [], _ => none

/-- everything `_prep_index` returns -/
structure Prep where
  pre : List NEntry
  post : PostMask
  hasEll : Bool
  moved : Bool
  arrayShape : Shape
  loc : Nat

def PostMask.all? (p : PostMask) : Bool :=
  match p with
  | .all b => b
  | .arr a => (indices a.shape).all a.get

def PostMask.any? (p : PostMask) : Bool :=
  match p with
  | .all b => b
  | .arr a => (indices a.shape).any a.get

/-- indexer.py:497-528 (repaired): where the array axes go -/
def locate (pre : List NEntry) (ellK : Option Nat) (correction : Nat) : Nat × Bool :=
  match pre.findIdx? NEntry.isArr with
  | none => (0, false)
  | some k0 =>
    let kLast := pre.length - 1 - (pre.reverse.findIdx? NEntry.isArr).getD 0
    let ahead := pre.take k0
    let loc0 := (ahead.filter fun p => match p with | .newaxis => true | .coords _ => true | _ => false).length
    let loc : Nat := match ellK with
      | some k => if k < k0 then loc0 + correction else loc0
      | none => loc0
    let isAdv := pre.map NEntry.isAdv
    let moved := decide (loc > 0) && !(((isAdv.take kLast).drop k0).all id)
    if !moved && separated isAdv then (0, false) else (loc, moved)

/-- `_prep_index`, indexer.py:248-528 -/
def prepIndex (shape : Shape) (indx : List Entry) : Option Prep :=
  let ex := expand indx
  if (ex.filter Entry.isEll).length > 1 then none
  else
    let ellK := ex.findIdx? Entry.isEll
    let total := totalAdvance ex
    if ellK.isSome && total > shape.length then none       -- 'too many indices for array'
    else
      let correction := shape.length - total
      let locs0 := inlocsFrom 0 ex
      let locs := match ellK with
        | some k => locs0.zipIdx.map fun (l, j) => if j > k then l + correction else l
        | none => locs0
      match prepLoop shape ex locs (.all false) with
      | none => none
      | some (pre, post, shapes) =>
        match bcastAll shapes with
        | none => none
        | some ashape =>
          let (loc, moved) := locate pre ellK correction
          let post' : PostMask :=
            if !(ashape.all (· != 0)) then .all false
            else if post.all? then .all true
            else post
          some ⟨pre, post', ellK.isSome, moved, ashape, loc⟩

/-- the result of `__getitem__` on one array-with-mask: shape, source coordinate per element, mask -/
structure Result where
  shape : Shape
  src : Index → Index
  mask : Mask

def Result.maskedAt (r : Result) (o : Index) : Bool := r.mask.bit o

/-- `np.moveaxis(m, (0..r-1), (loc..loc+r-1))` on a mask array -/
def moveFrontArr (loc r : Nat) (a : Arr Bool) : Arr Bool :=
  let B := a.shape.take r
  let rest := a.shape.drop r
  ⟨rest.take loc ++ B ++ rest.drop loc,
   fun o => a.get ((o.drop loc).take r ++ (o.take loc ++ o.drop (loc + r)))⟩

/-- the post-mask aligned with the result axes indexed by arrays (`loc`), as a predicate on result
    coordinates: `np.broadcast_to(post_mask, array_shape).reshape(array_shape + axes*(1,))`
    broadcast against the result shape -/
def alignedPost (p : Arr Bool) (ashape : Shape) (loc : Nat) (o : Index) : Bool :=
  p.get (bidx p.shape ((o.drop loc).take ashape.length))

/-- `__getitem__`, indexer.py:28-85 (shape with at least one axis), on the leading axes -/
def getitemShaped (shape : Shape) (mask : Mask) (indx : List Entry) : Option Result :=
  match prepIndex shape indx with
  | none => none
  | some p =>
    match npIndex shape p.pre with
    | none => none
    | some s =>
      -- Apply index to mask
      let rmask : Mask :=
        if !p.post.any? then
          match mask with
          | .arr a => .arr ⟨s.shape, fun o => a.get (s.src o)⟩
          | .all b => .all b
        else if p.post.all? then .all true
        else
          match p.post with
          | .all b => .all b            -- not reached: a scalar post-mask is all-or-nothing
          | .arr pm =>
            let loc := if p.moved then 0 else p.loc
            match mask with
            | .arr a => .arr ⟨s.shape, fun o => a.get (s.src o) || alignedPost pm p.arrayShape loc o⟩
            | .all true => .all true
            | .all false => .arr ⟨s.shape, fun o => alignedPost pm p.arrayShape loc o⟩
      -- Relocate the axes indexed by arrays if necessary
      if p.moved then
        let s' := moveFront p.loc p.arrayShape.length s
        let m' := match rmask with
          | .arr a => .arr (moveFrontArr p.loc p.arrayShape.length a)
          | .all b => .all b
        some ⟨s'.shape, s'.src, m'⟩
      else some ⟨s.shape, s.src, rmask⟩

/-- `_prep_scalar_index`, indexer.py:524-593: state of the loop -/
structure SState where
  hasEll : Bool := false
  hasBool : Bool := false
  masked : Bool := false
  sizeZero : Bool := false
  before : List Nat := []
  after : List Nat := []

def SState.push (s : SState) (n : Nat) : SState :=
  if s.hasEll then { s with after := s.after ++ [n] } else { s with before := s.before ++ [n] }

/-- one item of the loop (indexer.py:554-591) -/
def scalarStep (s : SState) : Entry → Option SState
  | .bool v m =>
    -- a Boolean of shape () that is masked counts as True and masks the result
    if s.hasBool then none
    else
      let item := m || v
      let s1 : SState := { s with masked := s.masked || m, sizeZero := !item, hasBool := true }
      some (if item then s1 else s1.push 0)
  | .ell => if s.hasEll then none else some { s with hasEll := true }
  | .none => some (s.push 1)
  | .slice full _ => if full then some s else none
  | _ => none

def scalarLoop : SState → List Entry → Option SState
  | s, [] => some s
  | s, e :: es => match scalarStep s e with
    | none => none
    | some s' => scalarLoop s' es

/-- `__getitem__` on a shapeless object, indexer.py:11-26 -/
def getitemScalar (mask : Bool) (indx : List Entry) : Option Result :=
  match scalarLoop {} indx with
  | none => none
  | some s =>
    -- as_size_zero() has shape (0,), as_all_masked() and self have shape (); then reshape
    let m := if s.sizeZero then mask else if s.masked then true else mask
    some ⟨s.before ++ s.after, fun _ => [], .all m⟩

def getitem (shape : Shape) (mask : Mask) (indx : List Entry) : Option Result :=
  if shape = [] then getitemScalar (mask.bit []) indx else getitemShaped shape mask indx

/-- an object with derivatives and a leading shape: `__getitem__` recurses with the same index
    (indexer.py:88-90) -/
def getitemShapedObj (shape : Shape) (masks : List Mask) (indx : List Entry) : Option (List Result) :=
  masks.mapM fun m => getitem shape m indx

/-- a SHAPELESS object with derivatives (indexer.py:11-26): the derivatives are not indexed one by
    one; they follow `as_size_zero()` / `as_all_masked()` / `reshape()` of the object
    (`Qube.as_all_masked`, qube.py, masks every derivative — also when the object itself is already
    masked, since 33685c7). -/
def getitemScalarObj (mask : Bool) (dmasks : List Bool) (indx : List Entry) : Option (List Result) :=
  match scalarLoop {} indx with
  | none => none
  | some s =>
    let shp := s.before ++ s.after
    let m := if s.sizeZero then mask else if s.masked then true else mask
    let dm : Bool → Bool := fun d =>
      if s.sizeZero then d else if s.masked then true else d
    some (⟨shp, fun _ => [], .all m⟩ :: dmasks.map fun d => ⟨shp, fun _ => [], .all (dm d)⟩)

/-- `__getitem__` of an object (first mask) with its derivatives (remaining masks) -/
def getitemObj (shape : Shape) (masks : List Mask) (indx : List Entry) : Option (List Result) :=
  match shape, masks with
  | [], m :: ds => getitemScalarObj (m.bit []) (ds.map (·.bit [])) indx
  | _, _ => getitemShapedObj shape masks indx

/-- `QubeIterator` (iterator.py:9-31): `obj[0], obj[1], …`; a shapeless object yields itself -/
def iterate (shape : Shape) (masks : List Mask) : List (Option (List Result)) :=
  match shape with
  | [] => [masks.mapM fun m => some ⟨[], fun _ => [], m⟩]
  | n :: _ => (List.range n).map fun i => getitemObj shape masks [.int (Int.ofNat i) false]

/-- `QubeNDIterator` (iterator.py:39-66) -/
def ndenumerate (shape : Shape) (masks : List Mask) : List (Index × Option (List Result)) :=
  match shape with
  | [] => [([0], masks.mapM fun m => some ⟨[], fun _ => [], m⟩)]
  | _ => (indices shape).map fun i => (i, getitemObj shape masks (i.map fun k => .int (Int.ofNat k) false))

/-- `__len__`, qube.py:2867-2872; `none` = TypeError -/
def len (shape : Shape) : Option Nat := shape.head?

end PMV.Index
