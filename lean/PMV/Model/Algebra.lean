import PMV.Core.Arr
/-
  C16 view: vector, matrix, rotation and quaternion algebra.

  Everything is polymorphic in a type `K` that only carries the notation classes of core Lean
  (`Add Mul Sub Neg Zero One`, `Div` and decidable equality where the code divides or tests
  `== 0`).  The driver runs the `Rat` instance (exact: every float64 is a rational); the
  theorems of `PMV/Props/C16.lean` are proved for an arbitrary commutative ring / field.
  Square roots, sines, cosines, `np.sign` and LAPACK are PARAMETERS of the functions that use
  them (the theorems state the contract they need, e.g. `n * n = norm_sq v`).

  Layout of an operand (polymath/qube.py): `_values_` has shape `shape + numer + denom`;
  one mask bit per leading element.  `Item` is the slice of one leading element, a total
  function on item indices `numer-index ++ denom-index`.

  Source map
    sumRange, padding, rollEnd, mulB, dotItem      polymath/extensions/math_ops.py:165-245
    normSqItem                                     math_ops.py:321-359
    crossItem, cross3, cross2                      math_ops.py:371-507
    outerItem                                      math_ops.py:510-552
    transposeItem                                  polymath/extensions/item_ops.py:156-194
    elementMulItem / elementDiv                    polymath/vector.py:580-626, 646-693
    divByScalar, unit, perp, proj                  polymath/qube.py:3426-3442, vector.py:400-503
    inverseElem / inverseMasks                     polymath/matrix.py:321-366
    xRot yRot zRot axisRot                         polymath/matrix3.py:139-267
    axes2tuple, nextAxis, eulerIJK, fromEuler      matrix3.py:417-519
    qMul qConj qNormSq qRecip                      polymath/quaternion.py:160-174, 612-640, 673-686
    qToMatrix3                                     quaternion.py:183-244
    fromParts toParts                              quaternion.py:59-101, 122-126
    qEulerIJK, qFromEulerRaw, qScale, qFromEuler   quaternion.py:734-805
    argmax3, fromMatrix3, fromMatrix3Rsq           quaternion.py:439-482
    atan2SC, toEuler                               matrix3.py:522-589
    crossV, ucross, twovecAssemble, twovec         matrix3.py:59-95, vector.py:448-458
    poleRot, fromRotation                          matrix3.py:273-301, quaternion.py:129-146
    spinCore, sepCos                               vector3.py:236-242, vector.py:519-532 (not executed by the driver)
-/
namespace PMV.Algebra
open PMV

/-! ## sums, index maps -/

section basic
variable {K : Type}

/-- `np.sum(…, axis=-1)` over an axis of length `n`: Σ_{t<n} f t -/
def sumRange [Add K] [Zero K] : Nat → (Nat → K) → K
  | 0, _ => 0
  | n + 1, f => sumRange n f + f n

/-- insert `t` at position `k` -/
def insAt (k : Nat) (t : Nat) (l : List Nat) : List Nat := l.take k ++ t :: l.drop k

/-- NumPy broadcasting of an index onto an operand of the SAME rank (the code pads both
    arrays with length-1 axes to equal rank first): length-1 axes read position 0 -/
def bz (s : Shape) (i : Index) : Index := List.zipWith (fun n x => if n = 1 then 0 else x) s i

/-- broadcast of two shapes of the same rank (None = NumPy's ValueError) -/
def bshape : Shape → Shape → Option Shape
  | [], [] => some []
  | x :: xs, y :: ys =>
    match bshape xs ys with
    | none => none
    | some r => if x = y then some (x :: r) else if x = 1 then some (y :: r)
                else if y = 1 then some (x :: r) else none
  | _, _ => none

/-- one leading element of an object: values indexed by `numer-index ++ denom-index` -/
structure Item (K : Type) where
  numer : Shape
  denom : Shape
  get : Index → K

/-- `np.rollaxis(x, k, x.ndim)`: axis `k` becomes the last axis -/
def rollEnd (k : Nat) (x : Arr K) : Arr K :=
  ⟨x.shape.eraseIdx k ++ [x.shape.getD k 1], fun i => x.get (insAt k (i.getLastD 0) i.dropLast)⟩

/-- `np.rollaxis(x, -1, pos)`: the last axis moves to position `pos` -/
def rollFromEnd (pos : Nat) (x : Arr K) : Arr K :=
  ⟨insAt pos (x.shape.getLastD 1) x.shape.dropLast, fun i => x.get (i.eraseIdx pos ++ [i.getD pos 0])⟩

/-- `array1 * array2` of two arrays of equal rank, with broadcasting -/
def mulB [Mul K] (x y : Arr K) : Option (Arr K) :=
  (bshape x.shape y.shape).map fun out => ⟨out, fun i => x.get (bz x.shape i) * y.get (bz y.shape i)⟩

/-- `np.sum(x, axis=-1)` -/
def sumLast [Add K] [Zero K] (x : Arr K) : Arr K :=
  ⟨x.shape.dropLast, fun o => sumRange (x.shape.getLastD 0) fun t => x.get (o ++ [t])⟩

/-- axis normalisation of dot/cross/norm (`if axis >= 0 … else axis + nrank`, range test) -/
def normAx (nrank : Nat) (a : Int) : Option Nat :=
  let a1 := if a ≥ 0 then a else a + nrank
  if a1 < 0 ∨ a1 ≥ nrank then none else some a1.toNat

/-- `arg1._values_.reshape(numer1 + (nrank2-1)*(1,) + denom1 + drank2*(1,))` (item part):
    only length-1 axes are inserted, so an index reads the source at the same position
    with the inserted components dropped -/
def pad1 (a : Item K) (ones2 : Nat) (dr2 : Nat) : Arr K :=
  ⟨a.numer ++ List.replicate ones2 1 ++ a.denom ++ List.replicate dr2 1,
   fun i => a.get (i.take a.numer.length ++ (i.drop (a.numer.length + ones2)).take a.denom.length)⟩

/-- `arg2._values_.reshape((nrank1-1)*(1,) + numer2 + drank1*(1,) + denom2)` (item part) -/
def pad2 (b : Item K) (ones1 : Nat) (dr1 : Nat) : Arr K :=
  ⟨List.replicate ones1 1 ++ b.numer ++ List.replicate dr1 1 ++ b.denom,
   fun i => b.get ((i.drop ones1).take b.numer.length ++ i.drop (ones1 + b.numer.length + dr1))⟩

inductive Err where
  | valueError
  deriving Repr, DecidableEq

/-- `Qube.dot(arg1, arg2, axis1, axis2)` on one pair of leading elements (math_ops.py:184-239):
    dual-denominator test, axis positioning, length test, reshape, roll, multiply, sum. -/
def dotItem [Add K] [Mul K] [Zero K] (a b : Item K) (axis1 axis2 : Int) : Except Err (Item K) :=
  if a.denom.length ≠ 0 ∧ b.denom.length ≠ 0 then .error .valueError else
  match normAx a.numer.length axis1, normAx b.numer.length axis2 with
  | some a1, some a2 =>
    if a.numer.getD a1 0 ≠ b.numer.getD a2 0 then .error .valueError else
    let array1 := pad1 a (b.numer.length - 1) b.denom.length
    let array2 := pad2 b (a.numer.length - 1) a.denom.length
    let k2 := a2 + (a.numer.length - 1)
    let r1 := rollEnd a1 array1
    let r2 := rollEnd k2 array2
    match mulB r1 r2 with
    | none => .error .valueError
    | some p =>
      let s := sumLast p
      let nn := a.numer.length + b.numer.length - 2
      .ok ⟨s.shape.take nn, s.shape.drop nn, s.get⟩
  | _, _ => .error .valueError

/-- the index-sum reference of a contraction (what `np.einsum` computes):
    result[o1 ++ o2 ++ d] = Σ_t a[o1 with t at a1 ++ d1] * b[o2 with t at a2 ++ d2] -/
def einsumRef [Add K] [Mul K] [Zero K] (a b : Item K) (a1 a2 : Nat) (o1 o2 d1 d2 : Index) : K :=
  sumRange (a.numer.getD a1 0) fun t => a.get (insAt a1 t o1 ++ d1) * b.get (insAt a2 t o2 ++ d2)

/-- `Qube.norm_sq(arg, axis)` on one element (math_ops.py:336-352); no denominators -/
def normSqItem [Add K] [Mul K] [Zero K] (a : Item K) (axis : Int) : Except Err (Item K) :=
  if a.denom.length ≠ 0 then .error .valueError else
  match normAx a.numer.length axis with
  | some a1 =>
    .ok ⟨a.numer.eraseIdx a1, [], fun o => sumRange (a.numer.getD a1 0) fun t =>
          a.get (insAt a1 t o) * a.get (insAt a1 t o)⟩
  | none => .error .valueError

/-- `cross_3x3(a, b)` on the broadcast arrays: new last axis of length 3 -/
def cross3 [Mul K] [Sub K] (x y : Arr K) : Option (Arr K) :=
  (bshape x.shape y.shape).map fun out =>
    let a := fun (o : Index) (c : Nat) => x.get (bz x.shape (o ++ [c]))
    let b := fun (o : Index) (c : Nat) => y.get (bz y.shape (o ++ [c]))
    ⟨out, fun i =>
      let o := i.dropLast
      match i.getLastD 0 with
      | 0 => a o 1 * b o 2 - a o 2 * b o 1
      | 1 => a o 2 * b o 0 - a o 0 * b o 2
      | _ => a o 0 * b o 1 - a o 1 * b o 0⟩

/-- `cross_2x2(a, b)`: the last axis disappears -/
def cross2 [Mul K] [Sub K] (x y : Arr K) : Option (Arr K) :=
  (bshape x.shape y.shape).map fun out =>
    ⟨out.dropLast, fun o => x.get (bz x.shape (o ++ [0])) * y.get (bz y.shape (o ++ [1]))
                           - x.get (bz x.shape (o ++ [1])) * y.get (bz y.shape (o ++ [0]))⟩

/-- `Qube.cross(arg1, arg2, axis1, axis2)` on one pair of leading elements (math_ops.py:389-450) -/
def crossItem [Mul K] [Sub K] (a b : Item K) (axis1 axis2 : Int) : Except Err (Item K) :=
  if a.denom.length ≠ 0 ∧ b.denom.length ≠ 0 then .error .valueError else
  match normAx a.numer.length axis1, normAx b.numer.length axis2 with
  | some a1, some a2 =>
    let n := a.numer.getD a1 0
    if n ≠ b.numer.getD a2 0 ∨ (n ≠ 2 ∧ n ≠ 3) then .error .valueError else
    let array1 := pad1 a (b.numer.length - 1) b.denom.length
    let array2 := pad2 b (a.numer.length - 1) a.denom.length
    let k2 := a2 + (a.numer.length - 1)
    let r1 := rollEnd a1 array1
    let r2 := rollEnd k2 array2
    if n = 3 then
      match cross3 r1 r2 with
      | none => .error .valueError
      | some c =>
        -- new_k1 = ndim - new_drank - new_nrank + a1 : position a1 among the item axes
        let r := rollFromEnd a1 c
        let nn := a.numer.length + b.numer.length - 1
        .ok ⟨r.shape.take nn, r.shape.drop nn, r.get⟩
    else
      match cross2 r1 r2 with
      | none => .error .valueError
      | some c =>
        let nn := a.numer.length + b.numer.length - 2
        .ok ⟨c.shape.take nn, c.shape.drop nn, c.get⟩
  | _, _ => .error .valueError

/-- `Qube.outer(arg1, arg2)` on one pair of leading elements (math_ops.py:529-546) -/
def outerItem [Mul K] (a b : Item K) : Except Err (Item K) :=
  if a.denom.length ≠ 0 ∧ b.denom.length ≠ 0 then .error .valueError else
  let array1 := pad1 a b.numer.length b.denom.length
  let array2 := pad2 b a.numer.length a.denom.length
  match mulB array1 array2 with
  | none => .error .valueError
  | some p =>
    let nn := a.numer.length + b.numer.length
    .ok ⟨p.shape.take nn, p.shape.drop nn, p.get⟩

/-- swap two positions of a list -/
def swapPos {α} (l : List α) (p q : Nat) : List α :=
  match l[p]?, l[q]? with
  | some x, some y => (l.set p y).set q x
  | _, _ => l

/-- `transpose_numer(axis1, axis2)` = `np.swapaxes` (item_ops.py:167-194) -/
def transposeItem (a : Item K) (axis1 axis2 : Int) : Except Err (Item K) :=
  match normAx a.numer.length axis1, normAx a.numer.length axis2 with
  | some a1, some a2 => .ok ⟨swapPos a.numer a1 a2, a.denom, fun i => a.get (swapPos i a1 a2)⟩
  | _, _ => .error .valueError

/-- `Vector.element_mul` (vector.py:598-626): equal numerators, at most one denominator;
    the operand WITHOUT denominator is reshaped with trailing 1s -/
def elementMulItem [Mul K] (a b : Item K) : Except Err (Item K) :=
  if a.numer ≠ b.numer then .error .valueError else
  if a.denom.length ≠ 0 ∧ b.denom.length ≠ 0 then .error .valueError else
  let nr := a.numer.length
  .ok ⟨a.numer, a.denom ++ b.denom, fun i =>
        a.get (i.take (nr + a.denom.length)) * b.get (i.take nr ++ i.drop (nr + a.denom.length))⟩

end basic

/-! ## objects: leading shape, broadcasting of leading shapes, masks -/

section lifted
variable {K : Type}

/-- an object: leading shape, item shapes, values per (leading index, item index), expanded mask -/
structure Opd (K : Type) where
  shape : Shape
  numer : Shape
  denom : Shape
  val : Index → Index → K
  mask : Index → Bool

def Opd.item (a : Opd K) (i : Index) : Item K := ⟨a.numer, a.denom, a.val i⟩

/-- lift a binary item operation: leading shapes broadcast (`Qube.or_` of the masks, NumPy
    broadcasting of the value arrays), result item shapes taken from the operation -/
def lift2 (f : Item K → Item K → Except Err (Item K)) (a b : Opd K) : Except Err (Opd K) :=
  match bcast a.shape b.shape with
  | none => .error .valueError
  | some out =>
    -- validation and result item shape do not depend on the element
    match f (a.item (bidx a.shape (out.map fun _ => 0))) (b.item (bidx b.shape (out.map fun _ => 0))) with
    | .error e => .error e
    | .ok r0 =>
      .ok ⟨out, r0.numer, r0.denom,
           fun i j => match f (a.item (bidx a.shape i)) (b.item (bidx b.shape i)) with
                      | .ok r => r.get j
                      | .error _ => r0.get j,
           fun i => a.mask (bidx a.shape i) || b.mask (bidx b.shape i)⟩

def lift1 (f : Item K → Except Err (Item K)) (a : Opd K) : Except Err (Opd K) :=
  match f (a.item (a.shape.map fun _ => 0)) with
  | .error e => .error e
  | .ok r0 =>
    .ok ⟨a.shape, r0.numer, r0.denom,
         fun i j => match f (a.item i) with
                    | .ok r => r.get j
                    | .error _ => r0.get j,
         a.mask⟩

end lifted

/-! ## division by a Scalar, unit, perp, proj (square root = parameter) -/

section field
variable {K : Type} [Add K] [Mul K] [Sub K] [Neg K] [Zero K] [One K] [Div K] [DecidableEq K]

/-- a vector element: components and mask bit -/
structure VecE (K : Type) where
  n : Nat
  get : Nat → K
  m : Bool

/-- `Qube._div_by_scalar` (qube.py:3426-3442): zero divisors are masked and replaced by 1 -/
def divByScalar (v : VecE K) (d : K) (dm : Bool) : VecE K :=
  let zero := decide (d = 0)
  let d' := if zero then 1 else d
  ⟨v.n, fun i => v.get i / d', v.m || (dm || zero)⟩

def vdot (n : Nat) (a b : Nat → K) : K := sumRange n fun t => a t * b t

/-- `Vector.unit` (vector.py:400-412): `self / self.norm()`; `nrm` is the value NumPy's sqrt
    returned for `sqrt(norm_sq)` -/
def unit (v : VecE K) (nrm : K) : VecE K := divByScalar v nrm v.m

/-- `Vector.proj` (vector.py:490-503): `arg.unit() * self.dot(arg.unit())` -/
def proj (v a : VecE K) (nrm : K) : VecE K :=
  let u := unit a nrm
  let d := vdot v.n v.get u.get
  ⟨v.n, fun i => u.get i * d, u.m || (v.m || u.m)⟩

/-- `Vector.perp` (vector.py:472-487): `self - arg.unit() * self.dot(arg.unit())` -/
def perp (v a : VecE K) (nrm : K) : VecE K :=
  let p := proj v a nrm
  ⟨v.n, fun i => v.get i - p.get i, v.m || p.m⟩

/-- `Vector.element_div` (vector.py:660-693) on one element without denominators:
    any zero component of the divisor masks the whole element; zeros are replaced by 1 -/
def elementDiv (v a : VecE K) : VecE K :=
  let anyZero := (List.range a.n).any fun i => decide (a.get i = 0)
  ⟨v.n, fun i => v.get i / (if a.get i = 0 then 1 else a.get i), v.m || (a.m || anyZero)⟩

end field

/-! ## matrices as functions, matrix inverse with LAPACK as a parameter -/

section mat
variable {K : Type} [Add K] [Mul K] [Sub K] [Neg K] [Zero K] [One K]

/-- a matrix element: entries outside the dimensions are never read -/
abbrev Mat (K : Type) := Nat → Nat → K

def Mat.set (m : Mat K) (r c : Nat) (v : K) : Mat K :=
  fun r' c' => if r' = r ∧ c' = c then v else m r' c'

def Mat.zeros : Mat K := fun _ _ => 0
def Mat.ident : Mat K := fun r c => if r = c then 1 else 0
def Mat.T (m : Mat K) : Mat K := fun r c => m c r

/-- `n`-dimensional matrix product (the index-sum reference, `np.einsum('ij,jk->ik')`) -/
def Mat.mul (n : Nat) (a b : Mat K) : Mat K := fun r c => sumRange n fun t => a r t * b t c

/-- matrix times vector -/
def Mat.app (n : Nat) (a : Mat K) (v : Nat → K) : Nat → K := fun r => sumRange n fun t => a r t * v t

def det3 (m : Mat K) : K :=
  m 0 0 * (m 1 1 * m 2 2 - m 1 2 * m 2 1) - m 0 1 * (m 1 0 * m 2 2 - m 1 2 * m 2 0)
    + m 0 2 * (m 1 0 * m 2 1 - m 1 1 * m 2 0)

/-- LAPACK as used by `Matrix.inverse`: `np.linalg.det` and `np.linalg.inv` on one n×n element -/
structure Lapack (K : Type) where
  det : Nat → Mat K → K
  inv : Nat → Mat K → Mat K

/-- `Matrix.inverse(nozeros=False)` on one element (matrix.py:344-366, repaired form: the
    operand is not written to): singular elements are replaced by the identity before
    `linalg.inv` is called and are masked. Returns (values, mask). -/
def inverseElem [DecidableEq K] (L : Lapack K) (n : Nat) (m : Mat K) (msk : Bool) : Mat K × Bool :=
  let singular := decide (L.det n m = 0)
  let vals := if singular then Mat.ident else m
  (L.inv n vals, msk || singular)

/-- `Matrix.inverse(nozeros=True)` (repaired form of defect 9): no determinant test -/
def inverseElemNozeros (L : Lapack K) (n : Nat) (m : Mat K) (msk : Bool) : Mat K × Bool :=
  (L.inv n m, msk)

/-- the object-level mask decision of `inverse` (matrix.py:348-353): `new_mask = or_(mask, det==0)`
    if any determinant vanishes, else the operand's mask itself -/
def inverseMasks (masks singular : List Bool) : List Bool :=
  if singular.any id then List.zipWith (· || ·) masks singular else masks

end mat

/-! ## rotations -/

section rot
variable {K : Type} [Add K] [Mul K] [Sub K] [Neg K] [Zero K] [One K]

/-- `Matrix3.x_rotation` from `s = sin(angle)`, `c = cos(angle)` (matrix3.py:154-159) -/
def xRot (s c : K) : Mat K :=
  ((((Mat.zeros.set 1 1 c).set 1 2 s).set 2 1 (-s)).set 2 2 c).set 0 0 1

/-- `Matrix3.y_rotation` (matrix3.py:191-196) -/
def yRot (s c : K) : Mat K :=
  ((((Mat.zeros.set 0 0 c).set 0 2 s).set 2 0 (-s)).set 2 2 c).set 1 1 1

/-- `Matrix3.z_rotation` (matrix3.py:228-233) -/
def zRot (s c : K) : Mat K :=
  ((((Mat.zeros.set 0 0 c).set 0 1 (-s)).set 1 0 s).set 1 1 c).set 2 2 1

/-- `Matrix3.axis_rotation` (matrix3.py:259-267); `axis` already reduced mod 3 by Python's `%` -/
def axisRot (axis : Nat) (s c : K) : Mat K :=
  if axis % 3 = 2 then zRot s c else if axis % 3 = 0 then xRot s c else yRot s c

/-- the encoded 4-tuple of an axes string: (firstaxis, parity, repetition, frame) -/
structure Conv where
  firstaxis : Nat
  parity : Nat
  repetition : Nat
  frame : Nat
  deriving Repr, DecidableEq

/-- `_AXES2TUPLE` (matrix3.py:420-428, identical copy quaternion.py:721-729) -/
def axes2tuple : List (String × Conv) := [
  ("sxyz", ⟨0, 0, 0, 0⟩), ("sxyx", ⟨0, 0, 1, 0⟩), ("sxzy", ⟨0, 1, 0, 0⟩),
  ("sxzx", ⟨0, 1, 1, 0⟩), ("syzx", ⟨1, 0, 0, 0⟩), ("syzy", ⟨1, 0, 1, 0⟩),
  ("syxz", ⟨1, 1, 0, 0⟩), ("syxy", ⟨1, 1, 1, 0⟩), ("szxy", ⟨2, 0, 0, 0⟩),
  ("szxz", ⟨2, 0, 1, 0⟩), ("szyx", ⟨2, 1, 0, 0⟩), ("szyz", ⟨2, 1, 1, 0⟩),
  ("rzyx", ⟨0, 0, 0, 1⟩), ("rxyx", ⟨0, 0, 1, 1⟩), ("ryzx", ⟨0, 1, 0, 1⟩),
  ("rxzx", ⟨0, 1, 1, 1⟩), ("rxzy", ⟨1, 0, 0, 1⟩), ("ryzy", ⟨1, 0, 1, 1⟩),
  ("rzxy", ⟨1, 1, 0, 1⟩), ("ryxy", ⟨1, 1, 1, 1⟩), ("ryxz", ⟨2, 0, 0, 1⟩),
  ("rzxz", ⟨2, 0, 1, 1⟩), ("rxyz", ⟨2, 1, 0, 1⟩), ("rzyz", ⟨2, 1, 1, 1⟩)]

/-- the 24 conventions, as tuples -/
def allConvs : List Conv := axes2tuple.map (·.2)

def lookupAxes (s : String) : Option Conv := (axes2tuple.find? (·.1 == s)).map (·.2)

/-- `_NEXT_AXIS = [1, 2, 0, 1]` -/
def nextAxis : Nat → Nat
  | 0 => 1 | 1 => 2 | 2 => 0 | _ => 1

/-- `i = firstaxis; j = _NEXT_AXIS[i+parity]; k = _NEXT_AXIS[i-parity+1]` (matrix3.py:473-475) -/
def eulerIJK (cv : Conv) : Nat × Nat × Nat :=
  (cv.firstaxis, nextAxis (cv.firstaxis + cv.parity), nextAxis (cv.firstaxis + 1 - cv.parity))

/-- sine and cosine of an angle, as returned by libm for the angle the caller passed -/
structure SC (K : Type) where
  s : K
  c : K

/-- `-angle`: `sin(-a) = -sin a`, `cos(-a) = cos a` (exact for IEEE libm: both are symmetric) -/
def SC.neg (a : SC K) : SC K := ⟨-a.s, a.c⟩

/-- `Matrix3.from_euler` on one element (matrix3.py:473-517). `m0` is the content of the
    `np.empty` buffer the nine assignments write into. -/
def fromEuler (cv : Conv) (ai aj ak : SC K) (m0 : Mat K) : Mat K :=
  let (i, j, k) := eulerIJK cv
  let (ai, ak) := if cv.frame ≠ 0 then (ak, ai) else (ai, ak)
  let (ai, aj, ak) := if cv.parity ≠ 0 then (ai.neg, aj.neg, ak.neg) else (ai, aj, ak)
  let si := ai.s; let sj := aj.s; let sk := ak.s
  let ci := ai.c; let cj := aj.c; let ck := ak.c
  let cc := ci * ck
  let cs := ci * sk
  let sc := si * ck
  let ss := si * sk
  if cv.repetition ≠ 0 then
    ((((((((m0.set i i cj).set i j (sj * si)).set i k (sj * ci)).set j i (sj * sk)).set j j
      (-cj * ss + cc)).set j k (-cj * cs - sc)).set k i (-sj * ck)).set k j (cj * sc + cs)).set k k
      (cj * cc - ss)
  else
    ((((((((m0.set i i (cj * ck)).set i j (sj * sc - cs)).set i k (sj * cc + ss)).set j i
      (cj * sk)).set j j (sj * ss + cc)).set j k (sj * cs - sc)).set k i (-sj)).set k j
      (cj * si)).set k k (cj * ci)

/-- `Matrix3.rotate` on a 3-vector: `dot(self, arg, -1, 0)` = Σ_t M[r,t] v[t] -/
def rotate (m : Mat K) (v : Nat → K) : Nat → K := Mat.app 3 m v
/-- `Matrix3.unrotate`: `dot(self, arg, -2, 0)` = Σ_t M[t,r] v[t] -/
def unrotate (m : Mat K) (v : Nat → K) : Nat → K := fun r => sumRange 3 fun t => m t r * v t

end rot

/-! ## quaternions -/

section quat
variable {K : Type} [Add K] [Mul K] [Sub K] [Neg K] [Zero K] [One K]

structure Q4 (K : Type) where
  s : K
  x : K
  y : K
  z : K
  deriving DecidableEq, Repr

/-- `Quaternion.mul_values` (quaternion.py:620-638) -/
def qMul (a b : Q4 K) : Q4 K :=
  ⟨a.s * b.s - a.x * b.x - a.y * b.y - a.z * b.z,
   a.s * b.x + a.x * b.s + a.y * b.z - a.z * b.y,
   a.s * b.y - a.x * b.z + a.y * b.s + a.z * b.x,
   a.s * b.z + a.x * b.y - a.y * b.x + a.z * b.s⟩

/-- `Quaternion.conj` (quaternion.py:163-169): components 1..3 multiplied by -1 -/
def qConj (a : Q4 K) : Q4 K := ⟨a.s, a.x * (-1), a.y * (-1), a.z * (-1)⟩

/-- `norm_sq` of a quaternion: `np.sum(values**2, axis=-1)` -/
def qNormSq (a : Q4 K) : K := sumRange 4 fun t => match t with
  | 0 => a.s * a.s | 1 => a.x * a.x | 2 => a.y * a.y | _ => a.z * a.z

def Q4.one : Q4 K := ⟨1, 0, 0, 0⟩

/-- `Quaternion.reciprocal` (quaternion.py:685-686): `conj / norm_sq`, division by a Scalar
    masks a zero divisor and divides by 1 instead. Returns (value, mask). -/
def qRecip [Div K] [DecidableEq K] (a : Q4 K) (m : Bool) : Q4 K × Bool :=
  let c := qConj a
  let n := qNormSq a
  let zero := decide (n = 0)
  let d := if zero then 1 else n
  (⟨c.s / d, c.x / d, c.y / d, c.z / d⟩, m || (m || zero))

/-- `Quaternion.to_matrix3` (quaternion.py:203-244) on one element. `pnorm` is what
    `np.sqrt(np.sum(pvals**2))` returned and `sqrt2` what `np.sqrt(2)` returned.
    A zero norm is replaced by 1 and the element masked. Returns (values, mask). -/
def qToMatrix3 [Div K] [DecidableEq K] (sqrt2 pnorm : K) (p : Q4 K) (m : Bool) (m0 : Mat K) :
    Mat K × Bool :=
  let zero := decide (pnorm = 0)
  let pnorm := if zero then 1 else pnorm
  let f := sqrt2 / pnorm
  let s := f * p.s
  let x := f * p.x
  let y := f * p.y
  let z := f * p.z
  let sx := s * x
  let sy := s * y
  let sz := s * z
  let xx := x * x
  let yy := y * y
  let zz := z * z
  let xy := x * y
  let xz := x * z
  let yz := y * z
  (((((((((m0.set 0 0 (1 - (yy + zz))).set 0 1 (xy - sz)).set 0 2 (xz + sy)).set 1 0
    (xy + sz)).set 1 1 (1 - (xx + zz))).set 1 2 (yz - sx)).set 2 0 (xz - sy)).set 2 1
    (yz + sx)).set 2 2 (1 - (xx + yy)), m || zero)

/-- `Quaternion.from_parts(scalar, vector)` on one element (quaternion.py:95-101) -/
def fromParts (s : K) (v : Nat → K) : Q4 K := ⟨s, v 0, v 1, v 2⟩

/-- `Quaternion.to_parts` (quaternion.py:125-126): component 0 and the slice 1:4 -/
def toParts (q : Q4 K) : K × (Nat → K) :=
  (q.s, fun i => match i with | 0 => q.x | 1 => q.y | _ => q.z)

def Q4.get (q : Q4 K) : Nat → K
  | 0 => q.s | 1 => q.x | 2 => q.y | _ => q.z

def Q4.setAt (q : Q4 K) (i : Nat) (v : K) : Q4 K :=
  match i with
  | 0 => { q with s := v } | 1 => { q with x := v } | 2 => { q with y := v } | _ => { q with z := v }

/-- `i = firstaxis+1; j = _NEXT_AXIS[i+parity-1]+1; k = _NEXT_AXIS[i-parity]+1`
    (quaternion.py:763-765) -/
def qEulerIJK (cv : Conv) : Nat × Nat × Nat :=
  let i := cv.firstaxis + 1
  (i, nextAxis (i + cv.parity - 1) + 1, nextAxis (i - cv.parity) + 1)

/-- `Quaternion.from_euler` on one element (quaternion.py:763-803); the `SC` arguments are
    sine and cosine of the HALF angles as passed; `sign` is the sign normalisation of the scalar
    part, `np.where(q0 < 0, -1, 1)` (repaired form: `np.sign` annihilated q when q0 = 0) -/
def qFromEulerRaw (cv : Conv) (hi hj hk : SC K) (q0 : Q4 K) : Q4 K :=
  let (i, j, k) := qEulerIJK cv
  let (hi, hk) := if cv.frame ≠ 0 then (hk, hi) else (hi, hk)
  let hj := if cv.parity ≠ 0 then hj.neg else hj
  let ci := hi.c; let si := hi.s
  let cj := hj.c; let sj := hj.s
  let ck := hk.c; let sk := hk.s
  let cc := ci * ck
  let cs := ci * sk
  let sc := si * ck
  let ss := si * sk
  let q :=
    if cv.repetition ≠ 0 then
      (((q0.setAt 0 (cj * (cc - ss))).setAt i (cj * (cs + sc))).setAt j (sj * (cc + ss))).setAt k
        (sj * (cs - sc))
    else
      (((q0.setAt 0 (cj * cc + sj * ss)).setAt i (cj * sc - sj * cs)).setAt j
        (cj * ss + sj * cc)).setAt k (cj * cs - sj * sc)
  if cv.parity ≠ 0 then q.setAt j (q.get j * (-1)) else q

/-- multiplication of all four components by a scalar (`q *= sign[..., np.newaxis]`) -/
def qScale (c : K) (q : Q4 K) : Q4 K := ⟨q.s * c, q.x * c, q.y * c, q.z * c⟩

/-- `Quaternion.from_euler`: the four assignments and the parity flip (`qFromEulerRaw`, quaternion.py:763-801)
    followed by the sign normalisation of line 803 -/
def qFromEuler (sign : K → K) (cv : Conv) (hi hj hk : SC K) (q0 : Q4 K) : Q4 K :=
  let q := qFromEulerRaw cv hi hj hk q0
  qScale (sign q.s) q

/-- `np.argmax` of the three diagonal entries: the FIRST index holding the maximum; `le a b` is `a <= b` -/
def argmax3 (le : K → K → Bool) (d0 d1 d2 : K) : Nat :=
  if le d1 d0 && le d2 d0 then 0 else if le d2 d1 then 1 else 2

/-- `Quaternion.from_matrix3` on one element (quaternion.py:439-482, repaired form): largest diagonal
    entry i (j, k follow cyclically), `r_sq = 1 + 2*max - trace`, `r` = what `np.sqrt(r_sq)` returned,
    `s = 0.5 / r` with r = 0 replaced by 1, the four assignments into the `np.empty` buffer `q0`, scaling
    by `s`; an element with r = 0 (only the identity rotation) becomes the identity quaternion. -/
def fromMatrix3 [Div K] [DecidableEq K] (le : K → K → Bool) (r : K) (m : Mat K) (q0 : Q4 K) : Q4 K :=
  let trace := m 0 0 + m 1 1 + m 2 2
  let i := argmax3 le (m 0 0) (m 1 1) (m 2 2)
  let maxd := m i i
  let r_sq := 1 + (1 + 1) * maxd - trace
  let zero := decide (r = 0)
  let s := (1 / (1 + 1)) / (if zero then 1 else r)
  let j := (i + 1) % 3
  let k := (i + 2) % 3
  let u := (((q0.setAt 0 (m k j - m j k)).setAt (i + 1) r_sq).setAt (j + 1) (m i j + m j i)).setAt (k + 1)
            (m i k + m k i)
  if zero then ⟨1, 0, 0, 0⟩ else qScale s u

/-- the argument of the square root in `from_matrix3` -/
def fromMatrix3Rsq (le : K → K → Bool) (m : Mat K) : K :=
  1 + (1 + 1) * m (argmax3 le (m 0 0) (m 1 1) (m 2 2)) (argmax3 le (m 0 0) (m 1 1) (m 2 2)) - (m 0 0 + m 1 1 + m 2 2)

end quat

/-! ## to_euler (matrix3.py:522-589): angles are represented by their sine and cosine -/

section toeuler
variable {K : Type} [Add K] [Mul K] [Sub K] [Neg K] [Zero K] [One K] [Div K] [DecidableEq K]

/-- `np.arctan2(y, x)` as the pair (sin, cos) of the returned angle: the point (x, y) normalised by
    `sqrt(x² + y²)`; `arctan2(0, 0) = 0`. `sqrt` is `np.sqrt`. Reducing the angle mod 2π later does not
    change the pair. -/
def atan2SC (sqrt : K → K) (y x : K) : SC K :=
  let h := sqrt (x * x + y * y)
  if h = 0 then ⟨0, 1⟩ else ⟨y / h, x / h⟩

/-- `Matrix3.to_euler` on one element (matrix3.py:551-589): `small v` is the test `v <= EPSILON` that selects
    the gimbal-lock branch; the result is (ax, ay, az) after the parity negation and the frame swap. -/
def toEuler (sqrt : K → K) (small : K → Bool) (cv : Conv) (m : Mat K) : SC K × SC K × SC K :=
  let (i, j, k) := eulerIJK cv
  let (ax, ay, az) :=
    if cv.repetition ≠ 0 then
      let sy := sqrt (m i j * m i j + m i k * m i k)
      if small sy then
        (atan2SC sqrt (-(m j k)) (m j j), atan2SC sqrt sy (m i i), (⟨0, 1⟩ : SC K))
      else
        (atan2SC sqrt (m i j) (m i k), atan2SC sqrt sy (m i i), atan2SC sqrt (m j i) (-(m k i)))
    else
      let cy := sqrt (m i i * m i i + m j i * m j i)
      if small cy then
        (atan2SC sqrt (-(m j k)) (m j j), atan2SC sqrt (-(m k i)) cy, (⟨0, 1⟩ : SC K))
      else
        (atan2SC sqrt (m k j) (m k k), atan2SC sqrt (-(m k i)) cy, atan2SC sqrt (m j i) (m i i))
  let (ax, ay, az) := if cv.parity ≠ 0 then (ax.neg, ay.neg, az.neg) else (ax, ay, az)
  let (ax, az) := if cv.frame ≠ 0 then (az, ax) else (ax, az)
  (ax, ay, az)

end toeuler

/-! ## twovec (matrix3.py:59-133) -/

section twovec
variable {K : Type} [Add K] [Mul K] [Sub K] [Neg K] [Zero K] [One K] [Div K] [DecidableEq K]

/-- `cross_3x3` on two plain 3-vectors -/
def crossV (a b : Nat → K) : Nat → K := fun c =>
  match c with
  | 0 => a 1 * b 2 - a 2 * b 1
  | 1 => a 2 * b 0 - a 0 * b 2
  | _ => a 0 * b 1 - a 1 * b 0

/-- `Vector.ucross` (vector.py:448-458): `self.cross(arg).unit()`; `sqrt` is `np.sqrt` -/
def ucross (sqrt : K → K) (a b : VecE K) : VecE K :=
  let c : VecE K := ⟨3, crossV a.get b.get, a.m || b.m⟩
  unit c (sqrt (vdot 3 c.get c.get))

/-- the three row assignments `array[...,axis1,:] = unit1; array[...,axis2,:] = unit2; array[...,axis3,:] = unit3`
    into the `np.empty` buffer `m0` (later assignments win) -/
def twovecAssemble (axis1 axis2 : Nat) (u1 u2 u3 : Nat → K) (m0 : Mat K) : Mat K :=
  let axis3 := 3 - axis1 - axis2
  fun r c => if r = axis3 then u3 c else if r = axis2 then u2 c else if r = axis1 then u1 c else m0 r c

/-- `Matrix3.twovec(vector1, axis1, vector2, axis2)` on one element (matrix3.py:71-95, repaired form: the masks
    of the derived rows are carried). Returns (values, mask). -/
def twovec (sqrt : K → K) (v1 v2 : VecE K) (axis1 axis2 : Nat) (m0 : Mat K) : Mat K × Bool :=
  let unit1 := unit v1 (sqrt (vdot 3 v1.get v1.get))
  let (unit2, unit3) :=
    if (3 + axis2 - axis1) % 3 = 1 then
      let unit3 := ucross sqrt unit1 v2
      (ucross sqrt unit3 unit1, unit3)
    else
      let unit3 := ucross sqrt v2 unit1
      (ucross sqrt unit1 unit3, unit3)
  (twovecAssemble axis1 axis2 unit1.get unit2.get unit3.get m0, unit1.m || v2.m || unit2.m || unit3.m)

end twovec

/-! ## pole_rotation (matrix3.py:273-301) and Quaternion.from_rotation (quaternion.py:129-146) -/

section polerot
variable {K : Type} [Add K] [Mul K] [Sub K] [Neg K] [Zero K] [One K]

/-- `Matrix3.pole_rotation(ra, dec)` from the sines and cosines of the two angles: the nine stacked values
    reshaped to 3×3 (matrix3.py:297-301) -/
def poleRot (ra dec : SC K) : Mat K := fun r c =>
  match r, c with
  | 0, 0 => -ra.s | 0, 1 => ra.c | 0, 2 => 0
  | 1, 0 => -ra.c * dec.s | 1, 1 => -ra.s * dec.s | 1, 2 => dec.c
  | 2, 0 => ra.c * dec.c | 2, 1 => ra.s * dec.c | 2, 2 => dec.s
  | _, _ => 0

/-- `Quaternion.from_rotation(angle, vector)` on one element: `half` = sine and cosine of half the angle,
    `nrm` = what `vector.norm()` returned; the Scalar division masks a zero norm and divides by 1 -/
def fromRotation [Div K] [DecidableEq K] (half : SC K) (am : Bool) (v : VecE K) (nrm : K) : Q4 K × Bool :=
  let zero := decide (nrm = 0)
  let f := half.s / (if zero then 1 else nrm)
  (fromParts half.c (fun i => f * v.get i), am || (am || (v.m || zero)) || v.m)

end polerot

/-! ## Vector3.spin (vector3.py:236-242) and Vector.sep (vector.py:519-532): the arithmetic cores -/

section spin
variable {K : Type} [Add K] [Mul K] [Sub K] [Neg K] [Zero K] [One K] [Div K] [DecidableEq K]

/-- the last seven lines of `Vector3.spin` on one element, from the unit pole `zaxis` on:
    `z = self.dot(zaxis); perp = self - z*zaxis; r = perp.norm(); perp = perp.mask_where_eq(ZERO, XAXIS);
     xaxis = perp.unit(); yaxis = zaxis.cross(xaxis); r*(cos*xaxis + sin*yaxis) + z*zaxis`.
    `r` and `rx` are what the two `norm()` calls returned (before / after the replacement of a zero `perp`). -/
def spinCore (v zaxis : Nat → K) (a : SC K) (r rx : K) : Nat → K :=
  let z := vdot 3 v zaxis
  let perp := fun i => v i - z * zaxis i
  let isZero := decide (perp 0 = 0) && decide (perp 1 = 0) && decide (perp 2 = 0)
  let perp' : Nat → K := if isZero then (fun i => if i = 0 then 1 else 0) else perp
  let xaxis := fun i => perp' i / (if rx = 0 then 1 else rx)
  let yaxis := crossV zaxis xaxis
  fun i => r * (a.c * xaxis i + a.s * yaxis i) + z * zaxis i

/-- the cosine of the angle `2*sign*arcsin(0.5*|a - sign*b|) + (sign < 0)*pi` that `Vector.sep` returns, by
    cos(2x) = 1 - 2 sin²x and cos(π - y) = -cos y; `d` is the norm `|a - sign*b|` -/
def sepCos (sign d : K) : K := sign * (1 - (1 + 1) * ((1 / (1 + 1)) * d) * ((1 / (1 + 1)) * d))

end spin

end PMV.Algebra
