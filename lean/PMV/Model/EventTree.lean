/-
  C19 (T2): the control-flow structure of a mutator as a tree of events, the set of its execution traces, and a
  compositional checker for "no explicit raise after a write to self" with its soundness proof.  The trees
  themselves are REGENERATED from /repo's source on every run (PMV/Gen/Events.lean, harness/c19_py2lean.py).
  Mathlib-free.
-/
namespace PMV.Events

inductive Ev where
  /-- `raise Cls(...)`, or a call of a `Qube._raise_*` helper (classes read off the helper's body) -/
  | raise (cls : String)
  /-- assignment / augmented assignment / del of an attribute (or of items of an attribute) of `self` -/
  | write (attr : String)
  /-- any other call made as a statement or assigned from -/
  | call (helper : String)
  | ret
  deriving DecidableEq, Repr

def Ev.isWrite : Ev → Bool | .write _ => true | _ => false
def Ev.isRaise : Ev → Bool | .raise _ => true | _ => false
/-- raise and return end the execution of the function body -/
def Ev.stops : Ev → Bool | .raise _ | .ret => true | _ => false

inductive Prog where
  | skip
  | atom (e : Ev)
  | seq (a b : Prog)
  /-- if / else, try / except, match on a condition: exactly one side runs -/
  | alt (a b : Prog)
  /-- for / while: the body runs zero or more times -/
  | loop (body : Prog)
  deriving Repr

/-- `Trace p t stopped`: `t` is the event sequence of one execution of `p`; `stopped` = it ended in raise/return -/
inductive Trace : Prog → List Ev → Bool → Prop
  | skip : Trace .skip [] false
  | atom (e : Ev) : Trace (.atom e) [e] e.stops
  | seqStop {a b t} : Trace a t true → Trace (.seq a b) t true
  | seqGo {a b t1 t2 st} : Trace a t1 false → Trace b t2 st → Trace (.seq a b) (t1 ++ t2) st
  | altL {a b t st} : Trace a t st → Trace (.alt a b) t st
  | altR {a b t st} : Trace b t st → Trace (.alt a b) t st
  | loopDone {b} : Trace (.loop b) [] false
  | loopStop {b t} : Trace b t true → Trace (.loop b) t true
  | loopGo {b t1 t2 st} : Trace b t1 false → Trace (.loop b) t2 st → Trace (.loop b) (t1 ++ t2) st

/-- some write is followed, later in the trace, by an event of the kind `bad` -/
def rawP (bad : Ev → Bool) : List Ev → Bool
  | [] => false
  | e :: t => (e.isWrite && t.any bad) || rawP bad t

/-- some write is followed, later in the trace, by an explicit raise -/
abbrev raw : List Ev → Bool := rawP Ev.isRaise

/-- can fall through (some execution does not stop) -/
def ft : Prog → Bool
  | .skip => true
  | .atom e => !e.stops
  | .seq a b => ft a && ft b
  | .alt a b => ft a || ft b
  | .loop _ => true

/-- some execution that falls through has written -/
def wo : Prog → Bool
  | .skip => false
  | .atom e => e.isWrite
  | .seq a b => (wo a && ft b) || (ft a && wo b)
  | .alt a b => wo a || wo b
  | .loop b => wo b

/-- some execution contains an event of the kind `bad` -/
def mayP (bad : Ev → Bool) : Prog → Bool
  | .skip => false
  | .atom e => bad e
  | .seq a b => mayP bad a || mayP bad b
  | .alt a b => mayP bad a || mayP bad b
  | .loop b => mayP bad b

abbrev mayRaise : Prog → Bool := mayP Ev.isRaise

/-- the checker: no write that falls through into a part that may contain a `bad` event -/
def okP (bad : Ev → Bool) : Prog → Bool
  | .skip => true
  | .atom _ => true
  | .seq a b => okP bad a && okP bad b && !(wo a && mayP bad b)
  | .alt a b => okP bad a && okP bad b
  | .loop b => okP bad b && !(wo b && mayP bad b)

/-- no explicit raise after a write -/
abbrev ok : Prog → Bool := okP Ev.isRaise

/-- a call of a helper outside the list `allow` -/
def Ev.callOutside (allow : List String) : Ev → Bool
  | .call h => !allow.contains h
  | _ => false

/-- every explicit raise is of one of the listed classes -/
def raisesIn (allowed : List String) : Prog → Bool
  | .skip => true
  | .atom (.raise c) => allowed.contains c
  | .atom _ => true
  | .seq a b => raisesIn allowed a && raisesIn allowed b
  | .alt a b => raisesIn allowed a && raisesIn allowed b
  | .loop b => raisesIn allowed b

theorem rawP_append (bad : Ev → Bool) (t1 t2 : List Ev) :
    rawP bad (t1 ++ t2) = (rawP bad t1 || rawP bad t2 || (t1.any Ev.isWrite && t2.any bad)) := by
  induction t1 with
  | nil => simp [rawP]
  | cons e t ih =>
    simp only [List.cons_append, rawP, ih, List.any_append, List.any_cons]
    cases e.isWrite <;> cases rawP bad t <;> cases rawP bad t2 <;> cases t.any bad <;> cases t2.any bad <;>
      cases t.any Ev.isWrite <;> rfl

theorem trace_open {p t} (h : Trace p t false) : ft p = true ∧ (t.any Ev.isWrite = true → wo p = true) := by
  generalize hst : false = st at h
  induction h with
  | skip => exact ⟨rfl, by simp⟩
  | atom e =>
    refine ⟨by simp [ft, ← hst], ?_⟩
    intro hw; simpa [wo] using hw
  | seqStop _ _ => cases hst
  | seqGo _ _ iha ihb =>
    obtain ⟨fa, wa⟩ := iha rfl
    obtain ⟨fb, wb⟩ := ihb hst
    refine ⟨by simp [ft, fa, fb], ?_⟩
    intro hw
    simp only [List.any_append, Bool.or_eq_true] at hw
    rcases hw with hw | hw
    · simp [wo, wa hw, fb]
    · simp [wo, wb hw, fa]
  | altL _ ih => obtain ⟨f, w⟩ := ih hst; exact ⟨by simp [ft, f], fun hw => by simp [wo, w hw]⟩
  | altR _ ih => obtain ⟨f, w⟩ := ih hst; exact ⟨by simp [ft, f], fun hw => by simp [wo, w hw]⟩
  | loopDone => exact ⟨rfl, by simp⟩
  | loopStop _ _ => cases hst
  | loopGo _ _ iha ihb =>
    obtain ⟨_, wa⟩ := iha rfl
    obtain ⟨_, wb⟩ := ihb hst
    refine ⟨rfl, ?_⟩
    intro hw
    simp only [List.any_append, Bool.or_eq_true] at hw
    rcases hw with hw | hw
    · simpa [wo] using wa hw
    · exact wb hw

theorem trace_may (bad : Ev → Bool) {p t st} (h : Trace p t st) : t.any bad = true → mayP bad p = true := by
  induction h with
  | skip => simp
  | atom e => intro hr; simpa [mayP] using hr
  | seqStop _ ih => intro hr; simp [mayP, ih hr]
  | seqGo _ _ iha ihb =>
    intro hr
    simp only [List.any_append, Bool.or_eq_true] at hr
    rcases hr with hr | hr
    · simp [mayP, iha hr]
    · simp [mayP, ihb hr]
  | altL _ ih => intro hr; simp [mayP, ih hr]
  | altR _ ih => intro hr; simp [mayP, ih hr]
  | loopDone => simp
  | loopStop _ ih => intro hr; simpa [mayP] using ih hr
  | loopGo _ _ iha ihb =>
    intro hr
    simp only [List.any_append, Bool.or_eq_true] at hr
    rcases hr with hr | hr
    · simpa [mayP] using iha hr
    · exact ihb hr

/-- **soundness of the checker**: if `okP bad p`, then on NO execution trace of `p` — through any nesting of
    branches, loops (any number of iterations) and early returns — does a `bad` event come after a write to self -/
theorem okP_sound (bad : Ev → Bool) {p t st} (h : Trace p t st) : okP bad p = true → rawP bad t = false := by
  induction h with
  | skip => intro _; rfl
  | atom e => intro _; simp [rawP]
  | seqStop _ ih => intro hk; simp only [okP, Bool.and_eq_true] at hk; exact ih hk.1.1
  | @seqGo a b t1 t2 st h1 h2 iha ihb =>
    intro hk
    simp only [okP, Bool.and_eq_true] at hk
    obtain ⟨⟨ka, kb⟩, kx⟩ := hk
    rw [rawP_append, iha ka, ihb kb]
    cases hw : t1.any Ev.isWrite
    · simp
    · cases hr : t2.any bad
      · simp
      · have := (trace_open h1).2 hw
        have := trace_may bad h2 hr
        simp_all
  | altL _ ih => intro hk; simp only [okP, Bool.and_eq_true] at hk; exact ih hk.1
  | altR _ ih => intro hk; simp only [okP, Bool.and_eq_true] at hk; exact ih hk.2
  | loopDone => intro _; rfl
  | loopStop _ ih => intro hk; simp only [okP, Bool.and_eq_true] at hk; exact ih hk.1
  | @loopGo b t1 t2 st h1 h2 iha ihb =>
    intro hk
    have hk' := hk
    simp only [okP, Bool.and_eq_true] at hk'
    obtain ⟨kb, kx⟩ := hk'
    rw [rawP_append, iha kb, ihb hk]
    cases hw : t1.any Ev.isWrite
    · simp
    · cases hr : t2.any bad
      · simp
      · have := (trace_open h1).2 hw
        have := trace_may bad h2 hr
        simp_all [mayP]

/-- the instance used for "no explicit raise after a write" -/
theorem ok_sound {p t st} (h : Trace p t st) : ok p = true → raw t = false := okP_sound Ev.isRaise h

/-- soundness of the class check: every raise event on every trace is of an allowed class -/
theorem raisesIn_sound (allowed : List String) {p t st} (h : Trace p t st) :
    raisesIn allowed p = true → ∀ c, Ev.raise c ∈ t → allowed.contains c = true := by
  induction h with
  | skip => intro _ c hc; cases hc
  | atom e =>
    intro hk c hc
    simp only [List.mem_singleton] at hc
    subst hc
    simpa [raisesIn] using hk
  | seqStop _ ih => intro hk; simp only [raisesIn, Bool.and_eq_true] at hk; exact ih hk.1
  | seqGo _ _ iha ihb =>
    intro hk c hc
    simp only [raisesIn, Bool.and_eq_true] at hk
    rcases List.mem_append.1 hc with hc | hc
    · exact iha hk.1 c hc
    · exact ihb hk.2 c hc
  | altL _ ih => intro hk; simp only [raisesIn, Bool.and_eq_true] at hk; exact ih hk.1
  | altR _ ih => intro hk; simp only [raisesIn, Bool.and_eq_true] at hk; exact ih hk.2
  | loopDone => intro _ c hc; cases hc
  | loopStop _ ih => intro hk; exact ih (by simpa [raisesIn] using hk)
  | loopGo _ _ iha ihb =>
    intro hk c hc
    rcases List.mem_append.1 hc with hc | hc
    · exact iha (by simpa [raisesIn] using hk) c hc
    · exact ihb hk c hc

end PMV.Events
