import PMV.Core.Arr
/-
  C03 view: a model in which every stored element carries its HIDDEN value explicitly, so that
  "the number underneath a mask influences an observable result" is expressible.

  * `Cell α`    a stored element: value `v` (arbitrary when `m`), mask bit `m`.
  * `Prims K`   the numeric primitives (IEEE +,-,*,/, sqrt, libm).  They are PARAMETERS: the theorems
                of Props/C03.lean hold for every choice; the driver instantiates IEEE doubles.
  * arrays are `Arr (Cell K)` (shape + total function on indices); an object `Obj K` is a main array
    and an optional derivative array (key `t`), each with its OWN mask - exactly like a polymath
    Scalar whose `_derivs_['t']` is a Scalar of its own.
  Every `…Code` definition is written like the source it names (polymath at the repaired tree
  wt-C03: the check=False / nozeros=True fast paths re-evaluate the function with the masked values
  replaced by a safe constant before deciding to raise, Scalar._func_of_unmasked).
-/
namespace PMV.NI

inductive Err where
  | value | index
  deriving DecidableEq, Repr, Inhabited

structure Cell (α : Type) where
  v : α
  m : Bool
  deriving Repr, Inhabited, DecidableEq

/-- the numeric primitives; `expOv x` = "np.exp(x) raises the overflow warning" -/
structure Prims (K : Type) where
  zero : K
  one : K
  half : K
  negOne : K
  posInf : K
  negInf : K
  cutoff : K
  add : K → K → K
  sub : K → K → K
  mul : K → K → K
  div : K → K → K
  neg : K → K
  abs : K → K
  sign : K → K
  lt : K → K → Bool
  le : K → K → Bool
  eq : K → K → Bool
  sqrt : K → K
  log : K → K
  exp : K → K
  sin : K → K
  cos : K → K
  tan : K → K
  asin : K → K
  acos : K → K
  atan : K → K
  expOv : K → Bool
  ofNat : Nat → K
  /-- `np.floor_divide`, `np.remainder`, `np.power`, `np.arctan2` (tabulated by the harness) -/
  fdiv : K → K → K
  fmod : K → K → K
  pow : K → K → K
  atan2 : K → K → K
  /-- `np.isnan(x) | np.isinf(x)` -/
  nonfinite : K → Bool

variable {K : Type} (P : Prims K)

/-! ### element functions (one stored element in, one out) -/

/-- `Scalar(np.f(self._values_), mask=self._mask_)`: sin, cos, tan, arctan, sign, `-x`, `abs`
    (scalar.py:324,346,369,499,691; qube.py:2838,2856) -/
def passCode (f : K → K) (c : Cell K) : Cell K := ⟨f c.v, c.m⟩

/-- `mask_where(cond(values), replace=rep)` with remask=True on one element (mask_ops.py:8-75,
    189-247): the test is evaluated on the stored value, masked or not -/
def maskWhereCode (cond : K → Bool) (rep : K) (c : Cell K) : Cell K :=
  if cond c.v then ⟨rep, true⟩ else c

/-- scalar.py:569-583 (check=True): `no_negs = mask_where_lt(0., replace=1.)`, `np.sqrt` -/
def sqrtCode (c : Cell K) : Cell K :=
  let c1 := maskWhereCode (fun x => P.lt x P.zero) P.one c
  ⟨P.sqrt c1.v, c1.m⟩

/-- scalar.py:611-623 (check=True): `mask_where_le(0., replace=1.)`, `np.log` -/
def logNoNegs (c : Cell K) : Cell K := maskWhereCode (fun x => P.le x P.zero) P.one c
def logCode (c : Cell K) : Cell K := let c1 := logNoNegs P c; ⟨P.log c1.v, c1.m⟩

/-- scalar.py:654-656 (check=True): `mask_where_gt(EXP_CUTOFF, replace=EXP_CUTOFF)`, `np.exp` -/
def expCheckedCode (c : Cell K) : Cell K :=
  let c1 := maskWhereCode (fun x => P.lt P.cutoff x) P.cutoff c
  ⟨P.exp c1.v, c1.m⟩

/-- scalar.py:396-411, 450-465 (check=True): `temp_mask = (v < -1) | (v > 1)`, values there set to 0,
    `temp_mask = or_(mask, temp_mask)` -/
def arcCode (f : K → K) (c : Cell K) : Cell K :=
  let bad := P.lt c.v P.negOne || P.lt P.one c.v
  ⟨f (if bad then P.zero else c.v), c.m || bad⟩

/-- scalar.py:1328-1335 (nozeros=False): `denom = mask_where_eq(0, replace=1)`, `1. / denom` -/
def nonZero (c : Cell K) : Cell K := maskWhereCode (fun x => P.eq x P.zero) P.one c
def recipCode (c : Cell K) : Cell K := let c1 := nonZero P c; ⟨P.div P.one c1.v, c1.m⟩

/-- qube.py:2910-2911, 3026-3027, 3262-3263: values combined, masks or-ed -/
def binCode (f : K → K → K) (a b : Cell K) : Cell K := ⟨f a.v b.v, a.m || b.m⟩

/-- qube.py:3426-3441 `_div_by_scalar`: `arg = arg.mask_where_eq(0., 1.)`, then divide, masks or-ed -/
def divCode (a b : Cell K) : Cell K := binCode P.div a (nonZero P b)

/-- multiplication by a Python number (qube.py:3232-3236): the mask is kept -/
def scaleCode (k : K) (c : Cell K) : Cell K := ⟨P.mul c.v k, c.m⟩

/-! ### comparisons (results are never masked) -/

/-- qube.py:3875-3898 `__eq__` at one element: both masked ⇒ True, exactly one ⇒ False -/
def eqCode (a b : Cell K) : Cell Bool :=
  let compare := P.eq a.v b.v
  let both := a.m && b.m
  let one := a.m ^^ b.m
  let compare := if one then false else compare
  ⟨if both then true else compare, false⟩

/-- qube.py:3913-3945 `__ne__` -/
def neCode (a b : Cell K) : Cell Bool :=
  let compare := !P.eq a.v b.v
  let both := a.m && b.m
  let one := a.m ^^ b.m
  let compare := if one then true else compare
  ⟨if both then false else compare, false⟩

/-- scalar.py:1371-1381: `compare &= (self.antimask & arg.antimask)` -/
def ordCode (cmp : K → K → Bool) (a b : Cell K) : Cell Bool := ⟨cmp a.v b.v && (!a.m && !b.m), false⟩

/-! ### arrays and objects -/

abbrev MArr (α : Type) := Arr (Cell α)

/-- same-shape element-wise combination (operands already broadcast to one shape) -/
def zip {α β γ : Type} (f : α → β → γ) (a : Arr α) (b : Arr β) : Arr γ :=
  ⟨a.shape, fun i => f (a.get i) (b.get i)⟩

structure Obj (K : Type) where
  main : MArr K
  d : Option (MArr K)

def Obj.wod (x : Obj K) : Obj K := ⟨x.main, none⟩

/-- unary function with the derivative rule `obj.insert_deriv(key, factor * deriv)`, where `factor`
    is a function `g` of the operand's own element (e.g. `self.wod.cos()`), multiplied by
    `_mul_by_scalar` (masks or-ed) -/
def unaryObj (f g : Cell K → Cell K) (x : Obj K) : Obj K :=
  ⟨x.main.map f, x.d.map fun dx => zip (binCode P.mul) (x.main.map g) dx⟩

def negObj (x : Obj K) : Obj K := ⟨x.main.map (passCode P.neg), x.d.map fun dx => dx.map (passCode P.neg)⟩
/-- qube.py:2848-2864: derivative `deriv * sign(self.wod)` -/
def absObj (x : Obj K) : Obj K := unaryObj P (passCode P.abs) (passCode P.sign) x
def signObj (x : Obj K) : Obj K := ⟨x.main.map (passCode P.sign), none⟩
/-- scalar.py:312-331 -/
def sinObj (x : Obj K) : Obj K := unaryObj P (passCode P.sin) (passCode P.cos) x
/-- scalar.py:334-353: factor `-self.wod.sin()` -/
def cosObj (x : Obj K) : Obj K := unaryObj P (passCode P.cos) (fun c => passCode P.neg (passCode P.sin c)) x
/-- scalar.py:551-590: factor `0.5 / obj` = `obj.reciprocal() * 0.5` (qube.py:3351-3355) -/
def sqrtObj (x : Obj K) : Obj K :=
  unaryObj P (sqrtCode P) (fun c => scaleCode P P.half (recipCode P (sqrtCode P c))) x
/-- scalar.py:593-629: derivative `deriv / no_negs` (`_div_by_scalar`) -/
def logObj (x : Obj K) : Obj K :=
  ⟨x.main.map (logCode P), x.d.map fun dx => zip (divCode P) dx (x.main.map (logNoNegs P))⟩
/-- scalar.py:654-673 with check=True; derivative `Scalar(exp_values, mask) * deriv` (repaired: dc4a95c) -/
def expCheckedObj (x : Obj K) : Obj K := unaryObj P (expCheckedCode P) (expCheckedCode P) x
/-- scalar.py:1301-1343: factor `-obj*obj` -/
def recipObj (x : Obj K) : Obj K :=
  unaryObj P (recipCode P) (fun c => let r := recipCode P c; binCode P.mul (passCode P.neg r) r) x
def arcsinObj (x : Obj K) : Obj K := ⟨x.main.map (arcCode P P.asin), none⟩
def arccosObj (x : Obj K) : Obj K := ⟨x.main.map (arcCode P P.acos), none⟩
def tanObj (x : Obj K) : Obj K := ⟨x.main.map (passCode P.tan), none⟩
def arctanObj (x : Obj K) : Obj K := ⟨x.main.map (passCode P.atan), none⟩

/-! ### the check=False / nozeros=True fast paths (repaired form, Scalar._func_of_unmasked) -/

/-- `np.f(values)` under `warnings.filterwarnings('error')`; on a warning: no masked element ⇒
    ValueError; otherwise the masked values are overwritten by `safe` and `np.f` is tried again,
    a second warning ⇒ ValueError.  (scalar.py sqrt/log/arcsin/arccos/exp/reciprocal, else-branches) -/
def fastCode (bad : K → Bool) (f : K → K) (safe : K) (a : MArr K) : Except Err (MArr K) :=
  if !(a.toList.any fun c => bad c.v) then .ok (a.map (passCode f))
  else if !(a.toList.any (·.m)) then .error .value
  else
    let a1 : MArr K := a.map fun c => if c.m then ⟨safe, true⟩ else c
    if a1.toList.any fun c => bad c.v then .error .value else .ok (a1.map (passCode f))

/-- the pinned (unrepaired) form: the domain test sees every stored value -/
def fastPinnedCode (bad : K → Bool) (f : K → K) (a : MArr K) : Except Err (MArr K) :=
  if a.toList.any fun c => bad c.v then .error .value else .ok (a.map (passCode f))

def sqrtBad (x : K) : Bool := P.lt x P.zero
def logBad (x : K) : Bool := P.le x P.zero
def arcBad (x : K) : Bool := P.lt x P.negOne || P.lt P.one x
def recipBad (x : K) : Bool := P.eq x P.zero

/-- fast path of an object: values by `fastCode`, derivative by the same rule as the checked form
    but with the factor computed from the fast-path result -/
def fastObj (bad : K → Bool) (f : K → K) (safe : K) (g : Cell K → Cell K) (x : Obj K) : Except Err (Obj K) :=
  match fastCode bad f safe x.main with
  | .error e => .error e
  | .ok r => .ok ⟨r, x.d.map fun dx => zip (binCode P.mul) (r.map g) dx⟩

/-- sqrt(check=False): factor `0.5 / obj` -/
def sqrtFastObj (x : Obj K) : Except Err (Obj K) :=
  fastObj P (sqrtBad P) P.sqrt P.one (fun r => scaleCode P P.half (recipCode P r)) x
/-- exp() (check=False is the default): factor `Scalar(exp_values, mask)` -/
def expFastObj (x : Obj K) : Except Err (Obj K) := fastObj P P.expOv P.exp P.zero id x
/-- reciprocal(nozeros=True): factor `-obj*obj` -/
def recipFastObj (x : Obj K) : Except Err (Obj K) :=
  fastObj P (recipBad P) (P.div P.one) P.one (fun r => binCode P.mul (passCode P.neg r) r) x
/-- log(check=False): derivative `deriv / self` -/
def logFastObj (x : Obj K) : Except Err (Obj K) :=
  match fastCode (logBad P) P.log P.one x.main with
  | .error e => .error e
  | .ok r => .ok ⟨r, x.d.map fun dx => zip (divCode P) dx x.main⟩
def arcsinFastObj (x : Obj K) : Except Err (Obj K) :=
  (fastCode (arcBad P) P.asin P.zero x.main).map fun r => ⟨r, none⟩
def arccosFastObj (x : Obj K) : Except Err (Obj K) :=
  (fastCode (arcBad P) P.acos P.zero x.main).map fun r => ⟨r, none⟩

/-! ### binary arithmetic with broadcasting and derivative merging -/

def btoObj (x : Obj K) (out : Shape) : Obj K := ⟨x.main.bto out, x.d.map (·.bto out)⟩

/-- `_add_derivs` / `_sub_derivs` (qube.py:2971-2988, 3091-3110) for the single key -/
def mergeD (both : MArr K → MArr K → MArr K) (right : MArr K → MArr K) : Option (MArr K) → Option (MArr K) → Option (MArr K)
  | some a, some b => some (both a b)
  | some a, none => some a
  | none, some b => some (right b)
  | none, none => none

def addObj (x y : Obj K) : Except Err (Obj K) :=
  match bcast x.main.shape y.main.shape with
  | none => .error .value
  | some out =>
    let x := btoObj x out; let y := btoObj y out
    .ok ⟨zip (binCode P.add) x.main y.main, mergeD (zip (binCode P.add)) id x.d y.d⟩

def subObj (x y : Obj K) : Except Err (Obj K) :=
  match bcast x.main.shape y.main.shape with
  | none => .error .value
  | some out =>
    let x := btoObj x out; let y := btoObj y out
    .ok ⟨zip (binCode P.sub) x.main y.main, mergeD (zip (binCode P.sub)) (·.map (passCode P.neg)) x.d y.d⟩

/-- `_mul_by_scalar` + `_mul_derivs` (qube.py:3245-3290) -/
def mulObj (x y : Obj K) : Except Err (Obj K) :=
  match bcast x.main.shape y.main.shape with
  | none => .error .value
  | some out =>
    let x := btoObj x out; let y := btoObj y out
    let d1 := x.d.map fun dx => zip (binCode P.mul) dx y.main
    let d2 := y.d.map fun dy => zip (binCode P.mul) x.main dy
    .ok ⟨zip (binCode P.mul) x.main y.main, mergeD (zip (binCode P.add)) id d1 d2⟩

/-- `_div_by_scalar` + `_div_derivs(nozeros=True)` (qube.py:3426-3479): the divisor and (repaired
    remask_or, fd85f84) its derivative are masked where the divisor is zero -/
def divObj (x y : Obj K) : Except Err (Obj K) :=
  match bcast x.main.shape y.main.shape with
  | none => .error .value
  | some out =>
    let x := btoObj x out; let y := btoObj y out
    let y1 := y.main.map (nonZero P)
    let inv := y1.map fun c => (⟨P.div P.one c.v, c.m⟩ : Cell K)
    let d1 := x.d.map fun dx => zip (binCode P.mul) dx inv
    let d2 := y.d.map fun dy =>
      let dy1 := zip (fun (c d : Cell K) => (⟨d.v, d.m || c.m⟩ : Cell K)) y1 dy
      zip (binCode P.mul) x.main (zip (binCode P.mul) (zip (binCode P.mul) dy1 inv) inv)
    .ok ⟨zip (binCode P.div) x.main y1, mergeD (zip (binCode P.sub)) (·.map (passCode P.neg)) d1 d2⟩

/-- comparison of two objects (derivatives play no role); `none` = shapes do not broadcast -/
def cmpArr (f : Cell K → Cell K → Cell Bool) (x y : MArr K) : Option (MArr Bool) :=
  (bcast x.shape y.shape).map fun out => zip f (x.bto out) (y.bto out)

/-! ### reductions: lane kernels -/

/-- `new_values[mask] = fill` on one lane -/
def filled (fillv : K) (xs : List (Cell K)) : List K := xs.map fun c => if c.m then fillv else c.v

def sumK (xs : List K) : K := xs.foldl P.add P.zero
def countUnmasked (xs : List (Cell K)) : Nat := xs.countP fun c => !c.m

/-- math_ops.py:68-96: masked items set to zero, summed; `count == 0` lanes are masked and hold the
    default (1) -/
def sumLane (xs : List (Cell K)) : Cell K :=
  let cnt := countUnmasked xs
  ⟨if cnt == 0 then P.one else sumK P (filled P.zero xs), cnt == 0⟩

def meanLane (xs : List (Cell K)) : Cell K :=
  let cnt := countUnmasked xs
  ⟨if cnt == 0 then P.one else P.div (sumK P (filled P.zero xs)) (P.ofNat (Nat.max cnt 1)), cnt == 0⟩

def maxK : List K → K
  | [] => P.negInf
  | x :: xs => xs.foldl (fun a b => if P.lt a b then b else a) x
def minK : List K → K
  | [] => P.posInf
  | x :: xs => xs.foldl (fun a b => if P.lt b a then b else a) x

/-- scalar.py:797-817 / 867-888: masked entries overwritten by the extreme value; an entirely masked
    lane takes the extreme of the raw values and is masked -/
def extremeLane (k : List K → K) (fillv : K) (xs : List (Cell K)) : Cell K :=
  let allM := xs.all (·.m)
  ⟨if allM then k (xs.map (·.v)) else k (filled fillv xs), allM⟩

/-- `np.argmax` of a list: index of the first maximal element -/
def argmaxK (xs : List K) : Nat :=
  match xs with
  | [] => 0
  | x :: rest =>
    (rest.foldl (fun (acc : Nat × K × Nat) b =>
      let (best, bv, i) := acc
      if P.lt bv b then (i, b, i + 1) else (best, bv, i + 1)) (0, x, 1)).1
def argminK (xs : List K) : Nat :=
  match xs with
  | [] => 0
  | x :: rest =>
    (rest.foldl (fun (acc : Nat × K × Nat) b =>
      let (best, bv, i) := acc
      if P.lt b bv then (i, b, i + 1) else (best, bv, i + 1)) (0, x, 1)).1

/-- scalar.py:945-964 / 1018-1037 -/
def argLane (k : List K → Nat) (fillv : K) (xs : List (Cell K)) : Cell K :=
  let allM := xs.all (·.m)
  ⟨P.ofNat (if allM then k (xs.map (·.v)) else k (filled fillv xs)), allM⟩

def insertK (x : K) : List K → List K
  | [] => [x]
  | y :: ys => if P.le x y then x :: y :: ys else y :: insertK x ys
/-- `np.sort` of a lane (insertion sort with `<=`) -/
def sortK (xs : List K) : List K := xs.foldr (insertK P) []

/-- scalar.py:1207-1242: sort with masked entries at +inf, count the unmasked, average the middle
    one or two; `count == 0` lanes take `np.median` of the raw values and are masked -/
def medianOf (s : List K) (cnt : Nat) : K :=
  let klo := (cnt - 1) / 2
  let khi := cnt / 2
  P.mul P.half (P.add (s.getD klo P.zero) (s.getD khi P.zero))
def medianLane (xs : List (Cell K)) : Cell K :=
  let cnt := countUnmasked xs
  ⟨if cnt == 0 then medianOf P (sortK P (xs.map (·.v))) xs.length
   else medianOf P (sortK P (filled P.posInf xs)) cnt, cnt == 0⟩

/-- scalar.py:1276-1293: values sorted with masked entries at +inf, mask sorted (False first), the
    masked tail overwritten by `hiddenMax` (the maximum of the unmasked values of the result) -/
def sortLane (hiddenMax : K) (xs : List (Cell K)) : List (Cell K) :=
  let cnt := countUnmasked xs
  (sortK P (filled P.posInf xs)).zipIdx.map fun (p : K × Nat) => if p.2 < cnt then ⟨p.1, false⟩ else ⟨hiddenMax, true⟩

/-- a reduction over `axes` (normalised, distinct) of a masked array -/
def reduceCode (k : List (Cell K) → Cell K) (a : MArr K) (axes : List Nat) : MArr K := a.reduce k axes

/-- sort along one axis: every output element is read from the sorted lane through its position -/
def sortCode (a : MArr K) (axis : Nat) : MArr K :=
  let hm := maxK P (filled P.negInf a.toList)
  ⟨a.shape, fun i =>
    let o := dropAxes [axis] i
    (sortLane P hm (a.lane [axis] o)).getD (i.getD axis 0) ⟨hm, true⟩⟩

/-- `_mean_or_sum` with derivatives (math_ops.py:101-108): the derivative is reduced by the same
    function, under its own mask -/
def sumObj (x : Obj K) (axes : List Nat) : Obj K :=
  ⟨reduceCode (sumLane P) x.main axes, x.d.map fun dx => reduceCode (sumLane P) dx axes⟩
def meanObj (x : Obj K) (axes : List Nat) : Obj K :=
  ⟨reduceCode (meanLane P) x.main axes, x.d.map fun dx => reduceCode (meanLane P) dx axes⟩

/-! ### indexing by a (masked) integer index object along the first axis -/

/-- indexer.py:433-448: an index value not used by any unmasked entry, else -1 -/
def unusedIndex (len : Nat) (used : List Int) : Int :=
  match (List.range len).find? fun (k : Nat) => !used.contains (Int.ofNat k) with
  | some k => Int.ofNat k
  | none => -1

/-- indexer.py:414-488 + `__getitem__` 37-71: out-of-range and masked index entries are replaced by
    an unused index and post-masked -/
def getitemCode (x : MArr K) (idx : MArr Int) : Except Err (MArr K) :=
  match x.shape with
  | [] => .error .index
  | len :: rest =>
    let isMasked := fun (c : Cell Int) => c.m || (c.v ≥ (len : Int) || c.v < -(len : Int))
    let used := (idx.toList.filter fun c => !isMasked c).map fun c => c.v % (len : Int)
    let unused := unusedIndex len used
    let r := idx.shape.length
    .ok ⟨idx.shape ++ rest, fun i =>
      let ic := idx.get (i.take r)
      let m := isMasked ic
      let k := (if m then unused else ic.v) % (len : Int)
      let c := x.get (k.toNat :: i.drop r)
      ⟨c.v, c.m || m⟩⟩

def getitemObj (x : Obj K) (idx : MArr Int) : Except Err (Obj K) :=
  match getitemCode x.main idx with
  | .error e => .error e
  | .ok r =>
    match x.d with
    | none => .ok ⟨r, none⟩
    | some dx =>
      match getitemCode dx idx with
      | .error e => .error e
      | .ok rd => .ok ⟨r, some rd⟩

/-- indexer.py:364-394: a (masked) Boolean ARRAY index over the first axis: the elements where the index is
    True OR masked are selected, in order; those selected by a masked index element are masked -/
def getitemBoolCode (x : MArr K) (b : MArr Bool) : Except Err (MArr K) :=
  match x.shape, b.shape with
  | len :: rest, [n] =>
    if n != len then .error .index else
    let pos := (List.range len).filter fun p => (b.get [p]).v || (b.get [p]).m
    .ok ⟨pos.length :: rest, fun i =>
      match i with
      | j :: r =>
        let p := pos.getD j 0
        let c := x.get (p :: r)
        ⟨c.v, c.m || (b.get [p]).m⟩
      | [] => x.get []⟩
  | _, _ => .error .index

def getitemBoolObj (x : Obj K) (b : MArr Bool) : Except Err (Obj K) :=
  match getitemBoolCode x.main b with
  | .error e => .error e
  | .ok r =>
    match x.d with
    | none => .ok ⟨r, none⟩
    | some dx =>
      match getitemBoolCode dx b with
      | .error e => .error e
      | .ok rd => .ok ⟨r, some rd⟩

/-! ### stack, shrink / unshrink, pickling -/

/-- shaper.py:236-399 for two arguments: broadcast, new leading axis; a missing derivative is a zero,
    unmasked block -/
def stackArr (a b : MArr K) : MArr K :=
  ⟨2 :: a.shape, fun i => match i with
    | 0 :: r => a.get r
    | _ :: r => b.get r
    | [] => a.get []⟩

def stackObj (x y : Obj K) : Except Err (Obj K) :=
  match bcast x.main.shape y.main.shape with
  | none => .error .value
  | some out =>
    let x := btoObj x out; let y := btoObj y out
    let z : MArr K := Arr.const out ⟨P.zero, false⟩
    let d := match x.d, y.d with
      | none, none => none
      | some a, none => some (stackArr a z)
      | none, some b => some (stackArr z b)
      | some a, some b => some (stackArr a b)
    .ok ⟨stackArr x.main y.main, d⟩

/-- `masked_single()`: one masked default element, shape () -/
def maskedSingle : MArr K := ⟨[], fun _ => ⟨P.one, true⟩⟩

/-- shrinker.py:9-104 then 107-188 with the same antimask (of the object's shape): nothing selected
    and unmasked ⇒ a masked single; otherwise the cached original re-masked outside the antimask
    (`unshrunk.mask_where(~antimask)`) -/
def shrinkUnshrinkArr (a : MArr K) (am : Arr Bool) : MArr K :=
  if !((zip (fun (c : Cell K) (s : Bool) => s && !c.m) a am).toList.any id) then maskedSingle P
  else zip (fun (c : Cell K) (s : Bool) => (⟨c.v, c.m || !s⟩ : Cell K)) a am

def shrinkUnshrinkObj (x : Obj K) (am : Arr Bool) : Obj K :=
  if !((zip (fun (c : Cell K) (s : Bool) => s && !c.m) x.main am).toList.any id) then
    ⟨maskedSingle P, x.d.map fun _ => maskedSingle P⟩
  else
    ⟨zip (fun (c : Cell K) (s : Bool) => (⟨c.v, c.m || !s⟩ : Cell K)) x.main am,
     x.d.map fun dx => zip (fun (c : Cell K) (s : Bool) => (⟨c.v, c.m || !s⟩ : Cell K)) dx am⟩

/-- what `__getstate__` stores of one array (pickler.py:844-849, 879-886): the shape, the mask bits
    and the UNMASKED values only -/
def pickleBytes (a : MArr K) : Shape × List Bool × List K :=
  (a.shape, a.toList.map (·.m), (a.toList.filter fun c => !c.m).map (·.v))

/-- `__setstate__` (pickler.py:1011-1026): unmasked values restored in order, the default (1) under
    the mask.  `pos i` = number of unmasked elements before flat position i. -/
def unpickleArr (shape : Shape) (mask : List Bool) (vals : List K) : MArr K :=
  ⟨shape, fun i =>
    let k := ravel shape i
    let m := mask.getD k true
    if m then ⟨P.one, true⟩ else ⟨vals.getD ((mask.take k).countP (!·)) P.one, false⟩⟩

def pickleArr (a : MArr K) : MArr K :=
  let b := pickleBytes a
  unpickleArr P b.1 b.2.1 b.2.2

def pickleObj (x : Obj K) : Obj K := ⟨pickleArr P x.main, x.d.map (pickleArr P)⟩

/-- faithful pickling of an OBJECT (pickler.py): when the object's mask is a partially masked array
    (`ANTIMASKED` encoding) each derivative is stored under the OBJECT's antimask and comes back with the
    object's mask - its own mask is dropped and the numbers underneath it are written; otherwise the
    derivative is pickled as an array of its own -/
def pickleObjCode (x : Obj K) : Obj K :=
  let partial_ := x.main.toList.any (·.m) && !(x.main.toList.all (·.m))
  ⟨pickleArr P x.main, x.d.map fun dx =>
    if partial_ then zip (fun (c d : Cell K) => if c.m then (⟨P.one, true⟩ : Cell K) else ⟨d.v, false⟩) x.main dx
    else pickleArr P dx⟩

/-! ### more element-wise operations (phase 3) -/

/-- scalar.py `sign(zeros=False)`: `result[result == 0] = 1` with the MASKED comparison: a masked element
    is never rewritten -/
def signNzCode (c : Cell K) : Cell K :=
  if !c.m && P.eq (P.sign c.v) P.zero then ⟨P.one, false⟩ else ⟨P.sign c.v, c.m⟩

/-- scalar.py:270-295 `frac()`: `values % 1.`, mask kept, derivatives passed through -/
def fracObj (x : Obj K) : Obj K := ⟨x.main.map (passCode fun v => P.fmod v P.one), x.d⟩

/-- scalar.py `_power_0` … `_power_4` (the easy integer powers) -/
def pow0Obj (x : Obj K) : Obj K :=
  ⟨x.main.map fun c => (⟨P.one, c.m⟩ : Cell K), x.d.map fun dx => dx.map fun d => (⟨P.zero, d.m⟩ : Cell K)⟩
def pow2Obj (x : Obj K) : Obj K :=
  unaryObj P (fun c => ⟨P.mul c.v c.v, c.m⟩) (fun c => ⟨P.mul c.v (P.ofNat 2), c.m⟩) x
def pow3Obj (x : Obj K) : Obj K :=
  unaryObj P (fun c => ⟨P.mul c.v (P.mul c.v c.v), c.m⟩) (fun c => ⟨P.mul (P.ofNat 3) (P.mul c.v c.v), c.m⟩) x
def pow4Obj (x : Obj K) : Obj K :=
  unaryObj P (fun c => ⟨P.mul (P.mul c.v c.v) (P.mul c.v c.v), c.m⟩)
    (fun c => ⟨P.mul (P.mul (P.ofNat 4) (P.mul c.v c.v)) c.v, c.m⟩) x

/-- scalar.py `__pow__`, general exponent `k` (array path: power, then NaN / inf scrubbed to 1 and masked;
    the 0-D path masks the same elements): one element -/
def powCode (k : K) (c : Cell K) : Cell K :=
  let r := P.pow c.v k
  let bad := P.nonfinite r
  ⟨if bad then P.one else r, c.m || bad⟩

/-- derivative rule of the general power: `factor = expo * self**(expo-1)`, `factor * deriv` -/
def powObj (k km1 : K) (x : Obj K) : Obj K :=
  unaryObj P (powCode P k) (fun c => let q := powCode P km1 c; ⟨P.mul k q.v, q.m⟩) x

/-- qube.py `_floordiv_by_scalar` / `_mod_by_scalar`: divisor zeros replaced by 1 and masked -/
def fdivCode (a b : Cell K) : Cell K := binCode P.fdiv a (nonZero P b)
def fmodCode (a b : Cell K) : Cell K := binCode P.fmod a (nonZero P b)

def floordivObj (x y : Obj K) : Except Err (Obj K) :=
  match bcast x.main.shape y.main.shape with
  | none => .error .value
  | some out => .ok ⟨zip (fdivCode P) (x.main.bto out) (y.main.bto out), none⟩

/-- `%` keeps the derivatives of the left operand, broadcast, under their own masks -/
def modObj (x y : Obj K) : Except Err (Obj K) :=
  match bcast x.main.shape y.main.shape with
  | none => .error .value
  | some out => .ok ⟨zip (fmodCode P) (x.main.bto out) (y.main.bto out), x.d.map (·.bto out)⟩

/-- scalar.py:509-548 `y.arctan2(x)`: `denom_inv = (x.wod**2 + y.wod**2).reciprocal()`,
    `d = x.wod * denom_inv * dy  -  y.wod * denom_inv * dx` -/
def arctan2Obj (y x : Obj K) : Except Err (Obj K) :=
  match bcast y.main.shape x.main.shape with
  | none => .error .value
  | some out =>
    let y := btoObj y out; let x := btoObj x out
    let sq := fun (c : Cell K) => (⟨P.mul c.v c.v, c.m⟩ : Cell K)
    let dinv := (zip (binCode P.add) (x.main.map sq) (y.main.map sq)).map (recipCode P)
    let d1 := y.d.map fun dy => zip (binCode P.mul) (zip (binCode P.mul) x.main dinv) dy
    let d2 := x.d.map fun dx => zip (binCode P.mul) (zip (binCode P.mul) y.main dinv) dx
    .ok ⟨zip (binCode P.atan2) y.main x.main, mergeD (zip (binCode P.sub)) (·.map (passCode P.neg)) d1 d2⟩

/-! ### the mask_where family and clip (as on main after 347ed94 / d46d2c8) -/

inductive CmpKind where
  | lt | le | gt | ge | eq | ne
  deriving DecidableEq, Repr

def CmpKind.test (k : CmpKind) (v lim : K) : Bool :=
  match k with
  | .lt => P.lt v lim | .le => P.le v lim | .gt => P.lt lim v | .ge => P.le lim v
  | .eq => P.eq v lim | .ne => !P.eq v lim

/-- the selected elements of `mask_where_xx(limit, replace, remask)`: the comparison on the stored value;
    with remask=False the elements that are masked already do not take part (`_visible`) -/
def mwSel (k : CmpKind) (lim : K) (remask : Bool) (c : Cell K) : Bool := k.test P c.v lim && (remask || !c.m)

/-- mask_ops.py `mask_where`: selected elements receive the replacement (if any) and are masked iff remask;
    the derivatives are zeroed there when a replacement is given, and the new mask is or-ed into them -/
def mwObj (k : CmpKind) (lim : K) (rep : Option K) (remask : Bool) (x : Obj K) : Obj K :=
  match rep, remask with
  | none, false => x
  | _, _ =>
    ⟨x.main.map fun c => if mwSel P k lim remask c then ⟨rep.getD c.v, remask⟩ else c,
     x.d.map fun dx => zip (fun (c d : Cell K) =>
       if mwSel P k lim remask c then (⟨if rep.isSome then P.zero else d.v, remask⟩ : Cell K) else d) x.main dx⟩

/-- mask_ops.py `clip(lower, upper, remask)` with number limits ("easy case"): values clipped, mask or-ed
    with `outside` iff remask; with remask=False the derivatives are set to an UNMASKED zero where the
    stored value is outside (`new_deriv[outside] = deriv.zero()`) -/
def clipObj (lo hi : K) (remask : Bool) (x : Obj K) : Obj K :=
  let outside := fun (v : K) => P.lt v lo || P.lt hi v
  let clipv := fun (v : K) => if P.lt v lo then lo else if P.lt hi v then hi else v
  ⟨x.main.map fun c => ⟨clipv c.v, c.m || (remask && outside c.v)⟩,
   if remask then x.d
   else x.d.map fun dx => zip (fun (c d : Cell K) => if outside c.v then (⟨P.zero, false⟩ : Cell K) else d) x.main dx⟩

/-! ### item assignment through a (masked) integer index object on the first axis -/

/-- indexer.py `__setitem__` (as on main after e4a853a): index elements that are masked or out of range
    touch nothing; the others are written in row-major order of the index (the last write to a slot wins);
    the assigned element takes the value AND the mask of the right-hand side -/
def setitemCode (x : MArr K) (idx : MArr Int) (rhs : MArr K) : Except Err (MArr K) :=
  match x.shape with
  | [] => .error .index
  | len :: rest =>
    match bcast rhs.shape (idx.shape ++ rest) with
    | none => .error .value
    | some out =>
      if out != idx.shape ++ rest then .error .value else
      let rb := rhs.bto out
      let hits := fun (k : Nat) => (indices idx.shape).reverse.find? fun j =>
        let c := idx.get j
        !c.m && !(c.v ≥ (len : Int) || c.v < -(len : Int)) && (c.v % (len : Int)).toNat == k
      .ok ⟨x.shape, fun i =>
        match i with
        | [] => x.get i
        | k :: r =>
          match hits k with
          | some j => rb.get (j ++ r)
          | none => x.get i⟩

/-! ### the expression language -/

inductive UOp where
  | neg | abs | sign | sin | cos | tan | arctan | sqrt | log | expC | recip | arcsin | arccos
  | sqrtNc | logNc | exp | recipNz | arcsinNc | arccosNc | wod | pickle
  | signNz | frac | pow0 | pow2 | pow3 | pow4
  deriving DecidableEq, Repr

inductive BOp where
  | add | sub | mul | div | stack | mod | floordiv | arctan2
  deriving DecidableEq, Repr

inductive ROp where
  | sum | mean | max | min | argmax | argmin | median
  deriving DecidableEq, Repr

inductive COp where
  | eq | ne | lt | le | gt | ge
  deriving DecidableEq, Repr

/-- numeric expressions; the exempt accessors (values, mvals data, without_mask, remask,
    as_index(masked=None)) are deliberately NOT constructors -/
inductive Expr where
  | var (i : Nat)
  | un (op : UOp) (e : Expr)
  | bin (op : BOp) (e1 e2 : Expr)
  | red (op : ROp) (axes : List Nat) (e : Expr)
  | sort (axis : Nat) (e : Expr)
  | index (e : Expr) (iv : Nat)
  | shrinkUnshrink (am : Nat) (e : Expr)
  | powG (ik ikm1 : Nat) (e : Expr)
  | mw (k : CmpKind) (ilim : Nat) (irep : Option Nat) (remask : Bool) (e : Expr)
  | clip (ilo ihi : Nat) (remask : Bool) (e : Expr)
  | indexB (e : Expr) (bv : Nat)
  deriving Repr

structure Env (K : Type) where
  objs : List (Obj K)
  idxs : List (MArr Int)
  ams : List (Arr Bool)
  consts : List K
  bidxs : List (MArr Bool)

def emptyObj : Obj K := ⟨⟨[], fun _ => ⟨P.one, true⟩⟩, none⟩

def evalU (op : UOp) (x : Obj K) : Except Err (Obj K) :=
  match op with
  | .neg => .ok (negObj P x)
  | .abs => .ok (absObj P x)
  | .sign => .ok (signObj P x)
  | .sin => .ok (sinObj P x)
  | .cos => .ok (cosObj P x)
  | .tan => .ok (tanObj P x)
  | .arctan => .ok (arctanObj P x)
  | .sqrt => .ok (sqrtObj P x)
  | .log => .ok (logObj P x)
  | .expC => .ok (expCheckedObj P x)
  | .recip => .ok (recipObj P x)
  | .arcsin => .ok (arcsinObj P x)
  | .arccos => .ok (arccosObj P x)
  | .sqrtNc => sqrtFastObj P x
  | .logNc => logFastObj P x
  | .exp => expFastObj P x
  | .recipNz => recipFastObj P x
  | .arcsinNc => arcsinFastObj P x
  | .arccosNc => arccosFastObj P x
  | .wod => .ok x.wod
  | .pickle => .ok (pickleObjCode P x)
  | .signNz => .ok ⟨x.main.map (signNzCode P), none⟩
  | .frac => .ok (fracObj P x)
  | .pow0 => .ok (pow0Obj P x)
  | .pow2 => .ok (pow2Obj P x)
  | .pow3 => .ok (pow3Obj P x)
  | .pow4 => .ok (pow4Obj P x)

def evalB (op : BOp) (x y : Obj K) : Except Err (Obj K) :=
  match op with
  | .add => addObj P x y
  | .sub => subObj P x y
  | .mul => mulObj P x y
  | .div => divObj P x y
  | .stack => stackObj P x y
  | .mod => modObj P x y
  | .floordiv => floordivObj P x y
  | .arctan2 => arctan2Obj P x y

def evalR (op : ROp) (axes : List Nat) (x : Obj K) : Obj K :=
  match op with
  | .sum => sumObj P x axes
  | .mean => meanObj P x axes
  | .max => ⟨reduceCode (extremeLane (maxK P) P.negInf) x.main axes, none⟩
  | .min => ⟨reduceCode (extremeLane (minK P) P.posInf) x.main axes, none⟩
  | .argmax => ⟨reduceCode (argLane P (argmaxK P) P.negInf) x.main axes, none⟩
  | .argmin => ⟨reduceCode (argLane P (argminK P) P.posInf) x.main axes, none⟩
  | .median => ⟨reduceCode (medianLane P) x.main axes, none⟩

def eval (env : Env K) : Expr → Except Err (Obj K)
  | .var i => .ok (env.objs.getD i (emptyObj P))
  | .un op e =>
    match eval env e with
    | .error er => .error er
    | .ok x => evalU P op x
  | .bin op e1 e2 =>
    match eval env e1 with
    | .error er => .error er
    | .ok x =>
      match eval env e2 with
      | .error er => .error er
      | .ok y => evalB P op x y
  | .red op axes e =>
    match eval env e with
    | .error er => .error er
    | .ok x => .ok (evalR P op axes x)
  | .sort axis e =>
    match eval env e with
    | .error er => .error er
    | .ok x => .ok ⟨sortCode P x.main axis, none⟩
  | .index e iv =>
    match eval env e with
    | .error er => .error er
    | .ok x => getitemObj x (env.idxs.getD iv ⟨[], fun _ => ⟨0, true⟩⟩)
  | .shrinkUnshrink am e =>
    match eval env e with
    | .error er => .error er
    | .ok x => .ok (shrinkUnshrinkObj P x (env.ams.getD am ⟨[], fun _ => true⟩))
  | .powG ik ikm1 e =>
    match eval env e with
    | .error er => .error er
    | .ok x => .ok (powObj P (env.consts.getD ik P.one) (env.consts.getD ikm1 P.zero) x)
  | .mw k ilim irep remask e =>
    match eval env e with
    | .error er => .error er
    | .ok x => .ok (mwObj P k (env.consts.getD ilim P.zero) (irep.map fun i => env.consts.getD i P.zero) remask x)
  | .clip ilo ihi remask e =>
    match eval env e with
    | .error er => .error er
    | .ok x => .ok (clipObj P (env.consts.getD ilo P.zero) (env.consts.getD ihi P.zero) remask x)
  | .indexB e bv =>
    match eval env e with
    | .error er => .error er
    | .ok x => getitemBoolObj x (env.bidxs.getD bv ⟨[], fun _ => ⟨false, true⟩⟩)

/-- a comparison at the root of a numeric expression -/
def evalCmp (env : Env K) (op : COp) (e1 e2 : Expr) : Except Err (MArr Bool) :=
  match eval P env e1, eval P env e2 with
  | .error er, _ => .error er
  | .ok _, .error er => .error er
  | .ok x, .ok y =>
    let f : Cell K → Cell K → Cell Bool := match op with
      | .eq => eqCode P | .ne => neCode P
      | .lt => ordCode P.lt | .le => ordCode P.le
      | .gt => ordCode (fun a b => P.lt b a) | .ge => ordCode (fun a b => P.le b a)
    -- operands that do not broadcast: `==` is False, `!=` is True (qube.py:3870-3872, 3911-3913), the ordered
    -- comparisons raise NumPy's ValueError
    let dflt : Except Err (MArr Bool) := match op with
      | .eq => .ok ⟨[], fun _ => ⟨false, false⟩⟩
      | .ne => .ok ⟨[], fun _ => ⟨true, false⟩⟩
      | _ => .error .value
    match cmpArr f x.main y.main with
    | some r => .ok r
    | none => dflt

/-! ### statement sequences on a shared environment

An in-place operator is the pure operator plus rebinding of the target (`x += y` is `x := x + y`,
`x *= y` is `x := x * y`, `x /= y` is `x := x * y.reciprocal()` - qube.py `__itruediv__`); the operators
validate first, so a statement that raises leaves the environment unchanged. -/

inductive Stmt where
  | assign (i : Nat) (e : Expr)
  | query (e : Expr)
  | setitem (i : Nat) (iv : Nat) (e : Expr)
  deriving Repr

/-- `x_i[idx] = rhs` (derivative-free target): the new value of the target, or the exception -/
def setStmt (env : Env K) (i iv : Nat) (e : Expr) : Except Err (Obj K) :=
  match eval P env e with
  | .error er => .error er
  | .ok rhs =>
    match setitemCode (env.objs.getD i (emptyObj P)).main (env.idxs.getD iv ⟨[], fun _ => ⟨0, true⟩⟩) rhs.main with
    | .error er => .error er
    | .ok m => .ok ⟨m, none⟩

/-- run the statements in order; every statement contributes the outcome it shows (the new value of
    the target, or the query result, or the exception) -/
def runStmts (env : Env K) : List Stmt → List (Except Err (Obj K)) × Env K
  | [] => ([], env)
  | .query e :: rest =>
    let r := eval P env e
    let (out, env') := runStmts env rest
    (r :: out, env')
  | .setitem i iv e :: rest =>
    let r := setStmt P env i iv e
    let env1 : Env K := match r with
      | .ok y => { env with objs := env.objs.set i y }
      | .error _ => env
    let (out, env') := runStmts env1 rest
    (r :: out, env')
  | .assign i e :: rest =>
    let r := eval P env e
    let env1 : Env K := match r with
      | .ok x => { env with objs := env.objs.set i x }
      | .error _ => env
    let (out, env') := runStmts env1 rest
    (r :: out, env')

/-! ### observation -/

/-- what can be seen of an array: shape, expanded mask, values at unmasked elements (row-major) -/
def obsArr {α : Type} (a : MArr α) : Shape × List Bool × List α :=
  (a.shape, a.toList.map (·.m), (a.toList.filter fun c => !c.m).map (·.v))

/-- observation of an object: the main array and the derivative, each under its own mask -/
def obsObj (x : Obj K) : (Shape × List Bool × List K) × Option (Shape × List Bool × List K) :=
  (obsArr x.main, x.d.map obsArr)

def obsRes : Except Err (Obj K) → Except Err ((Shape × List Bool × List K) × Option (Shape × List Bool × List K))
  | .error e => .error e
  | .ok x => .ok (obsObj x)

end PMV.NI
