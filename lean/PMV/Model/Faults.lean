import PMV.Core.Shape
/-
  C19 view: rejected operations fail cleanly.

  Every mutator of polymath is modelled as
      validate : Obj → (arguments) → Except Exc (List Prim)      -- the chain of checks, in source order
      execAll  : Obj → List Prim → Obj × Option Exc               -- the writes, each with an explicit precondition
  `validate` never changes the object; a `Prim` is one write statement of the source (a NumPy in-place
  ufunc, an attribute rebinding, `insert_deriv`, `delete_deriv`, …).  Every primitive RE-CHECKS its own
  precondition when it is executed and raises if it does not hold — exactly as NumPy, `insert_deriv` and
  `_set_values_` do — so a mutator that validated too little would be observed, in this model, to fail
  after its first write and leave a half-updated object (`run` returns the state reached).

  The object state is abstract where the property does not look: contents (values, mask, units of the target
  and of each derivative) are represented by a VERSION counter that every write increments, so "the target is
  exactly as it was" is `s' = s`, and any executed write makes `s' ≠ s`.

  Source modelled (polymath, after the `fix:` commits of branch wt-C19):
    qube.py  __iadd__ __isub__ (2927-2968, 3047-3088)  __imul__ (3178-3229)  __itruediv__ (3371-3405)
             __ifloordiv__ (3534-3570)  __imod__ (3666-3701)  __iand__/__ior__/__ixor__ (4070-4114)
             insert_deriv / _require_compatible_deriv / insert_derivs (1473-1567)  delete_deriv(s) (1569-1623)
             set_units (1773-1793)  require_writable (1964-1976)  _raise_* helpers (4420-4503)
    boolean.py 152-204, matrix.py 511-521, matrix3.py 366-376 (class overrides of the in-place operators)
    extensions/indexer.py  __setitem__ (95-245), _require_assignable, the try/except wrapper of _prep_index (269, 520-521)
-/
namespace PMV.Faults

/-- exception classes; `other` = any class outside the three documented ones
    (AttributeError, NameError, RuntimeError, KeyError, a Warning class …) -/
inductive Exc where
  | typeError | valueError | indexError | other
  deriving DecidableEq, Repr, Inhabited

def Exc.allowed : Exc → Bool
  | .other => false
  | _ => true

inductive Kind where
  | bool | int | float
  deriving DecidableEq, Repr, Inhabited

inductive Cls where
  | scalar | boolean | vector | vector3 | pair | matrix | matrix3 | quaternion
  deriving DecidableEq, Repr, Inhabited

/-- class constants NRANK / UNITS_OK / DERIVS_OK -/
def Cls.nrank : Cls → Nat
  | .scalar | .boolean => 0
  | .vector | .vector3 | .pair | .quaternion => 1
  | .matrix | .matrix3 => 2
def Cls.unitsOk : Cls → Bool
  | .boolean | .matrix3 | .quaternion => false
  | _ => true
def Cls.derivsOk : Cls → Bool
  | .boolean => false
  | _ => true
/-- the fixed numerator of a class (NUMER), if any -/
def Cls.numer? : Cls → Option Shape
  | .vector3 => some [3] | .pair => some [2] | .quaternion => some [4] | .matrix3 => some [3, 3]
  | .scalar | .boolean => some []
  | _ => none

/-- one derivative held by an object.  Its leading shape and numerator are those of the parent. -/
structure Deriv where
  key : String
  denom : Shape
  ro : Bool
  ver : Nat
  deriving DecidableEq, Repr, Inhabited

structure Obj where
  cls : Cls
  kind : Kind
  shape : Shape
  numer : Shape
  denom : Shape
  /-- `none` or the dimension class of the unit (two units can match iff one is None or the classes agree) -/
  units : Option Nat
  ro : Bool
  /-- number of writes applied to values / mask / units so far -/
  ver : Nat
  derivs : List Deriv
  deriving DecidableEq, Repr, Inhabited

/-- operands as the mutators receive them -/
inductive Arg where
  | num (k : Kind) (zero : Bool)          -- Python bool / int / float
  | nd (k : Kind) (shape : Shape)         -- numpy.ndarray
  | q (o : Obj)                           -- a Qube
  | bad                                   -- str, dict, None, complex, arbitrary object
  deriving Repr, Inhabited

/-! ### helpers shared by the mutators -/

/-- NumPy: `a` can be broadcast INTO `t` (the result of broadcasting is `t` itself).  This is the condition
    of every in-place ufunc `t op= a` and of `np.broadcast_to(a, t)` (`Qube._require_broadcast_into`). -/
def into (a t : Shape) : Bool := bcast t a == some t

/-- NumPy item assignment `x[sel] = a`: leading unit axes of `a` beyond the rank of the selection are dropped -/
def stripOnes : Nat → Shape → Shape
  | 0, s => s
  | n + 1, 1 :: s => stripOnes n s
  | _, s => s
def assignable (a sel : Shape) : Bool := into (stripOnes (a.length - sel.length) a) sel

/-- `Units.can_match` -/
def canMatch : Option Nat → Option Nat → Bool
  | none, _ => true
  | _, none => true
  | some a, some b => a == b

/-- the values attribute is a Python scalar (rebinding semantics) rather than an ndarray -/
def Obj.pyScalar (s : Obj) : Bool := s.shape.isEmpty && s.numer.isEmpty && s.denom.isEmpty
def Obj.rank (s : Obj) : Nat := s.numer.length + s.denom.length
def Obj.isInt (s : Obj) : Bool := s.kind == .int
def Obj.isFloat (s : Obj) : Bool := s.kind == .float
def Obj.find (s : Obj) (k : String) : Option Deriv := s.derivs.find? (·.key == k)
def Obj.hasKey (s : Obj) (k : String) : Bool := s.derivs.any (·.key == k)

/-- NumPy `same_kind` casting of an in-place ufunc result back into the target array -/
def castable (src dst : Kind) : Bool :=
  match src, dst with
  | .float, .float => true
  | .float, _ => false
  | .int, .bool => false
  | _, _ => true

def Kind.max : Kind → Kind → Kind
  | .float, _ => .float
  | _, .float => .float
  | .int, _ => .int
  | _, .int => .int
  | _, _ => .bool

/-! ### write primitives -/

inductive Prim where
  /-- `self._values_ op= x` on an ndarray: NumPy checks casting (TypeError) and that x broadcasts into the
      array (ValueError) BEFORE writing; then writes in place -/
  | ipValues (argShape : Shape) (argKind : Kind) (aligned : Bool)
  /-- `self._values_ op= x` where the attribute is a Python scalar: the attribute is REBOUND to the result -/
  | rebind (k : Kind)
  /-- `self._mask_ = Qube.or_(…)` -/
  | setMask
  /-- `self._units_ = …` -/
  | setUnits (u : Option Nat)
  /-- `self.insert_deriv(key, d)` where `d` has the given leading shape, numerator and denominator -/
  | insertDeriv (key : String) (dshape dnumer ddenom : Shape) (isQube : Bool) (override : Bool)
  /-- `for deriv in derivs: deriv._values_ op= number` (number path of *= and /=) -/
  | ipDerivs
  | deleteDeriv (key : String)
  | deleteDerivs (keep : List String)
  /-- `self._set_values_(values, mask)` (matrix path of *=): checks the shape, then rebinds -/
  | setValues (vshape : Shape)
  /-- `self._values_[index] = x` / the shapeless `self._values_ = arg._values_` of `__setitem__` -/
  | assignValues (sel argShape : Shape)
  /-- `self_deriv[index] = arg_deriv` for every derivative of the target (writes into the derivative) -/
  | assignDerivs (argDenoms : List (String × Shape))
  deriving Repr, Inhabited, DecidableEq

/-- the exception the real primitive raises when its precondition fails -/
def Prim.exc (s : Obj) : Prim → Exc
  | .ipValues _ k _ => if castable k s.kind then .valueError else .typeError
  | .insertDeriv .. => if s.cls.derivsOk then .valueError else .typeError
  | _ => .valueError

def Obj.valuesShape (s : Obj) : Shape := s.shape ++ s.numer ++ s.denom
/-- the shape an operand's leading shape is compared with: the leading shape when the code aligns the item axes
    (+= -= *= //= %=), the whole values array when it does not (&= |= ^=) -/
def Obj.lead (s : Obj) (aligned : Bool) : Shape := if aligned then s.shape else s.valuesShape

/-- precondition of each primitive — what NumPy / insert_deriv / _set_values_ / require_writable test themselves -/
def Prim.pre (s : Obj) : Prim → Bool
  | .ipValues a k al => castable k s.kind && into a (s.lead al) && !s.pyScalar
  | .rebind _ => s.pyScalar
  | .setMask => true
  | .setUnits _ => true
  | .insertDeriv key dshape dnumer _ isQube override =>
      s.cls.derivsOk && isQube && (dnumer == s.numer) && into dshape s.shape
        && !(s.ro && s.hasKey key && !override)
  | .ipDerivs => s.derivs.all (!·.ro)
  | .deleteDeriv _ => true
  | .deleteDerivs _ => true
  | .setValues v => v == s.valuesShape
  | .assignValues sel a => assignable a sel
  | .assignDerivs ads => s.derivs.all fun d => !d.ro && (match ads.lookup d.key with
      | some dn => dn == d.denom | none => true)

def bumpDeriv (d : Deriv) : Deriv := { d with ver := d.ver + 1 }

/-- effect of a primitive whose precondition holds: every write increments a version counter -/
def Prim.apply (s : Obj) : Prim → Obj
  | .ipValues _ _ _ => { s with ver := s.ver + 1 }
  | .rebind k => { s with ver := s.ver + 1, kind := k }
  | .setMask => { s with ver := s.ver + 1 }
  | .setUnits u => { s with ver := s.ver + 1, units := u }
  | .insertDeriv key _ _ dd _ _ =>
      { s with derivs := (s.derivs.filter (·.key != key)) ++ [⟨key, dd, s.ro, s.ver + 1⟩], ver := s.ver + 1 }
  | .ipDerivs => { s with derivs := s.derivs.map bumpDeriv, ver := s.ver + 1 }
  | .deleteDeriv key => { s with derivs := s.derivs.filter (·.key != key), ver := s.ver + 1 }
  | .deleteDerivs keep => { s with derivs := s.derivs.filter (keep.contains ·.key), ver := s.ver + 1 }
  | .setValues _ => { s with ver := s.ver + 1 }
  | .assignValues _ _ => { s with ver := s.ver + 1 }
  | .assignDerivs _ => { s with derivs := s.derivs.map bumpDeriv, ver := s.ver + 1 }

/-- execute the writes in order; a primitive whose precondition fails raises and leaves the state REACHED -/
def execAll : Obj → List Prim → Obj × Option Exc
  | s, [] => (s, none)
  | s, p :: ps => if p.pre s then execAll (p.apply s) ps else (s, some (p.exc s))

/-! ### validation chains (source order) -/

abbrev V := Except Exc (List Prim)

def raise (e : Exc) : V := .error e
def guard' (c : Bool) (e : Exc) : Except Exc Unit := if c then .ok () else .error e

/-- `for x in xs:` with a body that may raise or skip (own definition, so that proofs need no library internals) -/
def filterMapE {α β} (f : α → Except Exc (Option β)) : List α → Except Exc (List β)
  | [] => .ok []
  | x :: xs =>
    match f x with
    | .error e => .error e
    | .ok none => filterMapE f xs
    | .ok (some b) =>
      match filterMapE f xs with
      | .error e => .error e
      | .ok l => .ok (b :: l)

def mapE {α β} (f : α → Except Exc β) : List α → Except Exc (List β)
  | [] => .ok []
  | x :: xs =>
    match f x with
    | .error e => .error e
    | .ok b =>
      match mapE f xs with
      | .error e => .error e
      | .ok l => .ok (b :: l)

/-- `require_writable()` -/
def requireWritable (s : Obj) : Except Exc Unit := guard' (!s.ro) .valueError

/-- `Qube._raise_unsupported_op(op, self, original_arg)`: ValueError for list/tuple/ndarray operands, else TypeError -/
def unsupported : Arg → Exc
  | .nd _ _ => .valueError
  | _ => .typeError

inductive AddOp where | add | sub deriving DecidableEq, Repr

/-- the values write of an in-place ufunc with a Qube/array operand: in place on an ndarray, rebinding on a
    Python scalar (then NumPy checks nothing, the result kind is the promoted kind) -/
def valuesWrite (s : Obj) (ashape : Shape) (akind : Kind) (aligned : Bool := true) : Prim :=
  if s.pyScalar then .rebind (Kind.max s.kind akind) else .ipValues ashape akind aligned

/-- `_require_units_allowed(op, arg)`: an operand with units for a class that disallows units (UNITS_OK false) is
    refused with TypeError, as the constructor would refuse it -/
def unitsAllowed (s a : Obj) : Bool := !(a.units.isSome && !s.cls.unitsOk)

/-- the item shape (numerator ++ denominator) -/
def Obj.item (s : Obj) : Shape := s.numer ++ s.denom

/-- NumPy's own pre-write test of `self._values_ op= x`, as part of validation (kernel contract: NumPy raises
    before it writes): casting first (UFuncTypeError, a TypeError), then broadcasting (ValueError) -/
def kernelCheck (s : Obj) (ashape : Shape) (akind : Kind) (aligned : Bool := true) : Except Exc Unit :=
  if s.pyScalar then .ok ()
  else if !castable akind s.kind then .error .typeError
  else if !into ashape (s.lead aligned) then .error .valueError
  else .ok ()

/-- one iteration of `for key in set12: new_derivs[key] = arg1._derivs_[key] + arg2._derivs_[key]` -/
def addStep (s a : Obj) (d : Deriv) : Except Exc (Option (String × Shape × Shape)) :=
  match a.find d.key with
  | some e => if e.denom == d.denom then .ok (some (d.key, s.shape, d.denom)) else .error .valueError
  | none => .ok none

/-- `_add_derivs` / `_sub_derivs`: the dictionary of new derivatives; adding two derivatives of the same key
    raises ValueError if their denominators differ (Qube.__add__ on the derivatives) -/
def addDerivs (s a : Obj) : Except Exc (List (String × Shape × Shape)) := do
  let both ← filterMapE (addStep s a) s.derivs
  let only1 := (s.derivs.filter fun d => !a.hasKey d.key).map fun d => (d.key, s.shape, d.denom)
  let only2 := (a.derivs.filter fun d => !s.hasKey d.key).map fun d => (d.key, a.shape, d.denom)
  pure (both ++ only1 ++ only2)

def insertPrims (s : Obj) (ds : List (String × Shape × Shape)) : List Prim :=
  ds.map fun (k, sh, dn) => .insertDeriv k sh s.numer dn true false

/-- `as_this_type(arg, coerce=False)` of a non-Qube operand for a class of numerator rank 0 without denominators
    (the only targets for which the harness sends non-Qube operands to += and -=) -/
def asThisType0 (s : Obj) : Arg → Except Exc Obj
  | .num k _ => .ok { s with kind := k, shape := [], derivs := [], ro := false }
  | .nd k sh => .ok { s with kind := k, shape := sh, derivs := [], ro := false }
  | .q o => .ok o
  | .bad => .error .typeError

/-- the fast path of += / -=: a rank-0 object and a number, or an array that can be updated in place -/
def fastPath (s : Obj) : Arg → Option (Shape × Kind)
  | .num k _ => if s.rank == 0 then some ([], k) else none
  | .nd k sh => if s.rank == 0 && (!s.pyScalar || sh.isEmpty) then some (sh, k) else none
  | _ => none

/-- "Convert arg to another Qube if necessary": conversion failures are re-raised by `_raise_unsupported_op` -/
def toQubeAdd (s : Obj) : Arg → Except Exc Obj
  | .q o => .ok o
  | other =>
    match asThisType0 s other with
    | .ok o => .ok o
    | .error _ => .error (unsupported other)

/-- the compatibility checks and the writes of += / -= once the operand is a Qube (qube.py:2944-2968) -/
def vAddQ (s a : Obj) : V := do
  guard' (canMatch s.units a.units) .valueError
  guard' (s.numer == a.numer) (if s.cls != a.cls then .typeError else .valueError)
  guard' (s.denom == a.denom) .valueError
  guard' (into a.shape s.shape) .valueError                   -- _require_broadcast_into
  guard' (unitsAllowed s a) .typeError                        -- _require_units_allowed
  guard' (!(s.isInt && !a.isInt)) .typeError
  let nd ← addDerivs s a
  kernelCheck s a.shape a.kind
  pure ([valuesWrite s a.shape a.kind, .setMask, .setUnits (s.units.or a.units)] ++ insertPrims s nd)

/-- Qube.__iadd__ / __isub__ (qube.py:2927-2968, 3047-3088); Boolean overrides raise at once (boolean.py:152-166) -/
def vAdd (s : Obj) (arg : Arg) : V := do
  guard' (s.cls != .boolean) .typeError
  requireWritable s
  match fastPath s arg with
  | some (sh, k) => do
    kernelCheck s sh k
    pure [valuesWrite s sh k]
  | none => do
    let a ← toQubeAdd s arg
    vAddQ s a

/-- `Scalar.as_scalar(arg)` for a non-Qube operand -/
def asScalar : Arg → Except Exc Obj
  | .num k _ => .ok ⟨.scalar, if k == .bool then .int else k, [], [], [], none, false, 0, []⟩
  | .nd k sh => .ok ⟨.scalar, if k == .bool then .int else k, sh, [], [], none, false, 0, []⟩
  | .q o => .ok o
  | .bad => .error .typeError

/-- "Convert arg to a Scalar if necessary", failures re-raised by `_raise_unsupported_op` -/
def toScalarArg (arg : Arg) : Except Exc Obj :=
  match asScalar arg with
  | .ok o => .ok o
  | .error _ => .error (unsupported arg)

def mulDenom (s : Obj) (e : Deriv) : Shape := if !s.denom.isEmpty then s.denom else e.denom

/-- one iteration of `for (key, arg_deriv) in arg._derivs_.items()` in `_mul_derivs`: the term `self_wod * arg_deriv`
    (refused when both have denominators, `_raise_dual_denoms`) is added to the term from self's derivative of the
    same key (Qube.__add__: equal denominators required) or becomes a new derivative -/
def mulStep (s : Obj) (e : Deriv) : Except Exc (Option (String × Shape × Shape)) :=
  if !s.denom.isEmpty && !e.denom.isEmpty then .error .valueError
  else
    match s.find e.key with
    | some d => if d.denom == mulDenom s e then .ok none else .error .valueError
    | none => .ok (some (e.key, s.shape, mulDenom s e))

/-- `_mul_derivs(arg)`: products and sums of derivatives; a sum of two terms needs equal denominators, and a
    product of two objects that both have denominators is refused (`_raise_dual_denoms`) -/
def mulDerivs (s a : Obj) : Except Exc (List (String × Shape × Shape)) := do
  let fromSelf := s.derivs.map fun d => (d.key, s.shape, d.denom)
  let fromArg ← filterMapE (mulStep s) a.derivs
  pure (fromSelf ++ fromArg)

/-- the part of Qube.__imul__ after the operand has been converted to a Qube (qube.py:3198-3229) -/
def vMulQ (s a : Obj) : V := do
  if a.rank == 0 then
    guard' (into a.shape s.shape) .valueError                 -- _require_broadcast_into
    guard' (unitsAllowed s a) .typeError                      -- _require_units_allowed
    guard' (!(s.isInt && !a.isInt)) .typeError
    let nd ← mulDerivs s a
    kernelCheck s a.shape a.kind
    pure ([valuesWrite s a.shape a.kind, .setMask, .setUnits (if a.units.isSome then a.units else s.units)]
            ++ insertPrims s nd)
  else if s.cls.nrank == 2 && a.cls.nrank == 2 && a.denom.isEmpty then
    -- Qube.dot(self, arg, -1, 0): the contracted axes must agree; then _set_values_ checks the full shape
    match s.numer, a.numer with
    | [n0, n1], [m0, m1] =>
      guard' (n1 == m0) .valueError
      guard' (!(!s.denom.isEmpty && a.derivs.any (!·.denom.isEmpty))) .valueError
      match bcast s.shape a.shape with
      | none => raise .valueError
      | some out =>
        let v := out ++ [n0, m1] ++ s.denom
        guard' (v == s.valuesShape) .valueError               -- _set_values_: shape test before the write
        let nd ← mulDerivs s { a with shape := out }
        pure ([.setValues v] ++ insertPrims s nd)
    | _, _ => raise .valueError
  else raise .typeError

/-- Qube.__imul__ (qube.py:3178-3229), Boolean and Matrix3 overrides (boolean.py:170, matrix3.py:366-376) -/
def vMul (s : Obj) (arg : Arg) : V := do
  guard' (s.cls != .boolean) .typeError
  requireWritable s
  if s.cls == .matrix3 then
    -- Matrix3.as_matrix3(arg): only 3x3 matrices convert
    match arg with
    | .q o =>
      if o.cls.nrank == 2 && o.numer == [3, 3] && o.denom.isEmpty then vMulQ s { o with cls := .matrix3 }
      else raise .typeError
    | _ => raise .typeError
  else
    match arg with
    | .num k _ => do
      guard' (s.derivs.all (!·.ro)) .valueError               -- derivatives must be writable (fix)
      kernelCheck s [] k
      pure ([valuesWrite s [] k] ++ (if s.derivs.isEmpty then [] else [.ipDerivs]))
    | other => do
      let a ← toScalarArg other
      vMulQ s a

/-- `arg.reciprocal()` as far as validation is concerned: Scalars and square matrices have one -/
def reciprocalOk (a : Obj) : Except Exc Obj :=
  if a.cls.nrank == 0 then
    if !a.denom.isEmpty then .error .valueError               -- Scalar.reciprocal() does not support denominators
    else .ok (if a.kind == .float then a else { a with kind := .float })
  else if a.cls.nrank == 1 then
    -- Vector.reciprocal: a vector with one denominator axis is inverted as a (square) matrix
    if a.denom.length != 1 then .error .typeError
    else if a.numer == a.denom then .ok a else .error .valueError
  else if a.cls.nrank == 2 then
    match a.numer with
    | [n, m] => if n == m && a.denom.isEmpty then .ok a else .error .valueError
    | _ => .error .valueError
  else .error .typeError

/-- Qube.__itruediv__ (qube.py:3371-3405) -/
def vDiv (s : Obj) (arg : Arg) : V := do
  guard' (s.cls != .boolean) .typeError
  guard' s.isFloat .typeError
  requireWritable s
  match arg with
  | .num k false => do
    guard' (s.derivs.all (!·.ro)) .valueError
    kernelCheck s [] k
    pure ([valuesWrite s [] k] ++ (if s.derivs.isEmpty then [] else [.ipDerivs]))
  | other => do
    let a ← toScalarArg other
    let r ← reciprocalOk a
    vMul s (.q r)

/-- `self.delete_derivs()` closes //= (derivatives are not supported by floor division); %= keeps them -/
def floorTail (floor : Bool) : List Prim := if floor then [.deleteDerivs []] else []

/-- Qube.__ifloordiv__ / __imod__ (qube.py:3534-3570, 3666-3701); Boolean and Matrix overrides raise at once -/
def vFloorMod (floor : Bool) (s : Obj) (arg : Arg) : V := do
  guard' (s.cls != .boolean) .typeError
  guard' (!(s.cls == .matrix || s.cls == .matrix3)) (unsupported arg)
  requireWritable s
  match arg with
  | .num k false => do
    kernelCheck s [] k
    pure ([valuesWrite s [] k] ++ floorTail floor)
  | other => do
    let a ← toScalarArg other
    if a.rank == 0 then do
      guard' (into a.shape s.shape) .valueError               -- _require_broadcast_into
      guard' (unitsAllowed s a) .typeError                    -- _require_units_allowed
      kernelCheck s a.shape a.kind
      pure ([valuesWrite s a.shape a.kind, .setMask, .setUnits s.units] ++ floorTail floor)
    else raise .typeError

/-- Qube.__iand__ / __ior__ / __ixor__ (qube.py:4070-4114): bitwise ufuncs do not exist for floats -/
def vLogic (s : Obj) (arg : Arg) : V := do
  requireWritable s
  match arg with
  | .q o => do
    guard' (into o.shape s.shape) .valueError                 -- _require_broadcast_into
    guard' (o.item == s.item) .typeError                      -- "items are combined one by one"
    guard' (s.kind != .float) .typeError                      -- no bitwise ufunc for floats
    kernelCheck s o.shape .bool                               -- equal items: only the leading shapes matter
    pure [valuesWrite s o.shape .bool, .setMask]
  | .nd _ sh => do                      -- converted to a Boolean (item shape ()) first
    guard' (into sh s.shape) .valueError
    guard' (([] : Shape) == s.item) .typeError
    guard' (s.kind != .float) .typeError
    kernelCheck s sh .bool
    pure [valuesWrite s sh .bool, .setMask]
  | _ => do                             -- anything else is compared with 0 and used as one Boolean
    guard' (s.kind != .float) .typeError
    kernelCheck s [] .bool false
    pure [valuesWrite s [] .bool false]

/-- `_require_compatible_deriv` (qube.py, shared by insert_deriv and insert_derivs) -/
def compatibleDeriv (s : Obj) : Arg → Except Exc Obj
  | .q d => do
    guard' s.cls.derivsOk .typeError
    guard' (d.numer == s.numer) .valueError
    guard' (into d.shape s.shape) .valueError
    pure d
  | _ => do
    guard' s.cls.derivsOk .typeError
    throw .valueError

/-- Qube.insert_deriv (qube.py:1473-1539) -/
def vInsertDeriv (s : Obj) (key : String) (d : Arg) (override : Bool) : V := do
  let o ← compatibleDeriv s d
  guard' (!(s.ro && s.hasKey key && !override)) .valueError
  pure [.insertDeriv key o.shape o.numer o.denom true override]

/-- one iteration of the validation loop of insert_derivs: `self._require_compatible_deriv(key, deriv)` -/
def insStep (s : Obj) (p : String × Arg) : Except Exc (String × Obj) :=
  match compatibleDeriv s p.2 with
  | .ok o => .ok (p.1, o)
  | .error e => .error e

/-- Qube.insert_derivs (qube.py:1542-1567): every check for every derivative first, then the inserts -/
def vInsertDerivs (s : Obj) (ds : List (String × Arg)) (override : Bool) : V := do
  guard' (!(s.ro && !override && ds.any fun p => s.hasKey p.1)) .valueError
  let os ← mapE (insStep s) ds
  pure (os.map fun p => .insertDeriv p.1 p.2.shape p.2.numer p.2.denom true override)

/-- Qube.delete_deriv (qube.py:1569-1588) -/
def vDeleteDeriv (s : Obj) (key : String) (override : Bool) : V := do
  guard' (override || !s.ro) .valueError                      -- `if not override: self.require_writable()`
  pure [.deleteDeriv key]

/-- Qube.delete_derivs (qube.py:1591-1623); `preserve` falsy (None or empty) deletes everything -/
def vDeleteDerivs (s : Obj) (preserve : List String) (override : Bool) : V := do
  guard' (override || !s.ro) .valueError
  if preserve.isEmpty then pure [.deleteDerivs []]
  else pure ((s.derivs.filter fun d => !preserve.contains d.key).map fun d => .deleteDeriv d.key)

/-- units argument of set_units: None, a Units object of a dimension class, or something that is not a unit -/
inductive UArg where
  | none | unit (dim : Nat) | bad
  deriving Repr, DecidableEq

/-- Qube.set_units (qube.py:1773-1793) -/
def vSetUnits (s : Obj) (u : UArg) (override : Bool) : V := do
  guard' (s.cls.unitsOk || u == .none) .typeError
  guard' (override || !s.ro) .valueError
  match u with
  | .bad => raise .valueError                                -- Units.as_units
  | .none => pure [.setUnits none]
  | .unit d => do
    guard' (canMatch (some d) s.units) .valueError           -- Units.require_compatible
    pure [.setUnits (some d)]

/-- what `_prep_index` / `_prep_scalar_index` make of an index, as far as failure is concerned -/
inductive Idx where
  /-- the index preparation raises internally with the given class -/
  | fails (inner : Exc)
  /-- every selected element is masked out by the index (or the selection is empty): nothing to do -/
  | nothing
  /-- a selection of the given leading shape -/
  | sel (shape : Shape)
  deriving Repr

/-- the `try: … except Exception as e: raise IndexError(e)` wrapper of `_prep_index` (indexer.py:269, 520-521) -/
def prepIndexWrapper {α} (inner : Except Exc α) : Except Exc α :=
  match inner with
  | .ok x => .ok x
  | .error _ => .error .indexError

def prepIndex : Idx → Except Exc (Option Shape)
  | .fails e => prepIndexWrapper (.error e)
  | .nothing => .ok none
  | .sel sh => .ok (some sh)

/-- `as_this_type(arg, recursive=True)` as used by __setitem__ (coerce=True: the kind is cast silently) -/
def asThisType (s : Obj) : Arg → Except Exc Obj
  | .bad => .error .typeError
  | .num _ _ => if s.rank == 0 then .ok { s with shape := [], derivs := [], ro := false } else .error .valueError
  | .nd _ sh => if s.rank == 0 then .ok { s with shape := sh, derivs := [], ro := false } else .error .valueError
  | .q o =>
    if o.cls.nrank != s.cls.nrank then .error .valueError                       -- _raise_incompatible_numers
    else if o.cls != s.cls && (match s.cls.numer? with | some n => n != o.numer | none => false)
      then .error .valueError                                                   -- constructor of the fixed-numerator class
    else .ok { o with cls := s.cls, derivs := if s.cls.derivsOk then o.derivs else [] }

/-- Qube.__setitem__ (indexer.py:95-245) with `_require_assignable` -/
def vSetItem (s : Obj) (ix : Idx) (arg : Arg) : V := do
  requireWritable s
  match ← prepIndex ix with
  | none => pure []
  | some sel =>
    let a ← asThisType s arg
    guard' (s.numer == a.numer) .valueError
    guard' (s.denom == a.denom) .valueError
    -- derivatives present on both sides must have equal denominators; the target's must be writable
    let ads := a.derivs.map fun e => (e.key, e.denom)
    guard' (s.derivs.all fun d => !d.ro && (match ads.lookup d.key with
      | some dn => dn == d.denom | none => true)) .valueError
    guard' (assignable a.shape sel) .valueError               -- NumPy's test in `values[index] = x`
    let newKeys := if s.cls.derivsOk then a.derivs.filter fun e => !s.hasKey e.key else []
    pure ([.assignValues sel a.shape, .setMask]
          ++ (if s.derivs.isEmpty then [] else [.assignDerivs ads])
          ++ newKeys.map fun e => .insertDeriv e.key s.shape s.numer e.denom true true)

/-! ### the mutators as one type -/

inductive Call where
  | iadd (a : Arg) | isub (a : Arg) | imul (a : Arg) | itruediv (a : Arg)
  | ifloordiv (a : Arg) | imod (a : Arg) | ilogic (a : Arg)
  | setitem (ix : Idx) (a : Arg)
  | insertDeriv (key : String) (d : Arg) (override : Bool)
  | insertDerivs (ds : List (String × Arg)) (override : Bool)
  | deleteDeriv (key : String) (override : Bool)
  | deleteDerivs (preserve : List String) (override : Bool)
  | setUnits (u : UArg) (override : Bool)
  deriving Repr

def validate (s : Obj) : Call → V
  | .iadd a => vAdd s a
  | .isub a => vAdd s a
  | .imul a => vMul s a
  | .itruediv a => vDiv s a
  | .ifloordiv a => vFloorMod true s a
  | .imod a => vFloorMod false s a
  | .ilogic a => vLogic s a
  | .setitem ix a => vSetItem s ix a
  | .insertDeriv k d o => vInsertDeriv s k d o
  | .insertDerivs ds o => vInsertDerivs s ds o
  | .deleteDeriv k o => vDeleteDeriv s k o
  | .deleteDerivs p o => vDeleteDerivs s p o
  | .setUnits u o => vSetUnits s u o

/-- one call: validation, then the writes; the result is the state reached and the exception, if any -/
def run (s : Obj) (c : Call) : Obj × Option Exc :=
  match validate s c with
  | .error e => (s, some e)
  | .ok plan => execAll s plan

end PMV.Faults
