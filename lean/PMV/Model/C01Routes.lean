/-
  C01, tie T2: the vocabulary and the semantic conditions for the table that
  harness/c01_py2lean.py regenerates from the source of /repo on every run (PMV/Gen/C01Routes.lean).

  `Fn`  = one function of the library: its own mask-handling tokens and the arithmetic helpers it calls.
  `Row` = (entry functions of a catalogue operation, a model `Path` the harness uses for it).
  A row is justified when every characteristic token of the path is reachable from the entry
  functions through the call graph.  Core Lean only.
-/
namespace PMV.C01Routes

/-- mask-handling tokens recognised in a function body -/
inductive Tok where
  | clone | setMask | orr | pipe | mask | mwEq | mwLt | mwLe | mwGt | isOneTrue | maskedSingle
  | allMasked | isnan | isinf | det | npAny | funcUnmasked | broadcast
  deriving DecidableEq, Repr

/-- names of the model paths (PMV.MaskPath.Path, with the `same` flag spelt out) and of the
    Matrix3 * Scalar special case -/
inductive PathName where
  | cloneSet | setTrue | ctor1 | ctorOr | ctorOrSame | ctorOr3 | divScalar | divScalarSame | divPipe
  | guard | guardAsin | pow0D | powArr | elementDiv | matInverse | m3mul
  deriving DecidableEq, Repr

inductive Helper where
  | divByScalar | floordivByScalar | modByScalar | divByNumber | mulByScalar | sqrt | log | exp | recip
  | scalarPow | elementDiv | matInverse | boolAsInt | boolAsFloat | arcsin | arccos | qubeOr | maskWhere
  | remaskOr
  deriving DecidableEq, Repr

structure Fn where
  id : Nat
  toks : List Tok
  calls : List Nat

structure Row where
  entries : List Nat
  path : PathName

def lookup (fns : List Fn) (i : Nat) : Option Fn := fns.find? (·.id == i)

/-- functions reachable from `frontier` in at most `fuel` call steps -/
def reach (fns : List Fn) : Nat → List Nat → List Nat → List Nat
  | 0, _, seen => seen
  | fuel + 1, frontier, seen =>
    let new := frontier.filter fun i => !seen.contains i
    if new.isEmpty then seen
    else
      let seen' := seen ++ new.eraseDups
      let next := new.flatMap fun i => match lookup fns i with | some f => f.calls | none => []
      reach fns fuel next seen'

def reachToks (fns : List Fn) (entries : List Nat) : List Tok :=
  (reach fns 12 entries []).flatMap fun i => match lookup fns i with | some f => f.toks | none => []

/-- what a path needs somewhere below the operator: a conjunction of alternatives.
    cloneSet: `clone()`; setTrue: `_set_mask_`; ctor1: a `._mask_` handed on; ctorOr*: `Qube.or_`;
    divScalar: `mask_where_eq` and `Qube.or_`; divPipe: `mask_where_eq` and `|` on masks;
    guard: one of the `mask_where_xx`; guardAsin: `Qube.or_` and `is_one_true`;
    pow0D: `masked_single`; powArr: `np.isnan` and `np.isinf` and `Qube.or_`;
    elementDiv: `Qube.or_` and `np.any`; matInverse: `linalg.det` and `Qube.or_`; m3mul: nothing. -/
def required : PathName → List (List Tok)
  | .cloneSet => [[.clone]]
  | .setTrue => [[.setMask, .allMasked]]
  | .ctor1 => [[.mask]]
  | .ctorOr | .ctorOrSame | .ctorOr3 => [[.orr, .pipe]]
  | .divScalar | .divScalarSame => [[.mwEq], [.orr, .pipe]]
  | .divPipe => [[.mwEq], [.pipe, .orr]]
  | .guard => [[.mwEq, .mwLt, .mwLe, .mwGt]]
  | .guardAsin => [[.orr], [.isOneTrue]]
  | .pow0D => [[.maskedSingle], [.orr]]
  | .powArr => [[.isnan], [.isinf], [.orr]]
  | .elementDiv => [[.orr], [.npAny]]
  | .matInverse => [[.det], [.orr]]
  | .m3mul => []

def rowOK (fns : List Fn) (r : Row) : Bool :=
  let ts := reachToks fns r.entries
  !r.entries.isEmpty && (required r.path).all fun alts => alts.any fun t => ts.contains t

/-- what an arithmetic helper must contain in ITS OWN body (conjunction of alternatives; `pipe`
    also stands for `np.logical_or`, and merging with `|` or with `Qube.or_` are interchangeable) -/
def helperRequired : Helper → List (List Tok)
  | .divByScalar => [[.mwEq], [.orr, .pipe]]
  | .floordivByScalar => [[.mwEq], [.pipe, .orr]]
  | .modByScalar => [[.mwEq], [.pipe, .orr]]
  | .divByNumber => [[.clone], [.setMask]]
  | .mulByScalar => [[.orr, .pipe]]
  | .sqrt => [[.mwLt], [.funcUnmasked]]
  | .log => [[.mwLe], [.funcUnmasked]]
  | .exp => [[.mwGt], [.funcUnmasked]]
  | .recip => [[.mwEq], [.funcUnmasked]]
  | .scalarPow => [[.orr, .pipe], [.isnan], [.isinf], [.maskedSingle]]
  | .elementDiv => [[.orr, .pipe], [.npAny]]
  | .matInverse => [[.det], [.orr, .pipe], [.npAny]]
  | .boolAsInt => [[.mask]]
  | .boolAsFloat => [[.mask]]
  | .arcsin => [[.orr, .pipe], [.isOneTrue], [.funcUnmasked]]
  | .arccos => [[.orr, .pipe], [.isOneTrue], [.funcUnmasked]]
  | .qubeOr => [[.pipe]]
  | .maskWhere => [[.npAny]]
  | .remaskOr => [[.orr, .pipe], [.setMask]]

def helperOK (fns : List Fn) (h : Helper × Nat) : Bool :=
  match lookup fns h.2 with
  | some f => (helperRequired h.1).all fun alts => alts.any fun t => f.toks.contains t
  | none => false

end PMV.C01Routes
