import PMV.Core.Arr
/-
  Executable, code-shaped model of `polymath/polynomial.py` (class `Polynomial`) and of
  `Scalar.solve_quadratic` (scalar.py:706-740).  Mathlib-free.

  A polynomial is the list of its coefficients in order of DECREASING exponent, exactly as the
  item axis of the `Vector` underlying a `Polynomial`.  All coefficient-level definitions are
  polymorphic in the coefficient type: the driver runs them on `Int` (integer-valued float64
  coefficients are exact) and on `Float` (root formulas, bit-for-bit IEEE), the theorems of
  `PMV/Props/C20.lean` instantiate them with a commutative ring / a linearly ordered field.
-/
namespace PMV.Poly

/-! ### 1. Coefficient lists: order alignment, ring operations, deriv, eval -/

section Ring
variable {K : Type} [Zero K] [One K] [Add K] [Sub K] [Neg K] [Mul K] [NatCast K]

/-- `Polynomial.order` (polynomial.py:55-59): item length − 1 -/
def order (p : List K) : Nat := p.length - 1

/-- `at_least_order` (polynomial.py:102-127): unchanged when the order suffices, else a fresh zero
    array of length `ord+1` whose LAST `order+1` entries are the old coefficients (left padding). -/
def atLeastOrder (ord : Nat) (p : List K) : List K :=
  if ord ≤ order p then p else List.replicate (ord + 1 - p.length) (0 : K) ++ p

/-- `set_order` (polynomial.py:130-144): raises `ValueError` when the order would shrink -/
def setOrder (ord : Nat) (p : List K) : Option (List K) :=
  if ord < order p then none else some (atLeastOrder ord p)

/-- the two alignment steps every binary operator performs (polynomial.py:171-172, 184-185):
    `arg = arg.at_least_order(self.order); self = self.at_least_order(arg.order)` -/
def align (p q : List K) : List K × List K :=
  let q' := atLeastOrder (order p) q
  let p' := atLeastOrder (order q') p
  (p', q')

/-- `__add__` (polynomial.py:170-173): align, then `Vector + Vector` element-wise -/
def addC (p q : List K) : List K :=
  let (p', q') := align p q
  List.zipWith (· + ·) p' q'

/-- `__sub__` (polynomial.py:183-186) -/
def subC (p q : List K) : List K :=
  let (p', q') := align p q
  List.zipWith (· - ·) p' q'

/-- `__neg__` (polynomial.py:167-168) -/
def negC (p : List K) : List K := p.map (- ·)

/-- `Polynomial * number` (polynomial.py:242): `Vector * number`, every coefficient times the number -/
def scaleC (k : K) (p : List K) : List K := p.map (· * k)

/-- `new_values[..., k:k+dk] += xs` on an increasing-power accumulator (polynomial.py:220-222):
    add `xs` into `acc` starting at offset `k`; a slice never extends the array -/
def addAt : Nat → List K → List K → List K
  | _, _, [] => []
  | 0, [], acc => acc
  | 0, x :: xs, a :: acc => (a + x) :: addAt 0 xs acc
  | k + 1, xs, a :: acc => a :: addAt k xs acc

/-- the loop `for k in range(kstop): new_values[k:k+dk] += arg_values[k] * self_values`
    (polynomial.py:217-222); `sr`, `ar` are the REVERSED (increasing-power) coefficient lists -/
def mulLoop (sr : List K) : List K → Nat → List K → List K
  | [], _, acc => acc
  | c :: cs, k, acc => mulLoop sr cs (k + 1) (addAt k (sr.map (c * ·)) acc)

/-- `Polynomial.__mul__` for two polynomials (polynomial.py:198-224): zeros of length
    `new_order+1`, reversed operands, shifted accumulation, reversed back -/
def mulC (p q : List K) : List K :=
  let newOrder := order p + order q
  (mulLoop p.reverse q.reverse 0 (List.replicate (newOrder + 1) (0 : K))).reverse

/-- `for k in range(2,arg): result = result * self` (polynomial.py:285-286) -/
def powLoop (p : List K) : Nat → List K → List K
  | 0, r => r
  | n + 1, r => powLoop p n (mulC r p)

/-- `__pow__` (polynomial.py:273-288) for a valid (non-negative integer) exponent -/
def powC (p : List K) : Nat → List K
  | 0 => [1]
  | 1 => p
  | n + 2 => powLoop p n (mulC p p)

/-- `np.arange(order, 0, -1)` -/
def countDown : Nat → List Nat
  | 0 => []
  | n + 1 => (n + 1) :: countDown n

/-- `deriv` (polynomial.py:304-314): zeros of the same length for order ≤ 0, else all but the last
    coefficient times `order, order-1, …, 1` -/
def derivC (p : List K) : List K :=
  if order p = 0 then p.map (fun _ => (0 : K))
  else List.zipWith (fun (c : K) (k : Nat) => c * (k : K)) p.dropLast (countDown (order p))

/-- the powers loop of the REPAIRED `eval` (polynomial.py:323-346 after the fix): starts from
    `x**0`, every power is a new object `x_power * x`; returns `[x^0, x^1, …, x^n]` -/
def powers (x : K) : Nat → K → List K
  | 0, xp => [xp]
  | n + 1, xp => xp :: powers x n (xp * x)

/-- `np.sum(array1 * array2, axis=-1)` of `Qube.dot` (math_ops.py:235) -/
def dot (a b : List K) : K := (List.zipWith (· * ·) a b).sum

/-- `eval` (polynomial.py:323-349): `Qube.dot(self, Vector.from_scalars(*x_powers[::-1]))` -/
def evalC (p : List K) (x : K) : K := dot p (powers x (order p) 1).reverse

/-- NumPy's `polyval` loop (`y = y * x + c`), the reference `eval` is compared with -/
def horner (p : List K) (x : K) : K := p.foldl (fun y c => y * x + c) 0

end Ring

/-! ### 2. One leading element of a `Polynomial` object: coefficients and mask bit -/

structure PCell (K : Type) where
  c : List K
  m : Bool
  deriving Repr

structure SCell (K : Type) where
  v : K
  m : Bool
  deriving Repr

section Cells
variable {K : Type} [Zero K] [One K] [Add K] [Sub K] [Neg K] [Mul K] [NatCast K]

/-- `Vector + Vector`: the mask is the union (qube.py `__add__`) -/
def PCell.add (a b : PCell K) : PCell K := ⟨addC a.c b.c, a.m || b.m⟩
def PCell.sub (a b : PCell K) : PCell K := ⟨subC a.c b.c, a.m || b.m⟩
/-- `__rsub__` (polynomial.py:188-191): `arg - self` after the same alignment -/
def PCell.rsub (a b : PCell K) : PCell K := ⟨subC b.c a.c, a.m || b.m⟩
def PCell.neg (a : PCell K) : PCell K := ⟨negC a.c, a.m⟩
/-- `new_mask = Qube.or_(self._mask_, arg._mask_)` (polynomial.py:208) -/
def PCell.mul (a b : PCell K) : PCell K := ⟨mulC a.c b.c, a.m || b.m⟩
/-- `deriv` keeps the mask (polynomial.py:314) -/
def PCell.deriv (a : PCell K) : PCell K := ⟨derivC a.c, a.m⟩
/-- `eval`: `from_scalars` gives every power the mask of `x`, `dot` unites it with the
    polynomial's mask (math_ops.py:242) -/
def PCell.eval (a : PCell K) (x : SCell K) : SCell K := ⟨evalC a.c x.v, a.m || x.m⟩

/-- array level: leading axes broadcast, `none` = `ValueError` of `broadcasted_shape` -/
def addA (a b : Arr (PCell K)) : Option (Arr (PCell K)) := Arr.map2 PCell.add a b
def subA (a b : Arr (PCell K)) : Option (Arr (PCell K)) := Arr.map2 PCell.sub a b
def rsubA (a b : Arr (PCell K)) : Option (Arr (PCell K)) := Arr.map2 PCell.rsub a b
def mulA (a b : Arr (PCell K)) : Option (Arr (PCell K)) := Arr.map2 PCell.mul a b
def negA (a : Arr (PCell K)) : Arr (PCell K) := a.map PCell.neg
def derivA (a : Arr (PCell K)) : Arr (PCell K) := a.map PCell.deriv
def evalA (a : Arr (PCell K)) (x : Arr (SCell K)) : Option (Arr (SCell K)) := Arr.map2 PCell.eval a x

/-- `__pow__` at array level (polynomial.py:273-288): exponent 0 returns the shapeless, unmasked
    `Polynomial([1.])` whatever `self` is; exponent 1 returns `self`; otherwise repeated `*` -/
def powA (a : Arr (PCell K)) : Nat → Arr (PCell K)
  | 0 => ⟨[], fun _ => ⟨[1], false⟩⟩
  | n + 1 => a.map fun cell => ⟨powC cell.c (n + 1), cell.m⟩

end Cells

/-! ### 2a. Aliasing view of `eval`: which objects the powers loop writes

  A heap is a list of `Scalar` value cells; an object is its position.  `x` is the cell `xr`. -/

section Heap
variable {K : Type} [Zero K] [One K] [Add K] [Mul K]

/-- the REPAIRED loop (polynomial.py `eval` after the fix): `x_power = x_power * x` allocates a new
    object each time (appended cell); nothing existing is written -/
def fixedLoop (xr : Nat) : Nat → List K → List K
  | 0, h => h
  | n + 1, h => fixedLoop xr n (h ++ [h.getLastD 0 * h.getD xr 0])

/-- repaired `eval` on the heap: `x**0` is a new object, the list `x_powers` holds exactly the new
    objects; returns the value and the final heap -/
def evalFixedHeap (h : List K) (xr : Nat) (p : List K) : K × List K :=
  let hN := fixedLoop xr (order p) (h ++ [1])
  (dot p (hN.drop h.length).reverse, hN)

/-- the PINNED loop (polynomial.py:340-345 before the fix): `x_power = x` is the SAME object as `x`,
    `x_power *= x` multiplies that object by itself in place -/
def pinnedLoop (xr : Nat) : Nat → List K → List K
  | 0, h => h
  | n + 1, h => pinnedLoop xr n (h.set xr (h.getD xr 0 * h.getD xr 0))

/-- pinned `eval` (order ≥ 1): `x_powers = [1., x, x_power, x_power, …]` where every entry but the
    literal `1.` is a reference to the one object `x`, read after the loop -/
def evalPinnedHeap (h : List K) (xr : Nat) (p : List K) : K × List K :=
  let hN := pinnedLoop xr (order p - 1) h
  (dot p ((1 : K) :: List.replicate (order p) (hN.getD xr 0)).reverse, hN)

end Heap

/-! ### 2b. Derivatives of the coefficients and of the evaluation point (one key `d_dt`) -/

section Derivs
variable {K : Type} [Zero K] [One K] [Add K] [Sub K] [Neg K] [Mul K] [NatCast K]

/-- the powers loop of `eval` with derivatives: `x_power * x` is `Scalar.__mul__`, whose derivative
    is `d(x_power)·x + x_power·dx` (qube.py `_mul_derivs`); `x**0` carries no derivative -/
def powersD (x dx : K) : Nat → K × K → List (K × K)
  | 0, xp => [xp]
  | n + 1, xp => xp :: powersD x dx n (xp.1 * x, xp.2 * x + xp.1 * dx)

/-- `eval` with derivatives (math_ops.py:247-267): value `dot(p, powers)`, derivative
    `dot(dp, powers.wod) + dot(p.wod, d powers)` -/
def evalD (p dp : List K) (x dx : K) : K × K :=
  let P := (powersD x dx (order p) (1, 0)).reverse
  (dot p (P.map Prod.fst), dot dp (P.map Prod.fst) + dot p (P.map Prod.snd))

/-- derivative of a product (polynomial.py:227-236): `arg.wod * dself + self.wod * darg` -/
def mulDerivC (p dp q dq : List K) : List K := addC (mulC q dp) (mulC p dq)

/-- one leading element of a `Polynomial` with one derivative `d_dt` (a Polynomial of the same
    order; an absent derivative is the zero list) -/
structure PCellD (K : Type) where
  c : List K
  d : List K
  m : Bool
  deriving Repr

/-- `__add__` with derivatives: `at_least_order(recursive=True)` pads the derivative like its parent
    (polynomial.py:122-125), `Vector + Vector` adds the derivatives (qube.py `_add_derivs`) -/
def PCellD.add (a b : PCellD K) : PCellD K := ⟨addC a.c b.c, addC a.d b.d, a.m || b.m⟩
def PCellD.sub (a b : PCellD K) : PCellD K := ⟨subC a.c b.c, subC a.d b.d, a.m || b.m⟩
def PCellD.rsub (a b : PCellD K) : PCellD K := ⟨subC b.c a.c, subC b.d a.d, a.m || b.m⟩
/-- `-Vector` negates the derivatives -/
def PCellD.neg (a : PCellD K) : PCellD K := ⟨negC a.c, negC a.d, a.m⟩
/-- `Vector * number` scales the derivatives -/
def PCellD.scale (k : K) (a : PCellD K) : PCellD K := ⟨scaleC k a.c, scaleC k a.d, a.m⟩
/-- `__mul__` with derivatives (polynomial.py:198-240) -/
def PCellD.mul (a b : PCellD K) : PCellD K := ⟨mulC a.c b.c, mulDerivC a.c a.d b.c b.d, a.m || b.m⟩
/-- `deriv()` differentiates the derivatives too (polynomial.py:316-318) -/
def PCellD.deriv (a : PCellD K) : PCellD K := ⟨derivC a.c, derivC a.d, a.m⟩

/-- `for k in range(2,arg): result = result * self` with derivatives -/
def powLoopD (p : PCellD K) : Nat → PCellD K → PCellD K
  | 0, r => r
  | n + 1, r => powLoopD p n (r.mul p)

/-- `__pow__` with derivatives (polynomial.py:273-288): `p**0` is the constant 1 without
    derivatives, `p**1` is `p`, otherwise repeated `*` (each applying the product rule) -/
def PCellD.pow (p : PCellD K) : Nat → PCellD K
  | 0 => ⟨[1], [0], false⟩
  | 1 => p
  | n + 2 => powLoopD p n (p.mul p)

end Derivs

/-- `roots()` derivative (polynomial.py `_insert_root_derivs`): `dx/dt = -dp/dt(x) / p'(x)` -/
def rootDeriv {K : Type} [Zero K] [One K] [Add K] [Sub K] [Neg K] [Mul K] [Div K] [NatCast K]
    (p dp : List K) (x : K) : K := (- evalC dp x) / evalC (derivC p) x

/-! ### 3. Roots -/

/-- what the root formulas need beyond field arithmetic -/
class RootOps (K : Type) where
  /-- the literal `0.5` -/
  half : K
  /-- `np.sqrt` -/
  sqrt : K → K
  lt : K → K → Bool
  beq : K → K → Bool

section Roots
variable {K : Type} [Zero K] [One K] [Add K] [Sub K] [Neg K] [Mul K] [Div K] [RootOps K]
open RootOps

def SCell.add (a b : SCell K) : SCell K := ⟨a.v + b.v, a.m || b.m⟩
def SCell.sub (a b : SCell K) : SCell K := ⟨a.v - b.v, a.m || b.m⟩
def SCell.mul (a b : SCell K) : SCell K := ⟨a.v * b.v, a.m || b.m⟩
def SCell.neg (a : SCell K) : SCell K := ⟨- a.v, a.m⟩
/-- multiplication by a Python number -/
def SCell.scale (k : K) (a : SCell K) : SCell K := ⟨k * a.v, a.m⟩

/-- `_div_by_scalar` (qube.py:3426-3442): zeros of the divisor are masked and replaced by 1
    (`mask_where_eq(0., 1.)`), then one plain division -/
def SCell.div (a b : SCell K) : SCell K :=
  let z := beq b.v 0
  ⟨a.v / (if z then 1 else b.v), a.m || (b.m || z)⟩

/-- `Scalar.sqrt(check=True)` (scalar.py:551-583): negatives masked and replaced by 1 -/
def SCell.sqrt (a : SCell K) : SCell K :=
  let n := lt a.v 0
  ⟨RootOps.sqrt (if n then 1 else a.v), a.m || n⟩

/-- `Scalar.sign(zeros=False)` (scalar.py:676-694): −1 below zero, +1 otherwise (0 ↦ +1) -/
def SCell.sign (a : SCell K) : SCell K := ⟨if lt a.v 0 then - 1 else 1, a.m⟩

/-- `Qube.__eq__` on scalars: both masked → equal, one masked → unequal, else compare values -/
def SCell.qeq (a b : SCell K) : Bool :=
  if a.m && b.m then true else if a.m || b.m then false else beq a.v b.v

/-- `mask_where(cond)` / `remask_or(cond)` for one element -/
def SCell.maskIf (a : SCell K) (cond : Bool) : SCell K := ⟨a.v, a.m || cond⟩

/-- `Scalar.solve_quadratic` (scalar.py:706-740), one broadcast element -/
def solveQuadratic (a b c : SCell K) : SCell K × SCell K :=
  let negHalfB := SCell.scale (- half) b
  let discr := (negHalfB.mul negHalfB).sub (a.mul c)
  let term := negHalfB.add (negHalfB.sign.mul discr.sqrt)
  let x0 := c.div term
  let x1 := term.div a
  -- `mask = x0.mask; x0[mask] = x1[mask]`
  let mask := x0.m
  let x0 := if mask then x1 else x0
  -- `x1 = x1.remask_or(mask | (x1 == x0))`
  let x1 := x1.maskIf (mask || x1.qeq x0)
  (x0, x1)

/-- order on cells used by `Scalar.sort` (scalar.py:1256-1295): masked values are replaced by
    the dtype's maximum (+inf) and sorted last; finite unmasked values ascending -/
def SCell.le (a b : SCell K) : Bool := b.m || (!a.m && !lt b.v a.v)

/-- `Scalar.sort(axis=0)` on the lane of one leading element: values with +inf at masked places
    sorted ascending, the mask bits sorted (False first).  Values under the mask are not
    observable; the model keeps the cell. -/
def sortCells (l : List (SCell K)) : List (SCell K) := l.mergeSort SCell.le

/-- `roots()` for order 1 (polynomial.py:372-376): `-b/a`, new leading axis of length 1 -/
def rootsLinear (a b : SCell K) : List (SCell K) := [b.neg.div a]

/-- `invert_line` (polynomial.py:147-161) for `y = a x + b`: `a_inv = 1./a` (masked where `a == 0`),
    coefficients `(a_inv, -b * a_inv)`; `none` = ValueError unless the order is 1 -/
def invertLine (p : PCell K) :
    Option (SCell K × SCell K) :=
  match p.c with
  | [a, b] =>
    let ainv := SCell.div (⟨1, false⟩ : SCell K) ⟨a, p.m⟩
    some (ainv, (SCell.neg ⟨b, p.m⟩).mul ainv)
  | _ => none

/-- `roots()` for order 2 (polynomial.py:379-384) -/
def rootsQuadratic (a b c : SCell K) : List (SCell K) :=
  let (x0, x1) := solveQuadratic a b c
  let x1 := x1.maskIf (x1.qeq x0)
  sortCells [x0, x1]

/-- `while np.any(shifts): coefficients[shifts,:-1] = coefficients[shifts,1:]; …[-1] = 0`
    (polynomial.py:425-431) for one element that is not all-zero; `fuel` = number of coefficients -/
def shiftLoop : Nat → List K → Nat → List K × Nat
  | 0, c, s => (c, s)
  | fuel + 1, c, s =>
    match c with
    | [] => (c, s)
    | c0 :: rest => if beq c0 0 then shiftLoop fuel (rest ++ [0]) (s + 1) else (c, s)

/-- first row of the companion matrix: `-coefficients[1:] / coefficients[0:1]` (polynomial.py:436) -/
def companionRow (c : List K) : List K :=
  match c with
  | [] => []
  | c0 :: rest => rest.map fun x => (- x) / c0

/-- mask the first `s` entries: `for k in range(max_shifts): root_mask[k][total_shifts > k] = True`
    (polynomial.py:447-449) -/
def maskFirst : Nat → List (SCell K) → List (SCell K)
  | 0, l => l
  | _ + 1, [] => []
  | s + 1, x :: l => x.maskIf true :: maskFirst s l

/-- duplicate masking on the SORTED lane (polynomial.py:451-461 after the fix): entry `k` is masked
    when its value equals the value of entry `k-1` and it is not already masked.  `prev` is the
    value at `k-1` (the sorted values, not the updated mask, are compared). -/
def maskDups (prev : K) : List (SCell K) → List (SCell K)
  | [] => []
  | x :: l => x.maskIf (beq x.v prev && !x.m) :: maskDups x.v l

def maskDupsSorted : List (SCell K) → List (SCell K)
  | [] => []
  | x :: l => x :: maskDups x.v l

/-- post-processing of the eigenvalues (polynomial.py:440-465): complex → masked, polynomial mask,
    extraneous zeros, sort, duplicate masking, sort again.  `eig` are the eigenvalues `(re, im)`
    in LAPACK's order. -/
def rootsPost (polyMask : Bool) (shifts : Nat) (eig : List (K × K)) : List (SCell K) :=
  let cells := eig.map fun z => (⟨z.1, polyMask || !beq z.2 0⟩ : SCell K)
  let cells := maskFirst shifts cells
  let sorted := sortCells cells
  let deduped := maskDupsSorted sorted
  -- `if mask_changed:` sort again; sorting a lane that did not change is the identity on
  -- everything observable, so the model sorts unconditionally
  sortCells deduped

/-- preparation for order ≥ 3 (polynomial.py:391-431), one leading element: all-zero polynomials
    become `1·x^n` and are masked; leading zeros are shifted out.  Returns the polynomial mask,
    the number of shifts and the shifted coefficients. -/
def prepHigh (p : PCell K) : Bool × Nat × List K :=
  let allZero := p.c.all fun x => beq x 0
  -- `coefficients[all_zeros,0] = 1.; poly_mask |= all_zeros`
  let coeffs := if allZero then (match p.c with | [] => [] | _ :: r => (1 : K) :: r) else p.c
  let polyMask := p.m || allZero
  let (shifted, s) := shiftLoop coeffs.length coeffs 0
  (polyMask, s, shifted)

/-- `roots()` for order ≥ 3 (polynomial.py:386-465), one leading element.  `eigvals` stands for
    `np.linalg.eigvals` applied to the companion matrix whose first row is given. -/
def rootsHigh (eigvals : List K → List (K × K)) (p : PCell K) : List (SCell K) :=
  let (polyMask, s, shifted) := prepHigh p
  rootsPost polyMask s (eigvals (companionRow shifted))

/-- `roots()` (polynomial.py:352-481) without derivatives; `none` = `ValueError` for order 0 -/
def roots (eigvals : List K → List (K × K)) (p : PCell K) : Option (List (SCell K)) :=
  match p.c with
  | [] => none
  | [_] => none
  | [a, b] => some (rootsLinear ⟨a, p.m⟩ ⟨b, p.m⟩)
  | [a, b, c] => some (rootsQuadratic ⟨a, p.m⟩ ⟨b, p.m⟩ ⟨c, p.m⟩)
  | _ => some (rootsHigh eigvals p)

end Roots

end PMV.Poly
