import PMV.Core.Arr
/-
  C13 view: reductions and ordering operations see only the unmasked elements.

  Sources modelled (line numbers of the repaired tree, branch `wt-C13`):
    polymath/extensions/math_ops.py  _mean_or_sum, _check_axis, _zero_sized_result
    polymath/scalar.py               _minval/_maxval, max, min, argmax, argmin, maximum, minimum,
                                     median, sort
    polymath/qube.py                 any, all

  Conventions
  * An element is a stored value and a mask bit (`Cell`).  The value stored under a mask is
    arbitrary ("hidden"); it is carried along so that the theorems can say the observable
    answer does not depend on it.
  * Values are exact integers.  The harness sends integer data as is and float data as
    multiples of 1/8 scaled by 8; `+inf`/`-inf` and the integer dtype limits arrive as the
    parameters `minval`/`maxval` (and as data equal to them).
  * `mean` is the exact fraction (numerator, denominator); `median` is reported doubled
    (`values_lo + values_hi`, the source multiplies by 0.5 afterwards).
  * NumPy's N-d axis reductions are modelled by `Arr.reduce`: the function of NumPy applied to
    every lane (the elements that collapse onto one output index, in row-major order).
  * Every `…Mixed`, `…Code` definition is written like the source: same fills, same counts,
    same branch order.  `spec…` definitions are the readable reference.
-/
namespace PMV.Reduce

structure Cell (α : Type) where
  v : α
  m : Bool
  deriving DecidableEq, Repr, Inhabited

/-- result element: stored value and mask bit -/
abbrev Out (β : Type) := β × Bool

/-- what can be observed of a result element: `none` when masked -/
def obs {β : Type} (r : Out β) : Option β := match r.2 with | true => none | false => some r.1

/-- the representation of a mask: a single Python bool or an array -/
inductive Rep where
  | scalar (b : Bool)
  | array
  deriving DecidableEq, Repr

/-- the cells are consistent with a representation -/
def Rep.ok {α : Type} : Rep → List (Cell α) → Prop
  | .scalar b, xs => ∀ c ∈ xs, c.m = b
  | .array, _ => True

inductive Err where
  | index | value | type
  deriving DecidableEq, Repr

/-! ### specification -/

/-- the unmasked values of a lane, in order -/
def unm {α : Type} (xs : List (Cell α)) : List α := (xs.filter fun c => !c.m).map (·.v)

/-- "what the same reduction over only the unmasked elements returns; masked exactly when every
    contributing element is masked" -/
def specRed {α β : Type} (f : List α → β) (xs : List (Cell α)) : Option β :=
  match unm xs with
  | [] => none
  | u => some (f u)

/-! ### the NumPy functions on one lane (plain lists) -/

/-- `np.sum` -/
def npSum (l : List Int) : Int := l.foldr (· + ·) 0

/-- `np.mean` as an exact fraction: (sum, number of elements) -/
def npMean (l : List Int) : Int × Nat := (npSum l, l.length)

/-- `np.max` of a lane (NumPy raises on an empty lane; never reached, the size-0 branch is first) -/
def npMax : List Int → Int
  | [] => 0
  | x :: xs => xs.foldl max x

/-- `np.min` -/
def npMin : List Int → Int
  | [] => 0
  | x :: xs => xs.foldl min x

/-- `np.argmax` loop: first position of the largest value (strict `>` keeps the earliest) -/
def argmaxFrom : List Int → Nat → Nat → Int → Nat
  | [], _, bi, _ => bi
  | x :: xs, i, bi, bv => if x > bv then argmaxFrom xs (i + 1) i x else argmaxFrom xs (i + 1) bi bv

def npArgmax : List Int → Nat
  | [] => 0
  | x :: xs => argmaxFrom xs 1 0 x

def argminFrom : List Int → Nat → Nat → Int → Nat
  | [], _, bi, _ => bi
  | x :: xs, i, bi, bv => if x < bv then argminFrom xs (i + 1) i x else argminFrom xs (i + 1) bi bv

def npArgmin : List Int → Nat
  | [] => 0
  | x :: xs => argminFrom xs 1 0 x

/-- `np.sort` of a lane -/
def npSort (l : List Int) : List Int := l.mergeSort fun a b => decide (a ≤ b)

/-- `np.sort` of a lane of bools (False < True) -/
def npSortB (l : List Bool) : List Bool := l.mergeSort fun a b => !a || b

/-- twice `np.median`: the sum of the two middle elements of the sorted lane -/
def npMedian2 (l : List Int) : Int :=
  let s := npSort l
  s.getD ((l.length - 1) / 2) 0 + s.getD (l.length / 2) 0

/-! ### `_mean_or_sum`, mixed branch (math_ops.py:68-96) on one lane -/

/-- `new_values[arg._mask_] = 0` -/
def zeroFill (xs : List (Cell Int)) : List Int := xs.map fun c => if c.m then 0 else c.v

/-- `count = np.sum(arg.antimask, axis)` -/
def count {α : Type} (xs : List (Cell α)) : Nat := (xs.map fun c => if c.m then 0 else 1).foldr (· + ·) 0

/-- math_ops.py:70-96 with `_combine_as_mean=False` -/
def sumMixed (dflt : Int) (xs : List (Cell Int)) : Out Int :=
  let newValues := npSum (zeroFill xs)
  let cnt := count xs
  let newMask := cnt == 0
  (if newMask then dflt else newValues, newMask)

/-- math_ops.py:70-96 with `_combine_as_mean=True`: `new_values / np.maximum(count, 1)` -/
def meanMixed (dflt : Int) (xs : List (Cell Int)) : Out (Int × Nat) :=
  let newValues := npSum (zeroFill xs)
  let cnt := count xs
  let newMask := cnt == 0
  let denom := max cnt 1
  (if newMask then (dflt, 1) else (newValues, denom), newMask)

/-- math_ops.py:57-62: `func(arg._values_[arg.antimask], axis=0)` -/
def compress {α : Type} (xs : List (Cell α)) : List α := (xs.filter fun c => !c.m).map (·.v)

/-! ### items: Vector / Matrix sums (values of shape lane × item) -/

/-- `np.sum(values, axis=leading axes)` on a lane of items of `isz` components -/
def vSum (isz : Nat) (l : List (List Int)) : List Int :=
  l.foldr (fun a b => List.zipWith (· + ·) a b) (List.replicate isz 0)

/-- `new_values[arg._mask_] = 0` zeroes every component of a masked item -/
def vZeroFill (isz : Nat) (xs : List (Cell (List Int))) : List (List Int) :=
  xs.map fun c => if c.m then List.replicate isz 0 else c.v

def vSumMixed (isz : Nat) (dflt : List Int) (xs : List (Cell (List Int))) : Out (List Int) :=
  let newValues := vSum isz (vZeroFill isz xs)
  let newMask := count xs == 0
  (if newMask then dflt else newValues, newMask)

def vMeanMixed (isz : Nat) (dflt : List Int) (xs : List (Cell (List Int))) : Out (List Int × Nat) :=
  let newValues := vSum isz (vZeroFill isz xs)
  let cnt := count xs
  let newMask := cnt == 0
  (if newMask then (dflt, 1) else (newValues, max cnt 1), newMask)

/-! ### max / min / argmax / argmin, mixed branch (scalar.py:797-817, 867-888, 945-964, 1018-1037) -/

/-- `new_values[self._mask_] = fill` -/
def fillWith (fill : Int) (xs : List (Cell Int)) : List Int := xs.map fun c => if c.m then fill else c.v

def raw {α : Type} (xs : List (Cell α)) : List α := xs.map (·.v)

/-- scalar.py:800-817 on one lane: fill with `_minval`, `np.max`; a fully masked lane takes the
    max of the stored values and is masked -/
def maxMixed (minval : Int) (xs : List (Cell Int)) : Out Int :=
  let maxValues := npMax (fillWith minval xs)
  let mask := xs.all (·.m)
  (if mask then npMax (raw xs) else maxValues, mask)

/-- scalar.py:870-888 -/
def minMixed (maxval : Int) (xs : List (Cell Int)) : Out Int :=
  let minValues := npMin (fillWith maxval xs)
  let mask := xs.all (·.m)
  (if mask then npMin (raw xs) else minValues, mask)

/-- scalar.py:946-964 -/
def argmaxMixed (minval : Int) (xs : List (Cell Int)) : Out Nat :=
  let argmax := npArgmax (fillWith minval xs)
  let mask := xs.all (·.m)
  (if mask then npArgmax (raw xs) else argmax, mask)

/-- scalar.py:1019-1037 -/
def argminMixed (maxval : Int) (xs : List (Cell Int)) : Out Nat :=
  let argmin := npArgmin (fillWith maxval xs)
  let mask := xs.all (·.m)
  (if mask then npArgmin (raw xs) else argmin, mask)

/-- reference for argmax: the position, in the lane, of the first unmasked element that equals the
    largest unmasked value (numpy.ma's answer) -/
def specArgmax (xs : List (Cell Int)) : Option Nat :=
  match unm xs with
  | [] => none
  | u => some (xs.findIdx fun c => !c.m && c.v == npMax u)

def specArgmin (xs : List (Cell Int)) : Option Nat :=
  match unm xs with
  | [] => none
  | u => some (xs.findIdx fun c => !c.m && c.v == npMin u)

/-! ### median, mixed branch with an axis (scalar.py:1190-1242) on one lane

`move_axis` + `reshape((-1,) + …)` bring the reduced axes to the front as one axis; the order of
the elements inside the lane is irrelevant after the sort. -/

def countMasked {α : Type} (xs : List (Cell α)) : Nat := (xs.map fun c => if c.m then 1 else 0).foldr (· + ·) 0

def medianMixed (maxval : Int) (xs : List (Cell Int)) : Out Int :=
  let newValues := npSort (fillWith maxval xs)                    -- 1208-1211
  let cnt : Int := (xs.length : Int) - (countMasked xs : Int)     -- 1220-1221
  let klo := max ((cnt - 1) / 2) 0                                -- 1224
  let khi := cnt / 2                                              -- 1225
  let valuesLo := newValues.getD klo.toNat 0
  let valuesHi := newValues.getD khi.toNat 0
  let newMask := cnt == 0                                         -- 1232
  (if newMask then npMedian2 (raw xs) else valuesLo + valuesHi, newMask)

/-! ### sort (scalar.py:1256-1295) on one lane -/

/-- branch with a mask: values filled with `_maxval` and sorted; an array mask is sorted too
    (False before True), a scalar mask is kept -/
def sortMasked (maxval : Int) (rep : Rep) (xs : List (Cell Int)) : List (Out Int) :=
  let newValues := npSort (fillWith maxval xs)
  let newMask := match rep with
    | .scalar b => xs.map fun _ => b
    | .array => npSortB (xs.map (·.m))
  List.zip newValues newMask

def sortPlain (xs : List (Cell Int)) : List (Out Int) := (npSort (raw xs)).map fun v => (v, false)

/-- reference: the unmasked values in ascending order, then one masked entry per masked element -/
def specSort (xs : List (Cell Int)) : List (Option Int) :=
  (npSort (unm xs)).map some ++ List.replicate (countMasked xs) none

/-! ### any / all (qube.py:4131-4216) on one lane of Booleans -/

def anyLane (rep : Rep) (xs : List (Cell Bool)) : Out Bool :=
  match rep with
  | .scalar b => (xs.any (·.v), b)                                  -- np.isscalar(self._mask_)
  | .array => (xs.any fun c => c.v && !c.m, xs.all (·.m))           -- values & antimask ; np.all(mask)

def allLane (rep : Rep) (xs : List (Cell Bool)) : Out Bool :=
  match rep with
  | .scalar b => (xs.all (·.v), b)
  | .array => (xs.all fun c => c.v || c.m, xs.all (·.m))            -- values | mask ; np.all(mask)

def npAny (l : List Bool) : Bool := l.any id
def npAll (l : List Bool) : Bool := l.all id

/-! ### Scalar.maximum / minimum (scalar.py:1049-1145) at one element -/

/-- one pass of the loop 1090-1094: `antimask = (scalar > result) & scalar.antimask | result.mask;
    result[antimask] = scalar[antimask]` -/
def maximumStep (result scalar : Cell Int) : Cell Int :=
  let antimask := (decide (scalar.v > result.v) && !scalar.m) || result.m
  if antimask then scalar else result

def minimumStep (result scalar : Cell Int) : Cell Int :=
  let antimask := (decide (scalar.v < result.v) && !scalar.m) || result.m
  if antimask then scalar else result

/-- the candidates at one element, first argument first; `none` = no arguments (ValueError) -/
def maximumCode : List (Cell Int) → Option (Cell Int)
  | [] => none
  | c :: cs => some (cs.foldl maximumStep c)

def minimumCode : List (Cell Int) → Option (Cell Int)
  | [] => none
  | c :: cs => some (cs.foldl minimumStep c)

/-! ### axis arguments -/

inductive Axis where
  | none
  | int (a : Int)
  | tup (l : List Int)
  deriving DecidableEq, Repr

/-- Python list indexing `selections[i]` for a list of length `n`: position, or IndexError -/
def pyIndex (n : Nat) (i : Int) : Option Nat :=
  if 0 ≤ i ∧ i < n then some i.toNat
  else if i < 0 ∧ -i ≤ n then some (i + n).toNat
  else none

/-- the loop of `_check_axis` (math_ops.py:130-143): `selections` is the list of flags;
    `false` = IndexError (out of range or duplicated) -/
def checkLoop (n : Nat) : List Int → List Bool → Bool
  | [], _ => true
  | i :: rest, sel =>
    match pyIndex n i with
    | none => false                                   -- selections[i] raises IndexError
    | some k => if sel.getD k false then false        -- duplicated axis
                else checkLoop n rest (sel.set k true)

/-- `_check_axis` (math_ops.py:113-143) -/
def checkAxis (rank : Nat) : Axis → Bool
  | .none => true
  | .int a => checkLoop rank [a] (List.replicate rank false)
  | .tup l => checkLoop rank l (List.replicate rank false)

/-- `a % rank` for each selected axis (math_ops.py:40-46, and what NumPy does with an axis) -/
def normAxes (rank : Nat) : Axis → List Nat
  | .none => List.range rank
  | .int a => [(a % (rank : Int)).toNat]
  | .tup l => l.map fun (a : Int) => (a % (rank : Int)).toNat

/-- Python `set(axis)`: the distinct members -/
def pySet : List Nat → List Nat
  | [] => []
  | x :: xs => if (pySet xs).contains x then pySet xs else x :: pySet xs

/-- NumPy's own axis validation (`numpy._core.numeric.normalize_axis_tuple`, which is what a reduction
    applies to its `axis`), used by `any`/`all`, which do not call `_check_axis`:
    `axis = tuple(normalize_axis_index(ax, ndim) for ax in axis)` raises AxisError (an IndexError) for an
    entry out of range; then `if len(set(axis)) != len(axis): raise ValueError('repeated axis')`. -/
def npCheckAxis (rank : Nat) : Axis → Except Err Unit
  | .none => .ok ()
  | .int a => if (pyIndex rank a).isSome then .ok () else .error .index
  | .tup l =>
    if l.all fun a => (pyIndex rank a).isSome then
      if (pySet (l.map fun (a : Int) => (a % (rank : Int)).toNat)).length == l.length then .ok ()
      else .error .value
    else .error .index

/-! ### whole arrays: the top-level branches -/

variable {α β : Type}

/-- `np.any(self._mask_)` -/
def anyMasked (a : Arr (Cell α)) : Bool := a.toList.any (·.m)
/-- `np.all(self._mask_)` -/
def allMasked (a : Arr (Cell α)) : Bool := a.toList.all (·.m)

/-- `_zero_sized_result` (math_ops.py:146-175, repaired): the shape with the selected axes removed,
    every element masked and equal to the default -/
def zeroSized (dflt : β) (shape : Shape) (axes : List Nat) : Arr (Out β) :=
  ⟨dropAxes axes shape, fun _ => (dflt, true)⟩

/-- `_mean_or_sum(arg, axis, _combine_as_mean=False)` for a Scalar (math_ops.py:14-110) -/
def sumCode (dflt : Int) (a : Arr (Cell Int)) (axis : Axis) : Except Err (Arr (Out Int)) :=
  if !checkAxis a.shape.length axis then .error .index                       -- 28
  else
    let axes := normAxes a.shape.length axis                                  -- 40-46
    if size a.shape == 0 then .ok (zeroSized dflt a.shape axes)               -- 30-31
    else if !anyMasked a then .ok (a.reduce (fun xs => (npSum (raw xs), false)) axes)   -- 49-50
    else if allMasked a then .ok (a.reduce (fun xs => (npSum (raw xs), true)) axes)     -- 53-54
    else if axis == .none then                                                -- 57-62
      if a.shape == [] then .ok (a.reduce (fun xs => ((raw xs).headD 0, (xs.map (·.m)).headD false)) axes)
      else .ok (a.reduce (fun xs => (npSum (compress xs), false)) axes)
    else .ok (a.reduce (sumMixed dflt) axes)                                  -- 68-96

/-- `_mean_or_sum(arg, axis, _combine_as_mean=True)` -/
def meanCode (dflt : Int) (a : Arr (Cell Int)) (axis : Axis) : Except Err (Arr (Out (Int × Nat))) :=
  if !checkAxis a.shape.length axis then .error .index
  else
    let axes := normAxes a.shape.length axis
    if size a.shape == 0 then .ok (zeroSized (dflt, 1) a.shape axes)
    else if !anyMasked a then .ok (a.reduce (fun xs => (npMean (raw xs), false)) axes)
    else if allMasked a then .ok (a.reduce (fun xs => (npMean (raw xs), true)) axes)
    else if axis == .none then
      if a.shape == [] then .ok (a.reduce (fun xs => (((raw xs).headD 0, 1), (xs.map (·.m)).headD false)) axes)
      else .ok (a.reduce (fun xs => (npMean (compress xs), false)) axes)
    else .ok (a.reduce (meanMixed dflt) axes)

/-- Vector / Matrix `sum`: the same function on items of `isz` components -/
def vSumCode (isz : Nat) (dflt : List Int) (a : Arr (Cell (List Int))) (axis : Axis) :
    Except Err (Arr (Out (List Int))) :=
  if !checkAxis a.shape.length axis then .error .index
  else
    let axes := normAxes a.shape.length axis
    if size a.shape == 0 then .ok (zeroSized dflt a.shape axes)
    else if !anyMasked a then .ok (a.reduce (fun xs => (vSum isz (raw xs), false)) axes)
    else if allMasked a then .ok (a.reduce (fun xs => (vSum isz (raw xs), true)) axes)
    else if axis == .none then
      if a.shape == [] then .ok (a.reduce (fun xs => ((raw xs).headD [], (xs.map (·.m)).headD false)) axes)
      else .ok (a.reduce (fun xs => (vSum isz (compress xs), false)) axes)
    else .ok (a.reduce (vSumMixed isz dflt) axes)

def vMeanCode (isz : Nat) (dflt : List Int) (a : Arr (Cell (List Int))) (axis : Axis) :
    Except Err (Arr (Out (List Int × Nat))) :=
  if !checkAxis a.shape.length axis then .error .index
  else
    let axes := normAxes a.shape.length axis
    if size a.shape == 0 then .ok (zeroSized (dflt, 1) a.shape axes)
    else if !anyMasked a then .ok (a.reduce (fun xs => ((vSum isz (raw xs), xs.length), false)) axes)
    else if allMasked a then .ok (a.reduce (fun xs => ((vSum isz (raw xs), xs.length), true)) axes)
    else if axis == .none then
      if a.shape == [] then .ok (a.reduce (fun xs => (((raw xs).headD [], 1), (xs.map (·.m)).headD false)) axes)
      else .ok (a.reduce (fun xs => ((vSum isz (compress xs), (compress xs).length), false)) axes)
    else .ok (a.reduce (vMeanMixed isz dflt) axes)

/-- derivatives are reduced alongside (math_ops.py:101-108): every derivative goes through the
    same function with `recursive=False` -/
def sumWithDerivs (dflt : Int) (a : Arr (Cell Int)) (derivs : List (Arr (Cell Int))) (axis : Axis) :
    Except Err (Arr (Out Int) × List (Except Err (Arr (Out Int)))) :=
  match sumCode dflt a axis with
  | .error e => .error e
  | .ok r => .ok (r, derivs.map fun d => sumCode dflt d axis)

def meanWithDerivs (dflt : Int) (a : Arr (Cell Int)) (derivs : List (Arr (Cell Int))) (axis : Axis) :
    Except Err (Arr (Out (Int × Nat)) × List (Except Err (Arr (Out (Int × Nat))))) :=
  match meanCode dflt a axis with
  | .error e => .error e
  | .ok r => .ok (r, derivs.map fun d => meanCode dflt d axis)

/-- the element of a shape-() object as a result (`result = self.wod`) -/
def selfLane (xs : List (Cell Int)) : Out Int := ((raw xs).headD 0, (xs.map (·.m)).headD false)

/-- `Scalar.max` (scalar.py:759-826) -/
def maxCode (minval dflt : Int) (a : Arr (Cell Int)) (axis : Axis) : Except Err (Arr (Out Int)) :=
  if !checkAxis a.shape.length axis then .error .index                       -- 780
  else
    let axes := normAxes a.shape.length axis
    if size a.shape == 0 then .ok (zeroSized dflt a.shape axes)               -- 782-783
    else if a.shape == [] then .ok (a.reduce selfLane axes)                   -- 785-786
    else if !anyMasked a then .ok (a.reduce (fun xs => (npMax (raw xs), false)) axes)   -- 788-790
    else if allMasked a then .ok (a.reduce (fun xs => (npMax (raw xs), true)) axes)     -- 793-795
    else .ok (a.reduce (maxMixed minval) axes)                                -- 797-817

/-- `Scalar.min` (scalar.py:829-897) -/
def minCode (maxval dflt : Int) (a : Arr (Cell Int)) (axis : Axis) : Except Err (Arr (Out Int)) :=
  if !checkAxis a.shape.length axis then .error .index
  else
    let axes := normAxes a.shape.length axis
    if size a.shape == 0 then .ok (zeroSized dflt a.shape axes)
    else if a.shape == [] then .ok (a.reduce selfLane axes)
    else if !anyMasked a then .ok (a.reduce (fun xs => (npMin (raw xs), false)) axes)
    else if allMasked a then .ok (a.reduce (fun xs => (npMin (raw xs), true)) axes)
    else .ok (a.reduce (minMixed maxval) axes)

/-- `np.argmax` accepts an integer axis or None only -/
def argAxisOk : Axis → Bool
  | .tup _ => false
  | _ => true

/-- `Scalar.argmax` (scalar.py:900-973) -/
def argmaxCode (minval : Int) (a : Arr (Cell Int)) (axis : Axis) : Except Err (Arr (Out Nat)) :=
  if !checkAxis a.shape.length axis then .error .index                       -- 927
  else if a.shape == [] then .error .value                                    -- 929-930
  else
    let axes := normAxes a.shape.length axis
    if size a.shape == 0 then .ok (zeroSized 0 a.shape axes)                  -- 932-934
    else if !argAxisOk axis then .error .type                                 -- np.argmax(axis=tuple)
    else if !anyMasked a then .ok (a.reduce (fun xs => (npArgmax (raw xs), false)) axes)  -- 936-937
    else if allMasked a then .ok (a.reduce (fun xs => (npArgmax (raw xs), true)) axes)    -- 940-941
    else .ok (a.reduce (argmaxMixed minval) axes)                             -- 945-964

/-- `Scalar.argmin` (scalar.py:976-1046) -/
def argminCode (maxval : Int) (a : Arr (Cell Int)) (axis : Axis) : Except Err (Arr (Out Nat)) :=
  if !checkAxis a.shape.length axis then .error .index
  else if a.shape == [] then .error .value
  else
    let axes := normAxes a.shape.length axis
    if size a.shape == 0 then .ok (zeroSized 0 a.shape axes)
    else if !argAxisOk axis then .error .type
    else if !anyMasked a then .ok (a.reduce (fun xs => (npArgmin (raw xs), false)) axes)
    else if allMasked a then .ok (a.reduce (fun xs => (npArgmin (raw xs), true)) axes)
    else .ok (a.reduce (argminMixed maxval) axes)

/-- `Scalar.median` (scalar.py:1148-1253); values doubled -/
def medianCode (maxval dflt2 : Int) (a : Arr (Cell Int)) (axis : Axis) : Except Err (Arr (Out Int)) :=
  if !checkAxis a.shape.length axis then .error .index                       -- 1169
  else
    let axes := normAxes a.shape.length axis
    if size a.shape == 0 then .ok (zeroSized dflt2 a.shape axes)              -- 1171-1172
    else if a.shape == [] then                                                -- 1174-1175 (as_float)
      .ok (a.reduce (fun xs => (2 * (raw xs).headD 0, (xs.map (·.m)).headD false)) axes)
    else if !anyMasked a then .ok (a.reduce (fun xs => (npMedian2 (raw xs), false)) axes)  -- 1177
    else if allMasked a then .ok (a.reduce (fun xs => (npMedian2 (raw xs), true)) axes)    -- 1182
    else if axis == .none then .ok (a.reduce (fun xs => (npMedian2 (compress xs), false)) axes)  -- 1186
    else .ok (a.reduce (medianMixed maxval) axes)                             -- 1190-1242

/-- remove position `k` from an index -/
def dropAt (k : Nat) (i : Index) : Index := dropAxes [k] i

/-- `Scalar.sort` (scalar.py:1256-1295): the result keeps the shape; `axis=None` flattens first -/
def sortCode (maxval : Int) (rep : Rep) (a : Arr (Cell Int)) (axis : Axis) :
    Except Err (Arr (Out Int)) :=
  if !checkAxis a.shape.length axis then .error .index                       -- 1267
  else if size a.shape == 0 then                                              -- 1269-1271
    .ok ⟨if axis == .none then [0] else a.shape, fun _ => (0, true)⟩
  else
    let kern : List (Cell Int) → List (Out Int) :=
      if !anyMasked a then sortPlain else sortMasked maxval rep               -- 1272 / 1276
    match axis with
    | .tup _ => .error .type                                                  -- np.sort(axis=tuple)
    | .none =>
      let lane := a.lane (List.range a.shape.length) []
      .ok ⟨[size a.shape], fun i => (kern lane).getD (i.headD 0) (0, true)⟩
    | .int ax =>
      let k := (ax % a.shape.length).toNat
      .ok ⟨a.shape, fun i => (kern (a.lane [k] (dropAt k i))).getD (i.getD k 0) (0, true)⟩

/-- `Qube.any` (qube.py:4131-4172).  Shape (): a copy, the axis is not looked at. -/
def anyCode (rep : Rep) (a : Arr (Cell Bool)) (axis : Axis) : Except Err (Arr (Out Bool)) :=
  if a.shape == [] then .ok (a.map fun c => (c.v, c.m))                       -- 4152-4153
  else match npCheckAxis a.shape.length axis with
    | .error e => .error e
    | .ok () => .ok (a.reduce (anyLane rep) (normAxes a.shape.length axis))   -- 4155-4161

/-- `Qube.all` (qube.py:4175-4216) -/
def allCode (rep : Rep) (a : Arr (Cell Bool)) (axis : Axis) : Except Err (Arr (Out Bool)) :=
  if a.shape == [] then .ok (a.map fun c => (c.v, c.m))
  else match npCheckAxis a.shape.length axis with
    | .error e => .error e
    | .ok () => .ok (a.reduce (allLane rep) (normAxes a.shape.length axis))

/-! ### float infinities on the wire

Float data arrive as integers (value × 8); `+inf`/`-inf` arrive as `±inf` where `inf = maxval` is far beyond
every finite float (× 8 × 2^20).  Ordering operations treat it correctly as it is.  float64 ARITHMETIC with an
infinite operand saturates (`inf + x = inf`, `0.5 * (inf + inf) = inf`, `inf / n = inf`), whereas the exact
integer sum of the model merely becomes huge; `ieeeSat` maps every result at or beyond the threshold
`inf / 2^20` — unreachable from finite data — back to `±inf`.  (`inf + (-inf)` = NaN has no counterpart; the
harness does not send both signs to an arithmetic reduction.)  Integer dtypes: `isFloat = false`, identity. -/
def ieeeSat (isFloat : Bool) (inf : Int) (x : Int) : Int :=
  if isFloat then
    if x * 1048576 ≥ inf then inf else if x * 1048576 ≤ -inf then -inf else x
  else x

/-- the same for an exact fraction `num/den` (mean): `±inf` as `(±inf, 1)` -/
def ieeeSatFrac (isFloat : Bool) (inf : Int) (p : Int × Nat) : Int × Nat :=
  if isFloat then
    if p.1 * 1048576 ≥ inf * p.2 then (inf, 1) else if p.1 * 1048576 ≤ -inf * p.2 then (-inf, 1) else p
  else p

/-! ### `builtins=True` : `Qube.as_builtin` (qube.py:2214-2236) applied to the result -/

inductive Builtin (β : Type) where
  | py (v : β)                    -- a Python bool / int / float
  | obj (r : Arr (Out β))         -- the object itself
  | maskedArg                     -- the caller's `masked=` value (None when not given)

/-- `hasUnits`: the units are neither None nor UNITLESS; `maskedGiven`: `masked is not None` -/
def asBuiltin (hasUnits maskedGiven : Bool) (r : Arr (Out β)) : Builtin β :=
  if size r.shape == 0 then .maskedArg                          -- np.size(values) == 0: return masked
  else if r.shape != [] then .obj r                             -- np.shape(values): return self
  else if (r.get []).2 then (if maskedGiven then .maskedArg else .obj r)   -- self._mask_
  else if hasUnits then .obj r                                  -- units: return self
  else .py (r.get []).1

/-- `max`, `min`, `argmax`, `argmin`, `median` return the zero-sized result directly (scalar.py:782-783,
    852-853, 932-934, 1005-1007, 1171-1172), i.e. BEFORE the `builtins` conversion at the end of the
    method; `sum`, `mean`, `any`, `all` convert every result. -/
def builtinsApplies (earlyReturn : Bool) (operandSize : Nat) : Bool := !(earlyReturn && operandSize == 0)

/-- units of a result: the value reductions (sum, mean, max, min, median, sort, maximum, minimum)
    pass `example=self` / `units=self._units_`; argmax/argmin build a bare `Scalar(indices)` and
    any/all a Boolean -/
inductive OpKind where
  | value | index | bool
  deriving DecidableEq, Repr

def resultUnits {U : Type} (k : OpKind) (u : Option U) : Option U :=
  match k with
  | .value => u
  | _ => none

/-! ### `Scalar.maximum/minimum` on operands of different shapes: `Qube.broadcast` (qube.py:4764-4817) -/

/-- `Qube.broadcasted_shape`: the shapes folded with NumPy's rule; `none` = ValueError -/
def bcastAll : List Shape → Option Shape
  | [] => some []
  | s :: ss => (bcastAll ss).bind fun r => bcast s r

/-- scalar.py:1057-1097: no arguments ⇒ ValueError; incompatible shapes ⇒ ValueError (from
    `Qube.broadcast`); otherwise every operand is broadcast to the common shape and the loop
    runs element by element -/
def maximumArr (step : List (Cell Int) → Option (Cell Int)) (args : List (Arr (Cell Int))) :
    Except Err (Arr (Cell Int)) :=
  match args with
  | [] => .error .value
  | _ =>
    match bcastAll (args.map (·.shape)) with
    | none => .error .value
    | some out => .ok ⟨out, fun i => (step (args.map fun a => (a.bto out).get i)).getD ⟨0, true⟩⟩

end PMV.Reduce
