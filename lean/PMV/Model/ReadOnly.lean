/-
  C08 view: read-only objects.  Mathlib-free, self-contained (does not use PMV.Core or the C07 heap).

  A state machine over three heaps, as in CPython + NumPy:

    buffers      `bufs[k]`  : the memory block of a NumPy base array.  A cell holds a *stamp* (a number that is fresh
                              for every successful write), so "the bytes changed" is "the stamp list changed".
    ndarrays     `arrs[a]`  : one NumPy ndarray *object*: the buffer it looks into, the cells it shows (`sel`, in
                              element order) and its own WRITEABLE flag.  NumPy rules: a view gets the flag of its base
                              when it is created; clearing the flag of one ndarray object leaves every other ndarray
                              object (views made earlier) alone; a write through a non-writeable ndarray raises ValueError.
    objects      `objs[i]`  : one polymath object: `_values_` (a Python scalar or an ndarray object), `_mask_` (a Python
                              bool or an ndarray object), `_readonly_`, `_units_`, `_derivs_` (key -> object), the cached
                              `wod`, and the two class attributes the mutators look at (UNITS_OK, DERIVS_OK).
    user         `user[u]`  : ndarray objects a caller holds directly (`b.values`, `b.mask[0:1]`, ...).

  Every definition is shaped like the source it names (polymath/qube.py, extensions/indexer.py, shaper.py, item_ops.py,
  pickler.py of the repaired tree: branch wt-C08).  Which elements a derived array shows is data of the request
  (`Sel`: for every element of the result the element of the source it shows) --- the model does not re-implement NumPy
  indexing; whether NumPy returns a view or a copy is the constructor of `Mode`.
-/
namespace PMV.ReadOnly

/-- one NumPy ndarray object -/
structure NdArr where
  buf : Nat
  sel : List Nat
  w : Bool
  deriving DecidableEq, Repr, Inhabited

/-- `_values_`: a Python scalar (its stamp) or an ndarray object -/
inductive Val where
  | sc (stamp : Nat)
  | arr (a : Nat)
  deriving DecidableEq, Repr, Inhabited

/-- `_mask_`: a Python bool or an ndarray object -/
inductive Msk where
  | sc (b : Bool)
  | arr (a : Nat)
  deriving DecidableEq, Repr, Inhabited

structure Obj where
  vals : Val
  mask : Msk
  ro : Bool
  units : Nat
  derivs : List (Nat × Nat)
  wodc : Option Nat
  unitsOk : Bool
  derivsOk : Bool
  deriving DecidableEq, Repr, Inhabited

structure State where
  bufs : List (List Nat)
  arrs : List NdArr
  objs : List Obj
  user : List Nat
  clock : Nat
  deriving DecidableEq, Repr, Inhabited

def State.empty : State := ⟨[], [], [], [], 1⟩

inductive Err where
  | value | type | bad
  deriving DecidableEq, Repr, Inhabited

/-- result of one call: nothing / a new object handle / a new user-array handle / an exception -/
inductive Res where
  | ok
  | obj (i : Nat)
  | usr (u : Nat)
  | err (e : Err)
  deriving DecidableEq, Repr, Inhabited

/-! ### primitives -/

def upd {α : Type} (l : List α) (i : Nat) (f : α → α) : List α :=
  match l[i]? with
  | some x => l.set i (f x)
  | none => l

/-- `arr.flags['WRITEABLE'] = False` on ONE ndarray object -/
def State.freeze (s : State) (a : Nat) : State :=
  { s with arrs := upd s.arrs a fun x => { x with w := false } }

/-- `Qube._array_to_readonly(arg)` (qube.py:1903-1911): nothing happens for a Python scalar -/
def State.freezeV (s : State) : Val → State
  | .sc _ => s
  | .arr a => s.freeze a

def State.freezeM (s : State) : Msk → State
  | .sc _ => s
  | .arr a => s.freeze a

def State.arrW (s : State) (a : Nat) : Bool :=
  match s.arrs[a]? with
  | some x => x.w
  | none => false

/-- `Qube._array_is_readonly(arg)` (qube.py:1891-1900) -/
def State.valRO (s : State) : Val → Bool
  | .sc _ => false
  | .arr a => !s.arrW a

def State.mskRO (s : State) : Msk → Bool
  | .sc _ => false
  | .arr a => !s.arrW a

def State.stamps (s : State) (n : Nat) : List Nat × State :=
  ((List.range n).map (· + s.clock), { s with clock := s.clock + n })

def State.allocBuf (s : State) (cells : List Nat) : Nat × State :=
  (s.bufs.length, { s with bufs := s.bufs ++ [cells] })

def State.allocArr (s : State) (x : NdArr) : Nat × State :=
  (s.arrs.length, { s with arrs := s.arrs ++ [x] })

def State.allocObj (s : State) (o : Obj) : Nat × State :=
  (s.objs.length, { s with objs := s.objs ++ [o] })

def State.setObj (s : State) (i : Nat) (f : Obj → Obj) : State :=
  { s with objs := upd s.objs i f }

/-- the stamps an ndarray object shows -/
def State.read (s : State) (a : Nat) : List Nat :=
  match s.arrs[a]? with
  | some x =>
    match s.bufs[x.buf]? with
    | some cells => x.sel.map fun p => cells.getD p 0
    | none => []
  | none => []

/-- a NumPy view: same buffer, the selected elements of the base, flag inherited (or forced off: `np.broadcast_to`) -/
def State.viewOf (s : State) (a : Nat) (idx : List Nat) (forceRO : Bool) : Nat × State :=
  match s.arrs[a]? with
  | some x => s.allocArr { buf := x.buf, sel := idx.map fun j => x.sel.getD j 0, w := x.w && !forceRO }
  | none => s.allocArr { buf := 0, sel := [], w := false }

/-- a NumPy copy (`.copy()`, advanced indexing, reshape of a non-contiguous array): new buffer with the same content,
    new writeable ndarray object -/
def State.copyOf (s : State) (a : Nat) (idx : List Nat) : Nat × State :=
  let src := s.read a
  let cells := idx.map fun j => src.getD j 0
  let (b, s) := s.allocBuf cells
  s.allocArr { buf := b, sel := List.range cells.length, w := true }

/-- a new array of `n` elements with new content -/
def State.freshArr (s : State) (n : Nat) (w : Bool) : Nat × State :=
  let (cells, s) := s.stamps n
  let (b, s) := s.allocBuf cells
  s.allocArr { buf := b, sel := List.range n, w := w }

/-- every written cell gets a stamp of its own (new numbers are all different) -/
def setCells (cells : List Nat) (ps : List Nat) (stamp : Nat) : List Nat :=
  (ps.foldl (fun (acc : List Nat × Nat) p => (acc.1.set p acc.2, acc.2 + 1)) (cells, stamp)).1

/-- `arr[pos] = <new numbers>` through ONE ndarray object; NumPy raises ValueError when it is not writeable -/
def State.writeArr (s : State) (a : Nat) (pos : List Nat) : State × Bool :=
  match s.arrs[a]? with
  | some x =>
    if x.w then
      let ps := pos.map fun j => x.sel.getD j 0
      ({ s with bufs := upd s.bufs x.buf (fun c => setCells c ps s.clock), clock := s.clock + ps.length + 1 }, true)
    else (s, false)
  | none => (s, false)

def allPos (s : State) (a : Nat) : List Nat :=
  match s.arrs[a]? with
  | some x => List.range x.sel.length
  | none => []

/-- the tail of `Qube.__init__` (qube.py:395-399): read-only iff the values array is; then the mask array is frozen too -/
def State.initObj (s : State) (vals : Val) (mask : Msk) (ex : Obj) : Obj × State :=
  let ro := s.valRO vals
  let s := if ro then s.freezeM mask else s
  ({ vals := vals, mask := mask, ro := ro, units := ex.units, derivs := [], wodc := none,
     unitsOk := ex.unitsOk, derivsOk := ex.derivsOk }, s)

/-! ### as_readonly (qube.py:1914-1950) -/

/-- lines 1931-1937: early return, freeze both arrays, set the flag -/
def asRO0 (s : State) (i : Nat) : State :=
  match s.objs[i]? with
  | some o =>
    if o.ro then s
    else ((s.freezeV o.vals).freezeM o.mask).setObj i fun o => { o with ro := true }
  | none => s

/-- `as_readonly(recursive)`: qube.py:1931-1950 (with 0796652: the derivatives are made read-only whether or not
    `recursive` is set).  The call recurses into the cached `wod` (`value.as_readonly(recursive)`) and into every
    derivative (`self._derivs_[key].as_readonly()`), which recurse in turn; `fuel` bounds the depth (a stored
    derivative and a cached `wod` are always younger objects than their owner, so the number of objects is enough). -/
def asROf : Nat → State → Nat → State
  | 0, s, _ => s
  | fuel + 1, s, i =>
    match s.objs[i]? with
    | some o =>
      if o.ro then s
      else
        let s1 := asRO0 s i
        let s2 := match o.wodc with
          | some w => asROf fuel s1 w
          | none => s1
        o.derivs.foldl (fun s kd => asROf fuel s kd.2) s2
    | none => s

def asRO (s : State) (i : Nat) (_recursive : Bool) : State := asROf (s.objs.length + 1) s i

/-- `require_writable` (qube.py:1964-1976).  The `remask` of lines 1975-1976 returns a new object that is dropped,
    so the state never changes. -/
def requireWritable (s : State) (i : Nat) : Option Err :=
  match s.objs[i]? with
  | some o => if o.ro then some .value else none
  | none => some .bad

/-! ### clone, wod, insert_deriv -/

/-- `clone(recursive=False)` (qube.py:980-991, 1018): every attribute is shared, no derivatives, empty cache -/
def cloneNR (s : State) (i : Nat) : Nat × State :=
  match s.objs[i]? with
  | some o => s.allocObj { o with derivs := [], wodc := none }
  | none => (i, s)

/-- the `wod` property (qube.py:1344-1370) -/
def wodOf (s : State) (i : Nat) : Nat × State :=
  match s.objs[i]? with
  | some o =>
    if o.derivs.isEmpty then (i, s)
    else
      match o.wodc with
      | some w => (w, s)
      | none =>
        let (wo, s) := s.initObj o.vals o.mask o          -- wod.__init__(self._values_, self._mask_, example=self)
        let w := s.objs.length
        let (_, s) := s.allocObj { wo with ro := o.ro }   -- the __dict__ loop copies _readonly_ (and shares _cache_)
        (w, s.setObj i fun o => { o with wodc := some w })
  | none => (i, s)

def setKey (l : List (Nat × Nat)) (k d : Nat) : List (Nat × Nat) :=
  match l with
  | [] => [(k, d)]
  | (k', d') :: t => if k' == k then (k, d) :: t else (k', d') :: setKey t k d

def hasKey (l : List (Nat × Nat)) (k : Nat) : Bool := l.any fun kd => kd.1 == k

/-- qube.py:1527-1529 and the clone of b650f6e (wt-C05): the object that is stored is never the one given.
    A derivative that is not read-only yet is cloned and frozen when the parent is read-only. -/
def matchReadonly (s : State) (parentRo : Bool) (d : Nat) : Nat × State :=
  let dro := match s.objs[d]? with
    | some x => x.ro
    | none => false
  if parentRo && !dro then
    let c := cloneNR s d
    (c.1, asRO c.2 c.1 true)
  else cloneNR s d

/-- `insert_deriv(key, deriv, override)` (qube.py:1473-1539) for a derivative of the right class and shape
    (the TypeError of a class without derivatives is line 1503). -/
def insertDeriv (s : State) (i k d : Nat) (override : Bool) : State × Res :=
  match s.objs[i]?, s.objs[d]? with
  | some o, some _ =>
    if !o.derivsOk then (s, .err .type)
    else if o.ro && hasKey o.derivs k && !override then (s, .err .value)         -- line 1519
    else
      let w := wodOf s d                                                          -- deriv.wod.as_float()
      let c := matchReadonly w.2 o.ro w.1
      (c.2.setObj i fun o => { o with derivs := setKey o.derivs k c.1, wodc := none }, .ok)
  | _, _ => (s, .err .bad)

def cloneStep (c : Nat) (s : State) (kd : Nat × Nat) : State :=
  let nd := cloneNR s kd.2
  (insertDeriv nd.2 c kd.1 nd.1 true).1

/-- `clone(recursive)` (qube.py:968-1020) -/
def clone (s : State) (i : Nat) (recursive : Bool) : Nat × State :=
  match s.objs[i]? with
  | some o =>
    let c := cloneNR s i
    if recursive then (c.1, o.derivs.foldl (cloneStep c.1) c.2) else c
  | none => (i, s)

/-! ### derivations that copy the flag (indexer.py:84-92, shaper.py:38-46, 93-101, 162-170, 223-232, item_ops.py) -/

/-- which elements of the source a derived object shows: values array and mask array separately -/
structure Sel where
  vidx : List Nat
  midx : List Nat
  /-- the derived mask is a single bool (the result has shape ()): its value -/
  msc : Option Bool
  deriving DecidableEq, Repr, Inhabited

/-- what NumPy hands back -/
inductive Mode where
  | view        -- basic index, reshape of a contiguous array, swapaxes, rollaxis, moveaxis: views of both arrays
  | viewKeepMask-- item operations: a view of the values, the SAME mask ndarray object
  | copy        -- index arrays, reshape of a non-contiguous array: new arrays
  | bcast       -- np.broadcast_to: non-writeable views
  | scalar      -- the result has shape () and no item: NumPy hands back one number, not an array
  deriving DecidableEq, Repr, Inhabited

def deriveVals (s : State) (v : Val) (m : Mode) (idx : List Nat) : Val × State :=
  match v with
  | .sc st =>
    match m with
    | .bcast =>                                   -- qube.py:4581-4582: np.array([self._values_]) then broadcast_to
      let (b, s) := s.allocBuf [st]
      let (a, s) := s.allocArr { buf := b, sel := idx.map fun _ => 0, w := false }
      (.arr a, s)
    | _ => (.sc st, s)
  | .arr a =>
    match m with
    | .view | .viewKeepMask => let (a, s) := s.viewOf a idx false; (.arr a, s)
    | .copy => let (a, s) := s.copyOf a idx; (.arr a, s)
    | .bcast => let (a, s) := s.viewOf a idx true; (.arr a, s)
    | .scalar => (.sc ((s.read a).getD (idx.headD 0) 0), s)

def deriveMask (s : State) (v : Msk) (m : Mode) (idx : List Nat) : Msk × State :=
  match v with
  | .sc b => (.sc b, s)
  | .arr a =>
    match m with
    | .view => let (a, s) := s.viewOf a idx false; (.arr a, s)
    | .viewKeepMask => (.arr a, s)
    | .copy => let (a, s) := s.copyOf a idx; (.arr a, s)
    | .bcast => let (a, s) := s.viewOf a idx true; (.arr a, s)
    | .scalar => (.sc false, s)

/-- qube.py:4586-4600 (`_protected`): broadcasting an object that holds an array freezes the SOURCE first -/
def freezeSource (s : State) (i : Nat) (m : Mode) (v : Val) : State :=
  match m, v with
  | .bcast, .arr _ => asRO s i false
  | _, _ => s

def deriveMaskSel (s : State) (v : Msk) (m : Mode) (sel : Sel) : Msk × State :=
  match sel.msc with
  | some b => (Msk.sc b, s)
  | none => deriveMask s v m sel.midx

/-- obj.__init__(new_values, new_mask, example=self); obj._readonly_ = self._readonly_
    if obj._readonly_: freeze both arrays            (repair 8cbd84d: NumPy may have returned a copy)
    For `bcast` the flag comes from `as_readonly` (qube.py:4605), which is the same thing because the broadcast
    arrays are non-writeable. -/
def finishDerived (s : State) (nv : Val) (nm : Msk) (o : Obj) (m : Mode) : Nat × State :=
  let r := s.initObj nv nm o
  let ro := match m with
    | .bcast => r.1.ro
    | _ => o.ro
  (if ro then (r.2.freezeV nv).freezeM nm else r.2).allocObj { r.1 with ro := ro }

/-- the new object without its derivatives -/
def derive1 (s : State) (i : Nat) (m : Mode) (sel : Sel) : Nat × State :=
  match s.objs[i]? with
  | some o =>
    let v := deriveVals (freezeSource s i m o.vals) o.vals m sel.vidx
    let k := deriveMaskSel v.2 o.mask m sel
    finishDerived k.2 v.1 k.1 o m
  | none => (i, s)

/-- the selection that applies to the derivative with key `k`: the same elements, but its own mask may be a bool
    where the object's is an array and vice versa (`dsel`, data of the request) -/
def selFor (dsel : List (Nat × Sel)) (k : Nat) (sel : Sel) : Sel :=
  match dsel.find? (fun p => p.1 == k) with
  | some p => p.2
  | none => sel

/-- one pass of `obj.insert_deriv(key, <same derivation of the derivative>)` -/
def deriveStep (c : Nat) (m : Mode) (sel : Sel) (dsel : List (Nat × Sel)) (s : State) (kd : Nat × Nat) : State :=
  let nd := derive1 s kd.2 m (selFor dsel kd.1 sel)
  (insertDeriv nd.2 c kd.1 nd.1 true).1

/-- the whole derivation: the object, then its derivatives -/
def derive (s : State) (i : Nat) (m : Mode) (sel : Sel) (recursive : Bool) (dsel : List (Nat × Sel)) : Nat × State :=
  match s.objs[i]? with
  | some o =>
    let c := derive1 s i m sel
    if recursive then (c.1, o.derivs.foldl (deriveStep c.1 m sel dsel) c.2) else c
  | none => (i, s)

/-! ### copy (qube.py:1982-2028) -/

def copyVals (s : State) : Val → Val × State
  | .sc st => (.sc st, s)
  | .arr a => let r := s.copyOf a (allPos s a); (.arr r.1, r.2)

def copyMask (s : State) : Msk → Msk × State
  | .sc b => (.sc b, s)
  | .arr a => let r := s.copyOf a (allPos s a); (.arr r.1, r.2)

/-- `copy(recursive=False, readonly)`: lines 1996-2020.  (The clone of line 1996 and the assignments of lines
    2004-2020 are one allocation here: the new object is not visible to anybody in between.) -/
def copyNR (s : State) (i : Nat) (readonly : Bool) : Nat × State :=
  match s.objs[i]? with
  | some o =>
    if o.ro && readonly then cloneNR s i                                 -- lines 1999-2000
    else
      let v := copyVals s o.vals
      let k := copyMask v.2 o.mask
      let c := k.2.allocObj { o with vals := v.1, mask := k.1, ro := false, derivs := [], wodc := none }
      (c.1, if readonly then asRO c.2 c.1 true else c.2)
  | none => (i, s)

def copyStep (c : Nat) (readonly : Bool) (s : State) (kd : Nat × Nat) : State :=
  let nd := copyNR s kd.2 readonly
  (insertDeriv nd.2 c kd.1 nd.1 true).1

def copy (s : State) (i : Nat) (recursive readonly : Bool) : Nat × State :=
  match s.objs[i]? with
  | some o =>
    let c := copyNR s i readonly
    if o.ro && readonly then c              -- lines 1999-2000 return before the derivatives are looked at
    else if recursive then (c.1, o.derivs.foldl (copyStep c.1 readonly) c.2)
    else c
  | none => (i, s)

/-! ### an arithmetic result: `__neg__` (qube.py:2834-2845) through `_set_values_` (1104-1173) -/

/-- `-self._values_` : a new array / a new number -/
def negVals (s : State) : Val → Val × State
  | .sc _ => let r := s.stamps 1; (.sc (r.1.headD 0), r.2)
  | .arr a => let r := s.freshArr (allPos s a).length true; (.arr r.1, r.2)

def negNR (s : State) (i : Nat) (uok dok : Bool) : Nat × State :=
  match s.objs[i]? with
  | some o =>
    let v := negVals s o.vals
    -- lines 1166-1171: the object is writable now; a read-only mask array is replaced by a copy
    let k := if v.2.mskRO o.mask then copyMask v.2 o.mask else (o.mask, v.2)
    -- (`uok`, `dok`: class attributes of the result: `-Boolean` is a Scalar)
    k.2.allocObj { o with vals := v.1, mask := k.1, ro := false, derivs := [], wodc := none,
                          unitsOk := uok, derivsOk := dok }
  | none => (i, s)

def negStep (c : Nat) (s : State) (kd : Nat × Nat) : State :=
  let nd := negNR s kd.2 true true
  (insertDeriv nd.2 c kd.1 nd.1 true).1

def neg (s : State) (i : Nat) (uok dok : Bool) : Nat × State :=
  match s.objs[i]? with
  | some o =>
    let c := negNR s i uok dok
    (c.1, o.derivs.foldl (negStep c.1) c.2)
  | none => (i, s)

/-! ### pickling round trip (pickler.py:799-942, 945-1062; repaired by 1211231) -/

/-- what the encoder sees in the mask (data of the request) -/
inductive MaskClass where
  | none_ | all_ | mixed
  | mixedLossy      -- some value under the mask differs from the default that unpickling puts there
  deriving DecidableEq, Repr, Inhabited

/-- the decoded arrays of one object: new and writeable -/
def decode (s : State) (o : Obj) (mc : MaskClass) : (Val × Msk) × State :=
  match o.vals with
  | .sc st => ((.sc st, o.mask), s)                         -- a single value: nothing is encoded
  | .arr a =>
    match mc with
    | .all_ => let r := s.freshArr (allPos s a).length true; ((.arr r.1, .sc true), r.2)   -- ALL_MASKED: defaults
    | .none_ => let r := s.copyOf a (allPos s a); ((.arr r.1, .sc false), r.2)
    | .mixed =>
      let r := s.copyOf a (allPos s a)
      match o.mask with
      | .arr m => let q := r.2.copyOf m (allPos r.2 m); ((.arr r.1, .arr q.1), q.2)
      | .sc b => ((.arr r.1, .sc b), r.2)
    | .mixedLossy =>                                       -- ANTIMASKED: the masked elements come back as defaults
      let r := s.freshArr (allPos s a).length true
      match o.mask with
      | .arr m => let q := r.2.copyOf m (allPos r.2 m); ((.arr r.1, .arr q.1), q.2)
      | .sc b => ((.arr r.1, .sc b), r.2)

/-- `__setstate__` of one object without its derivatives.
    top: lines 1035-1039 as repaired (1211231): the flag came with `__dict__`; the decoded arrays are frozen directly.
    derivative: a derivative decoded under its parent's antimask gets the parent's mask object (lines 1052-1057); then
    lines 1059-1061 as repaired: clear the flag, then as_readonly(). -/
def unpickleNR (s : State) (o : Obj) (mc : MaskClass) (parentMask : Option Msk) (top : Bool) : Nat × State :=
  let d := decode s o mc
  let nm := match parentMask with
    | some pm => pm
    | none => d.1.2
  if top then
    (if o.ro then (d.2.freezeV d.1.1).freezeM nm else d.2).allocObj
      { o with vals := d.1.1, mask := nm, derivs := [], wodc := none }
  else
    let c := d.2.allocObj { o with vals := d.1.1, mask := nm, ro := false, derivs := [], wodc := none }
    (c.1, if o.ro then asRO c.2 c.1 true else c.2)

def mcOf (dmc : List (Nat × MaskClass)) (k : Nat) : MaskClass :=
  match dmc.find? (fun p => p.1 == k) with
  | some p => p.2
  | none => .none_

def parentMaskOf (s : State) (c : Nat) : Option Msk :=
  match s.objs[c]? with
  | some x =>
    match x.mask with
    | .arr m => some (.arr m)
    | .sc _ => none
  | none => none

def unpickleStep (c : Nat) (pm : Option Msk) (dmc : List (Nat × MaskClass)) (s : State) (kd : Nat × Nat) : State :=
  match s.objs[kd.2]? with
  | some d =>
    let nd := unpickleNR s d (mcOf dmc kd.1) pm false
    (insertDeriv nd.2 c kd.1 nd.1 true).1
  | none => s

/-- `pickle.loads(pickle.dumps(obj))`; `dmc` = mask class of every derivative, by key -/
def unpickle (s : State) (i : Nat) (mc : MaskClass) (dmc : List (Nat × MaskClass)) : Nat × State :=
  match s.objs[i]? with
  | some o =>
    let c := unpickleNR s o mc none true
    (c.1, o.derivs.foldl (unpickleStep c.1 (parentMaskOf c.2 c.1) dmc) c.2)
  | none => (i, s)

/-! ### the mutators -/

/-- indexer.py:154-163: a scalar True mask becomes an array before an unmasked value is assigned -/
def expandMask (s : State) (m : Msk) (mn : Nat) : Msk × State :=
  match m with
  | .sc true => let r := s.freshArr mn true; (.arr r.1, r.2)     -- np.ones(self._shape_): `mn` = number of elements
  | m => (m, s)

/-- indexer.py:192-194: the mask array is copied, then written -/
def writeMask (s : State) (m : Msk) (mpos : List Nat) : Msk × State :=
  match m with
  | .arr ma =>
    let r := s.copyOf ma (allPos s ma)
    (.arr r.1, (r.2.writeArr r.1 mpos).1)
  | m => (m, s)

/-- `obj[pos] = <plain number>` for an object whose values are an array and a basic index that is not empty
    (indexer.py:95-245, the path of lines 136-245 with an unmasked right-hand side that has no derivatives).
    `fuel` bounds the descent into derivatives (derivatives have none of their own). -/
def setItem (s : State) (i : Nat) (pos mpos : List Nat) (mn : Nat) : Nat → State × Res
  | 0 => (s, .err .bad)
  | fuel + 1 =>
    match requireWritable s i with                                                   -- line 97
    | some e => (s, .err e)
    | none =>
      match s.objs[i]? with
      | some o =>
        match o.vals with
        | .sc _ => (s, .err .bad)
        | .arr a =>
          -- `_require_assignable` (indexer.py:256-275): every derivative must be writable before anything is written
          match o.derivs.findSome? (fun kd => requireWritable s kd.2) with
          | some e => (s, .err e)
          | none =>
          let m0 := expandMask s o.mask mn                                           -- lines 154-163
          let s1 := m0.2.setObj i fun x => { x with mask := m0.1 }
          let w := s1.writeArr a pos                                                 -- line 191
          if !w.2 then (w.1, .err .value)
          else
            let m1 := writeMask w.1 m0.1 mpos                                        -- lines 192-194
            let s2 := m1.2.setObj i fun x => { x with mask := m1.1, wodc := none }   -- line 221
            -- lines 224-232: every derivative is assigned zeros at the same index
            o.derivs.foldl (fun (acc : State × Res) kd =>
              match acc.2 with
              | .err _ => acc
              | _ => setItem acc.1 kd.2 pos mpos mn fuel) (s2, .ok)
      | none => (s, .err .bad)

/-- what `insert_deriv(key, self_deriv.zeros(shape, mask=self._mask_), override=True)` stores (indexer.py:135-141): a
    new writable object of zeros with the object's new mask (the bool False), no units, no derivatives
    (insert_deriv keeps a clone of it, which shares the arrays; the intermediate object is not allocated here) -/
def zeroDeriv (s : State) (n d : Nat) : Nat × State :=
  match s.objs[d]? with
  | some od =>
    let a := s.freshArr n true
    a.2.allocObj { od with vals := .arr a.1, mask := .sc false, ro := false, units := 0, derivs := [], wodc := none }
  | none => (d, s)

def setAllStep (i n : Nat) (s : State) (kd : Nat × Nat) : State :=
  let z := zeroDeriv s n kd.2
  z.2.setObj i fun x => { x with derivs := setKey x.derivs kd.1 z.1, wodc := none }

/-- `obj[:] = <plain number>` / `obj[...] = <plain number>` on an object with a shape: the index is "consistent with
    shapeless indexing", so the object is not written through -- its arrays are REPLACED (indexer.py:101-134) -/
def setAll (s : State) (i : Nat) : State × Res :=
  match requireWritable s i with                                                     -- line 97
  | some e => (s, .err e)
  | none =>
    match s.objs[i]? with
    | some o =>
      match o.vals with
      | .sc _ => (s, .err .bad)
      | .arr a =>
        match o.derivs.findSome? (fun kd => requireWritable s kd.2) with             -- `_require_assignable`
        | some e => (s, .err e)
        | none =>
          let n := (allPos s a).length
          let v := s.freshArr n true                                                 -- arg.broadcast_to(..).copy()
          let s1 := v.2.setObj i fun x => { x with vals := .arr v.1, mask := .sc false, wodc := none }
          (o.derivs.foldl (setAllStep i n) s1, .ok)
    | none => (s, .err .bad)

/-- `obj += <number / constant of the class>` (qube.py:2927-2968; `-=`, `*=`, `/=`, `//=`, `%=` have the same shape).
    `fast`: the rank-0 shortcut of lines 2931-2934 (`_new_values_`: only `unshrunk` and `wod` leave the cache).
    `unsupported`: the class overrides the operator with an unconditional raise (Boolean arithmetic, Matrix `//=`). -/
def iop (s : State) (i : Nat) (fast unsupported : Bool) : State × Res :=
  if unsupported then (s, .err .type) else
  match requireWritable s i with
  | some e => (s, .err e)
  | none =>
    match s.objs[i]? with
    | some o =>
      match o.vals with
      | .sc _ =>
        let r := s.stamps 1
        (r.2.setObj i fun x => { x with vals := .sc (r.1.headD 0), wodc := none }, .ok)
      | .arr a =>
        let w := s.writeArr a (allPos s a)
        if !w.2 then (w.1, .err .value)
        else if fast then (w.1.setObj i fun x => { x with wodc := none }, .ok)  -- `_new_values_` drops the cached wod
        else
          -- lines 2963-2967: mask (unchanged object), units, insert_derivs(own derivatives), cache
          ((o.derivs.foldl (fun s kd => (insertDeriv s i kd.1 kd.2 false).1) w.1).setObj i
            fun x => { x with wodc := none }, .ok)
    | none => (s, .err .bad)

/-- `set_units(units, override)` (qube.py:1773-1793) with compatible units -/
def setUnits (s : State) (i u : Nat) (override : Bool) : State × Res :=
  match s.objs[i]? with
  | some o =>
    if !o.unitsOk && u != 0 then (s, .err .type)                -- lines 1782-1784
    else
      match (if override then none else requireWritable s i) with
      | some e => (s, .err e)
      | none => (s.setObj i fun x => { x with units := u, wodc := none }, .ok)
  | none => (s, .err .bad)

/-- `delete_deriv(key, override)` (qube.py:1569-1588) -/
def deleteDeriv (s : State) (i k : Nat) (override : Bool) : State × Res :=
  match (if override then none else requireWritable s i) with
  | some e => (s, .err e)
  | none =>
    match s.objs[i]? with
    | some _ => (s.setObj i fun x => { x with derivs := x.derivs.filter (fun kd => kd.1 != k), wodc := none }, .ok)
    | none => (s, .err .bad)

/-- `delete_derivs(override)` (qube.py:1591-1623), `preserve=None` -/
def deleteDerivs (s : State) (i : Nat) (override : Bool) : State × Res :=
  match (if override then none else requireWritable s i) with
  | some e => (s, .err e)
  | none =>
    match s.objs[i]? with
    | some _ => (s.setObj i fun x => { x with derivs := [], wodc := none }, .ok)
    | none => (s, .err .bad)

/-- `insert_derivs(dict, override)` (qube.py:1542-1566): every key is checked before any insertion -/
def insertDerivs (s : State) (i : Nat) (kds : List (Nat × Nat)) (override : Bool) : State × Res :=
  match s.objs[i]? with
  | some o =>
    if o.ro && !override && kds.any (fun kd => hasKey o.derivs kd.1) then (s, .err .value)
    else
      kds.foldl (fun (acc : State × Res) kd =>
        match acc.2 with
        | .err _ => acc
        | _ => insertDeriv acc.1 i kd.1 kd.2 override) (s, .ok)
  | none => (s, .err .bad)

/-! ### the alphabet -/

inductive Op where
  | mk (n mn : Nat) (mask : Option Bool) (unitsOk derivsOk : Bool) -- a new array object (`mask = none`: a mask array of mn cells)
  | mks (mask : Bool) (unitsOk derivsOk : Bool)                    -- a new object holding one Python number
  | derive (v : Nat) (m : Mode) (sel : Sel) (recursive : Bool) (dsel : List (Nat × Sel))
  | wod (v : Nat)
  | clone (v : Nat) (recursive : Bool)
  | copy (v : Nat) (recursive readonly : Bool)
  | neg (v : Nat) (unitsOk derivsOk : Bool)                          -- class attributes of the result
  | pickle (v : Nat) (mc : MaskClass) (dmc : List (Nat × MaskClass))
  | getDeriv (v k : Nat)
  | rawRef (v : Nat) (mask : Bool)                                  -- `b.values` / `b.mask`: the ndarray object itself
  | rawView (v : Nat) (mask : Bool) (idx : List Nat)                -- `b.values[...]`: a NumPy view made by the caller
  | setItem (v : Nat) (pos mpos : List Nat) (mn : Nat)              -- cells of the values / of the mask array; mask size
  | setAll (v : Nat)                                                -- `obj[:] = number`: the arrays are replaced
  | iop (v : Nat) (fast unsupported : Bool)
  | setUnits (v u : Nat) (override : Bool)
  | deleteDeriv (v k : Nat) (override : Bool)
  | deleteDerivs (v : Nat) (override : Bool)
  | insertDeriv (v k d : Nat) (override : Bool)
  | insertDerivs (v : Nat) (kds : List (Nat × Nat)) (override : Bool)
  | asReadonly (v : Nat) (recursive : Bool)
  | requireWritable (v : Nat)
  | write (u : Nat) (pos : List Nat)                                -- `arr[pos] = ...` through a caller-held ndarray
  deriving DecidableEq, Repr, Inhabited

def arrOfObj (s : State) (v : Nat) (mask : Bool) : Option Nat :=
  match s.objs[v]? with
  | some o =>
    if mask then (match o.mask with
      | .arr a => some a
      | .sc _ => none)
    else (match o.vals with
      | .arr a => some a
      | .sc _ => none)
  | none => none

/-- a new array object -/
def mkObj (s : State) (n mn : Nat) (mask : Option Bool) (uok dok : Bool) : Nat × State :=
  let a := s.freshArr n true
  let m : Msk × State := match mask with
    | some b => (Msk.sc b, a.2)
    | none => let r := a.2.freshArr mn true; (Msk.arr r.1, r.2)
  m.2.allocObj ⟨.arr a.1, m.1, false, 0, [], none, uok, dok⟩

def mkScalar (s : State) (mask uok dok : Bool) : Nat × State :=
  let r := s.stamps 1
  r.2.allocObj ⟨.sc (r.1.headD 0), .sc mask, false, 0, [], none, uok, dok⟩

def objRes (r : Nat × State) : State × Res := (r.2, .obj r.1)

def step (s : State) : Op → State × Res
  | .mk n mn mask uok dok => objRes (mkObj s n mn mask uok dok)
  | .mks mask uok dok => objRes (mkScalar s mask uok dok)
  | .derive v m sel r dsel =>
    match s.objs[v]? with
    | some _ => objRes (derive s v m sel r dsel)
    | none => (s, .err .bad)
  | .wod v =>
    match s.objs[v]? with
    | some _ => objRes (wodOf s v)
    | none => (s, .err .bad)
  | .clone v r =>
    match s.objs[v]? with
    | some _ => objRes (clone s v r)
    | none => (s, .err .bad)
  | .copy v r ro =>
    match s.objs[v]? with
    | some _ => objRes (copy s v r ro)
    | none => (s, .err .bad)
  | .neg v uok dok =>
    match s.objs[v]? with
    | some _ => objRes (neg s v uok dok)
    | none => (s, .err .bad)
  | .pickle v mc dmc =>
    match s.objs[v]? with
    | some _ => objRes (unpickle s v mc dmc)
    | none => (s, .err .bad)
  | .getDeriv v k =>
    match s.objs[v]? with
    | some o =>
      match o.derivs.find? (fun kd => kd.1 == k) with
      | some kd => (s, .obj kd.2)
      | none => (s, .err .bad)
    | none => (s, .err .bad)
  | .rawRef v mask =>
    match arrOfObj s v mask with
    | some a => ({ s with user := s.user ++ [a] }, .usr s.user.length)
    | none => (s, .err .bad)
  | .rawView v mask idx =>
    match arrOfObj s v mask with
    | some a =>
      let r := s.viewOf a idx false
      ({ r.2 with user := r.2.user ++ [r.1] }, .usr s.user.length)
    | none => (s, .err .bad)
  | .setItem v pos mpos mn => setItem s v pos mpos mn (s.objs.length + 1)
  | .setAll v => setAll s v
  | .iop v fast un => iop s v fast un
  | .setUnits v u ov => setUnits s v u ov
  | .deleteDeriv v k ov => deleteDeriv s v k ov
  | .deleteDerivs v ov => deleteDerivs s v ov
  | .insertDeriv v k d ov => insertDeriv s v k d ov
  | .insertDerivs v kds ov => insertDerivs s v kds ov
  | .asReadonly v r =>
    match s.objs[v]? with
    | some _ => (asRO s v r, .ok)
    | none => (s, .err .bad)
  | .requireWritable v =>
    match requireWritable s v with
    | some e => (s, .err e)
    | none => (s, .ok)
  | .write u pos =>
    match s.user[u]? with
    | some a =>
      let w := s.writeArr a pos
      if w.2 then (w.1, .ok) else (w.1, .err .value)
    | none => (s, .err .bad)

/-- a history of calls -/
def run (s : State) : List Op → State
  | [] => s
  | op :: ops => run (step s op).1 ops

/-! ### observation -/

structure ObsCore where
  vals : List Nat
  maskSc : Option Bool
  maskArr : List Nat
  units : Nat
  deriving DecidableEq, Repr, Inhabited

def valCells (s : State) : Val → List Nat
  | .sc st => [st]
  | .arr a => s.read a

def obsCore (s : State) (o : Obj) : ObsCore :=
  { vals := valCells s o.vals
    maskSc := match o.mask with
      | .sc b => some b
      | .arr _ => none
    maskArr := match o.mask with
      | .sc _ => []
      | .arr a => s.read a
    units := o.units }

/-- what a caller can see of an object: values, mask, units, and the same of every derivative -/
def obs (s : State) (i : Nat) : Option (ObsCore × List (Nat × Option ObsCore)) :=
  match s.objs[i]? with
  | some o => some (obsCore s o, o.derivs.map fun kd => (kd.1, (s.objs[kd.2]?).map (obsCore s)))
  | none => none

end PMV.ReadOnly

/-! ### events of the guard table (T2); the table itself is generated: PMV/Gen/Guards.lean -/
namespace PMV.GuardEv

inductive Ev where
  | guard                          -- self.require_writable()
  | roGuard (exempt : List String) -- `if self.readonly and <exempt...>: raise`, not taken
  | raise
  | write (target : String)
  | call (method : String)         -- another method of the table (guarded itself)
  | ret
  | unknown (what : String)
  deriving DecidableEq, Repr, Inhabited

inductive Ov where
  | unknown | truthy | falsy
  deriving DecidableEq, Repr, Inhabited

structure Path where
  override : Ov
  evs : List Ev
  deriving DecidableEq, Repr, Inhabited

structure Method where
  owner : String
  name : String
  paths : List Path
  deriving Repr, Inhabited

/-- the documented exemptions of the conditional guard: the key is new, or `override` was passed -/
def exemptOk (e : String) : Bool := e == "keyPresent" || e == "notOverride"

/-- the first event that is not `ret` is a guard, a conditional guard with documented exemptions only, a raise, or a
    call of a method of the table; a bare write (or anything the translator did not understand) fails -/
def firstOk (names : List String) : List Ev → Bool
  | [] => true
  | .ret :: t => firstOk names t
  | .guard :: _ => true
  | .raise :: _ => true
  | .roGuard ex :: _ => ex.all exemptOk
  | .call m :: _ => names.contains m
  | .write _ :: _ => false
  | .unknown _ :: _ => false

def pathOk (names : List String) (p : Path) : Bool :=
  match p.override with
  | .truthy => true                 -- `override=True` is the documented way round the guard
  | _ => firstOk names p.evs

def tableOk (t : List Method) : Bool :=
  let names := t.map (·.name)
  t.all fun m => m.paths.all (pathOk names)

/-- how a mutator treats a read-only object, read off its paths -/
inductive GuardKind where
  | always                  -- every path is guarded
  | unlessOverride          -- guarded on every path except those on which `override` is known to be set
  | unlessOverrideOrNewKey  -- the conditional guard of insert_deriv(s): rejected iff the key exists and no override
  | unsupported             -- every path raises before anything else: the class does not support the operator
  | delegate                -- nothing but a call of another method of the table
  deriving DecidableEq, Repr, Inhabited

def firstEv : List Ev → Option Ev
  | [] => none
  | .ret :: t => firstEv t
  | e :: _ => some e

def isRaise : Option Ev → Bool
  | some .raise => true
  | _ => false

def isCall : Option Ev → Bool
  | some (.call _) => true
  | _ => false

def isRoGuard : Option Ev → Bool
  | some (.roGuard ex) => ex.contains "keyPresent" && ex.contains "notOverride" && ex.all exemptOk
  | _ => false

/-- the classification of one method of the table -/
def kindOf (m : Method) : GuardKind :=
  if m.paths.all (fun p => isRaise (firstEv p.evs)) then .unsupported
  else if m.paths.any (fun p => p.override == .truthy) then .unlessOverride
  else if m.paths.any (fun p => isRoGuard (firstEv p.evs)) then .unlessOverrideOrNewKey
  else if m.paths.all (fun p => isCall (firstEv p.evs)) then .delegate
  else .always

end PMV.GuardEv
