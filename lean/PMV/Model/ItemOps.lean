import PMV.Model.Shaper
/-
  Code-shaped model of polymath's item-restructuring operations:
    polymath/extensions/item_ops.py:8-400   extract/slice/transpose/reshape/flatten of numerator and
                                            denominator axes, join_items / split_items / swap_items
    polymath/qube.py:2384-2420              cast
    polymath/qube.py:4749-4878              from_scalars
    polymath/vector.py:94-115, 337-366      to_scalar(s), as_column, as_row, as_diagonal
    polymath/extensions/math_ops.py:579-625 as_diagonal
  (REPAIRED code of branch wt-C15: swap_items rolls the first item axis).
  Every function works on the full values array with `k = len(shape) + axis` exactly as the source
  does; the mask is handed over untouched.  Mathlib-free.
-/
namespace PMV.ItemOps
open PMV.NpShape PMV.Shaper

variable {α : Type}

/-- `Qube.cast(classes)` on an object without derivatives: the first class of the list that is the
    object's own class or admits its numerator -/
def cast (q : Q0 α) : List Cls → Except Err (Q0 α)
  | [] => .ok q
  | c :: cs =>
    if c = q.cls then .ok q
    else if c.numer.any (· ≠ q.numer) then cast q cs
    else if c.nrank.any (· ≠ q.numer.length) then cast q cs
    else construct c q.vals q.mask q.numer.length q.denom.length

/-- "Position axis from left": `axis >= 0 → axis, else axis + rank`; outside `0 ≤ a1 < rank` → ValueError -/
def itemAxis (rank : Nat) (axis : Int) : Except Err Nat :=
  let a1 := if axis ≥ 0 then axis else axis + (rank : Int)
  if a1 < 0 ∨ a1 ≥ (rank : Int) then .error .value else .ok a1.toNat

/-- NumPy integer index on an axis of length `n` -/
def pyIndex (n : Nat) (i : Int) : Except Err Nat :=
  if -(n : Int) ≤ i ∧ i < (n : Int) then .ok (if i < 0 then i + (n : Int) else i).toNat else .error .index

/-- apply `f` to every derivative (already a `recursive=False` call) and insert the results -/
def withDerivs (q : Q α) (recursive : Bool) (b : Q0 α) (f : Q0 α → Except Err (Q0 α)) : Except Err (Q α) := do
  let ds ← if recursive then mapDerivs b q.derivs f else pure []
  pure ⟨b, ds⟩

/-! ### extract / slice (item_ops.py:8-150) -/

def extractNumerCore (q : Q0 α) (a1 : Nat) (index : Int) (classes : List Cls) : Except Err (Q0 α) := do
  let k1 := q.shape.length + a1
  let rolled ← NpShape.rollaxis q.vals k1 0                       -- np.rollaxis(values, k1, 0)
  let k ← pyIndex (rolled.shape.headD 0) index                    -- new_values[index]
  let obj ← construct .qube (take0 rolled k) q.mask (q.numer.length - 1) q.denom.length
  cast obj classes

def extractNumer0 (q : Q0 α) (axis index : Int) (classes : List Cls) : Except Err (Q0 α) := do
  let a1 ← itemAxis q.numer.length axis
  extractNumerCore q a1 index classes

def extractNumer (q : Q α) (axis index : Int) (classes : List Cls) (recursive : Bool) : Except Err (Q α) := do
  let a1 ← itemAxis q.base.numer.length axis
  let b ← extractNumerCore q.base a1 index classes
  -- `deriv.extract_numer(a1, index, classes, False)`
  withDerivs q recursive b (extractNumer0 · a1 index classes)

def extractDenom (q : Q α) (axis index : Int) (classes : List Cls) : Except Err (Q α) := do
  let a1 ← itemAxis q.base.denom.length axis
  let k1 := q.base.shape.length + q.base.numer.length + a1
  let rolled ← NpShape.rollaxis q.base.vals k1 0
  let k ← pyIndex (rolled.shape.headD 0) index
  let obj ← construct .qube (take0 rolled k) q.base.mask q.base.numer.length (q.base.denom.length - 1)
  let obj ← cast obj (q.base.cls :: classes)
  pure ⟨obj, []⟩

/-- `a[..., k]` -/
def takeLast (a : Arr α) (k : Nat) : Arr α := ⟨a.shape.dropLast, fun i => a.get (i ++ [k])⟩

def extractDenoms (q : Q α) : Except Err (List (Q α)) :=
  if q.base.denom.length = 0 then .ok [q]
  else if q.base.denom.length ≠ 1 then .error .value
  else (List.range (q.base.denom.headD 0)).mapM fun k => do
    let obj ← construct q.base.cls (takeLast q.base.vals k) q.base.mask q.base.numer.length 0
    pure ⟨obj, []⟩

def sliceNumerCore (q : Q0 α) (a1 : Nat) (index1 index2 : Int) (classes : List Cls) : Except Err (Q0 α) := do
  let k1 := q.shape.length + a1
  let rolled ← NpShape.rollaxis q.vals k1 0
  let (lo, len) := sliceBounds (rolled.shape.headD 0) index1 index2
  let back ← NpShape.rollaxis (slice0 rolled lo len) 0 (k1 + 1)   -- np.rollaxis(new_values, 0, k1+1)
  let obj ← construct .qube back q.mask q.numer.length q.denom.length
  cast obj classes

def sliceNumer0 (q : Q0 α) (axis index1 index2 : Int) (classes : List Cls) : Except Err (Q0 α) := do
  let a1 ← itemAxis q.numer.length axis
  sliceNumerCore q a1 index1 index2 classes

def sliceNumer (q : Q α) (axis index1 index2 : Int) (classes : List Cls) (recursive : Bool) : Except Err (Q α) := do
  let a1 ← itemAxis q.base.numer.length axis
  let b ← sliceNumerCore q.base a1 index1 index2 classes
  withDerivs q recursive b (sliceNumer0 · a1 index1 index2 classes)

/-! ### numerator shaping (item_ops.py:156-251) -/

def transposeNumerCore (q : Q0 α) (a1 a2 : Nat) : Except Err (Q0 α) := do
  let nv ← NpShape.swapaxes q.vals (q.shape.length + a1 : Nat) (q.shape.length + a2 : Nat)
  likeSelf q nv q.mask

def transposeNumer0 (q : Q0 α) (axis1 axis2 : Int) : Except Err (Q0 α) := do
  let a1 ← itemAxis q.numer.length axis1
  let a2 ← itemAxis q.numer.length axis2
  transposeNumerCore q a1 a2

def transposeNumer (q : Q α) (axis1 axis2 : Int) (recursive : Bool) : Except Err (Q α) := do
  let a1 ← itemAxis q.base.numer.length axis1
  let a2 ← itemAxis q.base.numer.length axis2
  let b ← transposeNumerCore q.base a1 a2
  -- `deriv.transpose_numer(a1, a2, False)`
  withDerivs q recursive b (transposeNumer0 · a1 a2)

def reshapeNumer0 (q : Q0 α) (shape : List Int) (classes : List Cls) : Except Err (Q0 α) :=
  if (size q.numer : Int) ≠ prodInt shape then .error .value      -- self.nsize != int(np.prod(shape))
  else do
    let nv ← NpShape.reshape q.vals (ofNats q.shape ++ shape ++ ofNats q.denom)
    let obj ← construct .qube nv q.mask shape.length q.denom.length
    cast obj classes

def reshapeNumer (q : Q α) (shape : List Int) (classes : List Cls) (recursive : Bool) : Except Err (Q α) := do
  let b ← reshapeNumer0 q.base shape classes
  withDerivs q recursive b (reshapeNumer0 · shape classes)

def flattenNumer (q : Q α) (classes : List Cls) (recursive : Bool) : Except Err (Q α) :=
  reshapeNumer q [Int.ofNat (size q.base.numer)] classes recursive

/-! ### denominator shaping (item_ops.py:257-328) -/

def transposeDenom (q : Q α) (axis1 axis2 : Int) : Except Err (Q α) := do
  let a1 ← itemAxis q.base.denom.length axis1
  let a2 ← itemAxis q.base.denom.length axis2
  let off := q.base.shape.length + q.base.numer.length
  let nv ← NpShape.swapaxes q.base.vals (off + a1 : Nat) (off + a2 : Nat)
  let b ← likeSelf q.base nv q.base.mask
  pure ⟨b, []⟩

def reshapeDenom (q : Q α) (shape : List Int) : Except Err (Q α) :=
  if (size q.base.denom : Int) ≠ prodInt shape then .error .value
  else do
    let nv ← NpShape.reshape q.base.vals (ofNats q.base.shape ++ ofNats q.base.numer ++ shape)
    let b ← construct q.base.cls nv q.base.mask q.base.numer.length shape.length
    pure ⟨b, []⟩

def flattenDenom (q : Q α) : Except Err (Q α) := reshapeDenom q [Int.ofNat (size q.base.denom)]

/-! ### numerator / denominator operations (item_ops.py:334-400) -/

def joinItems (q : Q α) (classes : List Cls) : Except Err (Q α) :=
  if q.base.denom.length = 0 then .ok ⟨q.base, []⟩                -- self.wod
  else do
    let obj ← construct .qube q.base.vals q.base.mask (q.base.numer.length + q.base.denom.length) 0
    let obj ← cast obj classes
    pure ⟨obj, []⟩

def splitItems (q : Q α) (nrank : Nat) (classes : List Cls) : Except Err (Q α) :=
  let rank := q.base.numer.length + q.base.denom.length
  if nrank > rank then .error .value      -- outside the tie: the code builds a malformed object here
  else do
    let obj ← construct .qube q.base.vals q.base.mask nrank (rank - nrank)
    let obj ← cast obj classes
    pure ⟨obj, []⟩

/-- `for r in range(nrank): new_values = np.rollaxis(new_values, -rank, ndim)` -/
def rollItems (rank : Nat) : Nat → Arr α → Except Err (Arr α)
  | 0, a => .ok a
  | n + 1, a => do
    let a ← NpShape.rollaxis a (-(rank : Int)) a.shape.length
    rollItems rank n a

def swapItems (q : Q α) (classes : List Cls) : Except Err (Q α) := do
  let nr := q.base.numer.length
  let dr := q.base.denom.length
  let nv ← rollItems (nr + dr) nr q.base.vals
  let obj ← construct .qube nv q.base.mask dr nr
  let obj ← cast obj classes
  pure ⟨obj, []⟩

/-! ### Vector conversions (vector.py) -/

def toScalar (q : Q α) (indx : Int) (recursive : Bool) : Except Err (Q α) :=
  extractNumer q 0 indx [.scalar] recursive

def toScalars (q : Q α) (recursive : Bool) : Except Err (List (Q α)) :=
  (List.range (q.base.numer.headD 0)).mapM fun i => extractNumer q 0 (Int.ofNat i) [.scalar] recursive

def asColumn (q : Q α) (recursive : Bool) : Except Err (Q α) :=
  reshapeNumer q (ofNats q.base.numer ++ [1]) [.matrix] recursive

def asRow (q : Q α) (recursive : Bool) : Except Err (Q α) :=
  reshapeNumer q ((1 : Int) :: ofNats q.base.numer) [.matrix] recursive

/-- `new[..., i, i] = rolled[..., i]` on an array of zeros of shape `rolled.shape + rolled.shape[-1:]` -/
def diagLast (zero : α) (a : Arr α) : Arr α :=
  ⟨a.shape ++ [a.shape.getLastD 0], fun idx =>
    let n := idx.length
    if idx.getD (n - 2) 0 = idx.getD (n - 1) 0 then a.get idx.dropLast else zero⟩

def asDiagonal0 (zero : α) (q : Q0 α) (axis : Int) (classes : List Cls) : Except Err (Q0 α) := do
  let a1 ← itemAxis q.numer.length axis
  let k1 := q.shape.length + a1
  let rolled ← NpShape.rollaxis q.vals k1 q.vals.shape.length     -- roll this axis to the end
  let nv := diagLast zero rolled
  let nv ← NpShape.rollaxis nv (-1) k1                            -- roll the new axes back
  let nv ← NpShape.rollaxis nv (-1) k1
  let obj ← construct .qube nv q.mask (q.numer.length + 1) q.denom.length
  cast obj classes

def asDiagonal (zero : α) (q : Q α) (recursive : Bool) : Except Err (Q α) := do
  let b ← asDiagonal0 zero q.base 0 [.matrix]
  withDerivs q recursive b (asDiagonal0 zero · 0 [.matrix])

/-! ### from_scalars (qube.py:4749-4878) -/

/-- union of the component masks (`Qube.or_` of the broadcast masks): a single bool when all are -/
def orMasks (out : Shape) (ms : List Mask) : Mask :=
  if ms.all (fun m => match m with | .all _ => true | _ => false) then
    .all (ms.any fun m => match m with | .all b => b | _ => false)
  else .arr ⟨out, fun i => ms.any (·.at i)⟩

/-- components without derivatives; `none` = the zero place-holder used for a missing derivative -/
def fromScalars0 (zero : α) (args : List (Option (Q0 α))) (classes : List Cls) : Except Err (Q0 α) := do
  let real := args.filterMap id
  match real with
  | [] => .error .type
  | first :: _ =>
    let out ← bcastShapes (real.map (·.shape))
    let bs ← args.mapM fun a => match a with
      | none => pure none
      | some q => (broadcastTo0 q (ofNats out)).map some
    if real.any (fun q => q.denom ≠ first.denom) then .error .value
    else
      let stacked := stackVals zero (out ++ first.denom) (bs.map (·.map (·.vals)))   -- np.array(arrays)
      let nv ← NpShape.rollaxis stacked 0 (Int.ofNat (stacked.shape.length - first.denom.length))
      let mask := orMasks out ((bs.filterMap id).map (·.mask))
      let obj ← construct .qube nv mask 1 first.denom.length
      cast obj classes

def fromScalars (zero : α) (args : List (Q α)) (classes : List Cls) (recursive : Bool) : Except Err (Q α) := do
  let b ← fromScalars0 zero (args.map fun q => some q.base) classes
  if ¬ recursive then pure ⟨b, []⟩
  else
    let out ← bcastShapes (args.map (·.base.shape))
    let keys := dedup (args.flatMap fun q => q.derivs.map (·.1))
    let ds ← keys.mapM fun k => do
      let col ← args.mapM fun q => match lookup k q.derivs with
        | none => pure none
        | some d => (broadcastTo0 d (ofNats out)).map some
      let d ← fromScalars0 zero col classes
      let d ← insertDeriv b d
      pure (k, d)
    pure ⟨b, ds⟩

/-! ### class conversions that leave the values where they are
    (scalar.py:69-90 as_scalar, boolean.py:45-58 as_int, vector.py:43-92 as_vector, vector3.py:31-53 as_vector3,
     pair.py:32-66 as_pair, matrix.py:35-54 as_matrix; incl. the repairs that hand the operand's derivatives to the
     constructor and that split every derivative like the object in the split_items branch) -/

def _root_.PMV.Shaper.Cls.isVector : Cls → Bool
  | .vector | .vector3 | .pair | .quaternion => true
  | _ => false

def wod (q : Q α) : Q α := ⟨q.base, []⟩

/-- `Cls(arg, derivs=arg._derivs_)` with a Qube `arg` (qube.py:285-306, 330-408): the numerator rank is the
    operand's, EXCEPT that `nrank = nrank or self.NRANK or 0` turns an operand rank of 0 into the class rank;
    denominators are the operand's; the derivatives are inserted into the new object -/
def ctorFromQube (cls : Cls) (q : Q α) : Except Err (Q α) := do
  let nr := if q.base.numer.length ≠ 0 then q.base.numer.length else cls.nrank.getD 0
  let b ← construct cls q.base.vals q.base.mask nr q.base.denom.length
  let ds ← mapDerivs b q.derivs pure
  pure ⟨b, ds⟩

/-- `Cls(arg._values_, arg._mask_, derivs=arg._derivs_, example=arg)` for a class with a fixed NRANK:
    the raw values array is read with the class's numerator rank and the operand's denominator rank -/
def ctorFromArrays (cls : Cls) (q : Q α) : Except Err (Q α) := do
  let b ← construct cls q.base.vals q.base.mask (cls.nrank.getD q.base.numer.length) q.base.denom.length
  let ds ← mapDerivs b q.derivs pure
  pure ⟨b, ds⟩

def keepOrWod (recursive : Bool) (q : Q α) : Q α := if recursive then q else wod q

/-- `deriv.split_items(nrank, classes)` on one derivative (a `recursive=False` object) -/
def splitItems0 (d : Q0 α) (nrank : Nat) (classes : List Cls) : Except Err (Q0 α) :=
  (splitItems ⟨d, []⟩ nrank classes).map (·.base)

/-- `{key: deriv.split_items(1, cls)}`: every derivative goes through the same split as the object -/
def splitDerivs (q : Q α) (cls : Cls) : Except Err (List (String × Q0 α)) :=
  q.derivs.mapM fun kd => (splitItems0 kd.2 1 [cls]).map fun d => (kd.1, d)

/-- `Scalar.as_scalar` -/
def asScalar (q : Q α) (recursive : Bool) : Except Err (Q α) :=
  if q.base.cls = .boolean then
    -- `arg.as_int()`: a Scalar of the 0/1 values with the same mask
    (construct .scalar q.base.vals q.base.mask 0 0).map fun b => ⟨b, []⟩
  else if q.base.cls = .scalar then .ok (keepOrWod recursive q)
  else (ctorFromQube .scalar q).map (keepOrWod recursive)

/-- the `nrank == 0` branch of `as_vector`: values reshaped to `shape + (1,) + item`, `Vector(..., nrank=1)` -/
def scalarToVector0 (q : Q0 α) : Except Err (Q0 α) := do
  let nv ← NpShape.reshape q.vals (ofNats q.shape ++ [1] ++ ofNats q.item)
  construct .vector nv q.mask 1 q.denom.length

/-- `Vector.as_vector` -/
def asVector (q : Q α) (recursive : Bool) : Except Err (Q α) :=
  if q.base.cls.isVector then .ok (keepOrWod recursive q)
  else if q.base.numer.length = 1 then flattenNumer q [.vector] recursive
  else if q.base.numer.length = 2 ∧ (q.base.numer.headD 0 = 1 ∨ q.base.numer.getD 1 0 = 1) then
    flattenNumer q [.vector] recursive
  else if q.base.numer.length = 0 then do
    let b ← scalarToVector0 q.base
    -- `result.insert_deriv(key, Vector.as_vector(value, False))`
    let ds ← if recursive then mapDerivs b q.derivs scalarToVector0 else pure []
    pure ⟨b, ds⟩
  else if q.base.numer.length + q.base.denom.length > 1 then do
    -- `result = arg.split_items(1, Vector)`; with recursive=True every derivative is split the same way and inserted
    let r ← splitItems q 1 [.vector]
    let ds ← if recursive then mapDerivs r.base q.derivs (splitItems0 · 1 [.vector]) else pure []
    pure ⟨r.base, ds⟩
  else (ctorFromQube .vector q).map (keepOrWod recursive)

/-- `arg._numer_[0]` -/
def numer0 (q : Q α) : Except Err Nat :=
  match q.base.numer with
  | [] => .error .index
  | n :: _ => .ok n

/-- `Vector3.as_vector3` -/
def asVector3 (q : Q α) (recursive : Bool) : Except Err (Q α) :=
  if q.base.cls = .vector3 then .ok (keepOrWod recursive q)
  else if q.base.numer = [1, 3] ∨ q.base.numer = [3, 1] then flattenNumer q [.vector3] recursive
  else do
    let q ← if q.base.numer.length + q.base.denom.length > 1 then do
        let n0 ← numer0 q
        if n0 = 3 then do
          -- the derivatives are split like the object and handed to the constructor below
          let ds ← splitDerivs q .vector3
          let r ← splitItems q 1 [.vector3]
          pure ⟨r.base, ds⟩
        else pure q
      else pure q
    (ctorFromQube .vector3 q).map (keepOrWod recursive)

/-- `Pair.as_pair` -/
def asPair (q : Q α) (recursive : Bool) : Except Err (Q α) :=
  if q.base.cls = .pair then .ok (keepOrWod recursive q)
  else if q.base.numer = [1, 2] ∨ q.base.numer = [2, 1] then flattenNumer q [.pair] recursive
  else do
    let q ← if q.base.numer.length + q.base.denom.length > 1 then do
        let n0 ← numer0 q
        if n0 = 2 then do
          let ds ← splitDerivs q .pair
          let r ← splitItems q 1 [.pair]
          pure ⟨r.base, ds⟩
        else pure q
      else pure q
    (ctorFromArrays .pair q).map (keepOrWod recursive)

/-- `Matrix.as_matrix` -/
def asMatrix (q : Q α) (recursive : Bool) : Except Err (Q α) :=
  if q.base.cls = .matrix then .ok (keepOrWod recursive q)
  else if q.base.cls.isVector ∧ q.base.denom.length = 1 then joinItems q [.matrix]
  else (ctorFromArrays .matrix q).map (keepOrWod recursive)

end PMV.ItemOps
