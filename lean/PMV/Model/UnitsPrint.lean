import PMV.Model.Units
/-
  C12 view, printing path: `Units.__str__` → `get_name` → `create_name` / `name_to_str`
  (polymath/units.py:446-450, 606-810), dictionary → string direction.  The string parser
  `name_to_dict` is not modelled.

  Printing can fail on the real code only in one way that matters here: a key of the name dictionary
  that is not a string (a registered unit whose `.name` has been set to `None`), which makes
  `list.sort()`, `key + '**'` or `'*'.join(...)` raise TypeError.  Keys are therefore `Option String`
  and the failure is explicit.  Core Lean only.
-/
namespace PMV.Units

/-- the value stored under a key: an integer exponent, or (under the key '') a float coefficient whose
    digits are not modelled -/
inductive NVal where
  | int (i : Int)
  | float
  deriving DecidableEq, Repr, Inhabited

/-- a dictionary key: a Python str, or None -/
abbrev PKey := Option String
/-- a name dictionary in insertion order -/
abbrev PDict := List (PKey × NVal)

/-- a name as `name_to_str` receives it -/
inductive PName where
  | str (s : String)
  | dict (d : PDict)
  deriving DecidableEq, Repr, Inhabited

/-- a registered unit: the key under which `NAME_TO_UNIT` knows it (its name at import time), its value,
    and its current `.name` attribute (None after the damage of defect 13) -/
structure RU where
  key : String
  u : U
  name : Option String
  deriving DecidableEq, Repr, Inhabited

/-- units.py:879-896 the module tables -/
structure Reg where
  unitless : RU
  dist : List RU
  time : List RU
  angle : List RU
  deriving Repr, Inhabited

/-- `Units.STANDARD_LIST` -/
def Reg.standard (r : Reg) : List RU := r.unitless :: (r.dist ++ r.time ++ r.angle)
/-- `Units.UNITS_BY_EXPO[i]` -/
def Reg.byExpo (r : Reg) : Nat → List RU
  | 0 => r.dist
  | 1 => r.time
  | _ => r.angle

/-- `exponents[i]` -/
def U.expAt (u : U) : Nat → Int
  | 0 => u.e0
  | 1 => u.e1
  | _ => u.e2

/-- `Units.NAME_TO_UNIT[key].exponents` (`key in Units.NAME_TO_UNIT`) -/
def Reg.expsOf (r : Reg) (k : String) : Option U := (r.standard.find? fun x => x.key == k).map (·.u)

/-- `Units.TUPLES_TO_UNIT[(exponents, triple)].name`; outer `none` = KeyError (caught) -/
def Reg.byTuples (r : Reg) (u : U) : Option (Option String) :=
  (r.standard.find? fun x =>
    x.u.exps == u.exps && x.u.numer == u.numer && x.u.denom == u.denom && x.u.piexp == u.piexp).map (·.name)

/-! ### units.py:710-797 `create_name` -/

/-- one candidate of units.py:729-747: the unit, its power, the triple of unit**power -/
structure Opt where
  unit : RU
  p : Int
  n : Nat
  d : Nat
  pe : Int
  deriving Repr, Inhabited

/-- units.py:732-745 for one registered unit -/
def optOf (i : Nat) (target : Int) (x : RU) : Option Opt :=
  let actual := x.u.expAt i
  let p := target / actual
  if p * actual == target then
    if p > 0 then some ⟨x, p, x.u.numer ^ p.toNat, x.u.denom ^ p.toNat, x.u.piexp * p⟩
    else some ⟨x, p, x.u.denom ^ (-p).toNat, x.u.numer ^ (-p).toNat, x.u.piexp * p⟩
  else none

/-- units.py:728-747 `options[i]` -/
def optionsFor (r : Reg) (u : U) (i : Nat) : List Opt :=
  let target := u.expAt i
  if target != 0 then (r.byExpo i).filterMap (optOf i target)
  else match (r.byExpo i) with
    | x :: _ => [⟨x, 0, 1, 1, 0⟩]
    | [] => []            -- `UNITS_BY_EXPO[i][0]` on an empty list: IndexError; see `createName`

/-- `d[key] = value` on a dictionary with `Option String` keys -/
def pdSet (d : PDict) (k : PKey) (v : NVal) : PDict :=
  if d.any (fun kv => kv.1 == k) then d.map (fun kv => if kv.1 == k then (k, v) else kv) else d ++ [(k, v)]

/-- the dictionary display `{d_unit.name: d_power, t_unit.name: t_power, a_unit.name: a_power}` -/
def dict3 (a b c : Opt) : PDict :=
  pdSet (pdSet (pdSet [] a.unit.name (.int a.p)) b.unit.name (.int b.p)) c.unit.name (.int c.p)

/-- units.py:751-775 every combination whose reduced product is the triple looked for -/
def successes (r : Reg) (u : U) : List PDict :=
  (optionsFor r u 0).flatMap fun dO =>
    (optionsFor r u 1).flatMap fun tO =>
      (optionsFor r u 2).filterMap fun aO =>
        let numer := dO.n * tO.n * aO.n
        let denom := dO.d * tO.d * aO.d
        let expo := dO.pe + tO.pe + aO.pe
        let g := pyGcd numer denom
        if numer / g == u.numer && denom / g == u.denom && expo == u.piexp then some (dict3 dO tO aO) else none

/-- units.py:778-783 "the success with the fewest keys", first among equals -/
def bestOf (ss : List PDict) : Option PDict :=
  match ss with
  | [] => none
  | s :: rest =>
    let best := rest.foldl (fun m x => min m x.length) s.length
    ss.find? fun x => x.length == best

/-- units.py:785-797 the fall-back dictionary -/
def fallbackDict (u : U) : PDict :=
  let coefft := if u.denom == 1 && u.piexp == 0 then NVal.int u.numer else NVal.float
  [(some "", coefft), (some "km", .int u.e0), (some "s", .int u.e1), (some "rad", .int u.e2)]

/-- units.py:710-797 `create_name`.  `nm` is `self.name`.
    A registered unit without the expected exponent (division by zero at units.py:734) or an empty unit
    list (IndexError at :747) cannot occur with the module's tables; they are answered with an error so
    that no theorem holds by accident. -/
def createName (r : Reg) (u : U) (nm : Option PName) : Except Rej PName :=
  match nm with
  | some n => .ok n
  | none =>
    match r.byTuples u with
    | some (some s) => .ok (.str s)
    | _ =>
      if (List.range 3).any (fun i => (r.byExpo i).isEmpty || (r.byExpo i).any fun x => x.u.expAt i == 0) then
        .error .typeError
      else
        match bestOf (successes r u) with
        | some d => .ok (.dict d)
        | none => .ok (.dict (fallbackDict u))

/-! ### units.py:605-708 `name_to_str` -/

def insertStr (s : String) : List String → List String
  | [] => [s]
  | x :: xs => if s < x then s :: x :: xs else x :: insertStr s xs

/-- `list.sort()` on strings -/
def sortStr (l : List String) : List String := l.foldr insertStr []

/-- units.py:609-656 `order_keys` -/
def orderKeys (r : Reg) (names : List String) : List String :=
  let s0 := if names.contains "" then [""] else []
  let dimKeys (sorted : List String) (i : Nat) (first : Bool) : List String :=
    sortStr (names.filter fun k =>
      match r.expsOf k with
      | some u => u.expAt i != 0 && (first || !sorted.contains k)
      | none => false)
  let s1 := s0 ++ dimKeys s0 0 true                 -- distances (no `not in sorted` test)
  let s2 := s1 ++ dimKeys s1 2 false                -- angles
  let s3 := s2 ++ dimKeys s2 1 false                -- times
  s3 ++ sortStr (names.filter fun k => !s3.contains k)

def pdGet (d : PDict) (k : String) : NVal :=
  match d.find? (fun kv => kv.1 == some k) with
  | some kv => kv.2
  | none => .int 0

def valStr : NVal → String
  | .int i => toString i
  | .float => "#"

/-- units.py:658-678 `cat_units` -/
def catUnits (d : PDict) (names : List String) (negate : Bool) : String :=
  let items := names.filterMap fun key =>
    let expo := pdGet d key
    if key == "" then
      (if expo != .int 1 then some (valStr expo) else none)
    else
      match expo with
      | .float => some (key ++ "**#")
      | .int e =>
        let e := if negate then -e else e
        if e == 1 then some key
        else if e > 1 then some (key ++ "**" ++ toString e)
        else some (key ++ "**(" ++ toString e ++ ")")
  "*".intercalate items

/-- the keys that go to the numerator and to the denominator (units.py:684-693) -/
def splitKeys (d : PDict) : List PKey × List PKey :=
  (d.filterMap fun kv =>
      if kv.1 == some "" then some kv.1
      else match kv.2 with
        | .int e => if e > 0 then some kv.1 else none
        | .float => some kv.1,
   d.filterMap fun kv =>
      if kv.1 == some "" then none
      else match kv.2 with
        | .int e => if e < 0 then some kv.1 else none
        | .float => none)

/-- units.py:605-708 `name_to_str`.  A key that is not a string among the printed ones: TypeError
    (from `list.sort()`, `key + '**'` or `'*'.join`). -/
def nameToStr (r : Reg) : PName → Except Rej String
  | .str s => .ok s
  | .dict d =>
    let (nk, dk) := splitKeys d
    match nk.mapM id, dk.mapM id with
    | some numers, some denoms =>
      let numers := orderKeys r numers
      let denoms := orderKeys r denoms
      if !numers.isEmpty then
        if !denoms.isEmpty then .ok (catUnits d numers false ++ "/" ++ catUnits d denoms true)
        else .ok (catUnits d numers false)
      else
        if !denoms.isEmpty then .ok (catUnits d denoms false) else .ok ""
    | _, _ => .error .typeError

/-- Python truth value of `self.name` -/
def nameTruthy : Option PName → Bool
  | none => false
  | some (.str s) => s != ""
  | some (.dict d) => !d.isEmpty

/-- units.py:799-803 `get_name`: `name = self.name or self.create_name()` -/
def getName (r : Reg) (u : U) (nm : Option PName) : Except Rej String :=
  match nm with
  | some n => if nameTruthy nm then nameToStr r n else
      match createName r u nm with
      | .error e => .error e
      | .ok n' => nameToStr r n'
  | none =>
    match createName r u none with
    | .error e => .error e
    | .ok n' => nameToStr r n'

/-- units.py:446-447 `__str__` -/
def strU (r : Reg) (u : U) (nm : Option PName) : Except Rej String :=
  match getName r u nm with
  | .error e => .error e
  | .ok s => .ok ("Units(" ++ s ++ ")")

/-- a name produced by the dictionary algebra, as `name_to_str` sees it -/
def ofNameDict (d : NameDict) : PName := .dict (d.map fun kv => (some kv.1, NVal.int kv.2))

/-! ### the module's tables (units.py:816-896) -/

def ru (key : String) (e0 e1 e2 : Int) (n d : Nat) (p : Int) : RU := ⟨key, ⟨e0, e1, e2, n, d, p⟩, some key⟩

def stdReg : Reg where
  unitless := ru "" 0 0 0 1 1 0
  dist := [ru "km" 1 0 0 1 1 0, ru "m" 1 0 0 1 1000 0, ru "cm" 1 0 0 1 100000 0, ru "mm" 1 0 0 1 1000000 0,
           ru "micron" 1 0 0 1 1000000000 0]
  time := [ru "s" 0 1 0 1 1 0, ru "d" 0 1 0 86400 1 0, ru "h" 0 1 0 3600 1 0, ru "min" 0 1 0 60 1 0,
           ru "msec" 0 1 0 1 1000 0]
  angle := [ru "rad" 0 0 1 1 1 0, ru "mrad" 0 0 1 1 1000 0, ru "deg" 0 0 1 1 180 1, ru "arcsec" 0 0 1 1 648000 1,
            ru "arcmin" 0 0 1 1 10800 1, ru "archour" 0 0 1 1 12 1, ru "cycles" 0 0 1 2 1 1, ru "ster" 0 0 2 1 1 0]

end PMV.Units
