import PMV.Core.Arr
/-
  The NumPy shape primitives used by polymath's reshaping code, as executable index maps on
  `PMV.Arr` (functional arrays).  Each function is written like the NumPy source it models
  (numpy/_core/numeric.py: rollaxis, moveaxis, normalize_axis_tuple; numpy/_core/shape_base /
  C code: reshape, swapaxes, transpose; numpy/lib/_stride_tricks_impl.py: broadcast_to),
  including NumPy's own argument normalisation and its rejections.
  Mathlib-free.  The harness compares every one of them with real NumPy on every run
  (oracle of C15 = NumPy applied to tagged arrays; model = these functions).
-/
namespace PMV.NpShape

/-- the exception classes that can come out of the modelled calls -/
inductive Err where
  | value        -- ValueError
  | index        -- IndexError
  | type         -- TypeError
  | axis         -- numpy.exceptions.AxisError (subclass of ValueError and IndexError)
  deriving DecidableEq, Repr, Inhabited

def Err.name : Err → String
  | .value => "ValueError" | .index => "IndexError" | .type => "TypeError" | .axis => "Other:AxisError"

/-! ### ravel / unravel -/

/-- `numpy.unravel_index(k, s)` for C order: the inverse of `PMV.ravel` on `k < size s` -/
def unravel : Shape → Nat → Index
  | [], _ => []
  | _ :: s, k => (k / size s) :: unravel s (k % size s)

/-! ### axis normalisation -/

/-- `numpy.core.multiarray.normalize_axis_index(a, n)`: `-n ≤ a < n`, negatives count from the end -/
def normAxis (n : Nat) (a : Int) : Except Err Nat :=
  if -(n : Int) ≤ a ∧ a < (n : Int) then .ok (if a < 0 then a + (n : Int) else a).toNat
  else .error .axis

/-- Python `len(set(l)) != len(l)` -/
def hasDup : List Nat → Bool
  | [] => false
  | x :: xs => xs.contains x || hasDup xs

/-- `normalize_axis_tuple(axes, n)`: normalise each, then reject repeated axes with ValueError -/
def normAxisTuple (n : Nat) (axes : List Int) : Except Err (List Nat) := do
  let l ← axes.mapM (normAxis n)
  if hasDup l then .error .value else .ok l

/-! ### transpose by an axis permutation -/

/-- `tuple(l[m] for m in p)` -/
def permute (p : List Nat) (l : List Nat) : List Nat := p.map fun m => l.getD m 0

/-- the source index `j` of result index `idx` under `a.transpose(p)`: `j[p[k]] = idx[k]` -/
def unpermute (p : List Nat) (idx : List Nat) : List Nat :=
  (List.range p.length).map fun m => idx.getD (p.idxOf m) 0

/-- `ndarray.transpose(p)`: `result.shape[k] = a.shape[p[k]]`, `result[idx] = a[j]` with `j[p[k]] = idx[k]` -/
def transpose {α} (a : Arr α) (p : List Nat) : Arr α :=
  ⟨permute p a.shape, fun idx => a.get (unpermute p idx)⟩

/-! ### swapaxes -/

/-- the axis order built by `PyArray_SwapAxes`: identity with `a` and `b` exchanged -/
def swapPerm (n a b : Nat) : List Nat :=
  (List.range n).map fun k => if k = a then b else if k = b then a else k

/-- `numpy.swapaxes(x, a1, a2)` -/
def swapaxes {α} (x : Arr α) (a1 a2 : Int) : Except Err (Arr α) := do
  let n := x.shape.length
  let a ← normAxis n a1
  let b ← normAxis n a2
  pure (transpose x (swapPerm n a b))

/-! ### rollaxis -/

/-- Python `list.insert(i, x)` for `i ≥ 0` (positions past the end append) -/
def pyInsert (l : List Nat) (i : Nat) (x : Nat) : List Nat := l.insertIdx (min i l.length) x

/-- the axis order built by `numpy.rollaxis` once `axis` is normalised and `start` adjusted:
    `axes = list(range(n)); axes.remove(axis); axes.insert(start, axis)` -/
def rollPerm (n axis start : Nat) : List Nat := pyInsert ((List.range n).eraseIdx axis) start axis

/-- `numpy.rollaxis(x, axis, start)` (numeric.py): normalise `axis`; `start < 0 → start += n`;
    require `0 ≤ start ≤ n`; `axis < start → start -= 1`; `axis == start → x` unchanged -/
def rollaxis {α} (x : Arr α) (axis start : Int) : Except Err (Arr α) := do
  let n := x.shape.length
  let a ← normAxis n axis
  let s : Int := if start < 0 then start + (n : Int) else start
  if ¬ (0 ≤ s ∧ s < (n : Int) + 1) then .error .axis
  else
    let s := s.toNat
    let s := if a < s then s - 1 else s
    if a = s then pure x
    else pure (transpose x (rollPerm n a s))

/-! ### moveaxis -/

/-- insert a pair into a list sorted by (dest, src) lexicographically (Python `sorted(zip(..))`) -/
def insPair (p : Nat × Nat) : List (Nat × Nat) → List (Nat × Nat)
  | [] => [p]
  | q :: qs => if p.1 < q.1 ∨ (p.1 = q.1 ∧ p.2 ≤ q.2) then p :: q :: qs else q :: insPair p qs

def sortPairs (l : List (Nat × Nat)) : List (Nat × Nat) := l.foldr insPair []

/-- `order = [n for n in range(ndim) if n not in source];
     for dest, src in sorted(zip(destination, source)): order.insert(dest, src)` -/
def movePerm (n : Nat) (src dst : List Nat) : List Nat :=
  (sortPairs (dst.zip src)).foldl (fun order p => pyInsert order p.1 p.2)
    ((List.range n).filter fun m => !src.contains m)

/-- `numpy.moveaxis(x, source, destination)` -/
def moveaxis {α} (x : Arr α) (source destination : List Int) : Except Err (Arr α) := do
  let n := x.shape.length
  let src ← normAxisTuple n source
  let dst ← normAxisTuple n destination
  if src.length ≠ dst.length then .error .value
  else pure (transpose x (movePerm n src dst))

/-! ### reshape -/

def prodInt (l : List Int) : Int := l.foldr (· * ·) 1

/-- the shape NumPy derives from a `newshape` argument (`_fix_unknown_dimension`): every negative
    entry stands for the unknown dimension (NumPy 2.x does not insist on `-1`); more than one is a
    ValueError; with one, the known product must be non-zero and divide the total; without, the
    product must equal the total. -/
def resolve (total : Nat) (new : List Int) : Except Err Shape :=
  let unknown := new.filter (· < 0)
  let known := new.filter (¬ · < 0)
  let kp := (prodInt known).toNat
  match unknown.length with
  | 0 => if kp = total then .ok (new.map Int.toNat) else .error .value
  | 1 =>
    if kp = 0 ∨ total % kp ≠ 0 then .error .value
    else .ok (new.map fun d => if d < 0 then total / kp else d.toNat)
  | _ => .error .value

/-- `a.reshape(s)` for an already resolved shape (C order): element `i` of the result is element
    `unravel a.shape (ravel s i)` of `a` -/
def reshapeTo {α} (a : Arr α) (s : Shape) : Arr α :=
  ⟨s, fun i => a.get (unravel a.shape (ravel s i))⟩

/-- `numpy.reshape(a, new)` -/
def reshape {α} (a : Arr α) (new : List Int) : Except Err (Arr α) := do
  let s ← resolve (size a.shape) new
  pure (reshapeTo a s)

/-! ### broadcast_to -/

/-- can (reversed) source shape be broadcast to the (reversed) target shape? -/
def bcastOkRev : List Nat → List Nat → Bool
  | [], _ => true
  | _ :: _, [] => false
  | n :: s, m :: t => (n = m || n = 1) && bcastOkRev s t

/-- `numpy.broadcast_to(a, shape)`: negative entries, too few axes or a mismatching axis that is
    not of length 1 are a ValueError -/
def broadcastTo {α} (a : Arr α) (shape : List Int) : Except Err (Arr α) :=
  if shape.any (· < 0) then .error .value
  else
    let t := shape.map Int.toNat
    if bcastOkRev a.shape.reverse t.reverse then .ok (a.bto t) else .error .value

/-! ### basic indexing helpers used by the item operations -/

/-- `a[k]` on the first axis (the caller has checked `k < a.shape[0]`) -/
def take0 {α} (a : Arr α) (k : Nat) : Arr α := ⟨a.shape.tail, fun i => a.get (k :: i)⟩

/-- `a[lo:lo+len]` on the first axis -/
def slice0 {α} (a : Arr α) (lo len : Nat) : Arr α :=
  ⟨len :: a.shape.tail, fun i => match i with
    | [] => a.get []
    | k :: r => a.get ((lo + k) :: r)⟩

/-- Python slice bounds `index1:index2` (step 1) on an axis of length `n`: (start, length) -/
def sliceBounds (n : Nat) (i1 i2 : Int) : Nat × Nat :=
  let clamp : Int → Nat := fun i =>
    if i < 0 then (if i + (n : Int) < 0 then 0 else (i + (n : Int)).toNat)
    else if i > (n : Int) then n else i.toNat
  let lo := clamp i1
  let hi := clamp i2
  (lo, hi - lo)

end PMV.NpShape
