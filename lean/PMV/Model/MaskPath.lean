import PMV.Core.Arr
/-
  C01 view, array level: how the mask of a result is computed from the masks of the operands.

  A polymath mask is EITHER a single Python bool OR a bool array.  Every operator has separate
  branches for the two, merges operand masks with `Qube.or_` (which short-circuits on single
  bools and on `is`), and hands the merged mask to the constructor, whose `_suitable_mask`
  falls back to a read-only `np.broadcast_to` view when the array it was given is smaller than
  the object's shape.  The definitions below are written branch for branch like that code.

  A read-only broadcast view is, for `|`, `np.any` and indexing, an ordinary array whose element
  at `i` is the source element at `bidx src.shape i`; it is represented as `Mask.arr (src.bto shape)`
  (`Mask.view`).

    Qube.or_ / and_                         polymath/qube.py:894-958
    Qube._suitable_mask                     polymath/qube.py:568-621
    constructor mask handling               polymath/qube.py:368-374
    mask_where / mask_where_eq,lt,le,gt     polymath/extensions/mask_ops.py:7-241
    remask_or                               polymath/qube.py:2535-2561
-/
namespace PMV.MaskPath
open PMV

/-- the two representations of a mask (qube.py:105-109) -/
inductive Mask where
  | all (b : Bool)
  | arr (a : Arr Bool)

/-- the read-only view `np.broadcast_to(src, shape)` -/
def Mask.view (src : Arr Bool) (shape : Shape) : Mask := .arr (src.bto shape)

/-- the mask seen from a result index: `np.broadcast_to(mask, result_shape)[i]`.
    A single bool applies everywhere; an array element is found by right-aligned projection. -/
def Mask.atB : Mask → Index → Bool
  | .all b, _ => b
  | .arr a, i => a.get (bidx a.shape i)

/-- the mask is usable for an object of leading shape `s` without further broadcasting -/
def Mask.Fits : Mask → Shape → Prop
  | .all _, _ => True
  | .arr a, s => a.shape = s

/-- `np.any(a)` -/
def anyTrue (a : Arr Bool) : Bool := (indices a.shape).any a.get

/-- `np.any(mask)` for either representation -/
def Mask.any : Mask → Bool
  | .all b => b
  | .arr a => anyTrue a

/-- qube.py:894-926, two-argument form.  `same` is the test `mask0 is mask1`.
    `none` = NumPy's ValueError for shapes that do not broadcast. -/
def or_ (same : Bool) (m0 m1 : Mask) : Option Mask :=
  match m0 with
  | .all b0 => if b0 then some (.all true) else some m1
  | .arr a0 =>
    match m1 with
    | .all b1 => if b1 then some (.all true) else some m0
    | .arr a1 => if same then some m0 else (Arr.map2 (· || ·) a0 a1).map .arr

/-- qube.py:928-958 -/
def and_ (same : Bool) (m0 m1 : Mask) : Option Mask :=
  match m0 with
  | .all b0 => if b0 then some m1 else some (.all false)
  | .arr a0 =>
    match m1 with
    | .all b1 => if b1 then some m0 else some (.all false)
    | .arr a1 => if same then some m0 else (Arr.map2 (· && ·) a0 a1).map .arr

/-- qube.py:919-926: three or more masks by right recursion (no `is` test can succeed on a
    freshly computed intermediate) -/
def orList : List Mask → Option Mask
  | [] => some (.all false)
  | [m] => some m
  | m :: ms => (orList ms).bind fun r => or_ false m r

/-- `self._mask_ | arg._mask_` as written in `_floordiv_by_scalar`, `_mod_by_scalar`
    (qube.py:3601, 3738): Python's `|` on bool/bool, bool/array, array/array -/
def orPipe (m0 m1 : Mask) : Option Mask :=
  match m0, m1 with
  | .all b0, .all b1 => some (.all (b0 || b1))
  | .all b0, .arr a1 => some (.arr (a1.map (b0 || ·)))
  | .arr a0, .all b1 => some (.arr (a0.map (· || b1)))
  | .arr a0, .arr a1 => (Arr.map2 (· || ·) a0 a1).map .arr

/-- qube.py:568-621 with `broadcast=True, collapse=False`.  `check` replaces an all-False array
    of the right shape by the single bool False. -/
def suitableMask (check : Bool) (m : Mask) (shape : Shape) : Option Mask :=
  match m with
  | .all b => some (.all b)
  | .arr a =>
    if a.shape = shape then
      (if check && !anyTrue a then some (.all false) else some (.arr a))
    else if bcast a.shape shape = some shape then some (.arr (a.bto shape))
    else none

/-- the constructor: `mask = Qube.or_(arg_mask, mask)` with `arg_mask = False` for plain values,
    then `_suitable_mask(..., broadcast=True, check=False)` (qube.py:368-374) -/
def ctor (m : Mask) (shape : Shape) : Option Mask :=
  (or_ false (.all false) m).bind fun m' => suitableMask false m' shape

/-- an operand as far as masks are concerned -/
structure Opd where
  shape : Shape
  mask : Mask

/-- `obj[sel] = replacement` as far as the mask is concerned: the replacement is unmasked, so
    the selected elements become unmasked (indexer.py `__setitem__`; a single-bool mask is
    expanded first unless it already is False) -/
def setitemMask (m : Mask) (shape : Shape) (sel : Arr Bool) : Mask :=
  match m with
  | .all false => .all false
  | .all true => .arr ⟨shape, fun i => !sel.get i⟩
  | .arr a => .arr ⟨a.shape, fun i => a.get i && !sel.get i⟩

/-- qube.py:2535-2561 (mask part): `_suitable_mask(mask, shape, check=True)` then
    `_set_mask_(Qube.or_(self._mask_, mask))` -/
def remaskOr (m : Mask) (shape : Shape) (sel : Mask) : Option Mask :=
  (suitableMask true sel shape).bind fun s =>
    (or_ false m s).bind fun r => suitableMask false r shape

/-- mask_ops.py:7-74, mask part.  `sel` is the Boolean array computed from the values
    (`values == 0`, `values < 0`, …; a single bool for a shapeless object), `replace` says whether
    a replacement value is given. -/
def maskWhere (o : Opd) (sel : Mask) (replace : Bool) : Option Mask :=
  (suitableMask false sel o.shape).bind fun sel' =>
    let anySel := sel'.any
    if !anySel then some o.mask                       -- "return the object as is"
    else if o.shape = [] then some (.all true)        -- shapeless: `obj.remask(True)`
    else if !replace then remaskOr o.mask o.shape sel'
    else
      match sel' with
      | .all _ => remaskOr o.mask o.shape sel'        -- (cannot happen for shape ≠ ())
      | .arr s => remaskOr (setitemMask o.mask o.shape s) o.shape sel'

/-- did `mask_where` select anything (`np.any(mask)` after `_suitable_mask`) -/
def selAny (o : Opd) (sel : Mask) : Bool :=
  match suitableMask false sel o.shape with
  | some (.all b) => b
  | some (.arr a) => anyTrue a
  | none => false

/-- the distinct mask-handling code paths of the arithmetic / math / product API -/
inductive Path where
  /-- `clone()` + `_set_values_` (number fast paths qube.py:2882-2885, `__neg__`, `__abs__`,
      `_mul_by_number`, `_div_by_number` with a non-zero number) -/
  | cloneSet
  /-- `_div_by_number`, `_floordiv_by_number`, `_mod_by_number` with the number 0:
      `obj._set_mask_(True)` (qube.py:3415-3417) -/
  | setTrue
  /-- unary constructor hand-over `Scalar(f(values), mask=self._mask_)` (sin, cos, tan, arctan,
      easy powers, `Boolean.as_int/as_float`, `Matrix3.x/y/z_rotation`, norm, norm_sq) -/
  | ctor1
  /-- `Qube.or_(a, b)` handed to the constructor (`+ - *`, dot, cross, outer, element_mul,
      arctan2, quaternion product, `pole_rotation`) -/
  | ctorOr (same : Bool)
  /-- three masks merged after `Qube.broadcast` (`from_euler`, matrix3.py:519) -/
  | ctorOr3
  /-- `_div_by_scalar` (qube.py:3424-3446): `arg.mask_where_eq(0., 1.)` then `or_` -/
  | divScalar (same : Bool)
  /-- `_floordiv_by_scalar`, `_mod_by_scalar` (qube.py:3586-3606, 3722-3744): as before but
      merged with `|` -/
  | divPipe
  /-- sqrt / log / exp(check=True) / reciprocal: `mask_where_xx(limit, replace=…)`, then the
      constructor receives `no_negs._mask_` (scalar.py:551-673, 1301-1343) -/
  | guard
  /-- arcsin / arccos (check=True), scalar.py:398-412 -/
  | guardAsin
  /-- `Scalar.__pow__`, shape-() branch (scalar.py:1566-1576, repaired) -/
  | pow0D (same : Bool)
  /-- `Scalar.__pow__`, array branch (scalar.py:1579-1601) -/
  | powArr (same : Bool)
  /-- `Vector.element_div` (vector.py:668-693) -/
  | elementDiv (same : Bool)
  /-- `Matrix.inverse` (matrix.py:346-366) -/
  | matInverse

/-- `fail` is the failure set computed from the values, on the shape the code computes it on
    (the divisor's shape for the divisions, the operand's own shape for the guards, the result
    shape for `powArr`; a single bool for shapeless operands and for `pow0D`). -/
def run (p : Path) (ops : List Opd) (fail : Mask) : Option (Shape × Mask) :=
  match p, ops with
  | .cloneSet, [a] => some (a.shape, a.mask)
  | .setTrue, [a] => (suitableMask false (.all true) a.shape).map fun m => (a.shape, m)
  | .ctor1, [a] => (ctor a.mask a.shape).map fun m => (a.shape, m)
  | .ctorOr same, [a, b] =>
    (bcast a.shape b.shape).bind fun out =>
      (or_ same a.mask b.mask).bind fun m => (ctor m out).map fun m' => (out, m')
  | .ctorOr3, [a, b, c] =>
    (bcast b.shape c.shape).bind fun bc => (bcast a.shape bc).bind fun out =>
      (orList [a.mask, b.mask, c.mask]).bind fun m => (ctor m out).map fun m' => (out, m')
  | .divScalar same, [a, b] =>
    (bcast a.shape b.shape).bind fun out =>
      (maskWhere b fail true).bind fun bm =>
        -- `mask0 is mask1` can only hold if mask_where returned the divisor itself
        (or_ (same && !selAny b fail) a.mask bm).bind fun m => (ctor m out).map fun m' => (out, m')
  | .divPipe, [a, b] =>
    (bcast a.shape b.shape).bind fun out =>
      (maskWhere b fail true).bind fun bm =>
        (orPipe a.mask bm).bind fun m => (ctor m out).map fun m' => (out, m')
  | .guard, [a] =>
    (maskWhere a fail true).bind fun m => (ctor m a.shape).map fun m' => (a.shape, m')
  | .guardAsin, [a] =>
    -- temp_mask = (values < -1) | (values > 1); if np.any(temp_mask): if is_one_true(temp_mask):
    -- mask True  else: temp_mask = or_(self._mask_, temp_mask)  else: temp_mask = self._mask_
    let anyF := fail.any
    let m := if anyF then
        (match fail with
         | .all _ => some (.all true)
         | .arr _ => or_ false a.mask fail)
      else some a.mask
    m.bind fun m => (ctor m a.shape).map fun m' => (a.shape, m')
  | .pow0D same, [a, e] =>
    -- exception or complex result: `masked_single()`; else or_ of the two single bools
    if a.shape = [] ∧ e.shape = [] then
      let anyF := fail.any
      if anyF then some ([], .all true)
      else (or_ same a.mask e.mask).bind fun m => (ctor m []).map fun m' => ([], m')
    else none
  | .powArr same, [a, e] =>
    (bcast a.shape e.shape).bind fun out =>
      (or_ same a.mask e.mask).bind fun m =>
        let anyF := fail.any
        (if anyF then or_ false m fail else some m).bind fun m2 =>
          (ctor m2 out).map fun m' => (out, m')
  | .elementDiv same, [a, b] =>
    (bcast a.shape b.shape).bind fun out =>
      let anyF := fail.any
      (if anyF then or_ false b.mask fail else some b.mask).bind fun dm =>
        (or_ (same && !anyF) a.mask dm).bind fun m => (ctor m out).map fun m' => (out, m')
  | .matInverse, [a] =>
    let anyF := fail.any
    (if anyF then or_ false a.mask fail else some a.mask).bind fun m =>
      (ctor m a.shape).map fun m' => (a.shape, m')
  | _, _ => none

/-- `np.broadcast_to(mask, shape)` on either representation (a single bool stays a single bool) -/
def Mask.bto (m : Mask) (shape : Shape) : Mask :=
  match m with
  | .all b => .all b
  | .arr a => .arr (a.bto shape)

/-- `Matrix3.__mul__` (matrix3.py:344-382, repaired): when the right operand has item rank 0 the
    Scalar is "rotated", i.e. returned — broadcast to the common leading shape
    (`Qube.broadcasted_shape`, ValueError for incompatible shapes) and, if the matrix is masked
    anywhere (`np.any(self._mask_)`), with the matrix's mask OR-ed in by `remask_or`; everything
    else goes to `Qube.__mul__` (→ `Qube.dot` → `or_` + constructor). -/
def matrix3Mul (argIsScalar : Bool) (r x : Opd) : Option (Shape × Mask) :=
  if argIsScalar then
    (bcast r.shape x.shape).bind fun out =>
      let xm := if out = x.shape then x.mask else x.mask.bto out     -- arg.broadcast_to(shape).copy()
      if r.mask.any then (remaskOr xm out (r.mask.bto out)).map fun m => (out, m)
      else some (out, xm)
  else run (.ctorOr false) [r, x] (.all false)

/-! ### in-place operators `+= -= *= /= //= %=` (qube.py `__iadd__` … `__imod__`)

They update `self`: the operand must broadcast INTO the target (`_require_broadcast_into`,
ValueError otherwise), the values are updated in place and the operand's mask is merged with
`_merge_mask_`; the matrix forms compute the out-of-place product and commit it with
`_set_values_(values, mask)`. -/

/-- `_merge_mask_` (qube.py:1189-1204): `Qube.or_(self._mask_, mask)`, then an array of another
    shape is broadcast to the target's shape and copied -/
def mergeMask (a : Opd) (m : Mask) : Option Mask :=
  (or_ false a.mask m).bind fun r =>
    match r with
    | .all b => some (.all b)
    | .arr x =>
      if x.shape = a.shape then some (.arr x)
      else if bcast x.shape a.shape = some a.shape then some (.arr (x.bto a.shape))
      else none

inductive InPlace where
  /-- a Python number (non-zero for the divisions): values updated, mask untouched -/
  | number
  /-- `+= -= *=` with a Qube operand: `_merge_mask_(arg._mask_)` -/
  | merge
  /-- `/=`: `self.__imul__(arg.reciprocal())` — the guarded reciprocal, then merge -/
  | divMerge
  /-- `//= %=`: `divisor = arg.mask_where_eq(0, 1)`, then `_merge_mask_(divisor._mask_)` -/
  | pipeMerge
  /-- matrix `*=`: `Qube.dot` then `_set_values_(result._values_, result._mask_)` -/
  | matmul
  /-- matrix `/=`: the inverse of the right operand, then the matrix `*=` -/
  | matdiv

/-- `_require_broadcast_into` -/
def into (a b : Opd) : Bool := bcast a.shape b.shape == some a.shape

def runInPlace (k : InPlace) (a b : Opd) (fail : Mask) : Option (Shape × Mask) :=
  match k with
  | .number => some (a.shape, a.mask)
  | .merge => if into a b then (mergeMask a b.mask).map fun m => (a.shape, m) else none
  | .divMerge =>
    (run .guard [b] fail).bind fun r =>
      if into a b then (mergeMask a r.2).map fun m => (a.shape, m) else none
  | .pipeMerge =>
    (maskWhere b fail true).bind fun bm =>
      if into a b then (mergeMask a bm).map fun m => (a.shape, m) else none
  | .matmul =>
    (run (.ctorOr false) [a, b] (.all false)).bind fun r =>
      if r.1 = a.shape then some r else none          -- `_set_values_`: shapes must match
  | .matdiv =>
    (run .matInverse [b] fail).bind fun rb =>
      (run (.ctorOr false) [a, ⟨rb.1, rb.2⟩] (.all false)).bind fun r =>
        if r.1 = a.shape then some r else none

/-- the shape on which the code computes the failure set of a path, and the result shape -/
def Path.shapes (p : Path) (ops : List Opd) : Option (Shape × Shape) :=
  match p, ops with
  | .cloneSet, [a] | .setTrue, [a] | .ctor1, [a] | .guard, [a] | .guardAsin, [a]
  | .matInverse, [a] => some (a.shape, a.shape)
  | .ctorOr _, [a, b] => (bcast a.shape b.shape).map fun o => (o, o)
  | .ctorOr3, [a, b, c] =>
    (bcast b.shape c.shape).bind fun bc => (bcast a.shape bc).map fun o => (o, o)
  | .divScalar _, [a, b] | .divPipe, [a, b] | .elementDiv _, [a, b] =>
    (bcast a.shape b.shape).map fun o => (b.shape, o)
  | .pow0D _, [_, _] => some ([], [])
  | .powArr _, [a, e] => (bcast a.shape e.shape).map fun o => (o, o)
  | _, _ => none

/-- the failure set of a path seen from a result index: nothing for the paths that cannot fail,
    everything for `setTrue` (division by the number 0), the broadcast failure array otherwise -/
def Path.failAt (p : Path) (fail : Mask) (i : Index) : Bool :=
  match p with
  | .cloneSet | .ctor1 | .ctorOr _ | .ctorOr3 => false
  | .setTrue => true
  | _ => fail.atB i

/-- the `is` shortcut is only taken when the two masks really are one object -/
def Path.SameOK (p : Path) (ops : List Opd) : Prop :=
  match p, ops with
  | .ctorOr true, [a, b] | .divScalar true, [a, b] | .pow0D true, [a, b] | .powArr true, [a, b]
  | .elementDiv true, [a, b] => a.mask = b.mask
  | _, _ => True

/-- the failure set has the shape the code computes it on -/
def Path.FailFits (p : Path) (ops : List Opd) (fail : Mask) : Prop :=
  match p.shapes ops with
  | some (fs, _) => fail.Fits fs
  | none => True

/-! ### expression trees over the paths -/

/-- an expression: leaves are operands, nodes apply a unary or binary path whose failure set
    (computed by the code from the values) is attached to the node -/
inductive MExpr where
  | leaf (o : Opd)
  | un (p : Path) (fail : Mask) (e : MExpr)
  | bin (p : Path) (fail : Mask) (e1 e2 : MExpr)

def MExpr.eval : MExpr → Option Opd
  | .leaf o => some o
  | .un p f e => e.eval.bind fun a => (run p [a] f).map fun r => ⟨r.1, r.2⟩
  | .bin p f e1 e2 =>
    e1.eval.bind fun a => e2.eval.bind fun b => (run p [a, b] f).map fun r => ⟨r.1, r.2⟩

/-- the leading shape of an expression's value -/
def MExpr.shape : MExpr → Option Shape
  | .leaf o => some o.shape
  | .un _ _ e => e.shape
  | .bin _ _ e1 e2 => e1.shape.bind fun s1 => e2.shape.bind fun s2 => bcast s1 s2

/-- the specification: an element of the result is masked iff an element of a sub-expression
    that broadcasts onto it is masked (recursively down to the leaves) or the node failed there -/
def MExpr.spec : MExpr → Index → Bool
  | .leaf o, i => o.mask.atB i
  | .un p f e, i => e.spec i || p.failAt f i
  | .bin p f e1 e2, i =>
    e1.spec (bidx (e1.shape.getD []) i) || e2.spec (bidx (e2.shape.getD []) i) || p.failAt f i

/-- the flattened specification: an element is masked iff SOME LEAF that broadcasts onto it is
    masked there or SOME NODE failed there — every leaf mask and every failure set looked up
    directly from the result index (`atB` = `np.broadcast_to(·, result_shape)[i]`) -/
def MExpr.flat : MExpr → Index → Bool
  | .leaf o, i => o.mask.atB i
  | .un p f e, i => e.flat i || p.failAt f i
  | .bin p f e1 e2, i => e1.flat i || e2.flat i || p.failAt f i

/-- leaves carry masks of their own shape; failure sets have the shape the code computes them
    on; `is` shortcuts only between identical masks -/
def MExpr.WF : MExpr → Prop
  | .leaf o => o.mask.Fits o.shape
  | .un p f e => e.WF ∧ ∀ a, e.eval = some a → p.FailFits [a] f ∧ p.SameOK [a]
  | .bin p f e1 e2 => e1.WF ∧ e2.WF ∧
      ∀ a b, e1.eval = some a → e2.eval = some b → p.FailFits [a, b] f ∧ p.SameOK [a, b]

end PMV.MaskPath
