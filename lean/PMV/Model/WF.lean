import PMV.Core.Shape
import PMV.Gen.ClassTable
/-
  C05 view: structural well-formedness of polymath objects.

  `ObjDump` is what the harness reads off a real object (harness/c05_dump.py): class, numeric kind, shapes of the
  two arrays, their WRITEABLE flags, the bookkeeping attributes, the default value's shape and kind, whether units
  are present, the read-only flag, the derivative dictionary (recursively dumped) and the `d_d<key>` attributes.
  `wfClauses` is the conjunction of the property statement, clause by clause; the class constraints come from the
  REGENERATED table `PMV.Gen.classInfo`.

  The second half is a code-shaped model, at the level of dumps, of the code that creates and modifies objects:
    Qube.__init__ and its helpers            polymath/qube.py:233-428, 566-621, 855-890
    insert_deriv(s), delete_deriv(s), without_deriv(s), wod        qube.py:1473-1683
    clone, copy, as_readonly, as_float, broadcast_to               qube.py:968-1020, 1915-2010, 2099-2130, 4532-4620
    _set_values_, _set_mask_                                       qube.py:1104-1223
    __setstate__                                                   extensions/pickler.py:945-1062
  The numeric content of the arrays is NOT modelled: an array is its shape, kind and WRITEABLE flag.  Whatever the
  numeric code computes enters the model as an arbitrary `RawArr`.
-/
namespace PMV.WF
open PMV PMV.Gen

/-- numeric kind of a values entry: polymath's "float" | "int" | "bool"; `other` = any other dtype -/
inductive Kind where
  | float | int | bool | other
  deriving DecidableEq, Repr, Inhabited

/-- the `_mask_` attribute as found -/
inductive MaskD where
  | scalar (b : Bool)                                         -- a single Python bool
  | npbool (b : Bool)                                         -- a numpy.bool_ (not a Python bool)
  | array (shape : List Nat) (isBool : Bool) (writable : Bool)
  | other
  deriving DecidableEq, Repr, Inhabited

/-- everything about one object except its derivatives -/
structure Body where
  cls : Cls
  kind : Kind
  varr : Bool                 -- `_values_` is an ndarray (else a Python scalar)
  vshape : List Nat
  vwritable : Bool
  mask : MaskD
  shape : List Nat
  numer : List Nat
  denom : List Nat
  item : List Nat
  rank : Nat
  nrank : Nat
  drank : Nat
  size : Nat
  isize : Nat
  nsize : Nat
  dsize : Nat
  dshape : List Nat           -- shape of `_default_`
  dkind : Kind                -- kind of `_default_`
  units : Bool                -- `_units_ is not None`
  readonly : Bool
  complete : Bool             -- every bookkeeping attribute exists and has the expected Python type
  deriving DecidableEq, Repr, Inhabited

/-- an object with its derivative dictionary and its `d_d*` attributes; the flag of an attribute says that it is
    the very object stored under that key in `_derivs_` -/
structure ObjDump where
  body : Body
  derivs : List (String × ObjDump)
  attrs : List (String × Bool)
  deriving Repr, Inhabited

/-! ### the predicate -/

def kindOk (c : Cls) : Kind → Bool
  | .float => (classInfo c).floatsOk
  | .int => (classInfo c).intsOk
  | .bool => (classInfo c).boolsOk
  | .other => false

def maskOk (m : MaskD) (shape : List Nat) : Bool :=
  match m with
  | .scalar _ => true
  | .array s isBool _ => isBool && s == shape
  | _ => false

def roArraysOk (b : Body) : Bool :=
  !b.readonly || ((!b.varr || !b.vwritable) &&
    (match b.mask with | .array _ _ w => !w | _ => true))

def optAll {α} (o : Option α) (p : α → Bool) : Bool :=
  match o with
  | none => true
  | some x => p x

/-- the eleven clauses that concern one object by itself (`hasDerivs`: its `_derivs_` is not empty) -/
def bodyClauses (b : Body) (hasDerivs : Bool) : List Bool :=
  [ b.complete && (b.varr || b.vshape.isEmpty),      -- (a Python scalar has shape ())
    b.vshape == b.shape ++ b.numer ++ b.denom,
    maskOk b.mask b.shape,
    b.nrank == b.numer.length && b.drank == b.denom.length && b.rank == b.nrank + b.drank
      && b.item == b.numer ++ b.denom,
    b.size == size b.shape && b.isize == size b.item && b.nsize == size b.numer && b.dsize == size b.denom,
    b.dshape == b.item && b.dkind == b.kind,
    optAll (classInfo b.cls).nrank (fun n => b.numer.length == n) && optAll (classInfo b.cls).numer (fun n => b.numer == n),
    kindOk b.cls b.kind,
    !b.units || (classInfo b.cls).unitsOk,
    (!hasDerivs && b.denom.isEmpty) || (classInfo b.cls).derivsOk,
    roArraysOk b ]

def bodyOk (b : Body) (hasDerivs : Bool) : Bool := (bodyClauses b hasDerivs).all id

/-- the same keys as attributes and as dictionary entries, each attribute being the dictionary's object
    (the harness sends both lists sorted by key) -/
def attrsOk (derivs : List (String × ObjDump)) (attrs : List (String × Bool)) : Bool :=
  derivs.map (·.1) == attrs.map (·.1) && attrs.all (·.2)

/-- the seventeen clauses of the property, in the order of `CLAUSES` in harness/c05_dump.py -/
def wfClauses (o : ObjDump) : List Bool :=
  bodyClauses o.body (!o.derivs.isEmpty) ++
  [ o.derivs.all (fun d => d.2.body.kind == .float),
    o.derivs.all (fun d => d.2.body.shape == o.body.shape && d.2.body.numer == o.body.numer),
    o.derivs.all (fun d => d.2.derivs.isEmpty && d.2.attrs.isEmpty),
    attrsOk o.derivs o.attrs,
    !o.body.readonly || o.derivs.all (fun d => d.2.body.readonly),
    o.derivs.all (fun d => bodyOk d.2.body (!d.2.derivs.isEmpty)) ]

def WF (o : ObjDump) : Bool := (wfClauses o).all id

/-- what `WF` demands of one derivative `d` of a parent with body `p` -/
def derivOk (p : Body) (d : ObjDump) : Bool :=
  d.body.kind == .float && d.body.shape == p.shape && d.body.numer == p.numer && d.derivs.isEmpty && d.attrs.isEmpty
  && (!p.readonly || d.body.readonly) && bodyOk d.body false

/-! ### NumPy shape helpers -/

/-- `np.broadcast_to(array of shape src, dst)` succeeds (reversed shapes) -/
def bcastToRev : List Nat → List Nat → Bool
  | [], _ => true
  | _ :: _, [] => false
  | x :: xs, y :: ys => (x == y || x == 1) && bcastToRev xs ys

def bcastTo (src dst : List Nat) : Bool := bcastToRev src.reverse dst.reverse

/-! ### raw inputs -/

/-- an array-like value as the numeric code hands it over: Python scalar (`isArr = false`, shape `[]`) or ndarray -/
structure RawArr where
  isArr : Bool
  shape : List Nat
  kind : Kind
  writable : Bool
  deriving DecidableEq, Repr, Inhabited

def RawArr.norm (a : RawArr) : RawArr := if a.isArr then a else { a with shape := [], writable := true }

inductive RawArg where
  | val (a : RawArr)          -- number or ndarray
  | qube (o : ObjDump)
  | bad                       -- any other type: TypeError
  deriving Repr, Inhabited

inductive RawMask where
  | bool (b : Bool)           -- bool, None, number
  | arr (shape : List Nat) (isBool : Bool) (writable : Bool)    -- exact ndarray
  | bad
  deriving DecidableEq, Repr, Inhabited

inductive RawUnits where
  | none | false_ | some
  deriving DecidableEq, Repr, Inhabited

structure CtorIn where
  cls : Cls
  arg : RawArg
  mask : RawMask
  derivs : Option (List (String × ObjDump))     -- `none` = the argument `derivs=None`
  units : RawUnits
  nrank : Option Int
  drank : Option Int
  exmpl : Option ObjDump
  dflt : Option (List Nat × Kind)
  deriving Repr, Inhabited

abbrev R := Option         -- `none` = the call raises

/-! ### constructor helpers -/

/-- qube.py:731-775 `_suitable_dtype` for the three names -/
def suitableKind (c : Cls) : Kind → Kind
  | .float => if (classInfo c).floatsOk then .float else if (classInfo c).intsOk then .int else .bool
  | .int => if (classInfo c).intsOk then .int else if (classInfo c).floatsOk then .float else .bool
  | .bool => if (classInfo c).boolsOk then .bool else if (classInfo c).intsOk then .int else .float
  | .other => .other

/-- qube.py:777-806 `_suitable_numer` with a given numerator -/
def suitableNumer (c : Cls) (numer : List Nat) : R (List Nat) :=
  if !optAll (classInfo c).numer (fun n => numer == n) then none
  else if !optAll (classInfo c).nrank (fun n => numer.length == n) then none
  else some numer

/-- qube.py:644-646: a 0-d array is read as the Python scalar it holds -/
def squeeze0 (v : RawArr) : RawArr :=
  if v.isArr && v.shape.isEmpty then { v with isArr := false, writable := true } else v

/-- qube.py:679-729 `_casted_to_dtype`: a cast makes a new, writable array; no cast returns the argument -/
def castTo (k : Kind) (v : RawArr) : RawArr :=
  if k != v.kind then { v with kind := k, writable := true } else v

/-- qube.py:808-853 `_suitable_value`: dtype check, cast to the class's dtype when needed, numerator check,
    expansion to the item shape -/
def suitableValue (c : Cls) (v : RawArr) (numer denom : List Nat) : R RawArr :=
  if v.kind == .other then none else
  match suitableNumer c numer with
  | none => none
  | some numer' =>
    let w := castTo (suitableKind c v.kind) (squeeze0 v)
    if w.shape.length < (numer' ++ denom).length then some ⟨true, numer' ++ denom, w.kind, true⟩ else some w

/-- qube.py:496-560 `_as_mask` on the argument kinds modelled -/
def asMask : RawMask → R MaskD
  | .bool b => some (.scalar b)
  | .arr s isBool w => some (if isBool then .array s true w else .array s true true)
  | .bad => none

/-- qube.py:893-926 `or_` of the argument's own mask and the converted `mask` argument -/
def orMask (m0 m1 : MaskD) : R MaskD :=
  match m0, m1 with
  | .scalar b, m1 => if b then some (.scalar true) else some m1
  | .npbool b, m1 => if b then some (.scalar true) else some m1
  | m0, .scalar b => if b then some (.scalar true) else some m0
  | m0, .npbool b => if b then some (.scalar true) else some m0
  | .array s0 b0 _, .array s1 b1 _ =>
    match bcast s0 s1 with
    | some s => some (.array s (b0 && b1) true)
    | none => none
  | _, _ => none

/-- qube.py:566-621 `_suitable_mask(mask, shape, broadcast=True, collapse=False, check=False)` -/
def suitableMask (m : MaskD) (shape : List Nat) : R MaskD :=
  match m with
  | .scalar b => some (.scalar b)
  | .npbool b => some (.scalar b)
  | .array s _ w =>
    -- `_as_mask` turns a non-bool array into a fresh bool array
    if s == shape then some (.array s true w)
    else if bcastTo s shape then some (.array shape true false)
    else none
  | .other => none

def maskToReadonly : MaskD → MaskD
  | .array s b _ => .array s b false
  | m => m

def bodyValues (b : Body) : RawArr := ⟨b.varr, b.vshape, b.kind, b.vwritable⟩

/-- qube.py:452-494 `_as_values_and_mask` -/
def asValuesAndMask : RawArg → R (RawArr × MaskD)
  | .val a => some (a.norm, .scalar false)
  | .qube o => some ((bodyValues o.body).norm, o.body.mask)
  | .bad => none

def optOr {α} (a b : Option α) : Option α := match a with | some x => some x | none => b

/-- `x or y or 0` on optional ints -/
def orInt (a : Option Int) (b : Option Nat) : Int :=
  match a with
  | some x => if x != 0 then x else (match b with | some y => (y : Int) | none => 0)
  | none => (match b with | some y => (y : Int) | none => 0)

/-- the keyword arguments after the two "defaults" blocks of the constructor -/
structure Resolved where
  units : RawUnits
  nrank : Option Int
  drank : Option Int
  dflt : Option (List Nat × Kind)
  bad : Bool                  -- nrank / drank given and incompatible with a Qube argument: raises
  deriving Repr, Inhabited

/-- defaults from a Qube argument (qube.py:288-311) -/
def fromArg (i : CtorIn) : Resolved :=
  match i.arg with
  | .qube a =>
    { units := if i.units == RawUnits.none then (if a.body.units then RawUnits.some else RawUnits.none) else i.units,
      nrank := optOr i.nrank (some a.body.nrank),
      drank := optOr i.drank (some a.body.drank),
      dflt := optOr i.dflt (some (a.body.dshape, a.body.dkind)),
      bad := (match i.nrank with | some n => n != a.body.nrank | none => false) ||
             (match i.drank with | some n => n != a.body.drank | none => false) }
  | _ => { units := i.units, nrank := i.nrank, drank := i.drank, dflt := i.dflt, bad := false }

/-- defaults from the example (qube.py:314-334) -/
def fromExample (i : CtorIn) (r : Resolved) : Resolved :=
  match i.exmpl with
  | some e =>
    { r with
      units := if r.units == RawUnits.none && (classInfo i.cls).unitsOk
               then (if e.body.units then RawUnits.some else RawUnits.none) else r.units,
      nrank := if r.nrank.isNone && (classInfo i.cls).nrank.isNone then some (e.body.nrank : Int) else r.nrank,
      drank := optOr r.drank (some e.body.drank),
      dflt := optOr r.dflt (some (e.body.dshape, e.body.dkind)) }
  | none => r

def derivsGiven (i : CtorIn) : Bool :=
  match i.derivs with
  | some l => !l.isEmpty
  | none => (match i.arg with | .qube a => !a.derivs.isEmpty | _ => false)

/-- shape of the default value (qube.py:413-424) -/
def defaultShape (info : ClsInfo) (dflt : Option (List Nat × Kind)) (drank : Nat) (item : List Nat) : List Nat :=
  let cls := match info.dflt with | some d => (if drank == 0 then d else item) | none => item
  match dflt with
  | some (s, _) => if s == item then s else cls
  | none => cls

/-- the attribute assignments of qube.py:366-399 and 413-427: `l` is the shape of the values array, split into
    shape / numer / denom by the two ranks; the read-only state follows the values array, and the mask with it -/
def assemble (cls : Cls) (v : RawArr) (m : MaskD) (l : List Nat) (nrank drank : Nat) (dshape : List Nat)
    (units : Bool) : Body :=
  let dd := l.length - drank
  let nn := dd - nrank
  let ro := v.isArr && !v.writable
  { cls := cls, kind := v.kind, varr := v.isArr, vshape := v.shape, vwritable := v.writable,
    mask := if ro then maskToReadonly m else m,
    shape := l.take nn, numer := (l.drop nn).take nrank, denom := l.drop dd, item := l.drop nn,
    rank := nrank + drank, nrank := nrank, drank := drank,
    size := size (l.take nn), isize := size (l.drop nn), nsize := size ((l.drop nn).take nrank), dsize := size (l.drop dd),
    dshape := dshape, dkind := v.kind, units := units, readonly := ro, complete := true }

/-- validation and construction (qube.py:337-427) with the resolved keyword arguments -/
def build (i : CtorIn) (r : Resolved) : R Body :=
  let info := classInfo i.cls
  let nrank : Int := orInt r.nrank info.nrank
  let drank : Int := orInt r.drank none
  if nrank < 0 || drank < 0 then none else
  if derivsGiven i && !info.derivsOk then none else
  if r.units == RawUnits.some && !info.unitsOk then none else
  if !optAll info.nrank (fun n => nrank == n) then none else
  if drank != 0 && !info.derivsOk then none else
  let nrank := nrank.toNat
  let drank := drank.toNat
  -- values and shapes (qube.py:363-378)
  match asValuesAndMask i.arg with
  | none => none
  | some (values, argMask) =>
  if values.shape.length < nrank + drank then none else
  let dd := values.shape.length - drank
  let nn := dd - nrank
  let denom := values.shape.drop dd
  let numer := (values.shape.drop nn).take nrank
  let item := values.shape.drop nn
  let shape := values.shape.take nn
  match suitableValue i.cls values numer denom with
  | none => none
  | some v =>
  -- mask (qube.py:381-386)
  match asMask i.mask with
  | none => none
  | some m1 =>
  match orMask argMask m1 with
  | none => none
  | some m2 =>
  match suitableMask m2 shape with
  | none => none
  | some m =>
  -- default (qube.py:413-427): a given default of the item's shape must be castable to the values' kind
  let dOther : Bool := match r.dflt with | some (s, k) => s == item && k == Kind.other | none => false
  -- (`_casted_to_dtype` to "bool" is `arg != 0`, which never raises)
  if dOther && v.kind != Kind.bool then none else
  some (assemble i.cls v m values.shape nrank drank (defaultShape info r.dflt drank item) (r.units == RawUnits.some))

/-- vector.py:28-40 `Vector.__init__` (inherited by Vector3, Pair, Quaternion, Polynomial): a Python number becomes
    an array of shape (1,) before the default constructor runs -/
def vecVal (c : Cls) (a : RawArr) : RawArr :=
  if (classInfo c).scalarToArr && !a.isArr then ⟨true, [1], a.kind, true⟩ else a

def vectorArg (c : Cls) : RawArg → RawArg
  | .val a => .val (vecVal c a)
  | x => x

/-- qube.py:233-428 without the installation of derivatives.  Returns the new object (no derivatives yet). -/
def ctorCore (i : CtorIn) : R Body :=
  let i := { i with arg := vectorArg i.cls i.arg }
  let r := fromArg i
  if r.bad then none else build i (fromExample i r)

/-! ### derivative operations -/

def bare (b : Body) : ObjDump := ⟨b, [], []⟩

/-- qube.py:968-1020 `clone(recursive=False)`: every attribute but derivatives, `d_d*` and cache -/
def cloneBare (o : ObjDump) : ObjDump := bare o.body

def maskRaw : MaskD → RawMask
  | .scalar b => .bool b | .npbool b => .bool b | .array s b w => .arr s b w | .other => .bad

/-- the twin built by the `wod` property for an object WITH derivatives: `wod.__init__(self._values_, self._mask_,
    example=self)` and then every attribute copied over.  The constructor call has one lasting effect: when the
    values array is not writable it freezes the mask array it was handed, which is the object's own mask. -/
def wodBody (b : Body) : Body :=
  if b.varr && !b.vwritable then { b with mask := maskToReadonly b.mask } else b

/-- `obj.wod` as used by insert_deriv: the object itself (no derivatives; a shallow copy is stored later) or the twin -/
def wodOf (o : ObjDump) : ObjDump := bare (if o.derivs.isEmpty then o.body else wodBody o.body)

/-- qube.py:2099-2130 `as_float()` of an object without derivatives -/
def asFloat (o : ObjDump) : R ObjDump :=
  if o.body.kind == .float then some o
  else if !(classInfo o.body.cls).floatsOk then none
  else
    (ctorCore { cls := o.body.cls, arg := .val ⟨o.body.varr, o.body.vshape, .float, true⟩,
                mask := maskRaw o.body.mask,
                derivs := some [], units := .none, nrank := none, drank := none, exmpl := some o, dflt := none }).map bare

/-- qube.py:1915-1953 `as_readonly()` on the arrays and the flag of one object -/
def bodyReadonly (b : Body) : Body :=
  if b.readonly then b else { b with vwritable := if b.varr then false else b.vwritable, mask := maskToReadonly b.mask, readonly := true }

/-- qube.py:4584-4590: the values for `broadcast_to(())` -/
def toShapelessValues (b : Body) : R RawArr :=
  if b.rank == 0 then
    (if b.varr then (if size b.vshape == 1 then some ⟨false, [], b.kind, true⟩ else none)
     else some (bodyValues b).norm)
  else if b.varr && size b.vshape == size b.item then some ⟨true, b.item, b.kind, b.vwritable⟩ else none

/-- qube.py:4592-4595: the mask for `broadcast_to(())` is `bool(mask.ravel()[0])`: some Python bool -/
def toShapelessMask (b : Body) : R RawMask :=
  match b.mask with
  | .scalar m => some (.bool m) | .npbool m => some (.bool m)
  | .array s _ _ => if size s == 0 then none else some (.bool false)
  | .other => none

/-- qube.py:4616-4623: the mask broadcast to a shape -/
def broadcastMask (b : Body) (shape : List Nat) : R RawMask :=
  match b.mask with
  | .scalar m => some (.bool m) | .npbool m => some (.bool m)
  | .array s isBool _ => if bcastTo s shape then some (.arr shape isBool false) else none
  | .other => none

/-- qube.py:4532-4620 `broadcast_to(shape)` of an object without derivatives, `shape` differing from its own -/
def broadcastTo (o : ObjDump) (shape : List Nat) : R ObjDump :=
  let b := o.body
  if shape == b.shape then some o else
  if shape.isEmpty then
    -- special case: broadcast to () (qube.py:4583-4599)
    match toShapelessValues b, toShapelessMask b with
    | some v, some m =>
      (ctorCore { cls := b.cls, arg := .val v, mask := m, derivs := some [], units := .none, nrank := none,
                  drank := none, exmpl := some o, dflt := none }).map bare
    | _, _ => none
  else
    let vshape := if b.varr then b.vshape else [1]
    if !bcastTo vshape (shape ++ b.item) then none else
    match broadcastMask b shape with
    | none => none
    | some m =>
      (ctorCore { cls := b.cls, arg := .val ⟨true, shape ++ b.item, b.kind, false⟩, mask := m, derivs := some [],
                  units := .none, nrank := none, drank := none, exmpl := some o, dflt := none }).map
        fun r => bare (bodyReadonly r)

def setAssoc {β} (k : String) (v : β) : List (String × β) → List (String × β)
  | [] => [(k, v)]
  | (k', v') :: t => if k' == k then (k, v) :: t else (k', v') :: setAssoc k v t

def hasKey {β} (k : String) (l : List (String × β)) : Bool := l.any (·.1 == k)

def delKey {β} (k : String) (l : List (String × β)) : List (String × β) := l.filter (·.1 != k)

/-- qube.py:1473-1545 `insert_deriv(key, deriv, override)` (with the repair: a shallow copy is held when the
    derivative would be the object given).  `none` = raises, the object is unchanged. -/
def insertDeriv (p : ObjDump) (key : String) (d : ObjDump) (override : Bool) : R ObjDump :=
  if !(classInfo p.body.cls).derivsOk then none else
  if p.body.numer != d.body.numer then none else
  -- `_require_compatible_deriv`: the derivative's shape must broadcast INTO the parent's shape
  if bcast d.body.shape p.body.shape != some p.body.shape then none else
  if p.body.readonly && hasKey key p.derivs && !override then none else
  -- deriv.wod.as_float()
  match asFloat (wodOf d) with
  | none => none
  | some d1 =>
  -- broadcast to the parent's shape
  match (if d1.body.shape != p.body.shape then broadcastTo d1 p.body.shape else some d1) with
  | none => none
  | some d2 =>
    -- match read-only status of the parent (repaired: after the broadcast)
    let d3 := if p.body.readonly && !d2.body.readonly then bare (bodyReadonly d2.body) else d2
    some { p with derivs := setAssoc key (cloneBare d3) p.derivs, attrs := setAssoc key true p.attrs }

/-- qube.py:1548-1571 `insert_derivs(derivs)`: inserts in order; raises at the first failure (earlier ones stay) -/
def insertDerivs (p : ObjDump) (l : List (String × ObjDump)) (override : Bool) : ObjDump × Bool :=
  match l with
  | [] => (p, true)
  | (k, d) :: t =>
    match insertDeriv p k d override with
    | none => (p, false)
    | some p' => insertDerivs p' t override

/-- the public constructor: `ctorCore`, then `insert_derivs` (qube.py:405-408); raises if an insertion raises -/
def ctorDerivs (i : CtorIn) : List (String × ObjDump) :=
  match i.derivs with
  | some l => l
  | none => (match i.arg with | .qube a => a.derivs | _ => [])

def ctor (i : CtorIn) : R ObjDump :=
  match ctorCore i with
  | none => none
  | some b =>
    match insertDerivs (bare b) (ctorDerivs i) false with
    | (o, true) => some o
    | (_, false) => none

/-- qube.py:2099-2130 `as_float(recursive=True)` of any object: the derivatives are handed to the constructor -/
def asFloatObj (o : ObjDump) : R ObjDump :=
  if o.body.kind == .float then some o
  else if !(classInfo o.body.cls).floatsOk then none
  else ctor { cls := o.body.cls, arg := .val ⟨o.body.varr, o.body.vshape, .float, true⟩, mask := maskRaw o.body.mask,
              derivs := some o.derivs, units := .none, nrank := none, drank := none, exmpl := some o, dflt := none }

/-- qube.py:4532-4620 `broadcast_to(shape, recursive=True)` of any object -/
def broadcastToObj (o : ObjDump) (shape : List Nat) : R ObjDump :=
  if shape == o.body.shape then some o else
  match broadcastTo (cloneBare o) shape with
  | none => none
  | some base =>
    let rec go (obj : ObjDump) : List (String × ObjDump) → R ObjDump
      | [] => some obj
      | (k, d) :: t =>
        match broadcastTo (cloneBare d) shape with
        | none => none
        | some d' => (match insertDeriv obj k d' true with | none => none | some obj' => go obj' t)
    go base o.derivs

/-- qube.py:1574-1592 `delete_deriv(key, override)`; `none` = raises (read-only without override) -/
def deleteDeriv (p : ObjDump) (key : String) (override : Bool) : R ObjDump :=
  if !override && p.body.readonly then none else
  if hasKey key p.derivs then some { p with derivs := delKey key p.derivs, attrs := delKey key p.attrs }
  else some p

/-- qube.py:1595-1627 `delete_derivs(override)` without `preserve` -/
def deleteDerivs (p : ObjDump) (override : Bool) : R ObjDump :=
  if !override && p.body.readonly then none else
  some { p with derivs := [], attrs := p.attrs.filter (fun a => !hasKey a.1 p.derivs) }

/-- qube.py:968-1020 `clone(recursive, preserve)`: derivatives are re-inserted one by one -/
def clone (o : ObjDump) (recursive : Bool) (preserve : List String) : R ObjDump :=
  let keep := if recursive then o.derivs else o.derivs.filter (fun d => preserve.contains d.1)
  -- (a preserved name that is not a derivative is ignored)
  match insertDerivs (cloneBare o) (keep.map fun d => (d.1, cloneBare d.2)) true with
  | (r, true) => some r
  | (_, false) => none

/-- the `wod` property (qube.py:1387-1412): the object itself when it has no derivatives, else a derivative-free twin -/
def wod (o : ObjDump) : ObjDump := if o.derivs.isEmpty then o else wodOf o

/-- qube.py:1665-1683 `without_deriv(key)` (repaired: goes through `delete_deriv`) -/
def withoutDeriv (o : ObjDump) (key : String) : R ObjDump :=
  if !hasKey key o.derivs then some o else
  match clone o true [] with
  | none => none
  | some r => deleteDeriv r key true

/-- qube.py:1915-1953 `as_readonly()` (repaired: derivatives always follow) -/
def asReadonly (o : ObjDump) : ObjDump :=
  if o.body.readonly then o else
  { o with body := bodyReadonly o.body, derivs := o.derivs.map fun d => (d.1, { d.2 with body := bodyReadonly d.2.body }) }

/-- fresh copies of both arrays (`.copy()`), flag cleared -/
def freshBody (b : Body) : Body :=
  { b with vwritable := true, mask := (match b.mask with | .array s k _ => .array s k true | m => m), readonly := false }

/-- `copy(recursive=False, readonly)` of one object (qube.py:1985-2022) -/
def copyOne (x : ObjDump) (readonly : Bool) : ObjDump :=
  if x.body.readonly && readonly then bare x.body
  else if readonly then bare (bodyReadonly (freshBody x.body))
  else bare (freshBody x.body)

/-- qube.py:1985-2030 `copy(recursive, readonly)` -/
def copy (o : ObjDump) (recursive readonly : Bool) : R ObjDump :=
  if o.body.readonly && readonly then some (cloneBare o) else
  if recursive then
    match insertDerivs (copyOne o readonly) (o.derivs.map fun d => (d.1, copyOne d.2 readonly)) true with
    | (r, true) => some r
    | (_, false) => none
  else some (copyOne o readonly)

/-! ### low-level setters -/

/-- the mask after `_set_values_`: the one given, else the old one -/
def newMask (mask : Option MaskD) (old : MaskD) : MaskD :=
  match mask with
  | some m => m
  | none => old

/-- qube.py:1170-1177: `if np.shape(self._mask_):` the mask array follows the read-only state of the values (a
    read-only mask of a writable object is copied); a 0-d mask array is left as it is -/
def setterMask (ro : Bool) : MaskD → MaskD
  | .array s b w => if s.isEmpty then .array s b w else if ro then .array s b false else .array s b true
  | m => m

/-- qube.py:1121-1126: a mask given as an array must have the object's shape -/
def badMaskShape (mask : Option MaskD) (shape : List Nat) : Bool :=
  match mask with
  | some (.array s _ _) => s != shape
  | _ => false

/-- qube.py:1104-1177 `_set_values_(values, mask)` with `antimask=None`.  The code checks the two shapes and
    nothing else; read-only state follows the new values; (repaired) the default's kind follows the values. -/
def setValues (o : ObjDump) (v : RawArr) (mask : Option MaskD) : R ObjDump :=
  let v := v.norm
  if v.shape != o.body.vshape then none else
  if badMaskShape mask o.body.shape then none else
  if v.kind == .other then none else
  some { o with body := { o.body with varr := v.isArr, vwritable := v.writable, kind := v.kind, dkind := v.kind,
                                       readonly := v.isArr && !v.writable,
                                       mask := setterMask (v.isArr && !v.writable) (newMask mask o.body.mask) } }

/-- qube.py:1187-1223 `_set_mask_(mask)` with `antimask=None`, `check=False` -/
def setMask (o : ObjDump) (mask : RawMask) : R ObjDump :=
  match asMask mask with
  | none => none
  | some m =>
    -- `_suitable_mask(mask, shape)` with broadcast=False: scalar, or an array of exactly the shape
    let m' : R MaskD := match m with
      | .scalar b => some (.scalar b)
      | .array s _ w => if s == o.body.shape then some (.array s true w) else none
      | _ => none
    match m' with
    | none => none
    | some m =>
      let m := match m with
        | .array s b _ => if o.body.readonly then .array s b false else .array s b true
        | m => m
      some { o with body := { o.body with mask := m } }

/-! ### unpickling -/

/- extensions/pickler.py:945-1062 `__setstate__` seen from outside (`pickle.loads(pickle.dumps(o))`): both arrays
   are rebuilt; the read-only state is re-established on the new arrays (in the REPAIRED form of defect 16:
   arrays of a read-only object come back read-only); every derivative is rebuilt the same way and re-inserted
   with `insert_deriv`. -/

/-- what `__getstate__` does to a mask, decided by the mask's CONTENT (pickler.py:836-858): kept as it is (Python
    scalar values, or an array mask with both masked and unmasked elements), or replaced by a single bool -/
inductive Collapse where
  | keep
  | to (b : Bool)
  deriving DecidableEq, Repr, Inhabited

def rebuildMask (c : Collapse) (m : MaskD) (w : Bool) : MaskD :=
  match c with
  | .to b => .scalar b
  | .keep => (match m with | .array s k _ => .array s k w | m => m)

def rebuildBody (b : Body) (c : Collapse) : Body :=
  let w := !b.readonly
  { b with vwritable := if b.varr then w else b.vwritable, mask := rebuildMask c b.mask w }

def collapseOf (k : String) : List (String × Collapse) → Collapse
  | [] => .keep
  | (k', c) :: t => if k' == k then c else collapseOf k t

/-- pickler.py:985-989: the antimask exists iff `np.shape(self._mask_)` is truthy: an array mask of rank >= 1 -/
def sharedMask : MaskD → Option (List Nat × Bool × Bool)
  | .array s k w => if s.isEmpty then none else some (s, k, w)
  | _ => none

/-- a derivative comes back with the parent's mask when there is an antimask (pickler.py:1089-1094), else with its own -/
def rebuildDeriv (parent : Body) (dc : List (String × Collapse)) (d : String × ObjDump) : String × ObjDump :=
  match sharedMask parent.mask with
  | some (s, k, w) =>
    (d.1, bare { rebuildBody d.2.body .keep with mask := .array s k w })
  | none => (d.1, bare (rebuildBody d.2.body (collapseOf d.1 dc)))

/-- a derivative shares the parent's mask array; freezing a read-only derivative freezes that array -/
def frozenByDerivs (body0 : Body) (derivs : List (String × ObjDump)) : Body :=
  match sharedMask body0.mask with
  | some (s, k, w) => { body0 with mask := .array s k (w && !derivs.any (fun d => d.2.body.readonly)) }
  | none => body0

def setstate (o : ObjDump) (c : Collapse) (dc : List (String × Collapse)) : R ObjDump :=
  let body := frozenByDerivs (rebuildBody o.body c) o.derivs
  match insertDerivs (bare body) (o.derivs.map (rebuildDeriv body dc)) true with
  | (r, true) => some r
  | (_, false) => none

/-! ### programs: any sequence of the operations above on a pool of objects -/

/-- a value argument: raw array or an object of the pool -/
inductive ArgRef where
  | val (a : RawArr)
  | obj (i : Nat)
  | bad
  deriving Repr, Inhabited

inductive Op where
  | ctor (cls : Cls) (arg : ArgRef) (mask : RawMask) (derivs : Option (List (String × Nat))) (units : RawUnits)
         (nrank drank : Option Int) (exmpl : Option Nat) (dflt : Option (List Nat × Kind))
  | insertDeriv (p : Nat) (key : String) (d : Nat) (override : Bool)          -- in place
  | deleteDeriv (p : Nat) (key : String) (override : Bool)                   -- in place
  | deleteDerivs (p : Nat) (override : Bool)                                 -- in place
  | asReadonly (p : Nat)                                                     -- in place
  | setValues (p : Nat) (v : RawArr) (mask : Option MaskD)                   -- in place (private setter)
  | setMask (p : Nat) (mask : RawMask)                                       -- in place (private setter)
  | clone (p : Nat) (recursive : Bool) (preserve : List String)
  | wod (p : Nat)
  | withoutDeriv (p : Nat) (key : String)
  | copy (p : Nat) (recursive readonly : Bool)
  | asFloat (p : Nat)
  | broadcastTo (p : Nat) (shape : List Nat)
  | pickle (p : Nat) (c : Collapse) (dc : List (String × Collapse))
  | deriv (p : Nat) (key : String)                                           -- read `p.d_d<key>` / `p.derivs[key]`
  deriving Repr, Inhabited

abbrev Pool := List ObjDump

def Pool.get? (pool : Pool) (i : Nat) : Option ObjDump := pool[i]?

def lookup {β} (k : String) : List (String × β) → Option β
  | [] => none
  | (k', v) :: t => if k' == k then some v else lookup k t

/-- callers of the private setters pass values of a kind the class permits and masks that are Python bools or
    bool arrays (the code does not check this; the public methods that call the setters are swept) -/
def setterGuard (o : ObjDump) (v : RawArr) (mask : Option MaskD) : Bool :=
  kindOk o.body.cls v.kind &&
  (match mask with
   | none => true
   | some (.scalar _) => true
   | some (.array _ isBool _) => isBool
   | some _ => false) &&
  -- read-only values only for an object whose derivatives are read-only and whose mask is not a 0-d array
  (!(v.isArr && !v.writable) ||
    (o.derivs.all (fun d => d.2.body.readonly) &&
     (match newMask mask o.body.mask with
      | .array s _ _ => !s.isEmpty
      | _ => true)))

/-- what one call does to the pool: nothing (it raised), replace an object (in-place methods), or hand back an object -/
inductive Effect where
  | none
  | set (i : Nat) (o : ObjDump)
  | push (o : ObjDump)
  deriving Repr, Inhabited

def Effect.ofSet (i : Nat) : R ObjDump → Effect
  | some o => .set i o
  | .none => .none

def Effect.ofPush : R ObjDump → Effect
  | some o => .push o
  | .none => .none

def resolveDerivs (pool : Pool) : List (String × Nat) → Option (List (String × ObjDump))
  | [] => some []
  | (k, i) :: t =>
    match pool.get? i, resolveDerivs pool t with
    | some o, some r => some ((k, o) :: r)
    | _, _ => none

/-- the constructor's arguments with pool references replaced by the objects (`none`: a reference is out of range) -/
def resolveCtor (pool : Pool) (cls : Cls) (arg : ArgRef) (mask : RawMask) (derivs : Option (List (String × Nat)))
    (units : RawUnits) (nrank drank : Option Int) (exmpl : Option Nat) (dflt : Option (List Nat × Kind)) : Option CtorIn :=
  let arg' : Option RawArg := match arg with
    | .val a => some (.val a)
    | .obj i => (pool.get? i).map RawArg.qube
    | .bad => some .bad
  let derivs' : Option (Option (List (String × ObjDump))) := match derivs with
    | none => some none
    | some l => (resolveDerivs pool l).map some
  let exmpl' : Option (Option ObjDump) := match exmpl with
    | none => some none
    | some i => (pool.get? i).map some
  match arg', derivs', exmpl' with
  | some a, some d, some e => some ⟨cls, a, mask, d, units, nrank, drank, e, dflt⟩
  | _, _, _ => none

def effect (pool : Pool) (op : Op) : Effect :=
  match op with
  | .ctor cls arg mask derivs units nrank drank exmpl dflt =>
    match resolveCtor pool cls arg mask derivs units nrank drank exmpl dflt with
    | some ci => .ofPush (ctor ci)
    | none => .none
  | .insertDeriv p key d override =>
    match pool.get? p, pool.get? d with
    | some po, some dn => .ofSet p (insertDeriv po key dn override)
    | _, _ => .none
  | .deleteDeriv p key override => match pool.get? p with | some o => .ofSet p (deleteDeriv o key override) | none => .none
  | .deleteDerivs p override => match pool.get? p with | some o => .ofSet p (deleteDerivs o override) | none => .none
  | .asReadonly p => match pool.get? p with | some o => .set p (asReadonly o) | none => .none
  | .setValues p v mask =>
    match pool.get? p with
    | some o => if setterGuard o v mask then .ofSet p (setValues o v mask) else .none
    | none => .none
  | .setMask p mask => match pool.get? p with | some o => .ofSet p (setMask o mask) | none => .none
  | .clone p recursive preserve => match pool.get? p with | some o => .ofPush (clone o recursive preserve) | none => .none
  | .wod p => match pool.get? p with | some o => .push (wod o) | none => .none
  | .withoutDeriv p key => match pool.get? p with | some o => .ofPush (withoutDeriv o key) | none => .none
  | .copy p recursive readonly => match pool.get? p with | some o => .ofPush (copy o recursive readonly) | none => .none
  | .asFloat p => match pool.get? p with | some o => .ofPush (asFloatObj o) | none => .none
  | .broadcastTo p shape => match pool.get? p with | some o => .ofPush (broadcastToObj o shape) | none => .none
  | .pickle p c dc => match pool.get? p with | some o => .ofPush (setstate o c dc) | none => .none
  | .deriv p key => match pool.get? p with | some o => .ofPush (lookup key o.derivs) | none => .none

/-- one step: in-place operations replace the object, the others append their result; a call that raises leaves
    the pool as it is -/
def step (pool : Pool) (op : Op) : Pool :=
  match effect pool op with
  | .none => pool
  | .set i o => pool.set i o
  | .push o => pool ++ [o]

def run (pool : Pool) (ops : List Op) : Pool := ops.foldl step pool

end PMV.WF
