import PMV.Core.Arr
import PMV.Model.Algebra
/-
  Operator dispatch and axis alignment of polymath/qube.py:2879-3744 (+ Boolean/Matrix/Matrix3 overrides), as an
  executable, code-shaped model.  Mathlib-free.

  `dispatch op a b` follows the chain of the source for the Python expression `a op b`:
  Python's choice of direct / reflected method, Boolean.as_int, the number fast paths, as_this_type / as_scalar
  conversion of raw operands, units / numer / denom checks, `_mul_by_scalar` / `_div_by_scalar` axis alignment by
  inserting unit axes (`arg_values.reshape(arg.shape + rank*(1,) + denom)`), swap-and-retry, the matrix path through
  `Qube.dot(self, arg, -1, 0)`, and the constructor's class / dtype coercion.  It returns either the exception class
  or the class, numeric kind, leading shape, item shape of the result and a *plan*: the two full value arrays, each
  reshaped by inserting unit axes, to be combined element-wise under FULL NumPy broadcasting (`Arr.map2`) — exactly what
  the code hands to NumPy.  `Props/C04.lean` proves that this equals leading-axis-only broadcasting.

  Values are exact integers (the harness scales dyadic operands by 8).
-/
namespace PMV.Dispatch
open PMV

inductive Cls | qube | scalar | boolean | vector | vector3 | pair | matrix | matrix3 | quaternion
  deriving DecidableEq, Repr, Inhabited
inductive Kind | bool | int | float
  deriving DecidableEq, Repr, Inhabited
/-- where an operand comes from: a polymath object, a Python number, an ndarray, a MaskedArray, a nested list -/
inductive Src | qube | num | nd | ma | list
  deriving DecidableEq, Repr, Inhabited
inductive Rej | valueError | typeError
  deriving DecidableEq, Repr, Inhabited
inductive OpSym | add | sub | mul | div | floordiv | mod
  deriving DecidableEq, Repr, Inhabited

/-! ### class constants (qube.py:213-224 and the subclass headers) -/

/-- `NRANK` -/
def Cls.nrank : Cls → Option Nat
  | .qube => none | .scalar => some 0 | .boolean => some 0 | .vector => some 1 | .vector3 => some 1
  | .pair => some 1 | .matrix => some 2 | .matrix3 => some 2 | .quaternion => some 1
/-- `NUMER` -/
def Cls.fixedNumer : Cls → Option Shape
  | .scalar => some [] | .boolean => some [] | .vector3 => some [3] | .pair => some [2] | .matrix3 => some [3, 3]
  | .quaternion => some [4] | _ => none
def Cls.floatsOk : Cls → Bool | .boolean => false | _ => true
def Cls.intsOk : Cls → Bool
  | .qube => true | .scalar => true | .vector => true | .pair => true | _ => false
def Cls.boolsOk : Cls → Bool | .qube => true | .boolean => true | _ => false
def Cls.unitsOk : Cls → Bool | .boolean => false | .matrix3 => false | .quaternion => false | _ => true
def Cls.derivsOk : Cls → Bool | .boolean => false | _ => true

/-- `Qube._suitable_dtype` (qube.py:779-805) -/
def suitableDtype (c : Cls) : Kind → Kind
  | .float => if c.floatsOk then .float else if c.intsOk then .int else .bool
  | .int => if c.intsOk then .int else if c.floatsOk then .float else .bool
  | .bool => if c.boolsOk then .bool else if c.intsOk then .int else .float

/-- NumPy / Python result kind of `+ - * // %` on two kinds -/
def promote : Kind → Kind → Kind
  | .float, _ => .float | _, .float => .float
  | .int, _ => .int | _, .int => .int
  | .bool, .bool => .bool

/-- operand descriptor.  `shape` is the leading shape of a polymath object, the FULL array shape of a raw operand
    (`[]` for a number). `units = some e` when the object carries a Units object with exponents `e`. -/
structure Desc where
  src : Src
  cls : Cls
  kind : Kind
  shape : Shape
  numer : Shape
  denom : Shape
  units : Option (List Int)
  deriving Repr, Inhabited

/-- class / dtype coercion on construction (`_suitable_value`, qube.py:857-890): the kind an object of class `cls`
    holds after being built from data of kind `kind` -/
def Desc.constructed (d : Desc) : Desc :=
  if d.src == .qube then { d with kind := suitableDtype d.cls d.kind } else d

def Desc.full (d : Desc) : Shape := d.shape ++ d.numer ++ d.denom
def Desc.item (d : Desc) : Shape := d.numer ++ d.denom
def Desc.nrankV (d : Desc) : Nat := d.numer.length
def Desc.drank (d : Desc) : Nat := d.denom.length
def Desc.rank (d : Desc) : Nat := d.numer.length + d.denom.length
def Desc.isQ (d : Desc) : Bool := d.src == .qube
def Desc.isNum (d : Desc) : Bool := d.src == .num
/-- list / tuple / ndarray (MaskedArray is an ndarray subclass): the operands for which `_raise_unsupported_op`
    raises ValueError (qube.py:4438-4452) -/
def Desc.isArrayLike (d : Desc) : Bool := d.src == .nd || d.src == .ma || d.src == .list

/-- `Qube._raise_unsupported_op(op, obj1, obj2)` with two operands -/
def unsupported (o1 o2 : Desc) : Rej :=
  if o1.isArrayLike || o2.isArrayLike then .valueError else .typeError

/-- how the result values are produced from the operands' full value arrays -/
inductive Plan
  /-- element-wise `f (insert ra unit axes at pa in A) (insert rb unit axes at pb in B)` under full NumPy broadcasting;
      `swap` records that the scaled object X is the right operand -/
  | ew (swap : Bool) (pa ra pb rb : Nat)
  /-- `Qube.dot(self, arg, -1, 0)` -/
  | dot
  /-- the right operand is returned as is (Matrix3 * scalar) -/
  | right
  deriving Repr, Inhabited, DecidableEq

structure Res where
  cls : Cls
  kind : Kind
  lead : Shape
  numer : Shape
  denom : Shape
  plan : Plan
  deriving Repr, Inhabited

abbrev M := Except Rej

/-- `Units.can_match` (units.py:111-119) -/
def unitsCanMatch : Option (List Int) → Option (List Int) → Bool
  | none, _ => true
  | _, none => true
  | some a, some b => a == b

/-- `self._units_ or arg._units_` / `Units.mul_units` / `div_units`: is a Units object handed to the constructor? -/
def unitsPresent (a b : Option (List Int)) : Bool := a.isSome || b.isSome

/-! ### construction: `Qube.__init__` (qube.py:233-428) of class `c` from a full array shape -/

/-- split a full shape into leading shape, numerator, denominator; the constructor's rank, class-numerator, units and
    denominator validations -/
def construct (c : Cls) (kind : Kind) (full : Shape) (nrank drank : Nat) (units : Option (List Int)) : M Desc := do
  if units.isSome && !c.unitsOk then throw .typeError
  if drank != 0 && !c.derivsOk then throw .valueError
  if full.length < nrank + drank then throw .valueError
  let nn := full.length - (nrank + drank)
  let dd := full.length - drank
  let numer := (full.take dd).drop nn
  match c.fixedNumer with
  | some n => if numer != n then throw .valueError
  | none => pure ()
  pure { src := .qube, cls := c, kind := suitableDtype c kind, shape := full.take nn, numer := numer,
         denom := full.drop dd, units := units }

/-- `Boolean.as_int` (boolean.py:45-59): an integer Scalar of the same shape -/
def asInt (d : Desc) : Desc := { d with cls := .scalar, kind := .int, units := none }

/-- `Scalar.as_scalar` (scalar.py:69-95) for the operands that reach it here: raw operands become `Scalar(arg)`;
    a Boolean becomes its `as_int()` -/
def asScalar (d : Desc) : M Desc :=
  if d.isQ then
    if d.cls == .boolean then pure (asInt d) else pure d
  else construct .scalar d.kind d.shape 0 0 none

/-- `Qube.as_this_type(arg, coerce=False)` (qube.py:2304-2381) for a raw `arg`: first a generic `Qube(arg, example=self)`
    (item rank taken from `self`), then an object of `type(self)` (class numerator check, dtype coercion) -/
def asThisType (self arg : Desc) : M Desc := do
  let g ← construct .qube arg.kind arg.shape self.nrankV self.drank self.units
  construct self.cls g.kind g.full self.nrankV g.drank g.units

/-! ### the constructor call that finishes every operator: `obj.__init__(values, mask, units=…, example=self)` -/

def finish (c : Cls) (kind : Kind) (lead numer denom : Shape) (unitsGiven : Bool) (plan : Plan) : M Res :=
  if unitsGiven && !c.unitsOk then throw .typeError
  else pure { cls := c, kind := suitableDtype c kind, lead := lead, numer := numer, denom := denom, plan := plan }

/-- insert `r` unit axes at position `p` of a shape: `values.reshape(shape[:p] + r*(1,) + shape[p:])` -/
def insOnes (s : Shape) (p r : Nat) : Shape := s.take p ++ List.replicate r 1 ++ s.drop p

/-! ### addition / subtraction (qube.py:2879-2918, 2995-3043) -/

/-- the part of `Qube.__add__` / `__sub__` after the operand conversion: "Verify compatibility" and "Construct the
    result" (qube.py:2895-2913); `orig` is `original_arg` (it only selects the exception class) -/
def addCore (self arg' orig : Desc) : M Res := do
  if !unitsCanMatch self.units arg'.units then throw .valueError
  if self.numer != arg'.numer then
    if self.cls != arg'.cls then throw (unsupported self orig)
    throw .valueError
  if self.denom != arg'.denom then throw .valueError
  -- self._values_ + arg._values_ : full NumPy broadcasting of the two full shapes
  match bcast self.full arg'.full with
  | none => throw .valueError
  | some out =>
    finish self.cls (promote self.kind arg'.kind) (out.take (out.length - self.rank)) self.numer self.denom
      (unitsPresent self.units arg'.units) (.ew false 0 0 0 0)

/-- `Qube.__add__` / `Qube.__sub__` with `self` not a Boolean -/
def addSub (self arg : Desc) : M Res := do
  -- "Handle a simple right-hand value": rank 0 and a Python number
  if self.rank == 0 && arg.isNum then
    return { cls := self.cls, kind := promote self.kind arg.kind, lead := self.shape, numer := [], denom := [],
             plan := .ew false 0 0 0 0 }
  -- convert arg to this class if necessary
  let arg' ← if arg.isQ then pure arg
    else match asThisType self arg with
      | .ok x => pure x
      | .error _ => throw (unsupported self arg)
  addCore self arg' arg

/-! ### multiplication (qube.py:3115-3269) -/

/-- `X._mul_by_scalar(S)` (qube.py:3245-3269): `swap` tells that X is the right operand of the expression -/
def mulByScalar (x s : Desc) (swap : Bool) : M Res := do
  -- align axes
  let px := x.full.length
  let rx := if s.drank > 0 && x.full != [] then s.drank else 0
  let ps := s.shape.length
  let rs := if s.full != [] then x.rank else 0
  let xs := insOnes x.full px rx
  let ss := insOnes s.full ps rs
  match bcast xs ss with
  | none => throw .valueError
  | some out =>
    let drank := max x.drank s.drank
    let nn := out.length - (x.nrankV + drank)
    let dd := out.length - drank
    finish x.cls (promote x.kind s.kind) (out.take nn) ((out.take dd).drop nn) (out.drop dd)
      (unitsPresent x.units s.units) (if swap then .ew true ps rs px rx else .ew false px rx ps rs)

/-- `X._mul_by_number(n)` (qube.py:3232-3242) -/
def mulByNumber (x n : Desc) (swap : Bool) : Res :=
  { cls := x.cls, kind := promote x.kind n.kind, lead := x.shape, numer := x.numer, denom := x.denom,
    plan := .ew swap 0 0 0 0 }

/-- result class of `Qube.dot(…, classes=(type(arg), type(self)))`: `cast` (qube.py:2383-2420) -/
def castFirst (classes : List Cls) (numer : Shape) : Cls :=
  match classes with
  | [] => .qube
  | c :: rest =>
    let okNumer := match c.fixedNumer with | some n => n == numer | none => true
    let okRank := match c.nrank with | some r => r == numer.length | none => true
    if okNumer && okRank then c else castFirst rest numer

/-- the matrix path `Qube.dot(self, arg, -1, 0, (type(arg), type(self)))` (math_ops.py:166-232) -/
def dotPath (self arg : Desc) : M Res := do
  if self.drank != 0 && arg.drank != 0 then throw .valueError
  match self.numer.getLast?, arg.numer.head? with
  | some n1, some n2 =>
    if n1 != n2 then throw .valueError
    match bcast self.shape arg.shape with
    | none => throw .valueError
    | some out =>
      let numer := self.numer.dropLast ++ arg.numer.drop 1
      let denom := self.denom ++ arg.denom
      let c := castFirst [arg.cls, self.cls] numer
      -- the generic Qube is built first (units allowed); `cast` re-initialises with `example=self`, which drops
      -- the units silently for a class that cannot hold them: no units check fails on this path
      finish c (promote self.kind arg.kind) out numer denom false .dot
  | _, _ => throw .valueError

/-- `Qube.__mul__` (qube.py:3115-3154), `self` a polymath object that is not a Boolean -/
def qmul (self arg : Desc) : M Res := do
  if arg.isNum then return mulByNumber self arg false
  let arg' ← asScalar arg
  if self.drank != 0 && arg'.drank != 0 then throw .valueError
  if arg'.nrankV == 0 then
    match mulByScalar self arg' false with
    | .ok r => return r
    | .error e => if !arg.isQ then throw (unsupported self arg) else throw e
  if self.nrankV == 0 then return ← mulByScalar arg' self true
  if self.nrankV == 2 && (arg'.nrankV == 1 || arg'.nrankV == 2) then return ← dotPath self arg'
  throw (unsupported self arg)

/-- `Matrix3.__mul__` (matrix3.py:342-371): a scalar operand is returned unchanged ("rotating a scalar"), broadcast to
    the common LEADING shape (`Qube.broadcasted_shape`, ValueError if the leading shapes are incompatible) -/
def matrix3Mul (self arg : Desc) : M Res := do
  -- only a raw operand is converted (Scalar.as_scalar); a polymath operand, Boolean included, is returned as is
  let arg' ← if arg.isQ then pure arg else asScalar arg
  if arg'.nrankV == 0 then
    match bcast self.shape arg'.shape with
    | none => throw .valueError
    | some out =>
      return { cls := arg'.cls, kind := arg'.kind, lead := out, numer := [],
               denom := arg'.denom, plan := .right }
  qmul self arg

/-- `Qube.__rmul__` (qube.py:3158-3174): `arg * self` with a raw `arg` -/
def qrmul (self arg : Desc) : M Res := do
  if arg.isNum then return mulByNumber self arg true
  match (asScalar arg >>= fun s => mulByScalar self s true) with
  | .ok r => return r
  | .error _ => throw (unsupported arg self)

/-! ### true division, floor division, modulus (qube.py:3307-3744) -/

/-- `_div_by_scalar`, `_floordiv_by_scalar`, `_mod_by_scalar`: the divisor gets `rank` trailing unit axes -/
def divByScalar (isTrue : Bool) (x s : Desc) : M Res := do
  let ps := s.shape.length
  let rs := if s.full != [] && x.rank != 0 then x.rank else 0
  match bcast x.full (insOnes s.full ps rs) with
  | none => throw .valueError
  | some out =>
    finish x.cls (if isTrue then .float else promote x.kind s.kind) (out.take (out.length - x.rank)) x.numer x.denom
      (unitsPresent x.units s.units) (.ew false 0 0 ps rs)

/-- is the class one whose `reciprocal()` is the base method / Vector's that raises "unsupported" (TypeError)? -/
def reciprocalRaises (d : Desc) : Bool :=
  match d.cls with
  | .vector | .vector3 | .pair => d.drank != 1
  | .qube => true
  | _ => false

/-- `Qube.__truediv__` (qube.py:3307-3347). `none` = a path outside this view (reciprocal of a matrix / quaternion /
    vector with one denominator axis: property C16) -/
def qdiv (self arg : Desc) (zeroNum : Bool) : Option (M Res) :=
  if arg.isNum then
    -- _div_by_number: floats, also for a zero divisor (which only adds the mask); `zeroNum` is no longer consulted
    some (pure { cls := self.cls, kind := .float, lead := self.shape,
                 numer := self.numer, denom := self.denom, plan := .ew false 0 0 0 0 })
  else
    match asScalar arg with
    | .error e => some (throw e)
    | .ok arg' =>
      if arg'.drank > 0 then some (throw .valueError)
      else if arg'.nrankV == 0 then
        some (match divByScalar true self arg' with
          | .ok r => pure r
          | .error e => if !arg.isQ then throw (unsupported self arg) else throw e)
      else if self.nrankV == 0 then
        if reciprocalRaises arg' then some (throw .typeError) else none
      else if self.rank == 2 && arg'.rank == 2 then none
      else some (throw (unsupported self arg))

def isMatrix (d : Desc) : Bool := d.cls == .matrix || d.cls == .matrix3

/-- `Qube.__floordiv__` / `Qube.__mod__` (qube.py:3486-3514, 3613-3646) and the Matrix overrides (matrix.py:505-521) -/
def qfloorMod (isMod : Bool) (self arg : Desc) (zeroNum : Bool) : M Res := do
  if isMatrix self then throw (unsupported self arg)
  if isMod && arg.isNum then
    return { cls := self.cls, kind := promote self.kind arg.kind, lead := self.shape,
             numer := self.numer, denom := self.denom, plan := .ew false 0 0 0 0 }
  let arg' ← asScalar arg
  if arg'.drank > 0 then throw .valueError
  if arg'.nrankV == 0 then
    match divByScalar false self arg' with
    | .ok r => return r
    | .error e => if !arg.isQ then throw (unsupported self arg) else throw e
  throw (unsupported self arg)

/-- `__rtruediv__`, `__rfloordiv__`, `__rmod__` (qube.py:3351-3367, 3518-3530, 3650-3662): `arg op self`, raw `arg` -/
def qrdiv (op : OpSym) (self arg : Desc) : Option (M Res) :=
  if op != .div && isMatrix self then some (throw (unsupported arg self))
  else if op == .div && arg.isNum then
    -- self.reciprocal().__mul__(arg)
    if self.cls == .scalar then
      if self.rank != 0 then some (throw .valueError)
      else some (pure { cls := .scalar, kind := .float, lead := self.shape, numer := [], denom := [],
                        plan := .ew true 0 0 0 0 })
    else if reciprocalRaises self then some (throw .typeError) else none
  else
    match asScalar arg with
    | .error _ => some (throw (unsupported arg self))
    | .ok a =>
      let r := if op == .div then qdiv a self false else some (qfloorMod (op == .mod) a self false)
      match r with
      | none => none
      | some (.ok x) => some (pure x)
      | some (.error _) => some (throw (unsupported arg self))

/-! ### Python's choice of method and the Boolean overrides (boolean.py:137-207) -/

/-- the direct method `self.__op__(arg)` of a polymath object `self` that is not a Boolean -/
def direct (op : OpSym) (self arg : Desc) (zeroNum : Bool) : Option (M Res) :=
  match op with
  | .add | .sub => some (addSub self arg)
  | .mul => some (if self.cls == .matrix3 then matrix3Mul self arg else qmul self arg)
  | .div => qdiv self arg zeroNum
  | .floordiv => some (qfloorMod false self arg zeroNum)
  | .mod => some (qfloorMod true self arg zeroNum)

/-- the reflected method `self.__rop__(arg)` for a raw `arg` (`arg op self`), `self` not a Boolean -/
def reflected (op : OpSym) (self arg : Desc) : Option (M Res) :=
  match op with
  | .add => some (addSub self arg)
  | .sub =>
    -- __rsub__: arg = self.as_this_type(arg); return arg.__sub__(self)   (no exception revision)
    some (asThisType self arg >>= fun a => addSub a self)
  | .mul => some (qrmul self arg)
  | .div | .floordiv | .mod => qrdiv op self arg

/-- **dispatch**: the Python expression `a op b`. `zeroNum`: the right operand is the number zero. At least one operand
    is a polymath object. `none` = outside this view. -/
def dispatch (op : OpSym) (a b : Desc) (zeroNum : Bool := false) : Option (M Res) :=
  if a.isQ then
    if a.cls == .boolean then
      -- Boolean.__op__: self.as_int() op arg; for a Boolean arg Python tries arg.__rop__ first: same conversion
      let b' := if b.isQ && b.cls == .boolean then asInt b else b
      direct op (asInt a) b' zeroNum
    else if b.isQ && b.cls == .boolean && a.cls == .scalar then
      -- Boolean is a subclass of Scalar that overrides every reflected method: b.__rop__(a) runs first
      direct op a (asInt b) zeroNum
    else direct op a b zeroNum
  else if b.isQ then
    if b.cls == .boolean then
      match op with
      | .add | .sub | .mul => reflected op (asInt b) a
      | _ =>
        -- __rtruediv__ / __rfloordiv__ / __rmod__ of Boolean: Scalar(arg) op self.as_int()
        match asScalar a with
        | .ok a' => direct op a' (asInt b) false
        | .error e => some (throw e)
    else reflected op b a
  else none

/-! ### in-place forms `a op= b` (qube.py `__iadd__` … `__imod__`), expressed through `dispatch` -/

/-- can the result of the direct form be stored in the target? the operand broadcasts INTO the target's leading shape
    (`_require_broadcast_into`), the item shape stays the target's, an integer target takes no float result
    ("operation returns non-integer result"), a Boolean target supports no in-place arithmetic -/
def storable (a : Desc) (r : Res) : Bool :=
  r.lead == a.shape && r.numer == a.numer && r.denom == a.denom && !(a.kind == .int && r.kind == .float) &&
  a.cls != .boolean

/-- documented limitations of the in-place methods: "in-place multiplication only works for a Matrix3" (so `/=`, which is
    `*=` by the reciprocal, only works with a nonzero Python number, which is divided in directly), and `+= -= *=` of an
    integer target refuse an operand that `is_int()` denies (a Boolean object holds bools) -/
def inplaceLimited (op : OpSym) (a b : Desc) (zeroNum : Bool) : Bool :=
  (a.cls == .matrix3 && op == .div && !(b.isNum && !zeroNum)) ||
  (a.kind == .int && b.isQ && b.kind == .bool && (op == .add || op == .sub || op == .mul))

/-- recorded defect KF-C04-10, modelled as the code behaves: a target holding a single Python value is REBOUND by the
    number fast paths (`self._values_ += arg` on a Python int), so an integer target silently takes a float result -/
def rebindsSingle (op : OpSym) (a b : Desc) : Bool :=
  a.shape == [] && a.rank == 0 && a.kind == .int && b.kind == .float && b.shape == [] && b.rank == 0 &&
  (match op with
   | .add | .sub => b.isNum || b.src == .nd || b.src == .ma
   | .mul => b.isNum
   | .floordiv | .mod => true
   | .div => false)

/-- `a op= b`: the direct result when it is storable in the target (which keeps its class; a float target stays float),
    a rejection otherwise. NOT a code-shaped model of the in-place methods: it states the property's requirement
    "in-place = direct whenever the operand broadcasts into the target" on top of `dispatch`. -/
def inplace (op : OpSym) (a b : Desc) (zeroNum : Bool := false) : Option (M Res) :=
  match dispatch op a b zeroNum with
  | some (.ok r) =>
    if rebindsSingle op a b && a.cls != .boolean then some (.ok { r with cls := a.cls, kind := .float })
    else if storable a r && !inplaceLimited op a b zeroNum then
      some (.ok { r with cls := a.cls, kind := if a.kind == .float then .float else r.kind })
    else some (.error .valueError)
  | x => x

/-! ### unary operators (qube.py:2830-2864, boolean.py:137-144, matrix.py:502) -/

inductive UnOp | neg | abs | pos
  deriving DecidableEq, Repr

def unary (op : UnOp) (a : Desc) : Option (M Res) :=
  let a' := if a.cls == .boolean then asInt a else a
  let same : Res := { cls := a'.cls, kind := a'.kind, lead := a'.shape, numer := a'.numer, denom := a'.denom,
                      plan := .ew false 0 0 0 0 }
  match op with
  | .neg | .pos => some (pure same)
  | .abs =>
    if isMatrix a' then some (throw .typeError)
    else if a'.nrankV != 0 then (if a'.cls == .qube then some (throw .typeError) else none)   -- Vector.__abs__ = norm
    else some (pure same)

/-! ### `**` (scalar.py:1533-1615, boolean.py:206) and the Scalar math functions (scalar.py:312-735): class, kind, shape,
     rejection only (their values are judged by the oracle with a tolerance) -/

/-- `Units.is_angle` / `Units.is_unitless` (units.py:153-173) -/
def unitsIsAngle : Option (List Int) → Bool
  | none => true
  | some e => e == [0, 0, 0] || e == [0, 0, 1]
def unitsIsUnitless : Option (List Int) → Bool
  | none => true
  | some e => e == [0, 0, 0]
/-- `Units.sqrt` succeeds iff every exponent is even (units.py:348-354) -/
def unitsSqrtOk : Option (List Int) → Bool
  | none => true
  | some e => e.all fun x => x % 2 == 0

/-- `Scalar.__pow__(expo)` for a unit-less base. `negInt`: the exponent is of integer kind and has a negative value at an
    UNMASKED position ("without this step, negative int exponents on int values truncate to 0 … only the exponents that
    are in use decide this": `np.any((expo_values < 0) & expo.antimask)`; then the exponent is converted to float).
    `none` = outside this view (powers of other classes: C16; powers of quantities with units: C12). -/
def powDispatch (a b : Desc) (negInt : Bool) : Option (M Res) :=
  let a' := if a.cls == .boolean then asInt a else a          -- Boolean.__pow__: self.as_int() ** arg
  if !a.isQ || a'.cls != .scalar then none
  else if a'.units.isSome then none
  else some do
    if a'.denom != [] then throw .valueError
    -- "Interpret the exponent": a Scalar (Boolean is a subclass) is checked, anything else goes through Scalar(expo)
    let e ← if b.isQ && (b.cls == .scalar || b.cls == .boolean) then
        (if b.rank != 0 then throw .valueError
         else if !unitsIsUnitless b.units then throw .valueError
         else pure b)
      else if b.isQ then
        (if b.nrankV != 0 then throw .valueError else pure b)     -- Scalar(expo): numerator rank must be 0
      else construct .scalar b.kind b.shape 0 0 none
    match bcast a'.shape e.shape with
    | none => throw .valueError
    | some out =>
      let k := if negInt then Kind.float else promote a'.kind e.kind
      pure { cls := .scalar, kind := suitableDtype .scalar k, lead := out, numer := [], denom := [],
             plan := .ew false 0 0 0 0 }

inductive MathFn | sin | cos | tan | arcsin | arccos | arctan | sqrt | log | exp | sign
  deriving DecidableEq, Repr

/-- the unary Scalar math functions: denominators are rejected, the unit rule of each function, a float Scalar of the
    same shape (`sign` keeps the kind). `none` = outside this view. -/
def mathFn (f : MathFn) (a : Desc) : Option (M Res) :=
  if !a.isQ || !(a.cls == .scalar || a.cls == .boolean) then none
  else
    let ok (k : Kind) : M Res := pure { cls := .scalar, kind := k, lead := a.shape, numer := [], denom := [],
                                        plan := .ew false 0 0 0 0 }
    match f with
    | .sign =>
      if a.cls == .boolean then none
      else some (pure { cls := .scalar, kind := a.kind, lead := a.shape, numer := [], denom := a.denom,
                        plan := .ew false 0 0 0 0 })
    | .sin | .cos | .tan | .exp =>
      some (if a.denom != [] then throw .valueError else if !unitsIsAngle a.units then throw .valueError else ok .float)
    | .arcsin | .arccos | .arctan =>
      some (if a.denom != [] then throw .valueError else if !unitsIsUnitless a.units then throw .valueError
            else ok .float)
    | .log => some (if a.denom != [] then throw .valueError else ok .float)
    | .sqrt =>
      some (if a.denom != [] then throw .valueError else if !unitsSqrtOk a.units then throw .valueError else ok .float)

/-- `Scalar.arctan2(self, arg)` (scalar.py:509-548) -/
def arctan2Dispatch (y arg : Desc) : Option (M Res) :=
  if !y.isQ || !(y.cls == .scalar || y.cls == .boolean) then none
  else some do
    -- x = Scalar.as_scalar(arg)
    let x ← if arg.isQ then
        (if arg.cls == .boolean then pure (asInt arg)
         else if arg.cls == .scalar then pure arg
         else if arg.nrankV != 0 then throw .valueError else pure arg)
      else construct .scalar arg.kind arg.shape 0 0 none
    if !unitsCanMatch y.units x.units then throw .valueError
    if x.drank != 0 || y.drank != 0 then throw .valueError
    match bcast y.shape x.shape with
    | none => throw .valueError
    | some out =>
      pure { cls := .scalar, kind := .float, lead := out, numer := [], denom := [], plan := .ew false 0 0 0 0 }

/-! ### values -/

/-- reshape by inserting `r` unit axes at position `p`: the element at index `i` of the reshaped array is the element
    of the original array at `i` with those `r` entries removed -/
def insArr (a : Arr Int) (p r : Nat) : Arr Int :=
  ⟨insOnes a.shape p r, fun i => a.get (i.take p ++ i.drop (p + r))⟩

/-- the element functions on exact integers.  Operands are scaled by 8; `//` yields the unscaled quotient, `%` a
    remainder scaled by 8, `*` a product scaled by 64.  Python / NumPy floor semantics. -/
def elemFn : OpSym → Int → Int → Int
  | .add, x, y => x + y
  | .sub, x, y => x - y
  | .mul, x, y => x * y
  | .div, _, _ => 0
  | .floordiv, x, y => Int.fdiv x y
  | .mod, x, y => Int.fmod x y

/-- the value array the code computes for an element-wise plan: FULL NumPy broadcasting of the aligned arrays -/
def ewValues (op : OpSym) (pa ra pb rb : Nat) (A B : Arr Int) : Option (Arr Int) :=
  Arr.map2 (elemFn op) (insArr A pa ra) (insArr B pb rb)

/-- `Qube.dot(self, arg, -1, 0)` on the FULL value arrays, step by step (math_ops.py:215-232):
    `array1 = arg1._values_.reshape(shape1 + numer1 + (nrank2-1)*(1,) + denom1 + drank2*(1,))`,
    `array2 = arg2._values_.reshape(shape2 + (nrank1-1)*(1,) + numer2 + drank1*(1,) + denom2)`,
    both contraction axes rolled to the end (`np.rollaxis(array, k, array.ndim)` with `k1 = a1 + len(shape1)`,
    `k2 = a2 + len(shape2) + nrank1 - 1`), `array1 * array2` under FULL NumPy broadcasting, `np.sum(…, axis=-1)`.
    The building blocks `rollEnd` / `sumLast` are those of `PMV/Model/Algebra.lean` (C16). -/
def dotFull (a b : Desc) (A B : Arr Int) : Option (Arr Int) :=
  let la := a.shape.length
  let lb := b.shape.length
  let n1 := a.numer.length
  let n2 := b.numer.length
  let array1 : Arr Int :=
    ⟨a.shape ++ (a.numer ++ List.replicate (n2 - 1) 1 ++ a.denom ++ List.replicate b.denom.length 1),
     fun i => A.get (i.take (la + n1) ++ (i.drop (la + n1 + (n2 - 1))).take a.denom.length)⟩
  let array2 : Arr Int :=
    ⟨b.shape ++ (List.replicate (n1 - 1) 1 ++ b.numer ++ List.replicate a.denom.length 1 ++ b.denom),
     fun i => B.get (i.take lb ++ ((i.drop (lb + (n1 - 1))).take n2 ++ i.drop (lb + (n1 - 1) + n2 + a.denom.length)))⟩
  let k1 := la + (n1 - 1)
  let k2 := lb + (0 + (n1 - 1))
  let r1 := Algebra.rollEnd k1 array1
  let r2 := Algebra.rollEnd k2 array2
  (Arr.map2 (· * ·) r1 r2).map Algebra.sumLast

end PMV.Dispatch
