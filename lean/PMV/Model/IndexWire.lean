import PMV.Core.Sx
import PMV.Model.Index
/-
  Wire format (s-expressions) of the C09/C10 model drivers: parsers for masks, index entries and
  NumPy index entries, renderer for results.  Shared by Driver/C09.lean and Driver/C10.lean.
-/
namespace PMV.IndexWire
open PMV PMV.NpIndex PMV.Index

def arrOf {α} [Inhabited α] (shape : Shape) (data : List α) : Arr α := Arr.ofFlat shape data.toArray

/-- mask: `T`, `F` or the list of bits (row-major over the leading shape) -/
def parseMask (shape : Shape) : Sx → Option Mask
  | .atom "T" => some (.all true)
  | .atom "F" => some (.all false)
  | x => (x.bools?).map fun l => .arr (arrOf shape l)

def parseEntry : Sx → Option Entry
  | .list [.atom "none"] => some .none
  | .list [.atom "ell"] => some .ell
  | .list [.atom "slice", full, l] => do
    let full ← full.toBool?
    let l ← l.nats?
    some (.slice full l)
  | .list [.atom "int", k, m] => do
    let k ← k.toInt?
    let m ← m.toBool?
    some (.int k m)
  | .list [.atom "bool", v, m] => do
    let v ← v.toBool?
    let m ← m.toBool?
    some (.bool v m)
  | .list [.atom "iarr", sh, vs, m] => do
    let sh ← sh.nats?
    let vs ← vs.ints?
    let m ← parseMask sh m
    some (.iarr (arrOf sh vs) m)
  | .list [.atom "barr", sh, vs, m] => do
    let sh ← sh.nats?
    let vs ← vs.bools?
    let m ← parseMask sh m
    some (.barr (arrOf sh vs) m)
  | .list [.atom "vec", n, sh, vs, m] => do
    let n ← n.toNat?
    let sh ← sh.nats?
    let vs ← vs.ints?
    let m ← parseMask sh m
    let data := vs.toArray
    some (.vec n ⟨sh, fun i => (List.range n).map fun j => data[ravel sh i * n + j]!⟩ m)
  | .list [.atom "float"] => some .float
  | .list [.atom "bad"] => some .bad
  | _ => none

def parseEntries (x : Sx) : Option (List Entry) := do
  let l ← x.toList?
  l.mapM parseEntry

def parseNEntry : Sx → Option NEntry
  | .list [.atom "newaxis"] => some .newaxis
  | .list [.atom "ell"] => some .ell
  | .list [.atom "coords", l] => (l.nats?).map .coords
  | .list [.atom "int", k] => (k.toInt?).map .int
  | .list [.atom "arr", sh, vs] => do
    let sh ← sh.nats?
    let vs ← vs.ints?
    some (.arr (arrOf sh vs))
  | .list [.atom "barr", sh, vs] => do
    let sh ← sh.nats?
    let vs ← vs.bools?
    some (.barr (arrOf sh vs))
  | _ => none

def parseMasks (shape : Shape) (x : Sx) : Option (List Mask) := do
  let l ← x.toList?
  l.mapM (parseMask shape)

/-- `((shape) (m | source position …))` -/
def renderResult (srcShape : Shape) (r : Result) : Sx :=
  .list [Sx.ofNats r.shape,
         .list ((indices r.shape).map fun o =>
           if r.mask.bit o then Sx.atom "m" else Sx.ofNat (ravel srcShape (r.src o)))]

def renderResults (srcShape : Shape) : Option (List Result) → Sx
  | none => .atom "IndexError"
  | some rs => .list (rs.map (renderResult srcShape))

end PMV.IndexWire
