import PMV.Core.Shape
/-
  C11 view: `__getstate__` / `__setstate__` of polymath/extensions/pickler.py:799-1062
  (tree with the repairs of wt-C11: the ('INT', shape, dtype) step, the per-item reshape,
  and C08's read-only restoration).

  Values are OPAQUE BIT PATTERNS (`Bits = Nat`): for float data the IEEE-754 binary64
  pattern (so -0.0, subnormals, infinities and every NaN payload are ordinary, distinct
  values), for integer data the two's-complement pattern of the array's own width, for
  booleans 0/1.  An array of leading shape `shape` and item shape `item` is the row-major
  list of its items; an item is the row-major list of its `isize` scalars.

  Compression is a PARAMETER (`Params`): bz2 and lossless fpzip are `Codec`s (a pair of
  functions with `dec (enc x) = x`); everything `_encode_floats` does when a number of digits
  was requested (constant / scaled integers / float32 / lossy fpzip / per-item) is an
  arbitrary function pair `lossyEnc`/`lossyDec` about which nothing is assumed.
  `np.packbits`, the byte image of an integer array and all mask / antimask / corner logic are
  modelled concretely.
-/
namespace PMV.Pickle

abbrev Bits := Nat
abbrev Item := List Bits
abbrev Blob := List Nat

/-- a lossless compressor: the contract of `bz2.compress`/`bz2.decompress` and of
    `fpzip.compress(precision=full)`/`fpzip.decompress` -/
structure Codec (α β : Type) where
  enc : α → β
  dec : β → α
  roundtrip : ∀ x, dec (enc x) = x

def Codec.id (α : Type) : Codec α α := ⟨fun x => x, fun x => x, fun _ => rfl⟩

/-! ### np.packbits / np.unpackbits (big-endian bit order, zero padding) -/

def bit (b : Bool) : Nat := if b then 1 else 0

/-- one output byte of `np.packbits`: up to eight bits, first bit most significant,
    missing bits are zero -/
def pack8 (c : List Bool) : Nat :=
  128 * bit (c.getD 0 false) + 64 * bit (c.getD 1 false) + 32 * bit (c.getD 2 false)
    + 16 * bit (c.getD 3 false) + 8 * bit (c.getD 4 false) + 4 * bit (c.getD 5 false)
    + 2 * bit (c.getD 6 false) + bit (c.getD 7 false)

def odd (n : Nat) : Bool := n % 2 == 1

def unpack8 (n : Nat) : List Bool :=
  [odd (n / 128), odd (n / 64), odd (n / 32), odd (n / 16), odd (n / 8), odd (n / 4), odd (n / 2), odd n]

/-- `np.packbits(flat bool array)`; the fuel is the number of bits still to pack -/
def packbitsF : Nat → List Bool → List Nat
  | 0, _ => []
  | _ + 1, [] => []
  | f + 1, b :: bs => pack8 (b :: bs.take 7) :: packbitsF f (bs.drop 7)

def packbits (bs : List Bool) : List Nat := packbitsF bs.length bs

/-- `np.unpackbits(uint8 array)` -/
def unpackbits (l : List Nat) : List Bool := l.flatMap unpack8

/-! ### boolean-array gather `a[flags]` and scatter `new[...] = d; new[flags] = src` -/

/-- `a[flags]` for a Boolean index array over the leading axes: the selected elements in
    row-major order -/
def gather {α : Type} : List Bool → List α → List α
  | true :: fs, x :: xs => x :: gather fs xs
  | false :: fs, _ :: xs => gather fs xs
  | _, _ => []

/-- `new = np.empty(...); new[...] = d; new[flags] = src` (the caller checks that `src` has
    as many elements as `flags` has True entries, as NumPy does) -/
def scatter {α : Type} (d : α) : List Bool → List α → List α
  | [], _ => []
  | true :: fs, x :: xs => x :: scatter d fs xs
  | true :: fs, [] => d :: scatter d fs []
  | false :: fs, xs => d :: scatter d fs xs

def countTrue (fs : List Bool) : Nat := (fs.filter id).length

/-! ### corners (qube.py:1386-1467) -/

/-- `np.where(occupied)[0][0]` -/
def firstTrue : List Bool → Nat
  | [] => 0
  | b :: bs => if b then 0 else firstTrue bs + 1

/-- `np.where(occupied)[0][-1] + 1`, or 0 when no entry is True -/
def endTrue : List Bool → Nat
  | [] => 0
  | b :: bs =>
    let e := endTrue bs
    if e = 0 then (if b then 1 else 0) else e + 1

/-- qube.py:1409-1412 `np.any(antimask, other_axes)`: entry `j` says whether some unmasked
    element has index `j` on `axis`.  `bits` is the row-major mask. -/
def occupied (shape : Shape) (bits : List Bool) (axis : Nat) : List Bool :=
  (List.range (shape.getD axis 0)).map fun j =>
    ((indices shape).zip bits).any fun p => !p.2 && p.1.getD axis 0 == j

/-- the loop qube.py:1408-1418; `none` is the early `return (index0, index0)` -/
def cornersLoop (shape : Shape) (bits : List Bool) : Nat → Nat → Option (List Nat × List Nat)
  | _, 0 => some ([], [])
  | axis, n + 1 =>
    let occ := occupied shape bits axis
    if endTrue occ = 0 then none
    else
      match cornersLoop shape bits (axis + 1) n with
      | none => none
      | some (lo, hi) => some (firstTrue occ :: lo, endTrue occ :: hi)

/-- `Qube._find_corners` for an array mask (qube.py:1404-1420) -/
def findCorners (shape : Shape) (bits : List Bool) : List Nat × List Nat :=
  match cornersLoop shape bits 0 shape.length with
  | none => (shape.map fun _ => 0, shape.map fun _ => 0)
  | some c => c

/-- `Qube._shape_from_corners` (qube.py:1447-1454) -/
def shapeFromCorners (lo hi : List Nat) : Shape := List.zipWith (fun u l => u - l) hi lo

/-- does the index lie in `slice(lo[0], hi[0]), slice(lo[1], hi[1]), …`
    (`Qube._slicer_from_corners`, qube.py:1436-1444) -/
def inBox : List Nat → List Nat → Index → Bool
  | l :: ls, u :: us, i :: is => (decide (l ≤ i) && decide (i < u)) && inBox ls us is
  | _, _, _ => true

/-- for every row-major position of an array of shape `shape`: is it inside the slicer?
    `a[slicer]` (copied, C order) is `gather (boxFlags …) a`, and
    `new = ones(shape); new[slicer] = c` is `scatter true (boxFlags …) c`. -/
def boxFlags (shape : Shape) (lo hi : List Nat) : List Bool := (indices shape).map (inBox lo hi)

/-! ### integer arrays as bytes (`bz2.compress(values)` reads the buffer; `np.frombuffer`) -/

/-- little-endian bytes of one `w`-byte word -/
def leBytes : Nat → Nat → List Nat
  | 0, _ => []
  | w + 1, x => x % 256 :: leBytes w (x / 256)

def ofLeBytes : List Nat → Nat
  | [] => 0
  | b :: bs => b + 256 * ofLeBytes bs

/-- split a list into consecutive chunks of `k`; the fuel bounds the number of chunks -/
def chunks {α : Type} (k : Nat) : Nat → List α → List (List α)
  | 0, _ => []
  | _ + 1, [] => []
  | f + 1, x :: xs => (x :: xs).take k :: chunks k f ((x :: xs).drop k)

/-- the bytes of one `w`-byte word in the array's byte order -/
def wordBytes (be : Bool) (w x : Nat) : List Nat := if be then (leBytes w x).reverse else leBytes w x

def ofWordBytes (be : Bool) (bs : List Nat) : Nat := ofLeBytes (if be then bs.reverse else bs)

/-- the buffer of a C-contiguous integer array of item width `w` and byte order `be` (True = big-endian) -/
def intBytes (be : Bool) (w : Nat) (items : List Item) : Blob := items.flatten.flatMap (wordBytes be w)

/-! ### objects -/

inductive Kind where | float | int | bool
  deriving DecidableEq, Repr

/-- signedness and byte order of an integer dtype (`dtype.str`: '<i4', '>u2', …) -/
structure IntFmt where
  signed : Bool
  be : Bool
  deriving DecidableEq, Repr

/-- dtype 'int' as NumPy resolves it here: signed, little-endian -/
def IntFmt.native : IntFmt := ⟨true, false⟩

/-- NumPy dtype of an array: float64, an integer of `w` bytes (signed or not, either byte order), bool -/
inductive DType where
  | float
  | int (w : Nat) (fmt : IntFmt)
  | bool
  deriving DecidableEq, Repr

def DType.kind : DType → Kind
  | .float => .float | .int _ _ => .int | .bool => .bool

/-- dtype='int' / 'float' / 'bool' as NumPy resolves them -/
def DType.ofKind : Kind → DType
  | .float => .float | .int => .int 8 IntFmt.native | .bool => .bool

/-- `_pickle_digits` entry: 'double', 'single' or a number (an opaque tag: the harness sends the value in thousandths) -/
inductive Digits where | double | single | num (tag : Nat)
  deriving DecidableEq, Repr

inductive Mask where
  | scalar (b : Bool)
  | array (bits : List Bool)
  deriving DecidableEq, Repr

def Mask.all : Mask → Bool
  | .scalar b => b
  | .array bits => bits.all id
def Mask.any : Mask → Bool
  | .scalar b => b
  | .array bits => bits.any id

inductive Vals where
  /-- a Python scalar (`numbers.Real` / `np.bool_`) -/
  | single (x : Bits)
  /-- an ndarray: its shape and its items in row-major order -/
  | array (vshape : Shape) (items : List Item)
  deriving DecidableEq, Repr

/-- a Qube without its derivatives -/
structure Obj where
  cls : String
  shape : Shape
  numer : Shape
  denom : Shape
  dtype : DType
  vals : Vals
  mask : Mask
  units : Nat
  readonly : Bool
  /-- WRITEABLE flag of the `_values_` / `_mask_` ndarray (irrelevant for scalars) -/
  valsW : Bool
  maskW : Bool
  default : Item
  /-- `_pickle_digits` if the attribute exists -/
  digits : Option (Digits × Digits)
  /-- keys present in `_cache_` -/
  cache : List String
  /-- data-dependent: does the encoder end up storing the whole array literally although it is above
      the cutoff?  (`fpzip.compress` fails with "memory buffer overflow" and `_fpzip_encoded` stores the
      literal array, pickler.py `_fpzip_encoded`; possible under every digits setting.)
      An arbitrary input of the model: the theorems hold for either answer. -/
  fpzipFails : Bool
  deriving DecidableEq, Repr

def Obj.item (o : Obj) : Shape := o.numer ++ o.denom
def Obj.isize (o : Obj) : Nat := size o.item

/-- a Qube with its derivatives (which carry none of their own: `insert_deriv` strips them) -/
structure QObj where
  self : Obj
  derivs : List (String × Obj)
  deriving Repr

/-! ### the pickled state -/

inductive MStep where
  | corners (lo hi : List Nat)
  | bool (shape : Shape) (size : Nat)
  deriving DecidableEq, Repr

inductive VStep where
  | allMasked
  | antimasked
  | float (d : Digits)
  /-- `dt = none` is the form written before the dtype was recorded -/
  | int (vshape : Shape) (dt : Option (Nat × IntFmt))
  | bool (vshape : Shape) (size : Nat)
  deriving DecidableEq, Repr

/-- result of `_encode_floats` (pickler.py:635-694) -/
inductive FEnc where
  | literal (vshape : Shape) (items : List Item)
  | f64 (vshape : Shape) (bits : Nat) (blob : Blob)
  | other (vshape : Shape) (o : Blob)
  deriving DecidableEq, Repr

def FEnc.vshape : FEnc → Shape
  | .literal v _ => v | .f64 v _ _ => v | .other v _ => v

/-- what `_values_` holds in the state and while it is being decoded -/
inductive PV where
  | single (x : Bits)
  | none
  | floats (e : FEnc)
  | blob (b : Blob)
  | arr (dt : DType) (vshape : Shape) (items : List Item) (writable : Bool)
  deriving DecidableEq, Repr

inductive PM where
  | scalar (b : Bool)
  | blob (b : Blob)
  | arr (bits : List Bool)
  deriving DecidableEq, Repr

structure St where
  cls : String
  shape : Shape
  numer : Shape
  denom : Shape
  units : Nat
  readonly : Bool
  default : Item
  /-- Python type / dtype kind of `_default_` and of a scalar `_values_` -/
  kind : Kind
  digits : Digits × Digits
  vals : PV
  mask : PM
  valsEnc : List VStep
  maskEnc : List MStep
  deriving DecidableEq, Repr

structure QSt where
  self : St
  derivs : List (String × St)
  deriving Repr

structure Params where
  /-- FPZIP_ENCODING_CUTOFF -/
  cutoff : Nat
  bz2 : Codec Blob Blob
  /-- fpzip at full precision (`bits = 0`), including the reshaping to at most four axes -/
  fpzip : Codec (List Item) Blob
  /-- whatever `_encode_floats` produces when digits is 'single' or a number: the
      data-dependent choice among 'float32', lossy 'fpzip', 'constant', 'scaled', 'float64'
      and per-item 'items' -/
  lossyEnc : Digits → Shape → List Item → Blob
  lossyDec : Blob → List Item

/-! ### __getstate__ -/

/-- `_check_pickle_digits` (pickler.py:294-316): a missing attribute means 'double' -/
def checkDigits (d : Option (Digits × Digits)) : Digits × Digits := d.getD (.double, .double)

/-- `ndarray.size` of an array given as its list of items -/
def asize (items : List Item) : Nat := items.flatten.length

/-- `_encode_floats` (pickler.py:660-694) -/
def encodeFloats (P : Params) (d : Digits) (fails : Bool) (vshape : Shape) (items : List Item) : FEnc :=
  if asize items ≤ P.cutoff then .literal vshape items
  else if fails then .literal vshape items          -- `_fpzip_encoded`: fpzip refused the array, under ANY digits setting
  else match d with
    | .double => .f64 vshape 0 (P.fpzip.enc items)
    | d => .other vshape (P.lossyEnc d vshape items)

/-- `_decode_floats` (pickler.py:722-758) -/
def decodeFloats (P : Params) : FEnc → List Item
  | .literal _ items => items
  | .f64 _ _ blob => P.fpzip.dec blob
  | .other _ o => P.lossyDec o

/-- the per-dtype step, pickler.py:888-912 -/
def valueStep (P : Params) (dt : DType) (d : Digits) (fails : Bool) (vshape : Shape) (items : List Item) :
    List VStep × PV :=
  match dt with
  | .float => ([.float d], .floats (encodeFloats P d fails vshape items))
  | .int w s => ([.int vshape (some (w, s))], .blob (P.bz2.enc (intBytes s.be w items)))
  | .bool => ([.bool vshape (asize items)],
              .blob (P.bz2.enc (packbits (items.flatten.map fun x => x != 0))))

def Obj.toSt (q : Obj) (vals : PV) (mask : PM) (ve : List VStep) (me : List MStep) : St :=
  { cls := q.cls, shape := q.shape, numer := q.numer, denom := q.denom, units := q.units,
    readonly := q.readonly, default := q.default, kind := q.dtype.kind,
    digits := checkDigits q.digits, vals := vals, mask := mask, valsEnc := ve, maskEnc := me }

def Mask.toPM : Mask → PM
  | .scalar b => .scalar b
  | .array bits => .arr bits

/-- pickler.py:830-912 for one object: the state, the antimask used for the derivatives
    (`none` = Python `None`), and the cache keys written on `self` -/
def getstate1 (P : Params) (q : Obj) : St × Option (List Bool) × List String :=
  match q.vals with
  | .single x =>
    -- a masked single value is not stored: the state holds the default (pickler.py, single-value branch)
    (q.toSt (.single (if q.mask.all then q.default.getD 0 0 else x)) q.mask.toPM [] [], none, [])
  | .array vshape items =>
    if q.mask.all then
      (q.toSt .none (.scalar true) [.allMasked] [], none, [])
    else
      let mask' := if !q.mask.any then Mask.scalar false else q.mask
      match mask' with
      | .scalar b =>
        let (ve, v) := valueStep P q.dtype (checkDigits q.digits).1 q.fpzipFails vshape items
        (q.toSt v (.scalar b) ve [], none, [])
      | .array bits =>
        let c := findCorners q.shape bits
        let cropped := shapeFromCorners c.1 c.2 != q.shape
        let m := if cropped then gather (boxFlags q.shape c.1 c.2) bits else bits
        let mshape := if cropped then shapeFromCorners c.1 c.2 else q.shape
        let me := (if cropped then [MStep.corners c.1 c.2] else []) ++ [MStep.bool mshape m.length]
        let am := bits.map (!·)
        let g := gather am items
        let (ve, v) := valueStep P q.dtype (checkDigits q.digits).1 q.fpzipFails (g.length :: q.item) g
        (q.toSt v (.blob (P.bz2.enc (packbits m))) (.antimasked :: ve) me, some am,
          ["corners"] ++ (if cropped then ["slicer"] else []) ++ ["antimask"])

/-- pickler.py:923-940 for one derivative -/
def getstateDeriv (P : Params) (pd : Digits × Digits) (antimask : Option (List Bool)) (d : Obj) : St :=
  match antimask with
  | none => (getstate1 P d).1
  | some am =>
    let vals := match d.vals with
      | .array _ items => let g := gather am items; Vals.array (g.length :: d.item) g
      | v => v
    (getstate1 P { d with digits := some (d.digits.getD (pd.2, pd.2)), vals := vals,
                          mask := .scalar false }).1

/-- `_validate_pickle_digits` (pickler.py:319-347) for ONE entry: a number is clipped to the range single..double
    (6.924 .. 15.654 digits, tags in thousandths) unless THAT entry's reference is a number -/
def clampDigit (refIsNumber : Bool) : Digits → Digits
  | .num t => if refIsNumber then .num t else .num (min (max 6924 t) 15654)
  | d => d

/-- … entry by entry: entry `k` of the digits looks at entry `k` of the references -/
def validateDigits (p : Digits × Digits) (refIsNumber : Bool × Bool) : Digits × Digits :=
  (clampDigit refIsNumber.1 p.1, clampDigit refIsNumber.2 p.2)

/-- `set_pickle_digits` (pickler.py:134-200) after validation of the two pairs: the object gets the pair, every
    derivative it carries AT THAT MOMENT gets the second entry twice (a derivative is pickled as an object of its
    own and reads entry 0).  References are not modelled (opaque to the structural model). -/
def setDigits (p : Digits × Digits) (q : QObj) : QObj :=
  ⟨{ q.self with digits := some p },
   q.derivs.map fun kd => (kd.1, { kd.2 with digits := some (p.2, p.2) })⟩

def addCache (o : Obj) (keys : List String) : Obj :=
  { o with cache := o.cache ++ keys.filter (fun k => !o.cache.contains k) }

/-- `__getstate__`: the state and the object afterwards (only `_cache_` entries are added; a
    derivative pickled whole (`new_deriv = deriv`) gets its own cache entries) -/
def getstate (P : Params) (q : QObj) : QSt × QObj :=
  let r := getstate1 P q.self
  let ds := q.derivs.map fun kd => (kd.1, getstateDeriv P r.1.digits r.2.1 kd.2)
  let derivs' := q.derivs.map fun kd =>
    (kd.1, match r.2.1 with
           | none => addCache kd.2 (getstate1 P kd.2).2.2
           | some _ => kd.2)
  (⟨r.1, ds⟩, ⟨addCache q.self r.2.2, derivs'⟩)

/-! ### __setstate__ -/

/-- pickler.py:965-984; the list is `mask_encoding` in pop order (last step first) -/
def decodeMaskLoop (P : Params) (shape : Shape) : List MStep → PM → Option PM
  | [], m => some m
  | .bool _ size :: rest, .blob b =>
    decodeMaskLoop P shape rest (.arr ((unpackbits (P.bz2.dec b)).take size))
  | .corners lo hi :: rest, .arr m =>
    let flags := boxFlags shape lo hi
    if m.length = countTrue flags then decodeMaskLoop P shape rest (.arr (scatter true flags m))
    else none
  | _, _ => none

/-- `np.frombuffer(bytes, dtype).reshape(vshape)` regrouped into items of `isz` scalars -/
def decodeInts (be : Bool) (w isz : Nat) (vshape : Shape) (bytes : Blob) : Option (List Item) :=
  if w = 0 ∨ bytes.length % w ≠ 0 then none
  else
    let flat := (chunks w bytes.length bytes).map (ofWordBytes be)
    if flat.length = size vshape then some (chunks isz flat.length flat) else none

/-- pickler.py:993-1029; the list is `vals_encoding` in pop order.  The Bool threaded
    through is the local `values_is_writable`. -/
def decodeValsLoop (P : Params) (s : St) (antimask : Option (List Bool)) :
    List VStep → PV → Bool → Option (PV × Bool)
  | [], v, viw => some (v, viw)
  | .int vshape dt :: rest, .blob b, viw =>
    let ws := dt.getD (8, IntFmt.native)
    match decodeInts ws.2.be ws.1 (size (s.numer ++ s.denom)) vshape (P.bz2.dec b) with
    | some items => decodeValsLoop P s antimask rest (.arr (.int ws.1 ws.2) vshape items false) viw
    | none => none
  | .bool vshape sz :: rest, .blob b, _ =>
    let flat := ((unpackbits (P.bz2.dec b)).take sz).map bit
    decodeValsLoop P s antimask rest
      (.arr .bool vshape (chunks (size (s.numer ++ s.denom)) flat.length flat) true) true
  | .float _ :: rest, .floats e, _ =>
    decodeValsLoop P s antimask rest
      (.arr .float e.vshape (decodeFloats P e) true) true
  | .antimasked :: rest, .arr dt _ items _, _ =>
    match antimask with
    | none => none
    | some am =>
      if items.length = countTrue am then
        decodeValsLoop P s antimask rest
          (.arr dt (s.shape ++ (s.numer ++ s.denom)) (scatter s.default am items) true) true
      else none
  | .allMasked :: rest, _, _ =>
    decodeValsLoop P s antimask rest
      (.arr (DType.ofKind s.kind) (s.shape ++ (s.numer ++ s.denom))
            ((indices s.shape).map fun _ => s.default) true) true
  | _, _, _ => none

/-- pickler.py:945-1041 for one state: the object and its antimask (`none` = `None`) -/
def setstate1 (P : Params) (s : St) : Option (Obj × Option (List Bool)) :=
  match decodeMaskLoop P s.shape s.maskEnc.reverse s.mask with
  | none => none
  | some (.blob _) => none
  | some m =>
    let antimask := match m with | .arr bits => some (bits.map (!·)) | _ => none
    match decodeValsLoop P s antimask s.valsEnc.reverse s.vals s.valsEnc.isEmpty with
    | none => none
    | some (v, viw) =>
      let mask := match m with | .arr bits => Mask.array bits | .scalar b => .scalar b | .blob _ => .scalar false
      let base : Obj :=
        { cls := s.cls, shape := s.shape, numer := s.numer, denom := s.denom,
          dtype := DType.ofKind s.kind, vals := .single 0, mask := mask, units := s.units,
          readonly := s.readonly, valsW := true, maskW := true, default := s.default,
          digits := some s.digits, cache := [], fpzipFails := false }
      match v with
      | .single x => some ({ base with vals := .single x }, antimask)
      | .arr dt vshape items w =>
        -- pickler.py:1035-1041 (with the repair of defect 16): a read-only object gets
        -- non-writeable arrays; otherwise a non-writeable buffer view is copied
        let valsW := if s.readonly then false else (if viw then w else true)
        some ({ base with dtype := dt, vals := .array vshape items, valsW := valsW,
                          maskW := !s.readonly }, antimask)
      | _ => none

/-- pickler.py:1047-1062 for one derivative; `pmask` is the parent's decoded mask -/
def setstateDeriv (P : Params) (parent : Obj) (antimask : Option (List Bool)) (ds : St) : Option Obj :=
  match setstate1 P ds with
  | none => none
  | some (d, _) =>
    let d? : Option Obj := match antimask with
      | none => some d
      | some am =>
        match d.vals with
        | .array _ items =>
          if items.length = countTrue am then
            some { d with vals := .array (parent.shape ++ d.item) (scatter d.default am items),
                          dtype := .float, mask := parent.mask,
                          valsW := !ds.readonly, maskW := parent.maskW && !ds.readonly }
          else none
        | .single _ => none
    match d? with
    | none => none
    | some d =>
      -- insert_deriv (qube.py:1527-1529): a read-only parent makes the derivative read-only
      if parent.readonly && !d.readonly then
        some { d with readonly := true, valsW := false, maskW := false }
      else some d

def mapOpt {α β : Type} (f : α → Option β) : List α → Option (List β)
  | [] => some []
  | x :: xs => match f x, mapOpt f xs with
    | some y, some ys => some (y :: ys)
    | _, _ => none

/-- `__setstate__` -/
def setstate (P : Params) (s : QSt) : Option QObj :=
  match setstate1 P s.self with
  | none => none
  | some (o, antimask) =>
    match mapOpt (fun kd => (setstateDeriv P o antimask kd.2).map fun d => (kd.1, d)) s.derivs with
    | none => none
    | some ds =>
      -- a read-only derivative that was given the parent's mask array freezes that array
      -- (all derivatives and the parent share that one ndarray)
      let frozen := antimask.isSome && s.derivs.any fun kd => kd.2.readonly
      some ⟨{ o with maskW := o.maskW && !frozen },
            ds.map fun kd => (kd.1, { kd.2 with maskW := kd.2.maskW && !frozen })⟩

/-- the state as written before the dtype was recorded in the INT step -/
def VStep.legacy : VStep → VStep
  | .int v _ => .int v none
  | s => s
def St.legacy (s : St) : St := { s with valsEnc := s.valsEnc.map VStep.legacy }

/-! ### observation -/

/-- the mask expanded to one bit per element -/
def Obj.maskBits (o : Obj) : List Bool :=
  match o.mask with
  | .scalar b => (indices o.shape).map fun _ => b
  | .array bits => bits

/-- the values as a list of items, one per element -/
def Obj.itemsList (o : Obj) : List Item :=
  match o.vals with
  | .single x => [[x]]
  | .array _ items => items

end PMV.Pickle

namespace PMV.Pickle

/-! ### a concrete lossless codec for the driver (stands in for fpzip at full precision) -/

def lpEnc (items : List Item) : Blob := items.flatMap fun it => it.length :: it

def lpDecF : Nat → Blob → List Item
  | 0, _ => []
  | _ + 1, [] => []
  | f + 1, n :: rest => rest.take n :: lpDecF f (rest.drop n)

def lpDec (b : Blob) : List Item := lpDecF b.length b

theorem lpDecF_enc (items : List Item) : ∀ f, (lpEnc items).length ≤ f → lpDecF f (lpEnc items) = items := by
  induction items with
  | nil => intro f _; cases f <;> rfl
  | cons it rest ih =>
    intro f hf
    have hE : lpEnc (it :: rest) = it.length :: (it ++ lpEnc rest) := by
      simp [lpEnc, List.flatMap_cons]
    rw [hE] at hf ⊢
    cases f with
    | zero => simp at hf
    | succ f =>
      simp only [lpDecF]
      have h1 : (it ++ lpEnc rest).take it.length = it := by simp
      have h2 : (it ++ lpEnc rest).drop it.length = lpEnc rest := by simp
      rw [h1, h2, ih f (by simp at hf; omega)]

/-- length-prefixed serialisation of a list of items -/
def Codec.lenPrefixed : Codec (List Item) Blob :=
  ⟨lpEnc, lpDec, fun x => lpDecF_enc x _ (Nat.le_refl _)⟩

end PMV.Pickle

namespace PMV.Pickle

/-! ### per-item encoding (pickler.py `_encode_floats` 700-712 / `_decode_floats` 765-776) -/

/-- `values.reshape((-1, item_size)).swapaxes(0, 1)`: one flat array per item component, each
    holding that component of every element (`rows` = the elements, each a list of `isz` scalars) -/
def itemColumns {α : Type} [Inhabited α] (isz : Nat) (rows : List (List α)) : List (List α) :=
  (List.range isz).map fun k => rows.map fun r => r.getD k default

/-- `values[k] = decoded item k; np.moveaxis(values, 0, -1)`: element `i` collects entry `i` of
    every component array -/
def itemRows {α : Type} [Inhabited α] (n : Nat) (cols : List (List α)) : List (List α) :=
  (List.range n).map fun i => cols.map fun c => c.getD i default

end PMV.Pickle
