/-
  C02 view (shared with C01): per-element, code-shaped semantics of the arithmetic / math-function
  catalogue on a cell {stored value, mask bit}.  The value stored under a mask is carried
  explicitly ("hidden value"), so a theorem can say that no primitive is applied outside its
  domain *even at masked elements* (NumPy evaluates the whole array).

  NumPy / libm primitives are PARTIAL here: applying one outside its domain yields `Trap.warn`
  (the RuntimeWarning NumPy would emit, together with the NaN / infinity it would store).  The
  library code is written around them: zero replacement before dividing, domain guards before
  sqrt / log / arcsin / arccos / exp, NaN/inf scrub after the one deliberately warning-suppressed
  region (`Scalar.__pow__`, array branch).  `Trap.raise` is the documented `ValueError` of the
  `check=False` / `nozeros=True` fast paths (a warning turned into an error and re-raised).

  Values live in any type `K` with the operations of class `Num` (instances: `Rat` for the
  driver and the proofs, `Int` for the integer kinds).  libm is a parameter (`Fns K`).

    division, floor division, modulo     polymath/qube.py:3408-3479, 3586-3606, 3722-3744
    mask_where_eq / lt / le / gt         polymath/extensions/mask_ops.py:78-241
    sqrt log exp arcsin arccos           polymath/scalar.py:379-483, 551-700
    _func_of_unmasked (fast paths)       polymath/scalar.py:551-573
    reciprocal                           polymath/scalar.py:1301-1343
    power                                polymath/scalar.py:1459-1621
    element_div                          polymath/vector.py:646-723
    unit / norm                          polymath/vector.py:380-412, extensions/math_ops.py:273-320
    Matrix.inverse                       polymath/matrix.py:321-378
    Quaternion.reciprocal                polymath/quaternion.py:673-686
-/
namespace PMV.Elem

/-- the arithmetic the code performs on values -/
class Num (K : Type) extends Add K, Sub K, Mul K, Div K, Neg K where
  zero : K
  one : K
  half : K
  lt : K → K → Bool
  eq : K → K → Bool
  /-- `np.floor` -/
  floor : K → K
  /-- the value is a whole number (`x == np.floor(x)`) -/
  isInt : K → Bool

namespace Num
variable {K : Type} [Num K]
def le (x y : K) : Bool := lt x y || eq x y
def gt (x y : K) : Bool := lt y x
def isZero (x : K) : Bool := eq x zero
end Num

open Num

/-- the facts about constants and comparisons the proofs need; they hold in every ordered
    field (instances for `Rat` and `Int` are proved in `Props/C02.lean`) -/
class NumLaws (K : Type) [Num K] : Prop where
  eq_iff : ∀ x y : K, Num.eq x y = true ↔ x = y
  one_ne_zero : Num.eq (one : K) zero = false
  not_one_lt_zero : Num.lt (one : K) zero = false
  zero_in_unit : Num.lt (zero : K) (-one) = false ∧ Num.lt (one : K) zero = false
  lt_irrefl : ∀ x : K, Num.lt x x = false
  /-- a sum of squares is never negative (norm, norm_sq) -/
  sq_nonneg : ∀ x : K, Num.lt (x * x) zero = false
  add_nonneg : ∀ x y : K, Num.lt x zero = false → Num.lt y zero = false →
    Num.lt (x + y) zero = false

inductive Warn where
  | divZero | invalid | overflow
  deriving DecidableEq, Repr

/-- outcome of a computation: a value, an escaped NumPy warning (with NaN/inf stored), or the
    documented ValueError -/
inductive Trap (α : Type) where
  | ok (a : α)
  | warn (w : Warn)
  | raise
  deriving Repr, DecidableEq

namespace Trap
def bind {α β} (t : Trap α) (f : α → Trap β) : Trap β :=
  match t with
  | ok a => f a
  | warn w => warn w
  | raise => raise
instance : Monad Trap where
  pure := ok
  bind := bind
/-- `with warnings.catch_warnings(): warnings.filterwarnings('error'); try: … except
    RuntimeWarning: raise ValueError(…)` (also catches ZeroDivisionError of Python floats) -/
def asError {α} : Trap α → Trap α
  | warn _ => raise
  | t => t
def isOk {α} : Trap α → Bool
  | ok _ => true
  | _ => false
end Trap

open Trap

/-- libm / NumPy ufuncs as a parameter -/
structure Fns (K : Type) where
  sqrt : K → K
  log : K → K
  exp : K → K
  sin : K → K
  cos : K → K
  tan : K → K
  asin : K → K
  acos : K → K
  atan : K → K
  atan2 : K → K → K
  /-- `x ** y` for a non-integral `y` and `x ≥ 0` -/
  powr : K → K → K
  /-- overflow threshold of `exp` -/
  expMax : K

structure Cell (K : Type) where
  v : K
  m : Bool
  deriving Repr, DecidableEq

variable {K : Type} [Num K]

/-! ### partial primitives (NumPy ufuncs on one element) -/

def pdiv (x y : K) : Trap K := if isZero y then warn .divZero else ok (x / y)
def pfloordiv (x y : K) : Trap K := if isZero y then warn .divZero else ok (floor (x / y))
def pmod (x y : K) : Trap K := if isZero y then warn .divZero else ok (x - floor (x / y) * y)
def psqrt (F : Fns K) (x : K) : Trap K := if lt x zero then warn .invalid else ok (F.sqrt x)
def plog (F : Fns K) (x : K) : Trap K :=
  if isZero x then warn .divZero else if lt x zero then warn .invalid else ok (F.log x)
def pexp (F : Fns K) (x : K) : Trap K := if lt F.expMax x then warn .overflow else ok (F.exp x)
def pasin (F : Fns K) (x : K) : Trap K :=
  if lt x (-one) || lt one x then warn .invalid else ok (F.asin x)
def pacos (F : Fns K) (x : K) : Trap K :=
  if lt x (-one) || lt one x then warn .invalid else ok (F.acos x)

/-- integer power by repeated multiplication (total) -/
def npow (x : K) : Nat → K
  | 0 => one
  | n + 1 => npow x n * x

/-- result of NumPy's `x ** y` inside `simplefilter('ignore')`: a finite value, NaN or ±inf -/
inductive PowRes (K : Type) where
  | fin (v : K)
  | nan
  | inf

/-- the exponent as a natural number and its sign, when whole (`none` otherwise) -/
structure IntExp where
  neg : Bool
  abs : Nat

/-- NumPy `**` on one element; `ie` is the exponent as an integer when `isInt e` -/
def powRaw (F : Fns K) (x e : K) (ie : Option IntExp) : PowRes K :=
  match ie with
  | some ⟨false, n⟩ => .fin (npow x n)
  | some ⟨true, n⟩ => if isZero x then .inf else .fin (one / npow x n)
  | none =>
    if lt x zero then .nan
    else if isZero x then (if lt e zero then .inf else .fin zero)
    else .fin (F.powr x e)

/-! ### the mask_where family on one element -/

/-- `obj.mask_where(sel, replace=r)`: the selected element gets the replacement value and is
    masked (mask_ops.py:7-74: `obj[mask] = replace; obj.remask_or(mask)`); this is what every
    branch of `mask_where` (nothing selected / shapeless / array) does to one element -/
def maskWhere (sel : Bool) (r : K) (x : Cell K) : Cell K := if sel then ⟨r, true⟩ else x

/-! ### the check=False / nozeros=True fast paths

`Scalar._func_of_unmasked` (scalar.py:551-573): the function is first applied to the whole
array with warnings turned into errors; if that trips (`tripped`, an array-level fact: some
element, masked or not, is outside the domain) it is re-applied with the values underneath the
mask replaced by a safe constant, and only if THAT trips the documented ValueError is raised.
So only an unmasked value can make the fast path raise. -/

def fastEval (prim : K → Trap K) (safe : K) (tripped : Bool) (x : Cell K) : Trap K :=
  match prim x.v with
  | ok r => if tripped then (prim (if x.m then safe else x.v)).asError else ok r
  | _ => (prim (if x.m then safe else x.v)).asError

/-- did the first attempt trip on this element -/
def trips (prim : K → Trap K) (x : Cell K) : Bool := !(prim x.v).isOk

/-! ### division family -/

/-- `_div_by_number` (qube.py:3408-3422) -/
def divByNumber (x : Cell K) (c : K) : Trap (Cell K) :=
  if isZero c then ok ⟨x.v, true⟩                       -- obj._set_mask_(True)
  else do let q ← pdiv x.v c; ok ⟨q, x.m⟩

/-- `_div_by_scalar` (qube.py:3424-3446): `arg = arg.mask_where_eq(0., 1.)` -/
def divByScalar (x y : Cell K) : Trap (Cell K) :=
  let y' := maskWhere (isZero y.v) one y
  do let q ← pdiv x.v y'.v; ok ⟨q, x.m || y'.m⟩

/-- `_floordiv_by_scalar` (qube.py:3586-3606) -/
def floordivByScalar (x y : Cell K) : Trap (Cell K) :=
  let y' := maskWhere (isZero y.v) one y
  do let q ← pfloordiv x.v y'.v; ok ⟨q, x.m || y'.m⟩

/-- `_mod_by_scalar` (qube.py:3722-3744) -/
def modByScalar (x y : Cell K) : Trap (Cell K) :=
  let y' := maskWhere (isZero y.v) one y
  do let q ← pmod x.v y'.v; ok ⟨q, x.m || y'.m⟩

/-- `_floordiv_by_number`, `_mod_by_number` (qube.py:3574-3584, 3704-3720) -/
def floordivByNumber (x : Cell K) (c : K) : Trap (Cell K) :=
  if isZero c then ok ⟨x.v, true⟩ else do let q ← pfloordiv x.v c; ok ⟨q, x.m⟩
def modByNumber (x : Cell K) (c : K) : Trap (Cell K) :=
  if isZero c then ok ⟨x.v, true⟩ else do let q ← pmod x.v c; ok ⟨q, x.m⟩

/-- `Scalar.reciprocal` (scalar.py:1301-1343) -/
def reciprocalFast (tripped : Bool) (x : Cell K) : Trap (Cell K) :=
  do let q ← fastEval (pdiv one) one tripped x; ok ⟨q, x.m⟩

/-- `nozeros = true` here is the one-element array (it trips iff this element does);
    `reciprocalFast` is an element of a larger array -/
def reciprocal (nozeros : Bool) (x : Cell K) : Trap (Cell K) :=
  if nozeros then reciprocalFast (trips (pdiv one) x) x
  else
    let d := maskWhere (isZero x.v) one x
    do let q ← pdiv one d.v; ok ⟨q, d.m⟩

/-- number / Scalar: `self.reciprocal(recursive).__mul__(arg)` (qube.py:3367-3372) -/
def rdivNumber (c : K) (x : Cell K) : Trap (Cell K) :=
  do let r ← reciprocal false x; ok ⟨r.v * c, r.m⟩

/-! ### guarded functions -/

/-- `Scalar.sqrt` (scalar.py:551-590) -/
def sqrtFast (F : Fns K) (tripped : Bool) (x : Cell K) : Trap (Cell K) :=
  do let r ← fastEval (psqrt F) one tripped x; ok ⟨r, x.m⟩

def sqrt (F : Fns K) (check : Bool) (x : Cell K) : Trap (Cell K) :=
  if check then
    let n := maskWhere (lt x.v zero) one x               -- mask_where_lt(0., replace=1.)
    do let r ← psqrt F n.v; ok ⟨r, n.m⟩
  else sqrtFast F (trips (psqrt F) x) x

/-- `Scalar.log` (scalar.py:593-629) -/
def logFast (F : Fns K) (tripped : Bool) (x : Cell K) : Trap (Cell K) :=
  do let r ← fastEval (plog F) one tripped x; ok ⟨r, x.m⟩

def log (F : Fns K) (check : Bool) (x : Cell K) : Trap (Cell K) :=
  if check then
    let n := maskWhere (le x.v zero) one x               -- mask_where_le(0., replace=1.)
    do let r ← plog F n.v; ok ⟨r, n.m⟩
  else logFast F (trips (plog F) x) x

/-- `Scalar.exp` (scalar.py:632-673, repaired: RuntimeWarning is caught; overflowing elements
    are replaced by 0).  `EXP_CUTOFF = log(max float)` is the overflow threshold `F.expMax`. -/
def expFast (F : Fns K) (tripped : Bool) (x : Cell K) : Trap (Cell K) :=
  do let r ← fastEval (pexp F) zero tripped x; ok ⟨r, x.m⟩

def exp (F : Fns K) (check : Bool) (x : Cell K) : Trap (Cell K) :=
  if check then
    let n := maskWhere (gt x.v F.expMax) zero x          -- mask_where_gt(EXP_CUTOFF, replace=0.)
    do let r ← pexp F n.v; ok ⟨r, n.m⟩
  else expFast F (trips (pexp F) x) x

/-- `Scalar.arcsin` (scalar.py:379-430); `acos` selects arccos (scalar.py:432-483) -/
def arcsinFast (F : Fns K) (acos : Bool) (tripped : Bool) (x : Cell K) : Trap (Cell K) :=
  do let r ← fastEval (if acos then pacos F else pasin F) zero tripped x; ok ⟨r, x.m⟩

def arcsin (F : Fns K) (acos : Bool) (check : Bool) (x : Cell K) : Trap (Cell K) :=
  let prim := if acos then pacos F else pasin F
  if check then
    let sel := lt x.v (-one) || gt x.v one               -- (values < -1) | (values > 1)
    let t : Cell K := if sel then ⟨zero, x.m || sel⟩ else x   -- temp_values[temp_mask] = 0.
    do let r ← prim t.v; ok ⟨r, t.m⟩
  else arcsinFast F acos (trips prim x) x

/-- sin, cos, tan, arctan: total, mask passed through (scalar.py:312-377, 486-507) -/
def total1 (f : K → K) (x : Cell K) : Trap (Cell K) := ok ⟨f x.v, x.m⟩

/-- arctan2 (scalar.py:509-548) -/
def arctan2 (F : Fns K) (y x : Cell K) : Trap (Cell K) := ok ⟨F.atan2 y.v x.v, x.m || y.m⟩

/-! ### power -/

/-- Python's `float ** float` / `int ** int` on shape-() operands (scalar.py:1566-1576):
    `ZeroDivisionError` for 0 to a negative power, a complex result for a negative base and a
    fractional exponent; both lead to `masked_single()`.  `dflt` is the class default. -/
def pow0D (F : Fns K) (dflt : K) (x e : Cell K) (ie : Option IntExp) : Trap (Cell K) :=
  match powRaw F x.v e.v ie with
  | .fin v => ok ⟨v, x.m || e.m⟩
  | .nan => ok ⟨dflt, true⟩       -- complex result: not a numbers.Real
  | .inf => ok ⟨dflt, true⟩       -- ZeroDivisionError caught

/-- array branch (scalar.py:1579-1601): warnings are suppressed on purpose, then NaN and inf are
    replaced by 1 and masked -/
def powArr (F : Fns K) (x e : Cell K) (ie : Option IntExp) : Trap (Cell K) :=
  let m := x.m || e.m
  match powRaw F x.v e.v ie with
  | .fin v => ok ⟨v, m⟩
  | .nan => ok ⟨one, m || true⟩
  | .inf => ok ⟨one, m || true⟩

/-- easy powers (scalar.py:1459-1531): 0,1,2,3,4 by multiplication; -1 reciprocal; 1/2 sqrt;
    -1/2 sqrt then reciprocal -/
inductive Easy where
  | p0 | p1 | p2 | p3 | p4 | m1 | half | mhalf
  deriving DecidableEq, Repr

def powEasy (F : Fns K) (k : Easy) (x : Cell K) : Trap (Cell K) :=
  match k with
  | .p0 => ok ⟨one, x.m⟩
  | .p1 => ok x
  | .p2 => ok ⟨x.v * x.v, x.m⟩
  | .p3 => ok ⟨x.v * (x.v * x.v), x.m⟩
  | .p4 => ok ⟨(x.v * x.v) * (x.v * x.v), x.m⟩
  | .m1 => reciprocal false x
  | .half => sqrt F true x
  | .mhalf => do let s ← sqrt F true x; reciprocal false s

/-! ### items with several components -/

structure VCell (K : Type) where
  vals : List K
  m : Bool
  deriving Repr, DecidableEq

/-- each component divided, traps propagate -/
def divAll : List K → List K → Trap (List K)
  | x :: xs, y :: ys => do let q ← pdiv x y; let qs ← divAll xs ys; ok (q :: qs)
  | _, _ => ok []

/-- `Vector.element_div` (vector.py:646-693): zero components of the divisor are replaced by 1,
    the element is masked if any component was zero -/
def elementDiv (x y : VCell K) : Trap (VCell K) :=
  let zero_mask := y.vals.map isZero
  let divisor := y.vals.map fun c => if isZero c then one else c
  let divisor_mask := y.m || zero_mask.any id
  do let q ← divAll x.vals divisor; ok ⟨q, x.m || divisor_mask⟩

def sumSq : List K → K
  | [] => zero
  | x :: xs => x * x + sumSq xs

/-- `Qube.norm` (math_ops.py:273-320): `np.sqrt(np.sum(values**2))`, mask passed through -/
def norm (F : Fns K) (x : VCell K) : Trap (Cell K) :=
  do let r ← psqrt F (sumSq x.vals); ok ⟨r, x.m⟩

/-- vector / Scalar: `_div_by_scalar` on every component -/
def vdivByScalar (x : VCell K) (y : Cell K) : Trap (VCell K) :=
  let y' := maskWhere (isZero y.v) one y
  do let q ← divAll x.vals (x.vals.map fun _ => y'.v); ok ⟨q, x.m || y'.m⟩

/-- `Vector.unit` (vector.py:400-412): `self / self.norm()` -/
def unit (F : Fns K) (x : VCell K) : Trap (VCell K) :=
  do let n ← norm F x; vdivByScalar x n

/-- `Quaternion.reciprocal` (quaternion.py:673-686): `conj() / norm_sq()`; `conj` negates the
    vector part -/
def conj : List K → List K
  | [] => []
  | s :: v => s :: v.map (- ·)

def quatReciprocal (x : VCell K) : Trap (VCell K) :=
  vdivByScalar ⟨conj x.vals, x.m⟩ ⟨sumSq x.vals, x.m⟩

/-- `Matrix.inverse` (matrix.py:321-378).  LAPACK is a parameter: `det` and `inv`; `inv` traps
    (LinAlgError / warning) on a matrix whose `det` is zero.  Singular matrices are replaced by
    the identity and masked. -/
structure Lapack (K : Type) where
  det : List K → K
  inv : List K → List K
  ident : List K

def pinv (L : Lapack K) (a : List K) : Trap (List K) :=
  if isZero (L.det a) then warn .divZero else ok (L.inv a)

def matInverse (L : Lapack K) (nozeros : Bool) (x : VCell K) : Trap (VCell K) :=
  if nozeros then do let r ← (pinv L x.vals).asError; ok ⟨r, x.m⟩
  else
    let sing := isZero (L.det x.vals)
    let a := if sing then L.ident else x.vals
    do let r ← pinv L a; ok ⟨r, x.m || sing⟩

/-! ### derivative formulas that divide again -/

/-- one derivative component with its own mask -/
abbrev DCell := Cell

/-- Scalar * Scalar on one element (`_mul_by_scalar`, qube.py:3261-3283) -/
def mul (x y : Cell K) : Cell K := ⟨x.v * y.v, x.m || y.m⟩

/-- `_div_derivs(arg, nozeros=True)` after `arg.mask_where_eq(0., 1.)` (qube.py:3448-3479):
    `arg_wod_inv = arg.wod.reciprocal(nozeros=True)`; numerator derivative `dx * inv`,
    denominator derivative `-(x * (dy * inv * inv))`.  `y` is the divisor BEFORE replacement. -/
def divDerivX (dx y : Cell K) : Trap (DCell K) :=
  let y' := maskWhere (isZero y.v) one y
  do let inv ← reciprocal true y'; ok (mul dx inv)

def divDerivY (x dy y : Cell K) : Trap (DCell K) :=
  let y' := maskWhere (isZero y.v) one y
  do let inv ← reciprocal true y'
     let t := mul ⟨x.v, x.m⟩ (mul (mul dy inv) inv)
     ok ⟨-t.v, t.m⟩

/-- `reciprocal`: `factor = -obj*obj; factor * deriv` (scalar.py:1336-1341) -/
def reciprocalDeriv (dx x : Cell K) : Trap (DCell K) :=
  do let o ← reciprocal false x
     let f : Cell K := ⟨-(o.v * o.v), o.m || o.m⟩
     ok (mul f dx)

/-- `log`: `deriv / no_negs` (scalar.py:625-627) — a Scalar/Scalar division by the replaced
    operand -/
def logDeriv (dx x : Cell K) : Trap (DCell K) :=
  let n := maskWhere (le x.v zero) one x
  divByScalar dx n

/-- `sqrt`: `factor = 0.5 / obj; factor * deriv` (scalar.py:585-588), i.e.
    `obj.reciprocal() * 0.5` -/
def sqrtDeriv (F : Fns K) (dx x : Cell K) : Trap (DCell K) :=
  do let o ← sqrt F true x
     let f ← rdivNumber half o
     ok (mul f dx)

/-- arcsin' / arccos': `factor = ±(1. - self.wod**2)**(-0.5)` (scalar.py:424-427, 478-481); the
    exponent -0.5 is an easy power: `sqrt()` then `reciprocal()` (scalar.py:1515-1516) -/
def arcsinDeriv (F : Fns K) (acos : Bool) (dx x : Cell K) : Trap (DCell K) :=
  let w : Cell K := ⟨one - x.v * x.v, x.m⟩
  do let s ← sqrt F true w
     let f ← reciprocal false s
     let f' : Cell K := if acos then ⟨-f.v, f.m⟩ else f
     ok (mul f' dx)

/-- generic power: `factor = expo * self.__pow__(expo-1, recursive=False)` (scalar.py:1615-1619);
    `ie1` is the whole-number reading of `expo - 1` -/
def powDeriv (F : Fns K) (zeroD : Bool) (dflt : K) (dx x e : Cell K) (ie1 : Option IntExp) :
    Trap (DCell K) :=
  let e1 : Cell K := ⟨e.v - one, e.m⟩
  do let p ← (if zeroD then pow0D F dflt x e1 ie1 else powArr F x e1 ie1)
     ok (mul (mul e p) dx)

def dotList : List K → List K → K
  | x :: xs, y :: ys => x * y + dotList xs ys
  | _, _ => zero

/-- norm': `factor = arg.wod / obj; Qube.dot(factor, deriv)` (math_ops.py:311-316) -/
def normDeriv (F : Fns K) (dx x : VCell K) : Trap (DCell K) :=
  do let n ← norm F x
     let f ← vdivByScalar ⟨x.vals, x.m⟩ n
     ok ⟨dotList f.vals dx.vals, f.m || dx.m⟩

/-- unit' = (self / norm)': `_div_derivs` with the norm's own derivative (qube.py:3448-3479):
    `dx * inv - x * (dn * inv * inv)`, `inv = reciprocal(nozeros=True)` of the replaced norm -/
def unitDeriv (F : Fns K) (dx x : VCell K) : Trap (VCell K) :=
  do let n ← norm F x
     let nd ← normDeriv F dx x
     let n' := maskWhere (isZero n.v) one n
     let inv ← reciprocal true n'
     let t := mul (mul nd inv) inv
     ok ⟨List.zipWith (fun d c => d * inv.v - c * t.v) dx.vals x.vals, (dx.m || inv.m) || (x.m || t.m)⟩

/-- Quaternion.reciprocal' = (conj / norm_sq)': norm_sq' = `dot(2 x, dx)` (math_ops.py:362-367) -/
def quatReciprocalDeriv (dx x : VCell K) : Trap (VCell K) :=
  let ns : Cell K := ⟨sumSq x.vals, x.m⟩
  let nsd : Cell K := ⟨dotList (x.vals.map fun c => (one + one) * c) dx.vals, x.m || dx.m⟩
  let n' := maskWhere (isZero ns.v) one ns
  do let inv ← reciprocal true n'
     let t := mul (mul nsd inv) inv
     ok ⟨List.zipWith (fun d c => d * inv.v - c * t.v) (conj dx.vals) (conj x.vals),
         (dx.m || inv.m) || (x.m || t.m)⟩

/-! ### instances -/

instance : Num Rat where
  zero := 0
  one := 1
  half := (1 : Rat) / 2
  lt x y := decide (x < y)
  eq x y := decide (x = y)
  floor x := (x.floor : Rat)
  isInt x := x.den == 1

/-- integer kinds (`/` is not used on them by the theorems; `//` and `%` are) -/
instance : Num Int where
  zero := 0
  one := 1
  half := 0
  lt x y := decide (x < y)
  eq x y := decide (x = y)
  floor x := x
  isInt _ := true

end PMV.Elem
